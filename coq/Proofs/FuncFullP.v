(* Lemmas about Model/FuncFull.v (C12): dense tensors, the dense routines as multi-index sums,
   agreement of the TT and the dense routines. *)
From Coq Require Import List Arith Lia Ring PeanoNat ZArith Bool.
From TV Require Import Num.Ops Lin.Tab Lin.BigSum Lin.Mat TT.Chain Model.Func Model.FuncFull Proofs.FuncP.
Import ListNotations.

Section FuncFullP.
Context {T : Type} (K : ops T).
Notation "0" := (o0 K). Notation "1" := (o1 K).
Infix "+" := (oadd K). Infix "*" := (omul K). Infix "-" := (osub K). Infix "/" := (odiv K).
Notation ftwo := (ftwo K).
Hypothesis Rth : rng K.
Add Ring RrFuncFullP : Rth.

Lemma tget_mk ns : forall f idx, inb ns idx -> tget K (mktens ns f) idx = f idx.
Proof.
  induction ns as [|n ns IH]; intros f idx H.
  - inversion H; subst. reflexivity.
  - destruct idx as [|i idx]; [inversion H|]. apply inb_cons in H as [Hi H]. cbn [mktens tget].
    rewrite nth_tab by auto. now rewrite IH.
Qed.
Lemma tget_tfull Y idx : inb (shape Y) idx -> tget K (tfull K Y) idx = get K Y idx.
Proof. intros H. unfold tfull. now rewrite tget_mk. Qed.

(* ---------------------------------------------------------------- contraction loops (func_get_full, func_sum_full) *)
Lemma contract_loop_msum ns : forall ts Q, length ts = length ns ->
  tget K (contract_loop K ns ts Q) [] = msum K ns (fun idx => bprod K ts idx * tget K Q idx).
Proof.
  induction ns as [|n ns IH]; intros [|t ts] Q L; cbn [length] in L; try discriminate.
  - cbn [contract_loop msum bprod]. ring.
  - cbn [contract_loop msum]. rewrite IH by lia.
    rewrite (msum_ext K ns _ (fun idx => bsum K n (fun i => bprod K (t :: ts) (i :: idx) * tget K Q (i :: idx)))).
    2:{ intros idx Hi. rewrite tget_mk by auto. rewrite <- bsum_mul_l by auto.
        apply bsum_ext; intros i Hn. cbn [bprod]. ring. }
    apply msum_bsum_swap; auto.
Qed.
Lemma nth_firstn_lt {A} (l : list A) n i d : i < n -> nth i (firstn n l) d = nth i l d.
Proof.
  revert n i; induction l as [|x l IH]; intros n i H; [now rewrite firstn_nil|].
  destruct n; [lia|]. destruct i; cbn [firstn nth]; auto. apply IH. lia.
Qed.
Lemma bprod_basis_rows_full nmax : forall ns x a b idx,
  length x = length ns -> length a = length ns -> length b = length ns ->
  Forall (fun n => n <= nmax) ns -> inb ns idx ->
  bprod K (basis_rows_full K nmax x ns a b) idx = tprod K (scaled K x a b) idx.
Proof.
  induction ns as [|n ns IH]; intros [|xk x] [|ak a] [|bk b] idx Lx La Lb Hm Hi; cbn [length] in *; try discriminate.
  - reflexivity.
  - destruct idx as [|i idx]; [inversion Hi|]. apply inb_cons in Hi as [Hi Hi']. inversion Hm; subst.
    cbn [basis_rows_full bprod scaled tprod]. rewrite nth_firstn_lt by auto.
    rewrite (nth_func_basis1 K) by lia. rewrite IH; auto.
Qed.
Lemma basis_rows_full_length nmax : forall ns x a b,
  length x = length ns -> length a = length ns -> length b = length ns ->
  length (basis_rows_full K nmax x ns a b) = length ns.
Proof.
  induction ns as [|n ns IH]; intros [|xk x] [|ak a] [|bk b] Lx La Lb; cbn [length] in *; try discriminate; auto.
  cbn [basis_rows_full length]; try (f_equal; apply IH; lia).
Qed.
Lemma le_fold_max ns : Forall (fun n => n <= fold_right Nat.max O ns) ns.
Proof.
  induction ns as [|n ns IH]; constructor; cbn [fold_right]; [lia|].
  eapply Forall_impl; [|exact IH]. cbv beta. intros; lia.
Qed.
(* evaluation in the dense format: inside the box, the polynomial with coefficient tensor A *)
Lemma func_get_full1_in tol x ns A a b z skip :
  length x = length ns -> length a = length ns -> length b = length ns ->
  skip && out_box K tol x a b = false ->
  func_get_full1 K tol x ns A a b z skip = polyv K ns (tget K A) (scaled K x a b).
Proof.
  intros Lx La Lb Hin. unfold func_get_full1. rewrite Hin.
  rewrite contract_loop_msum by (now apply basis_rows_full_length).
  apply msum_ext; intros idx Hi. rewrite bprod_basis_rows_full; auto using le_fold_max. ring.
Qed.
Lemma func_get_full1_out tol x ns A a b z : out_box K tol x a b = true ->
  func_get_full1 K tol x ns A a b z true = z.
Proof. intros H. unfold func_get_full1. now rewrite H. Qed.

(* tt_eq_dense, evaluation: func_get on a TT-tensor = func_get_full on its dense array (every point, in or out) *)
Theorem func_get_tt_eq_dense tol x A a b z skip : chain 1 A 1 ->
  length x = length A -> length a = length A -> length b = length A ->
  func_get_full1 K tol x (shape A) (tfull K A) a b z skip = func_get1 K tol x A a b z skip.
Proof.
  intros HC Lx La Lb. assert (LS : length (shape A) = length A) by (unfold shape; apply map_length).
  destruct (skip && out_box K tol x a b) eqn:E.
  - unfold func_get_full1, func_get1, func_get1_rows. now rewrite E.
  - rewrite func_get_full1_in, (func_get1_in K Rth) by (auto; lia).
    apply polyv_ext. intros m Hm. now apply tget_tfull.
Qed.

(* ---------------------------------------------------------------- list bookkeeping for "axis k" *)
Lemma firstn_S_nth {A} (l : list A) d : forall k, k < length l -> firstn (S k) l = firstn k l ++ [nth k l d].
Proof.
  induction l as [|x l IH]; intros k H; cbn [length] in H; [lia|].
  destruct k; [reflexivity|]. cbn [firstn nth app]. f_equal. apply IH. lia.
Qed.
Lemma inb_firstn ns idx : inb ns idx -> forall k, inb (firstn k ns) (firstn k idx).
Proof.
  unfold inb. induction 1; intros k; destruct k; cbn [firstn]; constructor; auto.
Qed.
Lemma upd_S k j i idx : upd (S k) j (i :: idx) = i :: upd k j idx.
Proof. reflexivity. Qed.
Lemma inb_upd j : forall k ns idx, inb ns idx -> k < length ns -> j < nth k ns O -> inb ns (upd k j idx).
Proof.
  induction k; intros [|n ns] [|i idx] H Hk Hj; cbn [length] in Hk; try lia; try (inversion H; fail).
  - apply inb_cons in H as [Hi H]. cbn [nth] in Hj. unfold upd. cbn [firstn skipn app]. apply inb_cons; auto.
  - apply inb_cons in H as [Hi H]. cbn [nth] in Hj. rewrite upd_S. apply inb_cons. split; auto. apply IHk; auto. lia.
Qed.
Lemma firstn_upd j : forall k idx, k <= length idx -> firstn k (upd k j idx) = firstn k idx.
Proof.
  induction k; intros [|i idx] H; cbn [length] in H; try lia; auto.
  rewrite upd_S. cbn [firstn]. f_equal. apply IHk. lia.
Qed.
Lemma skipn_upd j : forall k idx, k <= length idx -> skipn k (upd k j idx) = j :: skipn (S k) idx.
Proof.
  induction k; intros idx H.
  - reflexivity.
  - destruct idx as [|i idx]; cbn [length] in H; [lia|]. rewrite upd_S. cbn [skipn]. rewrite IHk by lia. reflexivity.
Qed.
Lemma nth_upd j : forall k idx, k < length idx -> nth k (upd k j idx) O = j.
Proof.
  induction k; intros [|i idx] H; cbn [length] in H; try lia; [reflexivity|].
  rewrite upd_S. cbn [nth]. apply IHk. lia.
Qed.
Lemma gprod_app F : forall ns1 ns2 i1 i2 j1 j2, length i1 = length ns1 -> length j1 = length ns1 ->
  gprod K F (ns1 ++ ns2) (i1 ++ i2) (j1 ++ j2) = gprod K F ns1 i1 j1 * gprod K F ns2 i2 j2.
Proof.
  induction ns1 as [|n ns1 IH]; intros ns2 [|i i1] i2 [|j j1] j2 L1 L2; cbn [length] in *; try discriminate.
  - cbn [app gprod]. ring.
  - cbn [app gprod]. rewrite IH by lia. ring.
Qed.

(* ---------------------------------------------------------------- a loop of 1-D linear maps over the axes *)
Section AxisLoop.
Variable F : nat -> nat -> nat -> T.
Variable f : nat -> list T -> nat -> T.
Variable ns : list nat.
Hypothesis Hf : forall n x i, In n ns -> length x = n -> i < n ->
  f n x i = bsum K n (fun j => F n i j * nth j x 0).

Lemma tget_taxis A k idx : inb ns idx -> k < length ns ->
  tget K (taxis K ns k (f (nth k ns O)) A) idx =
  bsum K (nth k ns O) (fun j => F (nth k ns O) (nth k idx O) j * tget K A (upd k j idx)).
Proof.
  intros Hi Hk. unfold taxis. rewrite tget_mk by auto.
  rewrite Hf; [| apply nth_In; auto | apply tab_length | apply inb_nth; auto].
  apply bsum_ext; intros j Hj. now rewrite nth_tab.
Qed.
Lemma axis_loop_spec A : forall k, k <= length ns -> forall idx, inb ns idx ->
  tget K (fold_left (fun A k => taxis K ns k (f (nth k ns O)) A) (seq 0 k) A) idx =
  msum K (firstn k ns) (fun jj => gprod K F (firstn k ns) (firstn k idx) jj * tget K A (jj ++ skipn k idx)).
Proof.
  induction k as [|k IH]; intros Hk idx Hi.
  - cbn [seq fold_left firstn msum gprod skipn app]. ring.
  - pose proof (inb_length _ _ Hi) as Li.
    rewrite seq_S, fold_left_app. cbn [fold_left Nat.add].
    rewrite tget_taxis by (auto; lia).
    rewrite (firstn_S_nth ns O) by lia. rewrite (firstn_S_nth idx O) by lia.
    rewrite msum_app. cbn [msum].
    rewrite (bsum_ext K (nth k ns O) _ (fun j => msum K (firstn k ns) (fun jj =>
       gprod K F (firstn k ns ++ [nth k ns O]) (firstn k idx ++ [nth k idx O]) (jj ++ [j]) *
       tget K A ((jj ++ [j]) ++ skipn (S k) idx)))).
    2:{ intros j Hj. rewrite IH by (try lia; apply inb_upd; auto; lia).
        rewrite <- msum_mul_l by auto. apply msum_ext; intros jj Hjj.
        rewrite firstn_upd, skipn_upd by lia.
        pose proof (inb_length _ _ Hjj) as Ljj.
        assert (Lf : length (firstn k idx) = length (firstn k ns)) by (rewrite !firstn_length; lia).
        rewrite gprod_app by lia. cbn [gprod]. rewrite <- app_assoc. cbn [app]. ring. }
    symmetry. apply msum_bsum_swap; auto.
Qed.
Lemma axis_loop_full A idx : inb ns idx ->
  tget K (fold_left (fun A k => taxis K ns k (f (nth k ns O)) A) (seq 0 (length ns)) A) idx =
  msum K ns (fun jdx => gprod K F ns idx jdx * tget K A jdx).
Proof.
  intros Hi. rewrite axis_loop_spec by auto. pose proof (inb_length _ _ Hi) as Li.
  rewrite !firstn_all. rewrite <- Li, firstn_all, skipn_all.
  apply msum_ext; intros jj _. now rewrite app_nil_r.
Qed.
End AxisLoop.

(* ---------------------------------------------------------------- the dense routines as multi-index sums *)
Lemma bsum_rev n (f : nat -> T) : bsum K n f = bsum K n (fun i => f (n - 1 - i)%nat).
Proof.
  revert f; induction n as [|n IH]; intros f; [reflexivity|].
  rewrite bsum_S_l by auto. cbn [bsum]. replace (S n - 1 - n)%nat with O by lia.
  rewrite (IH (fun i => f (S i))).
  rewrite (bsum_ext K n (fun i => f (S n - 1 - i)%nat) (fun i => f (S (n - 1 - i)))).
  2:{ intros i Hi. f_equal. lia. }
  ring.
Qed.

Section DenseSpec.
Variable cs : nat -> nat -> T.
Variable sn : nat -> nat -> T.
Hypothesis Hdiv : forall x y, x / y = x * (1 / y).
(* what the model needs to know about the cosine table: cos 0, cos(k pi), cos(2 k pi - t) = cos t *)
Hypothesis Hcs0 : forall N, cs N O = 1.
Hypothesis HcsN : forall N k, 1 <= N -> cs N (N * k) = pm K k.
Hypothesis Hcs_sym : forall N j k, j <= 2 * N -> cs N ((2 * N - j) * k) = cs N (j * k).
Hypothesis HofZ_w : forall i, oofZ K (1 - Z.of_nat i * Z.of_nat i)%Z = 1 - fnat K i * fnat K i.

(* real part of the FFT of the even extension = DCT-I *)
Lemma fft_even_dct m x k : 2 <= m -> length x = m ->
  bsum K (2 * m - 2) (fun t => nth t (even_ext K m x) 0 * cs (m - 1) (t * k)) =
  dct1 K cs m (fun j => nth j x 0) k.
Proof.
  intros Hm Lx. destruct m as [|[|p]]; try lia.
  replace (2 * S (S p) - 2)%nat with (S (S p) + p)%nat by lia.
  replace (S (S p) - 1)%nat with (S p) by lia.
  rewrite bsum_split by auto. unfold even_ext. replace (S (S p) - 2)%nat with p by lia.
  (* first half: the vector itself *)
  rewrite (bsum_ext K (S (S p)) _ (fun t => nth t x 0 * cs (S p) (t * k))).
  2:{ intros t Ht. rewrite app_nth1 by lia. reflexivity. }
  (* second half: the mirrored interior, re-indexed *)
  rewrite (bsum_ext K p (fun i => nth (S (S p) + i) (x ++ tab p (fun s => nth (p - s) x 0)) 0 * cs (S p) ((S (S p) + i) * k))
             (fun i => (fun s => nth (S s) x 0 * cs (S p) (S s * k)) (p - 1 - i)%nat)).
  2:{ intros i Hi. cbv beta. rewrite app_nth2 by lia. rewrite Lx. replace (S (S p) + i - S (S p))%nat with i by lia.
      rewrite nth_tab by auto. replace (S (p - 1 - i)) with (p - i)%nat by lia. f_equal.
      replace (S (S p) + i)%nat with (2 * S p - (p - i))%nat by lia. apply Hcs_sym. lia. }
  rewrite <- (bsum_rev p (fun s => nth (S s) x 0 * cs (S p) (S s * k))).
  rewrite bsum_S_l by auto. cbn [bsum]. change (0 * k)%nat with O. rewrite Hcs0, HcsN by lia.
  unfold dct1. replace (S (S p) - 2)%nat with p by lia. replace (S (S p) - 1)%nat with (S p) by lia.
  unfold Func.ftwo. ring.
Qed.
Lemma int1_full_sum m x k : 2 <= m -> length x = m ->
  int1_full K cs m x k = bsum K m (fun j => dmat K cs m k j * nth j x 0).
Proof.
  intros Hm Lx. unfold int1_full. rewrite fft_even_dct by auto.
  rewrite (halve_ends_mul K Rth Hdiv), (Hdiv (dct1 K cs m _ k)), (dct1_sum K Rth) by auto.
  rewrite <- !bsum_mul_r by auto. apply bsum_ext; intros j Hj. unfold dmat. ring.
Qed.
Lemma func_int_full_spec ns Y idx : Forall (fun n => 2 <= n) ns -> inb ns idx ->
  tget K (func_int_full K cs ns Y) idx = msum K ns (fun jdx => gprod K (dmat K cs) ns idx jdx * tget K Y jdx).
Proof.
  intros Hn Hi. unfold func_int_full.
  apply (axis_loop_full (dmat K cs) (int1_full K cs) ns); auto.
  intros n x i Hin Lx Hlt. apply int1_full_sum; auto. rewrite Forall_forall in Hn. auto.
Qed.
(* tt_eq_dense, coefficients *)
Theorem func_int_tt_eq_dense Y idx : chain 1 Y 1 -> Forall (fun G => 2 <= cn G) Y -> inb (shape Y) idx ->
  tget K (func_int_full K cs (shape Y) (tfull K Y)) idx = get K (map (int_core K cs sn Cheb) Y) idx.
Proof.
  intros HC Hn Hi. rewrite func_int_full_spec; auto.
  - rewrite (get_int_cheb K Rth cs sn Hdiv) by auto. apply msum_ext; intros jdx Hj. now rewrite tget_tfull.
  - apply Forall_forall. intros n Hin. unfold shape in Hin. apply in_map_iff in Hin as (G & <- & HG).
    rewrite Forall_forall in Hn. auto.
Qed.

(* func_sum_full *)
Lemma sum_full_loop_msum : forall ns a b v, length a = length ns -> length b = length ns ->
  tget K (sum_full_loop K ns a b v) [] = msum K ns (fun idx => wprod K Cheb a b idx * tget K v idx).
Proof.
  induction ns as [|n ns IH]; intros [|ak a] [|bk b] v La Lb; cbn [length] in *; try discriminate.
  - cbn [sum_full_loop msum wprod]. ring.
  - cbn [sum_full_loop msum]. rewrite IH by lia.
    rewrite (msum_ext K ns _ (fun idx => bsum K n (fun i => wprod K Cheb (ak :: a) (bk :: b) (i :: idx) * tget K v (i :: idx)))).
    2:{ intros idx Hi. rewrite tget_mk by auto.
        rewrite (bsum_even K Rth n (fun i => tget K v (i :: idx) * ftwo / (1 - fnat K i * fnat K i))).
        rewrite <- bsum_mul_r, <- bsum_mul_l by auto. apply bsum_ext; intros i Hn. cbn [wprod]. unfold wsum.
        destruct (Nat.even i) eqn:E; [|ring].
        apply Nat.even_spec in E. destruct E as [q ->]. rewrite (Nat.mul_comm 2 q), Nat.div_mul by lia.
        unfold sum_p. rewrite (Nat.mul_comm q 2), HofZ_w.
        rewrite (Hdiv (tget K v ((2 * q)%nat :: idx) * ftwo)), (Hdiv ftwo). ring. }
    apply msum_bsum_swap; auto.
Qed.
Lemma func_sum_full_ok tol16 ns A a b : length a = length ns -> length b = length ns ->
  existsb (fun p => asym K tol16 (fst p) (snd p)) (combine a b) = false ->
  func_sum_full K tol16 ns A a b = Ok (vol K a b * msum K ns (fun m => wsprod K Cheb m * tget K A m)).
Proof.
  intros La Lb Hs. unfold func_sum_full. rewrite Hs. f_equal. rewrite sum_full_loop_msum by auto.
  rewrite <- msum_mul_l by auto. apply msum_ext; intros idx Hi.
  rewrite (wprod_vol K Rth) by (try lia; apply inb_length in Hi; lia). ring.
Qed.
Lemma func_sum_full_rejects tol16 ns A a b :
  existsb (fun p => asym K tol16 (fst p) (snd p)) (combine a b) = true ->
  func_sum_full K tol16 ns A a b = Err ValueError.
Proof. intros Hs. unfold func_sum_full. now rewrite Hs. Qed.
(* tt_eq_dense, integral *)
Theorem func_sum_tt_eq_dense tol16 A a b : chain 1 A 1 -> length a = length A -> length b = length A ->
  existsb (fun p => asym K tol16 (fst p) (snd p)) (combine a b) = false ->
  func_sum_full K tol16 (shape A) (tfull K A) a b = Ok (func_sum K A a b Cheb).
Proof.
  intros HC La Lb Hs. assert (LS : length (shape A) = length A) by (unfold shape; apply map_length).
  rewrite func_sum_full_ok by (auto; lia). f_equal. rewrite (func_sum_msum K Rth) by auto. f_equal.
  apply msum_ext; intros m Hm. now rewrite tget_tfull.
Qed.
End DenseSpec.
End FuncFullP.
