(* Lemmas about Model/Optima.v (C15), part 2 (ring-generic): product formula for the partial products,
   coverage of the index table when nothing is pruned, sizes of the table. *)
From Coq Require Import List Arith Lia PeanoNat ZArith Bool Permutation.
From TV Require Import Num.Ops Lin.Tab Lin.BigSum Lin.Mat TT.Chain Model.ActOne Model.GridInd Model.Optima
  Proofs.ActOneP Proofs.ActOneP2 Proofs.ActOneP3 Proofs.OptimaP.
Import ListNotations.

(* number of elements of a tensor of shape ns *)
Definition nel (ns : list nat) : nat := fold_right Nat.mul 1 ns.
Lemma nel_app a b : nel (a ++ b) = nel a * nel b.
Proof. unfold nel. induction a as [|x a IH]; cbn [fold_right app]; [lia|]. rewrite IH. lia. Qed.
Lemma nel_rev a : nel (rev a) = nel a.
Proof. induction a as [|x a IH]; [reflexivity|]. cbn [rev]. rewrite nel_app, IH. unfold nel. cbn [fold_right]. lia. Qed.
Lemma nel_pos ns : Forall (fun n => 1 <= n) ns -> 1 <= nel ns.
Proof. unfold nel. induction 1; cbn [fold_right]; [lia|]. nia. Qed.

(* the multi-index extended at the open end *)
Definition ext_idx (l2r : bool) (idx : list nat) (i : nat) : list nat := if l2r then idx ++ [i] else i :: idx.

Lemma wfo_snoc_inv {T} r (P : list (core T)) G idx' rl : wfo r (P ++ [G]) idx' rl ->
  exists idx i, idx' = idx ++ [i] /\ wfo r P idx (cr1 G) /\ i < cn G /\ cr2 G = rl.
Proof.
  revert r idx'; induction P as [|H P IH]; intros r [|j idx']; cbn [app wfo]; try tauto.
  - destruct idx' as [|? ?]; cbn [wfo]; [|tauto]. intros (A & B & C). exists [], j. cbn [wfo app]. auto.
  - intros (A & B & C). destruct (IH _ _ C) as (idx & i & -> & W & Hi & E).
    exists (j :: idx), i. cbn [wfo app]. auto.
Qed.

Lemma last_k_rev_all {A} k (l : list A) : length l <= k -> last_k_rev k l = rev l.
Proof. intros H. unfold last_k_rev. apply firstn_all2. now rewrite rev_length. Qed.
Lemma length_last_k_rev {A} k (l : list A) : length (last_k_rev k l) = Nat.min k (length l).
Proof. unfold last_k_rev. now rewrite firstn_length, rev_length. Qed.

(* contract of np.argsort used by the bookkeeping: a permutation of the positions *)
Definition argsort_perm {T} (argsort : nat -> list T -> list nat) : Prop :=
  forall c l, Permutation (argsort c l) (seq 0 (length l)).
Lemma argsort_perm_bound {T} (argsort : nat -> list T -> list nat) : argsort_perm argsort ->
  forall c l, Forall (fun t => t < length l) (argsort c l).
Proof.
  intros H c l. apply Forall_forall. intros t Ht. apply (Permutation_in _ (H c l)) in Ht.
  apply in_seq in Ht. lia.
Qed.
Lemma argsort_perm_length {T} (argsort : nat -> list T -> list nat) : argsort_perm argsort ->
  forall c l, length (argsort c l) = length l.
Proof. intros H c l. rewrite (Permutation_length (H c l)). apply seq_length. Qed.
Lemma argsort_perm_in {T} (argsort : nat -> list T -> list nat) : argsort_perm argsort ->
  forall c l t, t < length l -> In t (argsort c l).
Proof. intros H c l t Ht. apply (Permutation_in _ (Permutation_sym (H c l))). apply in_seq. lia. Qed.

Section Cover.
Context {T : Type} (K : ops T).
Notation "0" := (o0 K). Notation "1" := (o1 K).
Infix "+" := (oadd K). Infix "*" := (omul K). Infix "-" := (osub K).
Hypothesis Rth : rng K.
Add Ring RrOptima3 : Rth.

Definition gent (l2r : bool) (G : core T) (r i b : nat) : T := if l2r then cget K G r i b else cget K G b i r.

Lemma wfx_grow l2r (P : list (core T)) G idx i ro : wfx l2r P idx ro -> rin l2r G = ro -> i < cn G ->
  wfx l2r (grow l2r P G) (ext_idx l2r idx i) (rout l2r G).
Proof.
  destruct l2r; cbn [wfx grow ext_idx rin rout]; intros W Hr Hi.
  - eapply wfo_app; [exact W|]. cbn [wfo]. auto.
  - cbn [wfo]. rewrite Hr. auto.
Qed.
Lemma wfx_grow_inv l2r (P : list (core T)) G idx' ro' : wfx l2r (grow l2r P G) idx' ro' ->
  exists idx i, idx' = ext_idx l2r idx i /\ wfx l2r P idx (rin l2r G) /\ i < cn G /\ rout l2r G = ro'.
Proof.
  destruct l2r; cbn [wfx grow ext_idx rin rout]; intros W.
  - apply wfo_snoc_inv in W. exact W.
  - destruct idx' as [|i idx]; cbn [wfo] in W; [tauto|]. destruct W as (A & B & C).
    exists idx, i. auto.
Qed.

(* partial product of the grown chain at the extended multi-index *)
Lemma pval_grow l2r (P : list (core T)) G idx i b : wfx l2r P idx (rin l2r G) -> i < cn G -> b < rout l2r G ->
  pval K l2r (grow l2r P G) (rout l2r G) (ext_idx l2r idx i) b =
  bsum K (rin l2r G) (fun r => pval K l2r P (rin l2r G) idx r * gent l2r G r i b).
Proof.
  destruct l2r; cbn [wfx grow ext_idx rin rout pval gent]; intros W Hi Hb.
  - rewrite run_app by (eapply wfo_length; eauto). cbn [run]. rewrite nth_vstep by auto. reflexivity.
  - cbn [run].
    rewrite (run_decomp K Rth P _ _ (cr2 G) 1%nat W) by (rewrite ?vstep_length; auto).
    apply bsum_ext; intros r Hr. unfold dget. rewrite nth_vstep by lia.
    rewrite (bsum_single K Rth (cr1 G) b); auto.
    + rewrite nth_evec, Nat.eqb_refl by auto. ring.
    + intros a' Ha' Hne. rewrite nth_evec by auto. destruct (Nat.eqb_spec a' b); [contradiction|ring].
Qed.

(* ---- coverage: every in-bounds multi-index of the visited part is a row of the table ---- *)
Definition bcov (l2r : bool) (P : list (core T)) (ro : nat) (Ix : imat) : Prop :=
  forall idx, wfx l2r P idx ro -> exists t, t < length Ix /\ nth t Ix [] = idx.

(* position of the extended row in the extended table *)
Definition ext_pos (l2r : bool) (len n t i : nat) : nat := if l2r then t * n + i else i * len + t.
Lemma ext_pos_lt l2r len n t i : t < len -> i < n -> ext_pos l2r len n t i < (if l2r then len * n else n * len).
Proof. destruct l2r; cbn [ext_pos]; nia. Qed.
Lemma nth_beam_tab_ext l2r m (Ix : imat) n t i : rect m Ix -> t < length Ix -> i < n ->
  nth (ext_pos l2r (length Ix) n t i) (beam_tab l2r Ix n) [] = ext_idx l2r (nth t Ix []) i.
Proof.
  intros HR Ht Hi. destruct l2r; cbn [ext_pos ext_idx].
  - rewrite (nth_beam_tab_l m) by (auto; nia). destruct (divmod_mk t i n Hi) as [-> ->]. reflexivity.
  - rewrite (nth_beam_tab_r m) by (auto; nia). destruct (divmod_mk i t (length Ix) Ht) as [-> ->]. reflexivity.
Qed.

Lemma bcov_ext l2r (P : list (core T)) ro Ix G : rect (length P) Ix -> bcov l2r P ro Ix -> rin l2r G = ro ->
  bcov l2r (grow l2r P G) (rout l2r G) (beam_tab l2r Ix (cn G)).
Proof.
  intros HR HC Hr idx' W. destruct (wfx_grow_inv _ _ _ _ _ W) as (idx & i & -> & W' & Hi & _).
  rewrite Hr in W'. destruct (HC idx W') as (t & Ht & E).
  exists (ext_pos l2r (length Ix) (cn G) t i). split.
  - rewrite length_beam_tab. apply ext_pos_lt; auto.
  - rewrite (nth_beam_tab_ext l2r (length P)) by auto. now rewrite E.
Qed.
Lemma bcov_take l2r (P : list (core T)) ro Ix ind : bcov l2r P ro Ix ->
  (forall t, t < length Ix -> In t ind) -> bcov l2r P ro (itake Ix ind).
Proof.
  intros HC Hall idx W. destruct (HC idx W) as (t & Ht & E).
  destruct (In_nth _ _ O (Hall t Ht)) as (j & Hj & Ej).
  exists j. rewrite length_itake. split; [exact Hj|]. rewrite nth_itake by auto. now rewrite Ej.
Qed.
Lemma bcov_init l2r (G : core T) cs s : rin l2r G = 1%nat ->
  bcov l2r [G] (rout l2r G) (st_tab (beam_init K cs l2r G s)).
Proof.
  intros Hr idx W. unfold beam_init, st_tab. cbn [fst snd].
  assert (E : exists i, idx = [i] /\ i < cn G).
  { destruct l2r; cbn [wfx] in W; destruct idx as [|i [|? ?]]; cbn [wfo] in W; try tauto; exists i; tauto. }
  destruct E as (i & -> & Hi). exists i. unfold irange. rewrite tab_length, nth_tab by auto. auto.
Qed.
End Cover.

Section FullRun.
Context {T : Type} (K : ops T).
Hypothesis Rth : rng K.
Add Ring RrOptima4 : Rth.
Variable argsort : nat -> list T -> list nat.
Hypothesis AP : argsort_perm argsort.

Lemma shape_grow l2r (P : list (core T)) G : nel (shape (grow l2r P G)) = nel (shape P) * cn G.
Proof.
  destruct l2r; cbn [grow]; unfold shape.
  - rewrite map_app, nel_app. cbn [map]. unfold nel. cbn [fold_right]. lia.
  - cbn [map]. unfold nel. cbn [fold_right]. lia.
Qed.

(* what one pass does to the table: the selected rows of the extended table *)
Definition step_ind (l2r : bool) (k : nat) (st : nat * imat * mat T) (G : core T) : list nat :=
  last_k_rev k (argsort (fst (fst st)) (beam_norms K l2r (beam_ext K l2r (st_mat st) G))).
Lemma beam_step_tab l2r k s st G :
  st_tab (beam_step K argsort l2r k s st G) = itake (beam_tab l2r (st_tab st) (cn G)) (step_ind l2r k st G).
Proof. destruct st as [[c Ix] Q]. reflexivity. Qed.
Lemma length_norms_ext l2r c (P : list (core T)) ro st G : binv K l2r c P ro (st_tab st) (st_mat st) -> rin l2r G = ro ->
  length (beam_norms K l2r (beam_ext K l2r (st_mat st) G)) = length (beam_tab l2r (st_tab st) (cn G)).
Proof.
  intros HB Hr. rewrite length_beam_norms. destruct (binv_ext K Rth _ _ _ _ _ _ G HB Hr) as (HC & _). exact HC.
Qed.
Lemma length_step_ind l2r k c (P : list (core T)) ro st G : binv K l2r c P ro (st_tab st) (st_mat st) -> rin l2r G = ro ->
  length (step_ind l2r k st G) = Nat.min k (length (st_tab st) * cn G).
Proof.
  intros HB Hr. unfold step_ind. rewrite length_last_k_rev, (argsort_perm_length argsort AP).
  rewrite (length_norms_ext l2r c P ro st G HB Hr), length_beam_tab. destruct l2r; f_equal; lia.
Qed.
(* the table never becomes empty (k >= 1, mode sizes >= 1) *)
Lemma step_nonempty l2r k s c (P : list (core T)) ro st G : binv K l2r c P ro (st_tab st) (st_mat st) -> rin l2r G = ro ->
  1 <= k -> 1 <= cn G -> 1 <= length (st_tab st) -> 1 <= length (st_tab (beam_step K argsort l2r k s st G)).
Proof.
  intros HB Hr Hk Hn HL. rewrite beam_step_tab, length_itake, (length_step_ind l2r k c P ro st G HB Hr). nia.
Qed.

(* nothing is pruned as long as k is at least the number of partial multi-indices *)
Definition inv_full (l2r : bool) (c : T) (P : list (core T)) (ro : nat) (st : nat * imat * mat T) : Prop :=
  binv K l2r c P ro (st_tab st) (st_mat st) /\ bcov l2r P ro (st_tab st) /\ length (st_tab st) = nel (shape P).

Lemma step_ind_all l2r k c (P : list (core T)) ro st G : binv K l2r c P ro (st_tab st) (st_mat st) -> rin l2r G = ro ->
  length (st_tab st) * cn G <= k ->
  forall t, t < length (beam_tab l2r (st_tab st) (cn G)) -> In t (step_ind l2r k st G).
Proof.
  intros HB Hr Hk t Ht. unfold step_ind.
  pose proof (length_norms_ext l2r c P ro st G HB Hr) as L.
  rewrite last_k_rev_all.
  - apply -> in_rev. apply (argsort_perm_in argsort AP). now rewrite L.
  - rewrite (argsort_perm_length argsort AP), L, length_beam_tab. destruct l2r; lia.
Qed.

Lemma step_full l2r k s c (P : list (core T)) ro st G : inv_full l2r c P ro st -> rin l2r G = ro ->
  nel (shape P) * cn G <= k ->
  inv_full l2r (omul K c s) (grow l2r P G) (rout l2r G) (beam_step K argsort l2r k s st G).
Proof.
  intros (HB & HC & HL) Hr Hk. split; [|split].
  - exact (binv_step K Rth argsort (argsort_perm_bound argsort AP) l2r k s c P ro st G HB Hr).
  - rewrite beam_step_tab. apply bcov_take.
    + apply (bcov_ext l2r P ro); auto. eapply binv_rect; eauto.
    + apply (step_ind_all l2r k c P ro st G HB Hr). now rewrite HL.
  - rewrite beam_step_tab, length_itake, (length_step_ind l2r k c P ro st G HB Hr), HL, shape_grow. lia.
Qed.
End FullRun.

(* the chain seen from the sweep: first core, remaining cores in visiting order *)
Definition decomp_ok {T} (l2r : bool) (Z : list (core T)) (G0 : core T) (rest : list (core T)) : Prop :=
  rin l2r G0 = 1 /\ compat l2r (rout l2r G0) rest 1 /\ growall l2r [G0] rest = Z /\
  length Z = S (length rest) /\ nel (shape Z) = cn G0 * nel (shape rest) /\
  forall Pr : core T -> Prop, Forall Pr Z -> Pr G0 /\ Forall Pr rest.
Lemma decomp_l {T} (G0 : core T) rest : chain 1 (G0 :: rest) 1 -> decomp_ok true (G0 :: rest) G0 rest.
Proof.
  cbn [chain]. intros [H1 HC]. split; [exact H1|]. split; [apply compat_l; exact HC|]. split; [now rewrite growall_l|].
  split; [reflexivity|]. split; [reflexivity|]. intros Pr HF. inversion HF; auto.
Qed.
Lemma decomp_r {T} (G0 : core T) rest : chain 1 (rev rest ++ [G0]) 1 -> decomp_ok false (rev rest ++ [G0]) G0 rest.
Proof.
  intros HC. apply chain_snoc in HC. destruct HC as [HC H1].
  split; [exact H1|]. split; [apply compat_r; exact HC|]. split; [now rewrite growall_r|].
  split; [rewrite app_length, rev_length; cbn [length]; lia|]. split.
  - unfold shape. rewrite map_app, nel_app, map_rev, nel_rev. cbn [map]. unfold nel at 2. cbn [fold_right]. lia.
  - intros Pr HF. apply Forall_app in HF as [HF1 HF2]. inversion HF2; subst. split; auto.
    apply Forall_rev in HF1. now rewrite rev_involutive in HF1.
Qed.
Lemma beam_decomp {T} l2r (Z : list (core T)) : chain 1 Z 1 -> Z <> [] ->
  decomp_ok l2r Z (beam_first l2r Z) (beam_rest l2r Z).
Proof.
  intros HC Hne. destruct l2r.
  - pose proof (first_rest_l Z Hne) as E. rewrite E in HC. rewrite E at 1. apply decomp_l. exact HC.
  - pose proof (first_rest_r Z Hne) as E. rewrite E in HC. rewrite E at 1. apply decomp_r. exact HC.
Qed.

(* ---- any k >= 1: the table never becomes empty, so the returned first row exists and is in bounds ---- *)
Section AnyK.
Context {T : Type} (K : ops T).
Hypothesis Rth : rng K.
Variable argsort : nat -> list T -> list nat.
Hypothesis AP : argsort_perm argsort.

Lemma fold_nonempty l2r k s rest : forall c P ro st rf,
  binv K l2r c P ro (st_tab st) (st_mat st) -> compat l2r ro rest rf -> Forall (fun G => 1 <= cn G) rest ->
  1 <= k -> 1 <= length (st_tab st) ->
  1 <= length (st_tab (fold_left (beam_step K argsort l2r k s) rest st)).
Proof.
  induction rest as [|G rest IH]; intros c P ro st rf HB HC HF Hk HL; cbn [fold_left compat] in *; [exact HL|].
  destruct HC as [Hr HC]. pose proof (Forall_inv HF) as Hn. pose proof (Forall_inv_tail HF) as HF'. cbv beta in Hn.
  eapply IH; [exact (binv_step K Rth argsort (argsort_perm_bound argsort AP) l2r k s c P ro st G HB Hr)|exact HC|exact HF'|exact Hk|].
  eapply (step_nonempty K Rth argsort AP); eauto.
Qed.

Theorem beam_first_inb cs (Z : list (core T)) k l2r s : chain 1 Z 1 -> Z <> [] ->
  Forall (fun n => 1 <= n) (shape Z) -> 1 <= k ->
  inb (shape Z) (hd [] (st_tab (beam_run K argsort cs Z k l2r s))).
Proof.
  intros HC Hne Hn Hk.
  destruct (beam_rows K Rth argsort (argsort_perm_bound argsort AP) cs Z k l2r s HC Hne) as [_ H].
  assert (L : 1 <= length (st_tab (beam_run K argsort cs Z k l2r s))).
  { destruct (beam_decomp l2r Z HC Hne) as (H1 & Hcp & _ & _ & _ & HFa).
    assert (HFc : Forall (fun G : core T => 1 <= cn G) Z).
    { unfold shape in Hn. apply Forall_forall. intros G HG. rewrite Forall_forall in Hn. apply Hn. now apply in_map. }
    destruct (HFa _ HFc) as [Hn0 Hnr]. unfold beam_run.
    eapply fold_nonempty; [apply (binv_init K Rth); exact H1|exact Hcp|exact Hnr|exact Hk|].
    unfold beam_init, st_tab, irange. cbn [fst snd]. now rewrite tab_length. }
  destruct (st_tab (beam_run K argsort cs Z k l2r s)) as [|r0 tb] eqn:E; [cbn in L; lia|].
  cbn [hd]. apply (H O). cbn; lia.
Qed.
End AnyK.
