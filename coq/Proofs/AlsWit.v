(* C07: machine-checked witnesses over Qc.  (1) the pinned test `if not idx.any()` made the result depend on the
   order of the samples (finding F4, repaired by c571a78); (2) a concrete run of the model; (3) an instance of the
   solver contract. *)
From Coq Require Import List Arith Lia PeanoNat Bool Permutation ZArith QArith Qcanon.
From TV Require Import Num.Ops Lin.Tab Lin.BigSum Lin.Solve TT.Chain Model.Als.
Import ListNotations.
Close Scope Qc_scope. Close Scope Q_scope. Close Scope Z_scope.

Definition qz (z : Z) : Qc := Q2Qc (inject_Z z).
Definition showQ (q : Qc) : Z * Z := (Qnum (this q), Zpos (Qden (this q))).
Definition showY (Y : list (core Qc)) := map (fun G => map (map (map showQ)) (dat G)) Y.
Definition ones2 : list (core Qc) := [mk_core 1 2 1 [[[qz 1%Z]; [qz 1%Z]]]; mk_core 1 2 1 [[[qz 1%Z]; [qz 1%Z]]]].
Definition wS : list (@sample Qc) := [Smp [0; 0]%nat (qz 1%Z) (qz 1%Z); Smp [1; 0]%nat (qz 2%Z) (qz 1%Z); Smp [1; 1]%nat (qz 3%Z) (qz 1%Z)].
Definition wS' : list (@sample Qc) := [Smp [1; 0]%nat (qz 2%Z) (qz 1%Z); Smp [0; 0]%nat (qz 1%Z) (qz 1%Z); Smp [1; 1]%nat (qz 3%Z) (qz 1%Z)].

Lemma wS_perm : Permutation wS wS'. Proof. apply perm_swap. Qed.

Lemma pinned_order_dependent :
  exists (Sm Sm' : list (@sample Qc)) Y0, Permutation Sm Sm' /\ chain 1 Y0 1 /\
    als_pinned OQc (gauss_solve OQc) (qz 1%Z) Sm Y0 1 <> als_pinned OQc (gauss_solve OQc) (qz 1%Z) Sm' Y0 1.
Proof.
  exists wS, wS', ones2. split; [exact wS_perm|]. split; [cbn; auto|].
  intros H. apply (f_equal showY) in H. vm_compute in H. discriminate.
Qed.
(* the repaired code on the same two orders: equal *)
Lemma repaired_same_on_witness :
  showY (sY (Nat.iter 1 (sweep OQc (gauss_solve OQc) (qz 1%Z) wS) (init_st OQc wS ones2)))
  = showY (sY (Nat.iter 1 (sweep OQc (gauss_solve OQc) (qz 1%Z) wS') (init_st OQc wS' ones2))).
Proof. vm_compute. reflexivity. Qed.

(* a concrete run of the whole model: 2 sweeps requested, 2 executed, stop reason 'nswp', shapes kept *)
Definition noacc (t : nat) (Y Yold : list (core Qc)) : Qc := qz (-1)%Z.
Definition noaccv (t : nat) (Y : list (core Qc)) : Qc := qz (-1)%Z.
Lemma als_run_example :
  match als OQc (gauss_solve OQc) noacc noaccv None wS ones2 (Some 2%nat) None None (qz 1%Z) false 10 with
  | Ok (Y, inf) => i_nswp inf = 2%nat /\ i_stop inf = SNswp /\ map (fun G => (cr1 G, cn G, cr2 G)) Y = [(1, 2, 1); (1, 2, 1)]%nat
  | Err _ => False
  end.
Proof. vm_compute. auto. Qed.
(* a missing slice (no sample with i_0 = 0) is rejected, and accepted with allow_skip_cores *)
Lemma als_missing_example :
  als OQc (gauss_solve OQc) noacc noaccv None (tl wS) ones2 (Some 1%nat) None None (qz 1%Z) false 10 = Err ValueError /\
  match als OQc (gauss_solve OQc) noacc noaccv None (tl wS) ones2 (Some 1%nat) None None (qz 1%Z) true 10 with
  | Ok (Y, inf) => i_nswp inf = 1%nat | Err _ => False end.
Proof. split; vm_compute; auto. Qed.
(* the solver contract on a concrete symmetric positive definite system: Gauss-Jordan returns x with N x = g *)
Lemma solver_contract_example :
  let N := [[qz 3%Z; qz 1%Z]; [qz 1%Z; qz 2%Z]] in let g := [qz 1%Z; qz 4%Z] in
  map showQ (mulmv OQc 2 N (gauss_solve OQc N g)) = map showQ g.
Proof. vm_compute. reflexivity. Qed.
