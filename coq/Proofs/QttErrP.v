(* C17: core_tt_to_qtt with genuinely truncating factorisations -- the squared Frobenius error of the produced QTT
   cores against the TT-core equals the sum of the squared residuals of the d factorisation calls (any commutative
   ring), when every call returns V with orthonormal rows and U = A V^T (orthogonal projection).

   Why Pythagoras applies although Y[0] is multiplied by V0 only AFTER the loop: every later factor reaches the
   result through matrices with orthonormal rows (V0 and the V of the halving steps), which are isometries on row
   spaces, and the residual of a projection step is orthogonal to the row space of its V.

   The induction is written once over an abstract relation [le] (reflexive, transitive, compatible with adding on the
   left) and an abstract one-step property [step_ok]; [le := eq] gives the equality under [trunc_ok]; the reals file
   Proofs/QttErrRP.v instantiates [le := Rle] for the weaker step contract of Proofs/TruncP2.v (rows of V pairwise
   orthogonal, of norm 1 or zero) that the model of matrix_svd meets. *)
From Coq Require Import List Arith Lia Ring PeanoNat ZArith Bool.
From TV Require Import Num.Ops Lin.Tab Lin.BigSum Lin.Mat TT.Chain Model.GridInd Proofs.GridIndP Model.Qtt
  Model.Transformation Model.Svd Proofs.TransformationP Proofs.OrthP Proofs.FrobP Proofs.QttP Proofs.QttP2.
Import ListNotations.

Section QttErrP.
Context {T : Type} (K : ops T).
Notation "0" := (o0 K). Notation "1" := (o1 K).
Infix "+" := (oadd K). Infix "*" := (omul K). Infix "-" := (osub K).
Hypothesis Rth : rng K.
Add Ring RrQttErr : Rth.
Local Notation bsum := (bsum K). Local Notation mget := (mget K). Local Notation cget := (cget K).
Local Notation dget := (dget K). Local Notation sq := (sq K). Local Notation res2 := (res2 K).
Local Notation halve := (halve K). Local Notation unfold_rows := (unfold_rows K).

(* ---------------------------------------------------------------------------------------------------
   what is summed / required over the factorisation calls that a run actually makes
   --------------------------------------------------------------------------------------------------- *)
(* P holds of (argument, returned U, returned V) of each of the k calls of the halving loop started at A *)
Fixpoint loop_all (P : mat T -> mat T -> mat T -> Prop) (msvd : nat -> mat T -> mat T * mat T) (k c : nat) (A : mat T)
  : Prop :=
  match k with
  | O => True
  | S k' => P (halve A) (fst (msvd c (halve A))) (snd (msvd c (halve A))) /\
            loop_all P msvd k' (S c) (fst (msvd c (halve A)))
  end.
(* ... of each of the d calls of core_tt_to_qtt on G (mode size 2^d) *)
Definition calls_all (P : mat T -> mat T -> mat T -> Prop) (msvd : nat -> mat T -> mat T * mat T) (G : core T) (d : nat)
  : Prop :=
  P (unfold_rows G) (fst (msvd O (unfold_rows G))) (snd (msvd O (unfold_rows G))) /\
  loop_all P msvd (d - 1) 1 (fst (msvd O (unfold_rows G))).
(* sum of the squared Frobenius residuals |A_k - U_k V_k|^2 of those calls *)
Fixpoint loop_res (msvd : nat -> mat T -> mat T * mat T) (k c : nat) (A : mat T) : T :=
  match k with
  | O => 0
  | S k' => res2 (halve A) (fst (msvd c (halve A))) (snd (msvd c (halve A))) +
            loop_res msvd k' (S c) (fst (msvd c (halve A)))
  end.
Definition calls_res (msvd : nat -> mat T -> mat T * mat T) (G : core T) (d : nat) : T :=
  res2 (unfold_rows G) (fst (msvd O (unfold_rows G))) (snd (msvd O (unfold_rows G))) +
  loop_res msvd (d - 1) 1 (fst (msvd O (unfold_rows G))).

Lemma loop_all_impl (P Q : mat T -> mat T -> mat T -> Prop) msvd : (forall A U V, P A U V -> Q A U V) ->
  forall k c A, loop_all P msvd k c A -> loop_all Q msvd k c A.
Proof. intros H. induction k as [|k IH]; intros c A; cbn [loop_all]; [auto|]. intros [H1 H2]. split; auto. Qed.
Lemma calls_all_impl (P Q : mat T -> mat T -> mat T -> Prop) msvd G d : (forall A U V, P A U V -> Q A U V) ->
  calls_all P msvd G d -> calls_all Q msvd G d.
Proof. intros H [H1 H2]. split; [auto|]. eapply loop_all_impl; eauto. Qed.
Lemma loop_all_forall (P : mat T -> mat T -> mat T -> Prop) msvd :
  (forall c A, P A (fst (msvd c A)) (snd (msvd c A))) -> forall k c A, loop_all P msvd k c A.
Proof. intros H. induction k as [|k IH]; intros c A; cbn [loop_all]; auto. Qed.
Lemma calls_all_forall (P : mat T -> mat T -> mat T -> Prop) msvd G d :
  (forall c A, P A (fst (msvd c A)) (snd (msvd c A))) -> calls_all P msvd G d.
Proof. intros H. split; [apply H|]. now apply loop_all_forall. Qed.

(* squared Frobenius distance between a TT-core of mode size 2^d and a chain of d cores of mode size 2, read at the
   little-endian binary digits of the mode index, with open boundary indices a, b *)
Definition core_err2 (G : core T) (Qs : list (core T)) (d : nat) : T :=
  bsum (cr1 G) (fun a => bsum (cn G) (fun m => bsum (cr2 G) (fun b =>
    sq (cget G a m b - dget Qs (bits_le d m) (cr1 G) a b)))).
(* ... between two cores of the same shape *)
Definition cdist2 (G M : core T) : T :=
  bsum (cr1 G) (fun a => bsum (cn G) (fun m => bsum (cr2 G) (fun b => sq (cget G a m b - cget M a m b)))).

(* ---------------------------------------------------------------------------------------------------
   Pythagoras for one projection step
   --------------------------------------------------------------------------------------------------- *)
(* one row a, its retained coefficients u, any other coefficients r:
   |a - r V|^2 = |a - u V|^2 + sum_c |V_c|^2 (u_c - r_c)^2   when (a - u V) V^T = 0 and the rows of V are orthogonal *)
Lemma row_pyth (n q : nat) (a u r : nat -> T) (V : nat -> nat -> T) :
  (forall c, c < q -> bsum n (fun t => (a t - bsum q (fun c' => u c' * V c' t)) * V c t) = 0) ->
  (forall c c', c < q -> c' < q -> c <> c' -> bsum n (fun t => V c t * V c' t) = 0) ->
  bsum n (fun t => sq (a t - bsum q (fun c => r c * V c t))) =
  bsum n (fun t => sq (a t - bsum q (fun c => u c * V c t))) +
  bsum q (fun c => bsum n (fun t => V c t * V c t) * sq (u c - r c)).
Proof.
  intros EVt HO.
  set (e := fun t => a t - bsum q (fun c => u c * V c t)).
  set (bb := fun t => bsum q (fun c => (u c - r c) * V c t)).
  assert (S1 : forall t, a t - bsum q (fun c => r c * V c t) = e t + bb t).
  { intros t. unfold e, bb.
    rewrite (bsum_ext K q (fun c => (u c - r c) * V c t) (fun c => u c * V c t - r c * V c t)) by (intros; ring).
    rewrite bsum_sub by auto. ring. }
  assert (S2 : bsum n (fun t => e t * bb t) = 0).
  { unfold bb.
    rewrite (bsum_ext K n _ (fun t => bsum q (fun c => (u c - r c) * (e t * V c t)))).
    2:{ intros t Ht. rewrite <- bsum_mul_l by auto. apply bsum_ext; intros c Hc. ring. }
    rewrite bsum_swap by auto. apply bsum_0'; auto. intros c Hc. rewrite bsum_mul_l by auto.
    unfold e. rewrite EVt by auto. ring. }
  assert (S3 : bsum n (fun t => sq (bb t)) = bsum q (fun c => bsum n (fun t => V c t * V c t) * sq (u c - r c))).
  { transitivity (bsum q (fun c => bsum q (fun c' => bsum n (fun t => V c t * V c' t) * ((u c - r c) * (u c' - r c'))))).
    - rewrite (bsum_ext K n _ (fun t => bsum q (fun c => bsum q (fun c' =>
          ((u c - r c) * (u c' - r c')) * (V c t * V c' t))))).
      2:{ intros t Ht. unfold bb. apply (bsum_sq_sum K Rth). }
      rewrite bsum_swap by auto. apply bsum_ext; intros c Hc. rewrite bsum_swap by auto.
      apply bsum_ext; intros c' Hc'. rewrite <- bsum_mul_r by auto. apply bsum_ext; intros t Ht. ring.
    - apply bsum_ext; intros c Hc. rewrite (bsum_single K Rth q c); auto.
      intros c' Hc' Hne. rewrite HO by auto. ring. }
  rewrite (bsum_ext K n _ (fun t => (sq (e t) + sq (bb t)) + (1 + 1) * (e t * bb t))).
  2:{ intros t Ht. rewrite S1. unfold FrobP.sq. ring. }
  rewrite bsum_add, bsum_add, bsum_mul_l, S2, S3 by auto. unfold e. ring.
Qed.

(* the matrix form, with the weights |V_c|^2 kept *)
Lemma mat_pyth (A U V : mat T) (R : nat -> nat -> T) : mr U = mr A -> mc V = mc A -> mc U = mr V ->
  (forall i c, i < mr A -> c < mc U ->
     bsum (mc A) (fun t => (mget A i t - bsum (mc U) (fun c' => mget U i c' * mget V c' t)) * mget V c t) = 0) ->
  (forall c c', c < mc U -> c' < mc U -> c <> c' -> bsum (mc A) (fun t => mget V c t * mget V c' t) = 0) ->
  bsum (mr A) (fun i => bsum (mc A) (fun t => sq (mget A i t - bsum (mc U) (fun c => R i c * mget V c t)))) =
  res2 A U V +
  bsum (mr A) (fun i => bsum (mc U) (fun c => bsum (mc A) (fun t => mget V c t * mget V c t) * sq (mget U i c - R i c))).
Proof.
  intros D1 D2 D3 EVt HO. unfold FrobP.res2. rewrite <- bsum_add by auto. apply bsum_ext; intros i Hi.
  apply (row_pyth (mc A) (mc U) (fun t => mget A i t) (fun c => mget U i c) (fun c => R i c) (fun c t => mget V c t)).
  - intros c Hc. now apply EVt.
  - exact HO.
Qed.

(* the contract of the task statement: shapes, V V^T = I, U = A V^T *)
Definition trunc_ok (A U V : mat T) : Prop :=
  mr U = mr A /\ mc V = mc A /\ mc U = mr V /\
  (forall c c', c < mr V -> c' < mr V ->
     bsum (mc V) (fun t => mget V c t * mget V c' t) = if Nat.eqb c c' then 1 else 0) /\
  (forall i c, i < mr A -> c < mr V -> mget U i c = bsum (mc A) (fun t => mget A i t * mget V c t)).

(* (A - U V) V^T = 0 *)
Lemma trunc_EVt A U V : trunc_ok A U V -> forall i c, i < mr A -> c < mc U ->
  bsum (mc A) (fun t => (mget A i t - bsum (mc U) (fun c' => mget U i c' * mget V c' t)) * mget V c t) = 0.
Proof.
  intros (D1 & D2 & D3 & HO & HU) i c Hi Hc.
  rewrite (bsum_ext K (mc A) _ (fun t => mget A i t * mget V c t -
             bsum (mc U) (fun c' => mget U i c' * (mget V c' t * mget V c t)))).
  2:{ intros t Ht.
      rewrite (bsum_ext K (mc U) (fun c' => mget U i c' * (mget V c' t * mget V c t))
                 (fun c' => (mget U i c' * mget V c' t) * mget V c t)) by (intros; ring).
      rewrite bsum_mul_r by auto. ring. }
  rewrite bsum_sub by auto. rewrite bsum_swap by auto.
  rewrite (bsum_ext K (mc U) _ (fun c' => mget U i c' * (if Nat.eqb c' c then 1 else 0))).
  2:{ intros c' Hc'. rewrite bsum_mul_l by auto. rewrite <- D2. rewrite HO by lia. reflexivity. }
  rewrite (bsum_single K Rth (mc U) c); auto.
  - rewrite Nat.eqb_refl. rewrite <- HU by lia. ring.
  - intros c' Hc' Hne. destruct (Nat.eqb_spec c' c); [contradiction|ring].
Qed.

(* the contract is satisfiable for every A: project on the rows of any V with orthonormal rows *)
Definition proj_oracle (Vs : list (mat T)) (c : nat) (A : mat T) : mat T * mat T :=
  let V := nth c Vs (mid K (mc A)) in (mmul K A (mtrans K V), V).
Lemma trunc_ok_proj A V : mc V = mc A ->
  (forall c c', c < mr V -> c' < mr V ->
     bsum (mc V) (fun t => mget V c t * mget V c' t) = if Nat.eqb c c' then 1 else 0) ->
  trunc_ok A (mmul K A (mtrans K V)) V.
Proof.
  intros D HO. unfold trunc_ok. split; [reflexivity|]. split; [exact D|]. split; [reflexivity|]. split; [exact HO|].
  intros i c Hi Hc. rewrite (mget_mmul K) by (cbn; auto). apply bsum_ext; intros t Ht.
  now rewrite (mget_mtrans K) by (auto; rewrite D; auto).
Qed.

(* ---------------------------------------------------------------------------------------------------
   the halving loop and the whole core, over an abstract comparison
   --------------------------------------------------------------------------------------------------- *)
(* what the chain (A', Cs) produced by k halving steps denotes at row i = p + H * (h_0 + 2 h_1 + ...), column b *)
Definition recon (H k : nat) (A' : mat T) (Cs : list (core T)) (i b : nat) : T :=
  bsum (mc A') (fun c => mget A' (i mod H) c * dget (rev Cs) (bits_le k (i / H)) (mc A') c b).

Lemma inb_bits k : forall m, inb (repeat 2%nat k) (bits_le k m).
Proof.
  unfold inb. induction k as [|k IH]; intros m; cbn [bits_le repeat]; constructor.
  - apply Nat.mod_upper_bound. lia.
  - apply IH.
Qed.
Lemma wfo_bits (Y : list (core T)) r rl k m : chain r Y rl -> Forall (fun G => cn G = 2%nat) Y -> length Y = k ->
  wfo r Y (bits_le k m) rl.
Proof. intros Hc H2 L. apply wfo_chain_inb. split; [exact Hc|]. rewrite (shape_twos Y H2), L. apply inb_bits. Qed.
Lemma bits_le_snoc k u j : (u < 2 ^ k)%nat -> (j < 2)%nat -> bits_le (S k) (u + 2 ^ k * j)%nat = bits_le k u ++ [j].
Proof.
  intros Hu Hj. set (h := bits_le k u).
  assert (Lh : length h = k) by apply bits_le_length.
  assert (Fh : Forall (fun x => x < 2)%nat (h ++ [j])).
  { apply Forall_app. split; [apply bits_le_bit|]. constructor; [exact Hj|constructor]. }
  rewrite <- (bits_unbits (h ++ [j]) Fh). rewrite app_length. cbn [length]. rewrite Lh, Nat.add_1_r.
  f_equal. rewrite unbits_snoc, Lh. unfold h. now rewrite unbits_bits by exact Hu.
Qed.

Section Gen.
Variable le : T -> T -> Prop.
Hypothesis le_refl : forall x, le x x.
Hypothesis le_trans : forall x y z, le x y -> le y z -> le x z.
Hypothesis le_add : forall a x y, le x y -> le (a + x) (a + y).

(* one call: shapes, and for every replacement R of the returned U,
   |A - R V|^2  le  |A - U V|^2 + |U - R|^2 *)
Definition step_ok (A U V : mat T) : Prop :=
  mr U = mr A /\ mc V = mc A /\ mc U = mr V /\
  forall R : nat -> nat -> T,
    le (bsum (mr A) (fun i => bsum (mc A) (fun t => sq (mget A i t - bsum (mc U) (fun c => R i c * mget V c t)))))
       (res2 A U V + bsum (mr A) (fun i => bsum (mc U) (fun c => sq (mget U i c - R i c)))).

Variable msvd : nat -> mat T -> mat T * mat T.

Lemma qtt_loop_err H : (0 < H)%nat -> forall k c A acc Ys A',
  mr A = (H * 2 ^ k)%nat -> loop_all step_ok msvd k c A -> qtt_loop K msvd k c A acc = (Ys, A') ->
  exists Cs, Ys = acc ++ Cs /\ length Cs = k /\ mr A' = H /\
    chain (mc A') (rev Cs) (mc A) /\ Forall (fun G => cn G = 2%nat) Cs /\
    le (bsum (H * 2 ^ k)%nat (fun i => bsum (mc A) (fun b => sq (mget A i b - recon H k A' Cs i b))))
       (loop_res msvd k c A).
Proof.
  intros HH. induction k as [|k IH]; intros c A acc Ys A' HA HL E.
  - cbn [qtt_loop] in E. inversion E; subst Ys A'. exists []. rewrite app_nil_r.
    rewrite Nat.pow_0_r, Nat.mul_1_r in HA.
    split; [reflexivity|]. split; [reflexivity|]. split; [exact HA|]. split; [reflexivity|]. split; [constructor|].
    cbn [loop_res]. rewrite Nat.pow_0_r, Nat.mul_1_r.
    rewrite (bsum_0' K Rth); [apply le_refl|]. intros i Hi. apply (bsum_0' K Rth). intros b Hb.
    unfold recon. cbn [rev bits_le]. rewrite Nat.mod_small by exact Hi.
    rewrite (bsum_single K Rth (mc A) b); auto.
    + rewrite (dget_nil K) by auto. rewrite Nat.eqb_refl. unfold FrobP.sq. ring.
    + intros x Hx Hne. rewrite (dget_nil K) by auto. destruct (Nat.eqb_spec b x); [congruence|ring].
  - cbn [qtt_loop] in E. cbn [loop_all] in HL. destruct HL as [Hs HL]. cbn [loop_res].
    destruct (msvd c (halve A)) as [A1 V] eqn:Em. cbn [fst snd] in Hs, HL |- *.
    destruct Hs as (F1 & F2 & F3 & F4).
    assert (Hhalf : (mr A / 2 = H * 2 ^ k)%nat).
    { rewrite HA, Nat.pow_succ_r'. replace (H * (2 * 2 ^ k))%nat with ((H * 2 ^ k) * 2)%nat by lia.
      now rewrite Nat.div_mul by lia. }
    assert (G1 : mr A1 = (H * 2 ^ k)%nat) by (rewrite F1, (mr_halve K); exact Hhalf).
    destruct (IH (S c) A1 (acc ++ [core_of_V K V (mc A)]) Ys A' G1 HL E) as (Cs' & EY & LC & HA' & Hch & H2 & Herr).
    exists (core_of_V K V (mc A) :: Cs'). rewrite EY, <- app_assoc. cbn [app].
    split; [reflexivity|]. split; [cbn [length]; now rewrite LC|]. split; [exact HA'|].
    split.
    { cbn [rev]. apply chain_app. exists (mc A1). split; [exact Hch|]. cbn [chain]. split; [cbn; auto|]. reflexivity. }
    split; [constructor; [reflexivity|exact H2]|].
    set (m := (H * 2 ^ k)%nat) in *.
    apply le_trans with (res2 (halve A) A1 V +
      bsum (mr (halve A)) (fun i => bsum (mc A1) (fun x => sq (mget A1 i x - recon H k A' Cs' i x)))).
    2:{ apply le_add. rewrite (mr_halve K), Hhalf. exact Herr. }
    match goal with |- le ?L _ =>
      replace L with (bsum (mr (halve A)) (fun i => bsum (mc (halve A)) (fun t =>
        sq (mget (halve A) i t - bsum (mc A1) (fun x => recon H k A' Cs' i x * mget V x t))))) end.
    { apply F4. }
    (* both sides as sums over (i < m, j < 2, b < mc A) *)
    symmetry. rewrite (mr_halve K), (mc_halve K), Hhalf.
    replace (H * 2 ^ S k)%nat with (m * 2)%nat by (unfold m; rewrite Nat.pow_succ_r'; lia).
    rewrite (bsum_prod_F K Rth m 2). rewrite bsum_swap by auto.
    apply bsum_ext; intros i Hi.
    rewrite (bsum_prod K Rth 2 (mc A)). apply bsum_ext; intros j Hj. apply bsum_ext; intros b Hb.
    f_equal.
    rewrite (mget_halve K A i j b) by (rewrite ?Hhalf; auto). rewrite Hhalf. fold m. f_equal.
    (* the chain extended by the core of V *)
    unfold recon.
    assert (Emod : ((i + m * j) mod H = i mod H)%nat).
    { unfold m. replace (i + H * 2 ^ k * j)%nat with (i + (2 ^ k * j) * H)%nat by lia. apply Nat.mod_add. lia. }
    assert (Ediv : ((i + m * j) / H = i / H + 2 ^ k * j)%nat).
    { unfold m. replace (i + H * 2 ^ k * j)%nat with (i + (2 ^ k * j) * H)%nat by lia. apply Nat.div_add. lia. }
    assert (Hu : (i / H < 2 ^ k)%nat) by (apply Nat.div_lt_upper_bound; [lia|exact Hi]).
    rewrite Emod, Ediv, (bits_le_snoc k (i / H) j Hu Hj). cbn [rev].
    assert (Hw : wfo (mc A') (rev Cs') (bits_le k (i / H)) (mc A1)).
    { apply wfo_bits; [exact Hch|apply Forall_rev; exact H2|now rewrite rev_length]. }
    assert (Hp : (i mod H < H)%nat) by (apply Nat.mod_upper_bound; lia).
    rewrite (bsum_ext K (mc A') _ (fun c0 => bsum (mc A1) (fun x =>
              mget A' (i mod H) c0 * dget (rev Cs') (bits_le k (i / H)) (mc A') c0 x * mget V x (j * mc A + b)))).
    2:{ intros c0 Hc0.
        rewrite (dget_snoc K (rev Cs') (core_of_V K V (mc A)) (bits_le k (i / H)) j (mc A') (mc A1) c0 b Hw);
          auto; try (cbn; auto; fail).
        rewrite <- bsum_mul_l by auto. apply bsum_ext; intros x Hx.
        unfold core_of_V. rewrite cget_mk by (try lia; auto). ring. }
    rewrite bsum_swap by auto. apply bsum_ext; intros x Hx.
    now rewrite bsum_mul_r by auto.
Qed.

Theorem core_tt_to_qtt_err_gen G k Qs : cn G = (2 ^ S k)%nat -> (0 < cr1 G)%nat -> calls_all step_ok msvd G (S k) ->
  core_tt_to_qtt K msvd G = Ok Qs ->
  length Qs = S k /\ chain (cr1 G) Qs (cr2 G) /\ Forall (fun Q => cn Q = 2%nat) Qs /\
  le (core_err2 G Qs (S k)) (calls_res msvd G (S k)).
Proof.
  intros Hn Hr1 [Hs HL]. unfold calls_res. unfold core_tt_to_qtt. rewrite Hn, log2_exact_pow.
  destruct (msvd O (unfold_rows G)) as [A0 V0] eqn:E0. cbn [fst snd] in Hs, HL |- *.
  destruct Hs as (F1 & F2 & F3 & F4).
  replace (S k - 1)%nat with k in * by lia.
  destruct (qtt_loop K msvd k 1 A0 []) as [Ys A] eqn:EL.
  assert (G0 : mr A0 = ((2 * cr1 G) * 2 ^ k)%nat).
  { rewrite F1. cbn [Qtt.unfold_rows mr mkmat]. rewrite Hn, Nat.pow_succ_r'. lia. }
  destruct (qtt_loop_err (2 * cr1 G) ltac:(lia) k 1 A0 [] Ys A G0 HL EL) as (Cs & EY & LC & HA & Hch & H2 & Herr).
  cbn [app] in EY. subst Ys. cbn [Nat.eqb].
  set (L := core_of_A K A (cr1 G)).
  assert (Hsplit : exists W Y0, L :: rev Cs = W ++ [Y0] /\
            match Cs ++ [L] with [] => Err IndexError | Y0' :: rest => Ok (rev (core_mulV K Y0' V0 :: rest)) end
            = Ok (W ++ [core_mulV K Y0 V0])).
  { destruct Cs as [|C1 Cs'']; cbn [app rev].
    - exists [], L. split; reflexivity.
    - exists (L :: rev Cs''), C1. split; [reflexivity|]. cbn [rev]. now rewrite rev_app_distr. }
  destruct Hsplit as (W & Y0 & EW & ->). intros EQ. inversion EQ; subst Qs. clear EQ.
  assert (HchF : chain (cr1 G) (L :: rev Cs) (mc A0)).
  { cbn [chain]. split; [reflexivity|]. exact Hch. }
  assert (H2F : Forall (fun Q => cn Q = 2%nat) (L :: rev Cs)).
  { constructor; [reflexivity|]. apply Forall_rev. exact H2. }
  assert (Hlast : cr2 Y0 = mc A0).
  { rewrite EW in HchF. apply chain_app in HchF as (rm & _ & HY). cbn [chain] in HY. tauto. }
  assert (LZ : length (W ++ [core_mulV K Y0 V0]) = S k).
  { rewrite app_length. cbn [length]. assert (X : length (L :: rev Cs) = S k) by (cbn [length]; rewrite rev_length; lia).
    rewrite EW, app_length in X. cbn [length] in X. lia. }
  assert (CZ : chain (cr1 G) (W ++ [core_mulV K Y0 V0]) (cr2 G)).
  { replace (cr2 G) with (mc V0) by (rewrite F2; reflexivity). apply (chain_mul_last K). rewrite <- EW, Hlast. exact HchF. }
  assert (TZ : Forall (fun Q => cn Q = 2%nat) (W ++ [core_mulV K Y0 V0])).
  { rewrite EW in H2F. apply Forall_app in H2F as [HW HY]. apply Forall_app. split; [exact HW|].
    constructor; [|constructor]. inversion HY; subst. assumption. }
  split; [exact LZ|]. split; [exact CZ|]. split; [exact TZ|].
  (* the error *)
  set (M := unfold_rows G) in *.
  assert (MR : mr M = (cr1 G * cn G)%nat) by reflexivity. assert (MC : mc M = cr2 G) by reflexivity.
  apply le_trans with (res2 M A0 V0 +
    bsum (mr M) (fun i => bsum (mc A0) (fun x => sq (mget A0 i x - recon (2 * cr1 G) k A Cs i x)))).
  2:{ apply le_add. replace (mr M) with (2 * cr1 G * 2 ^ k)%nat by (rewrite <- G0, F1; reflexivity). exact Herr. }
  match goal with |- le ?LHS _ =>
    replace LHS with (bsum (mr M) (fun i => bsum (mc M) (fun t =>
      sq (mget M i t - bsum (mc A0) (fun x => recon (2 * cr1 G) k A Cs i x * mget V0 x t))))) end.
  { apply F4. }
  unfold core_err2. rewrite MR, MC. rewrite (bsum_prod_F K Rth (cr1 G) (cn G)). rewrite bsum_swap by auto.
  apply bsum_ext; intros a Ha. apply bsum_ext; intros i Hi. apply bsum_ext; intros b Hb.
  f_equal. unfold M. rewrite (mget_unfold_rows K G a i b Ha Hi Hb). f_equal.
  (* the entry of the returned chain *)
  rewrite Hn in Hi.
  assert (HwF : wfo (cr1 G) (W ++ [Y0]) (bits_le (S k) i) (cr2 Y0)).
  { rewrite <- EW, Hlast. apply wfo_bits; [exact HchF|exact H2F|]. cbn [length]. rewrite rev_length. lia. }
  unfold Chain.dget.
  rewrite (run_mul_last K Rth V0 Y0 b) with (r := cr1 G); auto; try lia; try (rewrite F2; exact Hb).
  rewrite Hlast. apply bsum_ext; intros x Hx. f_equal.
  rewrite <- EW. cbn [bits_le Chain.run]. set (i0 := (i mod 2)%nat). set (h := bits_le k (i / 2)).
  assert (Hi0 : (i0 < 2)%nat) by (apply Nat.mod_upper_bound; lia).
  assert (Hwr : wfo (mc A) (rev Cs) h (mc A0)).
  { apply wfo_bits; [exact Hch|apply Forall_rev; exact H2|now rewrite rev_length]. }
  rewrite (run_decomp K Rth (rev Cs) (vstep K (evec K (cr1 G) a) L i0) h (mc A) (mc A0) Hwr) by (auto; apply vstep_length).
  unfold recon.
  assert (Ei : (a + cr1 G * i = (a + cr1 G * i0) + (i / 2) * (2 * cr1 G))%nat).
  { unfold i0. pose proof (Nat.div_mod i 2 ltac:(lia)). nia. }
  assert (Hp : (a + cr1 G * i0 < 2 * cr1 G)%nat) by nia.
  rewrite Ei, Nat.mod_add, Nat.div_add by lia. rewrite (Nat.mod_small _ _ Hp), (Nat.div_small _ _ Hp), Nat.add_0_l.
  fold h. apply bsum_ext; intros c Hc. f_equal.
  rewrite nth_vstep by (cbn; auto). cbn [cr1 L core_of_A mkcore].
  rewrite (bsum_single K Rth (cr1 G) a); auto.
  - rewrite nth_evec, Nat.eqb_refl by auto. unfold L, core_of_A. rewrite cget_mk by auto. ring.
  - intros a' Ha' Hne. rewrite nth_evec by auto. destruct (Nat.eqb_spec a' a); [contradiction|ring].
Qed.
End Gen.

(* ---------------------------------------------------------------------------------------------------
   the equality: V V^T = I and U = A V^T at every call the run makes
   --------------------------------------------------------------------------------------------------- *)
Lemma trunc_step_ok A U V : trunc_ok A U V -> step_ok eq A U V.
Proof.
  intros HT. pose proof HT as (D1 & D2 & D3 & HO & HU). unfold step_ok. repeat split; auto. intros R.
  rewrite (mat_pyth A U V R D1 D2 D3).
  - f_equal. apply bsum_ext; intros i Hi. apply bsum_ext; intros c Hc.
    rewrite <- D2, HO by lia. rewrite Nat.eqb_refl. ring.
  - now apply trunc_EVt.
  - intros c c' Hc Hc' Hne. rewrite <- D2, HO by lia. destruct (Nat.eqb_spec c c'); [contradiction|reflexivity].
Qed.

Theorem core_tt_to_qtt_err msvd G k Qs : cn G = (2 ^ S k)%nat -> (0 < cr1 G)%nat -> calls_all trunc_ok msvd G (S k) ->
  core_tt_to_qtt K msvd G = Ok Qs ->
  length Qs = S k /\ chain (cr1 G) Qs (cr2 G) /\ Forall (fun Q => cn Q = 2%nat) Qs /\
  core_err2 G Qs (S k) = calls_res msvd G (S k).
Proof.
  intros Hn Hr HC. apply (core_tt_to_qtt_err_gen eq); auto.
  - intros; congruence.
  - intros; congruence.
  - eapply calls_all_impl; [|exact HC]. exact trunc_step_ok.
Qed.

(* the run never fails on a core of mode size 2^(k+1) (so the hypothesis [= Ok Qs] above is not vacuous) *)
Lemma core_tt_to_qtt_ok msvd G k : cn G = (2 ^ S k)%nat -> exists Qs, core_tt_to_qtt K msvd G = Ok Qs.
Proof.
  intros Hn. unfold core_tt_to_qtt. rewrite Hn, log2_exact_pow.
  destruct (msvd O (unfold_rows G)) as [A0 V0]. destruct (qtt_loop K msvd (S k - 1) 1 A0 []) as [Ys A].
  cbn [Nat.eqb]. destruct (Ys ++ [core_of_A K A (cr1 G)]) as [|Y0 rest] eqn:E.
  - destruct Ys; discriminate.
  - eexists; reflexivity.
Qed.

(* ---------------------------------------------------------------------------------------------------
   the same distance against the single core that core_qtt_to_tt rebuilds from the chain
   --------------------------------------------------------------------------------------------------- *)
Lemma cget_merged (Qs : list (core T)) r rl d a m b : chain r Qs rl -> Forall (fun Q => cn Q = 2%nat) Qs ->
  length Qs = S d -> (a < r)%nat -> (m < 2 ^ S d)%nat -> (b < rl)%nat ->
  cget (merged K Qs) a m b = dget Qs (bits_le (S d) m) r a b.
Proof.
  intros Hc H2 L Ha Hm Hb. destruct Qs as [|Q0 rest]; [discriminate|]. cbn [merged].
  cbn [chain] in Hc. destruct Hc as [Hr Hc].
  assert (Esh : cn Q0 :: shape rest = repeat 2%nat (S d)).
  { change (cn Q0 :: shape rest) with (shape (Q0 :: rest)). rewrite (shape_twos _ H2). now rewrite L. }
  destruct (fold_merge_dims K rest Q0 rl Hc) as (D1 & D2 & D3). cbv zeta in D1, D2, D3.
  pose proof (fold_merge_run K Rth rest Q0 rl (evec K r a) m Hc) as X.
  rewrite Esh, prodn_twos, digits_F_twos in X. specialize (X Hm).
  unfold Chain.dget. rewrite <- X. rewrite nth_vstep by (rewrite D3; exact Hb). rewrite D1, Hr.
  rewrite (bsum_single K Rth r a); auto.
  - rewrite nth_evec, Nat.eqb_refl by auto. ring.
  - intros a' Ha' Hne. rewrite nth_evec by auto. destruct (Nat.eqb_spec a' a); [contradiction|ring].
Qed.
Lemma core_err2_merged G Qs d : chain (cr1 G) Qs (cr2 G) -> Forall (fun Q => cn Q = 2%nat) Qs -> length Qs = S d ->
  cn G = (2 ^ S d)%nat -> cdist2 G (merged K Qs) = core_err2 G Qs (S d).
Proof.
  intros Hc H2 L Hn. unfold cdist2, core_err2. apply bsum_ext; intros a Ha. apply bsum_ext; intros m Hm.
  apply bsum_ext; intros b Hb. rewrite Hn in Hm. now rewrite (cget_merged Qs (cr1 G) (cr2 G) d a m b).
Qed.
Lemma core_err2_merged_ok G Qs d : chain (cr1 G) Qs (cr2 G) -> Forall (fun Q => cn Q = 2%nat) Qs -> length Qs = S d ->
  cn G = (2 ^ S d)%nat -> core_qtt_to_tt K Qs = Ok (merged K Qs) /\ cdist2 G (merged K Qs) = core_err2 G Qs (S d).
Proof.
  intros Hc H2 L Hn. split; [|now apply core_err2_merged]. destruct Qs; [discriminate|reflexivity].
Qed.
End QttErrP.
