(* Lemmas about Model/AnovaFunc.v (C13): the coefficient tensor of anova_func, its interpolant, the fit. *)
From Coq Require Import List Arith Lia PeanoNat ZArith Bool Ring.
From TV Require Import Num.Ops Lin.Tab Lin.BigSum Lin.Mat TT.Chain Model.ActOne Model.Anova Model.AnovaFunc
  Proofs.AnovaP Proofs.Anova2P.
Import ListNotations.

Section FuncP.
Context {T : Type} (K : ops T).
Notation "0" := (o0 K). Notation "1" := (o1 K).
Infix "+" := (oadd K). Infix "*" := (omul K). Infix "-" := (osub K).
Hypothesis Rth : rng K.
Add Ring RrAnovaF : Rth.

(* products of the first k terms of a sequence; powers *)
Fixpoint prodn (k : nat) (e : nat -> T) : T := match k with O => 1 | S k' => prodn k' e * e k' end.
Fixpoint tpow (w : T) (k : nat) : T := match k with O => 1 | S k' => tpow w k' * w end.

Lemma prodn_S k e : prodn (S k) e = prodn k e * e k. Proof. reflexivity. Qed.

(* a chain of 1 x n x 1 cores is the product of the selected entries *)
Lemma rank1_get d (n : nat -> nat) (E : nat -> nat -> T) jdx : length jdx = d ->
  (forall k, (k < d)%nat -> (nth k jdx O < n k)%nat) ->
  get K (tab d (fun k => mkcore 1 (n k) 1 (fun _ i _ => E k i))) jdx = prodn d (fun k => E k (nth k jdx O)).
Proof.
  intros L H. unfold get.
  change [1] with ((fun k => [prodn k (fun k => E k (nth k jdx O))]) O).
  rewrite (run_tab_inv K d _ (fun k => [prodn k (fun k => E k (nth k jdx O))])); auto.
  intros k Hk. unfold vstep. rewrite cr1_mk, cr2_mk. cbn [tab map seq bsum nth prodn]. f_equal.
  rewrite cget_mk by (auto; lia). ring.
Qed.
Lemma rank1_wf d (n : nat -> nat) (E : nat -> nat -> T) jdx : length jdx = d ->
  (forall k, (k < d)%nat -> (nth k jdx O < n k)%nat) ->
  wf 1 (tab d (fun k => mkcore 1 (n k) 1 (fun _ i _ => E k i))) jdx.
Proof.
  intros L H. apply (wf_tab d _ (fun _ => 1%nat)); auto.
  intros k Hk. rewrite cr1_mk, cr2_mk, cn_mk. auto.
Qed.

(* all positions below k agree *)
Definition agree (k : nat) (jdx idx : list nat) : bool := forallb (fun t => nth t jdx O =? nth t idx O)%nat (seq 0 k).
Lemma agree_S k jdx idx : agree (S k) jdx idx = agree k jdx idx && (nth k jdx O =? nth k idx O)%nat.
Proof. unfold agree. rewrite seq_S, forallb_app. cbn [forallb Nat.add]. now rewrite andb_true_r. Qed.
Lemma agree_eq jdx idx : length jdx = length idx -> agree (length jdx) jdx idx = true <-> jdx = idx.
Proof.
  intros L. split.
  - intros H. apply (list_eq_nth O); auto. intros k Hk. unfold agree in H. rewrite forallb_forall in H.
    apply Nat.eqb_eq. apply H. apply in_seq. lia.
  - intros <-. unfold agree. apply forallb_forall. intros t _. apply Nat.eqb_refl.
Qed.

Lemma delta_sw_get ns idx s w jdx : (1 <= length ns)%nat -> length jdx = length ns ->
  (forall k, (k < length ns)%nat -> (nth k jdx O < nth k ns O)%nat) ->
  get K (delta_sw K ns idx s w) jdx = if agree (length ns) jdx idx then s * tpow w (length ns) else 0.
Proof.
  intros Hd L H. unfold delta_sw. rewrite (rank1_get (length ns) (fun k => nth k ns O)); auto.
  cbn beta. set (d := length ns) in *. destruct d as [|m] eqn:Ed; [lia|]. rewrite prodn_S.
  assert (Hm : forall k, (k <= m)%nat ->
     prodn k (fun k => let e := if (nth k jdx O =? nth k idx O)%nat then w else 0 in
                       if (S k =? S m)%nat then e * s else e)
     = if agree k jdx idx then tpow w k else 0).
  { induction k; intros Hk; [reflexivity|]. rewrite prodn_S. rewrite IHk by lia. rewrite agree_S.
    destruct (Nat.eqb_spec (S k) (S m)); [lia|]. cbn zeta.
    destruct (agree k jdx idx), (nth k jdx O =? nth k idx O)%nat; cbn [andb tpow]; ring. }
  rewrite Hm by lia. rewrite agree_S, Nat.eqb_refl. cbn zeta.
  destruct (agree m jdx idx), (nth m jdx O =? nth m idx O)%nat; cbn [andb tpow]; ring.
Qed.
Lemma delta_sw_ok ns idx s w jdx : length jdx = length ns ->
  (forall k, (k < length ns)%nat -> (nth k jdx O < nth k ns O)%nat) ->
  okY jdx ns (delta_sw K ns idx s w).
Proof.
  intros L H. split.
  - unfold delta_sw. apply (rank1_wf (length ns) (fun k => nth k ns O)); auto.
  - unfold delta_sw, shape. rewrite map_tab. apply (list_eq_nth O); [apply tab_length|].
    rewrite tab_length. intros k Hk. rewrite nth_tab by auto. now rewrite cn_mk.
Qed.

Variable split : T -> T * T.
(* contract of the (sign, d-th root) pair computed by tensors.delta *)
Variable d : nat.
Hypothesis Hsplit : forall v, let (s, w) := split v in s * tpow w d = v.
Hypothesis Hd : (2 <= d)%nat.

Lemma delta_get ns idx v jdx : length ns = d -> length jdx = d -> length idx = d ->
  (forall k, (k < d)%nat -> (nth k jdx O < nth k ns O)%nat) ->
  get K (delta K split ns idx v) jdx = (if list_eq_dec Nat.eq_dec jdx idx then v else 0) /\
  okY jdx ns (delta K split ns idx v).
Proof.
  intros Ln Lj Li H. unfold delta. specialize (Hsplit v). destruct (split v) as [s w]. split.
  - rewrite delta_sw_get by (rewrite ?Ln; auto; lia). rewrite Ln, <- Lj.
    destruct (list_eq_dec Nat.eq_dec jdx idx) as [E|NE].
    + apply (agree_eq jdx idx ltac:(congruence)) in E. rewrite E, Lj. exact Hsplit.
    + destruct (agree (length jdx) jdx idx) eqn:E; [|reflexivity].
      apply (agree_eq jdx idx ltac:(congruence)) in E. contradiction.
  - apply delta_sw_ok; rewrite ?Ln; auto.
Qed.

(* ANOVA_func.cores(e=None): the sum of the delta tensors *)
Theorem cores_pre_get n c0 cfs jdx : length jdx = d -> (forall k, (k < d)%nat -> (nth k jdx O < n)%nat) ->
  get K (cores_pre K split d n c0 cfs) jdx
  = (if list_eq_dec Nat.eq_dec jdx (repeat O d) then c0 else 0)
    + lsum K (map (fun t : nat * nat * T => let '(i, p, v) := t in
                     if list_eq_dec Nat.eq_dec jdx (unit_idx d i p) then v else 0) (terms K cfs))
  /\ okY jdx (repeat n d) (cores_pre K split d n c0 cfs).
Proof.
  intros Lj Hj. unfold cores_pre. set (ns := repeat n d).
  assert (Ln : length ns = d) by apply repeat_length.
  assert (Hn : forall k, (k < d)%nat -> (nth k jdx O < nth k ns O)%nat).
  { intros k Hk. unfold ns. rewrite (nth_indep (repeat n d) O n).
    - rewrite nth_repeat. auto.
    - rewrite repeat_length. exact Hk. }
  destruct (delta_get ns (repeat O d) c0 jdx Ln Lj (repeat_length _ _) Hn) as [G0 W0].
  revert G0 W0. generalize (delta K split ns (repeat O d) c0) as A0. generalize (terms K cfs) as ts.
  generalize (if list_eq_dec Nat.eq_dec jdx (repeat O d) then c0 else 0) as a0.
  intros a0 ts. revert a0. induction ts as [|[[i p] v] ts IH]; intros a0 A0 G0 W0.
  - cbn [fold_left map lsum]. split; [rewrite G0; ring|exact W0].
  - cbn [fold_left map lsum].
    destruct (delta_get ns (unit_idx d i p) v jdx Ln Lj) as [Gt Wt]; auto.
    { unfold unit_idx. apply tab_length. }
    destruct W0 as [W0 S0]. destruct Wt as [Wt St].
    destruct (add_get K Rth A0 (delta K split ns (unit_idx d i p) v) jdx) as (G & W & S); auto; try congruence.
    { rewrite <- (map_length (@cn T)). fold (shape A0). rewrite S0, Ln. exact Hd. }
    destruct (IH (a0 + (if list_eq_dec Nat.eq_dec jdx (unit_idx d i p) then v else 0)) (add K A0 (delta K split ns (unit_idx d i p) v)))
      as [G' W']. { rewrite G, G0, Gt. reflexivity. } { split; congruence. }
    split; [rewrite G'; ring|exact W'].
Qed.
End FuncP.

Section FuncInterp.
Context {T : Type} (K : ops T).
Notation "0" := (o0 K). Notation "1" := (o1 K).
Infix "+" := (oadd K). Infix "*" := (omul K). Infix "-" := (osub K).
Hypothesis Rth : rng K.
Add Ring RrAnovaFI : Rth.

Lemma inb_nth ns idx : inb ns idx -> length idx = length ns /\ forall k, (k < length ns)%nat -> (nth k idx O < nth k ns O)%nat.
Proof.
  unfold inb. intros H. induction H as [|i n idx ns Hi H IH]; [split; [reflexivity|cbn; lia]|].
  destruct IH as [L IH]. split; [cbn; lia|]. intros [|k] Hk; cbn [nth]; [auto|]. apply IH. cbn in Hk. lia.
Qed.

(* a sum over all multi-indices against an indicator *)
Lemma msum_delta ns : forall idx0 v (W : list nat -> T), inb ns idx0 ->
  msum K ns (fun jdx => (if list_eq_dec Nat.eq_dec jdx idx0 then v else 0) * W jdx) = v * W idx0.
Proof.
  induction ns as [|n ns IH]; intros idx0 v W H; inversion H; subst.
  - cbn [msum]. destruct (list_eq_dec Nat.eq_dec [] []); [reflexivity|congruence].
  - cbn [msum]. rename x into i0. rename l into idx0'.
    rewrite (bsum_single K Rth n i0); auto.
    + rewrite (msum_ext K ns _ (fun jdx => (if list_eq_dec Nat.eq_dec jdx idx0' then v else 0) * W (i0 :: jdx))).
      * now rewrite IH.
      * intros jdx _. destruct (list_eq_dec Nat.eq_dec (i0 :: jdx) (i0 :: idx0')) as [E|NE],
                             (list_eq_dec Nat.eq_dec jdx idx0') as [E'|NE']; try reflexivity; congruence.
    + intros i Hi Hne. rewrite (msum_ext K ns _ (fun _ => 0)); [apply (msum_0 K Rth)|].
      intros jdx _. destruct (list_eq_dec Nat.eq_dec (i :: jdx) (i0 :: idx0')) as [E|NE]; [congruence|ring].
Qed.

Lemma lsum_concat {A} (h : A -> T) (L : list (list A)) :
  lsum K (map h (concat L)) = lsum K (map (fun l => lsum K (map h l)) L).
Proof.
  induction L as [|l L IH]; [reflexivity|]. cbn [concat map lsum]. rewrite map_app, (lsum_app K Rth), IH. reflexivity.
Qed.
Lemma lsum_tab' n (f : nat -> T) : lsum K (tab n f) = bsum K n f.
Proof. rewrite (bsum_lsum K Rth). reflexivity. Qed.
Lemma lsum_tab {A} (h : A -> T) n (f : nat -> A) : lsum K (map h (tab n f)) = bsum K n (fun i => h (f i)).
Proof. rewrite (bsum_lsum K Rth). unfold tab. now rewrite map_map. Qed.

Lemma prodn_ones k e : (forall t, (t < k)%nat -> e t = 1) -> prodn K k e = 1.
Proof. induction k; intros H; [reflexivity|]. rewrite prodn_S, IHk, H by (auto; intros; apply H; lia). ring. Qed.
Lemma prodn_single k i e : (i < k)%nat -> (forall t, (t < k)%nat -> t <> i -> e t = 1) -> prodn K k e = e i.
Proof.
  induction k; intros Hi H; [lia|]. rewrite prodn_S. destruct (Nat.eq_dec i k) as [->|Hne].
  - rewrite prodn_ones; [ring|]. intros t Ht. apply H; lia.
  - rewrite IHk, (H k) by (try lia; intros; apply H; lia). ring.
Qed.

Lemma msum_terms {A} ns (idxof : A -> list nat) (val : A -> T) (W : list nat -> T) (ts : list A) :
  Forall (fun t => inb ns (idxof t)) ts ->
  msum K ns (fun jdx => lsum K (map (fun t => (if list_eq_dec Nat.eq_dec jdx (idxof t) then val t else 0) * W jdx) ts))
  = lsum K (map (fun t => val t * W (idxof t)) ts).
Proof.
  induction ts as [|t ts IH]; intros H; cbn [map lsum].
  - apply (msum_0 K Rth).
  - inversion H; subst. rewrite (msum_add K Rth), msum_delta, IH by auto. reflexivity.
Qed.
Lemma inb_repeat n d i : (i < n)%nat -> inb (repeat n d) (repeat i d).
Proof. intros H. unfold inb. induction d; cbn [repeat]; constructor; auto. Qed.
Lemma inb_tab ns (f : nat -> nat) : (forall k, (k < length ns)%nat -> (f k < nth k ns O)%nat) -> inb ns (tab (length ns) f).
Proof.
  revert f. induction ns as [|n ns IH]; intros f H; [constructor|]. cbn [length]. rewrite tab_cons. constructor.
  - apply (H O). cbn; lia.
  - apply IH. intros k Hk. apply (H (S k)). cbn; lia.
Qed.

Variable split : T -> T * T.
Variable d : nat.
Hypothesis Hsplit : forall v, let (s, w) := split v in s * tpow K w d = v.
Hypothesis Hd : (2 <= d)%nat.

(* the interpolant sum_j A[j] prod_k B_{j_k}(x_k) of the coefficient tensor, for any basis with B_0 = 1 *)
Theorem anova_func_interp (B : nat -> T -> T) n c0 cfs x : (forall t, B O t = 1) -> length cfs = d ->
  (forall i, (i < d)%nat -> (length (nth i cfs []) < n)%nat) ->
  msum K (repeat n d) (fun jdx => get K (cores_pre K split d n c0 cfs) jdx
                                  * prodn K d (fun k => B (nth k jdx O) (nth k x 0)))
  = c0 + bsum K d (fun i => bsum K (length (nth i cfs [])) (fun p => nth p (nth i cfs []) 0 * B (S p) (nth i x 0))).
Proof.
  intros HB Lc Hlen. set (W := fun jdx => prodn K d (fun k => B (nth k jdx O) (nth k x 0))).
  assert (Hn : (0 < n)%nat) by (specialize (Hlen O ltac:(lia)); lia).
  assert (Hrep : forall k, (k < d)%nat -> nth k (repeat n d) O = n).
  { intros k Hk. rewrite (nth_indep (repeat n d) O n) by (now rewrite repeat_length). apply nth_repeat. }
  rewrite (msum_ext K (repeat n d) _ (fun jdx =>
     (if list_eq_dec Nat.eq_dec jdx (repeat O d) then c0 else 0) * W jdx
     + lsum K (map (fun t : nat * nat * T => let '(i, p, v) := t in
                 (if list_eq_dec Nat.eq_dec jdx (unit_idx d i p) then v else 0) * W jdx) (terms K cfs)))).
  2:{ intros jdx Hj. apply inb_nth in Hj as [Lj Hj]. rewrite repeat_length in Lj, Hj.
      destruct (cores_pre_get K Rth split d Hsplit Hd n c0 cfs jdx Lj) as [G _].
      { intros k Hk. specialize (Hj k Hk). now rewrite Hrep in Hj. }
      rewrite G. fold (W jdx). generalize (W jdx) as wj. intros wj.
      generalize (terms K cfs) as ts. induction ts as [|[[i p] v] ts IH]; cbn [map lsum]; [ring|].
      match goal with |- (?a + (?b + ?c)) * wj = _ => transitivity ((a + c) * wj + b * wj); [ring|] end.
      rewrite IH. ring. }
  rewrite (msum_add K Rth). rewrite msum_delta by (now apply inb_repeat).
  set (idxof := fun t : nat * nat * T => let '(i, p, v) := t in unit_idx d i p).
  set (val := fun t : nat * nat * T => let '(i, p, v) := t in v).
  match goal with |- context [msum K ?ns ?f] =>
    rewrite (msum_ext K ns f (fun jdx => lsum K (map
       (fun t => (if list_eq_dec Nat.eq_dec jdx (idxof t) then val t else 0) * W jdx) (terms K cfs)))) end.
  2:{ intros jdx _. f_equal. apply map_ext. intros [[i p] v]. reflexivity. }
  rewrite msum_terms.
  - f_equal.
    + unfold W. rewrite prodn_ones; [ring|]. intros t Ht. rewrite nth_repeat. apply HB.
    + unfold terms. rewrite lsum_concat, map_tab, lsum_tab', Lc.
      apply bsum_ext; intros i Hi. rewrite lsum_tab. apply bsum_ext; intros p Hp.
      unfold val, idxof. f_equal. unfold W. rewrite (prodn_single d i); auto.
      * unfold unit_idx. rewrite nth_tab, Nat.eqb_refl by auto. reflexivity.
      * intros t Ht Hne. unfold unit_idx. rewrite nth_tab by auto.
        destruct (Nat.eqb_spec t i); [contradiction|apply HB].
  - apply Forall_forall. intros [[i p] v] Hin. unfold terms in Hin. apply in_concat in Hin as (l & Hl & Hin).
    apply in_tab in Hl as (i' & Hi' & ->). apply in_tab in Hin as (p' & Hp' & E). injection E as -> -> ->.
    rewrite Lc in Hi'. specialize (Hlen i' Hi').
    unfold idxof, unit_idx. rewrite <- (repeat_length n d) at 2. apply inb_tab. rewrite repeat_length.
    intros k Hk. rewrite Hrep by auto. destruct (k =? i')%nat; lia.
Qed.
End FuncInterp.

Section FuncCoeffs.
Context {T : Type} (K : ops T).
Notation "0" := (o0 K). Notation "1" := (o1 K).
Infix "+" := (oadd K). Infix "*" := (omul K). Infix "-" := (osub K).
Hypothesis Rth : rng K.
Add Ring RrAnovaFC : Rth.

(* Chebyshev polynomials of the first kind by their recurrence *)
Fixpoint chebT (k : nat) (x : T) : T :=
  match k with
  | O => 1
  | S k' => match k' with O => x | S k'' => two K * x * chebT k' x - chebT k'' x end
  end.
Lemma chebT_SS k x : chebT (S (S k)) x = two K * x * chebT (S k) x - chebT k x.
Proof. reflexivity. Qed.
Lemma cheb_from_nth : forall k m x p, (p < k)%nat ->
  nth p (cheb_from K k (chebT (S m) x) (chebT m x) x) 0 = chebT (S (S m) + p) x.
Proof.
  induction k; intros m x p Hp; [lia|]. cbn [cheb_from]. destruct p as [|p].
  - cbn [nth]. rewrite Nat.add_0_r. now rewrite chebT_SS.
  - cbn [nth]. rewrite <- chebT_SS. rewrite IHk by lia. f_equal. lia.
Qed.
Lemma cheb_row_nth n x p : (p < n)%nat -> nth p (cheb_row K n x) 0 = chebT p x.
Proof.
  intros Hp. destruct n as [|[|k]]; [lia| |].
  - destruct p; [reflexivity|lia].
  - cbn [cheb_row]. destruct p as [|[|p]]; [reflexivity|reflexivity|]. cbn [nth].
    change x with (chebT 1 x) at 1. change 1 with (chebT O x) at 1. rewrite cheb_from_nth by lia. reflexivity.
Qed.
Lemma cheb_row_length n x : length (cheb_row K n x) = n.
Proof.
  destruct n as [|[|k]]; try reflexivity. cbn [cheb_row length]. f_equal. f_equal.
  generalize x at 1 as t1. generalize 1 as t2. induction k; intros; cbn [cheb_from length]; auto.
Qed.

Lemma basis_mat_get n xd s p : (s < length xd)%nat -> (p < n)%nat ->
  mget K (basis_mat K n xd) s p = chebT p (nth s xd 0).
Proof.
  intros Hs Hp. unfold basis_mat. rewrite mget_mk by auto.
  rewrite (nth_indep (map (cheb_row K n) xd) [] (cheb_row K n 0)) by (now rewrite map_length).
  rewrite map_nth. now apply cheb_row_nth.
Qed.

Lemma dimX_scaled X a b : dimX (scaled K X a b) = dimX X.
Proof. unfold dimX, scaled. destruct X as [|row X]; [reflexivity|]. cbn [map hd]. apply tab_length. Qed.
Lemma systems_length X y n a b lamb : length (systems K X y n a b lamb) = dimX X.
Proof. unfold systems. rewrite tab_length. apply dimX_scaled. Qed.

(* the vector returned by the solver for dimension i satisfies the ridge normal equations in the Chebyshev basis
   (what the contract N x = rhs of the solver says for the system formed by the code) *)
Theorem anova_func_normal_eqs X y n a b lamb (solve : nat -> mat T -> list T -> list T) i :
  (i < dimX X)%nat -> length X = length y ->
  let sys := nth i (systems K X y n a b lamb) (mk_mat O O [], []) in
  let cf := solve i (fst sys) (snd sys) in
  let xd := xcol K i (scaled K X a b) in
  let ybar := mean K y in
  (forall p, (p < n)%nat -> bsum K n (fun q => mget K (fst sys) p q * nth q cf 0) = nth p (snd sys) 0) ->
  forall p, (p < n)%nat ->
    bsum K n (fun q => (bsum K (length xd) (fun s => chebT p (nth s xd 0) * chebT q (nth s xd 0))
                        + lamb * (if (p =? q)%nat then 1 else 0)) * nth q cf 0)
    = bsum K (length xd) (fun s => chebT p (nth s xd 0) * (nth s y 0 - ybar)).
Proof.
  intros Hi L. cbn zeta. unfold systems. rewrite nth_tab by (now rewrite dimX_scaled). cbn [fst snd].
  set (xd := xcol K i (scaled K X a b)). set (A := basis_mat K n xd).
  assert (Lx : length xd = length y). { unfold xd, xcol, scaled. now rewrite !map_length. }
  assert (HA : mr A = length xd) by reflexivity.
  intros Hc p Hp. specialize (Hc p Hp). unfold normal_rhs in Hc. rewrite nth_tab in Hc by auto.
  rewrite HA in Hc. etransitivity; [|etransitivity; [exact Hc|]].
  - apply bsum_ext; intros q Hq. unfold normal_mat. rewrite mget_mk by auto. rewrite HA. f_equal. f_equal.
    apply bsum_ext; intros s Hs. unfold A. now rewrite !basis_mat_get by auto.
  - apply bsum_ext; intros s Hs. unfold A. rewrite basis_mat_get by auto. f_equal.
    set (F := fun v => v - mean K y). change (map (fun v => v - mean K y) y) with (map F y).
    rewrite (nth_indep (map F y) 0 (F 0)) by (rewrite map_length; lia). now rewrite map_nth.
Qed.

(* coeffs: cfs[0] = mean + the constant terms, cfs[i+1] = the remaining entries *)
Lemma coeffs_eq X y n a b lamb solve :
  let sys := systems K X y n a b lamb in
  let cur := tab (length sys) (fun i => solve i (fst (nth i sys (mk_mat O O [], []))) (snd (nth i sys (mk_mat O O [], [])))) in
  coeffs K X y n a b lamb solve = (fold_left (fun c cf => c + nth O cf 0) cur (mean K y), map (@tl T) cur).
Proof.
  cbn zeta. unfold coeffs.
  assert (E : forall m, tab m (fun i => let (N, rhs) := nth i (systems K X y n a b lamb) (mk_mat O O [], []) in solve i N rhs)
            = tab m (fun i => solve i (fst (nth i (systems K X y n a b lamb) (mk_mat O O [], [])))
                                     (snd (nth i (systems K X y n a b lamb) (mk_mat O O [], []))))).
  { intros m. apply tab_ext. intros i _. now destruct (nth i _ _). }
  now rewrite E.
Qed.

Variable split : T -> T * T.
(* anova_func with e=None: the interpolant of the returned coefficient tensor in the Chebyshev basis is
   the fitted constant plus the sum of the fitted one-dimensional expansions *)
Theorem anova_func_denote X y n a b lamb solve x : (2 <= dimX X)%nat -> (1 <= n)%nat ->
  (forall i N rhs, length (solve i N rhs) = n) ->
  (forall v, let (s, w) := split v in s * tpow K w (dimX X) = v) ->
  let d := dimX X in
  let c0 := fst (coeffs K X y n a b lamb solve) in let cfs := snd (coeffs K X y n a b lamb solve) in
  msum K (repeat n d) (fun jdx => get K (anova_func K X y n a b lamb solve split None) jdx
                                  * prodn K d (fun k => chebT (nth k jdx O) (nth k x 0)))
  = c0 + bsum K d (fun i => bsum K (n - 1) (fun p => nth p (nth i cfs []) 0 * chebT (S p) (nth i x 0))).
Proof.
  intros Hd Hn Hlen Hsp. cbn zeta. unfold anova_func. destruct (coeffs K X y n a b lamb solve) as [c0 cfs] eqn:E.
  cbn [fst snd]. pose proof (coeffs_eq X y n a b lamb solve) as E'. cbn zeta in E'. rewrite E in E'.
  injection E' as Ec Ecf.
  assert (Lc : length cfs = dimX X) by (rewrite Ecf, map_length, tab_length; apply systems_length).
  assert (Hl : forall i, (i < dimX X)%nat -> length (nth i cfs []) = (n - 1)%nat).
  { intros i Hi. rewrite Ecf. rewrite (nth_indep _ [] (tl [])) by (rewrite map_length, tab_length, systems_length; auto).
    rewrite map_nth, nth_tab by (now rewrite systems_length).
    match goal with |- length (tl ?l) = _ => assert (Hs : length l = n) by apply Hlen; destruct l; cbn [length tl] in *; lia end. }
  rewrite (anova_func_interp K Rth split (dimX X) Hsp Hd chebT n c0 cfs x); auto.
  - f_equal. apply bsum_ext; intros i Hi. now rewrite Hl.
  - intros i Hi. rewrite Hl by auto. lia.
Qed.
(* with rounding (default e): the result is the truncate routine applied to the tensor of anova_func_denote *)
Lemma anova_func_rounded X y n a b lamb solve (tr : list (core T) -> list (core T)) :
  anova_func K X y n a b lamb solve split (Some tr) = tr (anova_func K X y n a b lamb solve split None).
Proof. unfold anova_func. now destruct (coeffs K X y n a b lamb solve). Qed.
End FuncCoeffs.
