(* C11, part 3: well-formedness of the tensors built by ANOVA (order-1 cores, pair tensors), of act_two.add and of
   act_many.add_many - for every data set (zero, constant, repeated samples: the values never matter), every noise,
   every rank r >= 1.  The truncate call inside add_many is an oracle that keeps validity (that is C11_truncate_wf). *)
From Coq Require Import List Arith Lia PeanoNat ZArith Bool.
From TV Require Import Num.Ops Lin.Tab Lin.BigSum Lin.Mat TT.Chain Model.ActOne Model.Transformation Model.Anova Model.Wf
  Proofs.ActOneP Proofs.ActOneP3 Proofs.Anova2P Proofs.WfP.
Import ListNotations.

Section ManyP.
Context {T : Type} (K : ops T).
Implicit Types (Y : list (core T)).
Local Notation D := (@dcore T).

(* a tensor given core by core *)
Lemma wfI_tab ns (f : nat -> core T) : 0 < length ns ->
  cr1 (f 0) = 1 -> cr2 (f (length ns - 1)) = 1 ->
  (forall i, S i < length ns -> cr2 (f i) = cr1 (f (S i))) ->
  (forall i, i < length ns -> cn (f i) = nth i ns 0 /\ wfdat (f i) /\ 1 <= nth i ns 0 /\ 1 <= cr2 (f i)) ->
  wfI ns (tab (length ns) f).
Proof.
  intros P F La Lk Dm. unfold wfI. rewrite tab_length.
  split; [reflexivity|]. split; [exact P|].
  split; [now rewrite nth_tab by lia|]. split; [now rewrite nth_tab by lia|].
  split; [intros i Hi; rewrite !nth_tab by lia; now apply Lk|].
  intros i Hi. rewrite nth_tab by lia. now apply Dm.
Qed.

(* ---- ANOVA.cores_1 ---- *)
Theorem cores_1_valid (M : anova T) r noise g : 2 <= a_d M -> length (a_f1 M) = a_d M -> 1 <= r ->
  Forall (fun f => 1 <= length f) (a_f1 M) ->
  valid (map (@length T) (a_f1 M)) (cores_1 K M r noise g).
Proof.
  intros Hd L Hr Hf. apply wfI_iff. rewrite cores_1_tab by exact Hd.
  set (ns := map (@length T) (a_f1 M)).
  assert (Ln : length ns = a_d M) by (subst ns; now rewrite map_length).
  rewrite <- Ln.
  assert (Nn : forall i, nth i ns 0 = length (nth i (a_f1 M) [])).
  { intros i. subst ns. change 0 with (length (@nil T)). apply map_nth. }
  apply wfI_tab; rewrite ?Ln.
  - lia.
  - reflexivity.
  - unfold core1_at. destruct (Nat.eqb_spec (a_d M - 1) 0); [lia|]. destruct (Nat.ltb_spec (a_d M - 1) (a_d M - 1)); [lia|].
    reflexivity.
  - intros i Hi. unfold core1_at. destruct (Nat.eqb_spec (S i) 0); [lia|].
    destruct (Nat.eqb_spec i 0) as [->|Hi0].
    + destruct (Nat.ltb_spec 1 (a_d M - 1)); reflexivity.
    + destruct (Nat.ltb_spec i (a_d M - 1)); [|lia]. destruct (Nat.ltb_spec (S i) (a_d M - 1)); reflexivity.
  - intros i Hi. rewrite Nn.
    assert (Hl : 1 <= length (nth i (a_f1 M) [])) by (apply (proj1 (Forall_nth _ _) Hf); lia).
    unfold core1_at. destruct (Nat.eqb_spec i 0) as [->|Hi0]; [|destruct (Nat.ltb_spec i (a_d M - 1))].
    + unfold core1_first, ncore. rewrite cn_mk, cr2_mk. (split; [reflexivity|]; split; [apply wfdat_mk|]; split; [assumption|lia]).
    + unfold core1_mid, ncore. rewrite cn_mk, cr2_mk. (split; [reflexivity|]; split; [apply wfdat_mk|]; split; [assumption|lia]).
    + replace (a_d M - 1) with i by lia. unfold core1_last, ncore. rewrite cn_mk, cr2_mk. (split; [reflexivity|]; split; [apply wfdat_mk|]; split; [assumption|lia]).
Qed.

(* ---- _second_order_2_tt: the TT-tensor of one pair term ---- *)
Theorem pair_valid (skel : mat T -> mat T * mat T) A i j shp : i < j < length shp -> Forall (fun n => 1 <= n) shp ->
  nth i shp 0 = mr (fst (skel A)) -> nth j shp 0 = mc (snd (skel A)) -> 1 <= mc (fst (skel A)) ->
  valid shp (second_order_2_tt K skel A i j shp).
Proof.
  intros Hij Hp HU HV Hr. apply wfI_iff. rewrite second_order_2_tt_eq by lia.
  destruct (skel A) as [U V]. cbn [fst snd] in HU, HV, Hr.
  apply wfI_tab.
  - lia.
  - unfold pair_core. destruct (Nat.ltb_spec 0 i); [reflexivity|]. destruct (Nat.eqb_spec 0 i); [reflexivity|lia].
  - unfold pair_core. destruct (Nat.ltb_spec (length shp - 1) i); [lia|]. destruct (Nat.eqb_spec (length shp - 1) i); [lia|].
    destruct (Nat.ltb_spec (length shp - 1) j); [lia|]. destruct (Nat.eqb_spec (length shp - 1) j); reflexivity.
  - intros k Hk. unfold pair_core.
    destruct (Nat.ltb_spec k i), (Nat.eqb_spec k i), (Nat.ltb_spec k j), (Nat.eqb_spec k j),
             (Nat.ltb_spec (S k) i), (Nat.eqb_spec (S k) i), (Nat.ltb_spec (S k) j), (Nat.eqb_spec (S k) j);
      try lia; reflexivity.
  - intros k Hk. assert (Hn : 1 <= nth k shp 0) by (apply (proj1 (Forall_nth _ _) Hp); exact Hk).
    unfold pair_core.
    destruct (Nat.ltb_spec k i); [|destruct (Nat.eqb_spec k i); [|destruct (Nat.ltb_spec k j); [|destruct (Nat.eqb_spec k j)]]].
    + unfold core_ones. rewrite cn_mk, cr2_mk. (split; [lia|]; split; [apply wfdat_mk|]; split; [assumption|lia]).
    + subst k. rewrite cn_mk, cr2_mk. (split; [lia|]; split; [apply wfdat_mk|]; split; [assumption|lia]).
    + unfold core_one. rewrite cn_mk, cr2_mk. (split; [lia|]; split; [apply wfdat_mk|]; split; [assumption|lia]).
    + subst k. rewrite cn_mk, cr2_mk. (split; [lia|]; split; [apply wfdat_mk|]; split; [assumption|lia]).
    + unfold core_ones. rewrite cn_mk, cr2_mk. (split; [lia|]; split; [apply wfdat_mk|]; split; [assumption|lia]).
Qed.

(* ---- act_two.add ---- *)
Lemma same_shape_of Y1 : forall Y2, shape Y1 = shape Y2 -> same_shape Y1 Y2.
Proof.
  induction Y1 as [|G1 Y1 IH]; intros [|G2 Y2] E; cbn in E; try discriminate; constructor.
  - injection E; auto.
  - apply IH. injection E; auto.
Qed.
Lemma Forall_add_tail (P Q : core T -> Prop) :
  (forall G1 G2, Q G1 -> P (core_mid K G1 G2) /\ P (core_last K G1 G2)) ->
  forall Y1 Y2, Forall Q Y1 -> Forall P (add_tail K Y1 Y2).
Proof.
  intros H. induction Y1 as [|G1 Y1 IH]; intros Y2 HQ; [constructor|].
  inversion HQ as [|? ? q1 q2]; subst. destruct Y2 as [|G2 Y2]; [destruct Y1; constructor|].
  destruct Y1 as [|G1' Y1].
  - destruct Y2; cbn [add_tail]; (constructor; [apply H; exact q1|constructor]).
  - change (add_tail K (G1 :: G1' :: Y1) (G2 :: Y2)) with (core_mid K G1 G2 :: add_tail K (G1' :: Y1) Y2).
    constructor; [apply H; exact q1|apply IH; exact q2].
Qed.
Theorem add_valid ns Y1 Y2 : 2 <= length ns -> valid ns Y1 -> valid ns Y2 -> valid ns (add K Y1 Y2).
Proof.
  intros Hd ((Hne1 & C1 & W1) & S1 & Pn & Pr1) ((Hne2 & C2 & W2) & S2 & _ & Pr2).
  assert (SS : same_shape Y1 Y2) by (apply same_shape_of; congruence).
  assert (L1 : length Y1 = length ns) by (rewrite <- S1; unfold shape; now rewrite map_length).
  destruct Y1 as [|G1 Y1]; [contradiction|]. destruct Y2 as [|G2 Y2]; [contradiction|].
  split; [split; [|split]|split; [|split]].
  - discriminate.
  - apply chain_add; auto. lia.
  - cbn [add]. constructor; [apply wfdat_mk|]. apply (Forall_add_tail _ (fun _ => True)).
    + intros; split; apply wfdat_mk.
    + apply Forall_forall; auto.
  - rewrite shape_add by exact SS. exact S1.
  - exact Pn.
  - cbn [add]. inversion Pr1 as [|? ? p1 p1']; subst. constructor.
    + unfold core_first. rewrite cr2_mk. lia.
    + apply (Forall_add_tail _ (fun G => 1 <= cr2 G)); [|exact p1'].
      intros A B HA. unfold core_mid, core_last. rewrite !cr2_mk. lia.
Qed.

(* ---- act_many.add_many ---- *)
Section AddMany.
Variable ns : list nat.
Variable trunc : nat -> list (core T) -> list (core T).
Hypothesis Hd : 2 <= length ns.
Hypothesis Htr : forall k Y, valid ns Y -> valid ns (trunc k Y).
Lemma add_many_loop_valid : forall rest i nc Y, valid ns Y -> Forall (valid ns) rest ->
  valid ns (fst (add_many_loop K trunc i nc Y rest)).
Proof.
  induction rest as [|Yc rest IH]; intros i nc Y HY HR; cbn [add_many_loop fst]; [exact HY|].
  inversion HR as [|? ? h1 h2]; subst.
  destruct (Nat.eqb (S i mod 15) 0); apply IH; auto using add_valid.
Qed.
Theorem add_many_valid Y0 rest : valid ns Y0 -> Forall (valid ns) rest -> valid ns (add_many K trunc (Y0 :: rest)).
Proof.
  intros H0 HR. unfold add_many, copy. pose proof (add_many_loop_valid rest O O Y0 H0 HR) as H.
  destruct (add_many_loop K trunc 0 0 Y0 rest) as [Y nc]. cbn [fst] in H. now apply Htr.
Qed.
End AddMany.
End ManyP.
