(* C05, numeric part (any commutative ring): the interpolation identities behind one left-to-right half sweep of TT-cross.

   Function view.  The target is a function A of the multi-index.  At position i the code holds a left index set L
   (rows of width i, r = |L|), evaluates the target on the candidate rows  cand L n t = L[t mod r] ++ [t / r]
   (t < r n; this is Model/Cross.v [inew true]) against the right index set [cols], factors the value matrix Z = Q R,
   lets maxvol select the rows [ind] and return B, and stores the core G[a, j, c] = B[a + r j, c] (Fortran reshape)
   and the new left index set  map (cand L n) ind.

   core_interp   B Q[ind] = Q  and  Z = Q R   give  B Z[ind] = Z              (what QR + maxvol guarantee)
   span_of_rank  a rank factorisation of the unfolding whose sampled columns have a right inverse gives the
                 spanning hypothesis (every column of the unfolding is a combination of the sampled columns)
   step_interp   B Z[ind] = Z on the sampled columns + spanning  =>  interpolation on ALL columns
   ltr_exact     induction over the positions: the product of the cores, closed with the values at the last index
                 set, is the target at every multi-index
   skeleton_exact the matrix statement A = A[:,J] (A[I,J])^-1 A[I,:] for A = X Y with invertible X[I], Y[:,J] *)
From Coq Require Import List Arith Lia PeanoNat Bool Ring.
From TV Require Import Num.Ops Lin.Tab Lin.BigSum Model.Cross.
Import ListNotations.

Section Interp.
Context {T : Type} (K : ops T).
Notation "0" := (o0 K). Notation "1" := (o1 K).
Infix "+" := (oadd K). Infix "*" := (omul K). Infix "-" := (osub K).
Hypothesis Rth : rng K.
Add Ring RrC05 : Rth.

Definition delta (a b : nat) : T := if Nat.eqb a b then 1 else 0.

Lemma bsum_delta_l n k (f : nat -> T) : (k < n)%nat -> bsum K n (fun a => delta k a * f a) = f k.
Proof.
  intros H. rewrite (bsum_single K Rth n k); auto.
  - unfold delta. rewrite Nat.eqb_refl. ring.
  - intros i Hi Hne. unfold delta. destruct (Nat.eqb_spec k i); [congruence|ring].
Qed.
Lemma bsum_delta_r n k (f : nat -> T) : (k < n)%nat -> bsum K n (fun a => f a * delta a k) = f k.
Proof.
  intros H. rewrite (bsum_single K Rth n k); auto.
  - unfold delta. rewrite Nat.eqb_refl. ring.
  - intros i Hi Hne. unfold delta. destruct (Nat.eqb_spec i k); [congruence|ring].
Qed.

(* ---------- what QR + maxvol give: B Q[ind] = Q and Z = Q R  imply  B Z[ind] = Z ---------- *)
Lemma core_interp (N rq m : nat) (ind : list nat) (Q R B Z : nat -> nat -> T) :
  (forall t c, (t < N)%nat -> (c < m)%nat -> Z t c = bsum K rq (fun k => Q t k * R k c)) ->
  (forall t k, (t < N)%nat -> (k < rq)%nat ->
     bsum K (length ind) (fun s => B t s * Q (nth s ind O) k) = Q t k) ->
  Forall (fun t => (t < N)%nat) ind ->
  forall t c, (t < N)%nat -> (c < m)%nat ->
    bsum K (length ind) (fun s => B t s * Z (nth s ind O) c) = Z t c.
Proof.
  intros HZ HB Hind t c Ht Hc.
  rewrite (bsum_ext K (length ind) _
             (fun s => bsum K rq (fun k => B t s * Q (nth s ind O) k * R k c))).
  2:{ intros s Hs. rewrite HZ; auto.
      - rewrite <- (bsum_mul_l K Rth). apply bsum_ext; intros k Hk. ring.
      - rewrite Forall_forall in Hind. apply Hind. apply nth_In; auto. }
  rewrite (bsum_swap K Rth). rewrite HZ by auto. apply bsum_ext; intros k Hk.
  rewrite <- (HB t k Ht Hk). rewrite (bsum_mul_r K Rth). reflexivity.
Qed.

(* ---------- spanning hypothesis from a rank factorisation ---------- *)
(* unfolding  A(p ++ u) = sum_{alpha < rho} X p alpha * Y alpha u ;  the sampled columns Y[:, cols] have a right
   inverse Nv (rho x rho when |cols| = rho: the intersection is invertible) *)
Lemma span_of_rank (A : row -> T) (okP okS : row -> Prop) (rho : nat) (X : row -> nat -> T) (Y : nat -> row -> T)
      (cols : list row) (Nv : nat -> nat -> T) :
  (forall p u, okP p -> okS u -> A (p ++ u) = bsum K rho (fun al => X p al * Y al u)) ->
  (forall c, (c < length cols)%nat -> okS (nth c cols [])) ->
  (forall al be, (al < rho)%nat -> (be < rho)%nat ->
     bsum K (length cols) (fun c => Y al (nth c cols []) * Nv c be) = delta al be) ->
  forall p u, okP p -> okS u ->
    A (p ++ u) = bsum K (length cols) (fun c => A (p ++ nth c cols []) *
                                                bsum K rho (fun be => Nv c be * Y be u)).
Proof.
  intros HA Hcols HN p u Hp Hu.
  rewrite (bsum_ext K (length cols) _
     (fun c => bsum K rho (fun al => bsum K rho (fun be => X p al * (Y al (nth c cols []) * Nv c be) * Y be u)))).
  2:{ intros c Hc. rewrite HA by auto. rewrite <- (bsum_mul_r K Rth). apply bsum_ext; intros al Hal.
      rewrite <- (bsum_mul_l K Rth). apply bsum_ext; intros be Hbe. ring. }
  rewrite (bsum_swap K Rth).
  rewrite HA by auto. apply bsum_ext; intros al Hal.
  rewrite (bsum_swap K Rth).
  rewrite (bsum_ext K rho _ (fun be => delta al be * (X p al * Y be u))).
  2:{ intros be Hbe. rewrite <- (HN al be Hal Hbe).
      rewrite <- (bsum_mul_r K Rth). apply bsum_ext; intros c Hc. ring. }
  rewrite bsum_delta_l by auto. reflexivity.
Qed.

(* ---------- one position ---------- *)
Variable A : row -> T.

Definition cand (L : list row) (t : nat) : row := nth (t mod length L) L [] ++ [t / length L].

Lemma cand_split L a j : (a < length L)%nat -> cand L (a + length L * j)%nat = nth a L [] ++ [j].
Proof.
  intros H. unfold cand. f_equal.
  - f_equal. rewrite Nat.mul_comm, Nat.mod_add by lia. apply Nat.mod_small; exact H.
  - f_equal. rewrite Nat.mul_comm, Nat.div_add by lia. rewrite Nat.div_small by exact H. reflexivity.
Qed.

(* interpolation on the sampled columns (B Z[ind] = Z) *)
Definition samp_ok (L : list row) (n : nat) (ind : list nat) (B : nat -> nat -> T) (cols : list row) : Prop :=
  forall t c, (t < length L * n)%nat -> (c < length cols)%nat ->
    bsum K (length ind) (fun s => B t s * A (cand L (nth s ind O) ++ nth c cols [])) = A (cand L t ++ nth c cols []).
(* every column (suffix in okS) of the candidate rows is a combination of the sampled columns *)
Definition span_ok (L : list row) (n : nat) (cols : list row) (okS : row -> Prop) : Prop :=
  exists M : nat -> row -> T, forall t u, (t < length L * n)%nat -> okS u ->
    A (cand L t ++ u) = bsum K (length cols) (fun c => A (cand L t ++ nth c cols []) * M c u).

Lemma step_interp L n ind B cols okS :
  Forall (fun t => (t < length L * n)%nat) ind -> samp_ok L n ind B cols -> span_ok L n cols okS ->
  forall t u, (t < length L * n)%nat -> okS u ->
    bsum K (length ind) (fun s => B t s * A (cand L (nth s ind O) ++ u)) = A (cand L t ++ u).
Proof.
  intros Hind Hs (M & HM) t u Ht Hu.
  rewrite (bsum_ext K (length ind) _
     (fun s => bsum K (length cols) (fun c => B t s * A (cand L (nth s ind O) ++ nth c cols []) * M c u))).
  2:{ intros s Hsl. rewrite (HM (nth s ind O) u); auto.
      - rewrite <- (bsum_mul_l K Rth). apply bsum_ext; intros c Hc. ring.
      - rewrite Forall_forall in Hind. apply Hind. apply nth_In; auto. }
  rewrite (bsum_swap K Rth). rewrite (HM t u Ht Hu). apply bsum_ext; intros c Hc.
  rewrite <- (Hs t c Ht Hc). rewrite (bsum_mul_r K Rth). reflexivity.
Qed.

(* ---------- the half sweep ---------- *)
(* data of one position: mode size, selected rows, the matrix B returned by maxvol, the right index set *)
Record posd := mkposd { p_n : nat; p_ind : list nat; p_B : nat -> nat -> T; p_cols : list row }.

Definition okS (ns : list nat) (u : row) : Prop := Forall2 lt u ns.

Definition nextL (L : list row) (ind : list nat) : list row := map (cand L) ind.
(* left interface vector after the core G[a, j, c] = B[a + r j, c] *)
Definition nextv (v : nat -> T) (r : nat) (B : nat -> nat -> T) (j : nat) : nat -> T :=
  fun c => bsum K r (fun a => v a * B (a + r * j)%nat c).

Fixpoint steps_ok (ps : list posd) (L : list row) : Prop :=
  match ps with
  | [] => True
  | p :: ps' =>
      Forall (fun t => (t < length L * p_n p)%nat) (p_ind p) /\
      samp_ok L (p_n p) (p_ind p) (p_B p) (p_cols p) /\
      span_ok L (p_n p) (p_cols p) (okS (map p_n ps')) /\
      steps_ok ps' (nextL L (p_ind p))
  end.

Fixpoint runI (ps : list posd) (L : list row) (v : nat -> T) (q : row) : list row * (nat -> T) :=
  match ps, q with
  | p :: ps', j :: q' => runI ps' (nextL L (p_ind p)) (nextv v (length L) (p_B p) j) q'
  | _, _ => (L, v)
  end.

(* the interface vector v interpolates the target from the rows L, for every admissible suffix *)
Definition interp (ns : list nat) (L : list row) (v : nat -> T) (qpre : row) : Prop :=
  forall u, okS ns u -> bsum K (length L) (fun a => v a * A (nth a L [] ++ u)) = A (qpre ++ u).

Lemma interp_step p ps' L v qpre j :
  steps_ok (p :: ps') L -> interp (map p_n (p :: ps')) L v qpre -> (j < p_n p)%nat ->
  interp (map p_n ps') (nextL L (p_ind p)) (nextv v (length L) (p_B p) j) (qpre ++ [j]).
Proof.
  intros (Hind & Hs & Hsp & _) HI Hj u Hu.
  unfold nextL. rewrite map_length.
  rewrite (bsum_ext K (length (p_ind p)) _
     (fun c => bsum K (length L) (fun a => v a * (p_B p (a + length L * j)%nat c *
                                                A (cand L (nth c (p_ind p) O) ++ u))))).
  2:{ intros c Hc. unfold nextv. rewrite <- (bsum_mul_r K Rth). apply bsum_ext; intros a Ha.
      rewrite (nth_indep _ [] (cand L O)) by (rewrite map_length; exact Hc). rewrite map_nth. ring. }
  rewrite (bsum_swap K Rth).
  rewrite <- app_assoc. cbn [app]. rewrite <- (HI (j :: u)).
  2:{ constructor; auto. }
  apply bsum_ext; intros a Ha. rewrite (bsum_mul_l K Rth). f_equal.
  rewrite (step_interp L (p_n p) (p_ind p) (p_B p) (p_cols p) (okS (map p_n ps')) Hind Hs Hsp); auto.
  - rewrite cand_split by exact Ha. rewrite <- app_assoc. reflexivity.
  - nia.
Qed.

(* one whole left-to-right pass: starting from an interpolating interface (at position 0: L = [[]], v = e_0, empty
   prefix), the product of the cores closed with the target values at the last index set is the target *)
Lemma ltr_exact_gen ps : forall L v qpre q,
  steps_ok ps L -> interp (map p_n ps) L v qpre -> Forall2 lt q (map p_n ps) ->
  let (L', v') := runI ps L v q in
  bsum K (length L') (fun a => v' a * A (nth a L' [])) = A (qpre ++ q).
Proof.
  induction ps as [|p ps IH]; intros L v qpre q Hst HI Hq.
  - inversion Hq; subst. cbn [runI]. rewrite <- (HI []) by constructor.
    apply bsum_ext; intros a Ha. rewrite !app_nil_r. reflexivity.
  - cbn [map] in Hq. inversion Hq as [|j n' q' ns' Hj Hq']; subst. cbn [runI].
    pose proof (interp_step p ps L v qpre j Hst HI Hj) as HI'.
    destruct Hst as (_ & _ & _ & Hst').
    specialize (IH _ _ _ q' Hst' HI' Hq'). rewrite <- app_assoc in IH. exact IH.
Qed.

Definition e0 (a : nat) : T := delta O a.

Lemma interp_init ns : interp ns [[]] e0 [].
Proof.
  intros u Hu. cbn [length]. unfold e0. rewrite bsum_delta_l by lia. reflexivity.
Qed.

Theorem ltr_exact ps q :
  steps_ok ps [[]] -> Forall2 lt q (map p_n ps) ->
  let (L', v') := runI ps [[]] e0 q in
  bsum K (length L') (fun a => v' a * A (nth a L' [])) = A q.
Proof. intros Hst Hq. apply (ltr_exact_gen ps [[]] e0 [] q Hst (interp_init _) Hq). Qed.
End Interp.

(* ---------- skeleton decomposition of a rank-rho matrix ---------- *)
Section Skeleton.
Context {T : Type} (K : ops T).
Notation "0" := (o0 K). Notation "1" := (o1 K).
Infix "+" := (oadd K). Infix "*" := (omul K).
Hypothesis Rth : rng K.
Add Ring RrC05s : Rth.

(* A = X Y (m x rho, rho x n); rows I and columns J (rho of each); Xi a left inverse of X[I,:], Yj a right inverse
   of Y[:,J].  Then M = Yj Xi inverts the intersection A[I,J] from both sides whenever Xi, Yj are two-sided, and
   A = A[:,J] M A[I,:] entrywise. *)
Lemma skeleton_exact (m n rho : nat) (A : nat -> nat -> T) (X : nat -> nat -> T) (Y : nat -> nat -> T)
      (I J : list nat) (Xi Yj : nat -> nat -> T) :
  length I = rho -> length J = rho ->
  (forall i j, (i < m)%nat -> (j < n)%nat -> A i j = bsum K rho (fun al => X i al * Y al j)) ->
  Forall (fun i => (i < m)%nat) I -> Forall (fun j => (j < n)%nat) J ->
  (forall al be, (al < rho)%nat -> (be < rho)%nat ->
     bsum K rho (fun g => Xi al g * X (nth g I O) be) = delta K al be) ->
  (forall al be, (al < rho)%nat -> (be < rho)%nat ->
     bsum K rho (fun g => Y al (nth g J O) * Yj g be) = delta K al be) ->
  forall i j, (i < m)%nat -> (j < n)%nat ->
    bsum K rho (fun b => bsum K rho (fun g =>
      A i (nth b J O) * bsum K rho (fun k => Yj b k * Xi k g) * A (nth g I O) j)) = A i j.
Proof.
  intros HI HJ HA HIr HJr HX HY i j Hi Hj.
  assert (HIn : forall g, (g < rho)%nat -> (nth g I O < m)%nat).
  { intros g Hg. rewrite Forall_forall in HIr. apply HIr. apply nth_In. lia. }
  assert (HJn : forall b, (b < rho)%nat -> (nth b J O < n)%nat).
  { intros b Hb. rewrite Forall_forall in HJr. apply HJr. apply nth_In. lia. }
  (* step 1: sum over b of A i J_b * Yj b k = X i k *)
  assert (S1 : forall k, (k < rho)%nat -> bsum K rho (fun b => A i (nth b J O) * Yj b k) = X i k).
  { intros k Hk.
    rewrite (bsum_ext K rho _ (fun b => bsum K rho (fun al => X i al * (Y al (nth b J O) * Yj b k)))).
    2:{ intros b Hb. rewrite HA by auto. rewrite <- (bsum_mul_r K Rth). apply bsum_ext; intros al Hal. ring. }
    rewrite (bsum_swap K Rth).
    rewrite (bsum_ext K rho _ (fun al => X i al * delta K al k)).
    2:{ intros al Hal. rewrite (bsum_mul_l K Rth). rewrite HY by auto. reflexivity. }
    exact (bsum_delta_r K Rth rho k (fun al => X i al) Hk). }
  (* step 2: sum over g of Xi k g * A I_g j = Y k j *)
  assert (S2 : forall k, (k < rho)%nat -> bsum K rho (fun g => Xi k g * A (nth g I O) j) = Y k j).
  { intros k Hk.
    rewrite (bsum_ext K rho _ (fun g => bsum K rho (fun be => (Xi k g * X (nth g I O) be) * Y be j))).
    2:{ intros g Hg. rewrite HA by auto. rewrite <- (bsum_mul_l K Rth). apply bsum_ext; intros be Hbe. ring. }
    rewrite (bsum_swap K Rth).
    rewrite (bsum_ext K rho _ (fun be => delta K k be * Y be j)).
    2:{ intros be Hbe. rewrite (bsum_mul_r K Rth). rewrite HX by auto. reflexivity. }
    exact (bsum_delta_l K Rth rho k (fun be => Y be j) Hk). }
  rewrite HA by auto.
  transitivity (bsum K rho (fun k => bsum K rho (fun b => A i (nth b J O) * Yj b k) *
                                     bsum K rho (fun g => Xi k g * A (nth g I O) j))).
  2:{ apply bsum_ext; intros k Hk. rewrite S1, S2 by auto. reflexivity. }
  rewrite (bsum_ext K rho _ (fun b => bsum K rho (fun g => bsum K rho (fun k =>
             A i (nth b J O) * Yj b k * (Xi k g * A (nth g I O) j))))).
  2:{ intros b Hb. apply bsum_ext; intros g Hg. rewrite <- (bsum_mul_l K Rth). rewrite <- (bsum_mul_r K Rth).
      apply bsum_ext; intros k Hk. ring. }
  symmetry.
  rewrite (bsum_ext K rho _ (fun k => bsum K rho (fun b => bsum K rho (fun g =>
             A i (nth b J O) * Yj b k * (Xi k g * A (nth g I O) j))))).
  2:{ intros k Hk. rewrite <- (bsum_mul_r K Rth). apply bsum_ext; intros b Hb. rewrite <- (bsum_mul_l K Rth).
      reflexivity. }
  rewrite (bsum_swap K Rth rho rho (fun k b => bsum K rho (fun g =>
             A i (nth b J O) * Yj b k * (Xi k g * A (nth g I O) j)))).
  apply bsum_ext; intros b Hb. rewrite (bsum_swap K Rth). reflexivity.
Qed.
End Skeleton.
