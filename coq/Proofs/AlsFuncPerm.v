(* C07, part 9: als_func does not depend on the order of the training samples.  Re-listing the samples in the
   order sigma (a permutation of 0..m-1) means y' = y[sigma], H'[k] = H[k][sigma, :]. *)
From Coq Require Import List Arith Lia Ring PeanoNat Bool Permutation.
From TV Require Import Num.Ops Lin.Tab Lin.BigSum Lin.Solve TT.Chain Model.Als Model.AlsFunc
  Proofs.AlsLin Proofs.AlsSim Proofs.AlsTop Proofs.AlsFuncP Proofs.AlsFuncSim.
Import ListNotations.

Section FPerm.
Context {T : Type} (K : ops T).
Notation "0" := (o0 K). Notation "1" := (o1 K).
Variable solve : list (list T) -> list T -> list T.
Variable lamb : T.
Hypothesis Rth : rng K.

Definition reorder_y (sigma : list nat) (y : list T) : list T := map (fun s => nth s y 0) sigma.
Definition reorder_H (sigma : list nat) (H : list (list (list T))) : list (list (list T)) :=
  map (fun Hk => map (fun s => nth s Hk []) sigma) H.

Lemma reorder_y_length sigma y : length (reorder_y sigma y) = length sigma.
Proof. apply map_length. Qed.
Lemma hrows_reorder sigma H s : s < length sigma -> hrows (reorder_H sigma H) s = hrows H (nth s sigma O).
Proof.
  intros Hs. unfold hrows, reorder_H. rewrite map_map. apply map_ext. intros Hk.
  now rewrite (nth_map_lt (fun t => nth t Hk []) sigma s O []).
Qed.
Lemma nth_reorder_H sigma (H : list (list (list T))) k : k < length H ->
  nth k (reorder_H sigma H) [] = map (fun s => nth s (nth k H []) []) sigma.
Proof. intros Hk. unfold reorder_H. now rewrite (nth_map_lt _ H k [] []). Qed.
Lemma Hwf_reorder sigma H d m : Hwf H d m -> Hwf (reorder_H sigma H) d (length sigma).
Proof.
  intros [H1 H2]. split.
  - unfold reorder_H. now rewrite map_length.
  - intros k Hk. rewrite nth_reorder_H by lia. apply map_length.
Qed.

(* the list of zipped samples of the re-listed data is the original list re-listed *)
Lemma fzref_reorder sigma H y (Y : list (core T)) k : k < length H -> length sigma = length y ->
  fzref K (reorder_H sigma H) (reorder_y sigma y) Y k
  = map (fun s => (nth s y 0, (flvec K Y (hrows H s) k, (frvec K Y (hrows H s) k, nth s (nth k H []) [])))) sigma.
Proof.
  intros Hk L. unfold fzref. rewrite reorder_y_length.
  rewrite <- (map_nth_seq sigma O) at 2. rewrite map_map. apply map_ext_in. intros s Hs. apply in_seq in Hs.
  unfold reorder_y. rewrite (nth_map_lt (fun t => nth t y 0) sigma s O 0) by lia.
  rewrite hrows_reorder by lia. rewrite nth_reorder_H by auto.
  now rewrite (nth_map_lt (fun t => nth t (nth k H []) []) sigma s O []) by lia.
Qed.

Lemma fopt_coreZ_perm Q Z Z' : Permutation Z Z' -> fopt_coreZ K solve lamb Q Z = fopt_coreZ K solve lamb Q Z'.
Proof.
  intros P. unfold fopt_coreZ, fopt_sol, lstsq. f_equal.
  assert (PR : Permutation (frows K (cr1 Q) (cn Q) (cr2 Q) Z) (frows K (cr1 Q) (cn Q) (cr2 Q) Z'))
    by (unfold frows; now apply Permutation_map).
  now rewrite (normal_mat_perm K Rth _ _ _ _ PR), (normal_rhs_perm K Rth _ _ _ PR).
Qed.

Variables (sigma : list nat) (H : list (list (list T))) (y : list T).
Hypothesis Hsig : Permutation sigma (seq 0 (length y)).
Let y' := reorder_y sigma y.
Let H' := reorder_H sigma H.

Lemma sigma_length : length sigma = length y.
Proof. rewrite (Permutation_length Hsig). apply seq_length. Qed.

Lemma ref_fstep_reorder Y k : k < length H -> ref_fstep K solve lamb y' H' Y k = ref_fstep K solve lamb y H Y k.
Proof.
  intros Hk. unfold ref_fstep. f_equal. apply fopt_coreZ_perm. unfold y', H'.
  rewrite (fzref_reorder sigma H y Y k Hk sigma_length). unfold fzref. now apply Permutation_map.
Qed.
Lemma ref_ffold_reorder l : forall Y, (forall k, In k l -> k < length H) ->
  fold_left (ref_fstep K solve lamb y' H') l Y = fold_left (ref_fstep K solve lamb y H) l Y.
Proof.
  induction l as [|k l IH]; intros Y Hl; cbn [fold_left]; auto.
  rewrite ref_fstep_reorder by (apply Hl; now left). apply IH. intros k' Hk'. apply Hl. now right.
Qed.
Lemma ref_fsweep_reorder Y : length H = length Y ->
  ref_fsweep K solve lamb y' H' Y = ref_fsweep K solve lamb y H Y.
Proof.
  intros L. unfold ref_fsweep.
  rewrite (ref_ffold_reorder (seq 0 (length Y - 1))) by (intros k Hk; apply in_seq in Hk; lia).
  apply ref_ffold_reorder. intros k Hk. rewrite <- in_rev in Hk. apply in_seq in Hk. lia.
Qed.

Variable acc : nat -> list (core T) -> list (core T) -> T.
Variable accv : nat -> list (core T) -> T.

(* the whole result of als_func (cores and info) is the same for the re-listed training set *)
Lemma als_func_perm A0 nswp e evld fuel : chain 1 A0 1 -> Hwf H (length A0) (length y) ->
  als_func K solve acc accv H' y' A0 nswp e evld lamb fuel = als_func K solve acc accv H y A0 nswp e evld lamb fuel.
Proof.
  intros C W. unfold als_func.
  assert (W' : Hwf H' (length A0) (length y')).
  { unfold y', H'. rewrite reorder_y_length. eapply Hwf_reorder; eauto. }
  apply (gen_loop_sim K acc accv None fstate fstate _ _ fY fY
           (fun s1 s2 => FInv K H' y' (length A0) s1 O /\ FInv K H y (length A0) s2 O /\ fY s1 = fY s2)).
  - intros s1 s2 (_ & _ & E). exact E.
  - intros s1 s2 (I1 & I2 & E).
    destruct (fsweep_sim K solve lamb H' y' _ s1 W' I1) as [E1 J1].
    destruct (fsweep_sim K solve lamb H y _ s2 W I2) as [E2 J2].
    split; [exact J1 | split; [exact J2 |]]. rewrite E1, E2, E. apply ref_fsweep_reorder.
    destruct W as [WL _]. rewrite WL. symmetry. apply (finv_len _ _ _ _ _ _ I2).
  - split; [now apply finit_inv | split; [now apply finit_inv | reflexivity]].
Qed.
End FPerm.
