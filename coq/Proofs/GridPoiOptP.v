(* C18, part 2: option handling (scalar = per-dimension, rejection of inconsistent lengths) and batch = map of
   singles.  Everything here holds for every number type and every operation record: no law is used. *)
From Coq Require Import List ZArith Bool Lia.
From TV Require Import Num.Ops Lin.Tab Model.GridInd Model.GridPoi.
Import ListNotations.

(* ---------------------------------------------------------------- small list facts *)
Lemma nth_repeat_lt {A} (x d0 : A) m r : r < m -> nth r (repeat x m) d0 = x.
Proof. revert r; induction m; intros r H; [lia|]. destruct r; simpl; auto. apply IHm. lia. Qed.
Lemma tab_map_nth {A B} (g : A -> B) (l : list A) d0 : tab (length l) (fun r => g (nth r l d0)) = map g l.
Proof. rewrite <- (map_tab g). now rewrite tab_nth. Qed.
Lemma sequence_map_ok {A B} (f : A -> B) l : sequence (map (fun x => Ok (f x)) l) = Ok (map f l).
Proof. induction l; simpl; auto. now rewrite IHl. Qed.
Lemma sequence_map_err {A B} (e : err) (l : list A) : l <> [] -> sequence (map (fun _ => @Err B e) l) = Err e.
Proof. destruct l; [congruence|reflexivity]. Qed.
Lemma hd_length {A} (l : list (list A)) d : l <> [] -> Forall (fun r => length r = d) l -> length (hd [] l) = d.
Proof. destruct l; [congruence|]. intros _ H. now inversion H. Qed.

(* ---------------------------------------------------------------- the dimension resolved by grid_prep_opts *)
Definition chain3 {A} (a b : gopt A) (n : gopt Z) (d : option Z) : result (option Z) :=
  opts_step n (opts_step b (opts_step a (Ok d))).
Lemma grid_prep_opts_unfold {A} (a b : gopt A) n d reps :
  grid_prep_opts a b n d reps =
  rbind (chain3 a b n d) (fun d =>
  rbind (grid_prep_opt a d reps) (fun a' =>
  rbind (grid_prep_opt b d reps) (fun b' =>
  rbind (grid_prep_opt n d reps) (fun n' => Ok (a', b', n'))))).
Proof. reflexivity. Qed.

Lemma step_err {B} (o : gopt B) e : opts_step o (Err e) = Err e.
Proof. reflexivity. Qed.
Lemma step_some {B} (o : gopt B) D :
  opts_step o (Ok (Some D)) = Ok (Some D) \/ opts_step o (Ok (Some D)) = Err ValueError.
Proof. destruct o; simpl; auto. destruct (D =? Z.of_nat (length l))%Z; auto. Qed.
Lemma chain3_some {A} (a b : gopt A) n D :
  chain3 a b n (Some D) = Ok (Some D) \/ chain3 a b n (Some D) = Err ValueError.
Proof.
  unfold chain3. destruct (step_some a D) as [-> | ->]; [|now right].
  destruct (step_some b D) as [-> | ->]; [|now right]. apply step_some.
Qed.

(* ---------------------------------------------------------------- scalar and per-dimension options *)
(* o' is o, or o is a scalar x and o' the list [x; ...; x] of length d *)
Definition obc {A} (d : nat) (o o' : gopt A) : Prop :=
  o' = o \/ exists x, o = GSc x /\ o' = GVec (repeat x d).

Lemma step_obc {B} d (o o' : gopt B) : obc d o o' ->
  opts_step o (Ok (Some (Z.of_nat d))) = opts_step o' (Ok (Some (Z.of_nat d))).
Proof.
  intros [-> | (x & -> & ->)]; [reflexivity|]. simpl. rewrite repeat_length, Z.eqb_refl. reflexivity.
Qed.
Lemma chain3_obc {A} d (a a' b b' : gopt A) n n' : obc d a a' -> obc d b b' -> obc d n n' ->
  chain3 a b n (Some (Z.of_nat d)) = chain3 a' b' n' (Some (Z.of_nat d)).
Proof.
  intros Ha Hb Hn. unfold chain3. rewrite <- (step_obc d a a' Ha).
  destruct (step_some a (Z.of_nat d)) as [-> | ->]; [|reflexivity].
  rewrite <- (step_obc d b b' Hb).
  destruct (step_some b (Z.of_nat d)) as [-> | ->]; [|reflexivity].
  apply step_obc, Hn.
Qed.
Lemma prep_opt_obc {A} d (o o' : gopt A) reps : 0 < d -> obc d o o' ->
  grid_prep_opt o (Some (Z.of_nat d)) reps = grid_prep_opt o' (Some (Z.of_nat d)) reps.
Proof.
  intros Hd [-> | (x & -> & ->)]; [reflexivity|]. cbn [grid_prep_opt].
  destruct (Z.leb_spec (Z.of_nat d) 0); [lia|]. now rewrite Nat2Z.id.
Qed.
Lemma grid_prep_opts_obc {A} d (a a' b b' : gopt A) n n' reps : 0 < d ->
  obc d a a' -> obc d b b' -> obc d n n' ->
  grid_prep_opts a b n (Some (Z.of_nat d)) reps = grid_prep_opts a' b' n' (Some (Z.of_nat d)) reps.
Proof.
  intros Hd Ha Hb Hn. rewrite !grid_prep_opts_unfold. rewrite <- (chain3_obc d a a' b b' n n') by assumption.
  destruct (chain3_some a b n (Z.of_nat d)) as [-> | ->]; [|reflexivity]. cbn [rbind].
  rewrite (prep_opt_obc d a a'), (prep_opt_obc d b b'), (prep_opt_obc d n n') by assumption. reflexivity.
Qed.

(* ---------------------------------------------------------------- n of poi_to_ind: grid_prep_opts(None, None, n, d, m) *)
(* it is grid_prep_opt preceded by the length validation of a list n *)
Lemma prep_n_eq n d reps : prep_n n d reps =
  match n with
  | GVec l => if Nat.eqb (length l) d then grid_prep_opt n (Some (Z.of_nat d)) reps else Err ValueError
  | _ => grid_prep_opt n (Some (Z.of_nat d)) reps
  end.
Proof.
  unfold prep_n, grid_prep_opts. destruct n as [|x|l]; cbn [opts_step rbind grid_prep_opt rmap snd].
  - reflexivity.
  - destruct (Z.of_nat d <=? 0)%Z; reflexivity.
  - destruct (Nat.eqb_spec (length l) d) as [->|Hne].
    + rewrite Z.eqb_refl. reflexivity.
    + destruct (Z.eqb_spec (Z.of_nat d) (Z.of_nat (length l))) as [E|_]; [|reflexivity].
      apply Nat2Z.inj in E. congruence.
Qed.
Lemma prep_n_obc d (n n' : gopt Z) reps : 0 < d -> obc d n n' -> prep_n n d reps = prep_n n' d reps.
Proof.
  intros Hd Hn. unfold prep_n. rewrite (grid_prep_opts_obc d GNone GNone GNone GNone n n'); auto; now left.
Qed.

Section Generic.
Context {T : Type} (K : ops T).
Variable fl : T -> Z.
Variables cosf acosf : T -> T.
Variable pi : T.

Lemma poi_scale1_length X a b kd Xsc : poi_scale1 K X a b kd = Ok Xsc -> length Xsc = length X.
Proof.
  unfold poi_scale1. destruct (grid_prep_opts a b GNone _ None) as [[[a1 b1] n1]|e]; [|discriminate].
  cbn [rbind]. destruct kd; try discriminate;
  (destruct (arr1 a1); [|discriminate]; destruct (arr1 b1); [|discriminate]; cbn [rbind];
   intros H; injection H as <-; apply tab_length).
Qed.

(* scalar options and their per-dimension spelling give the same answers (single points) *)
Lemma opt_broadcast_ind_to_poi1 I a a' b b' n n' kd : I <> [] ->
  obc (length I) a a' -> obc (length I) b b' -> obc (length I) n n' ->
  ind_to_poi1 K cosf pi I a b n kd = ind_to_poi1 K cosf pi I a' b' n' kd.
Proof.
  intros HI Ha Hb Hn. unfold ind_to_poi1.
  rewrite (grid_prep_opts_obc (length I) a a' b b' n n'); auto. destruct I; [congruence|simpl; lia].
Qed.
Lemma opt_broadcast_poi_scale1 X a a' b b' kd : X <> [] ->
  obc (length X) a a' -> obc (length X) b b' ->
  poi_scale1 K X a b kd = poi_scale1 K X a' b' kd.
Proof.
  intros HX Ha Hb. unfold poi_scale1.
  rewrite (grid_prep_opts_obc (length X) a a' b b' GNone GNone); auto.
  - destruct X; [congruence|simpl; lia].
  - now left.
Qed.
Lemma opt_broadcast_poi_to_ind1 X a a' b b' n n' kd : X <> [] ->
  obc (length X) a a' -> obc (length X) b b' -> obc (length X) n n' ->
  poi_to_ind1 K fl acosf pi X a b n kd = poi_to_ind1 K fl acosf pi X a' b' n' kd.
Proof.
  intros HX Ha Hb Hn. unfold poi_to_ind1. rewrite <- (opt_broadcast_poi_scale1 X a a' b b' kd) by assumption.
  destruct (poi_scale1 K X a b kd) as [Xsc|e] eqn:E; [|reflexivity]. cbn [rbind].
  apply poi_scale1_length in E. rewrite E.
  rewrite (prep_n_obc (length X) n n'); auto. destruct X; [congruence|simpl; lia].
Qed.

(* ---------------------------------------------------------------- reps: the [reps, d] arrays are repeated rows *)
Definition prep {A} (m : nat) (p : parr A) : parr A :=
  match p with P1 v => P2 (repeat v m) | _ => p end.
Definition flat1 {A} (p : parr A) : Prop := match p with P2 _ => False | _ => True end.
Lemma prep_opt_reps {A} (o : gopt A) d m : grid_prep_opt o d (Some m) = rmap (prep m) (grid_prep_opt o d None).
Proof. destruct o; simpl; auto. destruct d as [dz|]; auto. destruct (dz <=? 0)%Z; auto. Qed.
Lemma prep_opt_flat {A} (o : gopt A) d p : grid_prep_opt o d None = Ok p -> flat1 p.
Proof.
  destruct o; simpl.
  - intros H; injection H as <-; exact I.
  - destruct d as [dz|]; [|discriminate]. destruct (dz <=? 0)%Z; [discriminate|]. intros H; injection H as <-; exact I.
  - intros H; injection H as <-; exact I.
Qed.
Lemma prep_opts_reps {A} (a b : gopt A) n d m :
  grid_prep_opts a b n d (Some m) =
  rmap (fun '(x, y, z) => (prep m x, prep m y, prep m z)) (grid_prep_opts a b n d None).
Proof.
  rewrite !grid_prep_opts_unfold. destruct (chain3 a b n d) as [d'|e]; [|reflexivity]. cbn [rbind].
  rewrite !prep_opt_reps.
  destruct (grid_prep_opt a d' None); [|reflexivity]. cbn [rbind rmap].
  destruct (grid_prep_opt b d' None); [|reflexivity]. cbn [rbind rmap].
  destruct (grid_prep_opt n d' None); reflexivity.
Qed.
Lemma prep_opts_flat {A} (a b : gopt A) n d a1 b1 n1 :
  grid_prep_opts a b n d None = Ok (a1, b1, n1) -> flat1 a1 /\ flat1 b1 /\ flat1 n1.
Proof.
  rewrite grid_prep_opts_unfold. destruct (chain3 a b n d) as [d'|e]; [|discriminate]. cbn [rbind].
  destruct (grid_prep_opt a d' None) eqn:Ea; [|discriminate]. cbn [rbind].
  destruct (grid_prep_opt b d' None) eqn:Eb; [|discriminate]. cbn [rbind].
  destruct (grid_prep_opt n d' None) eqn:En; [|discriminate]. cbn [rbind].
  intros H; injection H as <- <- <-. repeat split; eapply prep_opt_flat; eassumption.
Qed.
Lemma prep_n_reps n d m : prep_n n d (Some m) = rmap (prep m) (prep_n n d None).
Proof.
  rewrite !prep_n_eq. destruct n as [|x|l]; try apply prep_opt_reps.
  destruct (Nat.eqb (length l) d); [apply prep_opt_reps|reflexivity].
Qed.
Lemma prep_n_flat n d p : prep_n n d None = Ok p -> flat1 p.
Proof.
  rewrite prep_n_eq. destruct n as [|x|l]; try apply prep_opt_flat.
  destruct (Nat.eqb (length l) d); [apply prep_opt_flat|discriminate].
Qed.
Lemma arr2_prep {A} m (p : parr A) : flat1 p -> arr2 (prep m p) = rmap (fun v => repeat v m) (arr1 p).
Proof. destruct p; simpl; intros H; [reflexivity|reflexivity|contradiction]. Qed.

(* ---------------------------------------------------------------- batch = map of singles *)
(* X is a non-empty rectangular batch with rows of length d *)
Definition rect {A} (d : nat) (X : list (list A)) : Prop := X <> [] /\ Forall (fun r => length r = d) X.

Lemma tab2_rows {A B C} (g : list A -> list B -> C) (X : list (list A)) (v : list B) :
  tab (length X) (fun r => g (nth r X []) (nth r (repeat v (length X)) [])) = map (fun x => g x v) X.
Proof.
  rewrite <- (tab_map_nth (fun x => g x v) X []). apply tab_ext. intros r Hr. now rewrite nth_repeat_lt.
Qed.

(* shape lemma: a batch either fails with the error every row fails with, or is the row function mapped *)
Lemma ind_to_poi_shape I a b n kd d : rect d I ->
  (exists e, ind_to_poi K cosf pi I a b n kd = Err e /\
             forall i, length i = d -> ind_to_poi1 K cosf pi i a b n kd = Err e) \/
  (exists S, ind_to_poi K cosf pi I a b n kd = Ok (map S I) /\
             forall i, length i = d -> ind_to_poi1 K cosf pi i a b n kd = Ok (S i)).
Proof.
  intros [Hne Hr].
  pose (G := fun i : list Z =>
    rbind (grid_prep_opts a b n (Some (Z.of_nat d)) None) (fun '(a', b', n') =>
    match kd with
    | KUni | KCheb =>
      rbind (arr1 n') (fun nv => rbind (arr1 b') (fun bv => rbind (arr1 a') (fun av =>
      Ok (tab d (fun k => node K cosf pi kd (nth k av (o0 K)) (nth k bv (o0 K)) (nth k nv 0%Z) (nth k i 0%Z))))))
    | _ => Err ValueError
    end)).
  assert (HG : forall i, length i = d -> ind_to_poi1 K cosf pi i a b n kd = G i) by (intros i <-; reflexivity).
  cut ((exists e, ind_to_poi K cosf pi I a b n kd = Err e /\ forall i, G i = Err e) \/
       (exists S, ind_to_poi K cosf pi I a b n kd = Ok (map S I) /\ forall i, G i = Ok (S i))).
  { intros [(e & H1 & H2) | (S & H1 & H2)]; [left; exists e | right; exists S];
      (split; [exact H1|]); intros i Hi; rewrite (HG i Hi); apply H2. }
  clear HG. unfold G, ind_to_poi. rewrite (hd_length I d Hne Hr). rewrite prep_opts_reps.
  destruct (grid_prep_opts a b n (Some (Z.of_nat d)) None) as [[[a1 b1] n1]|e] eqn:E.
  2:{ left. exists e. split; reflexivity. }
  destruct (prep_opts_flat _ _ _ _ _ _ _ E) as (Fa & Fb & Fn).
  cbn [rmap rbind].
  destruct kd as [| |an bn|]; try (left; exists ValueError; split; reflexivity).
  all: rewrite !arr2_prep by assumption.
  all: destruct (arr1 n1) as [nv|e]; cbn [rmap rbind]; [|left; exists e; split; reflexivity].
  all: destruct (arr1 b1) as [bv|e]; cbn [rmap rbind]; [|left; exists e; split; reflexivity].
  all: destruct (arr1 a1) as [av|e]; cbn [rmap rbind]; [|left; exists e; split; reflexivity].
  all: right; eexists; split; [|intros i; reflexivity].
  all: f_equal; rewrite <- (tab_map_nth _ I []); apply tab_ext; intros r Hlt.
  all: apply tab_ext; intros k Hk; now rewrite !nth_repeat_lt.
Qed.

Lemma batch_is_map_ind_to_poi I a b n kd d : rect d I ->
  ind_to_poi K cosf pi I a b n kd = sequence (map (fun i => ind_to_poi1 K cosf pi i a b n kd) I).
Proof.
  intros HR. destruct (ind_to_poi_shape I a b n kd d HR) as [(e & -> & Hrow) | (S & -> & Hrow)];
  destruct HR as [Hne Hr]; rewrite Forall_forall in Hr.
  - rewrite (map_ext_in _ (fun _ => Err e)) by (intros i Hi; apply Hrow, Hr, Hi).
    now rewrite sequence_map_err.
  - rewrite (map_ext_in _ (fun i => Ok (S i))) by (intros i Hi; apply Hrow, Hr, Hi).
    now rewrite sequence_map_ok.
Qed.

Lemma poi_scale_shape X a b kd d : rect d X ->
  (exists e, poi_scale K X a b kd = Err e /\ forall x, length x = d -> poi_scale1 K x a b kd = Err e) \/
  (exists S, poi_scale K X a b kd = Ok (map S X) /\ (forall x, length (S x) = d) /\
             forall x, length x = d -> poi_scale1 K x a b kd = Ok (S x)).
Proof.
  intros [Hne Hr].
  pose (G := fun x : list T =>
    rbind (grid_prep_opts a b GNone (Some (Z.of_nat d)) None) (fun '(a', b', _) =>
    match kd with
    | KBad => Err ValueError
    | _ => rbind (arr1 a') (fun av => rbind (arr1 b') (fun bv =>
           Ok (tab d (fun k => scale K kd (nth k av (o0 K)) (nth k bv (o0 K)) (nth k x (o0 K))))))
    end)).
  assert (HG : forall x, length x = d -> poi_scale1 K x a b kd = G x) by (intros x <-; reflexivity).
  cut ((exists e, poi_scale K X a b kd = Err e /\ forall x, G x = Err e) \/
       (exists S, poi_scale K X a b kd = Ok (map S X) /\ (forall x, length (S x) = d) /\ forall x, G x = Ok (S x))).
  { intros [(e & H1 & H2) | (S & H1 & H3 & H2)]; [left; exists e | right; exists S];
      (split; [exact H1|]); [|split; [exact H3|]]; intros i Hi; rewrite (HG i Hi); apply H2. }
  clear HG. unfold G, poi_scale. rewrite (hd_length X d Hne Hr). rewrite prep_opts_reps.
  destruct (grid_prep_opts a b GNone (Some (Z.of_nat d)) None) as [[[a1 b1] n1]|e] eqn:E.
  2:{ left. exists e. split; reflexivity. }
  destruct (prep_opts_flat _ _ _ _ _ _ _ E) as (Fa & Fb & Fn).
  cbn [rmap rbind].
  destruct kd as [| |an bn|]; try (left; exists ValueError; split; reflexivity).
  all: rewrite !arr2_prep by assumption.
  all: destruct (arr1 a1) as [av|e]; cbn [rmap rbind]; [|left; exists e; split; reflexivity].
  all: destruct (arr1 b1) as [bv|e]; cbn [rmap rbind]; [|left; exists e; split; reflexivity].
  all: right; eexists; split; [|split; [|intros x; reflexivity]]; [|intros x; apply tab_length].
  all: f_equal; rewrite <- (tab_map_nth _ X []); apply tab_ext; intros r Hlt.
  all: apply tab_ext; intros k Hk; now rewrite !nth_repeat_lt.
Qed.

Lemma batch_is_map_poi_scale X a b kd d : rect d X ->
  poi_scale K X a b kd = sequence (map (fun x => poi_scale1 K x a b kd) X).
Proof.
  intros HR. destruct (poi_scale_shape X a b kd d HR) as [(e & -> & Hrow) | (S & -> & _ & Hrow)];
  destruct HR as [Hne Hr]; rewrite Forall_forall in Hr.
  - rewrite (map_ext_in _ (fun _ => Err e)) by (intros i Hi; apply Hrow, Hr, Hi).
    now rewrite sequence_map_err.
  - rewrite (map_ext_in _ (fun i => Ok (S i))) by (intros i Hi; apply Hrow, Hr, Hi).
    now rewrite sequence_map_ok.
Qed.

Lemma batch_is_map_poi_to_ind X a b n kd d : rect d X ->
  poi_to_ind K fl acosf pi X a b n kd = sequence (map (fun x => poi_to_ind1 K fl acosf pi x a b n kd) X).
Proof.
  intros HR. unfold poi_to_ind, poi_to_ind1.
  destruct (poi_scale_shape X a b kd d HR) as [(e & -> & Hrow) | (S & -> & HS & Hrow)];
  destruct HR as [Hne Hr]; pose proof Hr as Hr'; rewrite Forall_forall in Hr.
  - rewrite (map_ext_in _ (fun _ => Err e)).
    + now rewrite sequence_map_err.
    + intros x Hx. now rewrite (Hrow x (Hr x Hx)).
  - cbn [rbind]. rewrite map_length.
    assert (Hd : length (hd [] (map S X)) = d).
    { destruct X; [congruence|]. simpl. apply HS. }
    rewrite Hd.
    rewrite (map_ext_in _ (fun x =>
       rbind (prep_n n d None) (fun n' =>
         match kd with
         | KUni | KCheb => rbind (arr1 n') (fun nv => bcast_row K fl acosf pi kd (S x) nv)
         | _ => Err ValueError
         end))).
    2:{ intros x Hx. rewrite (Hrow x (Hr x Hx)). cbn [rbind]. now rewrite HS. }
    rewrite prep_n_reps.
    destruct (prep_n n d None) as [n1|e] eqn:En; cbn [rmap rbind].
    2:{ now rewrite sequence_map_err. }
    pose proof (prep_n_flat _ _ _ En) as Fn.
    destruct kd as [| |an bn|]; try (now rewrite sequence_map_err).
    all: rewrite arr2_prep by assumption.
    all: destruct (arr1 n1) as [nv|e]; cbn [rmap rbind]; [|now rewrite sequence_map_err].
    all: f_equal.
    all: replace (length X) with (length (map S X)) by apply map_length.
    all: rewrite (tab2_rows (fun xs v => bcast_row K fl acosf pi _ xs v) (map S X) nv).
    all: now rewrite map_map.
Qed.
End Generic.

(* ---------------------------------------------------------------- inconsistent option lengths are rejected *)
(* every length the caller declares: d itself and the length of every list-valued option *)
Definition olen {B} (o : gopt B) : list Z := match o with GVec l => [Z.of_nat (length l)] | _ => [] end.
Definition declared {A} (a b : gopt A) (n : gopt Z) (d : option Z) : list Z :=
  (match d with Some dz => [dz] | None => [] end) ++ olen a ++ olen b ++ olen n.
Definition is_scalar {B} (o : gopt B) : Prop := match o with GSc _ => True | _ => False end.

Lemma chain3_rejects {A} (a b : gopt A) n d x y :
  In x (declared a b n d) -> In y (declared a b n d) -> x <> y -> chain3 a b n d = Err ValueError.
Proof.
  unfold declared, chain3, olen. intros Hx Hy Hne.
  destruct a as [|xa|la], b as [|xb|lb], n as [|xn|ln], d as [dz|]; cbn in Hx, Hy |- *;
    repeat match goal with |- context [(?u =? ?v)%Z] => destruct (Z.eqb_spec u v); cbn end;
    try reflexivity; exfalso; intuition (subst; try lia; try congruence).
Qed.
(* two declared lengths differ: ValueError, whatever else is passed *)
Lemma opts_rejected_mismatch {A} (a b : gopt A) n d reps x y :
  In x (declared a b n d) -> In y (declared a b n d) -> x <> y ->
  grid_prep_opts a b n d reps = Err ValueError.
Proof. intros Hx Hy Hne. rewrite grid_prep_opts_unfold, (chain3_rejects a b n d x y); auto. Qed.
(* only scalars and no usable dimension: ValueError *)
Lemma opts_rejected_nodim {A} (a b : gopt A) n d reps :
  olen a = [] -> olen b = [] -> olen n = [] -> is_scalar a \/ is_scalar b \/ is_scalar n ->
  d = None \/ (exists dz, d = Some dz /\ (dz <= 0)%Z) ->
  grid_prep_opts a b n d reps = Err ValueError.
Proof.
  intros Ha Hb Hn Hs Hd. rewrite grid_prep_opts_unfold. unfold chain3.
  destruct a as [|xa|la], b as [|xb|lb], n as [|xn|ln]; try discriminate; cbn in Hs; try tauto;
  destruct Hd as [-> | (dz & -> & Hle)]; cbn; try reflexivity;
  destruct (Z.leb_spec dz 0); try lia; reflexivity.
Qed.
(* consistent options are accepted and come back as arrays of the common length *)
Lemma opts_accepted {A} (a b : gopt A) n d (D : nat) :
  0 < D -> (forall x, In x (declared a b n d) -> x = Z.of_nat D) -> declared a b n d <> [] ->
  exists a1 b1 n1, grid_prep_opts a b n d None = Ok (a1, b1, n1) /\
    (forall v, a1 = P1 v -> length v = D) /\ (forall v, b1 = P1 v -> length v = D) /\
    (forall v, n1 = P1 v -> length v = D) /\
    (a = GNone <-> a1 = PNone) /\ (b = GNone <-> b1 = PNone) /\ (n = GNone <-> n1 = PNone).
Proof.
  intros HD Hall Hne. rewrite grid_prep_opts_unfold.
  assert (Hc : chain3 a b n d = Ok (Some (Z.of_nat D))).
  { unfold chain3, declared, olen in *.
    destruct a as [|xa|la], b as [|xb|lb], n as [|xn|ln], d as [dz|]; cbn in Hall, Hne |- *;
    try congruence;
    repeat match goal with
    | H : forall x, _ |- _ =>
      first [ rewrite (H dz) by tauto | rewrite <- (H (Z.of_nat (length la))) by tauto
            | rewrite <- (H (Z.of_nat (length lb))) by tauto | rewrite <- (H (Z.of_nat (length ln))) by tauto ]
    end;
    repeat match goal with |- context [(?u =? ?v)%Z] => destruct (Z.eqb_spec u v); cbn end;
    try reflexivity;
    try (exfalso; match goal with H : ?u <> ?v |- _ => apply H end;
         rewrite ?(Hall (Z.of_nat (length la))), ?(Hall (Z.of_nat (length lb))), ?(Hall (Z.of_nat (length ln))) by tauto;
         try reflexivity; symmetry; apply Hall; tauto). }
  rewrite Hc. cbn [rbind].
  assert (Hp : forall B (o : gopt B), (forall x, In x (olen o) -> x = Z.of_nat D) ->
     exists p, grid_prep_opt o (Some (Z.of_nat D)) None = Ok p /\ (forall v, p = P1 v -> length v = D) /\
               (o = GNone <-> p = PNone)).
  { intros B o Ho. destruct o as [|x|l]; cbn.
    - exists PNone. repeat split; intros; congruence.
    - destruct (Z.leb_spec (Z.of_nat D) 0); [lia|]. eexists; split; [reflexivity|]. split.
      + intros v E; injection E as <-. now rewrite repeat_length, Nat2Z.id.
      + split; discriminate.
    - eexists; split; [reflexivity|]. split.
      + intros v E; injection E as <-. specialize (Ho _ (or_introl eq_refl)). lia.
      + split; discriminate. }
  destruct (Hp A a) as (a1 & -> & La & Na).
  { intros x Hx. apply Hall. unfold declared. rewrite !in_app_iff. tauto. }
  destruct (Hp A b) as (b1 & -> & Lb & Nb).
  { intros x Hx. apply Hall. unfold declared. rewrite !in_app_iff. tauto. }
  destruct (Hp Z n) as (n1 & -> & Ln & Nn).
  { intros x Hx. apply Hall. unfold declared. rewrite !in_app_iff. tauto. }
  cbn [rbind]. exists a1, b1, n1. tauto.
Qed.

Section Rejects.
Context {T : Type} (K : ops T).
Variable fl : T -> Z.
Variables cosf acosf : T -> T.
Variable pi : T.
(* the public maps reject a list-valued a / b / n whose length is not the dimension of the point / index *)
Lemma ind_to_poi1_rejects I a b n kd x :
  In x (olen a ++ olen b ++ olen n) -> x <> Z.of_nat (length I) ->
  ind_to_poi1 K cosf pi I a b n kd = Err ValueError.
Proof.
  intros Hx Hne. unfold ind_to_poi1.
  rewrite (opts_rejected_mismatch a b n (Some (Z.of_nat (length I))) None x (Z.of_nat (length I))); auto.
  - unfold declared. simpl. now right.
  - unfold declared. simpl. now left.
Qed.
Lemma poi_scale1_rejects X a b kd x :
  In x (olen a ++ olen b) -> x <> Z.of_nat (length X) ->
  poi_scale1 K X a b kd = Err ValueError.
Proof.
  intros Hx Hne. unfold poi_scale1.
  rewrite (opts_rejected_mismatch a b GNone (Some (Z.of_nat (length X))) None x (Z.of_nat (length X))); auto.
  - unfold declared. simpl. right. rewrite app_nil_r. exact Hx.
  - unfold declared. simpl. now left.
Qed.
Lemma poi_to_ind1_rejects_ab X a b n kd x :
  In x (olen a ++ olen b) -> x <> Z.of_nat (length X) ->
  poi_to_ind1 K fl acosf pi X a b n kd = Err ValueError.
Proof. intros Hx Hne. unfold poi_to_ind1. now rewrite (poi_scale1_rejects X a b kd x). Qed.
(* since bc9fc68 n goes through grid_prep_opts(None, None, n, d, m): a list n of the wrong length is rejected with
   ValueError for EVERY dimension d, as soon as the scaling of the point succeeded ... *)
Lemma poi_to_ind1_rejects_n X a b n kd Xsc x :
  poi_scale1 K X a b kd = Ok Xsc -> In x (olen n) -> x <> Z.of_nat (length X) ->
  poi_to_ind1 K fl acosf pi X a b n kd = Err ValueError.
Proof.
  intros E Hx Hne. unfold poi_to_ind1. rewrite E. cbn [rbind]. apply poi_scale1_length in E. rewrite E.
  rewrite prep_n_eq. destruct n as [|y|l]; cbn [olen] in Hx; try contradiction.
  destruct Hx as [<-|[]]. destruct (Nat.eqb_spec (length l) (length X)) as [Eq|_]; [|reflexivity].
  exfalso. apply Hne. now rewrite Eq.
Qed.
(* ... and whatever the scaling does, the call never succeeds *)
Lemma poi_to_ind1_rejects_n_never_ok X a b n kd x :
  In x (olen n) -> x <> Z.of_nat (length X) -> exists e, poi_to_ind1 K fl acosf pi X a b n kd = Err e.
Proof.
  intros Hx Hne. destruct (poi_scale1 K X a b kd) as [Xsc|e] eqn:E.
  - exists ValueError. eapply poi_to_ind1_rejects_n; eauto.
  - exists e. unfold poi_to_ind1. now rewrite E.
Qed.
(* poi_scale1 fails with ValueError only, unless a bound is None (then TypeError) *)
Lemma poi_scale1_err X a b kd e : a <> GNone -> b <> GNone -> poi_scale1 K X a b kd = Err e -> e = ValueError.
Proof.
  intros Ha Hb. unfold poi_scale1. rewrite grid_prep_opts_unfold.
  destruct (chain3_some a b GNone (Z.of_nat (length X))) as [-> | ->]; cbn [rbind]; [|congruence].
  assert (P : forall o : gopt T, o <> GNone ->
            (exists v, grid_prep_opt o (Some (Z.of_nat (length X))) None = Ok (P1 v)) \/
            grid_prep_opt o (Some (Z.of_nat (length X))) None = Err ValueError).
  { intros o Ho. destruct o as [|x|l]; [congruence| |]; cbn [grid_prep_opt].
    - destruct (Z.of_nat (length X) <=? 0)%Z; [now right|left; eexists; reflexivity].
    - left; eexists; reflexivity. }
  destruct (P a Ha) as [(av & ->) | ->]; cbn [rbind]; [|congruence].
  destruct (P b Hb) as [(bv & ->) | ->]; cbn [rbind grid_prep_opt]; [|congruence].
  destruct kd; cbn [arr1 rbind]; congruence.
Qed.
(* the rejection clause for poi_to_ind at full strength: any list-valued a / b / n of the wrong length, any d,
   any kind => ValueError (a, b not None: a missing bound is a TypeError whatever n is) *)
Lemma poi_to_ind1_rejects X a b n kd x : a <> GNone -> b <> GNone ->
  In x (olen a ++ olen b ++ olen n) -> x <> Z.of_nat (length X) ->
  poi_to_ind1 K fl acosf pi X a b n kd = Err ValueError.
Proof.
  intros Ha Hb Hx Hne. rewrite app_assoc in Hx. apply in_app_or in Hx as [Hx|Hx].
  - eapply poi_to_ind1_rejects_ab; eauto.
  - destruct (poi_scale1 K X a b kd) as [Xsc|e] eqn:E.
    + eapply poi_to_ind1_rejects_n; eauto.
    + rewrite (poi_scale1_err X a b kd e Ha Hb E) in E. unfold poi_to_ind1. now rewrite E.
Qed.
(* the same for batches [m, d] (m >= 1): the batch call is rejected exactly as each of its rows *)
Lemma sequence_all_err {A B} (f : A -> result B) (l : list A) e : l <> [] -> (forall x, In x l -> f x = Err e) ->
  sequence (map f l) = Err e.
Proof.
  intros Hne H. rewrite (map_ext_in f (fun _ => Err e)) by exact H. now apply sequence_map_err.
Qed.
Lemma poi_to_ind_rejects X a b n kd d x : rect d X -> a <> GNone -> b <> GNone ->
  In x (olen a ++ olen b ++ olen n) -> x <> Z.of_nat d ->
  poi_to_ind K fl acosf pi X a b n kd = Err ValueError.
Proof.
  intros HR Ha Hb Hx Hne. rewrite (batch_is_map_poi_to_ind K fl acosf pi X a b n kd d HR).
  destruct HR as [Hn Hr]. rewrite Forall_forall in Hr. apply sequence_all_err; auto.
  intros r Hin. apply (poi_to_ind1_rejects r a b n kd x); auto. now rewrite (Hr r Hin).
Qed.
Lemma ind_to_poi_rejects I a b n kd d x : rect d I ->
  In x (olen a ++ olen b ++ olen n) -> x <> Z.of_nat d ->
  ind_to_poi K cosf pi I a b n kd = Err ValueError.
Proof.
  intros HR Hx Hne. rewrite (batch_is_map_ind_to_poi K cosf pi I a b n kd d HR).
  destruct HR as [Hn Hr]. rewrite Forall_forall in Hr. apply sequence_all_err; auto.
  intros r Hin. apply (ind_to_poi1_rejects r a b n kd x); auto. now rewrite (Hr r Hin).
Qed.
Lemma poi_scale_rejects X a b kd d x : rect d X ->
  In x (olen a ++ olen b) -> x <> Z.of_nat d -> poi_scale K X a b kd = Err ValueError.
Proof.
  intros HR Hx Hne. rewrite (batch_is_map_poi_scale K X a b kd d HR).
  destruct HR as [Hn Hr]. rewrite Forall_forall in Hr. apply sequence_all_err; auto.
  intros r Hin. apply (poi_scale1_rejects r a b kd x); auto. now rewrite (Hr r Hin).
Qed.
Lemma batch_rejects (X : list (list T)) (I : list (list Z)) a b n kd d x : x <> Z.of_nat d ->
  (rect d I -> In x (olen a ++ olen b ++ olen n) -> ind_to_poi K cosf pi I a b n kd = Err ValueError) /\
  (rect d X -> In x (olen a ++ olen b) -> poi_scale K X a b kd = Err ValueError) /\
  (rect d X -> a <> GNone -> b <> GNone -> In x (olen a ++ olen b ++ olen n) ->
   poi_to_ind K fl acosf pi X a b n kd = Err ValueError).
Proof.
  intros; repeat split; intros;
    [eapply ind_to_poi_rejects | eapply poi_scale_rejects | eapply poi_to_ind_rejects]; eauto.
Qed.
(* a list n of the right length is what the pinned code did with it *)
Lemma poi_to_ind1_pinned_same X a b n kd : (forall x, In x (olen n) -> x = Z.of_nat (length X)) ->
  poi_to_ind1 K fl acosf pi X a b n kd = poi_to_ind1_pinned K fl acosf pi X a b n kd.
Proof.
  intros H. unfold poi_to_ind1, poi_to_ind1_pinned. destruct (poi_scale1 K X a b kd) as [Xsc|e] eqn:E; [|reflexivity].
  cbn [rbind]. apply poi_scale1_length in E. rewrite E, prep_n_eq.
  destruct n as [|y|l]; try reflexivity. specialize (H _ (or_introl eq_refl)). apply Nat2Z.inj in H.
  rewrite H, Nat.eqb_refl. reflexivity.
Qed.

(* ---- the code as pinned (n prepared by grid_prep_opt alone, no length validation): what then happened was numpy
   broadcasting.  A list n whose length is neither d nor 1 was rejected when d <> 1 ... *)
Lemma poi_to_ind1_pinned_rejects_n X a b nv kd Xsc : kd = KUni \/ kd = KCheb ->
  poi_scale1 K X a b kd = Ok Xsc -> length nv <> length X -> length X <> 1%nat ->
  poi_to_ind1_pinned K fl acosf pi X a b (GVec nv) kd = Err (if Nat.eqb (length nv) 1 then IndexError else ValueError).
Proof.
  intros Hk E Hne H1. unfold poi_to_ind1_pinned. rewrite E. cbn [rbind grid_prep_opt].
  apply poi_scale1_length in E.
  assert (R : bcast_row K fl acosf pi kd Xsc nv = Err (if Nat.eqb (length nv) 1 then IndexError else ValueError)).
  { unfold bcast_row. rewrite E. destruct (Nat.eqb_spec (length nv) (length X)); [congruence|].
    destruct (Nat.eqb_spec (length nv) 1); [reflexivity|].
    destruct (Nat.eqb_spec (length X) 1); [congruence|reflexivity]. }
  destruct Hk as [-> | ->]; cbn [arr1 rbind]; exact R.
Qed.
(* ... but for d = 1 a longer (or empty) n was accepted and the single coordinate broadcast against it: the finding *)
Lemma poi_to_ind1_pinned_accepts_n_d1 x a b nv kd Xsc : kd = KUni \/ kd = KCheb ->
  poi_scale1 K [x] a b kd = Ok Xsc -> length nv <> 1%nat ->
  exists r, poi_to_ind1_pinned K fl acosf pi [x] a b (GVec nv) kd = Ok r /\ length r = length nv.
Proof.
  intros Hk E Hne. unfold poi_to_ind1_pinned. rewrite E. cbn [rbind grid_prep_opt].
  apply poi_scale1_length in E. cbn [length] in E.
  assert (R : exists r, bcast_row K fl acosf pi kd Xsc nv = Ok r /\ length r = length nv).
  { unfold bcast_row. rewrite E. destruct (Nat.eqb_spec (length nv) 1); [congruence|].
    cbn [Nat.eqb]. eexists; split; [reflexivity|apply tab_length]. }
  destruct Hk as [-> | ->]; cbn [arr1 rbind]; exact R.
Qed.
End Rejects.

(* ---------------------------------------------------------------- the finding on the pinned code, machine-checked *)
From Coq Require Import QArith Qcanon.
(* poi_to_ind([0.1], 0., 1., [4, 5, 6]): d = 1, n of length 3.  The pinned code returned [0, 0, 0]; the code rejects it *)
Lemma poi_to_ind1_pinned_refuted :
  exists (X : list Qc) (a b : gopt Qc) (nv r : list Z),
    length nv <> length X /\
    poi_to_ind1_pinned OQc Qc_floor (fun x => x) (Q2Qc 0) X a b (GVec nv) KUni = Ok r /\
    poi_to_ind1 OQc Qc_floor (fun x => x) (Q2Qc 0) X a b (GVec nv) KUni = Err ValueError.
Proof.
  exists [Q2Qc (1 # 10)], (GSc (Q2Qc 0)), (GSc (Q2Qc 1)), [4; 5; 6]%Z, [0; 0; 0]%Z.
  split; [cbn; lia|]. split; vm_compute; reflexivity.
Qed.
