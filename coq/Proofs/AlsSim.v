(* C07, part 2 (no arithmetic laws needed except for the permutation theorem):
   interface invariant, als = reference semantics, shapes, restart, sample order, missing slices, info. *)
From Coq Require Import List Arith Lia Ring PeanoNat Bool Permutation.
From TV Require Import Num.Ops Lin.Tab Lin.BigSum Lin.Solve TT.Chain Model.Als Proofs.AlsLin.
Import ListNotations.

Definition dims {T} (G : core T) : nat * nat * nat := (cr1 G, cn G, cr2 G).

Lemma map_upd_same {A B} (f : A -> B) k x (l : list A) d : f x = f (nth k l d) -> map f (upd k x l) = map f l.
Proof.
  revert k; induction l as [|y l IH]; intros [|k]; simpl; intros H; auto; try congruence.
  f_equal. auto.
Qed.
Lemma forallb_perm {A} (f : A -> bool) l l' : Permutation l l' -> forallb f l = forallb f l'.
Proof.
  induction 1; simpl; auto; try congruence.
  destruct (f x), (f y); auto.
Qed.
Lemma nodup_perm_length (l l' : list nat) : Permutation l l' ->
  length (nodup Nat.eq_dec l) = length (nodup Nat.eq_dec l').
Proof.
  intros H. apply Permutation_length. apply NoDup_Permutation; try apply NoDup_nodup.
  intros x. rewrite !nodup_In. split; intros Hx.
  - apply (Permutation_in x H Hx).
  - apply (Permutation_in x (Permutation_sym H) Hx).
Qed.
Lemma nth_map_lt {A B} (f : A -> B) l k d d' : k < length l -> nth k (map f l) d' = f (nth k l d).
Proof. intros. rewrite nth_indep with (d' := f d) by (now rewrite map_length). apply map_nth. Qed.
Lemma iter_plus {A} (f : A -> A) b a x : Nat.iter (b + a) f x = Nat.iter b f (Nat.iter a f x).
Proof. induction b; simpl; congruence. Qed.
Lemma rev_seq_S n : rev (seq 1 (S n)) = S n :: rev (seq 1 n).
Proof. rewrite seq_S, rev_app_distr. reflexivity. Qed.

Section Sim.
Context {T : Type} (K : ops T).
Notation "0" := (o0 K). Notation "1" := (o1 K).
Variable solve : list (list T) -> list T -> list T.

Lemma dims_eq (G G' : core T) : dims G = dims G' -> cr1 G = cr1 G' /\ cn G = cn G' /\ cr2 G = cr2 G'.
Proof. unfold dims. intros H. inversion H. auto. Qed.
Lemma opt_core_dims lamb Q pos Z : dims (opt_core K solve lamb Q pos Z) = dims Q.
Proof. reflexivity. Qed.
Lemma dims_chain (Y Y' : list (core T)) r rl : map dims Y = map dims Y' -> chain r Y rl -> chain r Y' rl.
Proof.
  revert Y' r; induction Y as [|G Y IH]; intros [|G' Y'] r; cbn [map chain]; intros E; try discriminate; auto.
  assert (E1 : dims G = dims G') by congruence. assert (E2 : map dims Y = map dims Y') by congruence.
  destruct (dims_eq _ _ E1) as (A & B & C). intros (H1 & H2). split; [congruence|].
  rewrite <- C. now apply IH.
Qed.
Lemma dims_wfo (Y Y' : list (core T)) r idx rl : map dims Y = map dims Y' -> wfo r Y idx rl -> wfo r Y' idx rl.
Proof.
  revert Y' r idx; induction Y as [|G Y IH]; intros [|G' Y'] r [|i idx]; cbn [map wfo]; intros E; try discriminate; auto.
  assert (E1 : dims G = dims G') by congruence. assert (E2 : map dims Y = map dims Y') by congruence.
  destruct (dims_eq _ _ E1) as (A & B & C). intros (H1 & H2 & H3).
  repeat split; try congruence. rewrite <- C. now apply IH.
Qed.

(* ------------------------------------------------------------------ interface vectors *)
Lemma lvec_succ Y k idx : k < length Y -> k < length idx ->
  lvec K Y (S k) idx = vstep K (lvec K Y k idx) (nth k Y dcore) (nth k idx O).
Proof.
  intros HY HI. unfold lvec. rewrite (firstn_S_nth k Y dcore HY), (firstn_S_nth k idx O HI).
  rewrite run_app by (rewrite !firstn_length; lia). reflexivity.
Qed.
Lemma rvec_pred Y k idx : 1 <= k -> k < length Y -> k < length idx ->
  rvec K Y (pred k) idx = rstep K (nth k Y dcore) (nth k idx O) (rvec K Y k idx).
Proof.
  intros H1 HY HI. unfold rvec. replace (S (pred k)) with k by lia.
  rewrite (skipn_nth_cons k Y dcore HY), (skipn_nth_cons k idx O HI). reflexivity.
Qed.
Lemma lvec_upd Y k k' G idx : k' <= k -> lvec K (upd k G Y) k' idx = lvec K Y k' idx.
Proof. intros. unfold lvec. now rewrite firstn_upd. Qed.
Lemma rvec_upd Y k k' G idx : k <= k' -> rvec K (upd k G Y) k' idx = rvec K Y k' idx.
Proof. intros. unfold rvec. now rewrite skipn_upd by lia. Qed.

Definition wfS (d : nat) (Sm : list (@sample T)) : Prop := Forall (fun sm => length (sidx sm) = d) Sm.
Definition Lok (Sm : list (@sample T)) Y (L : list (list (list T))) k' := nth k' L [] = map (fun sm => lvec K Y k' (sidx sm)) Sm.
Definition Rok (Sm : list (@sample T)) Y (R : list (list (list T))) k' := nth k' R [] = map (fun sm => rvec K Y k' (sidx sm)) Sm.
(* interfaces_inv: at position k of a sweep every left interface up to k and every right interface from k on
   holds the true partial products of every sample with respect to the CURRENT cores *)
Record Inv (Sm : list (@sample T)) (d : nat) (s : @st T) (k : nat) : Prop := {
  inv_len : length (sY s) = d; inv_lenL : length (sL s) = d; inv_lenR : length (sR s) = d;
  inv_L : forall k', k' <= k -> k' < d -> Lok Sm (sY s) (sL s) k';
  inv_R : forall k', k <= k' -> k' < d -> Rok Sm (sY s) (sR s) k' }.

Lemma zip3_ref Sm Y k L R : nth k L [] = map (fun sm => lvec K Y k (sidx sm)) Sm ->
  nth k R [] = map (fun sm => rvec K Y k (sidx sm)) Sm -> zip3 Sm (nth k L []) (nth k R []) = zref K Sm Y k.
Proof. intros -> ->. unfold zip3, zref. rewrite combine_map_map. now rewrite combine_map_r. Qed.
Lemma lupdate_map Sm k G (f : sample -> list T) :
  lupdate K Sm k G (map f Sm) = map (fun sm => vstep K (f sm) G (nth k (sidx sm) O)) Sm.
Proof. unfold lupdate. rewrite combine_map_r, map_map. reflexivity. Qed.
Lemma rupdate_map Sm k G (f : sample -> list T) :
  rupdate K Sm k G (map f Sm) = map (fun sm => rstep K G (nth k (sidx sm) O) (f sm)) Sm.
Proof. unfold rupdate. rewrite combine_map_r, map_map. reflexivity. Qed.

Variable lamb : T.

Lemma fwd_step_sim Sm d s k : Inv Sm d s k -> S k < d -> wfS d Sm ->
  sY (fwd_step K solve lamb Sm s k) = ref_step K solve lamb Sm (sY s) k /\ Inv Sm d (fwd_step K solve lamb Sm s k) (S k).
Proof.
  intros I Hk W. destruct I as [l1 l2 l3 IL IR].
  assert (HZ : zip3 Sm (nth k (sL s) []) (nth k (sR s) []) = zref K Sm (sY s) k)
    by (apply zip3_ref; [apply IL | apply IR]; lia).
  unfold fwd_step. rewrite HZ. split; [reflexivity|].
  set (G := opt_core K solve lamb (nth k (sY s) dcore) k (zref K Sm (sY s) k)).
  constructor; cbn [sY sL sR]; rewrite ?upd_length; auto.
  - intros k' Hk' Hd. unfold Lok. destruct (Nat.eq_dec k' (S k)) as [->|Hne].
    + rewrite nth_upd_eq by lia. rewrite (IL k) by lia. rewrite lupdate_map.
      apply map_ext_in. intros sm Hin. unfold wfS in W. rewrite Forall_forall in W. specialize (W sm Hin).
      rewrite lvec_succ by (rewrite ?upd_length; lia). rewrite nth_upd_eq by lia.
      now rewrite lvec_upd by lia.
    + rewrite nth_upd_neq by auto. rewrite (IL k') by lia.
      apply map_ext. intros sm. now rewrite lvec_upd by lia.
  - intros k' Hk' Hd. unfold Rok. rewrite (IR k') by lia.
    apply map_ext. intros sm. now rewrite rvec_upd by lia.
Qed.

Lemma bwd_step_sim Sm d s k : Inv Sm d s k -> 1 <= k -> k < d -> wfS d Sm ->
  sY (bwd_step K solve lamb Sm s k) = ref_step K solve lamb Sm (sY s) k /\ Inv Sm d (bwd_step K solve lamb Sm s k) (pred k).
Proof.
  intros I H1 Hk W. destruct I as [l1 l2 l3 IL IR].
  assert (HZ : zip3 Sm (nth k (sL s) []) (nth k (sR s) []) = zref K Sm (sY s) k)
    by (apply zip3_ref; [apply IL | apply IR]; lia).
  unfold bwd_step. rewrite HZ. split; [reflexivity|].
  set (G := opt_core K solve lamb (nth k (sY s) dcore) k (zref K Sm (sY s) k)).
  constructor; cbn [sY sL sR]; rewrite ?upd_length; auto.
  - intros k' Hk' Hd. unfold Lok. rewrite (IL k') by lia.
    apply map_ext. intros sm. now rewrite lvec_upd by lia.
  - intros k' Hk' Hd. unfold Rok. destruct (Nat.eq_dec k' (pred k)) as [->|Hne].
    + rewrite nth_upd_eq by lia. rewrite (IR k) by lia. rewrite rupdate_map.
      apply map_ext_in. intros sm Hin. unfold wfS in W. rewrite Forall_forall in W. specialize (W sm Hin).
      rewrite rvec_pred by (rewrite ?upd_length; lia). rewrite nth_upd_eq by lia.
      now rewrite rvec_upd by lia.
    + rewrite nth_upd_neq by auto. rewrite (IR k') by lia.
      apply map_ext. intros sm. now rewrite rvec_upd by lia.
Qed.

Lemma fwd_fold_sim Sm d : wfS d Sm -> forall n s k, Inv Sm d s k -> k + n <= d - 1 ->
  sY (fold_left (fwd_step K solve lamb Sm) (seq k n) s) = fold_left (ref_step K solve lamb Sm) (seq k n) (sY s)
  /\ Inv Sm d (fold_left (fwd_step K solve lamb Sm) (seq k n) s) (k + n).
Proof.
  intros W. induction n as [|n IH]; intros s k I Hn; simpl.
  - rewrite Nat.add_0_r. auto.
  - destruct (fwd_step_sim Sm d s k I) as [E I']; [lia | auto |].
    destruct (IH _ (S k) I') as [E2 I2]; [lia|]. rewrite E2, E. split; [reflexivity|].
    replace (k + S n) with (S k + n) by lia. exact I2.
Qed.
Lemma bwd_fold_sim Sm d : wfS d Sm -> forall n s, Inv Sm d s n -> n <= d - 1 ->
  sY (fold_left (bwd_step K solve lamb Sm) (rev (seq 1 n)) s)
  = fold_left (ref_step K solve lamb Sm) (rev (seq 1 n)) (sY s)
  /\ Inv Sm d (fold_left (bwd_step K solve lamb Sm) (rev (seq 1 n)) s) O.
Proof.
  intros W. induction n as [|n IH]; intros s I Hn.
  - simpl. auto.
  - rewrite rev_seq_S. cbn [fold_left].
    destruct (bwd_step_sim Sm d s (S n) I) as [E I']; [lia | lia | auto |].
    destruct (IH _ I') as [E2 I2]; [lia|]. rewrite E2, E. auto.
Qed.

(* one sweep of the code (with interface state) = one sweep of the reference semantics (cores only) *)
Lemma sweep_sim Sm d s : wfS d Sm -> Inv Sm d s O ->
  sY (sweep K solve lamb Sm s) = ref_sweep K solve lamb Sm (sY s) /\ Inv Sm d (sweep K solve lamb Sm s) O.
Proof.
  intros W I. unfold sweep, ref_sweep. rewrite (inv_len _ _ _ _ I).
  destruct (fwd_fold_sim Sm d W (d - 1) s O I) as [E I1]; [lia|].
  destruct (bwd_fold_sim Sm d W (d - 1) _ I1) as [E2 I2]; [lia|].
  rewrite E2, E. auto.
Qed.
Lemma iter_sweep_sim Sm d s n : wfS d Sm -> Inv Sm d s O ->
  sY (Nat.iter n (sweep K solve lamb Sm) s) = Nat.iter n (ref_sweep K solve lamb Sm) (sY s)
  /\ Inv Sm d (Nat.iter n (sweep K solve lamb Sm) s) O.
Proof.
  intros W I. induction n as [|n [E I']]; simpl; auto.
  destruct (sweep_sim Sm d _ W I') as [E2 I2]. rewrite E2, E. auto.
Qed.

(* ------------------------------------------------------------------ the initial state *)
Lemma chain_last (Y : list (core T)) r rl : chain r Y rl -> Y <> [] -> cr2 (nth (length Y - 1) Y dcore) = rl.
Proof.
  revert r; induction Y as [|G Y IH]; intros r; simpl; [congruence|]. intros (A & B) _.
  destruct Y as [|G' Y]; [simpl in *; auto|].
  replace (length (G' :: Y) - 0) with (S (length (G' :: Y) - 1)) by (simpl; lia).
  apply (IH _ B). discriminate.
Qed.

Lemma init_inv Sm Y : chain 1 Y 1 -> wfS (length Y) Sm -> Inv Sm (length Y) (init_st K Sm Y) O.
Proof.
  intros C W. set (d := length Y). unfold init_st. fold d.
  set (Yr0 := map (fun G => repeat (repeat 1 (cr2 G)) (length Sm)) Y).
  set (stp := fun Yr k => upd (pred k) (rupdate K Sm k (nth k Y dcore) (nth k Yr [])) Yr).
  assert (F : forall n Yr, n <= d - 1 -> length Yr = d ->
              (forall k', n <= k' -> k' < d -> Rok Sm Y Yr k') ->
              length (fold_left stp (rev (seq 1 n)) Yr) = d /\
              forall k', k' < d -> Rok Sm Y (fold_left stp (rev (seq 1 n)) Yr) k').
  { induction n as [|n IH]; intros Yr Hn HL HR.
    - simpl. split; auto. intros; apply HR; lia.
    - rewrite rev_seq_S. cbn [fold_left]. apply IH; [lia | unfold stp; now rewrite upd_length |].
      intros k' Hk' Hd. unfold Rok, stp. cbn [pred]. destruct (Nat.eq_dec k' n) as [->|Hne].
      + rewrite nth_upd_eq by lia. rewrite (HR (S n)) by lia. rewrite rupdate_map.
        apply map_ext_in. intros sm Hin. unfold wfS in W. rewrite Forall_forall in W. specialize (W sm Hin).
        symmetry. apply (rvec_pred Y (S n) (sidx sm)); fold d; lia.
      + rewrite nth_upd_neq by auto. apply HR; lia. }
  destruct (F (d - 1) Yr0) as [FL FR]; [lia | unfold Yr0; now rewrite map_length | |].
  { intros k' Hk' Hd. assert (k' = d - 1) by lia. subst k'. unfold Rok, Yr0.
    rewrite (nth_map_lt _ Y (d - 1) dcore) by (fold d; lia). unfold d. rewrite (chain_last Y 1 1 C) by (intros ->; simpl in *; lia).
    rewrite repeat_map. apply map_ext. intros sm. unfold rvec.
    replace (S (length Y - 1)) with (length Y) by (fold d; lia). now rewrite skipn_all. }
  constructor; cbn [sY sL sR]; auto.
  - now rewrite map_length.
  - intros k' Hk' Hd. assert (k' = O) by lia. subst k'. unfold Lok.
    destruct Y as [|G Y']; [simpl in *; lia|]. simpl in C. destruct C as [C1 _]. cbn [map nth]. rewrite C1.
    rewrite repeat_map. reflexivity.
Qed.

(* dims of every core are preserved by every step, with or without interface state *)
Lemma fwd_step_dims Sm s k : map dims (sY (fwd_step K solve lamb Sm s k)) = map dims (sY s).
Proof. unfold fwd_step. cbn [sY]. apply map_upd_same with (d := dcore). apply opt_core_dims. Qed.
Lemma bwd_step_dims Sm s k : map dims (sY (bwd_step K solve lamb Sm s k)) = map dims (sY s).
Proof. unfold bwd_step. cbn [sY]. apply map_upd_same with (d := dcore). apply opt_core_dims. Qed.
Lemma fold_dims (f : @st T -> nat -> @st T) (H : forall s k, map dims (sY (f s k)) = map dims (sY s)) l s :
  map dims (sY (fold_left f l s)) = map dims (sY s).
Proof. revert s; induction l as [|k l IH]; intros s; simpl; auto. now rewrite IH, H. Qed.
Lemma sweep_dims Sm s : map dims (sY (sweep K solve lamb Sm s)) = map dims (sY s).
Proof.
  unfold sweep. rewrite (fold_dims _ (bwd_step_dims Sm)). now rewrite (fold_dims _ (fwd_step_dims Sm)).
Qed.
Lemma iter_sweep_dims Sm s n : map dims (sY (Nat.iter n (sweep K solve lamb Sm) s)) = map dims (sY s).
Proof. induction n; simpl; auto. now rewrite sweep_dims. Qed.
Lemma ref_step_dims Sm Y k : map dims (ref_step K solve lamb Sm Y k) = map dims Y.
Proof. unfold ref_step. apply map_upd_same with (d := dcore). apply opt_core_dims. Qed.
Lemma ref_fold_dims Sm l Y : map dims (fold_left (ref_step K solve lamb Sm) l Y) = map dims Y.
Proof. revert Y; induction l as [|k l IH]; intros Y; simpl; auto. now rewrite IH, ref_step_dims. Qed.
Lemma ref_sweep_dims Sm Y : map dims (ref_sweep K solve lamb Sm Y) = map dims Y.
Proof. unfold ref_sweep. now rewrite !ref_fold_dims. Qed.
Lemma iter_ref_dims Sm Y n : map dims (Nat.iter n (ref_sweep K solve lamb Sm) Y) = map dims Y.
Proof. induction n; simpl; auto. now rewrite ref_sweep_dims. Qed.
Lemma dims_length (Y Y' : list (core T)) : map dims Y = map dims Y' -> length Y = length Y'.
Proof. intros H. rewrite <- (map_length dims Y), H. apply map_length. Qed.

(* cores after n sweeps from a fresh start = n reference sweeps *)
Lemma als_cores_ref Sm Y n : chain 1 Y 1 -> wfS (length Y) Sm ->
  sY (Nat.iter n (sweep K solve lamb Sm) (init_st K Sm Y)) = Nat.iter n (ref_sweep K solve lamb Sm) Y.
Proof. intros C W. apply (iter_sweep_sim Sm (length Y) (init_st K Sm Y) n W (init_inv Sm Y C W)). Qed.

(* als_restart at the level of sweeps *)
Lemma sweeps_restart Sm Y a b : chain 1 Y 1 -> wfS (length Y) Sm ->
  sY (Nat.iter (a + b) (sweep K solve lamb Sm) (init_st K Sm Y))
  = sY (Nat.iter b (sweep K solve lamb Sm) (init_st K Sm (sY (Nat.iter a (sweep K solve lamb Sm) (init_st K Sm Y))))).
Proof.
  intros C W.
  set (sa := Nat.iter a (sweep K solve lamb Sm) (init_st K Sm Y)).
  assert (D : map dims (sY sa) = map dims Y) by apply iter_sweep_dims.
  assert (Ca : chain 1 (sY sa) 1) by (eapply dims_chain; [symmetry; exact D | exact C]).
  assert (Wa : wfS (length (sY sa)) Sm) by (rewrite (dims_length _ _ D); exact W).
  rewrite (als_cores_ref Sm Y (a + b) C W), (als_cores_ref Sm _ b Ca Wa).
  unfold sa. rewrite (als_cores_ref Sm Y a C W). rewrite Nat.add_comm. apply iter_plus.
Qed.

(* ------------------------------------------------------------------ sample order *)
Hypothesis Rth : rng K.

Lemma slice_sol_perm pos r1 r2 Z Z' i : Permutation Z Z' ->
  slice_sol K solve lamb pos r1 r2 Z i = slice_sol K solve lamb pos r1 r2 Z' i.
Proof.
  intros P. unfold slice_sol.
  assert (PR : Permutation (slice_rows K pos i r1 r2 Z) (slice_rows K pos i r1 r2 Z'))
    by (unfold slice_rows; apply Permutation_map; now apply Permutation_filter').
  destruct (slice_rows K pos i r1 r2 Z) eqn:E1, (slice_rows K pos i r1 r2 Z') eqn:E2; auto.
  - apply Permutation_nil in PR. discriminate.
  - apply Permutation_sym, Permutation_nil in PR. discriminate.
  - unfold lstsq. now rewrite (normal_mat_perm K Rth _ _ _ _ PR), (normal_rhs_perm K Rth _ _ _ PR).
Qed.
Lemma opt_core_perm Q pos Z Z' : Permutation Z Z' ->
  opt_core K solve lamb Q pos Z = opt_core K solve lamb Q pos Z'.
Proof.
  intros P. unfold opt_core. f_equal. apply tab_ext; intros i _. now apply slice_sol_perm.
Qed.
Lemma ref_step_perm Sm Sm' Y k : Permutation Sm Sm' -> ref_step K solve lamb Sm Y k = ref_step K solve lamb Sm' Y k.
Proof. intros P. unfold ref_step. f_equal. apply opt_core_perm. unfold zref. now apply Permutation_map. Qed.
Lemma ref_fold_perm Sm Sm' l Y : Permutation Sm Sm' ->
  fold_left (ref_step K solve lamb Sm) l Y = fold_left (ref_step K solve lamb Sm') l Y.
Proof. intros P. revert Y; induction l as [|k l IH]; intros Y; simpl; auto. now rewrite IH, (ref_step_perm Sm Sm'). Qed.
Lemma ref_sweep_perm Sm Sm' Y : Permutation Sm Sm' -> ref_sweep K solve lamb Sm Y = ref_sweep K solve lamb Sm' Y.
Proof. intros P. unfold ref_sweep. now rewrite !(ref_fold_perm Sm Sm'). Qed.
End Sim.
