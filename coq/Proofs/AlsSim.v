(* C07, part 2 (no arithmetic laws needed except for the permutation theorem):
   interface invariant, als = reference semantics, shapes, restart, sample order, missing slices, info. *)
From Coq Require Import List Arith Lia Ring PeanoNat Bool Permutation.
From TV Require Import Num.Ops Lin.Tab Lin.BigSum Lin.Solve TT.Chain Model.Als Proofs.AlsLin.
Import ListNotations.

Definition dims {T} (G : core T) : nat * nat * nat := (cr1 G, cn G, cr2 G).

Lemma map_upd_same {A B} (f : A -> B) k x (l : list A) d : f x = f (nth k l d) -> map f (upd k x l) = map f l.
Proof.
  revert k; induction l as [|y l IH]; intros [|k]; simpl; intros H; auto; try congruence.
  f_equal. auto.
Qed.
Lemma forallb_perm {A} (f : A -> bool) l l' : Permutation l l' -> forallb f l = forallb f l'.
Proof.
  induction 1; simpl; auto; try congruence.
  destruct (f x), (f y); auto.
Qed.
Lemma nodup_perm_length (l l' : list nat) : Permutation l l' ->
  length (nodup Nat.eq_dec l) = length (nodup Nat.eq_dec l').
Proof.
  intros H. apply Permutation_length. apply NoDup_Permutation; try apply NoDup_nodup.
  intros x. rewrite !nodup_In. split; intros; eapply Permutation_in; eauto. now apply Permutation_sym.
Qed.
Lemma rev_seq_S n : rev (seq 1 (S n)) = S n :: rev (seq 1 n).
Proof. rewrite seq_S, rev_app_distr. reflexivity. Qed.

Section Sim.
Context {T : Type} (K : ops T).
Notation "0" := (o0 K). Notation "1" := (o1 K).
Variable solve : list (list T) -> list T -> list T.

Lemma opt_core_dims lamb Q pos Z : dims (opt_core K solve lamb Q pos Z) = dims Q.
Proof. reflexivity. Qed.
Lemma dims_chain (Y Y' : list (core T)) r rl : map dims Y = map dims Y' -> chain r Y rl -> chain r Y' rl.
Proof.
  revert Y' r; induction Y as [|G Y IH]; intros [|G' Y'] r; simpl; intros E; try discriminate; auto.
  injection E as E1 E2. unfold dims in E1. injection E1 as A B C. intros (H1 & H2). split; [congruence|].
  rewrite <- C. now apply IH.
Qed.
Lemma dims_wfo (Y Y' : list (core T)) r idx rl : map dims Y = map dims Y' -> wfo r Y idx rl -> wfo r Y' idx rl.
Proof.
  revert Y' r idx; induction Y as [|G Y IH]; intros [|G' Y'] r [|i idx]; simpl; intros E; try discriminate; auto.
  injection E as E1 E2. unfold dims in E1. injection E1 as A B C. intros (H1 & H2 & H3).
  repeat split; try congruence. rewrite <- C. now apply IH.
Qed.

(* ------------------------------------------------------------------ interface vectors *)
Lemma lvec_succ Y k idx : k < length Y -> k < length idx ->
  lvec K Y (S k) idx = vstep K (lvec K Y k idx) (nth k Y dcore) (nth k idx O).
Proof.
  intros HY HI. unfold lvec. rewrite (firstn_S_nth k Y dcore HY), (firstn_S_nth k idx O HI).
  rewrite run_app by (rewrite !firstn_length; lia). reflexivity.
Qed.
Lemma rvec_pred Y k idx : 1 <= k -> k < length Y -> k < length idx ->
  rvec K Y (pred k) idx = rstep K (nth k Y dcore) (nth k idx O) (rvec K Y k idx).
Proof.
  intros H1 HY HI. unfold rvec. replace (S (pred k)) with k by lia.
  rewrite (skipn_nth_cons k Y dcore HY), (skipn_nth_cons k idx O HI). reflexivity.
Qed.
Lemma lvec_upd Y k k' G idx : k' <= k -> lvec K (upd k G Y) k' idx = lvec K Y k' idx.
Proof. intros. unfold lvec. now rewrite firstn_upd. Qed.
Lemma rvec_upd Y k k' G idx : k <= k' -> rvec K (upd k G Y) k' idx = rvec K Y k' idx.
Proof. intros. unfold rvec. now rewrite skipn_upd by lia. Qed.

Definition wfS (d : nat) (S : list (sample (T:=T))) : Prop := Forall (fun sm => length (sidx sm) = d) S.
Definition Lok S Y (L : list (list (list T))) k' := nth k' L [] = map (fun sm => lvec K Y k' (sidx sm)) S.
Definition Rok S Y (R : list (list (list T))) k' := nth k' R [] = map (fun sm => rvec K Y k' (sidx sm)) S.
(* interfaces_inv: at position k of a sweep every left interface up to k and every right interface from k on
   holds the true partial products of every sample with respect to the CURRENT cores *)
Record Inv (S : list sample) (d : nat) (s : st (T:=T)) (k : nat) : Prop := {
  inv_len : length (sY s) = d; inv_lenL : length (sL s) = d; inv_lenR : length (sR s) = d;
  inv_L : forall k', k' <= k -> k' < d -> Lok S (sY s) (sL s) k';
  inv_R : forall k', k <= k' -> k' < d -> Rok S (sY s) (sR s) k' }.

Lemma zip3_ref S Y k L R : nth k L [] = map (fun sm => lvec K Y k (sidx sm)) S ->
  nth k R [] = map (fun sm => rvec K Y k (sidx sm)) S -> zip3 S (nth k L []) (nth k R []) = zref K S Y k.
Proof. intros -> ->. unfold zip3, zref. rewrite combine_map_map. now rewrite combine_map_r. Qed.
Lemma lupdate_map S k G (f : sample -> list T) :
  lupdate K S k G (map f S) = map (fun sm => vstep K (f sm) G (nth k (sidx sm) O)) S.
Proof. unfold lupdate. rewrite combine_map_r, map_map. reflexivity. Qed.
Lemma rupdate_map S k G (f : sample -> list T) :
  rupdate K S k G (map f S) = map (fun sm => rstep K G (nth k (sidx sm) O) (f sm)) S.
Proof. unfold rupdate. rewrite combine_map_r, map_map. reflexivity. Qed.

Variable lamb : T.

Lemma fwd_step_sim S d s k : Inv S d s k -> S k < d -> wfS d S ->
  sY (fwd_step K solve lamb S s k) = ref_step K solve lamb S (sY s) k /\ Inv S d (fwd_step K solve lamb S s k) (S k).
Proof.
  intros I Hk W. destruct I as [l1 l2 l3 IL IR].
  assert (HZ : zip3 S (nth k (sL s) []) (nth k (sR s) []) = zref K S (sY s) k)
    by (apply zip3_ref; [apply IL | apply IR]; lia).
  unfold fwd_step. rewrite HZ. split; [reflexivity|].
  set (G := opt_core K solve lamb (nth k (sY s) dcore) k (zref K S (sY s) k)).
  constructor; cbn [sY sL sR]; rewrite ?upd_length; auto.
  - intros k' Hk' Hd. unfold Lok. destruct (Nat.eq_dec k' (S k)) as [->|Hne].
    + rewrite nth_upd_eq by lia. rewrite (IL k) by lia. rewrite lupdate_map.
      apply map_ext_in. intros sm Hin. rewrite Forall_forall in W. specialize (W sm Hin).
      rewrite lvec_succ by (rewrite ?upd_length; lia). rewrite nth_upd_eq by lia.
      now rewrite lvec_upd by lia.
    + rewrite nth_upd_neq by auto. rewrite (IL k') by lia.
      apply map_ext. intros sm. now rewrite lvec_upd by lia.
  - intros k' Hk' Hd. unfold Rok. rewrite (IR k') by lia.
    apply map_ext. intros sm. now rewrite rvec_upd by lia.
Qed.

Lemma bwd_step_sim S d s k : Inv S d s k -> 1 <= k -> k < d -> wfS d S ->
  sY (bwd_step K solve lamb S s k) = ref_step K solve lamb S (sY s) k /\ Inv S d (bwd_step K solve lamb S s k) (pred k).
Proof.
  intros I H1 Hk W. destruct I as [l1 l2 l3 IL IR].
  assert (HZ : zip3 S (nth k (sL s) []) (nth k (sR s) []) = zref K S (sY s) k)
    by (apply zip3_ref; [apply IL | apply IR]; lia).
  unfold bwd_step. rewrite HZ. split; [reflexivity|].
  set (G := opt_core K solve lamb (nth k (sY s) dcore) k (zref K S (sY s) k)).
  constructor; cbn [sY sL sR]; rewrite ?upd_length; auto.
  - intros k' Hk' Hd. unfold Lok. rewrite (IL k') by lia.
    apply map_ext. intros sm. now rewrite lvec_upd by lia.
  - intros k' Hk' Hd. unfold Rok. destruct (Nat.eq_dec k' (pred k)) as [->|Hne].
    + rewrite nth_upd_eq by lia. rewrite (IR k) by lia. rewrite rupdate_map.
      apply map_ext_in. intros sm Hin. rewrite Forall_forall in W. specialize (W sm Hin).
      rewrite rvec_pred by (rewrite ?upd_length; lia). rewrite nth_upd_eq by lia.
      now rewrite rvec_upd by lia.
    + rewrite nth_upd_neq by auto. rewrite (IR k') by lia.
      apply map_ext. intros sm. now rewrite rvec_upd by lia.
Qed.

Lemma fwd_fold_sim S d : wfS d S -> forall n s k, Inv S d s k -> k + n <= d - 1 ->
  sY (fold_left (fwd_step K solve lamb S) (seq k n) s) = fold_left (ref_step K solve lamb S) (seq k n) (sY s)
  /\ Inv S d (fold_left (fwd_step K solve lamb S) (seq k n) s) (k + n).
Proof.
  intros W. induction n as [|n IH]; intros s k I Hn; simpl.
  - rewrite Nat.add_0_r. auto.
  - destruct (fwd_step_sim S d s k I) as [E I']; [lia | auto |].
    destruct (IH _ (S k) I') as [E2 I2]; [lia|]. rewrite E2, E. split; [reflexivity|].
    replace (k + S n) with (S k + n) by lia. exact I2.
Qed.
Lemma bwd_fold_sim S d : wfS d S -> forall n s, Inv S d s n -> n <= d - 1 ->
  sY (fold_left (bwd_step K solve lamb S) (rev (seq 1 n)) s)
  = fold_left (ref_step K solve lamb S) (rev (seq 1 n)) (sY s)
  /\ Inv S d (fold_left (bwd_step K solve lamb S) (rev (seq 1 n)) s) O.
Proof.
  intros W. induction n as [|n IH]; intros s I Hn.
  - simpl. auto.
  - rewrite rev_seq_S. cbn [fold_left].
    destruct (bwd_step_sim S d s (S n) I) as [E I']; [lia | lia | auto |].
    destruct (IH _ I') as [E2 I2]; [lia|]. rewrite E2, E. auto.
Qed.

(* one sweep of the code (with interface state) = one sweep of the reference semantics (cores only) *)
Lemma sweep_sim S d s : wfS d S -> Inv S d s O ->
  sY (sweep K solve lamb S s) = ref_sweep K solve lamb S (sY s) /\ Inv S d (sweep K solve lamb S s) O.
Proof.
  intros W I. unfold sweep, ref_sweep. rewrite (inv_len _ _ _ _ I).
  destruct (fwd_fold_sim S d W (d - 1) s O I) as [E I1]; [lia|].
  destruct (bwd_fold_sim S d W (d - 1) _ I1) as [E2 I2]; [lia|].
  rewrite E2, E. auto.
Qed.
Lemma iter_sweep_sim S d s n : wfS d S -> Inv S d s O ->
  sY (Nat.iter n (sweep K solve lamb S) s) = Nat.iter n (ref_sweep K solve lamb S) (sY s)
  /\ Inv S d (Nat.iter n (sweep K solve lamb S) s) O.
Proof.
  intros W I. induction n as [|n [E I']]; simpl; auto.
  destruct (sweep_sim S d _ W I') as [E2 I2]. rewrite E2, E. auto.
Qed.

(* ------------------------------------------------------------------ the initial state *)
Lemma chain_last (Y : list (core T)) r rl : chain r Y rl -> Y <> [] -> cr2 (nth (length Y - 1) Y dcore) = rl.
Proof.
  revert r; induction Y as [|G Y IH]; intros r; simpl; [congruence|]. intros (A & B) _.
  destruct Y as [|G' Y]; [simpl in *; auto|].
  replace (length (G' :: Y) - 0) with (S (length (G' :: Y) - 1)) by (simpl; lia).
  apply (IH _ B). discriminate.
Qed.

Lemma init_inv S Y : chain 1 Y 1 -> wfS (length Y) S -> Inv S (length Y) (init_st K S Y) O.
Proof.
  intros C W. set (d := length Y). unfold init_st. fold d.
  set (Yr0 := map (fun G => repeat (repeat 1 (cr2 G)) (length S)) Y).
  set (stp := fun Yr k => upd (pred k) (rupdate K S k (nth k Y dcore) (nth k Yr [])) Yr).
  assert (F : forall n Yr, n <= d - 1 -> length Yr = d ->
              (forall k', n <= k' -> k' < d -> Rok S Y Yr k') ->
              length (fold_left stp (rev (seq 1 n)) Yr) = d /\
              forall k', k' < d -> Rok S Y (fold_left stp (rev (seq 1 n)) Yr) k').
  { induction n as [|n IH]; intros Yr Hn HL HR.
    - simpl. split; auto. intros; apply HR; lia.
    - rewrite rev_seq_S. cbn [fold_left]. apply IH; [lia | unfold stp; now rewrite upd_length |].
      intros k' Hk' Hd. unfold Rok, stp. cbn [pred]. destruct (Nat.eq_dec k' n) as [->|Hne].
      + rewrite nth_upd_eq by lia. rewrite (HR (S n)) by lia. rewrite rupdate_map.
        apply map_ext_in. intros sm Hin. unfold wfS in W. rewrite Forall_forall in W. specialize (W sm Hin).
        change n with (pred (S n)) at 2. rewrite rvec_pred by (fold d; lia). reflexivity.
      + rewrite nth_upd_neq by auto. apply HR; lia. }
  destruct (F (d - 1) Yr0) as [FL FR]; [lia | unfold Yr0; now rewrite map_length | |].
  { intros k' Hk' Hd. assert (k' = d - 1) by lia. subst k'. unfold Rok, Yr0.
    rewrite nth_indep with (d' := (fun G => repeat (repeat 1 (cr2 G)) (length S)) dcore) by (rewrite map_length; fold d; lia).
    rewrite map_nth. unfold d. rewrite (chain_last Y 1 1 C) by (intros ->; simpl in *; lia).
    rewrite repeat_map. apply map_ext. intros sm. unfold rvec.
    replace (S (length Y - 1)) with (length Y) by (fold d; lia). now rewrite skipn_all. }
  constructor; cbn [sY sL sR]; auto.
  - now rewrite map_length.
  - intros k' Hk' Hd. assert (k' = O) by lia. subst k'. unfold Lok.
    destruct Y as [|G Y']; [simpl in *; lia|]. simpl in C. destruct C as [C1 _]. cbn [map nth]. rewrite C1.
    rewrite repeat_map. reflexivity.
Qed.

(* dims of every core are preserved by every step, with or without interface state *)
Lemma fwd_step_dims S s k : map dims (sY (fwd_step K solve lamb S s k)) = map dims (sY s).
Proof. unfold fwd_step. cbn [sY]. apply map_upd_same with (d := dcore). apply opt_core_dims. Qed.
Lemma bwd_step_dims S s k : map dims (sY (bwd_step K solve lamb S s k)) = map dims (sY s).
Proof. unfold bwd_step. cbn [sY]. apply map_upd_same with (d := dcore). apply opt_core_dims. Qed.
Lemma fold_dims (f : st -> nat -> st) (H : forall s k, map dims (sY (f s k)) = map dims (sY s)) l s :
  map dims (sY (fold_left f l s)) = map dims (sY s).
Proof. revert s; induction l as [|k l IH]; intros s; simpl; auto. now rewrite IH, H. Qed.
Lemma sweep_dims S s : map dims (sY (sweep K solve lamb S s)) = map dims (sY s).
Proof.
  unfold sweep. rewrite (fold_dims _ (bwd_step_dims S)). now rewrite (fold_dims _ (fwd_step_dims S)).
Qed.
Lemma iter_sweep_dims S s n : map dims (sY (Nat.iter n (sweep K solve lamb S) s)) = map dims (sY s).
Proof. induction n; simpl; auto. now rewrite sweep_dims. Qed.
Lemma ref_step_dims S Y k : map dims (ref_step K solve lamb S Y k) = map dims Y.
Proof. unfold ref_step. apply map_upd_same with (d := dcore). apply opt_core_dims. Qed.
Lemma ref_fold_dims S l Y : map dims (fold_left (ref_step K solve lamb S) l Y) = map dims Y.
Proof. revert Y; induction l as [|k l IH]; intros Y; simpl; auto. now rewrite IH, ref_step_dims. Qed.
Lemma ref_sweep_dims S Y : map dims (ref_sweep K solve lamb S Y) = map dims Y.
Proof. unfold ref_sweep. now rewrite !ref_fold_dims. Qed.
Lemma iter_ref_dims S Y n : map dims (Nat.iter n (ref_sweep K solve lamb S) Y) = map dims Y.
Proof. induction n; simpl; auto. now rewrite ref_sweep_dims. Qed.
Lemma dims_length (Y Y' : list (core T)) : map dims Y = map dims Y' -> length Y = length Y'.
Proof. intros H. rewrite <- (map_length dims Y), H. apply map_length. Qed.

(* cores after n sweeps from a fresh start = n reference sweeps *)
Lemma als_cores_ref S Y n : chain 1 Y 1 -> wfS (length Y) S ->
  sY (Nat.iter n (sweep K solve lamb S) (init_st K S Y)) = Nat.iter n (ref_sweep K solve lamb S) Y.
Proof. intros C W. apply (iter_sweep_sim S (length Y) (init_st K S Y) n W (init_inv S Y C W)). Qed.

(* als_restart at the level of sweeps *)
Lemma sweeps_restart S Y a b : chain 1 Y 1 -> wfS (length Y) S ->
  sY (Nat.iter (a + b) (sweep K solve lamb S) (init_st K S Y))
  = sY (Nat.iter b (sweep K solve lamb S) (init_st K S (sY (Nat.iter a (sweep K solve lamb S) (init_st K S Y))))).
Proof.
  intros C W. rewrite !als_cores_ref; auto.
  - rewrite Nat.add_comm. apply Nat.iter_add.
  - rewrite <- als_cores_ref by auto. eapply dims_chain; [symmetry; apply iter_sweep_dims | exact C].
  - rewrite <- (dims_length _ _ (iter_ref_dims S Y a)). exact W.
Qed.

(* ------------------------------------------------------------------ sample order *)
Hypothesis Rth : rng K.

Lemma opt_core_perm Q pos Z Z' : Permutation Z Z' ->
  opt_core K solve lamb Q pos Z = opt_core K solve lamb Q pos Z'.
Proof.
  intros P. unfold opt_core. f_equal.
  assert (E : forall i,
    match slice_rows K pos i (cr1 Q) (cr2 Q) Z with [] => None
    | _ :: _ => Some (lstsq K solve (cr1 Q * cr2 Q) lamb (slice_rows K pos i (cr1 Q) (cr2 Q) Z)) end =
    match slice_rows K pos i (cr1 Q) (cr2 Q) Z' with [] => None
    | _ :: _ => Some (lstsq K solve (cr1 Q * cr2 Q) lamb (slice_rows K pos i (cr1 Q) (cr2 Q) Z')) end).
  { intros i.
    assert (PR : Permutation (slice_rows K pos i (cr1 Q) (cr2 Q) Z) (slice_rows K pos i (cr1 Q) (cr2 Q) Z'))
      by (unfold slice_rows; apply Permutation_map; now apply Permutation_filter').
    unfold lstsq. rewrite (normal_mat_perm K Rth _ _ _ _ PR), (normal_rhs_perm K Rth _ _ _ PR).
    destruct (slice_rows K pos i (cr1 Q) (cr2 Q) Z) eqn:E1, (slice_rows K pos i (cr1 Q) (cr2 Q) Z') eqn:E2; auto.
    - apply Permutation_nil in PR. discriminate.
    - apply Permutation_sym, Permutation_nil in PR. discriminate. }
  assert (E' : tab (cn Q) (fun i => match slice_rows K pos i (cr1 Q) (cr2 Q) Z with [] => None
                 | _ :: _ => Some (lstsq K solve (cr1 Q * cr2 Q) lamb (slice_rows K pos i (cr1 Q) (cr2 Q) Z)) end)
             = tab (cn Q) (fun i => match slice_rows K pos i (cr1 Q) (cr2 Q) Z' with [] => None
                 | _ :: _ => Some (lstsq K solve (cr1 Q * cr2 Q) lamb (slice_rows K pos i (cr1 Q) (cr2 Q) Z')) end))
    by (apply tab_ext; intros; apply E).
  cbv zeta.
  match goal with |- tab ?n ?f = tab ?n ?g =>
    change f with (fun a => tab (cn Q) (fun i => tab (cr2 Q) (fun b =>
       match nth i (tab (cn Q) (fun i => match slice_rows K pos i (cr1 Q) (cr2 Q) Z with [] => None
                 | _ :: _ => Some (lstsq K solve (cr1 Q * cr2 Q) lamb (slice_rows K pos i (cr1 Q) (cr2 Q) Z)) end)) None with
       | None => cget K Q a i b | Some x => nth (a * cr2 Q + b) x 0 end)))
  end.
  rewrite E'. reflexivity.
Qed.
End Sim.
