(* C07, part 5: als_func (n_max=None): shapes, sweep count and stop reason (the driver loop is the one of als). *)
From Coq Require Import List Arith Lia Ring PeanoNat Bool Permutation.
From TV Require Import Num.Ops Lin.Tab Lin.BigSum Lin.Solve TT.Chain Model.Als Model.AlsFunc
  Proofs.AlsLin Proofs.AlsSim Proofs.AlsTop.
Import ListNotations.

Section FuncTop.
Context {T : Type} (K : ops T).
Variable solve : list (list T) -> list T -> list T.
Variable lamb : T.

Lemma fopt_core_dims Q y L R Hk : dims (fopt_core K solve lamb Q y L R Hk) = dims Q.
Proof. reflexivity. Qed.
Lemma ffwd_step_dims y H s k : map dims (fY (ffwd_step K solve lamb y H s k)) = map dims (fY s).
Proof. unfold ffwd_step. cbn [fY]. apply map_upd_same with (d := dcore). apply fopt_core_dims. Qed.
Lemma fbwd_step_dims y H s k : map dims (fY (fbwd_step K solve lamb y H s k)) = map dims (fY s).
Proof. unfold fbwd_step. cbn [fY]. apply map_upd_same with (d := dcore). apply fopt_core_dims. Qed.
Lemma ffold_dims (f : @fstate T -> nat -> @fstate T) (Hf : forall s k, map dims (fY (f s k)) = map dims (fY s)) l s :
  map dims (fY (fold_left f l s)) = map dims (fY s).
Proof. revert s; induction l as [|k l IH]; intros s; simpl; auto. now rewrite IH, Hf. Qed.
Lemma fsweep_dims y H s : map dims (fY (fsweep K solve lamb y H s)) = map dims (fY s).
Proof.
  unfold fsweep. rewrite (ffold_dims _ (fbwd_step_dims y H)). now rewrite (ffold_dims _ (ffwd_step_dims y H)).
Qed.
Lemma iter_fsweep_dims y H s n : map dims (fY (Nat.iter n (fsweep K solve lamb y H) s)) = map dims (fY s).
Proof.
  induction n as [|n IH]; [reflexivity|].
  change (Nat.iter (S n) (fsweep K solve lamb y H) s) with (fsweep K solve lamb y H (Nat.iter n (fsweep K solve lamb y H) s)).
  now rewrite fsweep_dims.
Qed.

Variable acc : nat -> list (core T) -> list (core T) -> T.
Variable accv : nat -> list (core T) -> T.
Notation alsf := (als_func K solve acc accv).

(* executed sweep count *)
Lemma als_func_spec H y A0 nswp e evld fuel Y inf :
  alsf H y A0 nswp e evld lamb fuel = Ok (Y, inf) ->
  1 <= i_nswp inf /\ i_nswp inf <= fuel /\ Y = fY (Nat.iter (i_nswp inf) (fsweep K solve lamb y H) (finit_st K H y A0)).
Proof.
  unfold als_func. intros E. apply gen_loop_spec in E. destruct E as (j & J1 & J2 & J3 & J4). cbn in J3. subst j. auto.
Qed.
(* shape and ranks of the initial approximation *)
Lemma als_func_wf H y A0 nswp e evld fuel Y inf :
  alsf H y A0 nswp e evld lamb fuel = Ok (Y, inf) -> map dims Y = map dims A0.
Proof. intros E. apply als_func_spec in E. destruct E as (_ & _ & ->). apply iter_fsweep_dims. Qed.
(* only nswp given: max(1, nswp) sweeps, stop reason 'nswp' *)
Lemma als_func_nswp H y A0 n fuel : Nat.max 1 n <= fuel ->
  exists ec ev, alsf H y A0 (Some n) None None lamb fuel
                = Ok (fY (Nat.iter (Nat.max 1 n) (fsweep K solve lamb y H) (finit_st K H y A0)),
                      mk_info (Nat.max 1 n) SNswp ec ev).
Proof.
  intros Hf. unfold als_func. destruct n as [|n].
  - change (info_appr K None O (oopp K (o1 K)) (accv O A0) (Some O) None None) with (Some SNswp).
    apply gen_loop_pre; auto.
  - assert (E0 : info_appr K None O (oopp K (o1 K)) (accv O A0) (Some (S n)) None None = None) by reflexivity.
    rewrite E0. replace (Nat.max 1 (S n)) with (S n - 0) in * by lia.
    replace (mk_info (S n - 0) SNswp) with (@mk_info T (S n) SNswp) by (f_equal; lia).
    apply gen_loop_nswp; auto; lia.
Qed.
(* documented stop reason (als_func has no callback) *)
Lemma als_func_stop : oleb K (o0 K) (oopp K (o1 K)) = false -> forall H y A0 nswp e evld fuel Y inf,
  alsf H y A0 nswp e evld lamb fuel = Ok (Y, inf) -> stop_justified K None nswp e evld (accv O A0) Y inf.
Proof.
  intros Hneg H y A0 nswp e evld fuel Y inf E. unfold als_func in E.
  eapply gen_loop_stop; [exact E | apply stop0_ok; exact Hneg].
Qed.
End FuncTop.
