(* One step of the TT-cross state machine seen through the fields the contract speaks about (program counter,
   counters / stop / log, sweep number, reported e and e_vld), and the control invariant [Ctl] over the run. *)
From Coq Require Import List Arith Lia PeanoNat Bool.
From TV Require Import Num.Ops Lin.Tab Model.Cross Proofs.CrossIdx Proofs.CrossGeo Proofs.CrossInvA.
Import ListNotations.

Section Ctl.
Context {T : Type} (K : ops T) {P : Type}.
Variable isinf : T -> bool.
Variable f : nat -> rows -> option (list T).
Variable cb : option (nat -> bool).
Variable pones : P.
Variable pdotL pdotR : P -> P -> P.
Variable pvals : nat -> nat -> nat -> list T -> P.
Variable pick : nat -> bool -> nat -> nat -> nat -> P -> nat -> nat -> list nat.
Variable pcoreG pfacR : bool -> nat -> nat -> nat -> P -> list nat -> P.
Variable erank : nat -> list (@mcore P) -> T.
Variable accuracy : nat -> list (@mcore P) -> list (@mcore P) -> T.
Variable accdata : nat -> list (@mcore P) -> T.
Variable C : @cfg T P.

Notation stepm := (step K isinf f cb pones pdotL pdotR pvals pick pcoreG pfacR erank accuracy accdata C).
Notation funcm := (func_m K f pvals C).
Notation feval := (func_eval K f C).
Notation iappr := (info_appr K isinf C).
Notation accd := (accdata_m K accdata C).
Notation hitm := (hit K isinf).
Notation m1 := (minus1 K).
Notation dd := (d C).
Notation sn := (shape_n pones C).
Notation stt := (@st T P).
Notation cntt := (@cnt T).

(* where the program counter goes when the step does not return *)
Definition nextpc (main ltr : bool) (i : nat) : pcs :=
  if ltr then (if S i <? dd then Run main true (S i) else Run main false i)
  else match i with S i' => Run main false i' | O => Run true true 0 end.

(* the `conv` rule and the stop reason computed by the post-sweep block *)
Definition conv (c : cntt) : bool := c_scale C * k_m c <? k_mc c.
Definition post_stop (c' : cntt) (nswp : nat) (e ev : T) : option stop :=
  let s1 := if conv c' then Some Sconv else k_stop c' in
  let s2 := match cb with
            | Some g => if g nswp then (match s1 with Some x => Some x | None => Some Scb end) else s1
            | None => s1 end in
  iappr s2 nswp e ev.

Definition cur_batch (s : stt) (i : nat) : rows := batch (sn i) (nth i (sIr s) None) (nth (S i) (sIc s) None).

Inductive step_view (s s' : stt) : Prop :=
| SV_done : s_pc s = Done -> s' = s -> step_view s s'
| SV_pre ltr i :
    s_pc s = Run false ltr i -> (ltr = true \/ i <> 0) ->
    s_pc s' = nextpc false ltr i -> sK s' = sK s -> s_nswp s' = s_nswp s -> s_e s' = s_e s ->
    s_evld s' = s_evld s -> s_ne s' = s_ne s -> step_view s s'
| SV_pre_last :
    s_pc s = Run false false 0 -> s_pc s' = Run true true 0 ->
    sK s' = set_stop (sK s) (iappr (k_stop (sK s)) (s_nswp s) (s_e s) (s_evld s')) ->
    s_evld s' = accd (s_ne s) (sYold s') -> s_nswp s' = s_nswp s -> s_e s' = s_e s -> s_ne s' = s_ne s ->
    step_view s s'
| SV_exit ltr i c' oz :
    s_pc s = Run true ltr i -> funcm (sK s) (sn i) (nth i (sIr s) None) (nth (S i) (sIc s) None) = (c', oz) ->
    (k_stop c' <> None \/ oz = None) ->
    s_pc s' = Done -> sK s' = set_stop c' (iappr (k_stop c') (s_nswp s) (s_e s') (s_evld s')) ->
    s_nswp s' = s_nswp s -> sYold s' = sYold s -> step_view s s'
| SV_adv ltr i c' Z :
    s_pc s = Run true ltr i -> (ltr = true \/ i <> 0) ->
    funcm (sK s) (sn i) (nth i (sIr s) None) (nth (S i) (sIc s) None) = (c', Some Z) -> k_stop c' = None ->
    s_pc s' = nextpc true ltr i -> sK s' = c' -> s_nswp s' = s_nswp s -> s_e s' = s_e s ->
    s_evld s' = s_evld s -> sYold s' = sYold s -> step_view s s'
| SV_post c' Z s3 :
    s_pc s = Run true false 0 ->
    funcm (sK s) (sn 0) (nth 0 (sIr s) None) (nth 1 (sIc s) None) = (c', Some Z) -> k_stop c' = None ->
    s3 = post_stop c' (S (s_nswp s)) (s_e s') (s_evld s') ->
    sK s' = set_stop c' s3 -> s_nswp s' = S (s_nswp s) ->
    s_pc s' = match s3 with Some _ => Done | None => Run true true 0 end ->
    (exists ne Y Yo, s_e s' = accuracy ne Y Yo) -> step_view s s'.

Notation advl := (adv_ltr pones pdotR pick pcoreG pfacR C).
Notation advr := (adv_rtl K isinf cb pones pdotL pick pcoreG pfacR erank accuracy accdata C).

Lemma adv_ltr_view main s i c' Z a b :
  let s' := advl main s i c' Z a b in
  s_pc s' = nextpc main true i /\ sK s' = c' /\ s_nswp s' = s_nswp s /\ s_e s' = s_e s /\
  s_evld s' = s_evld s /\ s_ne s' = s_ne s /\ sYold s' = sYold s.
Proof.
  unfold adv_ltr, nextpc. destruct (iter_m _ _ _ _ _ _ _ _ _) as [[G' R'] I'].
  destruct (S i <? dd); cbn; repeat split; reflexivity.
Qed.
Lemma adv_rtl_view main s i c' Z a b :
  let s' := advr main s (S i) c' Z a b in
  s_pc s' = nextpc main false (S i) /\ sK s' = c' /\ s_nswp s' = s_nswp s /\ s_e s' = s_e s /\
  s_evld s' = s_evld s /\ s_ne s' = s_ne s /\ sYold s' = sYold s.
Proof.
  unfold adv_rtl, nextpc. destruct (iter_m _ _ _ _ _ _ _ _ _) as [[G' R'] I'].
  cbn; repeat split; reflexivity.
Qed.

Lemma step_viewP s : step_view s (stepm s).
Proof.
  unfold step. destruct (s_pc s) as [main ltr i|] eqn:Epc; [|now apply SV_done].
  destruct main.
  - destruct (funcm (sK s) (sn i) (nth i (sIr s) None) (nth (S i) (sIc s) None)) as [c' oz] eqn:Ef.
    destruct (k_stop c') as [x|] eqn:Est.
    + eapply SV_exit; eauto; try reflexivity. left; congruence.
    + destruct oz as [Z|].
      * destruct ltr.
        -- destruct (adv_ltr_view true s i c' Z (c_drmin C) (c_drmax C)) as (A1 & A2 & A3 & A4 & A5 & A6 & A7).
           eapply SV_adv; eauto.
        -- destruct i as [|i'].
           ++ unfold adv_rtl. destruct (iter_m _ _ _ _ _ _ _ _ _) as [[G' R'] I']. cbv zeta.
              match goal with |- step_view s (match ?x with Some _ => _ | None => _ end) =>
                destruct x as [r|] eqn:E3 end.
              ** eapply SV_post with (s3 := Some r); eauto; cbn; try reflexivity;
                   try (do 3 eexists; reflexivity);
                   unfold post_stop, conv; rewrite Est; symmetry; exact E3.
              ** eapply SV_post with (s3 := None); eauto; cbn; try reflexivity;
                   try (do 3 eexists; reflexivity);
                   unfold post_stop, conv; rewrite Est; symmetry; exact E3.
           ++ destruct (adv_rtl_view true s i' c' Z (c_drmin C) (c_drmax C)) as (A1 & A2 & A3 & A4 & A5 & A6 & A7).
              eapply SV_adv; eauto.
      * eapply SV_exit; eauto; try reflexivity.
  - cbv beta iota.
    destruct ltr.
    + destruct (adv_ltr_view false s i (sK s) (dotL pdotL (sR s) (nth i (sY s) (dflt pones))) 0 0)
        as (A1 & A2 & A3 & A4 & A5 & A6 & A7).
      eapply SV_pre; eauto.
    + destruct i as [|i'].
      * unfold adv_rtl. destruct (iter_m _ _ _ _ _ _ _ _ _) as [[G' R'] I']. cbv zeta.
        eapply SV_pre_last; eauto; cbn; reflexivity.
      * destruct (adv_rtl_view false s i' (sK s) (dotR pdotR (nth (S i') (sY s) (dflt pones)) (sR s)) 0 0)
          as (A1 & A2 & A3 & A4 & A5 & A6 & A7).
        eapply SV_pre; eauto.
Qed.

(* ------------------------------------------------------------ _func / _info_appr / post-sweep block *)
Lemma funcm_fe c n Ir Ic c' oz :
  funcm c n Ir Ic = (c', oz) ->
  c' = fst (feval c (batch n Ir Ic)) /\ (oz = None <-> snd (feval c (batch n Ir Ic)) = None).
Proof.
  unfold func_m. destruct (feval c (batch n Ir Ic)) as [c'' [y|]]; intros E; inversion E; subst; simpl;
    split; auto; split; congruence.
Qed.

Lemma funcm_view c n Ir Ic c' oz :
  funcm c n Ir Ic = (c', oz) ->
  exists e, k_log c' = e :: k_log c /\ ev_I e = batch n Ir Ic /\
  match oz with
  | None => (ev_out e = Refused /\ k_stop c' = Some Sm /\ over C (k_m c' + length (ev_new e)) = true)
            \/ (ev_out e = Called None /\ k_stop c' = Some Sfunc /\ over C (k_m c' + length (ev_new e)) = false)
  | Some _ => ev_good e = true /\ k_stop c' = k_stop c
  end.
Proof.
  intros E. destruct (funcm_fe _ _ _ _ _ _ E) as [-> Hz].
  destruct (fe_view K f C c (batch n Ir Ic)) as (e & A & B & D). exists e. split; [auto|]. split; [auto|].
  destruct oz as [z|].
  - destruct (snd (feval c (batch n Ir Ic))); [exact D|]. destruct Hz as [_ Hz]. discriminate (Hz eq_refl).
  - destruct Hz as [Hz _]. rewrite (Hz eq_refl) in D. exact D.
Qed.

Lemma iappr_some x n e ev : iappr (Some x) n e ev = Some x.
Proof. reflexivity. Qed.
Lemma iappr_none n e ev :
  match iappr None n e ev with
  | Some Sevld => hitm ev (c_evld C) = true
  | Some Se => hitm e (c_e C) = true /\ hitm ev (c_evld C) = false
  | Some Snswp => (exists t, c_nswp C = Some t /\ t <= n) /\ hitm e (c_e C) = false /\ hitm ev (c_evld C) = false
  | None => forall t, c_nswp C = Some t -> n < t
  | Some _ => False
  end.
Proof.
  unfold info_appr. destruct (hitm ev (c_evld C)) eqn:E1; [reflexivity|].
  destruct (hitm e (c_e C)) eqn:E2; [split; reflexivity|].
  destruct (c_nswp C) as [t|]; [|intros t; discriminate].
  destruct (Nat.leb_spec t n).
  - split; [exists t; auto|split; reflexivity].
  - intros t' E. injection E as <-. auto.
Qed.

Lemma post_stop_cases c' n e ev :
  k_stop c' = None ->
  match post_stop c' n e ev with
  | Some Sconv => conv c' = true
  | Some Scb => conv c' = false /\ exists g, cb = Some g /\ g n = true
  | Some Sevld => hitm ev (c_evld C) = true
  | Some Se => hitm e (c_e C) = true /\ hitm ev (c_evld C) = false
  | Some Snswp => (exists t, c_nswp C = Some t /\ t <= n) /\ hitm e (c_e C) = false /\ hitm ev (c_evld C) = false
  | Some _ => False
  | None => conv c' = false /\ forall t, c_nswp C = Some t -> n < t
  end.
Proof.
  intros Est. unfold post_stop. rewrite Est. pose proof (iappr_none n e ev) as IA.
  destruct (conv c') eqn:Ec.
  - destruct cb as [g|]; [destruct (g n)|]; reflexivity.
  - destruct cb as [g|].
    + destruct (g n) eqn:Eg.
      * rewrite iappr_some. split; [reflexivity|]. exists g. auto.
      * destruct (iappr None n e ev) as [[]|]; try contradiction; auto.
    + destruct (iappr None n e ev) as [[]|]; try contradiction; auto.
Qed.

Lemma nextpc_pre ltr i : ltr = true \/ i <> 0 -> exists l' i', nextpc false ltr i = Run false l' i'.
Proof.
  intros H. unfold nextpc. destruct ltr.
  - destruct (S i <? dd); eauto.
  - destruct i; [destruct H; congruence|eauto].
Qed.
Lemma nextpc_main ltr i :
  ltr = true \/ i <> 0 -> exists l' i', nextpc true ltr i = Run true l' i' /\ (l' = false \/ i' <> 0).
Proof.
  intros H. unfold nextpc. destruct ltr.
  - destruct (S i <? dd); eauto.
  - destruct i; [destruct H; congruence|eauto].
Qed.

(* ------------------------------------------------------------ the control invariant *)
Definition head_ok (s : stt) : Prop :=
  let c := sK s in
  match k_log c with
  | [] => k_stop c <> Some Sm /\ k_stop c <> Some Sfunc
  | e :: l => Forall (fun e => ev_good e = true) l /\
      match ev_out e with
      | Refused => k_stop c = Some Sm /\ s_pc s = Done /\ over C (k_m c + length (ev_new e)) = true
      | Called None => k_stop c = Some Sfunc /\ s_pc s = Done /\ over C (k_m c + length (ev_new e)) = false
      | _ => k_stop c <> Some Sm /\ k_stop c <> Some Sfunc
      end
  end.

Lemma head_running s : head_ok s -> s_pc s <> Done ->
  Forall (fun e => ev_good e = true) (k_log (sK s)) /\ k_stop (sK s) <> Some Sm /\ k_stop (sK s) <> Some Sfunc.
Proof.
  unfold head_ok. cbv zeta. destruct (k_log (sK s)) as [|e l]; [intros [A B] _; auto|].
  intros [A B] N. destruct (ev_out e) as [| |[y|]] eqn:E.
  - destruct B as (_ & D & _). contradiction.
  - split; [constructor; auto; unfold ev_good; now rewrite E|exact B].
  - split; [constructor; auto; unfold ev_good; now rewrite E|exact B].
  - destruct B as (_ & D & _). contradiction.
Qed.

Lemma head_good s e l : k_log (sK s) = e :: l -> Forall (fun e => ev_good e = true) l -> ev_good e = true ->
  k_stop (sK s) <> Some Sm -> k_stop (sK s) <> Some Sfunc -> head_ok s.
Proof.
  intros E A G N1 N2. unfold head_ok. cbv zeta. rewrite E. split; [auto|].
  unfold ev_good in G. destruct (ev_out e) as [| |[y|]]; try discriminate; auto.
Qed.

Record Ctl (s : stt) : Prop := mkCtl {
  ctl_done : s_pc s = Done -> k_stop (sK s) <> None;
  ctl_pend : forall main ltr i, s_pc s = Run main ltr i -> k_stop (sK s) <> None ->
             main = true /\ ltr = true /\ i = 0 /\ s_nswp s = 0;
  ctl_pre : forall ltr i, s_pc s = Run false ltr i ->
            s_nswp s = 0 /\ s_e s = m1 /\ k_stop (sK s) = None /\ s_ne s = 0 /\ k_log (sK s) = [];
  ctl_head : head_ok s;
  ctl_nswp_le : forall t, c_nswp C = Some t -> s_nswp s <= t;
  ctl_nswp_lt : forall t ltr i, c_nswp C = Some t -> k_stop (sK s) = None -> s_pc s = Run true ltr i ->
                s_nswp s < t;
  ctl_nswp : k_stop (sK s) = Some Snswp -> c_nswp C = Some (s_nswp s);
  ctl_e : k_stop (sK s) = Some Se ->
          (s_pc s = Done /\ hitm (s_e s) (c_e C) = true) \/ (s_nswp s = 0 /\ hitm m1 (c_e C) = true);
  ctl_evld : k_stop (sK s) = Some Sevld ->
          (s_pc s = Done /\ hitm (s_evld s) (c_evld C) = true) \/
          (s_nswp s = 0 /\ hitm (accd 0 (sYold s)) (c_evld C) = true);
  ctl_cb : k_stop (sK s) = Some Scb ->
           s_pc s = Done /\ exists g, cb = Some g /\ g (s_nswp s) = true /\ conv (sK s) = false;
  ctl_conv : k_stop (sK s) = Some Sconv -> s_pc s = Done /\ conv (sK s) = true;
  ctl_turn : s_pc s = Run true true 0 -> 1 <= s_nswp s -> conv (sK s) = false;
  ctl_prio : 1 <= s_nswp s ->
             (k_stop (sK s) = Some Se -> hitm (s_evld s) (c_evld C) = false) /\
             (k_stop (sK s) = Some Snswp -> hitm (s_e s) (c_e C) = false /\ hitm (s_evld s) (c_evld C) = false) }.

Lemma ctl_init : Ctl (init K pones erank C).
Proof.
  constructor; unfold init; cbn; try discriminate; try (intros; discriminate).
  - intros main ltr i _ N. congruence.
  - intros ltr i _. auto.
  - unfold head_ok. cbn. split; discriminate.
  - intros; lia.
  - intros; lia.
Qed.

Lemma ctl_view s s' : Ctl s -> step_view s s' -> Ctl s'.
Proof.
  intros H V. destruct V as [Epc ->
    | ltr i Epc Hne Hpc HK Hn He Hev Hne'
    | Epc Hpc HK Hev Hn He Hne'
    | ltr i c' oz Epc Ef Hor Hpc HK Hn HYo
    | ltr i c' Z Epc Hne Ef Est Hpc HK Hn He Hev HYo
    | c' Z s3 Epc Ef Est Hs3 HK Hn Hpc ].
  - exact H.
  - (* pre-iteration, not the last position *)
    destruct (ctl_pre _ H ltr i Epc) as (N0 & E0 & S0 & NE0 & L0).
    destruct (nextpc_pre ltr i Hne) as (l' & i' & Enx). rewrite Enx in Hpc.
    constructor; rewrite ?Hpc, ?HK, ?Hn, ?He, ?Hev, ?Hne', ?S0; try (intros; discriminate).
    + intros main l2 i2 _ N. congruence.
    + intros l2 i2 _. auto.
    + unfold head_ok. cbv zeta. rewrite HK, L0, S0. split; discriminate.
    + intros t _. lia.
    + intros L. lia.
  - (* end of the pre-iteration: e_vld, _info_appr (result ignored), enter the loop *)
    destruct (ctl_pre _ H false 0 Epc) as (N0 & E0 & S0 & NE0 & L0).
    rewrite S0, N0, E0 in HK. pose proof (iappr_none 0 m1 (s_evld s')) as IA.
    assert (HS : k_stop (sK s') = iappr None 0 m1 (s_evld s')) by (rewrite HK; reflexivity).
    assert (HL : k_log (sK s') = []) by (rewrite HK; exact L0).
    rewrite <- HS in IA.
    constructor; rewrite ?Hpc, ?Hn, ?He, ?N0; try (intros; discriminate).
    + intros main l2 i2 E _. injection E as <- <- <-. auto.
    + unfold head_ok. cbv zeta. rewrite HL. destruct (k_stop (sK s')) as [[]|]; try contradiction; split; discriminate.
    + intros; lia.
    + intros t l2 i2 Et E _. rewrite E in IA. exact (IA t Et).
    + intros E. rewrite E in IA. destruct IA as ((t & Et & Ht) & _). rewrite Et. f_equal. lia.
    + intros E. rewrite E in IA. right. destruct IA as [IA _]. auto.
    + intros E. rewrite E in IA. right. split; [reflexivity|]. rewrite Hev, NE0 in IA. exact IA.
    + intros E. rewrite E in IA. contradiction.
    + intros E. rewrite E in IA. contradiction.
    + intros _ L. lia.
    + intros L. lia.
  - (* early return of a half sweep *)
    destruct (funcm_view _ _ _ _ _ _ Ef) as (e & Hlog & HI & Hoz).
    assert (Hrun : s_pc s <> Done) by (rewrite Epc; discriminate).
    destruct (head_running s (ctl_head _ H) Hrun) as (Hgood & NSm & NSf).
    assert (Hx : exists x, k_stop c' = Some x).
    { destruct Hor as [N| ->]; [destruct (k_stop c'); [eauto|congruence]|].
      destruct Hoz as [(_ & E & _)|(_ & E & _)]; eauto. }
    destruct Hx as (x & Ex). rewrite Ex, iappr_some in HK.
    assert (HS : k_stop (sK s') = Some x) by (rewrite HK; reflexivity).
    assert (HL : k_log (sK s') = e :: k_log (sK s)) by (rewrite HK; exact Hlog).
    assert (Hm : k_m (sK s') = k_m c') by (rewrite HK; reflexivity).
    assert (Hpend : forall y, oz = Some y -> k_stop (sK s) = Some x /\ s_nswp s = 0 /\ ev_good e = true).
    { intros y ->. destruct Hoz as [G E]. rewrite Ex in E. symmetry in E. split; [auto|].
      destruct (ctl_pend _ H true ltr i Epc) as (_ & _ & _ & N0); [congruence|]. auto. }
    constructor; rewrite ?Hpc, ?Hn, ?HS, ?HYo; try (intros; discriminate).
    + unfold head_ok. cbv zeta. rewrite HL, HS, Hpc, Hm. split; [exact Hgood|].
      destruct oz as [y|].
      * destruct (Hpend y eq_refl) as (E & _ & G). rewrite E in NSm, NSf.
        unfold ev_good in G. destruct (ev_out e) as [| |[?|]]; try discriminate; auto.
      * destruct Hoz as [(E1 & E2 & E3)|(E1 & E2 & E3)]; rewrite E1; rewrite Ex in E2; auto.
    + exact (ctl_nswp_le _ H).
    + intros E. injection E as ->. destruct oz as [y|].
      * destruct (Hpend y eq_refl) as (E & _). exact (ctl_nswp _ H E).
      * destruct Hoz as [(_ & E & _)|(_ & E & _)]; congruence.
    + intros E. injection E as ->. right. destruct oz as [y|].
      * destruct (Hpend y eq_refl) as (E & N0 & _). destruct (ctl_e _ H E) as [[D _]|[_ D]]; [congruence|auto].
      * destruct Hoz as [(_ & E & _)|(_ & E & _)]; congruence.
    + intros E. injection E as ->. right. destruct oz as [y|].
      * destruct (Hpend y eq_refl) as (E & N0 & _). destruct (ctl_evld _ H E) as [[D _]|[_ D]]; [congruence|auto].
      * destruct Hoz as [(_ & E & _)|(_ & E & _)]; congruence.
    + intros E. injection E as ->. exfalso. destruct oz as [y|].
      * destruct (Hpend y eq_refl) as (E & _). destruct (ctl_cb _ H E) as [D _]. congruence.
      * destruct Hoz as [(_ & E & _)|(_ & E & _)]; congruence.
    + intros E. injection E as ->. exfalso. destruct oz as [y|].
      * destruct (Hpend y eq_refl) as (E & _). destruct (ctl_conv _ H E) as [D _]. congruence.
      * destruct Hoz as [(_ & E & _)|(_ & E & _)]; congruence.
    + intros L. split; intros E; injection E as ->; exfalso;
        (destruct oz as [y|]; [destruct (Hpend y eq_refl) as (_ & N0 & _); lia
                              |destruct Hoz as [(_ & E & _)|(_ & E & _)]; congruence]).
  - (* a position of a half sweep that is not the last one *)
    destruct (funcm_view _ _ _ _ _ _ Ef) as (e & Hlog & HI & G & Ek).
    assert (Hrun : s_pc s <> Done) by (rewrite Epc; discriminate).
    destruct (head_running s (ctl_head _ H) Hrun) as (Hgood & NSm & NSf).
    rewrite Est in Ek. symmetry in Ek.
    destruct (nextpc_main ltr i Hne) as (l' & i' & Enx & Hnz). rewrite Enx in Hpc. subst c'.
    constructor; rewrite ?Hpc, ?Hn, ?He, ?Hev, ?HYo, ?Est; try (intros; discriminate).
    + intros main l2 i2 _ N. congruence.
    + apply (head_good s' e (k_log (sK s))); auto; rewrite Est; discriminate.
    + exact (ctl_nswp_le _ H).
    + intros t l2 i2 Et _ _. exact (ctl_nswp_lt _ H t ltr i Et Ek Epc).
    + intros E. injection E as E1 E2. destruct Hnz; congruence.
    + intros _. split; intros; discriminate.
  - (* end of a sweep: nswp += 1, conv rule, callback, _info_appr *)
    destruct (funcm_view _ _ _ _ _ _ Ef) as (e & Hlog & HI & G & Ek).
    assert (Hrun : s_pc s <> Done) by (rewrite Epc; discriminate).
    destruct (head_running s (ctl_head _ H) Hrun) as (Hgood & NSm & NSf).
    rewrite Est in Ek. symmetry in Ek.
    pose proof (post_stop_cases c' (S (s_nswp s)) (s_e s') (s_evld s') Est) as PS. rewrite <- Hs3 in PS.
    assert (HS : k_stop (sK s') = s3) by (rewrite HK; reflexivity).
    assert (HL : k_log (sK s') = e :: k_log (sK s)) by (rewrite HK; exact Hlog).
    assert (Hc : conv (sK s') = conv c') by (rewrite HK; reflexivity).
    assert (Hlt : forall t, c_nswp C = Some t -> S (s_nswp s) <= t).
    { intros t Et. exact (ctl_nswp_lt _ H t false 0 Et Ek Epc). }
    destruct s3 as [x|].
    + constructor; rewrite ?Hpc, ?Hn, ?HS, ?Hc; try (intros; discriminate).
      * apply (head_good s' e (k_log (sK s))); auto; rewrite HS; intros E; injection E as ->; contradiction.
      * exact Hlt.
      * intros E. injection E as ->. destruct PS as ((t & Et & Ht) & _). rewrite Et. f_equal. specialize (Hlt t Et). lia.
      * intros E. injection E as ->. left. split; [reflexivity|exact (proj1 PS)].
      * intros E. injection E as ->. left. auto.
      * intros E. injection E as ->. destruct PS as (Ec & g & Eg & Eg'). split; [reflexivity|]. exists g. auto.
      * intros E. injection E as ->. auto.
      * intros _. split; intros E; injection E as ->; exact (proj2 PS).
    + destruct PS as (Ec & PS).
      constructor; rewrite ?Hpc, ?Hn, ?HS, ?Hc; try (intros; discriminate).
      * intros main l2 i2 _ N. congruence.
      * apply (head_good s' e (k_log (sK s))); auto; rewrite HS; discriminate.
      * intros t Et. specialize (PS t Et). lia.
      * intros t l2 i2 Et _ _. exact (PS t Et).
      * intros _ _. exact Ec.
      * intros _. split; intros; discriminate.
Qed.

Lemma ctl_step s : Ctl s -> Ctl (stepm s).
Proof. intros H. exact (ctl_view s _ H (step_viewP s)). Qed.

End Ctl.
