From Coq Require Import List Arith Lia PeanoNat ZArith.
From TV Require Import Num.Ops Lin.Tab Lin.BigSum TT.Chain Model.ActOne Model.ActOneX.
Import ListNotations.
Lemma run2x_run2 {T} (K : ops T) Y1 : forall Y2 v, run2x K v Y1 Y2 = run2 K v Y1 Y2.
Proof.
  induction Y1 as [|G1 Y1 IH]; intros Y2 v; [reflexivity|]. destruct Y2 as [|G2 Y2]; [reflexivity|].
  cbn [run2x run2]. rewrite IH. reflexivity.
Qed.
Lemma mul_scalar_x_eq {T} (K : ops T) Y1 Y2 : mul_scalar_x K Y1 Y2 = mul_scalar K Y1 Y2.
Proof. unfold mul_scalar_x, mul_scalar. now rewrite run2x_run2. Qed.
