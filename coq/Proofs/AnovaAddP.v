(* Lemmas about Model/Anova.v (C13), part 4: an additive function sampled on the full grid of the observed domain
   is reproduced exactly by the order-1 ANOVA tensor. *)
From Coq Require Import List Arith Lia PeanoNat ZArith Bool Ring Sorted Permutation.
From TV Require Import Num.Ops Lin.Tab Lin.BigSum Lin.Mat TT.Chain Model.ActOne Model.Anova
  Proofs.AnovaP Proofs.Anova2P Proofs.AnovaTopP.
Import ListNotations.

(* all multi-indices of a product domain, in row-major order *)
Fixpoint grid (doms : list (list Z)) : list (list Z) :=
  match doms with
  | [] => [[]]
  | dm :: doms' => flat_map (fun x => map (cons x) (grid doms')) dm
  end.
(* replace the k-th element of a list *)
Fixpoint lrep {A} (k : nat) (v : A) (l : list A) : list A :=
  match l with
  | [] => []
  | a :: l' => match k with O => v :: l' | S k' => a :: lrep k' v l' end
  end.

Lemma lrep_length {A} k (v : A) l : length (lrep k v l) = length l.
Proof. revert k; induction l as [|a l IH]; intros [|k]; cbn [lrep length]; auto. Qed.
Lemma lrep_nth {A} k (v : A) l d j : (k < length l)%nat -> nth j (lrep k v l) d = if (j =? k)%nat then v else nth j l d.
Proof.
  revert k j; induction l as [|a l IH]; intros k j Hk; [cbn in Hk; lia|].
  destruct k as [|k], j as [|j]; cbn [lrep nth Nat.eqb]; auto. apply IH. cbn in Hk. lia.
Qed.

Lemma filter_flat_map {A B} (p : B -> bool) (h : A -> list B) l :
  filter p (flat_map h l) = flat_map (fun x => filter p (h x)) l.
Proof. induction l as [|a l IH]; [reflexivity|]. cbn [flat_map]. now rewrite filter_app, IH. Qed.
Lemma flat_map_none {B} (x : Z) (h : Z -> list B) dm : ~ In x dm ->
  flat_map (fun v => if (v =? x)%Z then h v else []) dm = [].
Proof.
  induction dm as [|b dm IH]; intros Hn; [reflexivity|]. cbn [flat_map].
  destruct (Z.eqb_spec b x) as [->|_]; [exfalso; apply Hn; now left|]. cbn [app]. apply IH.
  intros H. apply Hn. now right.
Qed.
Lemma flat_map_pick {B} (x : Z) (h : Z -> list B) dm : NoDup dm -> In x dm ->
  flat_map (fun v => if (v =? x)%Z then h v else []) dm = h x.
Proof.
  induction dm as [|a dm IH]; intros ND Hin; [destruct Hin|]. inversion ND as [|? ? Hna ND']; subst.
  cbn [flat_map]. destruct (Z.eqb_spec a x) as [->|Hne].
  - now rewrite flat_map_none, app_nil_r.
  - destruct Hin as [->|Hin]; [contradiction|]. cbn [app]. now apply IH.
Qed.

Lemma grid_length_cons dm doms : length (grid (dm :: doms)) = (length dm * length (grid doms))%nat.
Proof.
  cbn [grid]. induction dm as [|x dm IH]; [reflexivity|]. cbn [flat_map length]. rewrite app_length, map_length, IH. lia.
Qed.

Lemma filter_cons_0 v x (G : list (list Z)) :
  filter (at_ O x) (map (cons v) G) = if (v =? x)%Z then map (cons v) G else [].
Proof.
  induction G as [|row G IH]; [now destruct (v =? x)%Z|]. cbn [map filter]. rewrite IH. unfold at_. cbn [nth].
  now destruct (v =? x)%Z.
Qed.
Lemma filter_cons_S k v x (G : list (list Z)) :
  filter (at_ (S k) x) (map (cons v) G) = map (cons v) (filter (at_ k x) G).
Proof.
  induction G as [|row G IH]; [reflexivity|]. cbn [map filter]. rewrite IH. unfold at_. cbn [nth].
  now destruct (nth k row 0%Z =? x)%Z.
Qed.

(* the rows of the grid whose k-th entry is x: the grid with the k-th domain replaced by [x] *)
Lemma grid_filter : forall doms k x, (k < length doms)%nat -> NoDup (nth k doms []) -> In x (nth k doms []) ->
  filter (at_ k x) (grid doms) = grid (lrep k [x] doms).
Proof.
  induction doms as [|dm doms IH]; intros k x Hk ND Hin; [cbn in Hk; lia|]. destruct k as [|k].
  - cbn [nth] in ND, Hin. cbn [lrep grid flat_map]. rewrite app_nil_r, filter_flat_map.
    rewrite (flat_map_ext _ (fun v => if (v =? x)%Z then map (cons v) (grid doms) else [])).
    + now apply (flat_map_pick x).
    + intros v. apply filter_cons_0.
  - cbn [nth] in ND, Hin. cbn [lrep grid]. rewrite filter_flat_map. apply flat_map_ext. intros v.
    rewrite <- (IH k x) by (auto; cbn in Hk; lia). apply filter_cons_S.
Qed.

Lemma filter_perm {A} (p : A -> bool) l l' : Permutation l l' -> Permutation (filter p l) (filter p l').
Proof.
  induction 1; cbn [filter]; auto.
  - destruct (p x); auto.
  - destruct (p x), (p y); auto. apply perm_swap.
  - eapply Permutation_trans; eauto.
Qed.

Section Additive.
Context {T : Type} (K : ops T).
Notation "0" := (o0 K). Notation "1" := (o1 K).
Infix "+" := (oadd K). Infix "*" := (omul K). Infix "-" := (osub K). Infix "/" := (odiv K).
Hypothesis Rth : rng K.
Add Ring RrAnovaAdd2 : Rth.
(* what is used of a field of characteristic 0 *)
Hypothesis Hdiv : forall a b, b <> 0 -> (a / b) * b = a.
Hypothesis Hnat : forall n, natT K (S n) <> 0.
Hypothesis Hnat0 : natT K O = 0.
Hypothesis HnatS : forall n, natT K (S n) = natT K n + 1.

(* an additive function of the index values: c + sum_k gs k (x_k) *)
Definition addn (gs : nat -> Z -> T) (d : nat) (row : list Z) : T := bsum K d (fun k => gs k (nth k row 0%Z)).
Definition addf (c : T) (gs : nat -> Z -> T) (d : nat) (row : list Z) : T := c + addn gs d row.

Lemma natT_add a b : natT K (a + b) = natT K a + natT K b.
Proof. induction a; cbn [Nat.add]; [rewrite Hnat0; ring|]. rewrite !HnatS, IHa. ring. Qed.
Lemma natT_mul a b : natT K (a * b) = natT K a * natT K b.
Proof. induction a; cbn [Nat.mul]; [rewrite Hnat0; ring|]. rewrite natT_add, HnatS, IHa. ring. Qed.
Lemma natT_1 : natT K 1 = 1.
Proof. rewrite HnatS, Hnat0. ring. Qed.
Lemma nat_cancel a b n : a * natT K (S n) = b * natT K (S n) -> a = b.
Proof.
  intros E. pose proof (Hdiv 1 (natT K (S n)) (Hnat n)) as Hi.
  replace a with (a * natT K (S n) * (1 / natT K (S n))) by (transitivity (a * (1 / natT K (S n) * natT K (S n))); [ring|rewrite Hi; ring]).
  rewrite E. transitivity (b * (1 / natT K (S n) * natT K (S n))); [ring|rewrite Hi; ring].
Qed.

Lemma lsum_perm l l' : Permutation l l' -> lsum K l = lsum K l'.
Proof. induction 1; cbn [lsum]; try congruence. ring. Qed.
Lemma lsum_map_ext {A} (f h : A -> T) l : (forall x, In x l -> f x = h x) -> lsum K (map f l) = lsum K (map h l).
Proof. intros H. f_equal. now apply map_ext_in. Qed.
Lemma lsum_flat_map {A B} (F : B -> T) (h : A -> list B) l :
  lsum K (map F (flat_map h l)) = lsum K (map (fun x => lsum K (map F (h x))) l).
Proof. induction l as [|a l IH]; [reflexivity|]. cbn [flat_map map lsum]. now rewrite map_app, (lsum_app K Rth), IH. Qed.
Lemma lsum_affine {A} (u v : T) (g : A -> T) l :
  lsum K (map (fun x => u * (v + g x)) l) = u * (natT K (length l) * v + lsum K (map g l)).
Proof. induction l as [|a l IH]; cbn [map lsum length]; [rewrite Hnat0; ring|]. rewrite IH, HnatS. ring. Qed.
Lemma bsum_upd d k u (f : nat -> T) : (k < d)%nat ->
  bsum K d (fun j => if (j =? k)%nat then u else f j) + f k = bsum K d f + u.
Proof.
  intros Hk.
  rewrite (bsum_ext K d _ (fun j => f j + (if (j =? k)%nat then u - f k else 0))).
  - rewrite (bsum_add K Rth). rewrite (bsum_single K Rth d k (fun j => if (j =? k)%nat then u - f k else 0)); auto.
    + rewrite Nat.eqb_refl. ring.
    + intros i _ Hne. now destruct (Nat.eqb_spec i k).
  - intros j _. destruct (Nat.eqb_spec j k) as [->|_]; ring.
Qed.

Lemma addn_cons gs d x row : addn gs (S d) (x :: row) = gs O x + addn (fun k => gs (S k)) d row.
Proof. unfold addn. rewrite (bsum_S_l K Rth). reflexivity. Qed.

(* the sum of an additive function over a product grid: N * (c + sum of the per-mode means) *)
Lemma grid_sum : forall doms c gs (A : nat -> T),
  (forall k, (k < length doms)%nat -> A k * natT K (length (nth k doms [])) = lsum K (map (gs k) (nth k doms []))) ->
  lsum K (map (addf c gs (length doms)) (grid doms)) = natT K (length (grid doms)) * (c + bsum K (length doms) A).
Proof.
  induction doms as [|dm doms IH]; intros c gs A HA.
  - cbn [grid map lsum length bsum]. unfold addf, addn. cbn [bsum]. rewrite natT_1. ring.
  - rewrite grid_length_cons, natT_mul. cbn [grid length]. rewrite lsum_flat_map.
    rewrite (lsum_map_ext _ (fun x => natT K (length (grid doms))
                                      * ((c + bsum K (length doms) (fun k => A (S k))) + gs O x))).
    + rewrite lsum_affine. rewrite (bsum_S_l K Rth). specialize (HA O ltac:(cbn; lia)). cbn [nth] in HA.
      rewrite <- HA. ring.
    + intros x _. rewrite map_map.
      rewrite (lsum_map_ext _ (addf (c + gs O x) (fun k => gs (S k)) (length doms))).
      * rewrite (IH _ _ (fun k => A (S k))). ring.
        intros k Hk. apply (HA (S k)). cbn; lia.
      * intros row _. unfold addf. rewrite addn_cons. ring.
Qed.

Lemma sel_map (F : list Z -> T) p I : sel p I (map F I) = map F (filter p I).
Proof.
  unfold sel. induction I as [|r I IH]; [reflexivity|]. cbn [map combine filter fst]. destruct (p r); cbn [map snd]; now rewrite IH.
Qed.

Lemma grid_nonempty doms : (forall k, (k < length doms)%nat -> nth k doms [] <> []) -> grid doms <> [].
Proof.
  induction doms as [|dm doms IH]; intros H; [discriminate|].
  pose proof (H O ltac:(cbn; lia)) as H0. cbn [nth] in H0. destruct dm as [|x dm]; [congruence|].
  cbn [grid flat_map]. assert (G : grid doms <> []) by (apply IH; intros k Hk; apply (H (S k)); cbn; lia).
  destruct (grid doms); [congruence|discriminate].
Qed.

(* teneva.anova(order=1, noise=0) on the samples {(x, c + sum_k g_k(x_k)) : x in the full grid of the observed
   domain, each once, in any order} evaluates to c + sum_k g_k(x_k) at every multi-index of the domain *)
Theorem anova_additive_exact I c gs r g (M : anova T) :
  let d := dimI I in let y := map (addf c gs d) I in
  Permutation I (grid (domain I)) -> (2 <= d)%nat -> (2 <= r)%nat -> ANOVA K I y 1 = Ok M ->
  forall pos, length pos = d -> (forall k, (k < d)%nat -> (nth k pos O < length (nth k (domain I) []))%nat) ->
    get K (cores_1 K M r 0 g) pos = addf c gs d (tab d (fun k => nth (nth k pos O) (nth k (domain I) []) 0%Z)).
Proof.
  intros d y HP Hd Hr HM pos Lp Hpos.
  assert (HI : I <> []) by (intros ->; cbn in Hd; lia).
  set (dom := domain I) in *.
  assert (Ld : length dom = d) by apply domain_length.
  assert (Ly : length I = length y) by (unfold y; now rewrite map_length).
  assert (Hy : y <> []) by (unfold y; destruct I; [congruence|discriminate]).
  destruct (anova_stats K Rth Hdiv Hnat I y 1 M HM Hy Ly) as (Edom & _ & Hdom & Hf0 & _ & Hf1).
  fold d in Hdom, Hf1. rewrite Edom in Hdom, Hf1. fold dom in Hdom, Hf1.
  assert (Hne : forall k, (k < d)%nat -> nth k dom [] <> []).
  { intros k Hk Hnil. destruct (Hdom k Hk) as [_ Hin]. destruct I as [|r0 I0]; [congruence|].
    specialize (Hin (nth k r0 0%Z)). rewrite Hnil in Hin. apply Hin. now left. }
  (* the per-mode means of the g_k *)
  set (A := fun k => lsum K (map (gs k) (nth k dom [])) / natT K (length (nth k dom []))).
  assert (HA : forall k, (k < length dom)%nat -> A k * natT K (length (nth k dom [])) = lsum K (map (gs k) (nth k dom []))).
  { intros k Hk. unfold A. apply Hdiv. rewrite Ld in Hk. specialize (Hne k Hk).
    destruct (nth k dom []); [congruence|]. apply Hnat. }
  (* f0 *)
  assert (E0 : a_f0 M = c + bsum K d A).
  { assert (Hlen : length y = length (grid dom)) by (rewrite <- Ly; now apply Permutation_length).
    assert (Hg : grid dom <> []) by (apply grid_nonempty; intros k Hk; apply Hne; lia).
    rewrite Hlen in Hf0. unfold y in Hf0. rewrite (lsum_perm _ _ (Permutation_map _ HP)) in Hf0.
    replace (addf c gs d) with (addf c gs (length dom)) in Hf0 by (now rewrite Ld).
    rewrite (grid_sum dom c gs A HA), Ld in Hf0.
    destruct (length (grid dom)) as [|n] eqn:En; [destruct (grid dom); [congruence|discriminate]|].
    apply (nat_cancel _ _ n). rewrite Hf0. ring. }
  (* f1 *)
  assert (E1 : forall k p, (k < d)%nat -> (p < length (nth k dom []))%nat ->
             nth p (nth k (a_f1 M) []) 0 = gs k (nth p (nth k dom []) 0%Z) - A k).
  { intros k p Hk Hp. destruct (Hf1 k p Hk Hp) as [Hs Hm]. cbn zeta in Hs, Hm.
    set (x := nth p (nth k dom []) 0%Z) in *.
    unfold y in Hs, Hm. rewrite sel_map in Hs, Hm. rewrite map_length in Hm.
    pose proof (filter_perm (at_ k x) _ _ HP) as HPf.
    rewrite (Permutation_length HPf) in Hm. rewrite (lsum_perm _ _ (Permutation_map _ HPf)) in Hm.
    assert (NDk : NoDup (nth k dom [])) by (unfold dom; rewrite domain_nth by auto; apply unique_NoDup).
    assert (Hinx : In x (nth k dom [])) by (apply nth_In; exact Hp).
    rewrite grid_filter in Hm by (auto; lia).
    set (dom' := lrep k [x] dom) in *.
    assert (Ld' : length dom' = d) by (unfold dom'; now rewrite lrep_length).
    set (A' := fun j => if (j =? k)%nat then gs k x else A j).
    assert (HA' : forall j, (j < length dom')%nat ->
              A' j * natT K (length (nth j dom' [])) = lsum K (map (gs j) (nth j dom' []))).
    { intros j Hj. unfold dom', A'. rewrite lrep_nth by lia. destruct (Nat.eqb_spec j k) as [->|Hne'].
      - cbn [length map lsum]. rewrite natT_1. ring.
      - apply HA. rewrite Ld' in Hj. lia. }
    replace (addf c gs d) with (addf c gs (length dom')) in Hm by (now rewrite Ld').
    rewrite (grid_sum dom' c gs A' HA'), Ld' in Hm.
    assert (Hg : grid dom' <> []).
    { apply grid_nonempty. intros j Hj. unfold dom'. rewrite lrep_nth by lia.
      destruct (j =? k)%nat; [discriminate|]. apply Hne. rewrite Ld' in Hj. exact Hj. }
    destruct (length (grid dom')) as [|n] eqn:En; [destruct (grid dom'); [congruence|discriminate]|].
    assert (E : nth p (nth k (a_f1 M) []) 0 + a_f0 M = c + bsum K d A').
    { apply (nat_cancel _ _ n). rewrite Hm. ring. }
    pose proof (bsum_upd d k (gs k x) A Hk) as HU. fold A' in HU.
    rewrite E0 in E.
    transitivity ((nth p (nth k (a_f1 M) []) 0 + (c + bsum K d A)) - (c + bsum K d A)); [ring|].
    rewrite E. transitivity ((bsum K d A' + A k) - bsum K d A - A k); [ring|]. rewrite HU. ring. }
  (* the tensor *)
  assert (HdM : a_d M = d) by (unfold a_d; rewrite Edom; exact Ld).
  rewrite (cores_1_get K Rth) by (try lia; intros k Hk; rewrite HdM in Hk;
    rewrite (ANOVA_f1_len K I y 1 M k HM Hk), shapes_nth; now apply Hpos).
  rewrite HdM, E0. unfold addf, addn.
  rewrite (bsum_ext K d (fun k => nth (nth k pos O) (nth k (a_f1 M) []) 0)
                        (fun k => gs k (nth (nth k pos O) (nth k dom []) 0%Z) - A k)) by (intros k Hk; apply E1; auto).
  rewrite (bsum_sub K Rth).
  rewrite (bsum_ext K d (fun k => gs k (nth k (tab d (fun k0 => nth (nth k0 pos O) (nth k0 dom []) 0%Z)) 0%Z))
                        (fun k => gs k (nth (nth k pos O) (nth k dom []) 0%Z))) by (intros k Hk; now rewrite nth_tab).
  ring.
Qed.
End Additive.
