(* C20 at the reals: a least-squares solution of a CONSISTENT system is an exact solution, and the unique one when
   the matrix has full column rank (a left inverse).  This is what the contract [lstsq_solves] of the exact-recovery
   theorem (SvdIncP3) asks of np.linalg.lstsq. *)
From Coq Require Import List Arith Lia PeanoNat ZArith Ring Bool Reals Lra.
From TV Require Import Num.Ops Lin.Tab Lin.BigSum Lin.Mat Proofs.SvdIncP3.
Import ListNotations.
Local Open Scope R_scope.

Definition Rleb20 (a b : R) : bool := if Rle_dec a b then true else false.
Definition Rltb20 (a b : R) : bool := if Rlt_dec a b then true else false.
Definition Reqb20 (a b : R) : bool := if Req_EM_T a b then true else false.
Definition OR20 : ops R :=
  mkops R 0 1 Rplus Rmult Rminus Ropp Rdiv sqrt Rabs Rleb20 Rltb20 Reqb20 IZR (powerRZ 2).
Lemma OR20_rng : rng OR20. Proof. exact RTheory. Qed.

Notation rsum := (bsum OR20).
Lemma rsum_nonneg n f : (forall i, (i < n)%nat -> 0 <= f i) -> 0 <= rsum n f.
Proof.
  induction n; intros H; cbn [bsum oadd o0 OR20]; [lra|].
  pose proof (IHn (fun i Hi => H i (Nat.lt_lt_succ_r _ _ Hi))). pose proof (H n (Nat.lt_succ_diag_r n)). lra.
Qed.
Lemma rsum_zero_each n f : (forall i, (i < n)%nat -> 0 <= f i) -> rsum n f <= 0 -> forall i, (i < n)%nat -> f i = 0.
Proof.
  induction n; intros H Hle i Hi; [lia|]. cbn [bsum oadd o0 OR20] in Hle.
  pose proof (rsum_nonneg n f (fun i Hi => H i (Nat.lt_lt_succ_r _ _ Hi))) as H1.
  pose proof (H n (Nat.lt_succ_diag_r n)) as H2.
  destruct (Nat.eq_dec i n) as [->|Hne]; [lra|].
  apply IHn; [intros; apply H; lia | lra | lia].
Qed.

Section Lstsq.
Variables (A b : mat R).
(* (A X)[i, j] for X given as a function;  squared Frobenius norm of the residual A X - b *)
Definition AX (X : nat -> nat -> R) (i j : nat) : R := rsum (mc A) (fun a => mget OR20 A i a * X a j).
Definition res2 (X : nat -> nat -> R) : R :=
  rsum (mr A) (fun i => rsum (mc b) (fun j => (AX X i j - mget OR20 b i j) * (AX X i j - mget OR20 b i j))).
Definition minimiser (X : nat -> nat -> R) : Prop := forall X', res2 X <= res2 X'.
Definition solves (X : nat -> nat -> R) : Prop :=
  forall i j, (i < mr A)%nat -> (j < mc b)%nat -> AX X i j = mget OR20 b i j.

Lemma res2_solves X : solves X -> res2 X = 0.
Proof.
  intros H. unfold res2. apply (bsum_0' OR20 OR20_rng). intros i Hi. apply (bsum_0' OR20 OR20_rng). intros j Hj.
  rewrite H by auto. cbn [o0 OR20]. ring.
Qed.
(* consistent system: every least-squares solution solves it exactly *)
Theorem lstsq_exact X X0 : solves X0 -> minimiser X -> solves X.
Proof.
  intros H0 Hmin i j Hi Hj. pose proof (Hmin X0) as Hle. rewrite (res2_solves X0 H0) in Hle. unfold res2 in Hle.
  assert (Hsq : forall u : R, 0 <= u * u) by (intros u; nra).
  pose proof (rsum_zero_each (mr A) _ (fun i _ => rsum_nonneg (mc b) _ (fun j _ => Hsq _)) Hle i Hi) as Hrow.
  pose proof (rsum_zero_each (mc b) _ (fun j _ => Hsq _) (Req_le _ _ Hrow) j Hj) as Hz. cbv beta in Hz. nra.
Qed.
(* ... and with full column rank (L A = I for some L) it is the unique solution *)
Theorem lstsq_unique (L : nat -> nat -> R) X X0 :
  (forall a a', (a < mc A)%nat -> (a' < mc A)%nat ->
     rsum (mr A) (fun i => L a i * mget OR20 A i a') = if Nat.eqb a a' then 1 else 0) ->
  solves X0 -> minimiser X -> forall a j, (a < mc A)%nat -> (j < mc b)%nat -> X a j = X0 a j.
Proof.
  intros HL H0 Hmin a j Ha Hj. pose proof (lstsq_exact X X0 H0 Hmin) as H1.
  assert (Hrec : forall W, solves W -> W a j = rsum (mr A) (fun i => L a i * mget OR20 b i j)).
  { intros W HW.
    transitivity (rsum (mr A) (fun i => L a i * AX W i j)).
    2:{ apply (bsum_ext OR20). intros i Hi. now rewrite HW. }
    unfold AX. change Rmult with (omul OR20). rewrite (sum_sum_l OR20 OR20_rng).
    rewrite (bsum_single OR20 OR20_rng (mc A) a); auto.
    - rewrite HL, Nat.eqb_refl by auto. cbn [omul OR20]. ring.
    - intros a' Ha' Hne. rewrite HL by auto. destruct (Nat.eqb_spec a a'); [congruence|]. cbn [omul OR20 o0]. ring. }
  now rewrite (Hrec X H1), (Hrec X0 H0).
Qed.
End Lstsq.

(* hence: an lstsq routine that returns a minimiser of the residual meets the contract of the recovery theorem *)
Theorem lstsq_min_solves (lstsq : nat -> mat R -> mat R -> mat R) :
  (forall c A b, mr A = mr b -> minimiser A b (fun a j => mget OR20 (lstsq c A b) a j)) ->
  lstsq_solves OR20 lstsq.
Proof.
  intros Hmin c A b Hrows (X0 & H0) i j Hi Hj.
  exact (lstsq_exact A b _ X0 H0 (Hmin c A b Hrows) i j Hi Hj).
Qed.
