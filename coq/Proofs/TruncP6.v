(* C02, part 6: truncate(Y, e, r, orth=True, use_stab=True, is_eigh): the stabilised orthogonalisation returns Zs with
   2^p Zs = Y, the sweep runs on Zs with threshold e/sqrt(d-1) |Zs[-1]|, every core of the result is multiplied by
   2^(p/d); with (2^(p/d))^d = 2^p the result is 2^p * sweep(Zs) and the bound e |Y| follows from the sweep theorem. *)
From Coq Require Import List Arith Lia Ring PeanoNat ZArith Bool Reals Lra.
From TV Require Import Num.Ops Lin.Tab Lin.BigSum Lin.Mat TT.Chain Model.ActOne Model.Transformation Model.Svd Model.Wf Model.Stab
  Proofs.TransformationP Proofs.TransformationP2 Proofs.OrthP Proofs.OrthP2 Proofs.WfP Proofs.StabP Proofs.StabRP
  Proofs.TruncP Proofs.FrobP Proofs.TruncP2 Proofs.TruncP3 Proofs.TruncP4 Proofs.TruncP5.
Import ListNotations.
Local Open Scope R_scope.

Lemma chain_rescale {T} (K : ops T) c (Y : list (core T)) : forall r rl, chain r Y rl -> chain r (map (core_scale K c) Y) rl.
Proof. induction Y as [|G Y IH]; intros r rl; cbn [map chain]; [auto|]. intros (A & B). split; [exact A|]. apply IH. exact B. Qed.
Lemma shape_rescale {T} (K : ops T) c (Y : list (core T)) : shape (map (core_scale K c) Y) = shape Y.
Proof. unfold shape. rewrite map_map. reflexivity. Qed.

Section TruncStab.
Variable svdo : nat -> mat R -> mat R * list R * mat R.
Variable eigh : nat -> mat R -> list R * mat R.
Variable argsort : nat -> list R -> list nat.
Variable qr rq : nat -> mat R -> mat R * mat R.
Variable ilog2 : nat -> R -> Z.
Variable pow2frac : Z -> nat -> R.
Hypothesis qr_spec : forall k A, qr_ok OR A (fst (qr k A)) (snd (qr k A)).
Hypothesis rq_spec : forall k A, rq_ok OR A (fst (rq k A)) (snd (rq k A)).
Variable rcap : Z.
Variable is_eigh : bool.
Hypothesis Hfact : forall e', 0 <= e' -> fact_contract (factE svdo eigh argsort rcap is_eigh e') (e' * e') rcap.
(* 2**(p/d) is a d-th root of 2**p *)
Hypothesis Hroot : forall p d, (1 <= d)%nat -> opow OR (pow2frac p d) d = powerRZ 2 p.

Theorem truncate_error_stab_gen (Y : list (core R)) (e : R) : wfI (shape Y) Y -> (2 <= length Y)%nat -> 0 <= e ->
  exists W, truncate OR svdo eigh argsort qr rq ilog2 pow2frac Y e rcap true true is_eigh = Ok W /\
    length W = length Y /\ chain 1 W 1 /\ shape W = shape Y /\
    (forall k, (1 <= k < length Y)%nat ->
       (1 <= cr1 (nth k W dcore))%nat /\ (cr1 (nth k W dcore) <= cr1 (nth k Y dcore))%nat /\
       (Z.of_nat (cr1 (nth k W dcore)) <= Z.max 1 rcap)%Z) /\
    ((forall k, (1 <= k < length Y)%nat -> (Z.of_nat (cr1 (nth k W dcore)) < rcap)%Z) ->
     dist2 OR Y W <= e * e * tnorm2 OR Y).
Proof.
  intros WY Hd He. set (d := length Y) in *.
  assert (Lns : length (shape Y) = d) by apply map_length.
  assert (C : chain 1 Y 1). { apply wfI_iff in WY. destruct WY as ((_ & C & _) & _). exact C. }
  destruct OR_laws as (_ & pa & p0 & pd).
  destruct (orthogonalize_full OR OR_rng pa p0 pd qr rq ilog2 qr_spec rq_spec (fun _ => True) (fun _ _ _ _ => I)
              true Y (d - 1)%nat C) as (Zs & p & EO & OK); [lia|].
  destruct (orthogonalize_wfI OR qr rq ilog2 (qr_ok_shape qr qr_spec) (rq_ok_shape rq rq_spec) (shape Y) Y
              (Some (Z.of_nat (d - 1))) true WY) as (Zs' & p' & EO' & WZ); [rewrite Lns; lia|].
  rewrite EO in EO'. injection EO' as <- <-.
  pose proof (orthogonalize_norm OR OR_rng pa p0 pd qr rq ilog2 qr_spec rq_spec (fun _ => True) (fun _ _ _ _ => I)
                true Y (d - 1)%nat Zs p C ltac:(lia) EO) as (_ & NY & _).
  destruct OK as [c1 c2 c3 c4 c5 c6 c7 c8 c9 c10 c11].
  pose proof WZ as WZ'. destruct WZ as (wL & wP & wF & wLa & wLk & wDm). rewrite Lns in wL, wP, wLa, wLk, wDm.
  set (Gl := nth (d - 1) Zs dcore) in *.
  assert (BR : Svd.cfrob2 OR Gl = OrthP.cfrob2 OR Gl) by (apply cfrob2_bridge; apply wDm; lia).
  (* unfold the model *)
  unfold truncate. fold d. replace (Z.of_nat d - 1)%Z with (Z.of_nat (d - 1)) by lia. rewrite EO. cbv zeta.
  fold Gl. rewrite BR.
  set (N := OrthP.cfrob2 OR Gl) in *.
  set (e' := odiv OR e (osqrt OR (oofZ OR (Z.of_nat (d - 1)))) * osqrt OR N).
  change (omul OR (odiv OR e (osqrt OR (oofZ OR (Z.of_nat (d - 1))))) (osqrt OR N)) with e'.
  assert (HN : 0 <= N) by apply cfrob2_nonneg.
  assert (HD : 0 < IZR (Z.of_nat (d - 1))) by (apply IZR_lt; lia).
  assert (He' : 0 <= e').
  { unfold e'. change (0 <= e / sqrt (IZR (Z.of_nat (d - 1))) * sqrt N).
    apply Rmult_le_pos; [|apply sqrt_pos]. apply Rmult_le_pos; [exact He|].
    apply Rlt_le, Rinv_0_lt_compat, sqrt_lt_R0, HD. }
  assert (E2 : INR (d - 1) * (e' * e') = e * e * N).
  { unfold e'. change (INR (d - 1) * (e / sqrt (IZR (Z.of_nat (d - 1))) * sqrt N * (e / sqrt (IZR (Z.of_nat (d - 1))) * sqrt N)) = e * e * N).
    rewrite INR_IZR_INZ. set (D := IZR (Z.of_nat (d - 1))) in *.
    assert (S1 : sqrt D * sqrt D = D) by (apply sqrt_sqrt; lra).
    assert (S2 : sqrt N * sqrt N = N) by (apply sqrt_sqrt; lra).
    assert (S3 : sqrt D <> 0) by (apply Rgt_not_eq, sqrt_lt_R0, HD).
    replace (D * (e / sqrt D * sqrt N * (e / sqrt D * sqrt N))) with (e * e * (D / (sqrt D * sqrt D)) * (sqrt N * sqrt N)) by (field; exact S3).
    rewrite S1, S2. field. lra. }
  rewrite trunc_sweep_gsweep. fold (factE svdo eigh argsort rcap is_eigh e').
  assert (PD : posdims Zs).
  { intros k Hk. rewrite wL in Hk. destruct (wDm k Hk) as (n1 & _ & n2 & n3). repeat split; auto.
    - apply (wfI_cr1_pos (shape Y) Zs k WZ'). rewrite Lns. exact Hk.
    - rewrite n1. exact n2. }
  destruct (gsweep_spec (factE svdo eigh argsort rcap is_eigh e') (e' * e') rcap (Hfact e' He') (d - 1)%nat Zs 1%nat) as (LW & CW & SW & RW & EW);
    [lia|exact c3|exact PD|intros i Hi; apply c6; exact Hi|].
  set (W' := gsweep OR (factE svdo eigh argsort rcap is_eigh e') Zs (d - 1) (d - 1)) in *.
  set (f := pow2frac p d).
  change (map (fun G : core R => mkcore (cr1 G) (cn G) (cr2 G) (fun a i b : nat => omul OR (cget OR G a i b) f)) W')
    with (rescale_all OR f W').
  eexists. split; [reflexivity|]. unfold rescale_all.
  split; [rewrite map_length; lia|]. split; [apply chain_rescale; exact CW|]. split; [rewrite shape_rescale; congruence|]. split.
  - intros k Hk. rewrite (nth_map_in (core_scale OR f) W' k dcore dcore) by lia. cbn [core_scale cr1 mkcore].
    destruct (RW k) as (r1 & r2 & _ & r4); [lia|]. repeat split; auto.
    etransitivity; [exact r2|]. apply c8. lia.
  - intros Hcap.
    assert (HW : forall idx, inb (shape Y) idx -> wf 1 W' idx).
    { intros idx Hidx. apply wf_wfo, wfo_chain_inb. split; [exact CW|]. rewrite SW, c4. exact Hidx. }
    set (P := powerRZ 2 p).
    assert (DE : dist2 OR Y (map (core_scale OR f) W') = P * P * dist2o OR Zs W' 1).
    { rewrite <- (dist2_dist2o OR OR_rng). unfold dist2. rewrite c4. rewrite <- (msum_mul_l OR OR_rng).
      apply (msum_ext OR). intros idx Hidx.
      assert (WYi : wf 1 Y idx) by (apply wf_wfo, wfo_chain_inb; split; [exact C|exact Hidx]).
      rewrite <- (c1 idx WYi). change (map (core_scale OR f) W') with (rescale_all OR f W').
      rewrite (get_rescale_all OR OR_rng f W' idx (HW idx Hidx)). rewrite LW.
      replace (S (d - 1)) with d by lia. unfold f. rewrite Hroot by lia. unfold sq.
      change (opow2 OR p) with P.
      change ((P * get OR Zs idx - P * get OR W' idx) * (P * get OR Zs idx - P * get OR W' idx) =
              P * P * ((get OR Zs idx - get OR W' idx) * (get OR Zs idx - get OR W' idx))). ring. }
    rewrite DE. rewrite NY. change (opow2 OR p) with P.
    change (P * P * dist2o OR Zs W' 1 <= e * e * (P * P * N)).
    assert (LE : dist2o OR Zs W' 1 <= INR (d - 1) * (e' * e')).
    { apply EW. intros k Hk. specialize (Hcap k ltac:(lia)).
      rewrite (nth_map_in (core_scale OR f) W' k dcore dcore) in Hcap by lia. exact Hcap. }
    rewrite E2 in LE. assert (0 <= P * P) by nra. nra.
Qed.
End TruncStab.

(* both modes, only the LAPACK contracts and the root law assumed *)
Section TruncStabFull.
Variable svdo : nat -> mat R -> mat R * list R * mat R.
Variable eigh : nat -> mat R -> list R * mat R.
Variable argsort : nat -> list R -> list nat.
Variable qr rq : nat -> mat R -> mat R * mat R.
Variable ilog2 : nat -> R -> Z.
Variable pow2frac : Z -> nat -> R.
Hypothesis qr_spec : forall k A, qr_ok OR A (fst (qr k A)) (snd (qr k A)).
Hypothesis rq_spec : forall k A, rq_ok OR A (fst (rq k A)) (snd (rq k A)).
Hypothesis svd_spec : forall k A, svd_ok OR A (fst (fst (svdo k A))) (snd (fst (svdo k A))) (snd (svdo k A)).
Hypothesis eigh_spec : forall k C, msym C -> eigh_ok C (fst (eigh k C)) (snd (eigh k C)).
Hypothesis argsort_spec : forall k l, argsort_ok l (argsort k l).
Hypothesis Hroot : forall p d, (1 <= d)%nat -> opow OR (pow2frac p d) d = powerRZ 2 p.

Theorem truncate_error_stab (rcap : Z) (is_eigh : bool) (Y : list (core R)) (e : R) :
  wfI (shape Y) Y -> (2 <= length Y)%nat -> 0 <= e ->
  exists W, truncate OR svdo eigh argsort qr rq ilog2 pow2frac Y e rcap true true is_eigh = Ok W /\
    length W = length Y /\ chain 1 W 1 /\ shape W = shape Y /\
    (forall k, (1 <= k < length Y)%nat ->
       (1 <= cr1 (nth k W dcore))%nat /\ (cr1 (nth k W dcore) <= cr1 (nth k Y dcore))%nat /\
       (Z.of_nat (cr1 (nth k W dcore)) <= Z.max 1 rcap)%Z) /\
    ((forall k, (1 <= k < length Y)%nat -> (Z.of_nat (cr1 (nth k W dcore)) < rcap)%Z) ->
     dist2 OR Y W <= e * e * tnorm2 OR Y).
Proof.
  apply (truncate_error_stab_gen svdo eigh argsort qr rq ilog2 pow2frac qr_spec rq_spec rcap is_eigh); [|exact Hroot].
  intros e' He'. destruct is_eigh.
  - exact (svd_contract eigh argsort eigh_spec argsort_spec rcap e' He').
  - exact (skeleton_contract svdo svd_spec rcap e' He').
Qed.
End TruncStabFull.

(* the root law is satisfiable: 2^(p/d) as a real power *)
Example root_law_ex : forall p d, (1 <= d)%nat -> opow OR (rootR p d) d = powerRZ 2 p.
Proof. intros p d Hd. apply rootR_spec. lia. Qed.
