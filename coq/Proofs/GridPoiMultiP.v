(* C18, part 5: the list-level functions (ind_to_poi, poi_scale, poi_to_ind on a whole multi-index / point) are the
   coordinate-wise maps studied in GridPoiP.v; the round trip for whole multi-indices at R. *)
From Coq Require Import List ZArith Bool Lia Reals Lra.
From TV Require Import Num.Ops Lin.Tab Model.GridInd Model.GridPoi Proofs.GridPoiP Proofs.GridPoiOptP.
Import ListNotations.

Section Elem.
Context {T : Type} (K : ops T).
Variable fl : T -> Z.
Variables cosf acosf : T -> T.
Variable pi : T.

Lemma prep_opts_vec (av bv : list T) (nv : list Z) d : length av = d -> length bv = d -> length nv = d ->
  grid_prep_opts (GVec av) (GVec bv) (GVec nv) (Some (Z.of_nat d)) None = Ok (P1 av, P1 bv, P1 nv).
Proof.
  intros <- Hb Hn. unfold grid_prep_opts, opts_step.
  do 4 (cbn [rbind]; rewrite ?Hb, ?Hn, ?Z.eqb_refl). reflexivity.
Qed.
Lemma prep_opts_vec2 (av bv : list T) d : length av = d -> length bv = d ->
  grid_prep_opts (GVec av) (GVec bv) GNone (Some (Z.of_nat d)) None = Ok (P1 av, P1 bv, PNone).
Proof.
  intros <- Hb. unfold grid_prep_opts, opts_step.
  do 4 (cbn [rbind]; rewrite ?Hb, ?Z.eqb_refl). reflexivity.
Qed.

(* per-dimension options of the right length: every coordinate is treated by the scalar formulas *)
Lemma ind_to_poi1_vec I av bv nv kd : kd = KUni \/ kd = KCheb ->
  length av = length I -> length bv = length I -> length nv = length I ->
  ind_to_poi1 K cosf pi I (GVec av) (GVec bv) (GVec nv) kd =
  Ok (tab (length I) (fun k => node K cosf pi kd (nth k av (o0 K)) (nth k bv (o0 K)) (nth k nv 0%Z) (nth k I 0%Z))).
Proof.
  intros Hk Ha Hb Hn. unfold ind_to_poi1. rewrite prep_opts_vec by assumption.
  destruct Hk as [-> | ->]; reflexivity.
Qed.
Lemma poi_scale1_vec X av bv kd : kd <> KBad -> length av = length X -> length bv = length X ->
  poi_scale1 K X (GVec av) (GVec bv) kd =
  Ok (tab (length X) (fun k => scale K kd (nth k av (o0 K)) (nth k bv (o0 K)) (nth k X (o0 K)))).
Proof.
  intros Hk Ha Hb. unfold poi_scale1. rewrite prep_opts_vec2 by assumption.
  destruct kd; try reflexivity. congruence.
Qed.
Lemma poi_to_ind1_vec X av bv nv kd : kd = KUni \/ kd = KCheb ->
  length av = length X -> length bv = length X -> length nv = length X ->
  poi_to_ind1 K fl acosf pi X (GVec av) (GVec bv) (GVec nv) kd =
  Ok (tab (length X) (fun k =>
        poi_to_ind_elem K fl acosf pi kd (nth k av (o0 K)) (nth k bv (o0 K)) (nth k nv 0%Z) (nth k X (o0 K)))).
Proof.
  intros Hk Ha Hb Hn. unfold poi_to_ind1.
  rewrite poi_scale1_vec by (try assumption; destruct Hk as [-> | ->]; discriminate).
  cbn [rbind]. rewrite ?tab_length. rewrite prep_n_eq, Hn, Nat.eqb_refl. cbn [rbind grid_prep_opt].
  assert (R : forall kd', bcast_row K fl acosf pi kd'
                (tab (length X) (fun k => scale K kd' (nth k av (o0 K)) (nth k bv (o0 K)) (nth k X (o0 K)))) nv =
     Ok (tab (length X) (fun k =>
        poi_to_ind_elem K fl acosf pi kd' (nth k av (o0 K)) (nth k bv (o0 K)) (nth k nv 0%Z) (nth k X (o0 K))))).
  { intros kd'. unfold bcast_row. rewrite tab_length, Hn, Nat.eqb_refl. f_equal.
    apply tab_ext. intros k Hlt. rewrite nth_tab by exact Hlt. reflexivity. }
  destruct Hk as [-> | ->]; cbn [arr1 rbind]; apply R.
Qed.
End Elem.

(* ---------------------------------------------------------------- whole multi-indices, at R *)
Local Open Scope R_scope.
(* poi_to_ind (ind_to_poi I) = I for every multi-index of every grid (boxes a_k < b_k, sizes n_k >= 2), both
   kinds, per-dimension options (scalar options are the same by opt_broadcast) *)
Lemma roundtrip_multi I av bv nv kd : kd = KUni \/ kd = KCheb ->
  length av = length I -> length bv = length I -> length nv = length I ->
  (forall k, (k < length I)%nat ->
     nth k av 0 < nth k bv 0 /\ (2 <= nth k nv 0)%Z /\ (0 <= nth k I 0 <= nth k nv 0 - 1)%Z) ->
  exists X, ind_to_poi1 OR cos PI I (GVec av) (GVec bv) (GVec nv) kd = Ok X /\ length X = length I /\
            (forall k, (k < length I)%nat -> nth k av 0 <= nth k X 0 <= nth k bv 0) /\
            poi_to_ind1 OR Int_part acos PI X (GVec av) (GVec bv) (GVec nv) kd = Ok I.
Proof.
  intros Hk Ha Hb Hn Hwf. rewrite ind_to_poi1_vec by assumption. eexists. split; [reflexivity|].
  split; [apply tab_length|]. split.
  - intros k Hlt. change (o0 OR) with 0. rewrite nth_tab by exact Hlt.
    destruct (Hwf k Hlt) as (H1 & H2 & H3). destruct Hk as [-> | ->].
    + now apply uni_in_box.
    + now apply cheb_in_box.
  - rewrite poi_to_ind1_vec by (rewrite ?tab_length; assumption). rewrite tab_length. f_equal.
    rewrite <- (tab_nth 0%Z I) at 2. apply tab_ext. intros k Hlt. change (o0 OR) with 0.
    rewrite nth_tab by exact Hlt. destruct (Hwf k Hlt) as (H1 & H2 & H3).
    now apply roundtrip.
Qed.
