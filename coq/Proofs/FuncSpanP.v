(* C12: the exactness class.  Every polynomial of degree < n in one variable (monomial coefficients b) is a Chebyshev
   series of length n; hence the coefficient tensors c of C12_interp_exact parametrise ALL polynomials of degree < n_k. *)
From Coq Require Import List Arith Lia PeanoNat ZArith Bool Reals Lra Psatz.
From TV Require Import Num.Ops Lin.Tab Lin.BigSum Lin.Mat TT.Chain Model.Func
  Proofs.FuncP Proofs.FuncTrigP Proofs.FuncExactP Proofs.FuncWeightsP.
Import ListNotations.
Local Open Scope R_scope.

Lemma rsum_single n k f : (k < n)%nat -> (forall i, (i < n)%nat -> i <> k -> f i = 0) -> rsum n f = f k.
Proof. apply (bsum_single OR OR_rng). Qed.
Lemma x_Tn k x : x * Tn (S k) x = (Tn (S (S k)) x + Tn k x) / 2.
Proof. rewrite Tn_SS. field. Qed.
(* multiplication by x maps Chebyshev series of length n to Chebyshev series of length n+1 *)
Lemma mul_x_span : forall n (a : nat -> R), exists a' : nat -> R,
  forall x, x * rsum n (fun k => a k * Tn k x) = rsum (S n) (fun k => a' k * Tn k x).
Proof.
  induction n as [|n IH]; intros a.
  - exists (fun _ => 0). intros x. cbn [bsum]. ror. ring.
  - destruct (IH a) as (a' & Ha'). destruct n as [|p].
    + exists (fun k => if Nat.eqb k 1 then a O else 0). intros x. cbn [bsum Nat.eqb]. ror. rewrite Tn_0, Tn_1. ring.
    + exists (fun k => (if (k <? S (S p))%nat then a' k else 0) + (if Nat.eqb k p then a (S p) / 2 else 0)
                        + (if Nat.eqb k (S (S p)) then a (S p) / 2 else 0)).
      intros x. rewrite (rsum_S (S p)), Rmult_plus_distr_l, Ha'.
      rewrite (rsum_ext (S (S (S p))) _ (fun k => (if (k <? S (S p))%nat then a' k else 0) * Tn k x
                 + ((if Nat.eqb k p then a (S p) / 2 else 0) * Tn k x
                 + (if Nat.eqb k (S (S p)) then a (S p) / 2 else 0) * Tn k x))) by (intros; ring).
      rewrite !rsum_plus.
      rewrite (rsum_single (S (S (S p))) p (fun k => (if Nat.eqb k p then a (S p) / 2 else 0) * Tn k x)),
              (rsum_single (S (S (S p))) (S (S p)) (fun k => (if Nat.eqb k (S (S p)) then a (S p) / 2 else 0) * Tn k x)); try lia.
      * cbv beta. rewrite !Nat.eqb_refl. rewrite (rsum_S (S (S p))). rewrite Nat.ltb_irrefl.
        rewrite (rsum_ext (S (S p)) (fun k => (if (k <? S (S p))%nat then a' k else 0) * Tn k x) (fun k => a' k * Tn k x)).
        2:{ intros k Hk. destruct (Nat.ltb_spec k (S (S p))); [reflexivity|lia]. }
        replace (x * (a (S p) * Tn (S p) x)) with (a (S p) * (x * Tn (S p) x)) by ring. rewrite x_Tn. field.
      * intros i Hi Hne. destruct (Nat.eqb_spec i (S (S p))); [lia|ring].
      * intros i Hi Hne. destruct (Nat.eqb_spec i p); [lia|ring].
Qed.
(* sum_{q<n} b_q x^q = sum_{k<n} c_k T_k(x) for suitable c *)
Theorem poly_cheb_span : forall n (b : nat -> R), exists c : nat -> R,
  forall x, rsum n (fun q => b q * x ^ q) = rsum n (fun k => c k * chebT OR x k).
Proof.
  induction n as [|n IH]; intros b.
  - exists (fun _ => 0). reflexivity.
  - destruct (IH (fun q => b (S q))) as (c & Hc). destruct (mul_x_span n c) as (c' & Hc').
    exists (fun k => c' k + (if Nat.eqb k O then b O else 0)). intros x.
    rewrite (bsum_S_l OR OR_rng). ror.
    rewrite (rsum_ext n (fun i => b (S i) * x ^ S i) (fun i => x * (b (S i) * x ^ i))) by (intros; cbn [pow]; ring).
    rewrite rsum_scal, Hc. fold (Tn O x). unfold Tn in Hc'. rewrite Hc'.
    rewrite (rsum_ext (S n) (fun k => (c' k + (if Nat.eqb k O then b O else 0)) * chebT OR x k)
               (fun k => c' k * chebT OR x k + (if Nat.eqb k O then b O else 0) * chebT OR x k)) by (intros; ring).
    rewrite rsum_plus. rewrite (rsum_single (S n) O (fun k => (if Nat.eqb k O then b O else 0) * chebT OR x k)); try lia.
    + cbn [Nat.eqb pow]. change (chebT OR x 0) with 1. ring.
    + intros i Hi Hne. destruct (Nat.eqb_spec i O); [lia|ring].
Qed.

(* d variables: products of one-variable polynomials (monomial coefficients, degree < n_k in x_k) and their sums *)
Fixpoint prodpoly (ns : list nat) (t : list (nat -> R)) (xi : list R) : R :=
  match ns, t, xi with
  | n :: ns', b :: t', x :: xi' => rsum n (fun q => b q * x ^ q) * prodpoly ns' t' xi'
  | _, _, _ => 1
  end.
Definition sumprod (ns : list nat) (terms : list (list (nat -> R))) (xi : list R) : R :=
  fold_right (fun t acc => prodpoly ns t xi + acc) 0 terms.
Lemma prod_cheb_span : forall ns t, length t = length ns -> exists c : list nat -> R,
  forall xi, length xi = length ns -> polyv OR ns c xi = prodpoly ns t xi.
Proof.
  induction ns as [|n ns IH]; intros [|b t] L; cbn [length] in L; try discriminate.
  - exists (fun _ => 1). intros [|x xi] Lx; cbn [length] in Lx; try discriminate. unfold polyv. cbn [msum tprod prodpoly]. ror. ring.
  - destruct (IH t ltac:(lia)) as (c' & Hc'). destruct (poly_cheb_span n b) as (c1 & Hc1).
    exists (fun m => match m with j :: m' => c1 j * c' m' | [] => 0 end).
    intros [|x xi] Lx; cbn [length] in Lx; try discriminate. unfold polyv. cbn [msum prodpoly].
    rewrite Hc1, <- (Hc' xi) by lia. unfold polyv. rewrite <- (bsum_mul_r OR OR_rng). apply rsum_ext; intros j Hj.
    ror. rewrite <- (msum_mul_l OR OR_rng). apply (msum_ext OR); intros m' Hm. cbn [tprod]. ror. ring.
Qed.
(* the exactness class of C12_interp_exact contains every sum of products of one-variable polynomials of degree < n_k *)
Theorem exactness_class ns (terms : list (list (nat -> R))) :
  Forall (fun t => length t = length ns) terms -> exists c : list nat -> R,
  forall xi, length xi = length ns -> polyv OR ns c xi = sumprod ns terms xi.
Proof.
  induction 1 as [|t terms Ht HF (c & Hc)].
  - exists (fun _ => 0). intros xi _. unfold polyv, sumprod. cbn [fold_right].
    rewrite (msum_ext OR ns _ (fun _ => 0)) by (intros; ror; ring). apply (msum_0 OR OR_rng).
  - destruct (prod_cheb_span ns t Ht) as (c1 & Hc1). exists (fun m => c1 m + c m). intros xi Lx.
    unfold sumprod. cbn [fold_right]. fold (sumprod ns terms xi). rewrite <- Hc, <- Hc1 by auto. unfold polyv.
    rewrite <- (msum_add OR OR_rng). apply (msum_ext OR); intros m Hm. ror. ring.
Qed.

Lemma affs_length : forall x a b, length a = length x -> length b = length x -> length (affs x a b) = length x.
Proof.
  induction x as [|xk x IH]; intros [|ak a] [|bk b] La Lb; cbn [length] in *; try discriminate; auto.
  cbn [affs length]. f_equal. apply IH; lia.
Qed.
(* on a box: the polynomial functions  x |-> sum_t prod_k p_{t,k}(scaled x_k)  are all of the form cpoly ns c a b *)
Theorem exactness_class_box ns (terms : list (list (nat -> R))) a b :
  Forall (fun t => length t = length ns) terms -> length a = length ns -> length b = length ns ->
  exists c : list nat -> R, forall x, length x = length ns -> cpoly ns c a b x = sumprod ns terms (affs x a b).
Proof.
  intros HF La Lb. destruct (exactness_class ns terms HF) as (c & Hc). exists c. intros x Lx. unfold cpoly.
  apply Hc. rewrite affs_length; lia.
Qed.
