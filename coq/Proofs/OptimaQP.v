(* Lemmas about Model/Optima.v (C15), part 4: optima_qtt = optima_tt on the quantised tensor, indices mapped back. *)
From Coq Require Import List Arith Lia PeanoNat ZArith Bool Permutation Reals Lra Psatz.
From TV Require Import Num.Ops Lin.Tab Lin.BigSum Lin.Mat TT.Chain Model.ActOne Model.GridInd Model.Optima
  Proofs.ActOneP Proofs.ActOneP2 Proofs.ActOneP3 Proofs.GridIndP Proofs.OptimaP Proofs.OptimaP2 Proofs.OptimaRP.
Import ListNotations.

Lemma inb_repeat n d idx : inb (repeat n d) idx <-> length idx = d /\ Forall (fun i => i < n) idx.
Proof.
  unfold inb. revert idx; induction d as [|d IH]; intros idx; cbn [repeat].
  - split; [intros H; inversion H; auto|intros [H _]; destruct idx; [constructor|discriminate]].
  - split.
    + intros H. inversion H as [|i ? idx' ? Hi H']; subst. apply IH in H' as [L F]. cbn [length]. auto.
    + intros [L F]. destruct idx as [|i idx']; [discriminate|]. inversion F; subst. constructor; auto.
      apply IH. cbn [length] in L. auto.
Qed.
Lemma nel_repeat n d : nel (repeat n d) = n ^ d.
Proof. unfold nel. induction d; cbn [repeat fold_right Nat.pow]; [reflexivity|]. now rewrite IHd. Qed.
Lemma forallb_eq_repeat n d : forallb (Nat.eqb (hd O (repeat n d))) (tl (repeat n d)) = true.
Proof.
  destruct d; [reflexivity|]. cbn [repeat hd tl]. apply forallb_forall. intros x Hx.
  apply repeat_spec in Hx. subst. apply Nat.eqb_refl.
Qed.
Lemma Forall_repeat {A} (Pr : A -> Prop) x d : Pr x -> Forall Pr (repeat x d).
Proof. intros H. apply Forall_forall. intros y Hy. apply repeat_spec in Hy. now subst. Qed.

Section Qtt.
Variable argsort : nat -> list R -> list nat.
Hypothesis AO : argsort_ok argsort.
Variable orth : nat -> list (core R) -> nat -> list (core R) * Z.
Hypothesis OO : orth_ok orth.
Variable pow2frac : Z -> nat -> R.
Variable droot : R -> nat -> R.
Variable to_qtt : list (core R) -> list (core R).

(* contract of the call teneva.tt_to_qtt(Y, e, r) on a tensor of shape [2^q]*d (C17): d*q modes of size 2, and the entry
   at a bit string is the entry of Y at the multi-index the bit string maps back to *)
Definition qtt_ok_at (Y : list (core R)) (q d : nat) : Prop :=
  chain 1 (to_qtt Y) 1 /\ shape (to_qtt Y) = repeat 2 (d * q) /\
  forall b idx, inb (shape (to_qtt Y)) b -> ind_qtt_to_tt1 q b = Ok idx -> get OR (to_qtt Y) b = get OR Y idx.

Lemma back_ok q d b : 1 <= q -> inb (repeat 2 (d * q)) b ->
  exists idx, ind_qtt_to_tt1 q b = Ok idx /\ inb (repeat (2 ^ q) d) idx.
Proof.
  intros Hq Hb. apply inb_repeat in Hb as [L F].
  destruct (qtt_tt_qtt q d b Hq L F) as (idx & E & Ld & Fd & _). exists idx. split; [exact E|].
  apply inb_repeat. auto.
Qed.

Lemma qtt_good (Y : list (core R)) q d : qtt_ok_at Y q d -> good Y -> shape Y = repeat (2 ^ q) d -> 1 <= q -> good (to_qtt Y).
Proof.
  intros QO (HC & Hd & Hn) HS Hq. destruct QO as (A & B & _). split; [exact A|]. split.
  - rewrite <- shape_length, B, repeat_length. rewrite <- shape_length, HS, repeat_length in Hd. nia.
  - rewrite B. apply Forall_repeat. lia.
Qed.

(* qtt_agrees: the result of optima_qtt is that of optima_tt on the quantised tensor with both indices mapped back
   through ind_qtt_to_tt; the indices are in the bounds of Y, the values are the entries of Y there, min <= max *)
Theorem qtt_agrees co cs (Y : list (core R)) q d k : qtt_ok_at Y q d -> good Y -> shape Y = repeat (2 ^ q) d -> 1 <= q -> 1 <= k ->
  let rq := optima_tt OR argsort orth pow2frac droot co cs (to_qtt Y) k in
  exists jmin jmax,
    optima_qtt OR argsort orth pow2frac droot to_qtt co cs Y k = Ok (jmin, get OR Y jmin, jmax, get OR Y jmax) /\
    ind_qtt_to_tt1 q (r_imin rq) = Ok jmin /\ ind_qtt_to_tt1 q (r_imax rq) = Ok jmax /\
    inb (shape Y) jmin /\ inb (shape Y) jmax /\
    get OR Y jmin = r_ymin rq /\ get OR Y jmax = r_ymax rq /\ (get OR Y jmin <= get OR Y jmax)%R.
Proof.
  intros QO HG HS Hq Hk rq. pose proof (qtt_good Y q d QO HG HS Hq) as GZ.
  destruct HG as (HC & Hd & Hn). destruct QO as (A & B & V).
  destruct (optima_tt_values argsort AO orth OO pow2frac droot co cs (to_qtt Y) k GZ Hk) as (I1 & I2 & V1 & V2 & LE).
  fold rq in I1, I2, V1, V2, LE.
  assert (I1' := I1). assert (I2' := I2). rewrite B in I1', I2'.
  destruct (back_ok q d _ Hq I1') as (jmin & E1 & J1). destruct (back_ok q d _ Hq I2') as (jmax & E2 & J2).
  rewrite <- HS in J1, J2.
  exists jmin, jmax. split.
  - unfold optima_qtt. rewrite HS, forallb_eq_repeat. cbn [negb].
    assert (Hd' : 1 <= d) by (rewrite <- shape_length, HS, repeat_length in Hd; lia).
    destruct d as [|d']; [lia|]. cbn [repeat hd]. rewrite log2_exact_pow. destruct q as [|q']; [lia|].
    fold rq. destruct rq as [[[a b] c] e]. unfold r_imin, r_imax in E1, E2. cbn [fst snd] in E1, E2.
    rewrite E1. cbn [rbind]. rewrite E2. cbn [rbind]. cbv zeta.
    assert (LEY : (get OR Y jmin <= get OR Y jmax)%R).
    { unfold r_ymin, r_ymax, r_imin, r_imax in *. cbn [fst snd] in *. rewrite <- (V _ _ I1 E1), <- (V _ _ I2 E2), <- V1, <- V2. exact LE. }
    change (oltb OR (get OR Y jmax) (get OR Y jmin)) with (Rltb (get OR Y jmax) (get OR Y jmin)).
    destruct (Rltb (get OR Y jmax) (get OR Y jmin)) eqn:EL; [apply Rltb_true in EL; exfalso; apply (Rlt_irrefl (get OR Y jmin)); eapply Rle_lt_trans; eauto|reflexivity].
  - split; [exact E1|]. split; [exact E2|]. split; [exact J1|]. split; [exact J2|].
    rewrite <- (V _ _ I1 E1), <- (V _ _ I2 E2), <- V1, <- V2. auto.
Qed.

(* k at least the number of elements: the quantised variant reports the true minimum and maximum of Y *)
Theorem optima_qtt_exact_full co cs (Y : list (core R)) q d k :
  (forall p e, pow2frac p e <> 0%R) -> droot_ok droot -> qtt_ok_at Y q d ->
  good Y -> shape Y = repeat (2 ^ q) d -> 1 <= q -> nel (shape Y) <= k ->
  exists jmin jmax,
    optima_qtt OR argsort orth pow2frac droot to_qtt co cs Y k = Ok (jmin, get OR Y jmin, jmax, get OR Y jmax) /\
    inb (shape Y) jmin /\ inb (shape Y) jmax /\
    forall idx, inb (shape Y) idx -> (get OR Y jmin <= get OR Y idx <= get OR Y jmax)%R.
Proof.
  intros P2 HD QO HG HS Hq Hk. pose proof (qtt_good Y q d QO HG HS Hq) as GZ.
  assert (Hk1 : 1 <= k) by (destruct HG as (_ & _ & Hn); pose proof (nel_pos _ Hn); lia).
  destruct (qtt_agrees co cs Y q d k QO HG HS Hq Hk1) as (jmin & jmax & E & _ & _ & J1 & J2 & W1 & W2 & _).
  exists jmin, jmax. split; [exact E|]. split; [exact J1|]. split; [exact J2|].
  destruct HG as (HC & Hd & Hn). destruct QO as (A & B & V).
  assert (HN : nel (shape (to_qtt Y)) <= k).
  { rewrite B, nel_repeat. rewrite HS, nel_repeat in Hk. rewrite Nat.mul_comm, Nat.pow_mul_r. exact Hk. }
  pose proof (optima_tt_exact_full argsort AO orth OO pow2frac P2 droot co cs (to_qtt Y) k GZ HD HN) as X. cbv zeta in X.
  intros idx Hi. rewrite HS in Hi. apply inb_repeat in Hi as [L F].
  destruct (tt_qtt_tt q idx Hq F) as (b & _ & Lb & Fb & Eb).
  assert (Ib : inb (shape (to_qtt Y)) b) by (rewrite B; apply inb_repeat; rewrite Lb, L; auto).
  specialize (X b Ib). rewrite (V b idx Ib Eb) in X. rewrite W1, W2. exact X.
Qed.

(* ordering and values for EVERY quantisation (no contract on to_qtt: coarse e, rank caps): whenever optima_qtt returns, the
   reported values are the entries of Y at the reported indices and the reported minimum does not exceed the reported maximum *)
Theorem optima_qtt_ordered co cs (Y : list (core R)) k res :
  optima_qtt OR argsort orth pow2frac droot to_qtt co cs Y k = Ok res ->
  r_ymin res = get OR Y (r_imin res) /\ r_ymax res = get OR Y (r_imax res) /\ (r_ymin res <= r_ymax res)%R.
Proof.
  unfold optima_qtt. destruct (negb _); [discriminate|]. destruct (log2_exact _) as [[|q]|]; try discriminate.
  destruct (optima_tt OR argsort orth pow2frac droot co cs (to_qtt Y) k) as [[[a b] c] d].
  destruct (ind_qtt_to_tt1 (S q) a) as [ja|]; cbn [rbind]; [|discriminate].
  destruct (ind_qtt_to_tt1 (S q) c) as [jc|]; cbn [rbind]; [|discriminate]. cbv zeta.
  change (oltb OR (get OR Y jc) (get OR Y ja)) with (Rltb (get OR Y jc) (get OR Y ja)).
  destruct (Rltb (get OR Y jc) (get OR Y ja)) eqn:E; intros H; inversion H; subst; unfold r_ymin, r_ymax, r_imin, r_imax; cbn [fst snd];
    [apply Rltb_true in E|apply Rltb_false in E]; repeat split; lra.
Qed.

(* rejected shapes: unequal mode sizes, or a mode size that is not a power of two, or mode size 1 *)
Theorem optima_qtt_rejects co cs (Y : list (core R)) k :
  (exists n, In n (tl (shape Y)) /\ n <> hd O (shape Y)) \/ (forall q, hd O (shape Y) <> 2 ^ q) \/ hd O (shape Y) = 1 ->
  optima_qtt OR argsort orth pow2frac droot to_qtt co cs Y k = Err ValueError.
Proof.
  intros H. unfold optima_qtt.
  destruct (forallb (Nat.eqb (hd O (shape Y))) (tl (shape Y))) eqn:E; cbn [negb]; [|reflexivity].
  destruct H as [(n & Hin & Hne)|[H|H]].
  - rewrite forallb_forall in E. apply E in Hin. apply Nat.eqb_eq in Hin. congruence.
  - now rewrite (log2_exact_none _ H).
  - rewrite H. reflexivity.
Qed.
End Qtt.
