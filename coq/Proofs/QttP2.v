(* C17: core_tt_to_qtt / tt_to_qtt denote the same tensor at the binary expansion of the multi-index, given that
   every truncated factorisation is exact (U V = A); bonds between modes keep the TT-ranks, bonds inside a mode are
   the inner sizes of the factorisations.  Any commutative ring. *)
From Coq Require Import List Arith Lia PeanoNat ZArith Bool.
From TV Require Import Num.Ops Lin.Tab Lin.BigSum Lin.Mat TT.Chain Model.GridInd Proofs.GridIndP Model.Qtt Proofs.QttP.
Import ListNotations.

Section QttP2.
Context {T : Type} (K : ops T).
Notation "0" := (o0 K). Notation "1" := (o1 K).
Infix "+" := (oadd K). Infix "*" := (omul K).
Hypothesis Rth : rng K.
Add Ring RrQtt2 : Rth.

Notation vstep := (vstep K).
Notation run := (run K).
Notation get := (get K).
Notation mget := (mget K).
Notation cget := (cget K).
Notation dget := (dget K).

(* contract of one truncated factorisation when nothing is cut: A = U V *)
Definition fac_ok (A U V : mat T) : Prop :=
  mr U = mr A /\ mc V = mc A /\ mc U = mr V /\
  forall i j, (i < mr A)%nat -> (j < mc A)%nat -> bsum K (mc U) (fun c => mget U i c * mget V c j) = mget A i j.

(* the contract is satisfiable in every ring: A = A * Id *)
Lemma fac_ok_id A : fac_ok A A (mid K (mc A)).
Proof.
  unfold fac_ok. repeat split; auto. intros i j Hi Hj. rewrite (bsum_single K Rth (mc A) j); auto.
  - rewrite (mget_mid K), Nat.eqb_refl by auto. ring.
  - intros c Hc Hne. rewrite (mget_mid K) by auto. destruct (Nat.eqb_spec c j); [contradiction|ring].
Qed.

(* ---- small facts ---- *)
Lemma unbits_snoc l j : unbits_le (l ++ [j]) = (unbits_le l + 2 ^ length l * j)%nat.
Proof. induction l as [|b l IH]; cbn [app unbits_le length Nat.pow]; [lia|]. rewrite IH. lia. Qed.
Lemma snoc_inv {A} (l : list A) k : length l = S k -> exists l' x, l = l' ++ [x] /\ length l' = k.
Proof.
  intros L. destruct (exists_last (l := l)) as (l' & x & ->). { intros ->. discriminate. }
  exists l', x. split; auto. rewrite app_length in L. simpl in L. lia.
Qed.
Lemma Forall_snoc {A} (P : A -> Prop) l x : Forall P (l ++ [x]) <-> Forall P l /\ P x.
Proof. rewrite Forall_app. split; intros [H1 H2]; split; auto. now inversion H2. Qed.
(* open-chain entry of a chain extended by one core on the right *)
Lemma dget_snoc (Y : list (core T)) G idx j r rm a b : wfo r Y idx rm -> cr1 G = rm -> (j < cn G)%nat ->
  (a < r)%nat -> (b < cr2 G)%nat ->
  dget (Y ++ [G]) (idx ++ [j]) r a b = bsum K rm (fun x => dget Y idx r a x * cget G x j b).
Proof.
  intros Hw Hr Hj Ha Hb. unfold Chain.dget. rewrite run_app by (eapply wfo_length; eauto).
  cbn [Chain.run]. rewrite nth_vstep by auto. now rewrite Hr.
Qed.
Lemma wfo_snoc (Y : list (core T)) G idx j r rm : wfo r Y idx rm -> cr1 G = rm -> (j < cn G)%nat ->
  wfo r (Y ++ [G]) (idx ++ [j]) (cr2 G).
Proof.
  revert r idx; induction Y as [|H Y IH]; intros r [|i idx]; cbn [app wfo]; try tauto.
  - intros -> Hr Hj. auto.
  - intros (A & B & C) Hr Hj. repeat split; auto.
Qed.
Lemma dget_nil r a b : (a < r)%nat -> dget [] [] r a b = if Nat.eqb b a then 1 else 0.
Proof.
  intros Ha. unfold Chain.dget. cbn [Chain.run].
  destruct (Nat.lt_ge_cases b r) as [Hb|Hb].
  - rewrite nth_evec by auto. rewrite (Nat.eqb_sym b a). reflexivity.
  - rewrite nth_overflow by (rewrite evec_length; lia). destruct (Nat.eqb_spec b a); [lia|reflexivity].
Qed.

(* ---- the halving step ---- *)
Lemma mr_halve A : mr (halve K A) = (mr A / 2)%nat. Proof. reflexivity. Qed.
Lemma mc_halve A : mc (halve K A) = (2 * mc A)%nat. Proof. reflexivity. Qed.
Lemma mget_halve A p j x : (p < mr A / 2)%nat -> (j < 2)%nat -> (x < mc A)%nat ->
  mget (halve K A) p (j * mc A + x) = mget A (p + (mr A / 2) * j) x.
Proof.
  intros Hp Hj Hx. unfold halve. rewrite mget_mk by nia.
  destruct j as [|[|j]]; [| |lia].
  - rewrite Nat.mul_0_l, Nat.add_0_l, Nat.mul_0_r, Nat.add_0_r. destruct (Nat.ltb_spec x (mc A)); [reflexivity|lia].
  - rewrite Nat.mul_1_l, Nat.mul_1_r. destruct (Nat.ltb_spec (mc A + x) (mc A)); [lia|].
    f_equal; lia.
Qed.

Section Loop.
Variable msvd : nat -> mat T -> mat T * mat T.
Hypothesis Hsvd : forall c A, fac_ok A (fst (msvd c A)) (snd (msvd c A)).

(* invariant of the halving loop: H = number of rows that remain at the end *)
Lemma qtt_loop_spec H : (0 < H)%nat -> forall k c A acc Ys A',
  mr A = (H * 2 ^ k)%nat -> qtt_loop K msvd k c A acc = (Ys, A') ->
  exists Cs, Ys = acc ++ Cs /\ length Cs = k /\ mr A' = H /\
    chain (mc A') (rev Cs) (mc A) /\ Forall (fun G => cn G = 2%nat) Cs /\
    (forall rmax, (forall c0 B, mc (fst (msvd c0 B)) <= rmax)%nat -> (mc A <= rmax)%nat ->
       Forall (fun C => cr1 C <= rmax)%nat Cs /\ (mc A' <= rmax)%nat) /\
    forall p h b, (p < H)%nat -> length h = k -> Forall (fun x => x < 2)%nat h -> (b < mc A)%nat ->
      mget A (p + H * unbits_le h) b = bsum K (mc A') (fun c => mget A' p c * dget (rev Cs) h (mc A') c b).
Proof.
  intros HH. induction k as [|k IH]; intros c A acc Ys A' HA E.
  - cbn [qtt_loop] in E. inversion E; subst Ys A'. exists []. rewrite app_nil_r. cbn [Nat.pow] in HA.
    split; [reflexivity|]. split; [reflexivity|]. split; [lia|]. split; [reflexivity|]. split; [constructor|].
    split; [intros rmax _ Hm; split; [constructor|exact Hm]|].
    intros p h b Hp Lh _ Hb. destruct h; [|discriminate]. cbn [unbits_le rev]. rewrite Nat.mul_0_r, Nat.add_0_r.
    rewrite (bsum_single K Rth (mc A) b); auto.
    + rewrite dget_nil, Nat.eqb_refl by auto. ring.
    + intros x Hx Hne. rewrite dget_nil by auto. destruct (Nat.eqb_spec b x); [congruence|ring].
  - cbn [qtt_loop] in E. destruct (msvd c (halve K A)) as [A1 V] eqn:Em.
    pose proof (Hsvd c (halve K A)) as Hf. rewrite Em in Hf. cbn [fst snd] in Hf.
    destruct Hf as (F1 & F2 & F3 & F4). rewrite mr_halve in F1, F4. rewrite mc_halve in F2, F4.
    assert (Hhalf : (mr A / 2 = H * 2 ^ k)%nat).
    { rewrite HA, Nat.pow_succ_r'. replace (H * (2 * 2 ^ k))%nat with ((H * 2 ^ k) * 2)%nat by lia.
      now rewrite Nat.div_mul by lia. }
    destruct (IH (S c) A1 (acc ++ [core_of_V K V (mc A)]) Ys A') as (Cs' & EY & LC & HA' & Hch & H2 & Hrk & Hden); auto.
    { congruence. }
    exists (core_of_V K V (mc A) :: Cs'). rewrite EY, <- app_assoc. cbn [app].
    split; [reflexivity|]. split; [cbn [length]; now rewrite LC|]. split; [exact HA'|].
    split.
    { cbn [rev]. apply chain_app. exists (mc A1). split; [exact Hch|]. cbn [chain]. split; [cbn; auto|]. reflexivity. }
    split; [constructor; [reflexivity|exact H2]|].
    split.
    { intros rmax Hcap Hm. assert (HA1 : (mc A1 <= rmax)%nat).
      { pose proof (Hcap c (halve K A)) as Hc1. rewrite Em in Hc1. exact Hc1. }
      destruct (Hrk rmax Hcap HA1) as [R1 R2]. split; [|exact R2].
      constructor; [|exact R1]. cbn [core_of_V cr1 mkcore]. rewrite <- F3. exact HA1. }
    intros p h b Hp Lh Hh Hb.
    destruct (snoc_inv h k Lh) as (h' & j & -> & Lh').
    apply Forall_snoc in Hh as [Hh' Hj].
    rewrite unbits_snoc, Lh'.
    set (p' := (p + H * unbits_le h')%nat).
    assert (Hp' : (p' < H * 2 ^ k)%nat).
    { unfold p'. pose proof (unbits_lt h' Hh') as U. rewrite Lh' in U. nia. }
    replace (p + H * (unbits_le h' + 2 ^ k * j))%nat with (p' + (mr A / 2) * j)%nat by (unfold p'; rewrite Hhalf; lia).
    rewrite <- (mget_halve A p' j b) by (rewrite ?Hhalf; auto).
    rewrite <- F4 by (rewrite ?Hhalf; auto; nia).
    (* expand A1 through the induction hypothesis *)
    rewrite (bsum_ext K (mc A1) _ (fun x => bsum K (mc A') (fun c0 =>
              mget A' p c0 * (dget (rev Cs') h' (mc A') c0 x * mget V x (j * mc A + b))))).
    2:{ intros x Hx. unfold p'. rewrite (Hden p h' x Hp Lh' Hh' Hx). rewrite <- bsum_mul_r by auto.
        apply bsum_ext; intros c0 Hc0. ring. }
    rewrite bsum_swap by auto. apply bsum_ext; intros c0 Hc0.
    rewrite bsum_mul_l by auto. f_equal. cbn [rev].
    assert (Hw : wfo (mc A') (rev Cs') h' (mc A1)).
    { apply wfo_chain_inb. split; [exact Hch|]. unfold inb.
      assert (Es : shape (rev Cs') = repeat 2%nat k).
      { rewrite (shape_twos (rev Cs')) by (apply Forall_rev; exact H2). now rewrite rev_length, LC. }
      rewrite Es. clear - Hh' Lh'. revert k Lh'. induction Hh' as [|x h' Hx _ IHh]; intros k Lk; destruct k; try discriminate.
      - constructor.
      - cbn [repeat]. constructor; [exact Hx|]. apply IHh. simpl in Lk. lia. }
    rewrite (dget_snoc (rev Cs') (core_of_V K V (mc A)) h' j (mc A') (mc A1) c0 b Hw); auto.
    apply bsum_ext; intros x Hx. f_equal. unfold core_of_V. rewrite cget_mk by (try lia; auto). reflexivity.
Qed.
End Loop.

(* ---- multiplying the last core of a chain by a matrix ---- *)
Lemma vstep_mulV w C V0 j b : cr2 C = mr V0 -> (j < cn C)%nat -> (b < mc V0)%nat ->
  nth b (vstep w (core_mulV K C V0) j) 0 = bsum K (cr2 C) (fun x => nth x (vstep w C j) 0 * mget V0 x b).
Proof.
  intros Hr Hj Hb. rewrite nth_vstep by (cbn; auto). cbn [cr1 core_mulV mkcore].
  rewrite (bsum_ext K (cr1 C) _ (fun a => bsum K (cr2 C) (fun x => nth a w 0 * (cget C a j x * mget V0 x b)))).
  2:{ intros a Ha. unfold core_mulV. rewrite cget_mk by auto. now rewrite bsum_mul_l by auto. }
  rewrite bsum_swap by auto. apply bsum_ext; intros x Hx. rewrite nth_vstep by auto.
  rewrite <- bsum_mul_r by auto. apply bsum_ext; intros a Ha. ring.
Qed.
Lemma run_mul_last V0 Y0 b : cr2 Y0 = mr V0 -> (b < mc V0)%nat -> forall (W : list (core T)) v idx r,
  wfo r (W ++ [Y0]) idx (cr2 Y0) ->
  nth b (run v (W ++ [core_mulV K Y0 V0]) idx) 0 =
  bsum K (cr2 Y0) (fun x => nth x (run v (W ++ [Y0]) idx) 0 * mget V0 x b).
Proof.
  intros Hr Hb. induction W as [|G W IH]; intros v idx r Hw.
  - destruct idx as [|j [|? ?]]; cbn [app wfo] in Hw; try tauto. destruct Hw as (_ & Hj & _).
    cbn [app Chain.run]. now apply vstep_mulV.
  - destruct idx as [|i idx]; cbn [app wfo] in Hw; try tauto. destruct Hw as (_ & _ & Hw).
    cbn [app Chain.run]. eapply IH; eauto.
Qed.
Lemma chain_mul_last V0 Y0 (W : list (core T)) r : chain r (W ++ [Y0]) (cr2 Y0) -> chain r (W ++ [core_mulV K Y0 V0]) (mc V0).
Proof.
  revert r; induction W as [|G W IH]; intros r; cbn [app chain]; [intros [H _]; split; auto|].
  intros [H1 H2]. split; auto.
Qed.

Section CoreConv.
Variable msvd : nat -> mat T -> mat T * mat T.
Hypothesis Hsvd : forall c A, fac_ok A (fst (msvd c A)) (snd (msvd c A)).

Lemma mget_unfold_rows G a i b : (a < cr1 G)%nat -> (i < cn G)%nat -> (b < cr2 G)%nat ->
  mget (unfold_rows K G) (a + cr1 G * i) b = cget G a i b.
Proof.
  intros Ha Hi Hb. unfold unfold_rows. rewrite mget_mk by (auto; nia).
  rewrite (Nat.mul_comm (cr1 G) i), Nat.mod_add, Nat.div_add by lia.
  now rewrite Nat.mod_small, Nat.div_small by auto.
Qed.

Theorem core_tt_to_qtt_spec G k : cn G = (2 ^ S k)%nat -> (0 < cr1 G)%nat ->
  exists Z, core_tt_to_qtt K msvd G = Ok Z /\ length Z = S k /\ chain (cr1 G) Z (cr2 G) /\
    Forall (fun Q => cn Q = 2%nat) Z /\
    (forall rmax, (forall c0 B, mc (fst (msvd c0 B)) <= rmax)%nat -> Forall (fun Q => cr1 Q <= rmax)%nat (tl Z)) /\
    forall v i, length v = cr1 G -> (i < 2 ^ S k)%nat -> vstep v G i = run v Z (bits_le (S k) i).
Proof.
  intros Hn Hr1. unfold core_tt_to_qtt. rewrite Hn, log2_exact_pow.
  destruct (msvd O (unfold_rows K G)) as [A0 V0] eqn:E0.
  pose proof (Hsvd O (unfold_rows K G)) as Hf. rewrite E0 in Hf. cbn [fst snd] in Hf.
  destruct Hf as (F1 & F2 & F3 & F4). cbn [unfold_rows mr mc mkmat] in F1, F2, F4.
  replace (S k - 1)%nat with k by lia.
  destruct (qtt_loop K msvd k 1 A0 []) as [Ys A] eqn:EL.
  destruct (qtt_loop_spec msvd Hsvd (2 * cr1 G) ltac:(lia) k 1 A0 [] Ys A) as (Cs & EY & LC & HA & Hch & H2 & Hrk & Hden); auto.
  { rewrite F1, Hn, Nat.pow_succ_r'. lia. }
  cbn [app] in EY. subst Ys. cbn [Nat.eqb].
  set (L := core_of_A K A (cr1 G)).
  (* the full chain before V0 is folded in: L :: rev Cs = W ++ [Y0] *)
  assert (Hsplit : exists W Y0, L :: rev Cs = W ++ [Y0] /\
            match Cs ++ [L] with [] => Err IndexError | Y0' :: rest => Ok (rev (core_mulV K Y0' V0 :: rest)) end
            = Ok (W ++ [core_mulV K Y0 V0])).
  { destruct Cs as [|C1 Cs'']; cbn [app rev].
    - exists [], L. split; reflexivity.
    - exists (L :: rev Cs''), C1. split; [reflexivity|]. cbn [rev]. now rewrite rev_app_distr. }
  destruct Hsplit as (W & Y0 & EW & ->).
  assert (HchF : chain (cr1 G) (L :: rev Cs) (mc A0)).
  { cbn [chain]. split; [reflexivity|]. exact Hch. }
  assert (H2F : Forall (fun Q => cn Q = 2%nat) (L :: rev Cs)).
  { constructor; [reflexivity|]. apply Forall_rev. exact H2. }
  assert (Hlast : cr2 Y0 = mc A0).
  { rewrite EW in HchF. apply chain_app in HchF as (rm & _ & HY). cbn [chain] in HY. tauto. }
  exists (W ++ [core_mulV K Y0 V0]). split; [reflexivity|]. split.
  { rewrite app_length. cbn [length]. assert (length (L :: rev Cs) = S k) by (cbn [length]; rewrite rev_length; lia).
    rewrite EW, app_length in H. cbn [length] in H. lia. }
  split.
  { rewrite <- F2. apply chain_mul_last. rewrite <- EW, Hlast. exact HchF. }
  split.
  { rewrite EW in H2F. apply Forall_app in H2F as [HW HY]. apply Forall_app. split; [exact HW|].
    constructor; [|constructor]. inversion HY; subst. assumption. }
  split.
  { intros rmax Hcap. assert (HA0 : (mc A0 <= rmax)%nat).
    { pose proof (Hcap O (unfold_rows K G)) as Hc0. rewrite E0 in Hc0. exact Hc0. }
    destruct (Hrk rmax Hcap HA0) as [R1 _].
    assert (Em : map (@cr1 T) (W ++ [core_mulV K Y0 V0]) = map (@cr1 T) (L :: rev Cs)).
    { rewrite EW, !map_app. reflexivity. }
    assert (Et : map (@cr1 T) (tl (W ++ [core_mulV K Y0 V0])) = map (@cr1 T) (rev Cs)).
    { destruct W as [|w0 W']; cbn [app tl map] in *; inversion Em; auto. }
    apply Forall_rev in R1.
    apply Forall_forall. intros Q HQ. apply (in_map (@cr1 T)) in HQ. rewrite Et in HQ.
    apply in_map_iff in HQ as (Q' & EQ & HQ'). rewrite <- EQ. exact (proj1 (Forall_forall _ _) R1 Q' HQ'). }
  intros v i Lv Hi.
  apply (list_eq_nth 0).
  { rewrite vstep_length. symmetry. eapply run_length.
    - apply wfo_chain_inb. split.
      + rewrite <- F2. apply chain_mul_last. rewrite <- EW, Hlast. exact HchF.
      + assert (Es : shape (W ++ [core_mulV K Y0 V0]) = repeat 2%nat (S k)).
        { rewrite shape_twos.
          - f_equal. rewrite app_length. cbn [length]. assert (length (L :: rev Cs) = S k) by (cbn [length]; rewrite rev_length; lia).
            rewrite EW, app_length in H. cbn [length] in H. lia.
          - rewrite EW in H2F. apply Forall_app in H2F as [HW HY]. apply Forall_app. split; [exact HW|].
            constructor; [|constructor]. inversion HY; subst. assumption. }
        unfold inb. rewrite Es. clear. revert i. induction (S k) as [|q IH]; intros i; cbn [bits_le repeat]; constructor.
        * apply Nat.mod_upper_bound. lia.
        * apply IH.
    - exact Lv. }
  rewrite vstep_length. intros b Hb.
  (* right-hand side *)
  assert (HwF : wfo (cr1 G) (W ++ [Y0]) (bits_le (S k) i) (cr2 Y0)).
  { rewrite <- EW, Hlast. apply wfo_chain_inb. split; [exact HchF|].
    rewrite (shape_twos _ H2F). cbn [length]. rewrite rev_length, LC.
    unfold inb. clear. revert i. induction (S k) as [|q IH]; intros i; cbn [bits_le repeat]; constructor.
    - apply Nat.mod_upper_bound. lia.
    - apply IH. }
  rewrite (run_mul_last V0 Y0 b) with (r := cr1 G); auto; try lia; try (rewrite F2; exact Hb).
  rewrite <- EW. cbn [bits_le Chain.run]. set (i0 := (i mod 2)%nat). set (h := bits_le k (i / 2)).
  assert (Hi0 : (i0 < 2)%nat) by (apply Nat.mod_upper_bound; lia).
  assert (Lh : length h = k) by apply bits_le_length.
  assert (Hh : Forall (fun x => x < 2)%nat h) by apply bits_le_bit.
  assert (Uh : unbits_le h = (i / 2)%nat).
  { apply unbits_bits. apply Nat.div_lt_upper_bound; [lia|]. rewrite <- Nat.pow_succ_r'. exact Hi. }
  assert (Hwr : wfo (mc A) (rev Cs) h (mc A0)).
  { apply wfo_chain_inb. split; [exact Hch|].
    rewrite (shape_twos (rev Cs)) by (apply Forall_rev; exact H2). rewrite rev_length, LC.
    unfold inb, h. clear. generalize (i / 2)%nat. induction k as [|q IH]; intros m; cbn [bits_le repeat]; constructor.
    - apply Nat.mod_upper_bound. lia.
    - apply IH. }
  rewrite Hlast.
  rewrite (bsum_ext K (mc A0) _ (fun x => bsum K (mc A) (fun c =>
            nth c (vstep v L i0) 0 * dget (rev Cs) h (mc A) c x * mget V0 x b))).
  2:{ intros x Hx. rewrite (run_decomp K Rth (rev Cs) (vstep v L i0) h (mc A) (mc A0) Hwr) by (auto; apply vstep_length).
      now rewrite bsum_mul_r by auto. }
  (* left-hand side *)
  rewrite nth_vstep by auto.
  rewrite (bsum_ext K (cr1 G) _ (fun a => bsum K (mc A0) (fun x => bsum K (mc A) (fun c =>
            nth a v 0 * (cget L a i0 c * dget (rev Cs) h (mc A) c x * mget V0 x b))))).
  2:{ intros a Ha. rewrite <- (mget_unfold_rows G a i b) by (auto; rewrite Hn; exact Hi).
      rewrite <- F4 by (auto; rewrite Hn; nia). rewrite F3. rewrite <- bsum_mul_l by auto.
      rewrite <- F3. apply bsum_ext; intros x Hx.
      assert (Ei : (a + cr1 G * i = (a + cr1 G * i0) + 2 * cr1 G * unbits_le h)%nat).
      { rewrite Uh. unfold i0. pose proof (Nat.div_mod i 2 ltac:(lia)). nia. }
      rewrite Ei, (Hden (a + cr1 G * i0)%nat h x) by (auto; nia).
      rewrite <- bsum_mul_r by auto. rewrite <- bsum_mul_l by auto. apply bsum_ext; intros c Hc.
      unfold L, core_of_A. rewrite cget_mk by auto. reflexivity. }
  (* reorder the three sums *)
  rewrite bsum_swap by auto. apply bsum_ext; intros x Hx.
  rewrite bsum_swap by auto. apply bsum_ext; intros c Hc.
  rewrite nth_vstep by (cbn; auto). cbn [cr1 L core_of_A mkcore].
  rewrite <- !bsum_mul_r by auto. apply bsum_ext; intros a Ha. ring.
Qed.
End CoreConv.

(* ---------------- the whole tensor ---------------- *)
Section TensorConv.
Variable msvd2 : nat -> nat -> mat T -> mat T * mat T.
Hypothesis Hsvd2 : forall k c A, fac_ok A (fst (msvd2 k c A)) (snd (msvd2 k c A)).

Lemma tt_conv_run q : forall (Y : list (core T)) k0 r rl,
  chain r Y rl -> Forall (fun G => cn G = 2 ^ S q /\ 0 < cr1 G)%nat Y ->
  exists Zs, sequence (mapi_from k0 (fun k G => core_tt_to_qtt K (msvd2 k) G) Y) = Ok Zs /\
    length (concat Zs) = (length Y * S q)%nat /\ chain r (concat Zs) rl /\
    Forall (fun Q => cn Q = 2%nat) (concat Zs) /\
    (forall rmax, (forall k c B, mc (fst (msvd2 k c B)) <= rmax)%nat ->
       Forall (fun Zc => Forall (fun Q => cr1 Q <= rmax)%nat (tl Zc)) Zs) /\
    Forall2 (fun G Zc => length Zc = S q /\ chain (cr1 G) Zc (cr2 G)) Y Zs /\
    forall v idx, length v = r -> length idx = length Y -> Forall (fun i => i < 2 ^ S q)%nat idx ->
      run v (concat Zs) (flat_map (bits_le (S q)) idx) = run v Y idx.
Proof.
  induction Y as [|G Y IH]; intros k0 r rl Hc HF.
  - exists []. cbn [mapi_from sequence concat length chain]. repeat split; auto; try constructor.
  - cbn [chain] in Hc. destruct Hc as [Hr Hc]. inversion HF as [|? ? [Hn Hpos] HF']; subst.
    destruct (core_tt_to_qtt_spec (msvd2 k0) (Hsvd2 k0) G q Hn Hpos) as (Zc & EZ & LZ & CZ & TZ & RZ & DZ).
    destruct (IH (S k0) (cr2 G) rl Hc HF') as (Zs & ES & LS & CS & TS & RS & BS & DS).
    exists (Zc :: Zs). cbn [mapi_from sequence rbind]. rewrite EZ. cbn [rbind]. rewrite ES. cbn [rbind].
    split; [reflexivity|]. cbn [concat].
    split; [rewrite app_length, LZ, LS; cbn [length]; lia|].
    split; [apply chain_app; exists (cr2 G); split; assumption|].
    split; [apply Forall_app; split; assumption|].
    split; [intros rmax Hcap; constructor; [apply RZ; intros; apply Hcap | apply RS; exact Hcap]|].
    split.
    { constructor; [|exact BS]. split; assumption. }
    intros v idx Lv Li Hi. destruct idx as [|i idx]; [discriminate|]. inversion Hi; subst.
    cbn [flat_map Chain.run]. rewrite run_app by (rewrite bits_le_length; lia).
    rewrite <- DZ by auto. apply DS; auto. apply vstep_length.
Qed.

Theorem tt_to_qtt_denote q Y idx : chain 1 Y 1 -> Forall (fun G => cn G = 2 ^ S q /\ 0 < cr1 G)%nat Y ->
  length idx = length Y -> Forall (fun i => i < 2 ^ S q)%nat idx ->
  exists Z, tt_to_qtt K msvd2 Y = Ok Z /\ length Z = (length Y * S q)%nat /\ chain 1 Z 1 /\
    Forall (fun Q => cn Q = 2%nat) Z /\ get Z (flat_map (bits_le (S q)) idx) = get Y idx.
Proof.
  intros Hc HF Li Hi. destruct (tt_conv_run q Y O 1%nat 1%nat Hc HF) as (Zs & ES & LS & CS & TS & _ & _ & DS).
  exists (concat Zs). unfold tt_to_qtt. rewrite ES. cbn [rmap]. repeat split; auto.
  unfold Chain.get. f_equal. apply DS; auto.
Qed.

(* bonds: between modes the TT-ranks are kept; inside a mode every bond is an inner size of a factorisation *)
Theorem tt_to_qtt_ranks q Y rmax : chain 1 Y 1 -> Forall (fun G => cn G = 2 ^ S q /\ 0 < cr1 G)%nat Y ->
  (forall k c B, mc (fst (msvd2 k c B)) <= rmax)%nat ->
  exists Zs, tt_to_qtt K msvd2 Y = Ok (concat Zs) /\
    Forall2 (fun G Zc => length Zc = S q /\ chain (cr1 G) Zc (cr2 G)) Y Zs /\
    Forall (fun Zc => Forall (fun Q => cr1 Q <= rmax)%nat (tl Zc)) Zs.
Proof.
  intros Hc HF Hcap. destruct (tt_conv_run q Y O 1%nat 1%nat Hc HF) as (Zs & ES & _ & _ & _ & RS & BS & _).
  exists Zs. unfold tt_to_qtt. rewrite ES. cbn [rmap]. split; [reflexivity|]. split; [exact BS|]. apply RS. exact Hcap.
Qed.

(* a mode size that is not a power of two is rejected before any factorisation *)
Theorem core_tt_to_qtt_rejects sv G : (forall q, cn G <> 2 ^ q)%nat -> core_tt_to_qtt K sv G = Err ValueError.
Proof. intros H. unfold core_tt_to_qtt. now rewrite (log2_exact_none _ H). Qed.
End TensorConv.

End QttP2.
