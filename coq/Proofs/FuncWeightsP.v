(* C12: the Clenshaw-Curtis weights of func_sum / func_sum_full are the integrals of the Chebyshev polynomials,
   for EVERY k:  w_k = 2/(1-k^2) (k even), 0 (k odd)  =  P_k(1) - P_k(-1)  for an antiderivative P_k of T_k on R.
   Route: U_k (second kind) by the same recurrence, T_{k+2} = x U_{k+1} - U_k, T_k' = k U_{k-1},
   P_k = (T_{k+1}/(k+1) - T_{k-1}/(k-1))/2. *)
From Coq Require Import List Arith Lia PeanoNat ZArith Bool Reals Lra Psatz.
From TV Require Import Num.Ops Lin.Tab Lin.BigSum Lin.Mat TT.Chain Model.Func Proofs.FuncP Proofs.FuncTrigP.
Import ListNotations.
Local Open Scope R_scope.

Definition Tn (k : nat) (x : R) : R := chebT OR x k.
(* Chebyshev polynomials of the second kind: the recurrence of func_basis started from 1, 2x *)
Definition Un (k : nat) (x : R) : R := nth k (cheb_aux OR x (S k) 1 (2 * x)) 0.
Lemma Tn_SS k x : Tn (S (S k)) x = 2 * x * Tn (S k) x - Tn k x.
Proof. unfold Tn. rewrite (chebT_SS OR). unfold ftwo. ror. ring. Qed.
Lemma Un_SS k x : Un (S (S k)) x = 2 * x * Un (S k) x - Un k x.
Proof.
  unfold Un.
  rewrite (cheb_aux_nth OR x (S (S k)) (S (S (S k))) (S k)) by lia.
  rewrite (cheb_aux_nth OR x (S k) (S (S (S k))) k) by lia.
  rewrite (cheb_aux_rec OR) by lia. unfold ftwo. ror. ring.
Qed.
Lemma Tn_0 x : Tn 0 x = 1. Proof. reflexivity. Qed.
Lemma Tn_1 x : Tn 1 x = x. Proof. reflexivity. Qed.
Lemma Un_0 x : Un 0 x = 1. Proof. reflexivity. Qed.
Lemma Un_1 x : Un 1 x = 2 * x. Proof. reflexivity. Qed.
Lemma TU x : forall k, Tn (S (S k)) x = x * Un (S k) x - Un k x /\ Tn (S (S (S k))) x = x * Un (S (S k)) x - Un (S k) x.
Proof.
  induction k as [|k [IH1 IH2]].
  - rewrite !Tn_SS, !Un_SS, Tn_1, Tn_0, Un_1, Un_0. split; ring.
  - split; [exact IH2|]. rewrite Tn_SS, IH1, IH2, (Un_SS (S k)), (Un_SS k). ring.
Qed.
Lemma TU' x k : Tn (S (S k)) x = x * Un (S k) x - Un k x. Proof. apply TU. Qed.

Lemma dlim_ext f g x l : (forall y, f y = g y) -> derivable_pt_lim g x l -> derivable_pt_lim f x l.
Proof.
  intros E H eps Heps. destruct (H eps Heps) as [d Hd]. exists d. intros h Hh Hlt. rewrite !E. now apply Hd.
Qed.
(* T_{k+1}' = (k+1) U_k *)
Lemma Tn_deriv : forall k x,
  derivable_pt_lim (Tn (S k)) x (INR (S k) * Un k x) /\ derivable_pt_lim (Tn (S (S k))) x (INR (S (S k)) * Un (S k) x).
Proof.
  induction k as [|k IH]; intros x.
  - split.
    + apply (dlim_ext _ id); [intros; apply Tn_1|]. replace (INR 1 * Un 0 x) with 1 by (rewrite Un_0; cbn [INR]; ring).
      apply derivable_pt_lim_id.
    + apply (dlim_ext _ (mult_real_fct 2 (id * id) - fct_cte 1)%F).
      { intros y. rewrite Tn_SS, Tn_1, Tn_0. unfold mult_real_fct, mult_fct, minus_fct, fct_cte, id. ring. }
      replace (INR 2 * Un 1 x) with (2 * (1 * id x + id x * 1) - 0) by (rewrite Un_1; unfold id; cbn [INR]; ring).
      apply derivable_pt_lim_minus; [|apply derivable_pt_lim_const].
      apply derivable_pt_lim_scal. apply derivable_pt_lim_mult; apply derivable_pt_lim_id.
  - destruct (IH x) as [D1 D2]. split; [exact D2|].
    apply (dlim_ext _ (mult_real_fct 2 (id * Tn (S (S k))) - Tn (S k))%F).
    { intros y. rewrite Tn_SS. unfold mult_real_fct, mult_fct, minus_fct, id. ring. }
    replace (INR (S (S (S k))) * Un (S (S k)) x)
      with (2 * (1 * Tn (S (S k)) x + id x * (INR (S (S k)) * Un (S k) x)) - INR (S k) * Un k x).
    2:{ rewrite (Un_SS k), TU'. unfold id. rewrite !S_INR. ring. }
    apply derivable_pt_lim_minus; [|exact D1].
    apply derivable_pt_lim_scal. apply derivable_pt_lim_mult; [apply derivable_pt_lim_id | exact D2].
Qed.
Lemma Tn_deriv' k x : derivable_pt_lim (Tn (S k)) x (INR (S k) * Un k x).
Proof. apply Tn_deriv. Qed.

(* endpoint values *)
Lemma Tn_at_1 k : Tn k 1 = 1.
Proof. unfold Tn. rewrite <- cos_0 at 1. rewrite chebT_cos', Rmult_0_r. apply cos_0. Qed.
Lemma Tn_at_m1 k : Tn k (-1) = if Nat.even k then 1 else -1.
Proof.
  unfold Tn. rewrite <- cos_PI at 1. rewrite chebT_cos', <- pm_R. unfold pm, fm1. destruct (Nat.even k); reflexivity.
Qed.

(* the weight of the k-th coefficient in func_sum / func_sum_full, at R *)
Lemma wsum_cheb_R k : wsum OR Cheb k = if Nat.even k then 2 / (1 - INR k * INR k) else 0.
Proof.
  unfold wsum, sum_p, ftwo. destruct (Nat.even k) eqn:E; [|reflexivity]. ror.
  apply Nat.even_spec in E. destruct E as [q ->]. rewrite (Nat.mul_comm 2 q), Nat.div_mul by lia.
  rewrite minus_IZR, mult_IZR, <- INR_IZR_INZ. rewrite (Nat.mul_comm q 2). f_equal; ring.
Qed.

(* w_k is the integral of T_k over [-1, 1] (difference of an antiderivative at the end points), every k *)
Theorem cheb_weights k : exists P : R -> R,
  (forall x, derivable_pt_lim P x (chebT OR x k)) /\ P 1 - P (-1) = wsum OR Cheb k.
Proof.
  rewrite wsum_cheb_R. destruct k as [|[|q]].
  - exists (Tn 1). split.
    + intros x. pose proof (Tn_deriv' 0 x) as D. rewrite Un_0 in D. cbn [INR] in D. rewrite Rmult_1_l in D. exact D.
    + cbn [Nat.even INR]. rewrite !Tn_1. field.
  - exists (fun x => / 4 * Tn 2 x). split.
    + intros x. change (fun x0 => / 4 * Tn 2 x0) with (mult_real_fct (/ 4) (Tn 2)).
      replace (chebT OR x 1) with (/ 4 * (INR 2 * Un 1 x)) by (rewrite Un_1; cbn [INR]; change (chebT OR x 1) with x; field).
      apply derivable_pt_lim_scal. apply Tn_deriv'.
    + cbn [Nat.even negb]. rewrite Tn_at_1, Tn_at_m1. cbn [Nat.even]. ring.
  - assert (P3 : 0 < INR (S (S (S q)))) by (apply lt_0_INR; lia). assert (P1 : 0 < INR (S q)) by (apply lt_0_INR; lia).
    exists (fun x => / 2 * (/ INR (S (S (S q))) * Tn (S (S (S q))) x - / INR (S q) * Tn (S q) x)). split.
    + intros x.
      change (fun x0 => / 2 * (/ INR (S (S (S q))) * Tn (S (S (S q))) x0 - / INR (S q) * Tn (S q) x0))
        with (mult_real_fct (/ 2) (mult_real_fct (/ INR (S (S (S q)))) (Tn (S (S (S q)))) - mult_real_fct (/ INR (S q)) (Tn (S q)))%F).
      replace (chebT OR x (S (S q))) with
        (/ 2 * (/ INR (S (S (S q))) * (INR (S (S (S q))) * Un (S (S q)) x) - / INR (S q) * (INR (S q) * Un q x))).
      2:{ fold (Tn (S (S q)) x). rewrite TU', (Un_SS q). field. lra. }
      apply derivable_pt_lim_scal. apply derivable_pt_lim_minus; apply derivable_pt_lim_scal; apply Tn_deriv'.
    + rewrite !Tn_at_1, !Tn_at_m1. rewrite !Nat.even_succ_succ. rewrite Nat.even_succ, <- Nat.negb_even.
      rewrite !S_INR in *. destruct (Nat.even q); cbn [negb]; field; nra.
Qed.
