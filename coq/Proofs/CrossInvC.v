(* The run of the TT-cross machine: the joint invariant (geometry + control + accounting + request domain +
   progress) over every reachable state, the schedule of the program counter, termination. *)
From Coq Require Import List Arith Lia PeanoNat Bool.
From TV Require Import Num.Ops Lin.Tab Model.Cross Proofs.CrossIdx Proofs.CrossGeo Proofs.CrossInvA Proofs.CrossInvB.
Import ListNotations.

Lemma iterate_S_r {A} (g : A -> A) k x : iterate g (S k) x = g (iterate g k x).
Proof. revert x; induction k; intros x; [reflexivity|]. cbn [iterate] in *. now rewrite IHk. Qed.
Lemma iterate_fix {A} (g : A -> A) k x : g x = x -> iterate g k x = x.
Proof. intros H. induction k; cbn [iterate]; [reflexivity|]. now rewrite H. Qed.

Section Run.
Context {T : Type} (K : ops T) {P : Type}.
Variable isinf : T -> bool.
Variable f : nat -> rows -> option (list T).
Variable cb : option (nat -> bool).
Variable pones : P.
Variable pdotL pdotR : P -> P -> P.
Variable pvals : nat -> nat -> nat -> list T -> P.
Variable pick : nat -> bool -> nat -> nat -> nat -> P -> nat -> nat -> list nat.
Variable pcoreG pfacR : bool -> nat -> nat -> nat -> P -> list nat -> P.
Variable erank : nat -> list (@mcore P) -> T.
Variable accuracy : nat -> list (@mcore P) -> list (@mcore P) -> T.
Variable accdata : nat -> list (@mcore P) -> T.
Variable C : @cfg T P.
Hypothesis HY0 : Y0_ok pones C.
Hypothesis Hpick : pick_ok pick.

Notation stepm := (step K isinf f cb pones pdotL pdotR pvals pick pcoreG pfacR erank accuracy accdata C).
Notation sweepm := (sweep K isinf f cb pones pdotL pdotR pvals pick pcoreG pfacR erank accuracy accdata C).
Notation runm := (run K isinf f cb pones pdotL pdotR pvals pick pcoreG pfacR erank accuracy accdata C).
Notation predone := (pre_done K isinf f cb pones pdotL pdotR pvals pick pcoreG pfacR erank accuracy accdata C).
Notation initm := (init K pones erank C).
Notation geo := (Geo pones C).
Notation ctl := (Ctl K isinf cb accdata C).
Notation view := (step_view K isinf f cb pones pvals accuracy accdata C).
Notation nsl := (ns C).
Notation feval := (func_eval K f C).
Notation dd := (d C).
Notation sn := (shape_n pones C).
Notation stt := (@st T P).
Notation cntt := (@cnt T).

Lemma dd_pos : 1 <= dd.
Proof. destruct HY0 as (H & _). exact H. Qed.

Lemma geo_pc s main ltr i : geo s -> s_pc s = Run main ltr i -> i < dd.
Proof. intros (_ & _ & _ & _ & Hpc) E. rewrite E in Hpc. destruct Hpc as (H & _). exact H. Qed.

(* the batch of a main-loop position is a non-empty list of distinct multi-indices of the tensor *)
Lemma geo_batch s ltr i : geo s -> s_pc s = Run true ltr i -> rows_ok nsl (cur_batch pones C s i).
Proof.
  intros (HLY & HLr & HLc & Hcn & Hpc) Epc. rewrite Epc in Hpc. destruct Hpc as (Hi & Hx & _).
  destruct Hx as (X0 & Xd & Xr & Xc).
  assert (A : orows_ok (firstn i nsl) (nth i (sIr s) None)) by (apply Xr; change (i <= dd); lia).
  assert (B : orows_ok (skipn (S i) nsl) (nth (S i) (sIc s) None)) by (apply Xc; [change (0 <= S i)|]; lia).
  pose proof (batch_ok _ _ (sn i) _ _ A B (sn_pos _ _ HY0 i Hi)) as R.
  assert (E : firstn i nsl ++ [sn i] ++ skipn (S i) nsl = nsl).
  { rewrite <- (ns_nth pones C i). cbn [app].
    rewrite <- (skipn_nth_S nsl i 0) by (rewrite ns_length; lia). apply firstn_skipn. }
  rewrite E in R. exact R.
Qed.

(* lifting an invariant of the counters through a step *)
Lemma cnt_view (Q : cntt -> Prop) :
  (forall c x, Q c -> Q (set_stop c x)) ->
  (forall c I, rows_ok nsl I -> Q c -> Q (fst (feval c I))) ->
  forall s s', geo s -> view s s' -> Q (sK s) -> Q (sK s').
Proof.
  intros Hs Hf s s' G V HQ. destruct V as [Epc ->
    | ltr i Epc Hne Hpc HK Hn He Hev Hne'
    | Epc Hpc HK Hev Hn He Hne'
    | ltr i c' oz Epc Ef Hor Hpc HK Hn HYo
    | ltr i c' Z Epc Hne Ef Est Hpc HK Hn He Hev HYo
    | c' Z s3 Epc Ef Est Hs3 HK Hn Hpc ]; auto; rewrite HK; auto;
    try apply Hs; destruct (funcm_fe K f pvals C _ _ _ _ _ _ Ef) as [-> _]; apply Hf; auto;
    eapply geo_batch; eauto.
Qed.

(* ------------------------------------------------------------ progress: every main-loop position consumes >= 1 *)
Definition pos (ltr : bool) (i : nat) : nat := if ltr then i else 2 * dd - 1 - i.
Definition prog (s : stt) : Prop :=
  forall ltr i, s_pc s = Run true ltr i -> s_nswp s * (2 * dd) + pos ltr i <= k_m (sK s) + k_mc (sK s).

Lemma funcm_progress s ltr i c' Z :
  geo s -> s_pc s = Run true ltr i ->
  func_m K f pvals C (sK s) (sn i) (nth i (sIr s) None) (nth (S i) (sIc s) None) = (c', Some Z) ->
  k_m (sK s) + k_mc (sK s) + 1 <= k_m c' + k_mc c'.
Proof.
  intros G Epc Ef. destruct (funcm_fe K f pvals C _ _ _ _ _ _ Ef) as [-> Hz].
  apply fe_progress.
  - destruct (geo_batch s ltr i G Epc) as (H & _). exact H.
  - intros E. apply Hz in E. discriminate.
Qed.

Lemma prog_view s s' : geo s -> ctl s -> view s s' -> prog s -> prog s'.
Proof.
  intros G H V HP. pose proof dd_pos as Hd. destruct V as [Epc ->
    | ltr i Epc Hne Hpc HK Hn He Hev Hne'
    | Epc Hpc HK Hev Hn He Hne'
    | ltr i c' oz Epc Ef Hor Hpc HK Hn HYo
    | ltr i c' Z Epc Hne Ef Est Hpc HK Hn He Hev HYo
    | c' Z s3 Epc Ef Est Hs3 HK Hn Hpc ]; auto; unfold prog; rewrite Hpc.
  - destruct (nextpc_pre C ltr i Hne) as (l' & i' & ->). intros; discriminate.
  - destruct (ctl_pre _ _ _ _ _ _ H false 0 Epc) as (N0 & _). intros l2 i2 E. injection E as <- <-.
    rewrite Hn, N0. unfold pos. lia.
  - intros; discriminate.
  - pose proof (funcm_progress s ltr i c' Z G Epc Ef) as Hp. pose proof (geo_pc s _ _ _ G Epc) as Hi.
    specialize (HP ltr i Epc). rewrite HK, Hn. unfold nextpc. unfold pos in *. destruct ltr.
    + destruct (Nat.ltb_spec (S i) dd); intros l2 i2 E; injection E as <- <-; lia.
    + destruct i as [|i']; [destruct Hne; congruence|]. intros l2 i2 E; injection E as <- <-. lia.
  - pose proof (funcm_progress s false 0 c' Z G Epc Ef) as Hp. specialize (HP false 0 Epc). unfold pos in HP.
    destruct s3; [intros; discriminate|]. intros l2 i2 E. injection E as <- <-.
    rewrite HK, Hn. unfold pos. cbn [set_stop k_m k_mc]. lia.
Qed.

(* ------------------------------------------------------------ the joint invariant *)
Record Inv (s : stt) : Prop := mkInv {
  inv_geo : geo s;
  inv_ctl : ctl s;
  inv_prog : prog s;
  inv_base : acc_base C (sK s);
  inv_dom : dom nsl (sK s);
  inv_nc : c_cache C = None -> acc_nc (sK s) }.

Lemma inv_init : Inv initm.
Proof.
  constructor.
  - apply geo_init; auto.
  - apply ctl_init.
  - unfold prog, init. cbn. intros; discriminate.
  - unfold acc_base, init. cbn. repeat split; auto. intros; lia.
  - unfold dom, init. cbn. constructor.
  - intros E. unfold acc_nc, init. cbn. split; [exact E|constructor].
Qed.

Lemma inv_step s : Inv s -> Inv (stepm s).
Proof.
  intros [G H HP HB HD HN]. pose proof (step_viewP K isinf f cb pones pdotL pdotR pvals pick pcoreG pfacR
                                          erank accuracy accdata C s) as V.
  constructor.
  - apply geo_step; auto.
  - apply ctl_step; auto.
  - eapply prog_view; eauto.
  - apply (cnt_view (acc_base C)) with (s := s); auto. intros c I _. apply acc_base_fe.
  - apply (cnt_view (dom nsl)) with (s := s); auto. intros c I. apply dom_fe.
  - intros E. apply (cnt_view acc_nc) with (s := s); auto. intros c I _. apply acc_nc_fe.
Qed.

Lemma inv_steps k : Inv (iterate stepm k initm).
Proof. apply iterate_inv; [exact inv_step|exact inv_init]. Qed.

(* with a cache (objective returning arrays of the requested length) *)
Section Cache.
Hypothesis Hlen : forall k I y, f k I = Some y -> length y = length I.
Variable ch0 : @cachet T.
Hypothesis Hch : c_cache C = Some ch0.

Definition acc_cache (c : cntt) : Prop := acc_ch ch0 c /\ acc_val K ch0 c.

Lemma acc_cache_init : acc_cache (sK initm).
Proof.
  unfold acc_cache, init. cbn. rewrite Hch. split.
  - exists ch0. split; [reflexivity|]. split; [|exact I]. intros i. unfold known. cbn. now rewrite orb_false_r.
  - intros ch E. injection E as <-. split; [auto|]. intros I0 y [].
Qed.

Lemma acc_cache_steps k : acc_cache (sK (iterate stepm k initm)).
Proof.
  induction k as [|k IH]; [exact acc_cache_init|]. rewrite iterate_S_r.
  apply (cnt_view acc_cache) with (s := iterate stepm k initm); auto.
  - intros c I (_ & R & _) [A B]. split; [apply acc_ch_fe; auto|apply acc_val_fe; auto].
  - apply inv_geo, inv_steps.
  - apply step_viewP.
Qed.
End Cache.

(* ------------------------------------------------------------ schedule of the program counter *)
Definition lastpos (main ltr : bool) (i : nat) : bool := main && negb ltr && (i =? 0).

Lemma sched_view s s' main ltr i :
  view s s' -> s_pc s = Run main ltr i ->
  (s_pc s' = Done /\ main = true) \/
  (s_pc s' = nextpc C main ltr i /\ s_nswp s' = s_nswp s + (if lastpos main ltr i then 1 else 0)).
Proof.
  intros V E0. destruct V as [Epc ->
    | ltr' i' Epc Hne Hpc HK Hn He Hev Hne'
    | Epc Hpc HK Hev Hn He Hne'
    | ltr' i' c' oz Epc Ef Hor Hpc HK Hn HYo
    | ltr' i' c' Z Epc Hne Ef Est Hpc HK Hn He Hev HYo
    | c' Z s3 Epc Ef Est Hs3 HK Hn Hpc ]; rewrite E0 in Epc; try discriminate; injection Epc as -> -> ->.
  - right. split; [auto|]. cbn. lia.
  - right. split; [auto|]. cbn. lia.
  - left. auto.
  - right. split; [auto|]. unfold lastpos. destruct ltr'; cbn; [lia|].
    destruct i'; [destruct Hne; congruence|]. cbn. lia.
  - destruct s3; [left; auto|]. right. split; [auto|]. cbn. lia.
Qed.

Lemma step_done s : s_pc s = Done -> stepm s = s.
Proof. intros E. unfold step. rewrite E. reflexivity. Qed.

Lemma sched_iter n : forall s main ltr i,
  geo s -> s_pc s = Run main ltr i -> pos ltr i + n = 2 * dd ->
  let s' := iterate stepm n s in
  (s_pc s' = Done /\ main = true) \/ (s_pc s' = Run true true 0 /\ s_nswp s' = s_nswp s + (if main then 1 else 0)).
Proof.
  pose proof dd_pos as Hd.
  induction n as [|n IH]; intros s main ltr i G Epc Hn; pose proof (geo_pc s _ _ _ G Epc) as Hi.
  - exfalso. unfold pos in Hn. destruct ltr; lia.
  - cbn [iterate]. cbv zeta.
    pose proof (step_viewP K isinf f cb pones pdotL pdotR pvals pick pcoreG pfacR erank accuracy accdata C s) as V.
    pose proof (geo_step K isinf f cb pones pdotL pdotR pvals pick pcoreG pfacR erank accuracy accdata C
                  HY0 Hpick s G) as G'.
    destruct (sched_view s _ main ltr i V Epc) as [[D M]|[N HS]].
    + left. rewrite iterate_fix; [auto|]. apply step_done; auto.
    + unfold nextpc in N. unfold lastpos in HS. destruct ltr.
      * rewrite andb_false_r in HS. cbn in HS.
        destruct (Nat.ltb_spec (S i) dd) as [L|L].
        -- destruct (IH _ main true (S i) G' N) as [A|[A B]]; [unfold pos in *; lia|auto|].
           right. split; [auto|]. rewrite B, HS. lia.
        -- destruct (IH _ main false i G' N) as [A|[A B]]; [unfold pos in *; lia|auto|].
           right. split; [auto|]. rewrite B, HS. lia.
      * destruct i as [|i'].
        -- assert (n = 0) as -> by (unfold pos in Hn; lia). cbn [iterate]. right. split; [auto|].
           rewrite HS. destruct main; cbn; lia.
        -- rewrite andb_false_r in HS.
           destruct (IH _ main false i' G' N) as [A|[A B]]; [unfold pos in *; lia|auto|].
           right. split; [auto|]. rewrite B, HS. cbn. lia.
Qed.

Lemma pre_done_steps : predone = iterate stepm (2 * dd) initm.
Proof. reflexivity. Qed.

Lemma pre_done_pc : s_pc predone = Run true true 0 /\ s_nswp predone = 0.
Proof.
  rewrite pre_done_steps.
  destruct (sched_iter (2 * dd) initm false true 0) as [[_ A]|[A B]]; auto.
  - apply geo_init; auto.
  - discriminate.
Qed.

Lemma run_steps fuel : runm fuel = iterate stepm (2 * dd + fuel * (2 * dd)) initm.
Proof.
  unfold run, pre_done, sweep. generalize (2 * dd) as n. intros n.
  revert fuel. assert (A : forall k x, iterate (iterate stepm n) k x = iterate stepm (k * n) x).
  { induction k; intros x; cbn [iterate Nat.mul]; auto. rewrite IHk.
    assert (B : forall a b y, iterate stepm (a + b) y = iterate stepm b (iterate stepm a y)).
    { induction a; intros b y; simpl; auto. }
    now rewrite B. }
  intros fuel. rewrite A.
  assert (B : forall a b y, iterate stepm (a + b) y = iterate stepm b (iterate stepm a y)).
  { induction a; intros b y; simpl; auto. }
  now rewrite B.
Qed.

Lemma inv_run fuel : Inv (runm fuel).
Proof. rewrite run_steps. apply inv_steps. Qed.

Lemma run_S fuel : runm (S fuel) = sweepm (runm fuel).
Proof. unfold run. apply iterate_S_r. Qed.

Lemma run_pc fuel :
  s_pc (runm fuel) = Done \/ (s_pc (runm fuel) = Run true true 0 /\ s_nswp (runm fuel) = fuel).
Proof.
  induction fuel as [|k IH].
  - right. exact pre_done_pc.
  - rewrite run_S. destruct IH as [D|[A B]].
    + left. unfold sweep. rewrite iterate_fix; [auto|]. apply step_done; auto.
    + destruct (sched_iter (2 * dd) (runm k) true true 0) as [[D _]|[D E]]; auto.
      * apply inv_geo, inv_run.
      * right. split; [exact D|]. unfold sweep. rewrite E, B. lia.
Qed.

(* ------------------------------------------------------------ termination *)
(* nswp given: the loop returns within nswp sweeps (one sweep when nswp = 0) *)
Lemma terminates_nswp t fuel : c_nswp C = Some t -> t < fuel -> s_pc (runm fuel) = Done.
Proof.
  intros Et Hf. destruct (run_pc fuel) as [D|[A B]]; [exact D|exfalso].
  pose proof (inv_ctl _ (inv_run fuel)) as H.
  destruct (k_stop (sK (runm fuel))) as [x|] eqn:Es.
  - destruct (ctl_pend _ _ _ _ _ _ H true true 0 A) as (_ & _ & _ & N0); [congruence|]. lia.
  - pose proof (ctl_nswp_lt _ _ _ _ _ _ H t true 0 Et Es A). lia.
Qed.

(* a positive budget m given (with or without cache): every main-loop position consumes a unit of m + m_cache,
   m <= m_max, and m_cache > scale * m stops the run (conv) *)
Lemma terminates_m mm fuel : m_max C = Some mm -> (c_scale C + 1) * mm < fuel -> s_pc (runm fuel) = Done.
Proof.
  intros Em Hf. destruct (run_pc fuel) as [D|[A B]]; [exact D|exfalso].
  pose proof (inv_run fuel) as [G H HP HB _ _]. pose proof dd_pos as Hd.
  assert (F1 : 1 <= fuel) by lia.
  pose proof (ctl_turn _ _ _ _ _ _ H A) as Hc. rewrite B in Hc. specialize (Hc F1).
  unfold conv in Hc. apply Nat.ltb_ge in Hc.
  specialize (HP true 0 A). rewrite B in HP. unfold pos in HP.
  destruct HB as (_ & _ & _ & Hb). specialize (Hb mm Em).
  nia.
Qed.

(* without cache m_cache stays 0, so the budget alone bounds the number of sweeps *)
Lemma terminates_m_nc mm fuel : c_cache C = None -> m_max C = Some mm -> mm < fuel -> s_pc (runm fuel) = Done.
Proof.
  intros Ec Em Hf. destruct (run_pc fuel) as [D|[A B]]; [exact D|exfalso].
  pose proof (inv_run fuel) as [G H HP HB _ HN]. pose proof dd_pos as Hd.
  destruct (HN Ec) as (_ & HF). apply acc_nc_hits in HF.
  specialize (HP true 0 A). rewrite B in HP. unfold pos in HP.
  destruct HB as (_ & _ & Hh & Hb). specialize (Hb mm Em). rewrite HF in Hh.
  nia.
Qed.

(* ------------------------------------------------------------ an e-only run whose reported e never qualifies *)
(* only e is given (no budget, no nswp, no e_vld, no callback, no cache), the objective always answers, and the value
   reported by accuracy never meets the criterion (e.g. the sentinel -1 of accuracy for 0/0, at every sweep): no
   documented stop reason can fire, the loop never returns *)
Section EOnly.
Hypothesis Hm : m_max C = None.
Hypothesis Hn : c_nswp C = None.
Hypothesis Hv : c_evld C = None.
Hypothesis Hcb : cb = None.
Hypothesis Hca : c_cache C = None.
Hypothesis Hf : forall k I, f k I <> None.
Hypothesis Hacc : forall k Y Yo, hit K isinf (accuracy k Y Yo) (c_e C) = false.
Hypothesis Hneg : hit K isinf (minus1 K) (c_e C) = false.

Lemma iappr_quiet n e ev : hit K isinf e (c_e C) = false -> info_appr K isinf C None n e ev = None.
Proof.
  intros H. unfold info_appr. rewrite Hv. change (hit K isinf ev None) with false. cbv iota. rewrite H, Hn. reflexivity.
Qed.

Definition running (s : stt) : Prop := s_pc s <> Done /\ k_stop (sK s) = None.

Lemma running_view s s' : Inv s -> view s s' -> running s -> running s'.
Proof.
  intros I V [Hr Hs]. destruct V as [Epc ->
    | ltr i Epc Hne Hpc HK Hn' He Hev Hne'
    | Epc Hpc HK Hev Hn' He Hne'
    | ltr i c' oz Epc Ef Hor Hpc HK Hn' HYo
    | ltr i c' Z Epc Hne Ef Est Hpc HK Hn' He Hev HYo
    | c' Z s3 Epc Ef Est Hs3 HK Hn' Hpc Hex ].
  - contradiction.
  - destruct (nextpc_pre C ltr i Hne) as (l' & i' & E). split; [rewrite Hpc, E; discriminate|]. rewrite HK. exact Hs.
  - split; [rewrite Hpc; discriminate|].
    destruct (ctl_pre _ _ _ _ _ _ (inv_ctl _ I) false 0 Epc) as (_ & E0 & _).
    rewrite HK, Hs, E0, (iappr_quiet _ _ _ Hneg). reflexivity.
  - exfalso. destruct (funcm_fe K f pvals C _ _ _ _ _ _ Ef) as [-> Hz].
    destruct (inv_nc _ I Hca) as (Hc & _).
    set (B := batch (sn i) (nth i (sIr s) None) (nth (S i) (sIc s) None)) in *.
    destruct (f (k_nf (sK s)) B) as [y|] eqn:Efy; [|exact (Hf _ _ Efy)].
    destruct (fe_nocache_ok K f C (sK s) B y Hc Hm Efy) as (A1 & A2 & _).
    destruct Hor as [N|E]; [apply N; rewrite A2; exact Hs|].
    apply Hz in E. rewrite A1 in E. discriminate.
  - destruct (nextpc_main C ltr i Hne) as (l' & i' & E & _). split; [rewrite Hpc, E; discriminate|]. rewrite HK. exact Est.
  - destruct (funcm_fe K f pvals C _ _ _ _ _ _ Ef) as [Ec' Hz].
    destruct (inv_nc _ I Hca) as (Hc & HF). apply acc_nc_hits in HF.
    destruct (inv_base _ I) as (_ & _ & Hh & _). rewrite HF in Hh.
    set (B := batch (sn 0) (nth 0 (sIr s) None) (nth 1 (sIc s) None)) in *.
    destruct (f (k_nf (sK s)) B) as [y|] eqn:Efy; [|exfalso; exact (Hf _ _ Efy)].
    destruct (fe_nocache_ok K f C (sK s) B y Hc Hm Efy) as (_ & _ & A3 & _). rewrite <- Ec' in A3.
    destruct Hex as (ne & Y & Yo & Ee).
    assert (E3 : s3 = None).
    { rewrite Hs3. unfold post_stop, conv. rewrite A3, Hh, Est, Hcb.
      replace (c_scale C * k_m c' <? 0) with false by (symmetry; apply Nat.ltb_ge; lia).
      apply iappr_quiet. rewrite Ee. apply Hacc. }
    rewrite E3 in Hpc, HK. split; [rewrite Hpc; discriminate|]. rewrite HK. reflexivity.
Qed.

Lemma running_steps k : running (iterate stepm k initm).
Proof.
  induction k as [|k IH]; [split; [discriminate|reflexivity]|]. rewrite iterate_S_r.
  apply (running_view (iterate stepm k initm)); auto; [apply inv_steps|apply step_viewP].
Qed.

Lemma e_only_never_done fuel : s_pc (runm fuel) <> Done.
Proof. rewrite run_steps. exact (proj1 (running_steps _)). Qed.
End EOnly.

End Run.
