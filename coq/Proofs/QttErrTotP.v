(* C17 at the reals: the WHOLE-TENSOR error of tt_to_qtt over several cores, for genuinely truncating factorisations.
   Y = [G_1 .. G_d], boundary ranks 1, every mode size 2^(q+1); core j is converted on its own (teneva.tt_to_qtt), with
   per-core Frobenius error <= c = sqrt(q+1) e (Proofs/QttErrRP.v).  Replacing the cores one at a time and bounding
   each contraction by Cauchy-Schwarz (Proofs/L2RP.v):
      |Y - Z|_F  <=  pbound c Y,    pbound c [] = 0,   pbound c (G :: Y') = c * cprod Y' + (|G|_F + c) * pbound c Y',
   cprod = product of the Frobenius norms of the cores, i.e.
      pbound c Y = sum_j  c * prod_{l<j} (|G_l|_F + c) * prod_{l>j} |G_l|_F   <=   sum_j c * prod_{l<>j} (|G_l|_F + c). *)
From Coq Require Import List Arith Lia Ring PeanoNat ZArith Bool Reals Lra.
From TV Require Import Num.Ops Lin.Tab Lin.BigSum Lin.Mat TT.Chain Model.Transformation Model.Svd Model.Qtt Model.GridInd
  Proofs.GridIndP Proofs.TransformationP Proofs.OrthP Proofs.StabRP Proofs.TruncP Proofs.FrobP Proofs.TruncP2 Proofs.TruncP4
  Proofs.TruncP5 Proofs.QttP Proofs.QttP2 Proofs.QttErrP Proofs.QttErrRP Proofs.L2RP.
Import ListNotations.
Local Open Scope R_scope.

(* ---------- norms and the bound ---------- *)
Definition cnorm (G : core R) : R := sqrt (cfrob2 OR G).
Fixpoint cprod (Y : list (core R)) : R := match Y with [] => 1 | G :: Y' => cnorm G * cprod Y' end.
Fixpoint pbound (c : R) (Y : list (core R)) : R :=
  match Y with [] => 0 | G :: Y' => c * cprod Y' + (cnorm G + c) * pbound c Y' end.
(* the symmetric, weaker form  sum_j c prod_{l<>j} (|G_l| + c) *)
Fixpoint cprodc (c : R) (Y : list (core R)) : R := match Y with [] => 1 | G :: Y' => (cnorm G + c) * cprodc c Y' end.
Fixpoint sbound (c : R) (Y : list (core R)) : R :=
  match Y with [] => 0 | G :: Y' => c * cprodc c Y' + (cnorm G + c) * sbound c Y' end.

(* squared Frobenius norm / distance of chains entered with left rank r and closed on the right (rank 1) *)
Definition tn2 (r : nat) (Y : list (core R)) : R :=
  bsum OR r (fun a => msum OR (shape Y) (fun idx => dget OR Y idx r a 0 * dget OR Y idx r a 0)).
Definition td2 (r : nat) (Y W : list (core R)) : R :=
  bsum OR r (fun a => msum OR (shape Y) (fun idx =>
    (dget OR Y idx r a 0 - dget OR W idx r a 0) * (dget OR Y idx r a 0 - dget OR W idx r a 0))).

Lemma cfrob2_nonneg (G : core R) : 0 <= cfrob2 OR G.
Proof.
  unfold cfrob2. apply bsumR_nonneg'; intros a _. apply bsumR_nonneg'; intros i _. apply bsumR_nonneg'; intros b _.
  exact (Rle_0_sqr _).
Qed.
Lemma cnorm_nonneg G : 0 <= cnorm G. Proof. apply sqrt_pos. Qed.
Lemma cprod_nonneg Y : 0 <= cprod Y.
Proof. induction Y as [|G Y IH]; cbn [cprod]; [lra|]. pose proof (cnorm_nonneg G). nra. Qed.
Lemma tn2_nonneg r Y : 0 <= tn2 r Y.
Proof. unfold tn2. apply bsumR_nonneg'; intros a _. apply msumR_nonneg; intros idx. exact (Rle_0_sqr _). Qed.
Lemma td2_nonneg r Y W : 0 <= td2 r Y W.
Proof. unfold td2. apply bsumR_nonneg'; intros a _. apply msumR_nonneg; intros idx. exact (Rle_0_sqr _). Qed.
Lemma pbound_nonneg c Y : 0 <= c -> 0 <= pbound c Y.
Proof.
  intros Hc. induction Y as [|G Y IH]; cbn [pbound]; [lra|].
  pose proof (cnorm_nonneg G). pose proof (cprod_nonneg Y). nra.
Qed.
Lemma cprod_le_cprodc c Y : 0 <= c -> cprod Y <= cprodc c Y.
Proof.
  intros Hc. induction Y as [|G Y IH]; cbn [cprod cprodc]; [lra|].
  pose proof (cnorm_nonneg G). pose proof (cprod_nonneg Y). nra.
Qed.
Lemma pbound_le_sbound c Y : 0 <= c -> pbound c Y <= sbound c Y.
Proof.
  intros Hc. induction Y as [|G Y IH]; cbn [pbound sbound]; [lra|].
  pose proof (cnorm_nonneg G). pose proof (cprod_le_cprodc c Y Hc). pose proof (pbound_nonneg c Y Hc). nra.
Qed.

(* ---------- R-flavoured forms of the bsum lemmas ---------- *)
Lemma bsumR_add n (f g : nat -> R) : bsum OR n (fun i => f i + g i) = bsum OR n f + bsum OR n g.
Proof. exact (bsum_add OR OR_rng n f g). Qed.
Lemma bsumR_sub n (f g : nat -> R) : bsum OR n (fun i => f i - g i) = bsum OR n f - bsum OR n g.
Proof. exact (bsum_sub OR OR_rng n f g). Qed.
Lemma split_diff r2 (g h t t' : nat -> R) :
  bsum OR r2 (fun c => g c * t c) - bsum OR r2 (fun c => h c * t' c) =
  bsum OR r2 (fun c => (g c - h c) * t c) + bsum OR r2 (fun c => h c * (t c - t' c)).
Proof. rewrite <- bsumR_add, <- bsumR_sub. apply (bsum_ext OR). intros c _. ring. Qed.

(* the iterated sums used below, as positive functionals *)
Definition S1 (r n : nat) (F : nat * nat -> R) : R := bsum OR r (fun a => bsum OR n (fun i => F (a, i))).
Definition P1 (r n : nat) (p : nat * nat) : Prop := (fst p < r)%nat /\ (snd p < n)%nat.
Lemma posfun_S1 r n : posfun (P1 r n) (S1 r n).
Proof. exact (posfun_prod _ _ _ _ (posfun_bsum r) (posfun_bsum n)). Qed.

(* ---------- the first core of a chain ---------- *)
Lemma dget_cons (G : core R) Y i idx r a : cr1 G = r -> (a < r)%nat -> wfo (cr2 G) Y idx 1 ->
  dget OR (G :: Y) (i :: idx) r a 0 = bsum OR (cr2 G) (fun c => cget OR G a i c * dget OR Y idx (cr2 G) c 0).
Proof.
  intros Hr Ha Hw. unfold dget at 1. cbn [run].
  rewrite (run_decomp OR OR_rng Y (vstep OR (evec OR r a) G i) idx (cr2 G) 1%nat Hw (vstep_length OR _ _ _) 0%nat) by lia.
  apply (bsum_ext OR). intros c Hc.
  change (omul OR (nth c (vstep OR (evec OR r a) G i) (o0 OR)) (dget OR Y idx (cr2 G) c 0) =
          cget OR G a i c * dget OR Y idx (cr2 G) c 0).
  f_equal. rewrite (nth_vstep OR) by exact Hc. rewrite Hr.
  rewrite (bsum_single OR OR_rng r a); auto.
  - rewrite (nth_evec OR), Nat.eqb_refl by auto. cbn. ring.
  - intros a' Ha' Hne. rewrite (nth_evec OR) by auto. destruct (Nat.eqb_spec a' a); [contradiction|cbn; ring].
Qed.

(* sub-multiplicativity: one core *)
Lemma tn2_cons (G : core R) Y : chain (cr2 G) Y 1 -> tn2 (cr1 G) (G :: Y) <= cfrob2 OR G * tn2 (cr2 G) Y.
Proof.
  intros Hc. set (r := cr1 G). set (n := cn G). set (r2 := cr2 G). set (ns := shape Y).
  set (X := fun (p : nat * nat) c => cget OR G (fst p) (snd p) c).
  set (T := fun c (q : list nat) => dget OR Y q r2 c 0).
  assert (E : tn2 r (G :: Y) = S1 r n (fun p => msum OR ns (fun q =>
             bsum OR r2 (fun c => X p c * T c q) * bsum OR r2 (fun c => X p c * T c q)))).
  { unfold tn2, S1. cbn [shape map msum]. apply (bsum_ext OR); intros a Ha. apply (bsum_ext OR); intros i Hi.
    apply (msum_ext OR); intros idx Hidx. cbn [fst snd].
    rewrite (dget_cons G Y i idx r a eq_refl Ha) by (apply wfo_chain_inb; split; assumption). reflexivity. }
  rewrite E.
  refine (Rle_trans _ _ _ (pf_contract (P1 r n) (S1 r n) (inb ns) (fun f => msum OR ns f) r2 X T
                              (posfun_S1 r n) (posfun_msum ns)) _).
  apply Req_le. reflexivity.
Qed.
Lemma tn2_le_cprod : forall Y r, chain r Y 1 -> sqrt (tn2 r Y) <= cprod Y.
Proof.
  induction Y as [|G Y IH]; intros r Hc; cbn [chain] in Hc.
  - subst r. unfold tn2. cbn. replace (0 + 1 * 1) with 1 by ring. rewrite sqrt_1. lra.
  - destruct Hc as [Hr Hc]. subst r. cbn [cprod].
    refine (Rle_trans _ _ _ (sqrt_le_1_alt _ _ (tn2_cons G Y Hc)) _).
    apply sqrt_mult_le; [apply cfrob2_nonneg|apply tn2_nonneg|unfold cnorm; lra|apply IH; exact Hc].
Qed.

(* two cores of the same shape at Frobenius distance <= c *)
Definition cnear (c : R) (G H : core R) : Prop :=
  cr1 H = cr1 G /\ cn H = cn G /\ cr2 H = cr2 G /\ sqrt (cdist2 OR G H) <= c.

Lemma cnear_shape c Y W : Forall2 (cnear c) Y W -> shape W = shape Y.
Proof. induction 1 as [|G H Y W (_ & E & _) _ IH]; cbn [shape map]; [reflexivity|]. fold (shape W) (shape Y). now rewrite E, IH. Qed.
Lemma cnear_norm c G H : cnear c G H -> cnorm H <= cnorm G + c.
Proof.
  intros (E1 & E2 & E3 & Hd). unfold cnorm.
  set (S3 := fun (f : nat * nat * nat -> R) => S1 (cr1 G) (cn G) (fun p => bsum OR (cr2 G) (fun b => f (p, b)))).
  assert (PS : posfun (fun pq => P1 (cr1 G) (cn G) (fst pq) /\ (snd pq < cr2 G)%nat) S3).
  { exact (posfun_prod _ _ _ _ (posfun_S1 (cr1 G) (cn G)) (posfun_bsum (cr2 G))). }
  set (u := fun x : nat * nat * nat => cget OR G (fst (fst x)) (snd (fst x)) (snd x)).
  set (v := fun x : nat * nat * nat => cget OR H (fst (fst x)) (snd (fst x)) (snd x) - cget OR G (fst (fst x)) (snd (fst x)) (snd x)).
  pose proof (pf_minkowski _ _ PS u v) as MK.
  assert (A1 : S3 (fun i => (u i + v i) * (u i + v i)) = cfrob2 OR H).
  { unfold S3, S1, cfrob2, u, v. rewrite E1, E2, E3. cbn [fst snd].
    apply (bsum_ext OR); intros a _. apply (bsum_ext OR); intros i _. apply (bsum_ext OR); intros b _. cbn. ring. }
  assert (A2 : S3 (fun i => u i * u i) = cfrob2 OR G) by reflexivity.
  assert (A3 : S3 (fun i => v i * v i) = cdist2 OR G H).
  { unfold S3, S1, cdist2, v. cbn [fst snd].
    apply (bsum_ext OR); intros a _. apply (bsum_ext OR); intros i _. apply (bsum_ext OR); intros b _. unfold sq. cbn. ring. }
  rewrite A1, A2, A3 in MK. lra.
Qed.

(* replacing the cores one at a time *)
Theorem chain_pert c : 0 <= c -> forall Y W, Forall2 (cnear c) Y W -> forall r, chain r Y 1 -> chain r W 1 ->
  sqrt (td2 r Y W) <= pbound c Y.
Proof.
  intros Hc0. induction 1 as [|G H Y W HGH HF IH]; intros r CY CW; cbn [chain] in CY, CW.
  - subst r. unfold td2. cbn. replace (0 + (1 - 1) * (1 - 1)) with 0 by ring. rewrite sqrt_0. lra.
  - destruct CY as [Hr CY]. destruct CW as [Hr' CW]. pose proof HGH as (E1 & E2 & E3 & Hd).
    pose proof (cnear_shape c Y W HF) as ES. cbn [pbound].
    set (n := cn G). set (r2 := cr2 G). set (ns := shape Y).
    set (Xd := fun (p : nat * nat) k => cget OR G (fst p) (snd p) k - cget OR H (fst p) (snd p) k).
    set (XH := fun (p : nat * nat) k => cget OR H (fst p) (snd p) k).
    set (T := fun k (q : list nat) => dget OR Y q r2 k 0).
    set (Td := fun k (q : list nat) => dget OR Y q r2 k 0 - dget OR W q r2 k 0).
    set (U := fun pq : nat * nat * list nat => bsum OR r2 (fun k => Xd (fst pq) k * T k (snd pq))).
    set (V := fun pq : nat * nat * list nat => bsum OR r2 (fun k => XH (fst pq) k * Td k (snd pq))).
    set (SS := fun (f : nat * nat * list nat -> R) => S1 r n (fun p => msum OR ns (fun q => f (p, q)))).
    assert (PS : posfun (fun pq => P1 r n (fst pq) /\ inb ns (snd pq)) SS).
    { exact (posfun_prod _ _ _ _ (posfun_S1 r n) (posfun_msum ns)). }
    assert (E : td2 r (G :: Y) (H :: W) = SS (fun pq => (U pq + V pq) * (U pq + V pq))).
    { unfold td2, SS, S1. cbn [shape map msum]. fold (shape Y). fold ns. fold n.
      apply (bsum_ext OR); intros a Ha. apply (bsum_ext OR); intros i Hi.
      apply (msum_ext OR); intros idx Hidx. unfold U, V. cbn [fst snd].
      rewrite (dget_cons G Y i idx r a Hr Ha) by (apply wfo_chain_inb; split; assumption).
      rewrite (dget_cons H W i idx r a Hr' Ha) by (apply wfo_chain_inb; split; [exact CW|rewrite ES; exact Hidx]).
      rewrite E3. fold r2. unfold Xd, XH, T, Td. cbn [fst snd].
      rewrite (split_diff r2 (fun k => cget OR G a i k) (fun k => cget OR H a i k)
                 (fun k => dget OR Y idx r2 k 0) (fun k => dget OR W idx r2 k 0)). reflexivity. }
    rewrite E. refine (Rle_trans _ _ _ (pf_minkowski _ _ PS U V) _).
    (* first part: (G - H) against the unperturbed tail *)
    assert (B1 : sqrt (SS (fun pq => U pq * U pq)) <= c * cprod Y).
    { assert (L : SS (fun pq => U pq * U pq) <= cdist2 OR G H * tn2 r2 Y).
      { refine (Rle_trans _ _ _ (pf_contract (P1 r n) (S1 r n) (inb ns) (fun f => msum OR ns f) r2 Xd T
                                    (posfun_S1 r n) (posfun_msum ns)) _).
        apply Req_le. unfold cdist2, S1, tn2, Xd, T. rewrite Hr. fold n r2 ns. f_equal. }
      refine (Rle_trans _ _ _ (sqrt_le_1_alt _ _ L) _).
      apply sqrt_mult_le; [apply cdist2_nonneg|apply tn2_nonneg|exact Hd|apply tn2_le_cprod; exact CY]. }
    (* second part: the perturbed first core against the difference of the tails *)
    assert (B2 : sqrt (SS (fun pq => V pq * V pq)) <= (cnorm G + c) * pbound c Y).
    { assert (L : SS (fun pq => V pq * V pq) <= cfrob2 OR H * td2 r2 Y W).
      { refine (Rle_trans _ _ _ (pf_contract (P1 r n) (S1 r n) (inb ns) (fun f => msum OR ns f) r2 XH Td
                                    (posfun_S1 r n) (posfun_msum ns)) _).
        apply Req_le. unfold cfrob2, S1, td2, XH, Td. rewrite Hr', E2, E3. fold n r2 ns. reflexivity. }
      refine (Rle_trans _ _ _ (sqrt_le_1_alt _ _ L) _).
      apply Rle_trans with (cnorm H * pbound c Y).
      - apply sqrt_mult_le; [apply cfrob2_nonneg|apply td2_nonneg|unfold cnorm; lra|].
        apply IH; [exact CY|unfold r2; rewrite <- E3; exact CW].
      - pose proof (cnear_norm c G H HGH). pose proof (pbound_nonneg c Y Hc0). nra. }
    lra.
Qed.

(* ---------- tt_to_qtt: the structure of the result ---------- *)
Section Tot.
Variable msvd2 : nat -> nat -> mat R -> mat R * mat R.
Variable q : nat.

(* Q (factorisation routine of core j, core j) for every core, j counted from k0 *)
Fixpoint cores_all (Q : (nat -> mat R -> mat R * mat R) -> core R -> Prop) (k0 : nat) (Y : list (core R)) : Prop :=
  match Y with [] => True | G :: Y' => Q (msvd2 k0) G /\ cores_all Q (S k0) Y' end.

Lemma tt_struct (Q : (nat -> mat R -> mat R * mat R) -> core R -> Prop) (good : core R -> list (core R) -> Prop) :
  (forall sv G Qs, Q sv G -> core_tt_to_qtt OR sv G = Ok Qs -> good G Qs) ->
  forall Y k0 Zs, cores_all Q k0 Y ->
  sequence (mapi_from k0 (fun k G => core_tt_to_qtt OR (msvd2 k) G) Y) = Ok Zs -> Forall2 good Y Zs.
Proof.
  intros HQ. induction Y as [|G Y IH]; intros k0 Zs HC E; cbn [mapi_from sequence] in E.
  - inversion E. constructor.
  - cbn [cores_all] in HC. destruct HC as [H1 H2].
    destruct (core_tt_to_qtt OR (msvd2 k0) G) as [Zc|er] eqn:E1; cbn [rbind] in E; [|discriminate].
    destruct (sequence (mapi_from (S k0) (fun k G0 => core_tt_to_qtt OR (msvd2 k) G0) Y)) as [Zs'|er] eqn:E2;
      cbn [rbind] in E; [|discriminate].
    inversion E; subst Zs. constructor; [eapply HQ; eauto|eapply IH; eauto].
Qed.

(* what the per-core theorem gives for one core *)
Definition good (c : R) (G : core R) (Zc : list (core R)) : Prop :=
  length Zc = S q /\ chain (cr1 G) Zc (cr2 G) /\ Forall (fun Q => cn Q = 2%nat) Zc /\ cn G = (2 ^ S q)%nat /\
  sqrt (cdist2 OR G (merged OR Zc)) <= c.

Lemma run_merged (Qs : list (core R)) r rl v m : chain r Qs rl -> Forall (fun Q => cn Q = 2%nat) Qs ->
  length Qs = S q -> (m < 2 ^ S q)%nat -> run OR v Qs (bits_le (S q) m) = vstep OR v (merged OR Qs) m.
Proof.
  intros Hc H2 L Hm. destruct Qs as [|Q0 rest]; [discriminate|]. cbn [merged]. cbn [chain] in Hc. destruct Hc as [_ Hc].
  assert (Esh : cn Q0 :: shape rest = repeat 2%nat (S q)).
  { change (cn Q0 :: shape rest) with (shape (Q0 :: rest)). rewrite (shape_twos _ H2). now rewrite L. }
  pose proof (fold_merge_run OR OR_rng rest Q0 rl v m Hc) as X.
  rewrite Esh, prodn_twos, digits_F_twos in X. symmetry. exact (X Hm).
Qed.
Lemma merged_dims (Qs : list (core R)) r rl : chain r Qs rl -> Forall (fun Q => cn Q = 2%nat) Qs -> length Qs = S q ->
  cr1 (merged OR Qs) = r /\ cn (merged OR Qs) = (2 ^ S q)%nat /\ cr2 (merged OR Qs) = rl.
Proof.
  intros Hc H2 L. destruct Qs as [|Q0 rest]; [discriminate|]. cbn [merged]. cbn [chain] in Hc. destruct Hc as [Hr Hc].
  destruct (fold_merge_dims OR rest Q0 rl Hc) as (A & B & C). cbv zeta in A, B, C.
  split; [congruence|]. split; [|exact C]. rewrite B.
  change (cn Q0 :: shape rest) with (shape (Q0 :: rest)). rewrite (shape_twos _ H2), L. apply prodn_twos.
Qed.

Lemma good_near c Y Zs : Forall2 (good c) Y Zs -> Forall2 (cnear c) Y (map (merged OR) Zs).
Proof.
  induction 1 as [|G Zc Y Zs (L & C & T2 & Hn & Hd) _ IH]; cbn [map]; constructor; [|exact IH].
  destruct (merged_dims Zc (cr1 G) (cr2 G) C T2 L) as (A & B & D). unfold cnear. rewrite A, B, D, Hn. auto.
Qed.
Lemma good_chain c : forall Y Zs r, Forall2 (good c) Y Zs -> chain r Y 1 ->
  chain r (concat Zs) 1 /\ chain r (map (merged OR) Zs) 1 /\ Forall (fun Q => cn Q = 2%nat) (concat Zs) /\
  length (concat Zs) = (length Y * S q)%nat.
Proof.
  intros Y Zs r HF. revert r. induction HF as [|G Zc Y Zs (L & C & T2 & Hn & Hd) _ IH]; intros r HC; cbn [chain] in HC.
  - cbn. auto.
  - destruct HC as [Hr HC]. destruct (IH _ HC) as (I1 & I2 & I3 & I4). cbn [concat map chain length].
    destruct (merged_dims Zc (cr1 G) (cr2 G) C T2 L) as (A & B & D).
    split; [apply chain_app; exists (cr2 G); split; [rewrite <- Hr; exact C|exact I1]|].
    split; [split; [congruence|rewrite D; exact I2]|].
    split; [apply Forall_app; split; assumption|]. rewrite app_length, L, I4. lia.
Qed.
Lemma run_concat c : forall Y Zs, Forall2 (good c) Y Zs -> forall v idx, inb (shape Y) idx ->
  run OR v (concat Zs) (flat_map (bits_le (S q)) idx) = run OR v (map (merged OR) Zs) idx.
Proof.
  induction 1 as [|G Zc Y Zs (L & C & T2 & Hn & Hd) _ IH]; intros v idx Hi; cbn [shape map] in Hi.
  - inversion Hi; subst. reflexivity.
  - inversion Hi as [|i n idx' ns Hin Hi']; subst. cbn [concat flat_map map run].
    rewrite (run_app OR) by (rewrite bits_le_length; lia).
    rewrite (run_merged Zc (cr1 G) (cr2 G) v i C T2 L) by (rewrite <- Hn; exact Hin).
    apply IH. exact Hi'.
Qed.

Theorem tt_to_qtt_err_gen (Q : (nat -> mat R -> mat R * mat R) -> core R -> Prop) c : 0 <= c ->
  (forall sv G Qs, Q sv G -> core_tt_to_qtt OR sv G = Ok Qs -> good c G Qs) ->
  forall Y Z, chain 1 Y 1 -> cores_all Q 0 Y -> tt_to_qtt OR msvd2 Y = Ok Z ->
  length Z = (length Y * S q)%nat /\ chain 1 Z 1 /\ Forall (fun Q => cn Q = 2%nat) Z /\
  sqrt (msum OR (shape Y) (fun idx =>
          (get OR Y idx - get OR Z (flat_map (bits_le (S q)) idx)) *
          (get OR Y idx - get OR Z (flat_map (bits_le (S q)) idx)))) <= pbound c Y.
Proof.
  intros Hc HQ Y Z CY HA E. unfold tt_to_qtt in E.
  destruct (sequence (mapi_from 0 (fun k G => core_tt_to_qtt OR (msvd2 k) G) Y)) as [Zs|er] eqn:ES; cbn [rmap] in E;
    [|discriminate].
  inversion E; subst Z. clear E.
  pose proof (tt_struct Q (good c) HQ Y 0%nat Zs HA ES) as HF.
  destruct (good_chain c Y Zs 1%nat HF CY) as (C1 & C2 & C3 & C4).
  split; [exact C4|]. split; [exact C1|]. split; [exact C3|].
  pose proof (chain_pert c Hc Y (map (merged OR) Zs) (good_near c Y Zs HF) 1%nat CY C2) as B.
  refine (Rle_trans _ _ _ (Req_le _ _ _) B). f_equal. unfold td2. cbn [bsum].
  change (msum OR (shape Y) (fun idx => (get OR Y idx - get OR (concat Zs) (flat_map (bits_le (S q)) idx)) *
                                        (get OR Y idx - get OR (concat Zs) (flat_map (bits_le (S q)) idx))) =
          0 + msum OR (shape Y) (fun idx => (dget OR Y idx 1 0 0 - dget OR (map (merged OR) Zs) idx 1 0 0) *
                                            (dget OR Y idx 1 0 0 - dget OR (map (merged OR) Zs) idx 1 0 0))).
  rewrite Rplus_0_l. apply (msum_ext OR). intros idx Hidx.
  unfold get. rewrite (run_concat c Y Zs HF [o1 OR] idx Hidx). reflexivity.
Qed.
End Tot.

(* ---------- the per-core hypotheses of C17_core_tt_to_qtt_error_R on every core ---------- *)
Definition core_hyp (P : mat R -> mat R -> mat R -> Prop) (q : nat) (sv : nat -> mat R -> mat R * mat R) (G : core R) : Prop :=
  cn G = (2 ^ S q)%nat /\ (0 < cr1 G)%nat /\ calls_all OR P sv G (S q).

Theorem tt_to_qtt_err_R msvd2 q e Y Z : 0 <= e -> chain 1 Y 1 ->
  cores_all msvd2 (core_hyp (fun M U V => fact_ok OR M U V /\ res2 OR M U V <= e * e) q) 0 Y ->
  tt_to_qtt OR msvd2 Y = Ok Z ->
  length Z = (length Y * S q)%nat /\ chain 1 Z 1 /\ Forall (fun Q => cn Q = 2%nat) Z /\
  sqrt (msum OR (shape Y) (fun idx =>
          (get OR Y idx - get OR Z (flat_map (bits_le (S q)) idx)) *
          (get OR Y idx - get OR Z (flat_map (bits_le (S q)) idx)))) <= pbound (sqrt (INR (S q)) * e) Y /\
  pbound (sqrt (INR (S q)) * e) Y <= sbound (sqrt (INR (S q)) * e) Y.
Proof.
  intros He CY HA E.
  assert (Hc : 0 <= sqrt (INR (S q)) * e) by (pose proof (sqrt_pos (INR (S q))); nra).
  destruct (tt_to_qtt_err_gen msvd2 q (core_hyp (fun M U V => fact_ok OR M U V /\ res2 OR M U V <= e * e) q)
              (sqrt (INR (S q)) * e) Hc) with (Y := Y) (Z := Z) as (A & B & C & D); auto.
  - intros sv G Qs (Hn & Hr & HCa) EQ.
    destruct (core_tt_to_qtt_bound sv G q Qs e He Hn Hr HCa EQ) as (L & Ch & T2 & _ & _ & Bd).
    unfold good. auto.
  - repeat split; auto. apply pbound_le_sbound. exact Hc.
Qed.

(* the projection contract implies the step contract of C02 *)
Lemma trunc_fact_ok (A U V : mat R) : trunc_ok OR A U V -> fact_ok OR A U V.
Proof.
  intros (D1 & D2 & D3 & HO & HU). split; auto.
  - intros a t Ha Ht.
    rewrite (bsum_ext OR (mc U) _ (fun c => bsum OR (mc A) (fun t' => mget OR A a t' * (mget OR V c t' * mget OR V c t)))).
    2:{ intros c Hc. rewrite HU by lia. rewrite <- (bsum_mul_r OR OR_rng). apply (bsum_ext OR). intros t' _. cbn. ring. }
    rewrite (bsum_swap OR OR_rng). apply (bsum_ext OR). intros t' _. now rewrite (bsum_mul_l OR OR_rng).
  - apply (rows_orth_porth OR). exact HO.
Qed.
Theorem tt_to_qtt_err_proj_R msvd2 q e Y Z : 0 <= e -> chain 1 Y 1 ->
  cores_all msvd2 (core_hyp (fun M U V => trunc_ok OR M U V /\ res2 OR M U V <= e * e) q) 0 Y ->
  tt_to_qtt OR msvd2 Y = Ok Z ->
  sqrt (msum OR (shape Y) (fun idx =>
          (get OR Y idx - get OR Z (flat_map (bits_le (S q)) idx)) *
          (get OR Y idx - get OR Z (flat_map (bits_le (S q)) idx)))) <= pbound (sqrt (INR (S q)) * e) Y.
Proof.
  intros He CY HA E. apply (tt_to_qtt_err_R msvd2 q e Y Z He CY); [|exact E].
  clear - HA. revert HA. generalize 0%nat. induction Y as [|G Y IH]; intros k0; cbn [cores_all]; [auto|].
  intros [(Hn & Hr & HC) H2]. split; [|apply IH; exact H2]. split; [exact Hn|]. split; [exact Hr|].
  eapply calls_all_impl; [|exact HC]. cbv beta. intros A U V [H1 H3]. split; [apply trunc_fact_ok; exact H1|exact H3].
Qed.

(* the conversion never fails when every mode size is 2^(q+1) *)
Lemma tt_to_qtt_ok msvd2 q (Y : list (core R)) : Forall (fun G => cn G = (2 ^ S q)%nat) Y ->
  exists Z, tt_to_qtt OR msvd2 Y = Ok Z.
Proof.
  intros HF. unfold tt_to_qtt.
  assert (X : forall k0, exists Zs, sequence (mapi_from k0 (fun k G => core_tt_to_qtt OR (msvd2 k) G) Y) = Ok Zs).
  { induction HF as [|G Y Hn _ IH]; intros k0; cbn [mapi_from sequence]; [eexists; reflexivity|].
    destruct (core_tt_to_qtt_ok OR (msvd2 k0) G q Hn) as (Qs & ->). destruct (IH (S k0)) as (Zs & ->).
    cbn [rbind]. eexists; reflexivity. }
  destruct (X 0%nat) as (Zs & ->). cbn [rmap]. eexists; reflexivity.
Qed.

(* ---------- the MODEL of teneva.matrix_svd on every core, the same e and r everywhere (tt_to_qtt(Y, e, r)) ---------- *)
Section TotSvd.
Variable eigh : nat -> nat -> mat R -> list R * mat R.
Variable argsort : nat -> nat -> list R -> list nat.
Hypothesis eigh_spec : forall k c C, msym C -> eigh_ok C (fst (eigh k c C)) (snd (eigh k c C)).
Hypothesis argsort_spec : forall k c l, argsort_ok l (argsort k c l).

Theorem tt_to_qtt_matrix_svd q (e : R) (rcap : Z) (Y : list (core R)) : 0 <= e -> chain 1 Y 1 ->
  Forall (fun G => cn G = (2 ^ S q)%nat /\ (1 <= cr1 G)%nat /\ (1 <= cr2 G)%nat /\ (Z.of_nat (cr1 G * cn G) < rcap)%Z) Y ->
  exists Z, tt_to_qtt OR (fun k c M => matrix_svd OR (eigh k) (argsort k) c M e rcap) Y = Ok Z /\
    length Z = (length Y * S q)%nat /\ chain 1 Z 1 /\ Forall (fun Q => cn Q = 2%nat) Z /\
    sqrt (msum OR (shape Y) (fun idx =>
            (get OR Y idx - get OR Z (flat_map (bits_le (S q)) idx)) *
            (get OR Y idx - get OR Z (flat_map (bits_le (S q)) idx)))) <= pbound (sqrt (INR (S q)) * e) Y /\
    pbound (sqrt (INR (S q)) * e) Y <= sbound (sqrt (INR (S q)) * e) Y.
Proof.
  intros He CY HF. set (msvd2 := fun k c M => matrix_svd OR (eigh k) (argsort k) c M e rcap).
  destruct (tt_to_qtt_ok msvd2 q Y) as (Z & EZ).
  { eapply Forall_impl; [|exact HF]. cbv beta. tauto. }
  exists Z. split; [exact EZ|]. apply (tt_to_qtt_err_R msvd2 q e Y Z He CY); [|exact EZ].
  clear - HF He eigh_spec argsort_spec. generalize 0%nat. induction HF as [|G Y (Hn & H1 & H2 & Hcap) _ IH]; intros k0;
    cbn [cores_all]; [exact I|]. split; [|apply IH].
  split; [exact Hn|]. split; [lia|].
  apply (calls_contract (msvd2 k0) (e * e) rcap); auto.
  exact (svd_contract (eigh k0) (argsort k0) (eigh_spec k0) (argsort_spec k0) rcap e He).
Qed.
End TotSvd.
