(* C20, part 5: the "skeleton steps lose nothing" hypothesis of the recovery theorem follows from the usual contract
   of a thin SVD (A = U diag(s) V, V V^T = I) when the singular values cut off by the rank rule vanish. *)
From Coq Require Import List Arith Lia PeanoNat ZArith Bool.
From TV Require Import Num.Ops Lin.Tab Lin.BigSum Lin.Mat TT.Chain Model.Transformation Model.Svd Model.Sample
  Model.SvdInc Proofs.SvdIncP Proofs.SvdIncP2 Proofs.SvdIncP3 Proofs.SvdIncP4.
Import ListNotations.

Section SkelFromSvd.
Context {T : Type} (K : ops T).
Notation "0" := (o0 K). Notation "1" := (o1 K).
Infix "+" := (oadd K). Infix "*" := (omul K).
Hypothesis Rth : rng K.
Add Ring RrIncE : Rth.
Notation bsum := (bsum K).
Variable svdo : nat -> mat T -> mat T * list T * mat T.

(* contract of np.linalg.svd(A, full_matrices=False) on the argument A, plus: the singular values beyond the rank q
   selected by matrix_skeleton's rule vanish; sqrt is exact on the kept ones, which are invertible or zero *)
Definition svd_exact_on (c : nat) (A : mat T) (e : T) (rcap : Z) : Prop :=
  let U := fst (fst (svdo c A)) in let s := snd (fst (svdo c A)) in let V := snd (svdo c A) in
  let p := length s in
  let q := rank_select K (map (fun x => x * x) s) (e * e) rcap in
  (1 <= p)%nat /\ mr U = mr A /\
  (forall i j, (i < mr A)%nat -> (j < mc A)%nat ->
      mget K A i j = bsum p (fun k => mget K U i k * (nth k s 0 * mget K V k j))) /\
  (forall k k', (k < p)%nat -> (k' < p)%nat ->
      bsum (mc A) (fun j => mget K V k j * mget K V k' j) = delta K k k') /\
  (forall k, (q <= k)%nat -> (k < p)%nat -> nth k s 0 = 0) /\
  (exists w : nat -> T, forall k, (k < q)%nat ->
      osqrt K (nth k s 0) * osqrt K (nth k s 0) = nth k s 0 /\ nth k s 0 * w k = osqrt K (nth k s 0)).

Lemma rank_select_le x e2 rcap : (1 <= length x)%nat -> (rank_select K x e2 rcap <= length x)%nat.
Proof. intros H. unfold rank_select. lia. Qed.

Lemma skeleton_exact_from_svd c A e rcap : svd_exact_on c A e rcap ->
  let U' := fst (matrix_skeleton K svdo c A e rcap false GiveM) in
  exists V' Z : nat -> nat -> T,
    (forall i j, (i < mr A)%nat -> (j < mc A)%nat -> mget K A i j = bsum (mc U') (fun b => mget K U' i b * V' b j)) /\
    (forall i b, (i < mr A)%nat -> (b < mc U')%nat -> mget K U' i b = bsum (mc A) (fun j => mget K A i j * Z j b)).
Proof.
  unfold svd_exact_on, matrix_skeleton. destruct (svdo c A) as [[U s] V]. cbn [fst snd].
  set (q := rank_select K (map (fun x => x * x) s) (e * e) rcap).
  intros (Hp & HUr & HA & HVV & Hcut & (w & Hw)).
  assert (Hq : (q <= length s)%nat).
  { unfold q. rewrite <- (map_length (fun x => x * x) s). apply rank_select_le. now rewrite map_length. }
  assert (Lsq : length (map (osqrt K) (firstn q s)) = q) by (rewrite map_length, firstn_length; lia).
  assert (Ht : forall b, (b < q)%nat -> nth b (map (osqrt K) (firstn q s)) 0 = osqrt K (nth b s 0)).
  { intros b Hb. rewrite nth_indep with (d' := osqrt K 0) by (rewrite Lsq; auto).
    rewrite map_nth. now rewrite nth_firstn_lt. }
  (* entries of the left factor U' = U[:, :q] diag(sqrt s[:q]) *)
  assert (HU' : forall i b, (i < mr A)%nat -> (b < q)%nat ->
     mget K (mmul K (mtakec K U q) (diagl K (map (osqrt K) (firstn q s)))) i b = mget K U i b * osqrt K (nth b s 0)).
  { intros i b Hi Hb. rewrite mget_mmul by (cbn [mr mc mtakec mkmat diagl]; rewrite ?Lsq; lia).
    cbn [mc mtakec mkmat]. rewrite (bsum_single K Rth q b); auto.
    - unfold mtakec, diagl. rewrite !mget_mk by (rewrite ?Lsq; lia). rewrite Nat.eqb_refl, Ht by auto. reflexivity.
    - intros k Hk Hne. unfold diagl. rewrite (mget_mk K) by (rewrite ?Lsq; lia).
      destruct (Nat.eqb_spec k b); [contradiction|ring]. }
  cbv zeta. cbn [mc mmul mkmat diagl]. rewrite Lsq.
  exists (fun b j => osqrt K (nth b s 0) * mget K V b j), (fun j b => mget K V b j * w b). split.
  - intros i j Hi Hj. rewrite HA by auto.
    replace (length s) with (q + (length s - q))%nat by lia. rewrite bsum_split by auto.
    rewrite (bsum_0' K Rth (length s - q)).
    2:{ intros k Hk. rewrite Hcut by lia. ring. }
    transitivity (bsum q (fun k => mget K U i k * (nth k s 0 * mget K V k j))); [ring|].
    apply bsum_ext; intros b Hb. rewrite HU' by auto. destruct (Hw b Hb) as (Hs1 & _).
    rewrite <- Hs1 at 1. ring.
  - intros i b Hi Hb. rewrite HU' by auto.
    transitivity (bsum (mc A) (fun j => bsum (length s) (fun k => mget K U i k * (nth k s 0 * mget K V k j))
                                         * (mget K V b j * w b))).
    2:{ apply bsum_ext; intros j Hj. now rewrite HA by auto. }
    transitivity (bsum (length s) (fun k => mget K U i k * nth k s 0 * w b *
                                      bsum (mc A) (fun j => mget K V k j * mget K V b j))).
    2:{ transitivity (bsum (length s) (fun k => bsum (mc A) (fun j =>
                        mget K U i k * (nth k s 0 * mget K V k j) * (mget K V b j * w b)))).
        - apply bsum_ext; intros k Hk. rewrite <- bsum_mul_l by auto. apply bsum_ext; intros j Hj. ring.
        - rewrite bsum_swap by auto. apply bsum_ext; intros j Hj. now rewrite <- bsum_mul_r by auto. }
    rewrite (bsum_single K Rth (length s) b); [| lia |].
    + rewrite HVV by lia. unfold delta. rewrite Nat.eqb_refl. destruct (Hw b Hb) as (_ & Hs2).
      rewrite <- Hs2. ring.
    + intros k Hk Hne. rewrite HVV by lia. unfold delta. destruct (Nat.eqb_spec k b); [contradiction|ring].
Qed.
End SkelFromSvd.

(* recovery with the SVD contract in place of the skeleton-exactness hypothesis *)
Section RecoverSvd.
Context {T : Type} (K : ops T).
Hypothesis Rth : rng K.
Variable svdo : nat -> mat T -> mat T * list T * mat T.
Variable lstsq : nat -> mat T -> mat T -> mat T.
Hypothesis svd_rows : forall c A, mr (fst (fst (svdo c A))) = mr A.
Hypothesis Hlsq : lstsq_solves K lstsq.
Variables (ns : list nat) (II : list (list nat)) (idx idm : list nat)
          (PS : list (list (list nat) * list (list nat))).
Hypothesis Hlay : layout ns II idx idm PS.
Hypothesis Hd : 2 <= length ns.
Hypothesis Hpos : Forall (fun n => (0 < n)%nat) ns.
Variable F : list nat -> T.
Variables (e : T) (rcap : Z).
Hypothesis Hsvd : forall c k, (k < length ns)%nat -> skel_used ns PS rcap k = true ->
  svd_exact_on K svdo c (blockmat K ns idx PS (map F II) k) e (skel_r ns rcap k).
Hypothesis Hrank : forall k, (1 <= k)%nat -> (k < length ns)%nat -> rank_hyp K ns PS F k.

Theorem incomplete_recovers_svd : (1 <= rcap)%Z ->
  exists Yres, svd_incomplete K svdo lstsq II (map F II) idx idm e rcap = Ok Yres /\
    shape Yres = ns /\ chain 1%nat Yres 1%nat /\ Forall (fun G => (Z.of_nat (cr2 G) <= rcap)%Z) Yres /\
    forall i, inb ns i -> get K Yres i = F i.
Proof.
  apply (incomplete_recovers_rank K Rth svdo lstsq svd_rows Hlsq ns II idx idm PS Hlay Hd Hpos F e rcap); auto.
  intros c k Hk Hu. unfold skel_exact_at.
  exact (skeleton_exact_from_svd K Rth svdo c _ e (skel_r ns rcap k) (Hsvd c k Hk Hu)).
Qed.
End RecoverSvd.
