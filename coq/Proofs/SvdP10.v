(* Lemmas for C03, part 10 (reals): as long as nothing of non-zero energy has been discarded, the matrix factorised at
   step k is P^T X_k with X_k the k-th unfolding of the INPUT and P orthonormal columns; hence the recorded singular
   values (and right factor) of step k are those of a contract-meeting SVD of X_k itself: X_k = U' diag(s) V. *)
From Coq Require Import List Arith Lia PeanoNat ZArith Bool Ring Reals Lra Psatz.
From TV Require Import Num.Ops Lin.Tab Lin.BigSum Lin.Mat TT.Chain Model.ActOne Model.Transformation
  Model.Svd Proofs.ActOneP Proofs.SvdP Proofs.SvdP2 Proofs.SvdP3 Proofs.SvdP4 Proofs.SvdP8.
Import ListNotations.
Local Open Scope R_scope.

Lemma ocolsf_ext (f g : nat -> nat -> R) m q :
  (forall i c, (i < m)%nat -> (c < q)%nat -> f i c = g i c) -> ocolsf OR g m q -> ocolsf OR f m q.
Proof.
  intros H Hg c c' Hc Hc'. rewrite <- (Hg c c' Hc Hc'). apply bsum_ext; intros i Hi. now rewrite !H by auto.
Qed.

(* columns of W (q n rows, orthonormal) lifted through P (orthonormal columns): rows r' = r n + i *)
Definition lift (P W : nat -> nat -> R) (q n : nat) (r' k : nat) : R :=
  bsum OR q (fun a => P (r' / n)%nat a * W (a * n + r' mod n)%nat k).
Lemma lift_at P W q n r i k : (i < n)%nat -> lift P W q n (r * n + i) k = bsum OR q (fun a => P r a * W (a * n + i)%nat k).
Proof. intros Hi. unfold lift. destruct (divmod_mk r i n Hi) as [D M]. now rewrite D, M. Qed.
Lemma lift_ocols P W Npre q n m : ocolsf OR P Npre q -> ocolsf OR W (q * n) m ->
  ocolsf OR (lift P W q n) (Npre * n) m.
Proof.
  intros HP HW k l Hk Hl. rewrite (bsum_prod OR OR_rng).
  transitivity (bsum OR Npre (fun r => bsum OR n (fun i =>
     bsum OR q (fun a => P r a * W (a * n + i)%nat k) * bsum OR q (fun a => P r a * W (a * n + i)%nat l)))).
  { apply bsum_ext; intros r Hr. apply bsum_ext; intros i Hi. now rewrite !lift_at by auto. }
  rewrite (bsum_swap OR OR_rng).
  transitivity (bsum OR n (fun i => bsum OR q (fun a => W (a * n + i)%nat k * W (a * n + i)%nat l))).
  { apply bsum_ext; intros i Hi.
    apply (iso_bilin OR OR_rng P Npre q (fun a => W (a * n + i)%nat k) (fun a => W (a * n + i)%nat l) HP). }
  rewrite (bsum_swap OR OR_rng). rewrite <- (HW k l Hk Hl). now rewrite (bsum_prod OR OR_rng).
Qed.

Section Link.
Variable data : list R.
(* the unfolding of the input with Rn rows: data.reshape(Rn, C) *)
Definition unfold_mat (Rn C : nat) : mat R := mkmat Rn C (fun r p => nth (r * C + p) data 0).

(* the produced prefix P (orthonormal columns) times the remainder Zm is the input *)
Definition inv (Npre : nat) (P : nat -> nat -> R) (Zm : mat R) (q N : nat) : Prop :=
  ocolsf OR P Npre q /\
  forall r p, (r < Npre)%nat -> (p < N)%nat -> nth (r * N + p) data 0 = bsum OR q (fun a => P r a * mget OR Zm a p).

Section Step.
Variables (Npre : nat) (P : nat -> nat -> R) (Zm : mat R) (q n N' : nat) (U : mat R) (s : list R) (V : mat R).
Hypothesis Hq : (0 < q)%nat.
Hypothesis Hn : (0 < n)%nat.
Hypothesis HmrZ : mr Zm = q.
Hypothesis HmcZ : mc Zm = (n * N')%nat.
Hypothesis Hinv : inv Npre P Zm q (n * N').
Hypothesis HA : svd_ok OR (step_mat OR Zm q n) U s V.
Local Notation A := (step_mat OR Zm q n).

Lemma data_rows r i p : (r < Npre)%nat -> (i < n)%nat -> (p < N')%nat ->
  nth ((r * n + i) * N' + p) data 0 = bsum OR q (fun a => P r a * mget OR A (a * n + i) p).
Proof.
  intros Hr Hi Hp. destruct Hinv as [_ E].
  replace ((r * n + i) * N' + p)%nat with (r * (n * N') + (i * N' + p))%nat by lia.
  rewrite E by (auto; nia). apply bsum_ext; intros a Ha.
  now rewrite (step_mat_get OR Zm q n N' a i p) by auto.
Qed.

(* the input unfolding with Npre*n rows has a contract-meeting SVD with the SAME singular values and right factor *)
Lemma link_svd : svd_ok OR (unfold_mat (Npre * n) N')
                          (mkmat (Npre * n) (length s) (lift P (mget OR U) q n)) s V.
Proof.
  destruct (step_mat_dims OR Zm q n N' HmrZ HmcZ Hq Hn) as [HmrA HmcA].
  destruct HA as (L & E1 & E2 & E3 & E4 & EA & OU & OV & Ls). destruct Hinv as [HP _].
  unfold svd_ok. cbn [mr mc unfold_mat mkmat]. rewrite HmcA in *. rewrite HmrA in *.
  repeat split; auto.
  - intros r' p' Hr' Hp'. unfold unfold_mat. rewrite mget_mk by auto.
    pose proof (Nat.div_mod r' n ltac:(lia)) as DM.
    assert (Hr : (r' / n < Npre)%nat) by (apply Nat.div_lt_upper_bound; lia).
    assert (Hi : (r' mod n < n)%nat) by (apply Nat.mod_upper_bound; lia).
    replace (r' * N' + p')%nat with ((r' / n * n + r' mod n) * N' + p')%nat by (f_equal; f_equal; lia).
    rewrite data_rows by auto.
    transitivity (bsum OR q (fun a => bsum OR (length s) (fun k =>
                    P (r' / n)%nat a * mget OR U (a * n + r' mod n) k * (nth k s 0 * mget OR V k p')))).
    { apply bsum_ext; intros a Ha. rewrite EA by (auto; nia). rewrite <- (bsum_mul_l OR OR_rng).
      apply bsum_ext; intros k Hk. cbn. ring. }
    rewrite (bsum_swap OR OR_rng). apply bsum_ext; intros k Hk.
    rewrite mget_mk by auto. unfold lift. rewrite <- (bsum_mul_r OR OR_rng). reflexivity.
  - apply (ocolsf_ext _ (lift P (mget OR U) q n)).
    + intros i c Hi Hc. now rewrite mget_mk.
    + apply lift_ocols; auto.
Qed.


(* if the step discards nothing of non-zero energy, the invariant carries over to the next remainder *)
Variable q' : nat.
Hypothesis Hq' : (1 <= q' <= length s)%nat.
Hypothesis Htail : tail OR s q' = 0.
Local Notation G := (mtakec OR U q').
Local Notation Zr := (mmul OR (diagl OR (firstn q' s)) (mtaker OR V q')).

Lemma resid_zero i j : (i < mr A)%nat -> (j < mc A)%nat -> resid OR A U s V q' i j = 0.
Proof.
  intros Hi Hj. pose proof (skel_resid_frob OR OR_rng A U s V q' HA Hq') as F. rewrite Htail in F.
  set (f := fun j => bsum OR (mr A) (fun i => omul OR (resid OR A U s V q' i j) (resid OR A U s V q' i j))) in *.
  assert (N1 : forall j, (j < mc A)%nat -> 0 <= f j).
  { intros j' _. unfold f. apply bsumR_nonneg. intros i' _. exact (Rle_0_sqr _). }
  pose proof (bsumR_term_le (mc A) f j N1 Hj) as T1. rewrite F in T1. unfold f in T1.
  pose proof (bsumR_term_le (mr A) (fun i => omul OR (resid OR A U s V q' i j) (resid OR A U s V q' i j)) i
                ltac:(intros; exact (Rle_0_sqr _)) Hi) as T2. cbv beta in T2. cbn [OR omul] in T2.
  assert (Z : resid OR A U s V q' i j * resid OR A U s V q' i j = 0).
  { pose proof (Rle_0_sqr (resid OR A U s V q' i j)) as S0. unfold Rsqr in S0. cbn [OR omul] in T1. lra. }
  exact (Rsqr_0_uniq _ Z).
Qed.

Lemma next_inv : inv (Npre * n) (lift P (mget OR G) q n) Zr q' N'.
Proof.
  destruct (step_mat_dims OR Zm q n N' HmrZ HmcZ Hq Hn) as [HmrA HmcA]. destruct Hinv as [HP _].
  split.
  - apply lift_ocols; auto. rewrite <- HmrA. exact (skel_G_orth OR A U s V q' HA Hq').
  - intros r' p' Hr' Hp'.
    pose proof (Nat.div_mod r' n ltac:(lia)) as DM.
    assert (Hr : (r' / n < Npre)%nat) by (apply Nat.div_lt_upper_bound; lia).
    assert (Hi : (r' mod n < n)%nat) by (apply Nat.mod_upper_bound; lia).
    replace (r' * N' + p')%nat with ((r' / n * n + r' mod n) * N' + p')%nat by (f_equal; f_equal; lia).
    rewrite data_rows by auto.
    transitivity (bsum OR q (fun a => bsum OR q' (fun c =>
                    P (r' / n)%nat a * mget OR G (a * n + r' mod n) c * mget OR Zr c p'))).
    { apply bsum_ext; intros a Ha.
      pose proof (resid_zero (a * n + r' mod n) p' ltac:(rewrite HmrA; nia) ltac:(rewrite HmcA; exact Hp')) as Z0.
      unfold resid in Z0. cbn [OR osub omul] in Z0.
      assert (E : mget OR A (a * n + r' mod n) p' = bsum OR q' (fun c => mget OR G (a * n + r' mod n) c * mget OR Zr c p')) by lra.
      rewrite E. rewrite <- (bsum_mul_l OR OR_rng). apply bsum_ext; intros c Hc. cbn. ring. }
    rewrite (bsum_swap OR OR_rng). apply bsum_ext; intros c Hc.
    unfold lift. rewrite <- (bsum_mul_r OR OR_rng). reflexivity.
Qed.
End Step.

(* ---------------------------------------------------------------- along the run *)
Section Run.
Variable svdo : nat -> mat R -> mat R * list R * mat R.
Variables (e : R) (rcap : Z).

(* at every step the recorded (s, V) belong to a contract-meeting SVD of the corresponding unfolding of the input *)
Fixpoint linked (Npre k0 : nat) (Zm : mat R) (q : nat) (ns : list nat) {struct ns} : Prop :=
  match ns with
  | [] => True
  | k :: ns' =>
    match ns' with
    | [] => True
    | _ :: _ =>
      let '(U, s, V) := svdo k0 (step_mat OR Zm q k) in
      (exists U', svd_ok OR (unfold_mat (Npre * k) (prodn ns')) U' s V) /\
      linked (Npre * k) (S k0) (next_Z OR e rcap s V) (sel_rank OR s e rcap) ns'
    end
  end.

Theorem linked_run : forall ns rhos Npre P k0 Zm q, Forall (fun n => (0 < n)%nat) ns -> (0 < q)%nat ->
  mr Zm = q -> mc Zm = prodn ns -> inv Npre P Zm q (prodn ns) ->
  calls_ok OR svdo e rcap k0 Zm q ns -> exact_run svdo e rcap rhos k0 Zm q ns -> linked Npre k0 Zm q ns.
Proof.
  induction ns as [|k ns IH]; intros rhos Npre P k0 Zm q Hpos Hq HmrZ HmcZ Hinv Hok Hex; [exact I|].
  pose proof (Forall_inv Hpos) as Hk. pose proof (Forall_inv_tail Hpos) as Hpos'. cbv beta in Hk.
  destruct ns as [|k' ns]; [exact I|].
  cbn [exact_run] in Hex. destruct rhos as [|rho rhos]; [contradiction|].
  cbn [linked].
  destruct (svdo k0 (step_mat OR Zm q k)) as [[U s] V] eqn:E.
  unfold calls_ok in Hok. rewrite (sweep_fold_cons OR svdo e rcap _ _ _ _ _ _ _ _ _ _ _ E) in Hok.
  destruct Hok as [HA Hok]. destruct Hex as (Hp & Hb & Hc & Hex).
  destruct (sel_rank_exact s e rcap rho Hp Hb Hc) as (Eq & Cf & Tz).
  assert (HmcZ' : mc Zm = (k * prodn (k' :: ns))%nat) by exact HmcZ.
  assert (Hq' : (1 <= sel_rank OR s e rcap <= length s)%nat).
  { destruct HA as (L & _). pose proof (sel_rank_bounds OR s e rcap) as B. lia. }
  split.
  - eexists. apply (link_svd Npre P Zm q k (prodn (k' :: ns)) U s V); auto.
  - destruct (step_mat_dims OR Zm q k (prodn (k' :: ns)) HmrZ HmcZ' Hq Hk) as [HmrA HmcA].
    destruct (skel_dims OR _ U s V _ HA Hq') as (_ & _ & D3 & D4).
    apply (IH rhos (Npre * k)%nat (lift P (mget OR (mtakec OR U (sel_rank OR s e rcap))) q k)); auto; try lia.
    + unfold next_Z. rewrite D4. exact HmcA.
    + apply (next_inv Npre P Zm q k (prodn (k' :: ns)) U s V); auto. rewrite Eq. exact Tz.
Qed.

(* from the dense input: the initial prefix is the 1 x 1 identity *)
Theorem exact_ranks_link ns rhos : Forall (fun n => (0 < n)%nat) ns ->
  calls_ok OR svdo e rcap 0 (mkmat 1 (prodn ns) (fun _ j => nth j data 0)) 1 ns ->
  exact_run svdo e rcap rhos 0 (mkmat 1 (prodn ns) (fun _ j => nth j data 0)) 1 ns ->
  linked 1 0 (mkmat 1 (prodn ns) (fun _ j => nth j data 0)) 1 ns.
Proof.
  intros Hpos Hok Hex. apply (linked_run ns rhos 1%nat (fun _ _ => 1)); auto.
  split.
  - intros c c' Hc Hc'. replace c with O by lia. replace c' with O by lia. cbn. ring.
  - intros r p Hr Hp. replace r with O by lia. cbn [bsum]. rewrite mget_mk by (auto; lia). cbn. ring.
Qed.
End Run.
End Link.

(* non-vacuity: the 2 x 2 run of SvdP4 has an exact-rank spectrum (2, 1), e = 1/2 below it, cap 10 *)
Lemma exact_run_example :
  exact_run ex_svdo (1/2) 10 [2%nat] 0 (mkmat 1 (prodn [2; 2]%nat) (fun _ j => nth j ex_data 0)) 1 [2; 2]%nat.
Proof.
  cbn [exact_run]. unfold ex_svdo. repeat split; try (cbn; lia).
  - intros i Hi. destruct i as [|[|i]]; try lia; cbn; lra.
  - intros i Hi. destruct i as [|[|i]]; try lia. cbn. destruct i; reflexivity.
  - intros i Hi. destruct i as [|[|i]]; try lia; cbn; lra.
Qed.
