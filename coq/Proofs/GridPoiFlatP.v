(* C18, part 3: grid_flat enumerates every multi-index below n exactly once, first index fastest. *)
From Coq Require Import List Arith Lia PeanoNat.
From TV Require Import Num.Ops Lin.Tab Model.GridInd Model.GridPoi.
Import ListNotations.

(* the position of a multi-index in Fortran order: i0 + n0 * (i1 + n1 * (i2 + ...)) *)
Fixpoint undigits_F (ns idx : list nat) : nat :=
  match ns, idx with
  | n :: ns', i :: idx' => i + n * undigits_F ns' idx'
  | _, _ => 0
  end.
Definition prodn (ns : list nat) : nat := fold_right Nat.mul 1 ns.
(* idx is a multi-index of the grid: same length as ns and i_k < n_k *)
Definition inbox (ns idx : list nat) : Prop := Forall2 lt idx ns.

Lemma digits_undigits ns idx : inbox ns idx -> digits_F ns (undigits_F ns idx) = idx.
Proof.
  unfold inbox. induction 1 as [|i n idx ns Hi _ IH]; [reflexivity|]. cbn [digits_F undigits_F]. f_equal.
  - rewrite (Nat.mul_comm n), Nat.mod_add by lia. apply Nat.mod_small; lia.
  - rewrite (Nat.mul_comm n), Nat.div_add by lia. rewrite (Nat.div_small i n) by lia. exact IH.
Qed.
Lemma undigits_digits ns : forall t, t < prodn ns -> undigits_F ns (digits_F ns t) = t.
Proof.
  induction ns as [|n ns IH]; intros t Ht; cbn [digits_F undigits_F prodn fold_right] in *; [lia|].
  fold (prodn ns) in Ht. destruct (Nat.eq_dec n 0) as [->|Hn]; [lia|].
  rewrite IH.
  - rewrite (Nat.div_mod t n) at 3 by lia. lia.
  - apply Nat.div_lt_upper_bound; lia.
Qed.
Lemma undigits_lt ns idx : inbox ns idx -> undigits_F ns idx < prodn ns.
Proof.
  unfold inbox. induction 1 as [|i n idx ns Hi _ IH]; cbn [undigits_F prodn fold_right]; [lia|].
  fold (prodn ns). nia.
Qed.
Lemma digits_inbox ns : forall t, t < prodn ns -> inbox ns (digits_F ns t).
Proof.
  unfold inbox. induction ns as [|n ns IH]; intros t Ht; cbn [digits_F prodn fold_right] in *; [constructor|].
  fold (prodn ns) in Ht. destruct (Nat.eq_dec n 0) as [->|Hn]; [lia|]. constructor.
  - apply Nat.mod_upper_bound; lia.
  - apply IH. apply Nat.div_lt_upper_bound; lia.
Qed.

Lemma NoDup_tab {A} n : forall (f : nat -> A),
  (forall i j, i < n -> j < n -> f i = f j -> i = j) -> NoDup (tab n f).
Proof.
  induction n as [|n IH]; intros f Hinj; [constructor|]. rewrite tab_cons. constructor.
  - intros Hin. apply in_tab in Hin as (i & Hi & E). assert (0 = S i) by (apply Hinj; [lia|lia|exact E]). lia.
  - apply IH. intros i j Hi Hj E. assert (S i = S j) by (apply Hinj; [lia|lia|exact E]). lia.
Qed.

(* the flat grid: Pi n rows, row t = digits of t (first index fastest), every in-range multi-index exactly once *)
Lemma grid_flat_enum ns :
  length (grid_flat ns) = prodn ns /\
  NoDup (grid_flat ns) /\
  (forall idx, In idx (grid_flat ns) <-> inbox ns idx) /\
  (forall t, t < prodn ns ->
     nth t (grid_flat ns) [] = digits_F ns t /\ undigits_F ns (nth t (grid_flat ns) []) = t) /\
  (forall idx, inbox ns idx -> nth (undigits_F ns idx) (grid_flat ns) [] = idx).
Proof.
  unfold grid_flat. fold (prodn ns). split; [apply tab_length|]. split; [|split; [|split]].
  - apply NoDup_tab. intros i j Hi Hj E.
    rewrite <- (undigits_digits ns i Hi), <- (undigits_digits ns j Hj). now rewrite E.
  - intros idx. rewrite in_tab. split.
    + intros (t & Ht & ->). now apply digits_inbox.
    + intros H. exists (undigits_F ns idx). split; [now apply undigits_lt|]. symmetry. now apply digits_undigits.
  - intros t Ht. rewrite nth_tab by exact Ht. split; [reflexivity|now apply undigits_digits].
  - intros idx H. rewrite nth_tab by (now apply undigits_lt). now apply digits_undigits.
Qed.
(* first index fastest, spelled out: moving to the next row increments the first index, with carry *)
Lemma grid_flat_first_fastest n ns t : S t < prodn (n :: ns) ->
  hd 0 (nth (S t) (grid_flat (n :: ns)) []) = S (hd 0 (nth t (grid_flat (n :: ns)) [])) mod n.
Proof.
  intros Ht. unfold grid_flat. fold (prodn (n :: ns)). rewrite !nth_tab by lia. cbn [digits_F hd].
  assert (Hn : n <> 0) by (intros ->; cbn in Ht; lia).
  replace (S t) with (1 + t) by lia. rewrite <- Nat.add_mod_idemp_r by exact Hn. reflexivity.
Qed.

(* scalar argument: np.arange(n) *)
Lemma grid_flat_scalar_enum n :
  length (grid_flat_scalar n) = n /\ NoDup (grid_flat_scalar n) /\
  (forall i, In i (grid_flat_scalar n) <-> i < n) /\ (forall t, t < n -> nth t (grid_flat_scalar n) 0 = t).
Proof.
  unfold grid_flat_scalar. split; [apply seq_length|]. split; [apply seq_NoDup|]. split.
  - intros i. rewrite in_seq. lia.
  - intros t Ht. rewrite seq_nth by exact Ht. lia.
Qed.
