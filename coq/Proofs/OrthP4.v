(* C04: the exact rank profile after orthogonalize(Y, k, use_stab):
     left of the pivot   r2'[m] = min(r1'[m] * n[m], r2[m]),
     right of the pivot  r1'[m] = min(r1[m], n[m] * r2'[m]),
   which together with the chain condition (r1'[0] = 1, r2'[d-1] = 1, r2'[m] = r1'[m+1]) determines every rank. *)
From Coq Require Import List Arith Lia Ring PeanoNat ZArith Bool.
From TV Require Import Num.Ops Lin.Tab Lin.BigSum Lin.Mat TT.Chain Model.Transformation
  Proofs.TransformationP Proofs.TransformationP2 Proofs.OrthP Proofs.OrthP2.
Import ListNotations.

Section OrthRanks.
Context {T : Type} (K : ops T).
Local Notation "a ** b" := (omul K a b) (at level 40, left associativity).
Notation pow2 := (opow2 K).
Hypothesis Rth : rng K.
Hypothesis Hpow_add : forall a b : Z, pow2 (a + b)%Z = pow2 a ** pow2 b.
Hypothesis Hpow_0 : pow2 0%Z = o1 K.
Hypothesis Hdiv : forall x p, (odiv K x (pow2 p)) ** pow2 p = x.
Variable qr : nat -> mat T -> mat T * mat T.
Variable rq : nat -> mat T -> mat T * mat T.
Variable ilog2 : nat -> T -> Z.
Hypothesis qr_spec : forall k A, qr_ok K A (fst (qr k A)) (snd (qr k A)).
Hypothesis rq_spec : forall k A, rq_ok K A (fst (rq k A)) (snd (rq k A)).
Let PT : core T -> Prop := fun _ => True.
Let HPT : forall k G p, wfdat G -> PT (fst (core_stab K ilog2 k G p (o0 K))) := fun _ _ _ _ => I.

Lemma left_sweep_ranks s n : forall Zs i p Zs' p', chain 1 Zs 1 -> i + n + 1 <= length Zs ->
  (forall m, m < i -> lorth K (nth m Zs dcore)) ->
  orth_left_sweep K qr ilog2 Zs p s i n = Ok (Zs', p') ->
  (forall m, i <= m -> m < i + n ->
     cr2 (nth m Zs' dcore) = Nat.min (cr1 (nth m Zs' dcore) * cn (nth m Zs dcore)) (cr2 (nth m Zs dcore))) /\
  (forall m, m < i \/ i + n <= m -> cr2 (nth m Zs' dcore) = cr2 (nth m Zs dcore)) /\
  cr1 (nth i Zs' dcore) = cr1 (nth i Zs dcore).
Proof.
  induction n as [|n IH]; intros Zs i p Zs' p' C Hn HL E.
  - cbn in E. injection E as <- <-. repeat split; auto. intros; lia.
  - rewrite left_sweep_S in E.
    destruct (lstep_spec K Rth Hpow_add Hpow_0 Hdiv qr ilog2 qr_spec PT HPT s Zs p i C) as (Z1 & p1 & E1 & SO); [lia|].
    rewrite E1 in E. destruct SO as [a1 a2 a3 a4 a5 a6 a7 a8 a9 a10 a11].
    assert (HL1 : forall m, m < S i -> lorth K (nth m Z1 dcore)).
    { intros m Hm. destruct (Nat.eq_dec m i) as [->|Hne]; [exact a7|]. rewrite a6 by lia. apply HL. lia. }
    destruct (left_sweep_full K Rth Hpow_add Hpow_0 Hdiv qr ilog2 qr_spec PT HPT s n Z1 (S i) p1 a3) as (Z2 & p2 & E2 & SW);
      [lia|exact HL1|].
    rewrite E in E2. injection E2 as <- <-. destruct SW as [b1 b2 b3 b4 b5 b6 b7 b8 b9 b10 b11 b12].
    destruct (IH Z1 (S i) p1 Zs' p' a3) as (I1 & I2 & I3); [lia|exact HL1|exact E|].
    assert (Fi : nth i Zs' dcore = nth i Z1 dcore) by (apply b8; lia).
    split; [|split].
    + intros m H1 H2. destruct (Nat.eq_dec m i) as [->|Hne].
      * rewrite Fi, a8, a9. reflexivity.
      * rewrite I1 by lia. rewrite (cn_nth_shape Z1 Zs m a4).
        destruct (Nat.eq_dec m (S i)) as [->|Hne2]; [now rewrite a10|]. now rewrite a6 by lia.
    + intros m Hm. rewrite I2 by lia. destruct (Nat.eq_dec m (S i)) as [->|Hne2]; [exact a10|].
      rewrite a6 by lia. reflexivity.
    + now rewrite Fi, a9.
Qed.

Lemma right_sweep_ranks s n : forall Zs i p Zs' p', chain 1 Zs 1 -> n <= i -> i < length Zs ->
  (forall m, i < m -> m < length Zs -> rorth K (nth m Zs dcore)) ->
  orth_right_sweep K rq ilog2 Zs p s i n = Ok (Zs', p') ->
  (forall m, i - n < m -> m <= i ->
     cr1 (nth m Zs' dcore) = Nat.min (cr1 (nth m Zs dcore)) (cn (nth m Zs dcore) * cr2 (nth m Zs' dcore))) /\
  (forall m, m <= i - n \/ i < m -> cr1 (nth m Zs' dcore) = cr1 (nth m Zs dcore)) /\
  cr2 (nth i Zs' dcore) = cr2 (nth i Zs dcore).
Proof.
  induction n as [|n IH]; intros Zs i p Zs' p' C Hn Hi HR E.
  - cbn in E. injection E as <- <-. repeat split; auto. intros; lia.
  - rewrite right_sweep_S in E.
    destruct (rstep_spec K Rth Hpow_add Hpow_0 Hdiv rq ilog2 rq_spec PT HPT s Zs p i C) as (Z1 & p1 & E1 & SO); [lia|lia|].
    rewrite E1 in E. destruct SO as [a1 a2 a3 a4 a5 a6 a7 a8 a9 a10 a11].
    assert (HR1 : forall m, i - 1 < m -> m < length Z1 -> rorth K (nth m Z1 dcore)).
    { intros m Hm Hl. destruct (Nat.eq_dec m i) as [->|Hne]; [exact a7|]. rewrite a6 by lia. apply HR; lia. }
    destruct (right_sweep_full K Rth Hpow_add Hpow_0 Hdiv rq ilog2 rq_spec PT HPT s n Z1 (i - 1) p1 a3) as (Z2 & p2 & E2 & SW);
      [lia|lia|exact HR1|].
    rewrite E in E2. injection E2 as <- <-. destruct SW as [b1 b2 b3 b4 b5 b6 b7 b8 b9 b10 b11 b12].
    destruct (IH Z1 (i - 1) p1 Zs' p' a3) as (I1 & I2 & I3); [lia|lia|exact HR1|exact E|].
    assert (Fi : nth i Zs' dcore = nth i Z1 dcore) by (apply b8; lia).
    split; [|split].
    + intros m H1 H2. destruct (Nat.eq_dec m i) as [->|Hne].
      * rewrite Fi, a8, a9. reflexivity.
      * rewrite I1 by lia. rewrite (cn_nth_shape Z1 Zs m a4).
        destruct (Nat.eq_dec m (i - 1)) as [->|Hne2]; [now rewrite a10|]. now rewrite a6 by lia.
    + intros m Hm. rewrite I2 by lia. destruct (Nat.eq_dec m (i - 1)) as [->|Hne2]; [exact a10|].
      rewrite a6 by lia. reflexivity.
    + now rewrite Fi, a9.
Qed.

Theorem orthogonalize_ranks_exact s Y k Zs p : chain 1 Y 1 -> k < length Y ->
  orthogonalize K qr rq ilog2 Y (Some (Z.of_nat k)) s = Ok (Zs, p) ->
  chain 1 Zs 1 /\ length Zs = length Y /\
  (forall m, m < k ->
     cr2 (nth m Zs dcore) = Nat.min (cr1 (nth m Zs dcore) * cn (nth m Y dcore)) (cr2 (nth m Y dcore))) /\
  (forall m, k < m -> m < length Y ->
     cr1 (nth m Zs dcore) = Nat.min (cr1 (nth m Y dcore)) (cn (nth m Y dcore) * cr2 (nth m Zs dcore))).
Proof.
  intros C Hk E. unfold orthogonalize in E.
  destruct (Z.ltb_spec (Z.of_nat k) 0); [lia|]. destruct (Z.ltb_spec (Z.of_nat (length Y) - 1) (Z.of_nat k)); [lia|].
  cbn [orb] in E. rewrite Nat2Z.id in E.
  destruct (left_sweep_full K Rth Hpow_add Hpow_0 Hdiv qr ilog2 qr_spec PT HPT s k Y O 0%Z C) as (Z1 & p1 & E1 & SW1);
    [lia|intros; lia|].
  rewrite E1 in E. destruct SW1 as [a1 a2 a3 a4 a5 a6 a7 a8 a9 a10 a11 a12].
  destruct (left_sweep_ranks s k Y O 0%Z Z1 p1 C) as (L1 & L2 & L3); [lia|intros; lia|exact E1|].
  assert (HR0 : forall m, length Y - 1 < m -> m < length Z1 -> rorth K (nth m Z1 dcore)) by (intros; lia).
  destruct (right_sweep_full K Rth Hpow_add Hpow_0 Hdiv rq ilog2 rq_spec PT HPT s (length Y - 1 - k) Z1 (length Y - 1) p1 a3)
    as (Z2 & p2 & E2 & SW2); [lia|lia|exact HR0|].
  rewrite E in E2. injection E2 as <- <-. destruct SW2 as [b1 b2 b3 b4 b5 b6 b7 b8 b9 b10 b11 b12].
  destruct (right_sweep_ranks s (length Y - 1 - k) Z1 (length Y - 1) p1 Zs p a3) as (R1 & R2 & R3); [lia|lia|exact HR0|exact E|].
  split; [exact b3|]. split; [congruence|]. split.
  - intros m Hm. rewrite b7 by lia. apply L1; lia.
  - intros m Hm Hl. rewrite R1 by lia. rewrite (cn_nth_shape Z1 Y m a4).
    (* the left rank of a core right of the pivot is untouched by the left sweep: it is the right rank of core m-1 >= k *)
    assert (E1' : cr1 (nth m Z1 dcore) = cr1 (nth m Y dcore)).
    { destruct m as [|m]; [lia|].
      rewrite <- (chain_nth_link Z1 m 1 1 a3), <- (chain_nth_link Y m 1 1 C) by lia. apply L2. lia. }
    now rewrite E1'.
Qed.
End OrthRanks.

Section PackagedRanks.
Context {T : Type} (K : ops T).
Hypothesis L : pow2_laws K.
Variable qr : nat -> mat T -> mat T * mat T.
Variable rq : nat -> mat T -> mat T * mat T.
Variable ilog2 : nat -> T -> Z.
Hypothesis qr_spec : forall k A, qr_ok K A (fst (qr k A)) (snd (qr k A)).
Hypothesis rq_spec : forall k A, rq_ok K A (fst (rq k A)) (snd (rq k A)).
Lemma P_orthogonalize_ranks_exact (s : bool) (Y : list (core T)) (k : nat) Zs p : chain 1 Y 1 -> k < length Y ->
  orthogonalize K qr rq ilog2 Y (Some (Z.of_nat k)) s = Ok (Zs, p) ->
  chain 1 Zs 1 /\ length Zs = length Y /\
  (forall m, m < k ->
     cr2 (nth m Zs dcore) = Nat.min (cr1 (nth m Zs dcore) * cn (nth m Y dcore)) (cr2 (nth m Y dcore))) /\
  (forall m, k < m -> m < length Y ->
     cr1 (nth m Zs dcore) = Nat.min (cr1 (nth m Y dcore)) (cn (nth m Y dcore) * cr2 (nth m Zs dcore))).
Proof.
  exact (orthogonalize_ranks_exact K (proj1 L) (proj1 (proj2 L)) (proj1 (proj2 (proj2 L))) (proj2 (proj2 (proj2 L)))
           qr rq ilog2 qr_spec rq_spec s Y k Zs p).
Qed.
End PackagedRanks.
