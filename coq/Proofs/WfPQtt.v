(* C11, part 4: qtt_to_tt / core_tt_to_qtt / tt_to_qtt return well-formed tensors.  The factorisation oracle
   (matrix_svd) is only assumed to return factors of consistent SHAPE - exactness A = U V is NOT assumed, so
   zero, rank-deficient and over-ranked cores and every e (incl. e = 0) and r are covered. *)
From Coq Require Import List Arith Lia PeanoNat ZArith Bool.
From TV Require Import Num.Ops Lin.Tab Lin.BigSum Lin.Mat TT.Chain Model.GridInd Model.Qtt Model.Wf
  Proofs.GridIndP Proofs.QttP Proofs.QttP2 Proofs.WfP.
Import ListNotations.

Section WfQtt.
Context {T : Type} (K : ops T).
Implicit Types (Y : list (core T)).

(* shape half of the contract of one truncated factorisation (U, V) of A *)
Definition fac_shape (A U V : mat T) : Prop := mr U = mr A /\ mc V = mc A /\ mc U = mr V /\ 1 <= mc U.

(* "good" QTT core: mode size 2, consistent storage, right rank >= 1 *)
Definition q2 (G : core T) : Prop := cn G = 2 /\ wfdat G /\ 1 <= cr2 G.

Lemma valid_of_chain ns Y : Y <> [] -> chain 1 Y 1 -> shape Y = ns -> Forall (fun n => 1 <= n) ns ->
  Forall (fun G => wfdat G /\ 1 <= cr2 G) Y -> valid ns Y.
Proof.
  intros Hne C Sh Pn F. unfold valid, tt_wf. split; [split; [exact Hne|split; [exact C|]]|split; [exact Sh|split; [exact Pn|]]].
  - eapply Forall_impl; [|exact F]. now intros G [H _].
  - eapply Forall_impl; [|exact F]. now intros G [_ H].
Qed.
Lemma valid_parts ns Y : valid ns Y ->
  Y <> [] /\ chain 1 Y 1 /\ shape Y = ns /\ Forall (fun G => wfdat G /\ 1 <= cr2 G) Y /\ length Y = length ns.
Proof.
  intros ((Hne & C & W) & Sh & Pn & Pr). split; [exact Hne|]. split; [exact C|]. split; [exact Sh|]. split.
  - apply Forall_forall. intros G HG. split; [exact (proj1 (Forall_forall _ _) W G HG)|exact (proj1 (Forall_forall _ _) Pr G HG)].
  - rewrite <- Sh. unfold shape. now rewrite map_length.
Qed.
Lemma shape_all n Y : Forall (fun G => cn G = n) Y -> shape Y = repeat n (length Y).
Proof. unfold shape. induction 1 as [|G Y E _ IH]; cbn [map length repeat]; [reflexivity|]. now rewrite E, IH. Qed.
Lemma Forall_repeat_pos n m : 1 <= n -> Forall (fun k => 1 <= k) (repeat n m).
Proof. intros H. apply Forall_forall. intros k Hk. apply repeat_spec in Hk. lia. Qed.
Lemma shape_repeat_all n m Y : shape Y = repeat n m -> Forall (fun G => cn G = n) Y.
Proof.
  revert m; induction Y as [|G Y IH]; intros [|m] E; cbn in E; try discriminate; constructor.
  - now injection E.
  - apply (IH m). now injection E.
Qed.

(* ---------------- qtt_to_tt ---------------- *)
Lemma fold_merge_good : forall rest Q0, wfdat Q0 /\ 1 <= cr2 Q0 -> Forall (fun G => wfdat G /\ 1 <= cr2 G) rest ->
  wfdat (fold_left (merge2 K) rest Q0) /\ 1 <= cr2 (fold_left (merge2 K) rest Q0).
Proof.
  induction rest as [|Q rest IH]; intros Q0 H0 HR; cbn [fold_left]; [exact H0|].
  inversion HR as [|? ? h1 h2]; subst. apply IH; [|exact h2]. split; [apply wfdat_mk|]. rewrite cr2_merge2. tauto.
Qed.
Lemma groups_good q : 1 <= q -> forall d Y, length Y = d * q -> Forall (fun G => wfdat G /\ 1 <= cr2 G) Y ->
  Forall (fun G => wfdat G /\ 1 <= cr2 G) (map (merged K) (groups q d Y)).
Proof.
  intros Hq. induction d as [|d IH]; intros Y L F; cbn [groups map]; [constructor|].
  assert (F12 : Forall (fun G => wfdat G /\ 1 <= cr2 G) (firstn q Y) /\ Forall (fun G => wfdat G /\ 1 <= cr2 G) (skipn q Y)).
  { apply Forall_app. now rewrite firstn_skipn. }
  destruct F12 as [F1 F2].
  assert (L1 : length (firstn q Y) = q) by (rewrite firstn_length; lia).
  constructor; [|apply IH; [rewrite skipn_length; lia|exact F2]].
  destruct (firstn q Y) as [|Q0 rest]; [simpl in L1; lia|]. inversion F1; subst. cbn [merged]. now apply fold_merge_good.
Qed.
(* qtt_to_tt(Y, q): every valid QTT chain of d*q cores of mode size 2 (q >= 1, d >= 1) *)
Theorem qtt_to_tt_valid Y q d : 1 <= q -> 1 <= d -> valid (repeat 2 (d * q)) Y ->
  exists Z, qtt_to_tt K Y q = Ok Z /\ valid (repeat (2 ^ q) d) Z.
Proof.
  intros Hq Hd V. destruct (valid_parts _ _ V) as (Hne & C & Sh & F & L). rewrite repeat_length in L.
  exists (map (merged K) (groups q d Y)). unfold qtt_to_tt. destruct (Nat.eqb_spec q 0); [lia|].
  rewrite L, Nat.div_mul by lia. split; [now apply qtt_to_tt_ok|].
  destruct (groups_chain K q Hq d Y 1 1 L C (shape_repeat_all _ _ _ Sh)) as [C' N'].
  apply valid_of_chain; auto.
  - intros E. apply (f_equal (@length _)) in E. rewrite map_length, groups_length in E. simpl in E. lia.
  - rewrite (shape_all _ _ N'). now rewrite map_length, groups_length.
  - apply Forall_repeat_pos. clear. induction q; simpl; lia.
  - now apply groups_good.
Qed.

(* ---------------- core_tt_to_qtt ---------------- *)
Section Core.
Variable msvd : nat -> mat T -> mat T * mat T.
Hypothesis Hs : forall c A, fac_shape A (fst (msvd c A)) (snd (msvd c A)).

(* the loop keeps: the cores appended so far, read backwards, chain from the current inner size down to p0 *)
Lemma qtt_loop_shape p0 : forall k c A acc, chain (mc A) (rev acc) p0 -> Forall q2 acc -> 1 <= mc A ->
  let res := qtt_loop K msvd k c A acc in
  chain (mc (snd res)) (rev (fst res)) p0 /\ Forall q2 (fst res) /\ 1 <= mc (snd res) /\ length (fst res) = length acc + k.
Proof.
  induction k as [|k IH]; intros c A acc HC HF HA; cbn [qtt_loop].
  - cbn [fst snd]. split; [exact HC|]. split; [exact HF|]. split; [exact HA|lia].
  - destruct (Hs c (halve K A)) as (s1 & s2 & s3 & s4). destruct (msvd c (halve K A)) as [A' V]. cbn [fst snd] in *.
    specialize (IH (S c) A' (acc ++ [core_of_V K V (mc A)])). cbv zeta in IH.
    destruct IH as (i1 & i2 & i3 & i4).
    + rewrite rev_app_distr. cbn [rev app chain]. split; [cbn; congruence|exact HC].
    + apply Forall_app. split; [exact HF|]. constructor; [|constructor]. split; [reflexivity|]. split; [apply wfdat_mk|exact HA].
    + exact s4.
    + split; [exact i1|]. split; [exact i2|]. split; [exact i3|]. rewrite i4, app_length. cbn [length]. lia.
Qed.

Theorem core_tt_to_qtt_shape G k : cn G = 2 ^ S k -> 1 <= cr1 G -> 1 <= cr2 G ->
  exists Z, core_tt_to_qtt K msvd G = Ok Z /\ chain (cr1 G) Z (cr2 G) /\ Forall q2 Z /\ length Z = S k.
Proof.
  intros Hn H1 H2. unfold core_tt_to_qtt. rewrite Hn, log2_exact_pow.
  destruct (Hs O (unfold_rows K G)) as (s1 & s2 & s3 & s4). destruct (msvd O (unfold_rows K G)) as [A0 V0]. cbn [fst snd] in *.
  replace (S k - 1) with k by lia.
  pose proof (qtt_loop_shape (mr V0) k 1 A0 [] ) as L. cbv zeta in L.
  destruct L as (l1 & l2 & l3 & l4); [cbn; exact s3|constructor|exact s4|].
  destruct (qtt_loop K msvd k 1 A0 []) as [Ys A]. cbn [fst snd length] in *.
  cbn [Nat.eqb].
  (* Ys' = Ys ++ [core_of_A A r1] = Y0 :: rest *)
  assert (CH : chain (cr1 G) (rev (Ys ++ [core_of_A K A (cr1 G)])) (mr V0)).
  { rewrite rev_app_distr. cbn [rev app chain]. split; [reflexivity|]. exact l1. }
  assert (GF : Forall q2 (Ys ++ [core_of_A K A (cr1 G)])).
  { apply Forall_app. split; [exact l2|]. constructor; [|constructor]. split; [reflexivity|]. split; [apply wfdat_mk|exact l3]. }
  assert (LN : length (Ys ++ [core_of_A K A (cr1 G)]) = S k) by (rewrite app_length; cbn [length]; lia).
  destruct (Ys ++ [core_of_A K A (cr1 G)]) as [|Y0 rest]; [simpl in LN; lia|].
  eexists; split; [reflexivity|]. cbn [rev] in *.
  assert (E0 : mr V0 = cr2 Y0).
  { apply QttP.chain_app in CH. destruct CH as (rm & _ & c2). cbn in c2. destruct c2 as [_ c2]. congruence. }
  rewrite E0 in CH. apply (chain_mul_last K V0) in CH. rewrite s2 in CH. cbn [unfold_rows mkmat mc] in CH.
  split; [exact CH|]. inversion GF as [|? ? g1 g2]; subst. split.
  - apply Forall_app. split; [now apply Forall_rev|]. constructor; [|constructor].
    destruct g1 as (a & b & c). split; [exact a|]. split; [apply wfdat_mk|]. cbn [core_mulV mkcore cr2]. rewrite s2. exact H2.
  - rewrite app_length, rev_length. cbn [length] in *. lia.
Qed.
End Core.

(* ---------------- tt_to_qtt ---------------- *)
Section Tensor.
Variable msvd2 : nat -> nat -> mat T -> mat T * mat T.
Hypothesis Hs2 : forall k c A, fac_shape A (fst (msvd2 k c A)) (snd (msvd2 k c A)).

Lemma tt_conv_shape q : forall Y k0 r rl, chain r Y rl -> 1 <= r ->
  Forall (fun G => cn G = 2 ^ S q /\ 1 <= cr2 G) Y ->
  exists Zs, sequence (mapi_from k0 (fun k G => core_tt_to_qtt K (msvd2 k) G) Y) = Ok Zs /\
             chain r (concat Zs) rl /\ Forall q2 (concat Zs) /\ length (concat Zs) = length Y * S q.
Proof.
  induction Y as [|G Y IH]; intros k0 r rl C Hr F; cbn [mapi_from sequence].
  - exists []. cbn. repeat split; auto.
  - inversion F as [|? ? [f1 f2] F']; subst. destruct C as [c1 c2].
    destruct (core_tt_to_qtt_shape (msvd2 k0) (Hs2 k0) G q f1) as (Z & -> & z1 & z2 & z3); [lia|exact f2|].
    destruct (IH (S k0) (cr2 G) rl c2 f2 F') as (Zs & -> & y1 & y2 & y3).
    exists (Z :: Zs). cbn [rbind concat]. split; [reflexivity|]. split; [|split].
    + apply QttP.chain_app. exists (cr2 G). rewrite <- c1. auto.
    + apply Forall_app. auto.
    + rewrite app_length, z3, y3. cbn [length]. lia.
Qed.
(* tt_to_qtt(Y, e, r): every valid tensor with mode sizes 2^(q+1) (d >= 1), every shape-respecting factorisation *)
Theorem tt_to_qtt_valid q d Y : 1 <= d -> valid (repeat (2 ^ S q) d) Y ->
  exists Z, tt_to_qtt K msvd2 Y = Ok Z /\ valid (repeat 2 (d * S q)) Z.
Proof.
  intros Hd V. destruct (valid_parts _ _ V) as (Hne & C & Sh & F & L). rewrite repeat_length in L.
  assert (F' : Forall (fun G => cn G = 2 ^ S q /\ 1 <= cr2 G) Y).
  { pose proof (shape_repeat_all _ _ _ Sh) as N. apply Forall_forall. intros G HG.
    split; [exact (proj1 (Forall_forall _ _) N G HG)|exact (proj2 (proj1 (Forall_forall _ _) F G HG))]. }
  destruct (tt_conv_shape q Y O 1 1 C (le_n 1) F') as (Zs & E & c & g & l).
  exists (concat Zs). unfold tt_to_qtt. rewrite E. split; [reflexivity|].
  apply valid_of_chain; auto.
  - intros E0. rewrite E0 in l. simpl in l. lia.
  - rewrite (shape_all 2); [now rewrite l, L|]. eapply Forall_impl; [|exact g]. now intros G (a & _).
  - apply Forall_repeat_pos. lia.
  - eapply Forall_impl; [|exact g]. intros G (_ & b & c'). auto.
Qed.
End Tensor.
End WfQtt.
