(* Lemmas about Model/Anova.v (C13), part 6, at the reals: a numeric bound of the effect of the padding noise of
   cores_1 on the tensor entries ("up to the requested noise"), from the telescoping identity of AnovaNoiseP.v and
   an l1 bound of a chain whose core entries are bounded. *)
From Coq Require Import List Arith Lia PeanoNat ZArith Bool Reals Lra.
From TV Require Import Num.Ops Lin.Tab Lin.BigSum Lin.Mat TT.Chain Model.ActOne Model.Anova
  Proofs.StabRP Proofs.AnovaP Proofs.Anova2P Proofs.AnovaTopP Proofs.AnovaNoiseP.
Import ListNotations.
Local Open Scope R_scope.

(* ---------- finite sums and products at R ---------- *)
Lemma bsR_S n f : bsum OR (S n) f = bsum OR n f + f n. Proof. reflexivity. Qed.
Lemma bsR_le n f g : (forall i, (i < n)%nat -> f i <= g i) -> bsum OR n f <= bsum OR n g.
Proof.
  induction n; intros H; [cbn; lra|]. rewrite !bsR_S. apply Rplus_le_compat; [apply IHn; intros; apply H; lia|apply H; lia].
Qed.
Lemma bsR_nonneg n f : (forall i, (i < n)%nat -> 0 <= f i) -> 0 <= bsum OR n f.
Proof.
  induction n; intros H; [cbn; lra|]. rewrite bsR_S. apply Rplus_le_le_0_compat; [apply IHn; intros; apply H; lia|apply H; lia].
Qed.
Lemma bsR_abs n f : Rabs (bsum OR n f) <= bsum OR n (fun i => Rabs (f i)).
Proof.
  induction n; [cbn; rewrite Rabs_R0; lra|]. rewrite !bsR_S.
  eapply Rle_trans; [apply Rabs_triang|]. apply Rplus_le_compat_r. exact IHn.
Qed.
Lemma bsR_const n c : bsum OR n (fun _ => c) = INR n * c.
Proof. induction n; [cbn; lra|]. rewrite bsR_S, IHn, S_INR. lra. Qed.
Lemma bsR_mul_r n c f : bsum OR n (fun i => f i * c) = bsum OR n f * c.
Proof. induction n; [cbn; lra|]. rewrite !bsR_S, IHn. lra. Qed.

Fixpoint prodR (d : nat) (phi : nat -> R) : R := match d with O => 1 | S k => prodR k phi * phi k end.
Lemma prodR_0 phi : prodR O phi = 1. Proof. reflexivity. Qed.
Lemma prodR_S d phi : prodR (S d) phi = prodR d phi * phi d. Proof. reflexivity. Qed.
Lemma prodR_nonneg d phi : (forall j, (j < d)%nat -> 0 <= phi j) -> 0 <= prodR d phi.
Proof.
  induction d; intros H; [rewrite prodR_0; lra|]. rewrite prodR_S. apply Rmult_le_pos; [apply IHd; intros; apply H; lia|apply H; lia].
Qed.
Lemma prodR_le_pow d phi B : (forall j, (j < d)%nat -> 0 <= phi j <= B) -> prodR d phi <= B ^ d.
Proof.
  induction d; intros H; [rewrite prodR_0; cbn; lra|]. rewrite prodR_S. cbn [pow]. rewrite Rmult_comm.
  destruct (H d ltac:(lia)) as [H0 H1].
  apply Rmult_le_compat; [exact H0| |exact H1|].
  - apply prodR_nonneg. intros; apply H; lia.
  - apply IHd. intros; apply H; lia.
Qed.
(* all factors at most B except the k-th, which is at most Bk *)
Lemma prodR_special d k phi B Bk : (k < d)%nat -> 0 <= B -> 0 <= Bk ->
  (forall j, (j < d)%nat -> 0 <= phi j) -> (forall j, (j < d)%nat -> j <> k -> phi j <= B) -> phi k <= Bk ->
  prodR d phi <= B ^ (d - 1) * Bk.
Proof.
  induction d; intros Hk HB HBk H0 H1 H2; [lia|]. rewrite prodR_S. replace (S d - 1)%nat with d by lia.
  destruct (Nat.eq_dec k d) as [->|Hne].
  - apply Rmult_le_compat; [| |  |exact H2].
    + apply prodR_nonneg. intros; apply H0; lia.
    + apply H0; lia.
    + apply prodR_le_pow. intros j Hj. split; [apply H0; lia|apply H1; lia].
  - assert (Hk' : (k < d)%nat) by lia.
    specialize (IHd Hk' HB HBk (fun j Hj => H0 j ltac:(lia)) (fun j Hj Hn => H1 j ltac:(lia) Hn) H2).
    destruct d as [|d']; [lia|]. replace (S d' - 1)%nat with d' in IHd by lia. cbn [pow].
    replace (B * B ^ d' * Bk) with ((B ^ d' * Bk) * B) by lra.
    apply Rmult_le_compat; [| |exact IHd|].
    + apply prodR_nonneg. intros; apply H0; lia.
    + apply H0; lia.
    + apply H1; lia.
Qed.

(* ---------- the l1 norm of the vector carried along a chain ---------- *)
Definition l1 (v : list R) : R := bsum OR (length v) (fun a => Rabs (nth a v 0)).
Lemma l1_nonneg v : 0 <= l1 v.
Proof. apply bsR_nonneg. intros; apply Rabs_pos. Qed.
Lemma l1_single x : l1 [x] = Rabs x.
Proof. unfold l1. cbn. lra. Qed.
Lemma nth0_le_l1 v : Rabs (nth O v 0) <= l1 v.
Proof.
  destruct v as [|x v]; [cbn; rewrite Rabs_R0; unfold l1; cbn; lra|]. unfold l1. cbn [length nth].
  assert (H : forall n f, (forall i, (i < S n)%nat -> 0 <= f i) -> f O <= bsum OR (S n) f).
  { induction n; intros f Hf; [cbn; lra|]. rewrite bsR_S. specialize (IHn f (fun i Hi => Hf i ltac:(lia))).
    specialize (Hf (S n) ltac:(lia)). lra. }
  apply (H (length v) (fun a => Rabs (nth a (x :: v) 0))). intros; apply Rabs_pos.
Qed.

Lemma vstep_l1 v (G : core R) i m : 0 <= m -> length v = cr1 G ->
  (forall a b, (a < cr1 G)%nat -> (b < cr2 G)%nat -> Rabs (cget OR G a i b) <= m) ->
  l1 (vstep OR v G i) <= INR (cr2 G) * m * l1 v.
Proof.
  intros Hm L H. unfold l1 at 1. rewrite vstep_length.
  eapply Rle_trans.
  - apply (bsR_le _ _ (fun _ => m * l1 v)). intros b Hb. rewrite nth_vstep by auto.
    eapply Rle_trans; [apply bsR_abs|]. unfold l1. rewrite L.
    change (m * bsum OR (cr1 G) (fun a => Rabs (nth a v 0))) with (omul OR m (bsum OR (cr1 G) (fun a => Rabs (nth a v 0)))).
    rewrite <- (bsum_mul_l OR OR_rng). apply bsR_le. intros a Ha. cbn [omul OR].
    rewrite Rabs_mult, Rmult_comm. apply Rmult_le_compat_r; [apply Rabs_pos|]. now apply H.
  - rewrite bsR_const. lra.
Qed.

(* a chain given as a table of cores with rank profile rk and entry bounds mb *)
Lemma run_tab_l1 d : forall (F : nat -> core R) (rk : nat -> nat) (mb : nat -> R) idx v, length idx = d ->
  length v = rk O ->
  (forall j, (j < d)%nat -> cr1 (F j) = rk j /\ cr2 (F j) = rk (S j) /\ 0 <= mb j /\
     forall a b, (a < rk j)%nat -> (b < rk (S j))%nat -> Rabs (cget OR (F j) a (nth j idx O) b) <= mb j) ->
  length (run OR v (tab d F) idx) = rk d /\
  l1 (run OR v (tab d F) idx) <= prodR d (fun j => INR (rk (S j)) * mb j) * l1 v.
Proof.
  induction d; intros F rk mb idx v L Lv H.
  - destruct idx; [|discriminate]. cbn [tab map seq run]. rewrite prodR_0. split; [exact Lv|lra].
  - destruct (@exists_last _ idx) as (idx' & i & ->); [intros ->; discriminate|].
    rewrite app_length in L. cbn [length] in L. assert (L' : length idx' = d) by lia.
    rewrite tab_S, run_app by (now rewrite tab_length). cbn [run].
    destruct (IHd F rk mb idx' v L' Lv) as [Len Hl].
    { intros j Hj. destruct (H j ltac:(lia)) as (A & B & C & D). repeat split; auto.
      intros a b Ha Hb. specialize (D a b Ha Hb). now rewrite app_nth1 in D by lia. }
    destruct (H d ltac:(lia)) as (A & B & C & D). rewrite app_nth2 in D by lia.
    replace (d - length idx')%nat with O in D by lia. cbn [nth] in D.
    split; [rewrite vstep_length; exact B|].
    eapply Rle_trans; [apply (vstep_l1 _ (F d) i (mb d)); auto; try congruence|].
    { intros a b Ha Hb. apply D; congruence. }
    rewrite prodR_S, B.
    assert (P0 : 0 <= INR (rk (S d)) * mb d) by (apply Rmult_le_pos; [apply pos_INR|exact C]).
    replace (prodR d (fun j => INR (rk (S j)) * mb j) * (INR (rk (S d)) * mb d) * l1 v)
      with (INR (rk (S d)) * mb d * (prodR d (fun j => INR (rk (S j)) * mb j) * l1 v)) by lra.
    apply Rmult_le_compat_l; auto.
Qed.

Lemma get_tab_bound d (F : nat -> core R) (rk : nat -> nat) (mb : nat -> R) idx : length idx = d ->
  rk O = 1%nat -> rk d = 1%nat ->
  (forall j, (j < d)%nat -> cr1 (F j) = rk j /\ cr2 (F j) = rk (S j) /\ 0 <= mb j /\
     forall a b, (a < rk j)%nat -> (b < rk (S j))%nat -> Rabs (cget OR (F j) a (nth j idx O) b) <= mb j) ->
  Rabs (get OR (tab d F) idx) <= prodR d (fun j => INR (rk (S j)) * mb j).
Proof.
  intros L R0 Rd H. unfold get.
  destruct (run_tab_l1 d F rk mb idx [1] L) as [_ Hl]; auto.
  eapply Rle_trans; [apply nth0_le_l1|]. eapply Rle_trans; [exact Hl|].
  change (l1 [o1 OR]) with (l1 [1]). rewrite l1_single, Rabs_R1. lra.
Qed.

(* ---------- the cores of cores_1 have bounded entries ---------- *)
Section Bound.
Variable M : anova R.
Variables (r : nat) (g : nat -> nat -> nat -> nat -> R).
Variables (F gmax : R).
Hypothesis HF : 0 <= F.
Hypothesis Hg0 : 0 <= gmax.
Hypothesis Hf0 : Rabs (a_f0 M) <= F.
Hypothesis Hf1 : forall k p, Rabs (nth p (nth k (a_f1 M) []) 0) <= F.
Hypothesis Hg : forall c a i b, Rabs (g c a i b) <= gmax.
Hypothesis Hr : (2 <= r)%nat.
Hypothesis Hd : (2 <= a_d M)%nat.

Lemma abs_1 : Rabs 1 <= 1. Proof. rewrite Rabs_R1. lra. Qed.
Lemma ng_bound noise c a i b : Rabs (noise * g c a i b) <= Rabs noise * gmax.
Proof. rewrite Rabs_mult. apply Rmult_le_compat_l; [apply Rabs_pos|apply Hg]. Qed.

Lemma core1_at_entry noise j a i b : (j < a_d M)%nat ->
  (a < rk1 (a_d M) r j)%nat -> (i < length (nth j (a_f1 M) []))%nat -> (b < rk1 (a_d M) r (S j))%nat ->
  Rabs (cget OR (core1_at OR M r noise g j) a i b) <= 1 + 2 * F + Rabs noise * gmax.
Proof.
  intros Hj Ha Hi Hb.
  assert (N0 : 0 <= Rabs noise * gmax) by (apply Rmult_le_pos; [apply Rabs_pos|exact Hg0]).
  pose proof abs_1 as A1.
  destruct (core1_at_dims OR M r noise g j Hd Hj) as (D1 & D2 & D3).
  unfold core1_at in *. destruct (Nat.eqb_spec j 0) as [->|Hj0].
  - unfold core1_first, ncore in *. rewrite cr1_mk, cr2_mk, cn_mk in *. rewrite cget_mk by lia.
    destruct b as [|[|b]]; cbn [Nat.eqb].
    + cbn [o0 o1 oadd omul OR]. lra.
    + specialize (Hf1 O i). cbn [o0 o1 oadd omul OR]. lra.
    + pose proof (ng_bound noise O a i (S (S b))). cbn [o0 o1 oadd omul OR]. lra.
  - destruct (Nat.ltb_spec j (a_d M - 1)).
    + unfold core1_mid, ncore in *. rewrite cr1_mk, cr2_mk, cn_mk in *. rewrite cget_mk by lia.
      pose proof (ng_bound noise j a i b) as NG. specialize (Hf1 j i).
      destruct a as [|[|a]], b as [|[|b]]; cbn [Nat.eqb andb]; cbn [o0 o1 oadd omul OR]; lra.
    + unfold core1_last, ncore in *. rewrite cr1_mk, cr2_mk, cn_mk in *. rewrite cget_mk by lia.
      pose proof (ng_bound noise (S (a_d M - 2)) a i b) as NG. specialize (Hf1 (a_d M - 1)%nat i).
      destruct a as [|[|a]]; cbn [Nat.eqb]; cbn [o0 o1 omul oadd OR]; try lra.
      eapply Rle_trans; [apply Rabs_triang|]. lra.
Qed.

Lemma draw_core_entry j a i b :
  (a < rk1 (a_d M) r j)%nat -> (i < length (nth j (a_f1 M) []))%nat -> (b < rk1 (a_d M) r (S j))%nat ->
  Rabs (cget OR (draw_core OR M r g j) a i b) <= gmax.
Proof.
  intros Ha Hi Hb. unfold draw_core. rewrite cget_mk by auto.
  destruct (in_pattern (a_d M) j a b); [cbn [o0 OR]; rewrite Rabs_R0; exact Hg0|apply Hg].
Qed.

Lemma rk1_le j : INR (rk1 (a_d M) r j) <= INR r.
Proof. apply le_INR. unfold rk1. destruct (j =? 0)%nat; [lia|]. destruct (j <? a_d M)%nat; lia. Qed.

(* every mixed chain of the telescoping identity is bounded *)
Lemma mix_chain_bound noise idx k : (k < a_d M)%nat -> length idx = a_d M ->
  (forall j, (j < a_d M)%nat -> (nth j idx O < length (nth j (a_f1 M) []))%nat) ->
  Rabs (get OR (mix_chain OR M r noise g k) idx)
  <= (INR r * (1 + 2 * F + Rabs noise * gmax)) ^ (a_d M - 1) * (INR r * gmax).
Proof.
  intros Hk L Hidx. set (mm := 1 + 2 * F + Rabs noise * gmax).
  assert (N0 : 0 <= Rabs noise * gmax) by (apply Rmult_le_pos; [apply Rabs_pos|exact Hg0]).
  assert (Hmm : 0 <= mm) by (unfold mm; lra).
  assert (Hr0 : 0 <= INR r) by apply pos_INR.
  unfold mix_chain.
  eapply Rle_trans.
  - apply (get_tab_bound (a_d M) _ (rk1 (a_d M) r) (fun j => if (j =? k)%nat then gmax else mm) idx L).
    + reflexivity.
    + unfold rk1. destruct (Nat.eqb_spec (a_d M) 0); [lia|]. now rewrite Nat.ltb_irrefl.
    + intros j Hj. specialize (Hidx j Hj).
      destruct (Nat.ltb_spec j k); [|destruct (Nat.eqb_spec j k)].
      * destruct (core1_at_dims OR M r noise g j Hd Hj) as (D1 & D2 & D3).
        destruct (Nat.eqb_spec j k); [lia|]. repeat split; auto.
        intros a b Ha Hb. now apply core1_at_entry.
      * subst j. unfold draw_core at 1 2. rewrite cr1_mk, cr2_mk. repeat split; auto.
        intros a b Ha Hb. now apply draw_core_entry.
      * destruct (core1_at_dims OR M r 0 g j Hd Hj) as (D1 & D2 & D3). repeat split; auto.
        intros a b Ha Hb. eapply Rle_trans; [apply (core1_at_entry 0); auto|].
        change (o0 OR) with 0. rewrite Rabs_R0. unfold mm. lra.
  - apply (prodR_special (a_d M) k _ (INR r * mm) (INR r * gmax) Hk).
    + now apply Rmult_le_pos.
    + now apply Rmult_le_pos.
    + intros j Hj. apply Rmult_le_pos; [apply pos_INR|]. now destruct (j =? k)%nat.
    + intros j Hj Hne. destruct (Nat.eqb_spec j k); [contradiction|].
      apply Rmult_le_compat_r; [exact Hmm|apply rk1_le].
    + rewrite Nat.eqb_refl. apply Rmult_le_compat_r; [exact Hg0|apply rk1_le].
Qed.

(* "up to the requested noise": the entry of the order-1 tensor built with noise level [noise] and draws bounded by
   gmax differs from f0 + sum_k f1[k][x_k] by at most
        |noise| * d * r * gmax * (r * (1 + 2F + |noise| gmax))^(d-1)
   where F bounds |f0| and every |f1[k][x]|: a polynomial in |noise| without constant term *)
Theorem cores_1_noise_bound noise idx : length idx = a_d M ->
  (forall k, (k < a_d M)%nat -> (nth k idx O < length (nth k (a_f1 M) []))%nat) ->
  Rabs (get OR (cores_1 OR M r noise g) idx
        - (a_f0 M + bsum OR (a_d M) (fun k => nth (nth k idx O) (nth k (a_f1 M) []) 0)))
  <= Rabs noise * (INR (a_d M) * ((INR r * (1 + 2 * F + Rabs noise * gmax)) ^ (a_d M - 1) * (INR r * gmax))).
Proof.
  intros L Hidx. rewrite (cores_1_noise_telescope OR OR_rng M r noise g idx Hr Hd L Hidx).
  cbn [oadd omul o0 OR].
  match goal with |- Rabs (?a + ?b + ?c - (?a + ?b)) <= _ => replace (a + b + c - (a + b)) with c by lra end.
  rewrite Rabs_mult. apply Rmult_le_compat_l; [apply Rabs_pos|].
  eapply Rle_trans; [apply bsR_abs|].
  rewrite <- bsR_const. apply bsR_le. intros k Hk. now apply mix_chain_bound.
Qed.
End Bound.

(* non-vacuity: a concrete model, generator and noise level meeting every hypothesis *)
Definition exMR : anova R := mk_anova 1 [[0; 1]; [0; 1]; [3; 5]]%Z 1 [[1; -1]; [0; 2]; [-2; 1]] [].
Lemma exMR_hyps : (2 <= a_d exMR)%nat /\ Rabs (a_f0 exMR) <= 2 /\
  (forall k p, Rabs (nth p (nth k (a_f1 exMR) []) 0) <= 2) /\
  (forall c a i b : nat, Rabs ((fun _ _ _ _ => 1) c a i b) <= 1) /\
  length [0; 1; 1]%nat = a_d exMR /\
  (forall k, (k < a_d exMR)%nat -> (nth k [0; 1; 1]%nat O < length (nth k (a_f1 exMR) []))%nat).
Proof.
  split; [cbn; lia|]. split; [cbn [a_f0 exMR]; rewrite Rabs_R1; lra|]. split; [|split; [|split]].
  - intros k p. cbn [a_f1 exMR].
    assert (E : forall k, nth k (@nil (list R)) [] = []) by (intros [|?]; reflexivity).
    assert (E0 : forall p, nth p (@nil R) 0 = 0) by (intros [|?]; reflexivity).
    destruct k as [|[|[|k]]]; cbn [nth]; rewrite ?E; destruct p as [|[|p]]; cbn [nth]; rewrite ?E0;
      repeat match goal with |- context [match ?x with O => _ | S _ => _ end] => destruct x end; cbn [nth];
      apply Rabs_le; lra.
  - intros. rewrite Rabs_R1. lra.
  - reflexivity.
  - intros k Hk. cbn in Hk. destruct k as [|[|[|k]]]; cbn; lia.
Qed.
