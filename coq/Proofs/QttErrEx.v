(* C17: a concrete genuinely truncating run of core_tt_to_qtt over Qc (non-vacuity of Proofs/QttErrP.v).
   G : 1 x 4 x 2.  Call 0 projects the 4 x 2 unfolding on the row (3/5, 4/5), call 1 projects the halved 2 x 2 matrix on
   the row (4/5, 3/5); both cut something: the residuals are 51 and 229/5, the squared error of the chain is 484/5. *)
From Coq Require Import List Arith Lia PeanoNat ZArith QArith Qcanon.
From TV Require Import Num.Ops Lin.Tab Lin.BigSum Lin.Mat TT.Chain Model.GridInd Model.Qtt Proofs.QttErrP.
Import ListNotations.
Local Open Scope nat_scope.

Definition qq (a : Z) (b : positive) : Qc := Q2Qc (a # b).
Definition exG : core Qc :=
  mk_core 1 4 2 [[[qq 5 1; qq 0 1]; [qq 0 1; qq 5 1]; [qq 5 1; qq 5 1]; [qq 10 1; qq 5 1]]].
Definition exV0 : mat Qc := mk_mat 1 2 [[qq 3 5; qq 4 5]].
Definition exV1 : mat Qc := mk_mat 1 2 [[qq 4 5; qq 3 5]].
Definition exsvd : nat -> mat Qc -> mat Qc * mat Qc := proj_oracle OQc [exV0; exV1].

Lemma exV0_orth c c' : c < mr exV0 -> c' < mr exV0 ->
  bsum OQc (mc exV0) (fun t => omul OQc (mget OQc exV0 c t) (mget OQc exV0 c' t)) = if Nat.eqb c c' then o1 OQc else o0 OQc.
Proof.
  cbn [mr exV0]. intros Hc Hc'. destruct c as [|c]; [|lia]. destruct c' as [|c']; [|lia].
  apply Qc_is_canon. vm_compute. reflexivity.
Qed.
Lemma exV1_orth c c' : c < mr exV1 -> c' < mr exV1 ->
  bsum OQc (mc exV1) (fun t => omul OQc (mget OQc exV1 c t) (mget OQc exV1 c' t)) = if Nat.eqb c c' then o1 OQc else o0 OQc.
Proof.
  cbn [mr exV1]. intros Hc Hc'. destruct c as [|c]; [|lia]. destruct c' as [|c']; [|lia].
  apply Qc_is_canon. vm_compute. reflexivity.
Qed.

Example trunc_example :
  calls_all OQc (trunc_ok OQc) exsvd exG 2 /\
  match core_tt_to_qtt OQc exsvd exG with
  | Ok Qs => length Qs = 2 /\
             this (core_err2 OQc exG Qs 2) = (484 # 5)%Q /\ this (calls_res OQc exsvd exG 2) = (484 # 5)%Q /\
             this (calls_res OQc exsvd exG 1) = (51 # 1)%Q
  | Err _ => False
  end.
Proof.
  split.
  - split.
    + apply (trunc_ok_proj OQc (unfold_rows OQc exG) exV0); [reflexivity|exact exV0_orth].
    + cbn [Nat.sub loop_all]. split; [|exact I].
      apply (trunc_ok_proj OQc (halve OQc (fst (exsvd 0 (unfold_rows OQc exG)))) exV1); [reflexivity|exact exV1_orth].
  - vm_compute. repeat split.
Qed.
