(* Lemmas about Model/Optima.v (C15), part 1: the Kronecker bookkeeping of the index table and the
   beam invariant (ring-generic, both sweep directions, any selection). *)
From Coq Require Import List Arith Lia PeanoNat ZArith Bool Permutation.
From TV Require Import Num.Ops Lin.Tab Lin.BigSum Lin.Mat TT.Chain Model.ActOne Model.GridInd Model.Optima
  Proofs.ActOneP Proofs.ActOneP2 Proofs.ActOneP3.
Import ListNotations.

(* ------------------------------------------------------------------------------------------ *)
(* index tables                                                                                *)
(* ------------------------------------------------------------------------------------------ *)
Definition rect (m : nat) (A : imat) : Prop := Forall (fun r => length r = m) A.

Lemma divmod_lt' t K n : t < K * n -> t / n < K /\ t mod n < n.
Proof.
  intros H. assert (n <> 0) by (intros ->; lia). split.
  - apply Nat.div_lt_upper_bound; lia.
  - apply Nat.mod_upper_bound; lia.
Qed.

Lemma irows_iones k : irows (iones k) = k. Proof. apply tab_length. Qed.
Lemma irows_irange k : irows (irange k) = k. Proof. apply tab_length. Qed.
Lemma icols_iones k : 0 < k -> icols (iones k) = 1.
Proof. intros H. unfold icols, iones. destruct k; [lia|]. rewrite tab_cons. reflexivity. Qed.
Lemma icols_irange k : 0 < k -> icols (irange k) = 1.
Proof. intros H. unfold icols, irange. destruct k; [lia|]. rewrite tab_cons. reflexivity. Qed.
Lemma iget_iones k a : a < k -> iget (iones k) a 0 = 1.
Proof. intros H. unfold iget, iones. rewrite nth_tab by auto. reflexivity. Qed.
Lemma iget_irange k a : a < k -> iget (irange k) a 0 = a.
Proof. intros H. unfold iget, irange. rewrite nth_tab by auto. reflexivity. Qed.
Lemma icols_rect m A : rect m A -> A <> [] -> icols A = m.
Proof. intros H Hne. destruct A as [|r A]; [contradiction|]. inversion H; subst. reflexivity. Qed.
Lemma rect_nth m A t : rect m A -> t < length A -> length (nth t A []) = m.
Proof. intros H Ht. unfold rect in H. rewrite Forall_forall in H. apply H. apply nth_In. exact Ht. Qed.

Lemma length_ikron A B : length (ikron A B) = irows A * irows B.
Proof. apply tab_length. Qed.

(* np.kron(I, ones(n,1)): row t is row t/n of I *)
Lemma nth_ikron_ones_r m A n t : rect m A -> t < length A * n ->
  nth t (ikron A (iones n)) [] = nth (t / n) A [].
Proof.
  intros HR Ht. destruct (divmod_lt' t _ _ Ht) as [Hd Hm].
  assert (Hn : 0 < n) by lia. assert (Hne : A <> []) by (destruct A; simpl in *; [lia|discriminate]).
  unfold ikron. rewrite irows_iones, (icols_rect m A HR Hne), (icols_iones n Hn).
  rewrite nth_tab by (unfold irows; lia).
  apply (list_eq_nth 0).
  - rewrite tab_length, (rect_nth m A _ HR Hd). lia.
  - rewrite tab_length. intros c Hc. rewrite nth_tab by auto.
    rewrite Nat.div_1_r, Nat.mod_1_r. rewrite iget_iones by auto. unfold iget. lia.
Qed.
(* np.kron(ones(K,1), range(n)): row t is [t mod n] *)
Lemma nth_ikron_ones_range K n t : t < K * n ->
  nth t (ikron (iones K) (irange n)) [] = [t mod n].
Proof.
  intros Ht. destruct (divmod_lt' t _ _ Ht) as [Hd Hm].
  assert (Hn : 0 < n) by lia. assert (HK : 0 < K) by lia.
  unfold ikron. rewrite irows_iones, irows_irange, (icols_iones K HK), (icols_irange n Hn).
  rewrite nth_tab by lia. change (1 * 1) with 1. cbn [tab seq map]. rewrite Nat.div_1_r, Nat.mod_1_r.
  rewrite iget_iones, iget_irange by auto. f_equal. lia.
Qed.
(* np.kron(range(n), ones(K,1)): row c is [c / K] *)
Lemma nth_ikron_range_ones K n c : c < n * K ->
  nth c (ikron (irange n) (iones K)) [] = [c / K].
Proof.
  intros Hc. destruct (divmod_lt' c _ _ Hc) as [Hd Hm].
  assert (Hn : 0 < n) by lia. assert (HK : 0 < K) by lia.
  unfold ikron. rewrite irows_iones, irows_irange, (icols_iones K HK), (icols_irange n Hn).
  rewrite nth_tab by lia. change (1 * 1) with 1. cbn [tab seq map]. rewrite Nat.div_1_r, Nat.mod_1_r.
  rewrite iget_iones, iget_irange by auto. f_equal. lia.
Qed.
(* np.kron(ones(n,1), I): row c is row (c mod K) of I *)
Lemma nth_ikron_ones_l m A n c : rect m A -> c < n * length A ->
  nth c (ikron (iones n) A) [] = nth (c mod length A) A [].
Proof.
  intros HR Hc. destruct (divmod_lt' c _ _ Hc) as [Hd Hm].
  assert (Hn : 0 < n) by lia. assert (Hne : A <> []) by (destruct A; simpl in *; [lia|discriminate]).
  unfold ikron. rewrite irows_iones, (icols_rect m A HR Hne), (icols_iones n Hn).
  rewrite nth_tab by (unfold irows; lia). unfold irows.
  apply (list_eq_nth 0).
  - rewrite tab_length, (rect_nth m A _ HR Hm). lia.
  - rewrite tab_length. intros j Hj. rewrite nth_tab by auto. rewrite Nat.mul_1_l in Hj.
    rewrite (Nat.div_small j m), (Nat.mod_small j m) by lia.
    rewrite iget_iones by auto. unfold iget. lia.
Qed.

Lemma length_beam_tab l2r A n : length (beam_tab l2r A n) = if l2r then length A * n else n * length A.
Proof.
  destruct l2r; unfold beam_tab, ihstack; rewrite tab_length; unfold irows at 1; rewrite length_ikron;
    rewrite ?irows_iones, ?irows_irange; reflexivity.
Qed.
(* l2r: row t*n+i of the new table is (row t of the old one) ++ [i] *)
Lemma nth_beam_tab_l m A n t : rect m A -> t < length A * n ->
  nth t (beam_tab true A n) [] = nth (t / n) A [] ++ [t mod n].
Proof.
  intros HR Ht. unfold beam_tab, ihstack. unfold irows at 1. rewrite length_ikron, irows_iones.
  rewrite nth_tab by (unfold irows; lia).
  rewrite (nth_ikron_ones_r m) by auto. unfold irows. rewrite nth_ikron_ones_range by auto. reflexivity.
Qed.
(* r2l: row i*K+t of the new table is i :: (row t of the old one) *)
Lemma nth_beam_tab_r m A n c : rect m A -> c < n * length A ->
  nth c (beam_tab false A n) [] = (c / length A) :: nth (c mod length A) A [].
Proof.
  intros HR Hc. unfold beam_tab, ihstack. unfold irows at 1. rewrite length_ikron, irows_iones, irows_irange.
  rewrite nth_tab by (unfold irows; lia). unfold irows.
  rewrite nth_ikron_range_ones by auto. rewrite (nth_ikron_ones_l m) by auto. reflexivity.
Qed.

Lemma length_itake A ind : length (itake A ind) = length ind.
Proof. apply map_length. Qed.
Lemma nth_itake A ind j : j < length ind -> nth j (itake A ind) [] = nth (nth j ind 0) A [].
Proof.
  intros H. unfold itake. rewrite nth_indep with (d' := nth 0 A []) by (now rewrite map_length).
  change (nth 0 A []) with ((fun t => nth t A []) 0). rewrite map_nth. reflexivity.
Qed.

(* ------------------------------------------------------------------------------------------ *)
(* beam invariant (ring-generic)                                                               *)
(* ------------------------------------------------------------------------------------------ *)
Section BeamInv.
Context {T : Type} (K : ops T).
Notation "0" := (o0 K). Notation "1" := (o1 K).
Infix "+" := (oadd K). Infix "*" := (omul K). Infix "-" := (osub K).
Hypothesis Rth : rng K.
Add Ring RrOptima : Rth.

Lemma wfo_app r (Y1 Y2 : list (core T)) idx1 idx2 m rl :
  wfo r Y1 idx1 m -> wfo m Y2 idx2 rl -> wfo r (Y1 ++ Y2) (idx1 ++ idx2) rl.
Proof.
  revert r idx1; induction Y1 as [|G Y1 IH]; intros r [|i idx1]; simpl; try tauto.
  - intros ->. auto.
  - intros (A & B & C) H. repeat split; auto.
Qed.

(* partial products seen from the open end of the visited part P of the chain:
   l2r: P is a prefix, entered with [1];  r2l: P is a suffix, entered with the unit vector e_b *)
Definition pval (l2r : bool) (P : list (core T)) (ro : nat) (idx : list nat) (b : nat) : T :=
  if l2r then nth b (run K [1] P idx) 0 else nth O (run K (evec K ro b) P idx) 0.
Definition wfx (l2r : bool) (P : list (core T)) (idx : list nat) (ro : nat) : Prop :=
  if l2r then wfo 1 P idx ro else wfo ro P idx 1.
Definition qent (l2r : bool) (Q : mat T) (t b : nat) : T := if l2r then mget K Q t b else mget K Q b t.
Definition qcount (l2r : bool) (Q : mat T) : nat := if l2r then mr Q else mc Q.
Definition qwidth (l2r : bool) (Q : mat T) : nat := if l2r then mc Q else mr Q.
Definition grow (l2r : bool) (P : list (core T)) (G : core T) : list (core T) := if l2r then P ++ [G] else G :: P.
Definition rin (l2r : bool) (G : core T) : nat := if l2r then cr1 G else cr2 G.
Definition rout (l2r : bool) (G : core T) : nat := if l2r then cr2 G else cr1 G.

(* row t of the carried matrix = c * (partial product at the multi-index in row t of the table) *)
Definition binv (l2r : bool) (c : T) (P : list (core T)) (ro : nat) (Ix : imat) (Q : mat T) : Prop :=
  qcount l2r Q = length Ix /\ qwidth l2r Q = ro /\
  forall t, t < length Ix -> wfx l2r P (nth t Ix []) ro /\
    forall b, b < ro -> qent l2r Q t b = c * pval l2r P ro (nth t Ix []) b.

Lemma wfx_length l2r P idx ro : wfx l2r P idx ro -> length idx = length P.
Proof. destruct l2r; apply wfo_length. Qed.
Lemma binv_rect l2r c P ro Ix Q : binv l2r c P ro Ix Q -> rect (length P) Ix.
Proof.
  intros (_ & _ & H). apply Forall_forall. intros r Hr. apply (In_nth _ _ []) in Hr as (t & Ht & <-).
  eapply wfx_length. apply (proj1 (H t Ht)).
Qed.

Lemma length_grow l2r P G : length (grow l2r P G) = S (length P).
Proof. destruct l2r; simpl; [rewrite app_length; simpl; lia|reflexivity]. Qed.

(* the extension step (einsum + reshape for Q, the two Kronecker products + hstack for the table) *)
Lemma binv_ext l2r c P ro Ix Q G : binv l2r c P ro Ix Q -> rin l2r G = ro ->
  binv l2r c (grow l2r P G) (rout l2r G) (beam_tab l2r Ix (cn G)) (beam_ext K l2r Q G).
Proof.
  intros HB Hr. pose proof (binv_rect _ _ _ _ _ _ HB) as HR. destruct HB as (HC & HW & HB).
  destruct l2r; cbn [qcount qwidth rin rout grow wfx qent pval] in *.
  - (* left to right *)
    unfold beam_ext, binv. cbn [qcount qwidth wfx qent pval]. rewrite mr_mk, mc_mk, length_beam_tab. split; [now rewrite HC|]. split; [reflexivity|].
    intros t Ht. rewrite (nth_beam_tab_l (length P)) by auto.
    destruct (divmod_lt' t _ _ Ht) as [Hd Hm]. destruct (HB _ Hd) as [W V]. split.
    + eapply wfo_app; [exact W|]. cbn [wfo]. auto.
    + intros b Hb. rewrite mget_mk by (rewrite ?HC; auto).
      rewrite run_app by (eapply wfo_length; eauto). cbn [run]. rewrite nth_vstep by auto.
      rewrite <- bsum_mul_l by auto. apply bsum_ext; intros r Hr'. rewrite V by lia. ring.
  - (* right to left *)
    unfold beam_ext, binv. cbn [qcount qwidth wfx qent pval]. rewrite mr_mk, mc_mk, length_beam_tab. split; [now rewrite HC|]. split; [reflexivity|].
    intros t Ht. rewrite (nth_beam_tab_r (length P)) by auto. rewrite <- HC in *.
    destruct (divmod_lt' t _ _ Ht) as [Hd Hm]. destruct (HB _ Hm) as [W V]. split.
    + cbn [wfo]. rewrite Hr. auto.
    + intros a Ha. rewrite mget_mk by auto. cbn [run].
      rewrite (run_decomp K Rth P _ _ ro 1%nat W) by (rewrite ?vstep_length; auto).
      rewrite <- bsum_mul_l by auto. rewrite Hr. apply bsum_ext; intros r Hr'.
      rewrite V by auto. unfold dget. rewrite nth_vstep by lia.
      rewrite (bsum_single K Rth (cr1 G) a); auto.
      * rewrite nth_evec, Nat.eqb_refl by auto. ring.
      * intros a' Ha' Hne. rewrite nth_evec by auto. destruct (Nat.eqb_spec a' a); [contradiction|ring].
Qed.

(* selection of rows / columns [ind] and scaling by s *)
Lemma binv_select l2r c s P ro Ix Q ind : binv l2r c P ro Ix Q -> Forall (fun t => t < length Ix) ind ->
  binv l2r (c * s) P ro (itake Ix ind) (mscale_r K (beam_select K l2r Q ind) s).
Proof.
  intros (HC & HW & HB) Hind. rewrite Forall_forall in Hind.
  destruct l2r; cbn [qcount qwidth wfx qent pval beam_select] in *.
  - unfold mscale_r, mrows, binv. cbn [qcount qwidth wfx qent pval]. rewrite !mr_mk, !mc_mk, length_itake. split; [reflexivity|]. split; [exact HW|].
    intros j Hj. rewrite nth_itake by auto. assert (Ht : nth j ind O < length Ix) by (apply Hind, nth_In; auto).
    destruct (HB _ Ht) as [W V]. split; [exact W|]. intros b Hb.
    rewrite !mget_mk by lia. rewrite V by auto. ring.
  - unfold mscale_r, mcols, binv. cbn [qcount qwidth wfx qent pval]. rewrite !mr_mk, !mc_mk, length_itake. split; [reflexivity|]. split; [exact HW|].
    intros j Hj. rewrite nth_itake by auto. assert (Ht : nth j ind O < length Ix) by (apply Hind, nth_In; auto).
    destruct (HB _ Ht) as [W V]. split; [exact W|]. intros b Hb.
    rewrite !mget_mk by lia. rewrite V by auto. ring.
Qed.
End BeamInv.

Section BeamRun.
Context {T : Type} (K : ops T).
Notation "0" := (o0 K). Notation "1" := (o1 K).
Infix "+" := (oadd K). Infix "*" := (omul K). Infix "-" := (osub K).
Hypothesis Rth : rng K.
Add Ring RrOptima2 : Rth.

Variable argsort : nat -> list T -> list nat.
(* the part of the argsort contract the bookkeeping needs: the result indexes into its argument *)
Hypothesis argsort_bound : forall c l, Forall (fun t => t < length l) (argsort c l).

Lemma length_beam_norms l2r Q : length (beam_norms K l2r Q) = qcount l2r Q.
Proof. destruct l2r; unfold beam_norms; apply tab_length. Qed.
Lemma Forall_last_k_rev {A} (Pr : A -> Prop) k l : Forall Pr l -> Forall Pr (last_k_rev k l).
Proof.
  intros H. unfold last_k_rev. apply Forall_forall. intros x Hx. rewrite Forall_forall in H. apply H.
  apply in_rev. rewrite <- (firstn_skipn k (rev l)). apply in_or_app. left. exact Hx.
Qed.

Definition st_tab (st : nat * imat * mat T) : imat := snd (fst st).
Definition st_mat (st : nat * imat * mat T) : mat T := snd st.

Lemma binv_step l2r k s c P ro st G :
  binv K l2r c P ro (st_tab st) (st_mat st) -> rin l2r G = ro ->
  binv K l2r (c * s) (grow l2r P G) (rout l2r G)
       (st_tab (beam_step K argsort l2r k s st G)) (st_mat (beam_step K argsort l2r k s st G)).
Proof.
  destruct st as [[cn0 Ix] Q]. unfold st_tab, st_mat. cbn [fst snd beam_step]. intros HB Hr.
  pose proof (binv_ext K Rth _ _ _ _ _ _ G HB Hr) as HE.
  apply (binv_select K Rth); [exact HE|].
  apply Forall_last_k_rev. destruct HE as (HC & _). rewrite <- HC, <- length_beam_norms. apply argsort_bound.
Qed.

Fixpoint growall (l2r : bool) (P rest : list (core T)) : list (core T) :=
  match rest with [] => P | G :: rest' => growall l2r (grow l2r P G) rest' end.
Fixpoint compat (l2r : bool) (ro : nat) (rest : list (core T)) (rf : nat) : Prop :=
  match rest with [] => ro = rf | G :: rest' => rin l2r G = ro /\ compat l2r (rout l2r G) rest' rf end.

Lemma pown_r (s : T) n : pown K s n * s = pown K s (S n).
Proof. induction n; cbn [pown] in *; [ring|]. rewrite <- IHn. ring. Qed.

Lemma binv_fold l2r k s rest : forall c P ro st rf,
  binv K l2r c P ro (st_tab st) (st_mat st) -> compat l2r ro rest rf ->
  let st' := fold_left (beam_step K argsort l2r k s) rest st in
  binv K l2r (c * pown K s (length rest)) (growall l2r P rest) rf (st_tab st') (st_mat st').
Proof.
  induction rest as [|G rest IH]; intros c P ro st rf HB HC; cbn [fold_left growall length pown compat] in *.
  - subst rf. replace (c * 1) with c by ring. exact HB.
  - destruct HC as [Hr HC]. pose proof (binv_step l2r k s c P ro st G HB Hr) as HS.
    specialize (IH _ _ _ _ _ HS HC). cbn zeta in IH.
    replace (c * (s * pown K s (length rest))) with (c * s * pown K s (length rest)) by ring. exact IH.
Qed.

Lemma growall_l P rest : growall true P rest = P ++ rest.
Proof. revert P; induction rest as [|G rest IH]; intros P; cbn [growall grow]; [now rewrite app_nil_r|]. rewrite IH, <- app_assoc. reflexivity. Qed.
Lemma growall_r P rest : growall false P rest = rev rest ++ P.
Proof. revert P; induction rest as [|G rest IH]; intros P; cbn [growall grow rev]; [reflexivity|]. rewrite IH, <- app_assoc. reflexivity. Qed.
Lemma compat_l ro rest rf : compat true ro rest rf <-> chain ro rest rf.
Proof. revert ro; induction rest as [|G rest IH]; intros ro; cbn [compat chain rin rout]; [tauto|]. rewrite IH. tauto. Qed.
Lemma chain_snoc r (Y : list (core T)) G rl : chain r (Y ++ [G]) rl <-> chain r Y (cr1 G) /\ cr2 G = rl.
Proof.
  revert r; induction Y as [|H Y IH]; intros r; cbn [app chain].
  - split; [intros (A & B); auto|intros (A & B); auto].
  - rewrite IH. tauto.
Qed.
Lemma compat_r ro rest rf : compat false ro rest rf <-> chain rf (rev rest) ro.
Proof.
  revert ro; induction rest as [|G rest IH]; intros ro; cbn [compat rev rin rout].
  - cbn [chain]. split; auto.
  - rewrite chain_snoc, IH. tauto.
Qed.

(* the state before the loop *)
Lemma binv_init l2r cs s G : rin l2r G = 1%nat ->
  let st := beam_init K cs l2r G s in binv K l2r s [G] (rout l2r G) (st_tab st) (st_mat st).
Proof.
  intros Hr. unfold beam_init, st_tab, st_mat, binv, irange. cbn [fst snd]. rewrite tab_length.
  destruct l2r; cbn [qcount qwidth wfx qent pval rin rout] in *; rewrite mr_mk, mc_mk.
  - split; [reflexivity|]. split; [reflexivity|]. intros i Hi. rewrite nth_tab by auto. split.
    + cbn [wfo]. auto.
    + intros b Hb. rewrite mget_mk by auto. cbn [run]. rewrite nth_vstep by auto. rewrite Hr.
      cbn [bsum nth]. ring.
  - split; [reflexivity|]. split; [reflexivity|]. intros i Hi. rewrite nth_tab by auto. split.
    + cbn [wfo]. auto.
    + intros a Ha. rewrite mget_mk by auto. cbn [run]. rewrite nth_vstep by lia.
      rewrite (bsum_single K Rth (cr1 G) a); auto.
      * rewrite nth_evec, Nat.eqb_refl by auto. ring.
      * intros a' Ha' Hne. rewrite nth_evec by auto. destruct (Nat.eqb_spec a' a); [contradiction|ring].
Qed.

Lemma first_rest_l (Z : list (core T)) : Z <> [] -> Z = beam_first true Z :: beam_rest true Z.
Proof. destruct Z; [contradiction|reflexivity]. Qed.
Lemma first_rest_r (Z : list (core T)) : Z <> [] -> Z = rev (beam_rest false Z) ++ [beam_first false Z].
Proof. intros H. cbn [beam_rest beam_first]. rewrite rev_involutive. apply app_removelast_last. exact H. Qed.

(* beam_inv: after the sweep, in either direction and whatever argsort selected, row t of the carried
   matrix is s^d times the tensor entry at the multi-index in row t of the table, which is in bounds *)
Theorem beam_inv cs (Z : list (core T)) k l2r s : chain 1 Z 1 -> Z <> [] ->
  let st := beam_run K argsort cs Z k l2r s in
  binv K l2r (pown K s (length Z)) Z 1 (st_tab st) (st_mat st).
Proof.
  intros HC Hne. unfold beam_run.
  destruct l2r.
  - pose proof (first_rest_l Z Hne) as E. set (G0 := beam_first true Z) in *. set (rest := beam_rest true Z) in *.
    rewrite E in HC. cbn [chain] in HC. destruct HC as [H1 HC].
    pose proof (binv_fold true k s rest s [G0] (cr2 G0) (beam_init K cs true G0 s) 1%nat
                  (binv_init true cs s G0 H1) (proj2 (compat_l _ _ _) HC)) as HF.
    cbn zeta in HF. rewrite growall_l in HF. cbn [app] in HF. rewrite <- E in HF.
    replace (pown K s (length Z)) with (s * pown K s (length rest)); [exact HF|].
    assert (L : length Z = S (length rest)) by (pose proof (f_equal (@length _) E) as L; exact L).
    rewrite L. reflexivity.
  - pose proof (first_rest_r Z Hne) as E. set (G0 := beam_first false Z) in *. set (rest := beam_rest false Z) in *.
    rewrite E in HC. apply chain_snoc in HC. destruct HC as [HC H1].
    pose proof (binv_fold false k s rest s [G0] (cr1 G0) (beam_init K cs false G0 s) 1%nat
                  (binv_init false cs s G0 H1) (proj2 (compat_r _ _ _) HC)) as HF.
    cbn zeta in HF. rewrite growall_r in HF. rewrite <- E in HF.
    replace (pown K s (length Z)) with (s * pown K s (length rest)); [exact HF|].
    assert (L : length Z = S (length rest)).
    { pose proof (f_equal (@length _) E) as L. rewrite app_length, rev_length in L. cbn [length] in L. lia. }
    rewrite L. reflexivity.
Qed.

(* read off: rows of the table are in bounds and the single remaining column holds s^d * get Z row *)
Corollary beam_rows cs (Z : list (core T)) k l2r s : chain 1 Z 1 -> Z <> [] ->
  let st := beam_run K argsort cs Z k l2r s in
  qcount l2r (st_mat st) = length (st_tab st) /\
  forall t, t < length (st_tab st) ->
    inb (shape Z) (nth t (st_tab st) []) /\
    qent K l2r (st_mat st) t O = pown K s (length Z) * get K Z (nth t (st_tab st) []).
Proof.
  intros HC Hne st. destruct (beam_inv cs Z k l2r s HC Hne) as (A & B & H). fold st in A, B, H.
  split; [exact A|]. intros t Ht. destruct (H t Ht) as [W V]. split.
  - destruct l2r; cbn [wfx] in W; apply wfo_chain_inb in W; tauto.
  - rewrite V by lia. destruct l2r; cbn [pval]; reflexivity.
Qed.
End BeamRun.
