(* C05: concrete instances showing that the hypotheses of the C05 theorems are satisfiable (non-vacuity). *)
From Coq Require Import List Arith Lia PeanoNat Bool ZArith.
From TV Require Import Num.Ops Lin.Tab Lin.BigSum Lin.Mat TT.Chain Model.Cross Model.CrossNum Proofs.CrossIdx Proofs.CrossGeo
  Proofs.CrossP Proofs.Cross05P Proofs.Cross05PSim Proofs.Cross05PInterp Proofs.Cross05PNum Proofs.Cross05PRtl.
Import ListNotations.
Local Open Scope nat_scope.

(* ---------- a cached and an uncached run of the state machine over Z ---------- *)
(* objective: an injective integer function of the multi-index; 3 modes (2, 3, 2), rank-1 start, two sweeps *)
Definition gZ (r : row) : Z := fold_right (fun x acc => (Z.of_nat x + 2 * acc)%Z) 1%Z r.
Definition fZ (k : nat) (I : rows) : option (list Z) := Some (map gZ I).
Definition CZ : @cfg Z unit :=
  mkcfg [mkc 1 2 1 tt; mkc 1 3 1 tt; mkc 1 2 1 tt] None None (Some 2) None false false 0 0 5 None.
Definition crossZ (C : @cfg Z unit) fuel :=
  cross_m OZ (fun _ => false) fZ None tt (fun _ _ => tt) (fun _ _ => tt) (fun _ _ _ _ => tt)
    (fun _ _ _ _ _ _ _ _ => [0]) (fun _ _ _ _ _ _ => tt) (fun _ _ _ _ _ _ => tt)
    (fun _ _ => 0%Z) (fun _ _ _ => 0%Z) (fun _ _ => 0%Z) C fuel.
Definition runZ (C : @cfg Z unit) fuel :=
  run OZ (fun _ => false) fZ None tt (fun _ _ => tt) (fun _ _ => tt) (fun _ _ _ _ => tt)
    (fun _ _ _ _ _ _ _ _ => [0]) (fun _ _ _ _ _ _ => tt) (fun _ _ _ _ _ _ => tt)
    (fun _ _ => 0%Z) (fun _ _ _ => 0%Z) (fun _ _ => 0%Z) C fuel.

Lemma ex_cache_transparent :
  (forall k I, fZ k I = Some (map gZ I)) /\ cache_ok OZ gZ [] /\
  exists su, crossZ (set_cache CZ None) 3 = Ok su /\ k_stop (sK su) = Some Snswp /\
    k_stop (sK (runZ (set_cache CZ (Some [])) 3)) = Some Snswp /\
    k_m (sK su) = 28 /\ k_m (sK (runZ (set_cache CZ (Some [])) 3)) = 5 /\
    k_mc (sK (runZ (set_cache CZ (Some [])) 3)) = 23 /\
    k_cache (sK (runZ (set_cache CZ (Some [])) 3)) =
      Some [([0; 0; 0], 8%Z); ([1; 0; 0], 9%Z); ([0; 1; 0], 10%Z); ([0; 2; 0], 12%Z); ([0; 0; 1], 12%Z)].
Proof.
  split; [reflexivity|]. split; [apply cache_ok_nil|].
  eexists. split; [vm_compute; reflexivity|]. vm_compute. repeat split; reflexivity.
Qed.

(* ---------- the interpolation hypotheses on a rank-1 target over Z ---------- *)
Local Open Scope Z_scope.
Definition AZ (r : row) : Z := (Z.of_nat (nth 0%nat r 0%nat) + 1) * (Z.of_nat (nth 1%nat r 0%nat) + 1).
Definition BZ (t s : nat) : Z := Z.of_nat t + 1.
Definition psZ : list (@posd Z) := [mkposd 2%nat [0%nat] BZ [[0%nat]]; mkposd 2%nat [0%nat] BZ [[]]].

Lemma ex_steps_ok : steps_ok OZ AZ psZ [[]].
Proof.
  cbn [steps_ok psZ p_n p_ind p_B p_cols map].
  split; [repeat constructor|].
  split.
  { intros t c Ht Hc. cbn [length] in *. assert (c = 0%nat) by lia. subst c.
    assert (t = 0%nat \/ t = 1%nat) as [->| ->] by lia; vm_compute; reflexivity. }
  split.
  { exists (fun c u => Z.of_nat (nth 0%nat u 0%nat) + 1). intros t u Ht Hu.
    inversion Hu as [|j n' u' ns' Hj Hu']; subst. inversion Hu'; subst. cbn [length] in Ht.
    assert (t = 0%nat \/ t = 1%nat) as [->| ->] by lia; unfold AZ, cand, bsum; cbn; lia. }
  split; [repeat constructor|].
  split.
  { intros t c Ht Hc. cbn [length nextL map] in *. assert (c = 0%nat) by lia. subst c.
    assert (t = 0%nat \/ t = 1%nat) as [->| ->] by lia; vm_compute; reflexivity. }
  split; [|exact I].
  exists (fun c u => 1%Z). intros t u Ht Hu. inversion Hu; subst. cbn [length nextL map] in Ht.
  assert (t = 0%nat \/ t = 1%nat) as [->| ->] by lia; vm_compute; reflexivity.
Qed.

Lemma ex_ltr_values :
  map (fun q => let (L', v') := runI OZ psZ [[]] (e0 OZ) q in
                bsum OZ (length L') (fun a => v' a * AZ (nth a L' [])))
      [[0; 0]; [1; 0]; [0; 1]; [1; 1]]%nat = [1; 2; 2; 4].
Proof. vm_compute. reflexivity. Qed.

(* ---------- the instantiated model on the rank-1 target AZ: hypotheses of cross_exact_ltr hold ---------- *)
(* "QR" with R = identity (meets Z = Q R), "maxvol" picking row 0 with B = Q (meets B Q[ind] = Q when Q[0] = 1) *)
Definition qrI (M : mat Z) : mat Z * mat Z := (M, mid OZ (mc M)).
Definition mvI0 (Q : mat Z) (dmin dmax : nat) : list nat := [0%nat].
Definition mvB0 (Q : mat Z) (ind : list nat) : mat Z := Q.
Definition fA (k : nat) (I : rows) : option (list Z) := Some (map AZ I).
Definition oneC : core Z := mk_core 1 2 1 [[[1]; [1]]].
Definition CN : @cfg Z (core Z) :=
  mkcfg [mkc 1%nat 2%nat 1%nat oneC; mkc 1%nat 2%nat 1%nat oneC] None None (Some 3%nat) None false false 0 0 5 None.
Definition stepZN := step OZ (fun _ => false) fA None (ponesN OZ) (pdotLN OZ) (pdotRN OZ) (pvalsN OZ)
  (pickN OZ qrI mvI0) (pcoreGN OZ qrI mvB0) (pfacRN OZ qrI) (fun _ _ => 0) (fun _ _ _ => 0) (fun _ _ => 0) CN.
Definition s0N := run OZ (fun _ => false) fA None (ponesN OZ) (pdotLN OZ) (pdotRN OZ) (pvalsN OZ)
  (pickN OZ qrI mvI0) (pcoreGN OZ qrI mvB0) (pfacRN OZ qrI) (fun _ _ => 0) (fun _ _ _ => 0) (fun _ _ => 0) CN 0.

Lemma qrI_ok Zm : qr_ok_at OZ qrI Zm.
Proof.
  unfold qr_ok_at, qrI; cbn [fst snd]. split; [reflexivity|]. split; [reflexivity|].
  intros t c Ht Hc. cbn [mc mid mkmat].
  rewrite (bsum_single OZ OZ_rng (mc Zm) c); auto.
  - rewrite mget_mid, Nat.eqb_refl by auto. cbn. ring.
  - intros i Hi Hne. rewrite mget_mid by auto. destruct (Nat.eqb_spec i c); [contradiction|]. cbn. ring.
Qed.

Lemma ex_num_hyps :
  (1 <= d CN)%nat /\ s_pc s0N = Run true true 0 /\ k_stop (sK s0N) = None /\ k_cache (sK s0N) = None /\
  length (sY s0N) = d CN /\ length (sIr s0N) = S (d CN) /\ nth 0 (sIr s0N) None = None /\
  nth (d CN) (sIc s0N) None = None /\
  (forall i, (i < d CN)%nat ->
     pos_ok OZ qrI mvI0 mvB0 AZ CN s0N i (iterate stepZN i s0N)).
Proof.
  repeat (split; [vm_compute; try reflexivity; lia|]).
  intros i Hi. change (d CN) with 2%nat in Hi.
  assert (i = 0 \/ i = 1)%nat as [->| ->] by lia.
  - split; [|split; [apply qrI_ok|]].
    + assert (E1 : orl (nth 0 (sIr (iterate stepZN 0 s0N)) None) = [[]]) by (vm_compute; reflexivity).
      assert (E2 : orl (nth 1 (sIc s0N) None) = [[0%nat]]) by (vm_compute; reflexivity).
      rewrite E1, E2. change (nth 0 (nsN CN) 0%nat) with 2%nat. change (skipn 1 (nsN CN)) with [2%nat].
      exists (fun c u => Z.of_nat (nth 0%nat u 0%nat) + 1). intros t u Ht Hu.
      inversion Hu as [|j n' u' ns' Hj Hu']; subst. inversion Hu'; subst. cbn [length] in Ht.
      assert (t = 0%nat \/ t = 1%nat) as [->| ->] by lia; unfold AZ, cand, bsum; cbn; lia.
    + unfold mv_ok_at, mvI0, mvB0. cbv zeta. split; [repeat constructor; vm_compute; lia|].
      intros t k Ht Hk.
      assert (Er : mr (fst (qrI (Zm_of OZ AZ CN s0N 0 (iterate stepZN 0 s0N)))) = 2%nat) by (vm_compute; reflexivity).
      assert (Ec : mc (fst (qrI (Zm_of OZ AZ CN s0N 0 (iterate stepZN 0 s0N)))) = 1%nat) by (vm_compute; reflexivity).
      rewrite Er in Ht. rewrite Ec in Hk. assert (k = 0%nat) by lia. subst k.
      assert (t = 0%nat \/ t = 1%nat) as [->| ->] by lia; vm_compute; reflexivity.
  - split; [|split; [apply qrI_ok|]].
    + assert (E1 : orl (nth 1 (sIr (iterate stepZN 1 s0N)) None) = [[0%nat]]) by (vm_compute; reflexivity).
      assert (E2 : orl (nth 2 (sIc s0N) None) = [[]]) by (vm_compute; reflexivity).
      rewrite E1, E2. change (nth 1 (nsN CN) 0%nat) with 2%nat. change (skipn 2 (nsN CN)) with (@nil nat).
      exists (fun c u => 1). intros t u Ht Hu. inversion Hu; subst. cbn [length] in Ht.
      assert (t = 0%nat \/ t = 1%nat) as [->| ->] by lia; vm_compute; reflexivity.
    + unfold mv_ok_at, mvI0, mvB0. cbv zeta. split; [repeat constructor; vm_compute; lia|].
      intros t k Ht Hk.
      assert (Er : mr (fst (qrI (Zm_of OZ AZ CN s0N 1 (iterate stepZN 1 s0N)))) = 2%nat) by (vm_compute; reflexivity).
      assert (Ec : mc (fst (qrI (Zm_of OZ AZ CN s0N 1 (iterate stepZN 1 s0N)))) = 1%nat) by (vm_compute; reflexivity).
      rewrite Er in Ht. rewrite Ec in Hk. assert (k = 0%nat) by lia. subst k.
      assert (t = 0%nat \/ t = 1%nat) as [->| ->] by lia; vm_compute; reflexivity.
Qed.

Lemma ex_num_values :
  map (ttval OZ (sY (iterate stepZN 2 s0N))) [[0; 0]; [1; 0]; [0; 1]; [1; 1]]%nat = [1; 2; 2; 4].
Proof. vm_compute. reflexivity. Qed.

(* ---------- the way back and the full sweep on the same instance ---------- *)
Definition s1N := iterate stepZN 2 s0N.

Lemma ex_rtl_hyps :
  length (sIc s0N) = S (d CN) /\
  (forall k, (k < d CN)%nat ->
     rpos_ok OZ qrI mvI0 mvB0 AZ CN s1N (d CN - 1 - k) (iterate stepZN k s1N)).
Proof.
  split; [vm_compute; reflexivity|].
  intros k Hk. change (d CN) with 2%nat in *.
  assert (k = 0 \/ k = 1)%nat as [->| ->] by lia.
  - change (2 - 1 - 0)%nat with 1%nat. split; [|split; [apply qrI_ok|]].
    + assert (E1 : orl (nth 1 (sIr s1N) None) = [[0%nat]]) by (vm_compute; reflexivity).
      assert (E2 : orl (nth 2 (sIc (iterate stepZN 0 s1N)) None) = [[]]) by (vm_compute; reflexivity).
      rewrite E1, E2. change (nth 1 (nsN CN) 0%nat) with 2%nat. change (firstn 1 (nsN CN)) with [2%nat].
      exists (fun a u => Z.of_nat (nth 0%nat u 0%nat) + 1). intros t u Ht Hu.
      inversion Hu as [|j n' u' ns' Hj Hu']; subst. inversion Hu'; subst. cbn [length] in Ht.
      assert (t = 0%nat \/ t = 1%nat) as [->| ->] by lia; unfold AZ, rcand, bsum; cbn;
        destruct (Z.of_nat j + 1); lia.
    + unfold mv_ok_at, mvI0, mvB0. cbv zeta. split; [repeat constructor; vm_compute; lia|].
      intros t c Ht Hc.
      assert (Er : mr (fst (qrI (Zr_of OZ AZ CN s1N 1 (iterate stepZN 0 s1N)))) = 2%nat) by (vm_compute; reflexivity).
      assert (Ec : mc (fst (qrI (Zr_of OZ AZ CN s1N 1 (iterate stepZN 0 s1N)))) = 1%nat) by (vm_compute; reflexivity).
      rewrite Er in Ht. rewrite Ec in Hc. assert (c = 0%nat) by lia. subst c.
      assert (t = 0%nat \/ t = 1%nat) as [->| ->] by lia; vm_compute; reflexivity.
  - change (2 - 1 - 1)%nat with 0%nat. split; [|split; [apply qrI_ok|]].
    + assert (E1 : orl (nth 0 (sIr s1N) None) = [[]]) by (vm_compute; reflexivity).
      assert (E2 : orl (nth 1 (sIc (iterate stepZN 1 s1N)) None) = [[0%nat]]) by (vm_compute; reflexivity).
      rewrite E1, E2. change (nth 0 (nsN CN) 0%nat) with 2%nat. change (firstn 0 (nsN CN)) with (@nil nat).
      exists (fun a u => 1). intros t u Ht Hu. inversion Hu; subst. cbn [length] in Ht.
      assert (t = 0%nat \/ t = 1%nat) as [->| ->] by lia; vm_compute; reflexivity.
    + unfold mv_ok_at, mvI0, mvB0. cbv zeta. split; [repeat constructor; vm_compute; lia|].
      intros t c Ht Hc.
      assert (Er : mr (fst (qrI (Zr_of OZ AZ CN s1N 0 (iterate stepZN 1 s1N)))) = 2%nat) by (vm_compute; reflexivity).
      assert (Ec : mc (fst (qrI (Zr_of OZ AZ CN s1N 0 (iterate stepZN 1 s1N)))) = 1%nat) by (vm_compute; reflexivity).
      rewrite Er in Ht. rewrite Ec in Hc. assert (c = 0%nat) by lia. subst c.
      assert (t = 0%nat \/ t = 1%nat) as [->| ->] by lia; vm_compute; reflexivity.
Qed.

Lemma ex_full_values :
  map (ttval OZ (sY (iterate stepZN 4 s0N))) [[0; 0]; [1; 0]; [0; 1]; [1; 1]]%nat = [1; 2; 2; 4] /\
  s_pc (iterate stepZN 4 s0N) = Run true true 0.
Proof. vm_compute. split; reflexivity. Qed.
