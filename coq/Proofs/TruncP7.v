(* C02, part 7 (partial): the rank clause "no returned rank exceeds the smallest rank that meets the budget".
   Matrix level, SVD mode: the rank matrix_skeleton returns is rank_select applied to the squared singular values s of
   the matrix (any thin SVD meeting svd_ok), hence every smaller rank q' >= 1 leaves a discarded energy
   sum_{c >= q'} s_c^2 > e^2.  (With s sorted, that discarded energy is the best rank-q' error by Eckart-Young, which is
   not proved here.)  First truncated bond of truncate (k = d-1), SVD mode, no stabilisation: the matrix handed to the
   factorisation is the right unfolding M of the last orthogonalised core, the (d-1)-unfolding of the input tensor is
   X = P M with P having orthonormal columns, so X = (P U) diag(s) Vt is a thin SVD of the input unfolding with the SAME
   singular values s ([first_bond_svd]); the returned rank r_{d-1} is rank_select of those ([first_bond_rank]).
   Not covered: the other bonds (their matrices are unfoldings of the already truncated tensor; relating their singular
   values to those of the input unfoldings needs interlacing) and the eigen-decomposition mode at tensor level. *)
From Coq Require Import List Arith Lia Ring PeanoNat ZArith Bool Reals Lra.
From TV Require Import Num.Ops Lin.Tab Lin.BigSum Lin.Mat TT.Chain Model.Transformation Model.Svd Model.Wf
  Proofs.TransformationP Proofs.TransformationP2 Proofs.OrthP Proofs.OrthP2 Proofs.WfP Proofs.StabRP
  Proofs.TruncP Proofs.FrobP Proofs.TruncP2 Proofs.TruncP3 Proofs.TruncP4.
Import ListNotations.
Local Open Scope R_scope.

Section SkelRank.
Variable svdo : nat -> mat R -> mat R * list R * mat R.
Hypothesis svd_spec : forall k A, svd_ok OR A (fst (fst (svdo k A))) (snd (fst (svdo k A))) (snd (svdo k A)).

Lemma skeleton_rank k (A : mat R) e rcap : (1 <= mr A)%nat -> (1 <= mc A)%nat ->
  mc (fst (matrix_skeleton OR svdo k A e rcap false GiveL)) =
  rank_select OR (map (fun x => x * x) (snd (fst (svdo k A)))) (e * e) rcap.
Proof.
  intros H1 H2. unfold matrix_skeleton. pose proof (svd_spec k A) as HS.
  destruct (svdo k A) as [[U s] V]. cbn [fst snd] in *. destruct HS as (h1 & _).
  cbn [mmul mc mkmat diagl].
  change (rank_select OR (map (fun x : R => omul OR x x) s) (omul OR e e) rcap) with
         (rank_select OR (map (fun x : R => x * x) s) (e * e) rcap).
  set (q := rank_select OR (map (fun x : R => x * x) s) (e * e) rcap).
  destruct (rank_select_bounds (map (fun x : R => x * x) s) (e * e) rcap) as (b1 & b2 & b3). fold q in b3.
  rewrite map_length in b3. apply firstn_length_le. lia.
Qed.
(* every smaller rank misses the budget, for the singular values of the matrix itself *)
Theorem skeleton_rank_minimal k (A : mat R) e rcap q' : (1 <= mr A)%nat -> (1 <= mc A)%nat ->
  (1 <= q')%nat -> (q' < mc (fst (matrix_skeleton OR svdo k A e rcap false GiveL)))%nat ->
  e * e < tailsum (map (fun x => x * x) (snd (fst (svdo k A)))) q'.
Proof.
  intros H1 H2 Hq1 Hq. rewrite skeleton_rank in Hq by auto. apply (rank_select_minimal_all _ _ rcap); auto.
  apply Forall_forall. intros v Hv. apply in_map_iff in Hv as (x & <- & _). nra.
Qed.
End SkelRank.

Lemma gsweep_length {T} (K : ops T) fact n : forall (Zs : list (core T)) k, length (gsweep K fact Zs k n) = length Zs.
Proof. induction n as [|n IH]; intros Zs k; cbn [gsweep]; [reflexivity|]. cbv zeta. rewrite IH. now rewrite !upd_length. Qed.

Section FirstBond.
Variable svdo : nat -> mat R -> mat R * list R * mat R.
Variable eigh : nat -> mat R -> list R * mat R.
Variable argsort : nat -> list R -> list nat.
Variable qr rq : nat -> mat R -> mat R * mat R.
Variable ilog2 : nat -> R -> Z.
Variable pow2frac : Z -> nat -> R.
Hypothesis qr_spec : forall k A, qr_ok OR A (fst (qr k A)) (snd (qr k A)).
Hypothesis rq_spec : forall k A, rq_ok OR A (fst (rq k A)) (snd (rq k A)).
Hypothesis svd_spec : forall k A, svd_ok OR A (fst (fst (svdo k A))) (snd (fst (svdo k A))) (snd (svdo k A)).

(* the sweep, first step made explicit: the rank of the last bond of the result is the rank the first factorisation returns *)
Lemma gsweep_first_rank fact m (Zs : list (core R)) : length Zs = S (S m) ->
  cr1 (nth (S m) (gsweep OR fact Zs (S m) (S m)) dcore) =
  mr (snd (fact (S m) (unfoldR OR (nth (S m) Zs dcore)))).
Proof.
  intros LZ. destruct (snoc2 Zs m LZ) as (P0 & A & G & -> & LP0).
  rewrite <- app_assoc. cbn [app]. rewrite <- LP0. rewrite nth_mid2.
  rewrite (gsweep_step OR fact P0 A G (length P0)). cbv zeta. rewrite app_assoc.
  rewrite gsweep_app by (rewrite app_length; cbn; lia).
  rewrite app_nth2 by (rewrite gsweep_length, app_length; cbn; lia).
  rewrite gsweep_length, app_length. cbn [length]. replace (S (length P0) - (length P0 + 1))%nat with O by lia.
  reflexivity.
Qed.

Theorem first_bond_rank (rcap : Z) (Y : list (core R)) (e : R) :
  wfI (shape Y) Y -> (2 <= length Y)%nat -> 0 <= e ->
  exists Zs W e',
    orthogonalize OR qr rq ilog2 Y (Some (Z.of_nat (length Y - 1))) false = Ok (Zs, 0%Z) /\
    truncate OR svdo eigh argsort qr rq ilog2 pow2frac Y e rcap true false false = Ok W /\
    0 <= e' /\ INR (length Y - 1) * (e' * e') = e * e * tnorm2 OR Y /\
    let s := snd (fst (svdo (length Y - 1)%nat (unfoldR OR (nth (length Y - 1) Zs dcore)))) in
    cr1 (nth (length Y - 1) W dcore) = rank_select OR (map (fun x => x * x) s) (e' * e') rcap /\
    forall q', (1 <= q')%nat -> (q' < cr1 (nth (length Y - 1) W dcore))%nat ->
      e' * e' < tailsum (map (fun x => x * x) s) q'.
Proof.
  intros WY Hd He. set (d := length Y) in *.
  assert (Lns : length (shape Y) = d) by apply map_length.
  assert (C : chain 1 Y 1). { apply wfI_iff in WY. destruct WY as ((_ & C & _) & _). exact C. }
  destruct OR_laws as (_ & pa & p0 & pd).
  destruct (orthogonalize_full OR OR_rng pa p0 pd qr rq ilog2 qr_spec rq_spec (fun _ => True) (fun _ _ _ _ => I)
              false Y (d - 1)%nat C) as (Zs & p & EO & OK); [lia|].
  destruct (orthogonalize_wfI OR qr rq ilog2 (qr_ok_shape qr qr_spec) (rq_ok_shape rq rq_spec) (shape Y) Y
              (Some (Z.of_nat (d - 1))) false WY) as (Zs' & p' & EO' & WZ); [rewrite Lns; lia|].
  rewrite EO in EO'. injection EO' as <- <-.
  pose proof (orthogonalize_norm OR OR_rng pa p0 pd qr rq ilog2 qr_spec rq_spec (fun _ => True) (fun _ _ _ _ => I)
                false Y (d - 1)%nat Zs p C ltac:(lia) EO) as (_ & _ & NY). specialize (NY eq_refl).
  destruct OK as [c1 c2 c3 c4 c5 c6 c7 c8 c9 c10 c11]. destruct (c2 eq_refl) as (-> & GY).
  pose proof WZ as WZ'. destruct WZ as (wL & wP & wF & wLa & wLk & wDm). rewrite Lns in wL, wP, wLa, wLk, wDm.
  set (Gl := nth (d - 1) Zs dcore) in *.
  assert (BR : Svd.cfrob2 OR Gl = OrthP.cfrob2 OR Gl) by (apply cfrob2_bridge; apply wDm; lia).
  set (N := OrthP.cfrob2 OR Gl) in *.
  set (e' := e / sqrt (IZR (Z.of_nat (d - 1))) * sqrt N).
  assert (HN : 0 <= N) by apply cfrob2_nonneg.
  assert (HD : 0 < IZR (Z.of_nat (d - 1))) by (apply IZR_lt; lia).
  assert (He' : 0 <= e').
  { unfold e'. apply Rmult_le_pos; [|apply sqrt_pos]. apply Rmult_le_pos; [exact He|].
    apply Rlt_le, Rinv_0_lt_compat, sqrt_lt_R0, HD. }
  assert (E2 : INR (d - 1) * (e' * e') = e * e * N).
  { unfold e'. rewrite INR_IZR_INZ. set (D := IZR (Z.of_nat (d - 1))) in *.
    assert (S1 : sqrt D * sqrt D = D) by (apply sqrt_sqrt; lra).
    assert (S2 : sqrt N * sqrt N = N) by (apply sqrt_sqrt; lra).
    assert (S3 : sqrt D <> 0) by (apply Rgt_not_eq, sqrt_lt_R0, HD).
    replace (D * (e / sqrt D * sqrt N * (e / sqrt D * sqrt N))) with (e * e * (D / (sqrt D * sqrt D)) * (sqrt N * sqrt N)) by (field; exact S3).
    rewrite S1, S2. field. lra. }
  exists Zs, (gsweep OR (fun k M => matrix_skeleton OR svdo k M e' rcap false GiveL) Zs (d - 1) (d - 1)), e'.
  split; [exact EO|]. split.
  { unfold truncate. fold d. replace (Z.of_nat d - 1)%Z with (Z.of_nat (d - 1)) by lia. rewrite EO. cbv zeta.
    fold Gl. rewrite BR. fold N. rewrite trunc_sweep_gsweep. reflexivity. }
  split; [exact He'|]. split; [rewrite NY; exact E2|]. cbv zeta.
  assert (PGl : (1 <= mr (unfoldR OR Gl))%nat /\ (1 <= mc (unfoldR OR Gl))%nat).
  { cbn [unfoldR mr mc mkmat]. destruct (wDm (d - 1)%nat) as (n1 & _ & n2 & n3); [lia|]. fold Gl in n1, n3.
    pose proof (wfI_cr1_pos (shape Y) Zs (d - 1)%nat WZ' ltac:(rewrite Lns; lia)) as n4. fold Gl in n4.
    rewrite n1. split; [exact n4|nia]. }
  assert (RK : cr1 (nth (d - 1) (gsweep OR (fun k M => matrix_skeleton OR svdo k M e' rcap false GiveL) Zs (d - 1) (d - 1)) dcore) =
               mc (fst (matrix_skeleton OR svdo (d - 1)%nat (unfoldR OR Gl) e' rcap false GiveL))).
  { replace (d - 1)%nat with (S (d - 2)) by lia. rewrite gsweep_first_rank by lia.
    replace (S (d - 2)) with (d - 1)%nat by lia. fold Gl.
    pose proof (skeleton_contract svdo svd_spec rcap e' He' (d - 1)%nat (unfoldR OR Gl) (proj1 PGl) (proj2 PGl)) as (FO & _).
    cbv zeta in FO. destruct FO as [_ _ fq _ _]. exact fq. }
  split.
  - rewrite RK. apply skeleton_rank; [exact svd_spec|tauto|tauto].
  - intros q' H1 H2. rewrite RK in H2. apply (skeleton_rank_minimal svdo svd_spec (d - 1)%nat (unfoldR OR Gl) e' rcap q'); tauto.
Qed.
End FirstBond.

(* the unfolding of a chain whose prefix is left-orthonormal has the singular values of its last core's unfolding:
   X[iL, i] = sum_c L_c[iL] s_c Vt[c, i]  with  <L_c, L_c'> = delta  (L = P U) -- a thin SVD of X with the same s *)
Local Close Scope R_scope.
Section UnfoldingSvd.
Context {T : Type} (K : ops T).
Notation "0" := (o0 K). Notation "1" := (o1 K).
Infix "+" := (oadd K). Infix "*" := (omul K). Infix "-" := (osub K).
Hypothesis Rth : rng K.
Add Ring RrUnfSvd : Rth.
Local Notation bsum := (bsum K). Local Notation msum := (msum K). Local Notation mget := (mget K).

Definition leftvec (P : list (core T)) (Us : mat T) (r : nat) (iL : list nat) (c : nat) : T :=
  bsum r (fun a => oget K P iL a * mget Us a c).

Theorem first_bond_svd (P : list (core T)) (G : core T) (Us : mat T) (s : list T) (Vs : mat T) :
  chain 1%nat P (cr1 G) -> Forall (lorth K) P -> cr2 G = 1%nat -> svd_ok K (unfoldR K G) Us s Vs ->
  (forall c c', c < length s -> c' < length s ->
     msum (shape P) (fun iL => leftvec P Us (cr1 G) iL c * leftvec P Us (cr1 G) iL c') = if Nat.eqb c c' then 1 else 0) /\
  (forall iL i, inb (shape P) iL -> i < cn G ->
     get K (P ++ [G]) (iL ++ [i]) = bsum (length s) (fun c => leftvec P Us (cr1 G) iL c * nth c s 0 * mget Vs c i)).
Proof.
  intros C HL E2 (h1 & h2 & h3 & h4 & h5 & hA & hU & hV). cbn [unfoldR mr mc mkmat] in h2, h5, hA, hU.
  split.
  - intros c c' Hc Hc'. rewrite <- (hU c c') by auto. unfold leftvec.
    transitivity (bsum (cr1 G) (fun a => bsum (cr1 G) (fun a' =>
       msum (shape P) (fun iL => oget K P iL a * oget K P iL a') * (mget Us a c * mget Us a' c')))).
    + rewrite (msum_ext K _ _ (fun iL => bsum (cr1 G) (fun a => bsum (cr1 G) (fun a' =>
         (oget K P iL a * oget K P iL a') * (mget Us a c * mget Us a' c'))))).
      2:{ intros iL _. apply (bsum_prod_expand K Rth). }
      rewrite (msum_bsum K Rth). apply bsum_ext; intros a Ha. rewrite (msum_bsum K Rth). apply bsum_ext; intros a' Ha'.
      apply (msum_mul_r K Rth).
    + apply bsum_ext; intros a Ha. rewrite (bsum_single K Rth (cr1 G) a); auto.
      * rewrite (gram_oget K Rth P (cr1 G) C HL) by auto. rewrite Nat.eqb_refl. ring.
      * intros a' Ha' Hne. rewrite (gram_oget K Rth P (cr1 G) C HL) by auto. destruct (Nat.eqb_spec a a'); [congruence|ring].
  - intros iL i HiL Hi. rewrite (get_oget K).
    assert (L1 : length iL = length P) by (rewrite (inb_length _ _ HiL); apply map_length).
    rewrite (oget_snoc K P G iL i O L1) by lia.
    rewrite (bsum_ext K (cr1 G) _ (fun a => bsum (length s) (fun c => (oget K P iL a * mget Us a c) * (nth c s 0 * mget Vs c i)))).
    2:{ intros a Ha. replace (Chain.cget K G a i 0) with (mget (unfoldR K G) a (i + cn G * 0)%nat)
          by (apply (mget_unfoldR K); auto; lia).
        rewrite hA by (auto; rewrite E2; lia). rewrite <- bsum_mul_l by auto.
        replace (i + cn G * 0)%nat with i by lia. apply bsum_ext; intros c Hc. ring. }
    rewrite bsum_swap by auto. apply bsum_ext; intros c Hc. unfold leftvec.
    rewrite <- bsum_mul_r by auto. rewrite <- bsum_mul_r by auto. apply bsum_ext; intros a Ha. ring.
Qed.
End UnfoldingSvd.
