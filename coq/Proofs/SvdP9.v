(* Lemmas for C03, part 9: which inputs svd_matrix / full_matrix reject (and with what), and well-formedness of what
   they return. *)
From Coq Require Import List Arith Lia PeanoNat ZArith Bool.
From TV Require Import Num.Ops Lin.Tab Lin.BigSum Lin.Mat TT.Chain Model.ActOne Model.Transformation
  Model.Svd Model.SvdMatrix Proofs.SvdP Proofs.SvdP2.
Import ListNotations.

(* a factor of a power of two is a power of two *)
Lemma pow2_factor : forall n a b, a * b = 2 ^ n -> exists k, a = 2 ^ k.
Proof.
  induction n as [|n IH]; intros a b H.
  - cbn in H. exists 0. apply Nat.eq_mul_1 in H as [-> _]. reflexivity.
  - cbn [Nat.pow] in H. destruct (Nat.Even_or_Odd a) as [[a' Ea]|[a' Ea]].
    + subst a. destruct (IH a' b) as [k Hk]; [nia|]. exists (S k). cbn [Nat.pow]. lia.
    + destruct (Nat.Even_or_Odd b) as [[b' Eb]|[b' Eb]].
      * subst b. destruct (IH a b') as [k Hk]; [nia|]. exists k. exact Hk.
      * exfalso. subst a b.
        assert (X : (2 * a' + 1) * (2 * b' + 1) = 2 * (2 * a' * b' + a' + b') + 1) by ring. lia.
Qed.
Lemma square_pow2 m c : 0 < m -> m * c = 4 ^ Nat.log2 m -> m = 2 ^ Nat.log2 m /\ c = 2 ^ Nat.log2 m.
Proof.
  intros Hm H. set (q := Nat.log2 m) in *.
  assert (E4 : 4 ^ q = 2 ^ q * 2 ^ q) by (change 4 with (2 * 2); now rewrite Nat.pow_mul_l).
  assert (E4' : 4 ^ q = 2 ^ (q + q)) by (rewrite E4; now rewrite Nat.pow_add_r).
  destruct (pow2_factor (q + q) m c) as [k Hk]; [congruence|].
  assert (Ek : k = q). { unfold q. rewrite Hk. now rewrite Nat.log2_pow2 by lia. }
  subst k. split; [exact Hk|].
  assert (P : 2 ^ q <> 0) by (apply Nat.pow_nonzero; lia).
  rewrite E4, Hk in H. rewrite <- Hk in H at 1. rewrite Hk in H. now apply Nat.mul_cancel_l in H.
Qed.

Section Reject.
Context {T : Type} (K : ops T).
Variable svdo : nat -> mat T -> mat T * list T * mat T.

(* svd_matrix: int(log2(0)) overflows *)
Theorem svd_matrix_rej_empty Y e rcap : mr Y = 0 -> svd_matrix K svdo Y e rcap = Err OtherError.
Proof. intros H. unfold svd_matrix. now rewrite H. Qed.
(* 1 x 1: the reshaped array is 0-dimensional, svd indexes an empty shape *)
Theorem svd_matrix_rej_1x1 Y e rcap : mr Y = 1 -> mc Y = 1 -> svd_matrix K svdo Y e rcap = Err IndexError.
Proof. intros H1 H2. unfold svd_matrix. rewrite H1, H2. reflexivity. Qed.
(* anything that is not 2^q x 2^q (non-square, or size not a power of two): the first reshape raises ValueError *)
Theorem svd_matrix_rej_shape Y e rcap : 0 < mr Y -> (forall q, ~ (mr Y = 2 ^ q /\ mc Y = 2 ^ q)) ->
  svd_matrix K svdo Y e rcap = Err ValueError.
Proof.
  intros Hm Hn. unfold svd_matrix. destruct (Nat.eqb_spec (mr Y) 0) as [|_]; [lia|].
  destruct (Nat.eqb_spec (mr Y * mc Y) (4 ^ Nat.log2 (mr Y))) as [E|_]; [|reflexivity].
  exfalso. apply (Hn (Nat.log2 (mr Y))). now apply square_pow2.
Qed.
(* what is accepted, and what comes back: q cores of mode size 4, boundary ranks 1, ranks within the cap *)
Theorem svd_matrix_wf Y e rcap Yt : svd_matrix K svdo Y e rcap = Ok Yt ->
  exists q, 1 <= q /\ mr Y = 2 ^ q /\ mc Y = 2 ^ q /\ length Yt = q /\
    chain 1 Yt 1 /\ shape Yt = repeat 4 q /\ Forall (fun G => 1 <= cr2 G <= capn rcap) Yt.
Proof.
  unfold svd_matrix. destruct (Nat.eqb_spec (mr Y) 0) as [|Hm]; [discriminate|].
  destruct (Nat.eqb_spec (mr Y * mc Y) (4 ^ Nat.log2 (mr Y))) as [E|_]; [|discriminate]. cbn [negb].
  destruct (Nat.eqb_spec (Nat.log2 (mr Y)) 0) as [|Hq]; [discriminate|]. intros H. injection H as <-.
  destruct (square_pow2 (mr Y) (mc Y) ltac:(lia) E) as [E1 E2].
  set (q := Nat.log2 (mr Y)) in *. exists q.
  assert (Hne : repeat 4 q <> []) by (destruct q; [lia|discriminate]).
  destruct (svd_wf K svdo (repeat 4 q) (interleaved K q Y) e rcap Hne) as (W1 & W2 & W3).
  repeat split; auto; try lia.
  rewrite <- (map_length cn). fold (shape (svd K svdo (repeat 4 q) (interleaved K q Y) e rcap)).
  rewrite W2. apply repeat_length.
Qed.

(* full_matrix: empty chain -> Y[0] raises IndexError *)
Theorem full_matrix_rej_empty o : full_matrix K (@nil (core T)) o = Err IndexError.
Proof. reflexivity. Qed.
(* number of entries different from 4^q: reshape([2,2]*q) raises ValueError (e.g. a mode size other than 4 with
   all others 4) *)
Theorem full_matrix_rej_size G0 Y' o : cr1 G0 = 1 -> cr2 (last (G0 :: Y') G0) = 1 ->
  prodn (map cn (G0 :: Y')) <> 4 ^ length (G0 :: Y') -> full_matrix K (G0 :: Y') o = Err ValueError.
Proof.
  intros H1 H2 H3. unfold full_matrix. rewrite H1, H2. cbn [Nat.eqb andb negb].
  fold (prodn (map cn (G0 :: Y'))). destruct (Nat.eqb_spec (prodn (map cn (G0 :: Y'))) (4 ^ length (G0 :: Y'))); [contradiction|reflexivity].
Qed.
(* boundary ranks other than 1 (extra axes survive in full): modelled as ValueError *)
Theorem full_matrix_rej_boundary G0 Y' o : cr1 G0 <> 1 \/ cr2 (last (G0 :: Y') G0) <> 1 ->
  full_matrix K (G0 :: Y') o = Err ValueError.
Proof.
  intros H. unfold full_matrix.
  destruct (Nat.eqb_spec (cr1 G0) 1), (Nat.eqb_spec (cr2 (last (G0 :: Y') G0)) 1); cbn [andb negb]; try reflexivity.
  destruct H; contradiction.
Qed.
(* whatever is accepted comes back as a 2^q x 2^q matrix *)
Theorem full_matrix_wf Y o M : full_matrix K Y o = Ok M -> Y <> [] /\ mr M = 2 ^ length Y /\ mc M = 2 ^ length Y /\
  prodn (map cn Y) = 4 ^ length Y.
Proof.
  destruct Y as [|G0 Y']; [discriminate|]. unfold full_matrix.
  destruct (negb ((cr1 G0 =? 1) && (cr2 (last (G0 :: Y') G0) =? 1))); [discriminate|].
  fold (prodn (map cn (G0 :: Y'))).
  destruct (Nat.eqb_spec (prodn (map cn (G0 :: Y'))) (4 ^ length (G0 :: Y'))) as [E|]; [|discriminate]. cbn [negb].
  intros H. injection H as <-. repeat split; auto. discriminate.
Qed.
End Reject.
