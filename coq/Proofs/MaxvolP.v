(* Lemmas about Model/Maxvol.v: maxvol (this file), maxvol_rect and _maxvol (Proofs/MaxvolRectP.v). *)
From Coq Require Import List Arith Lia PeanoNat Bool ZArith Ring.
From TV Require Import Num.Ops Lin.Tab Lin.BigSum Lin.Mat Model.Maxvol.
Import ListNotations.

(* ---------- laws of the carrier: an ordered field given by its operations ---------- *)
Record ordfield {T : Type} (K : ops T) : Prop := mk_ordfield {
  of_rng : rng K;
  of_div : forall a b, odiv K a b = omul K a (odiv K (o1 K) b);
  of_inv : forall b, b <> o0 K -> omul K b (odiv K (o1 K) b) = o1 K;
  of_ltb : forall a b, oltb K a b = negb (oleb K b a);
  of_total : forall a b, oleb K a b = true \/ oleb K b a = true;
  of_trans : forall a b c, oleb K a b = true -> oleb K b c = true -> oleb K a c = true;
  of_antisym : forall a b, oleb K a b = true -> oleb K b a = true -> a = b;
  of_add : forall a b c, oleb K a b = true -> oleb K (oadd K a c) (oadd K b c) = true;
  of_mul : forall a b, oleb K (o0 K) a = true -> oleb K (o0 K) b = true -> oleb K (o0 K) (omul K a b) = true;
  of_01 : o0 K <> o1 K;
  of_abs : forall a, oabs K a = if oltb K a (o0 K) then oopp K a else a
}.

(* ---------- lists ---------- *)
Lemma set_nth_length l j v : length (set_nth l j v) = length l.
Proof. revert j; induction l; intros [|j]; simpl; auto. Qed.
Lemma nth_set_nth l j v k : j < length l -> nth k (set_nth l j v) O = if Nat.eqb k j then v else nth k l O.
Proof.
  revert j k; induction l as [|x l IH]; intros [|j] [|k] H; simpl in *; try lia; auto.
  apply IH; lia.
Qed.

Section MaxvolP.
Context {T : Type} (K : ops T).
Notation "0" := (o0 K). Notation "1" := (o1 K).
Infix "+" := (oadd K). Infix "*" := (omul K). Infix "-" := (osub K). Infix "/" := (odiv K).
Notation "- x" := (oopp K x).
Notation mg := (mget K).
Notation "a <=! b" := (oleb K a b = true) (at level 70).
Hypothesis OFK : ordfield K.
Let Rth : rng K := of_rng K OFK.
Add Ring RrMaxvolP : Rth.

(* ---------- order facts ---------- *)
Lemma ole_refl a : a <=! a.
Proof. destruct (of_total K OFK a a); auto. Qed.
Lemma oltb_false_le a b : oltb K a b = false -> b <=! a.
Proof. rewrite (of_ltb K OFK). destruct (oleb K b a); simpl; auto; discriminate. Qed.
Lemma oltb_true_le a b : oltb K a b = true -> a <=! b.
Proof.
  rewrite (of_ltb K OFK). intros H. destruct (of_total K OFK a b) as [E|E]; auto.
  rewrite E in H. discriminate.
Qed.
Lemma oleb_false_le a b : oleb K a b = false -> b <=! a.
Proof. intros H. destruct (of_total K OFK a b) as [E|E]; auto. congruence. Qed.
Lemma abs0 : oabs K 0 = 0.
Proof. rewrite (of_abs K OFK). destruct (oltb K 0 0); ring. Qed.

(* ---------- argmaxf: position in range, and it is a maximum ---------- *)
Lemma argmaxf_lt f n : (0 < n)%nat -> (argmaxf K f n < n)%nat.
Proof.
  induction n as [|m IH]; intros H; [lia|]. cbn [argmaxf].
  destruct m as [|m']. { simpl. destruct (oltb K (f O) (f O)); lia. }
  specialize (IH ltac:(lia)). destruct (oltb K _ _); lia.
Qed.
Lemma argmaxf_max f n t : (t < n)%nat -> f t <=! f (argmaxf K f n).
Proof.
  induction n as [|m IH]; intros H; [lia|]. cbn [argmaxf].
  destruct (oltb K (f (argmaxf K f m)) (f m)) eqn:E.
  - destruct (Nat.eq_dec t m) as [->|Hne]; [apply ole_refl|].
    eapply (of_trans K OFK); [apply IH; lia|]. now apply oltb_true_le.
  - destruct (Nat.eq_dec t m) as [->|Hne]; [now apply oltb_false_le|]. apply IH; lia.
Qed.

Lemma pivot_bounds (B : mat T) : (0 < mr B)%nat -> (0 < mc B)%nat ->
  (fst (maxvol_pivot K B) < mr B)%nat /\ (snd (maxvol_pivot K B) < mc B)%nat.
Proof.
  intros Hn Hr. unfold maxvol_pivot. cbn [fst snd]. split.
  - apply Nat.div_lt_upper_bound; [lia|]. rewrite Nat.mul_comm. apply argmaxf_lt. nia.
  - apply Nat.mod_upper_bound. lia.
Qed.
Lemma pivot_max (B : mat T) x y : (x < mr B)%nat -> (y < mc B)%nat ->
  oabs K (mg B x y) <=! oabs K (mg B (fst (maxvol_pivot K B)) (snd (maxvol_pivot K B))).
Proof.
  intros Hx Hy. unfold maxvol_pivot. cbn [fst snd].
  set (f := fun t => oabs K (mg B (t / mc B) (t mod mc B))).
  pose proof (argmaxf_max f (mr B * mc B) (x * mc B + y)) as H.
  unfold f at 1 in H. rewrite Nat.div_add_l, Nat.div_small, Nat.add_0_r in H by lia.
  rewrite Nat.add_comm, Nat.mod_add, Nat.mod_small in H by lia. apply H. nia.
Qed.

(* ---------- the invariant of maxvol: A = B A[I], B[I] = Id, I distinct and valid ---------- *)
Definition mv_inv (A : mat T) (I : list nat) (B : mat T) : Prop :=
  length I = mc A /\ mr B = mr A /\ mc B = mc A /\ NoDup I /\
  (forall k, (k < mc A)%nat -> (nth k I O < mr A)%nat) /\
  (forall a c, (a < mr A)%nat -> (c < mc A)%nat ->
     bsum K (mc A) (fun l => mg B a l * mg A (nth l I O) c) = mg A a c) /\
  (forall k l, (k < mc A)%nat -> (l < mc A)%nat -> mg B (nth k I O) l = if Nat.eqb k l then 1 else 0).

(* the same facts in matrix form *)
Lemma mv_inv_meq A I B : mv_inv A I B ->
  meq K (mmul K B (mrows K A I)) A /\ meq K (mrows K B I) (mid K (mc A)).
Proof.
  intros (HL & Hr & Hc & _ & HV & HP & HI). split.
  - repeat split; simpl; auto. intros a c Ha Hc'. unfold mmul. rewrite mget_mk by (simpl; lia).
    rewrite Hc. rewrite <- (HP a c) by lia. apply bsum_ext; intros l Hl.
    unfold mrows. rewrite mget_mk by lia. reflexivity.
  - repeat split; simpl; auto. intros k l Hk Hl. unfold mrows. rewrite mget_mk by lia.
    rewrite mget_mid by lia. apply HI; lia.
Qed.

Lemma bsum_delta n j (g : nat -> T) (x : T) : (j < n)%nat ->
  bsum K n (fun l => g l * (if Nat.eqb l j then x else 0)) = g j * x.
Proof.
  intros Hj. rewrite (bsum_single K Rth n j); auto.
  - now rewrite Nat.eqb_refl.
  - intros i Hi Hne. destruct (Nat.eqb_spec i j); [contradiction|ring].
Qed.

(* one swap: I[j] := i; B -= b_j (b_i - e_j) / B_ij.  Only B_ij <> 0 is needed. *)
Lemma maxvol_step_inv A I B i j : mv_inv A I B -> (i < mr A)%nat -> (j < mc A)%nat -> mg B i j <> 0 ->
  mv_inv A (set_nth I j i) (maxvol_update K B i j).
Proof.
  intros (HL & Hr & Hc & HND & HV & HP & HI) Hi Hj Hp.
  set (r := mc A) in *. set (p := mg B i j) in *. set (ip := 1 / p).
  assert (Hip : p * ip = 1) by (apply (of_inv K OFK); auto).
  assert (NTH : forall k, nth k (set_nth I j i) O = if Nat.eqb k j then i else nth k I O)
    by (intros; apply nth_set_nth; lia).
  assert (UPD : forall x y, (x < mr A)%nat -> (y < r)%nat ->
            mg (maxvol_update K B i j) x y
            = mg B x y - mg B x j * ((mg B i y - (if Nat.eqb y j then 1 else 0)) * ip)).
  { intros x y Hx Hy. unfold maxvol_update. rewrite mget_mk by lia. fold p. now rewrite (of_div K OFK). }
  unfold mv_inv. rewrite set_nth_length. cbn [maxvol_update mr mc mkmat]. fold r.
  repeat split; auto.
  - (* distinct *)
    apply (NoDup_nth _ O). rewrite set_nth_length. intros k1 k2 H1 H2. rewrite !NTH.
    rewrite (NoDup_nth _ O) in HND.
    destruct (Nat.eqb_spec k1 j) as [->|N1]; destruct (Nat.eqb_spec k2 j) as [->|N2]; auto.
    + intros E. exfalso. apply Hp. unfold p. rewrite E, HI by lia.
      destruct (Nat.eqb_spec k2 j); [contradiction|reflexivity].
    + intros E. exfalso. apply Hp. unfold p. rewrite <- E, HI by lia.
      destruct (Nat.eqb_spec k1 j); [contradiction|reflexivity].
  - (* valid *)
    intros k Hk. rewrite NTH. destruct (Nat.eqb k j); auto.
  - (* product *)
    intros a c Ha Hc'.
    set (g := fun l => mg A (nth l I O) c).
    set (d := fun l => if Nat.eqb l j then mg A i c - g j else 0).
    assert (Ea : bsum K r (fun l => mg B a l * g l) = mg A a c) by (apply HP; auto).
    assert (Ei : bsum K r (fun l => mg B i l * g l) = mg A i c) by (apply HP; auto).
    transitivity (bsum K r (fun l => mg B a l * g l) + bsum K r (fun l => mg B a l * d l)
                  - (mg B a j * ip) * (bsum K r (fun l => mg B i l * g l)
                                       - bsum K r (fun l => g l * (if Nat.eqb l j then 1 else 0))
                                       + bsum K r (fun l => (mg B i l - (if Nat.eqb l j then 1 else 0)) * d l))).
    { rewrite <- (bsum_sub K Rth), <- !(bsum_add K Rth), <- (bsum_mul_l K Rth), <- (bsum_sub K Rth).
      apply bsum_ext; intros l Hl. rewrite UPD by auto. rewrite NTH. unfold d, g.
      destruct (Nat.eqb_spec l j) as [->|Hne]; ring. }
    unfold d. rewrite !bsum_delta by auto. rewrite Ea, Ei. rewrite Nat.eqb_refl. fold p.
    transitivity (mg A a c + mg B a j * (mg A i c - g j) - mg B a j * (p * ip) * (mg A i c - g j)); [ring|].
    rewrite Hip. ring.
  - (* B[I] = Id *)
    intros k l Hk Hl. rewrite NTH. destruct (Nat.eqb_spec k j) as [->|Hne].
    + rewrite UPD by auto. fold p.
      transitivity (mg B i l - (p * ip) * (mg B i l - (if Nat.eqb l j then 1 else 0))); [ring|].
      rewrite Hip. rewrite (Nat.eqb_sym j l). ring.
    + rewrite UPD by auto. rewrite !HI by lia.
      destruct (Nat.eqb_spec k j); [contradiction|]. ring.
Qed.

(* ---------- the loop ---------- *)
Definition all_le (B : mat T) (e : T) : Prop :=
  forall x y, (x < mr B)%nat -> (y < mc B)%nat -> oabs K (mg B x y) <=! e.

Lemma maxvol_loop_spec A e : (0 < mc A)%nat -> (mc A < mr A)%nat -> 0 <=! e ->
  forall k I B, mv_inv A I B ->
  let '(I', B', conv) := maxvol_loop K e k I B in
  mv_inv A I' B' /\ (conv = true -> all_le B' e).
Proof.
  intros Hr Hn He. induction k as [|k IH]; intros I B HInv; cbn [maxvol_loop].
  { split; auto. discriminate. }
  destruct HInv as (HL & Hmr & Hmc & HRest).
  pose proof (pivot_bounds B ltac:(lia) ltac:(lia)) as (Hi & Hj).
  pose proof (pivot_max B) as HM.
  destruct (maxvol_pivot K B) as (i, j). cbn [fst snd] in *.
  destruct (oleb K (oabs K (mg B i j)) e) eqn:E.
  - split; [repeat split; tauto|]. intros _ x y Hx Hy.
    eapply (of_trans K OFK); [apply HM; auto | exact E].
  - apply IH. apply maxvol_step_inv; [repeat split; tauto | lia | lia |].
    intros Z. rewrite Z, abs0 in E. congruence.
Qed.

(* ---------- contract of the LU-based initialisation (oracle) ---------- *)
Definition lu_contract (A : mat T) (res : result (list nat * mat T)) : Prop :=
  exists I0 B0, res = Ok (I0, B0) /\ mv_inv A I0 B0.

(* the specification of a successful call *)
Definition maxvol_post (A : mat T) (e : T) (I : list nat) (B : mat T) (conv : bool) : Prop :=
  length I = mc A /\ NoDup I /\ Forall (fun i => (i < mr A)%nat) I /\
  meq K (mmul K B (mrows K A I)) A /\ meq K (mrows K B I) (mid K (mc A)) /\
  (conv = true -> all_le B e).

Lemma forall_nth_valid (I : list nat) n : (forall k, (k < length I)%nat -> (nth k I O < n)%nat) ->
  Forall (fun i => (i < n)%nat) I.
Proof.
  intros H. apply Forall_forall. intros x Hx. apply (In_nth _ _ O) in Hx as (k & Hk & <-). auto.
Qed.

Lemma maxvol_spec (lu_init : @lu_t T) A e k :
  (0 < mc A)%nat -> (mc A < mr A)%nat -> 0 <=! e -> lu_contract A (lu_init A) ->
  exists I B conv, maxvol_full K lu_init A e k = Ok (I, B, conv) /\ maxvol K lu_init A e k = Ok (I, B) /\
                   maxvol_post A e I B conv.
Proof.
  intros Hr Hn He (I0 & B0 & E0 & HInv). unfold maxvol, maxvol_full.
  destruct (Nat.leb_spec (mr A) (mc A)); [lia|]. rewrite E0. cbn [rbind fst snd rmap].
  pose proof (maxvol_loop_spec A e Hr Hn He k I0 B0 HInv) as HS.
  destruct (maxvol_loop K e k I0 B0) as ((I', B'), conv). destruct HS as (HI & HC).
  pose proof (mv_inv_meq A I' B' HI) as (HM1 & HM2).
  destruct HI as (HL & _ & _ & HND & HV & _).
  exists I', B', conv. split; [reflexivity|]. split; [reflexivity|].
  unfold maxvol_post. repeat split; auto; try apply HM1; try apply HM2.
  apply forall_nth_valid. rewrite HL. exact HV.
Qed.

(* wide or square input is rejected, whatever the initialisation does *)
Lemma maxvol_rejects (lu_init : @lu_t T) A e k : (mr A <= mc A)%nat -> maxvol K lu_init A e k = Err ValueError.
Proof.
  intros H. unfold maxvol, maxvol_full. destruct (Nat.leb_spec (mr A) (mc A)); [reflexivity|lia].
Qed.

(* the iteration limit: after k swaps without a passed test the flag is false; with limit 0 the
   initialisation is returned unchanged *)
Lemma maxvol_limit0 (lu_init : @lu_t T) A e I0 B0 : (mc A < mr A)%nat -> lu_init A = Ok (I0, B0) ->
  maxvol K lu_init A e 0 = Ok (I0, B0).
Proof.
  intros H E. unfold maxvol, maxvol_full. destruct (Nat.leb_spec (mr A) (mc A)); [lia|]. now rewrite E.
Qed.
End MaxvolP.

(* ---------- the laws hold for the exact carrier of the correspondence runs ---------- *)
From Coq Require Import QArith Qcanon.
Lemma Qc_leb_le a b : Qc_leb a b = true <-> (a <= b)%Qc.
Proof.
  unfold Qc_leb. rewrite Qcle_alt. destruct (a ?= b)%Qc; split; intros; try congruence; auto.
Qed.
Lemma Qc_ltb_lt a b : Qc_ltb a b = true <-> (a < b)%Qc.
Proof. unfold Qc_ltb. rewrite Qclt_alt. destruct (a ?= b)%Qc; split; intros; try congruence; auto. Qed.
Lemma ordfield_Qc : ordfield OQc.
Proof.
  constructor; cbn [OQc o0 o1 oadd omul osub oopp odiv oabs oleb oltb].
  - exact Qcrt.
  - intros a b. unfold Qcdiv. ring.
  - intros b Hb. unfold Qcdiv. rewrite Qcmult_1_l. apply Qcmult_inv_r. exact Hb.
  - intros a b. unfold Qc_ltb, Qc_leb. unfold Qccompare. rewrite <- (Qcompare_antisym (this a) (this b)).
    destruct (this a ?= this b)%Q; reflexivity.
  - intros a b. rewrite !Qc_leb_le. destruct (Qclt_le_dec a b) as [H|H]; [left; now apply Qclt_le_weak|right; auto].
  - intros a b c. rewrite !Qc_leb_le. apply Qcle_trans.
  - intros a b. rewrite !Qc_leb_le. apply Qcle_antisym.
  - intros a b c. rewrite !Qc_leb_le. intros H. apply Qcplus_le_compat; [exact H|apply Qcle_refl].
  - intros a b. rewrite !Qc_leb_le. intros Ha Hb.
    replace (Q2Qc 0) with (Q2Qc 0 * b)%Qc by ring. apply Qcmult_le_compat_r; auto.
  - intros H. discriminate H.
  - intros a. reflexivity.
Qed.
