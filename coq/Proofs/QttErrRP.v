(* C17 at the reals: the error of core_tt_to_qtt against the TT-core, for genuinely truncating factorisations.
   - under the projection contract trunc_ok (V V^T = I, U = A V^T): squared error = sum of the squared residuals;
   - under the step contract fact_ok of Proofs/TruncP2.v (rows of V pairwise orthogonal, of norm 1 or zero; U V = A V^T V),
     which is what the MODEL of matrix_svd meets for every eigh / argsort routine meeting their contracts:
     squared error <= sum of the squared residuals;
   - if every residual is <= e^2: Frobenius distance <= sqrt(d) e, d = log2 of the mode size;
   - for matrix_svd itself with a cap above r1 * n (it never binds). *)
From Coq Require Import List Arith Lia Ring PeanoNat ZArith Bool Reals Lra.
From TV Require Import Num.Ops Lin.Tab Lin.BigSum Lin.Mat TT.Chain Model.Transformation Model.Svd Model.Qtt Model.GridInd
  Proofs.TransformationP Proofs.OrthP Proofs.StabRP Proofs.TruncP Proofs.FrobP Proofs.TruncP2 Proofs.TruncP4
  Proofs.TruncP5 Proofs.QttP Proofs.QttP2 Proofs.QttErrP.
Import ListNotations.
Local Open Scope R_scope.

Lemma Rle_add_l (a x y : R) : x <= y -> oadd OR a x <= oadd OR a y.
Proof. cbn. lra. Qed.

(* the step contract of C02 gives the one-step inequality: the weights |V_c|^2 are 0 or 1 *)
Lemma fact_step_ok (A U V : mat R) : fact_ok OR A U V -> step_ok OR Rle A U V.
Proof.
  intros FO. pose proof FO as [ru cv fq uv [HO HN]]. unfold step_ok. repeat split; auto. intros Rm.
  rewrite (mat_pyth OR OR_rng A U V Rm ru cv (eq_sym fq)).
  - apply Rle_add_l. apply bsumR_le; intros i Hi. apply bsumR_le; intros c Hc.
    pose proof (sqR_nonneg (osub OR (mget OR U i c) (Rm i c))) as SQ.
    destruct (HN c ltac:(lia)) as [E1|EZ].
    + rewrite <- cv, E1. cbn. cbn in SQ. lra.
    + rewrite (bsum_0' OR OR_rng).
      * cbn. cbn in SQ. lra.
      * intros t Ht. rewrite (EZ t) by lia. cbn. ring.
  - exact (fact_EVt OR OR_rng A U V FO).
  - intros c c' Hc Hc' Hne. rewrite <- cv. apply HO; lia.
Qed.

Lemma core_err2_nonneg (G : core R) Qs d : 0 <= core_err2 OR G Qs d.
Proof.
  unfold core_err2. apply bsumR_nonneg'; intros a _. apply bsumR_nonneg'; intros m _. apply bsumR_nonneg'; intros b _.
  apply sqR_nonneg.
Qed.
Lemma cdist2_nonneg (G M : core R) : 0 <= cdist2 OR G M.
Proof.
  unfold cdist2. apply bsumR_nonneg'; intros a _. apply bsumR_nonneg'; intros m _. apply bsumR_nonneg'; intros b _.
  apply sqR_nonneg.
Qed.

(* the sum of the residuals when each one is <= delta2 *)
Lemma loop_res_le msvd delta2 : forall k c A,
  loop_all OR (fun M U V => res2 OR M U V <= delta2) msvd k c A -> loop_res OR msvd k c A <= INR k * delta2.
Proof.
  induction k as [|k IH]; intros c A; cbn [loop_all loop_res].
  - intros _. cbn. lra.
  - intros [H1 H2]. specialize (IH _ _ H2). rewrite S_INR.
    change (res2 OR (halve OR A) (fst (msvd c (halve OR A))) (snd (msvd c (halve OR A))) +
            loop_res OR msvd k (S c) (fst (msvd c (halve OR A))) <= (INR k + 1) * delta2). lra.
Qed.
Lemma calls_res_le msvd delta2 G k :
  calls_all OR (fun M U V => res2 OR M U V <= delta2) msvd G (S k) -> calls_res OR msvd G (S k) <= INR (S k) * delta2.
Proof.
  intros [H1 H2]. unfold calls_res. replace (S k - 1)%nat with k in * by lia.
  pose proof (loop_res_le msvd delta2 k 1%nat _ H2) as X. rewrite S_INR.
  change (res2 OR (unfold_rows OR G) (fst (msvd O (unfold_rows OR G))) (snd (msvd O (unfold_rows OR G))) +
          loop_res OR msvd k 1 (fst (msvd O (unfold_rows OR G))) <= (INR k + 1) * delta2). lra.
Qed.

Lemma sqrt_bound x d e : 0 <= e -> x <= INR d * (e * e) -> sqrt x <= sqrt (INR d) * e.
Proof.
  intros He B. refine (Rle_trans _ _ _ (sqrt_le_1_alt _ _ B) _).
  rewrite sqrt_mult_alt by apply pos_INR. rewrite sqrt_square by exact He. right. ring.
Qed.

Section OneCore.
Variable msvd : nat -> mat R -> mat R * mat R.

(* projection contract at every call the run makes: equality *)
Theorem core_tt_to_qtt_err_R (G : core R) k Qs : cn G = (2 ^ S k)%nat -> (0 < cr1 G)%nat ->
  calls_all OR (trunc_ok OR) msvd G (S k) -> core_tt_to_qtt OR msvd G = Ok Qs ->
  core_err2 OR G Qs (S k) = calls_res OR msvd G (S k) /\
  cdist2 OR G (merged OR Qs) = calls_res OR msvd G (S k).
Proof.
  intros Hn Hr HC E. destruct (core_tt_to_qtt_err OR OR_rng msvd G k Qs Hn Hr HC E) as (L & C & T2 & EQ).
  split; [exact EQ|]. now rewrite (core_err2_merged OR OR_rng G Qs k C T2 L Hn).
Qed.

(* step contract of C02 at every call the run makes: inequality *)
Theorem core_tt_to_qtt_err_le (G : core R) k Qs : cn G = (2 ^ S k)%nat -> (0 < cr1 G)%nat ->
  calls_all OR (fact_ok OR) msvd G (S k) -> core_tt_to_qtt OR msvd G = Ok Qs ->
  length Qs = S k /\ chain (cr1 G) Qs (cr2 G) /\ Forall (fun Q => cn Q = 2%nat) Qs /\
  core_err2 OR G Qs (S k) <= calls_res OR msvd G (S k) /\
  cdist2 OR G (merged OR Qs) <= calls_res OR msvd G (S k).
Proof.
  intros Hn Hr HC E.
  destruct (core_tt_to_qtt_err_gen OR OR_rng Rle Rle_refl Rle_trans Rle_add_l msvd G k Qs Hn Hr) as (L & C & T2 & LE); auto.
  { eapply calls_all_impl; [|exact HC]. exact fact_step_ok. }
  repeat split; auto. now rewrite (core_err2_merged OR OR_rng G Qs k C T2 L Hn).
Qed.

(* every residual <= e^2: Frobenius distance <= sqrt(d) e *)
Theorem core_tt_to_qtt_bound (G : core R) k Qs e : 0 <= e -> cn G = (2 ^ S k)%nat -> (0 < cr1 G)%nat ->
  calls_all OR (fun M U V => fact_ok OR M U V /\ res2 OR M U V <= e * e) msvd G (S k) ->
  core_tt_to_qtt OR msvd G = Ok Qs ->
  length Qs = S k /\ chain (cr1 G) Qs (cr2 G) /\ Forall (fun Q => cn Q = 2%nat) Qs /\
  core_err2 OR G Qs (S k) <= INR (S k) * (e * e) /\
  sqrt (core_err2 OR G Qs (S k)) <= sqrt (INR (S k)) * e /\
  sqrt (cdist2 OR G (merged OR Qs)) <= sqrt (INR (S k)) * e.
Proof.
  intros He Hn Hr HC E.
  assert (HC1 : calls_all OR (fact_ok OR) msvd G (S k)) by (eapply calls_all_impl; [|exact HC]; cbv beta; tauto).
  assert (HC2 : calls_all OR (fun M U V => res2 OR M U V <= e * e) msvd G (S k))
    by (eapply calls_all_impl; [|exact HC]; cbv beta; tauto).
  destruct (core_tt_to_qtt_err_le G k Qs Hn Hr HC1 E) as (L & C & T2 & LE1 & LE2).
  pose proof (calls_res_le msvd (e * e) G k HC2) as B.
  repeat split; auto; [lra| |]; apply sqrt_bound; auto; lra.
Qed.
(* the same under the projection contract of the task statement *)
Theorem core_tt_to_qtt_bound_proj (G : core R) k Qs e : 0 <= e -> cn G = (2 ^ S k)%nat -> (0 < cr1 G)%nat ->
  calls_all OR (fun M U V => trunc_ok OR M U V /\ res2 OR M U V <= e * e) msvd G (S k) ->
  core_tt_to_qtt OR msvd G = Ok Qs ->
  sqrt (core_err2 OR G Qs (S k)) <= sqrt (INR (S k)) * e /\
  sqrt (cdist2 OR G (merged OR Qs)) <= sqrt (INR (S k)) * e.
Proof.
  intros He Hn Hr HC E.
  assert (HC1 : calls_all OR (trunc_ok OR) msvd G (S k)) by (eapply calls_all_impl; [|exact HC]; cbv beta; tauto).
  assert (HC2 : calls_all OR (fun M U V => res2 OR M U V <= e * e) msvd G (S k))
    by (eapply calls_all_impl; [|exact HC]; cbv beta; tauto).
  destruct (core_tt_to_qtt_err_R G k Qs Hn Hr HC1 E) as (E1 & E2).
  pose proof (calls_res_le msvd (e * e) G k HC2) as B.
  split; apply sqrt_bound; auto; lra.
Qed.
End OneCore.

(* ---------------------------------------------------------------------------------------------------
   any factorisation routine meeting the step contract of C02 with budget delta2, cap above r1 * n
   --------------------------------------------------------------------------------------------------- *)
Section Contract.
Variable fact : nat -> mat R -> mat R * mat R.
Variable delta2 : R.
Variable rcap : Z.
Hypothesis Hfact : fact_contract fact delta2 rcap.

Lemma loop_contract H : (1 <= H)%nat -> forall k c (A : mat R), mr A = (H * 2 ^ k)%nat -> (1 <= mc A)%nat ->
  (Z.of_nat (mr A) < rcap)%Z ->
  loop_all OR (fun M U V => fact_ok OR M U V /\ res2 OR M U V <= delta2) fact k c A.
Proof.
  intros HH. induction k as [|k IH]; intros c A HA HC Hcap; cbn [loop_all]; [exact I|].
  assert (Hhalf : (mr A / 2 = H * 2 ^ k)%nat).
  { rewrite HA, Nat.pow_succ_r'. replace (H * (2 * 2 ^ k))%nat with ((H * 2 ^ k) * 2)%nat by lia.
    now rewrite Nat.div_mul by lia. }
  assert (P2 : (1 <= 2 ^ k)%nat) by (pose proof (Nat.pow_nonzero 2 k); lia).
  assert (B1 : (1 <= mr (halve OR A))%nat) by (rewrite (mr_halve OR), Hhalf; nia).
  assert (B2 : (1 <= mc (halve OR A))%nat) by (rewrite (mc_halve OR); lia).
  destruct (Hfact c (halve OR A) B1 B2) as (FO & Q1 & Q2 & Q2' & Q3 & Q4).
  assert (Hle : (mr (halve OR A) <= mr A)%nat).
  { rewrite (mr_halve OR). apply Nat.div_le_upper_bound; lia. }
  split.
  - split; [exact FO|]. apply Q4. lia.
  - apply IH.
    + rewrite (fo_ru OR _ _ _ FO), (mr_halve OR). exact Hhalf.
    + exact Q1.
    + rewrite (fo_ru OR _ _ _ FO). lia.
Qed.
Lemma calls_contract (G : core R) k : cn G = (2 ^ S k)%nat -> (1 <= cr1 G)%nat -> (1 <= cr2 G)%nat ->
  (Z.of_nat (cr1 G * cn G) < rcap)%Z ->
  calls_all OR (fun M U V => fact_ok OR M U V /\ res2 OR M U V <= delta2) fact G (S k).
Proof.
  intros Hn H1 H2 Hcap. unfold calls_all. replace (S k - 1)%nat with k by lia.
  assert (P2 : (1 <= 2 ^ S k)%nat) by (pose proof (Nat.pow_nonzero 2 (S k)); lia).
  assert (MR : mr (unfold_rows OR G) = (cr1 G * cn G)%nat) by reflexivity.
  assert (MC : mc (unfold_rows OR G) = cr2 G) by reflexivity.
  assert (B1 : (1 <= mr (unfold_rows OR G))%nat) by (rewrite MR, Hn; nia).
  assert (B2 : (1 <= mc (unfold_rows OR G))%nat) by (rewrite MC; exact H2).
  destruct (Hfact O (unfold_rows OR G) B1 B2) as (FO & Q1 & Q2 & Q2' & Q3 & Q4).
  split.
  - split; [exact FO|]. apply Q4. lia.
  - apply (loop_contract (2 * cr1 G)); [lia| |exact Q1|].
    + rewrite (fo_ru OR _ _ _ FO), MR, Hn, Nat.pow_succ_r'. lia.
    + rewrite (fo_ru OR _ _ _ FO), MR. exact Hcap.
Qed.
End Contract.

(* ---------------------------------------------------------------------------------------------------
   the MODEL of teneva.matrix_svd (Model/Svd.v) as the factorisation, the same e and r at every call
   --------------------------------------------------------------------------------------------------- *)
Section MatrixSvd.
Variable eigh : nat -> mat R -> list R * mat R.
Variable argsort : nat -> list R -> list nat.
Hypothesis eigh_spec : forall k C, msym C -> eigh_ok C (fst (eigh k C)) (snd (eigh k C)).
Hypothesis argsort_spec : forall k l, argsort_ok l (argsort k l).

Theorem core_tt_to_qtt_matrix_svd (G : core R) k (e : R) (rcap : Z) : 0 <= e -> cn G = (2 ^ S k)%nat ->
  (1 <= cr1 G)%nat -> (1 <= cr2 G)%nat -> (Z.of_nat (cr1 G * cn G) < rcap)%Z ->
  exists Qs, core_tt_to_qtt OR (fun c M => matrix_svd OR eigh argsort c M e rcap) G = Ok Qs /\
    length Qs = S k /\ chain (cr1 G) Qs (cr2 G) /\ Forall (fun Q => cn Q = 2%nat) Qs /\
    core_err2 OR G Qs (S k) <= INR (S k) * (e * e) /\
    sqrt (core_err2 OR G Qs (S k)) <= sqrt (INR (S k)) * e /\
    sqrt (cdist2 OR G (merged OR Qs)) <= sqrt (INR (S k)) * e.
Proof.
  intros He Hn H1 H2 Hcap.
  destruct (core_tt_to_qtt_ok OR (fun c M => matrix_svd OR eigh argsort c M e rcap) G k Hn) as (Qs & E).
  exists Qs. split; [exact E|].
  apply (core_tt_to_qtt_bound (fun c M => matrix_svd OR eigh argsort c M e rcap) G k Qs e He Hn ltac:(lia)); [|exact E].
  apply (calls_contract (fun c M => matrix_svd OR eigh argsort c M e rcap) (e * e) rcap); auto.
  exact (svd_contract eigh argsort eigh_spec argsort_spec rcap e He).
Qed.
End MatrixSvd.
