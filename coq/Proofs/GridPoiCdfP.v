(* C18, part 4: stat.cdf_getter is the empirical distribution function of its sample:
   cdf z = #{i : x_i <= z} / m, a right-continuous step function. *)
From Coq Require Import List ZArith Bool Lia Reals Lra Permutation Sorted.
From TV Require Import Num.Ops Lin.Tab Model.GridInd Model.GridPoi Proofs.GridPoiP.
Import ListNotations.

Section Cdf.
Context {T : Type} (K : ops T).
Notation leb := (oleb K).
(* the comparison is a total preorder (true of <= on R, on Qc, and on floats without NaN) *)
Hypothesis leb_total : forall x y, leb x y = true \/ leb y x = true.
Hypothesis leb_trans : forall x y z, leb x y = true -> leb y z = true -> leb x z = true.

(* the number of sample points <= z *)
Definition count_le (xs : list T) (z : T) : nat := length (filter (fun x => leb x z) xs).
Notation ord := (fun x y => leb x y = true).

Lemma insert_perm x l : Permutation (insert_sorted K x l) (x :: l).
Proof.
  induction l as [|y l IH]; cbn [insert_sorted]; [auto|]. destruct (leb x y); [auto|].
  eapply perm_trans; [apply perm_skip, IH|apply perm_swap].
Qed.
Lemma sort_perm l : Permutation (sort K l) l.
Proof.
  induction l as [|x l IH]; cbn [sort fold_right]; [auto|].
  eapply perm_trans; [apply insert_perm|]. apply perm_skip, IH.
Qed.
Lemma insert_sorted_sorted x l : StronglySorted ord l -> StronglySorted ord (insert_sorted K x l).
Proof.
  induction l as [|y l IH]; intros Hs; cbn [insert_sorted].
  - repeat constructor.
  - apply StronglySorted_inv in Hs as [Hs Hy]. destruct (leb x y) eqn:E.
    + constructor; [constructor; assumption|]. constructor; [exact E|].
      rewrite Forall_forall in Hy |- *. intros w Hw. eapply leb_trans; [exact E|auto].
    + constructor; [auto|]. apply (Permutation_Forall (Permutation_sym (insert_perm x l))).
      constructor; [|exact Hy]. destruct (leb_total x y) as [F|F]; [congruence|exact F].
Qed.
Lemma sort_sorted l : StronglySorted ord (sort K l).
Proof. induction l; cbn [sort fold_right]; [constructor|]. now apply insert_sorted_sorted. Qed.

Lemma count_perm l l' z : Permutation l l' -> count_le l z = count_le l' z.
Proof.
  unfold count_le. induction 1; cbn [filter]; auto.
  - destruct (leb x z); cbn [length]; auto.
  - destruct (leb x z), (leb y z); reflexivity.
  - congruence.
Qed.
(* on an ascending list the search position is the count *)
Lemma searchsorted_count s z : StronglySorted ord s -> searchsorted_right K s z = count_le s z.
Proof.
  unfold count_le. induction s as [|y s IH]; intros Hs; cbn [searchsorted_right filter]; [reflexivity|].
  apply StronglySorted_inv in Hs as [Hs Hy]. destruct (leb y z) eqn:E; cbn [length].
  - now rewrite IH.
  - assert (F : filter (fun x => leb x z) s = []); [|now rewrite F].
    clear IH Hs. induction s as [|w s IH]; [reflexivity|]. cbn [filter]. inversion Hy as [|? ? Hw Hy']; subst.
    destruct (leb w z) eqn:Ew; [|auto]. rewrite (leb_trans y w z Hw Ew) in E. discriminate.
Qed.
Lemma count_le_bound xs z : count_le xs z <= length xs.
Proof. unfold count_le. induction xs as [|x xs IH]; cbn [filter length]; [lia|]. destruct (leb x z); cbn [length]; lia. Qed.

(* cdf_getter(xs)(z): the count, divided by the sample size (the value 0 is the literal zero of y = r_[0, ...]) *)
Lemma cdf_step_gen xs z : xs <> [] ->
  cdf K xs z = Ok (match count_le xs z with
                  | O => o0 K
                  | S k => odiv K (oofZ K (Z.of_nat (S k))) (oofZ K (Z.of_nat (length xs)))
                  end).
Proof.
  intros Hne. unfold cdf. destruct xs as [|x xs']; [congruence|]. set (xs := x :: xs') in *.
  rewrite searchsorted_count by apply sort_sorted. rewrite (count_perm _ _ z (sort_perm xs)).
  pose proof (count_le_bound xs z) as B. destruct (count_le xs z) as [|k]; [reflexivity|].
  cbn [nth]. rewrite nth_tab by lia. reflexivity.
Qed.
Lemma cdf_empty z : cdf K [] z = Err OtherError.
Proof. reflexivity. Qed.
End Cdf.

(* ---------------------------------------------------------------- at R *)
Local Open Scope R_scope.
Lemma Rleb_total x y : Rleb x y = true \/ Rleb y x = true.
Proof. destruct (Rle_dec x y); [left; now apply Rleb_true|right; apply Rleb_true; lra]. Qed.
Lemma Rleb_trans x y z : Rleb x y = true -> Rleb y z = true -> Rleb x z = true.
Proof.
  unfold Rleb. destruct (Rle_dec x y), (Rle_dec y z), (Rle_dec x z); try discriminate; auto. lra.
Qed.
Lemma Rleb_iff x y : Rleb x y = true <-> x <= y.
Proof. unfold Rleb. destruct (Rle_dec x y); split; auto; discriminate. Qed.

Definition countR (xs : list R) (z : R) : nat := count_le OR xs z.
Definition cdfR (xs : list R) (z : R) : result R := cdf OR xs z.

(* cdf z = #{x_i <= z} / m *)
Lemma cdf_step xs z : xs <> [] -> cdfR xs z = Ok (INR (countR xs z) / INR (length xs)).
Proof.
  intros Hne. unfold cdfR. rewrite (cdf_step_gen OR Rleb_total Rleb_trans xs z Hne). f_equal.
  fold (countR xs z). destruct (countR xs z) as [|k].
  - simpl. unfold Rdiv. now rewrite Rmult_0_l.
  - cbv beta iota delta [odiv oofZ OR]. now rewrite <- !INR_IZR_INZ.
Qed.

Lemma count_mono xs z z' : z <= z' -> (countR xs z <= countR xs z')%nat.
Proof.
  intros H. unfold countR, count_le. induction xs as [|x xs IH]; cbn [filter]; [lia|].
  change (oleb OR) with Rleb in *. destruct (Rleb x z) eqn:E.
  - apply Rleb_iff in E. rewrite (Rleb_true x z') by lra. cbn [length]. lia.
  - destruct (Rleb x z'); cbn [length]; lia.
Qed.
(* right-continuity of the count: it does not change on some interval [z, z + eps) *)
Lemma count_right_const xs z : exists eps, 0 < eps /\ forall z', z <= z' < z + eps -> countR xs z' = countR xs z.
Proof.
  unfold countR, count_le. induction xs as [|x xs (eps & He & IH)].
  - exists 1. split; [lra|reflexivity].
  - change (oleb OR) with Rleb in *. destruct (Rle_dec x z) as [L|L].
    + exists eps. split; [exact He|]. intros z' Hz. cbn [filter].
      rewrite (Rleb_true x z L), (Rleb_true x z') by lra. cbn [length]. now rewrite IH.
    + exists (Rmin eps (x - z)). split; [apply Rmin_glb_lt; lra|]. intros z' Hz. cbn [filter].
      pose proof (Rmin_l eps (x - z)). pose proof (Rmin_r eps (x - z)).
      rewrite (Rleb_false x z), (Rleb_false x z') by lra. apply IH. lra.
Qed.

(* the empirical distribution function is non-decreasing, right-continuous (even locally constant to the
   right), 0 below the sample, 1 from the largest sample point on, and jumps at every sample point *)
Lemma cdf_mono xs z z' v v' : z <= z' -> cdfR xs z = Ok v -> cdfR xs z' = Ok v' -> v <= v'.
Proof.
  intros H E E'. destruct xs as [|x xs']; [discriminate|]. set (xs := x :: xs') in *.
  rewrite cdf_step in E, E' by discriminate.
  assert (Ev : v = INR (countR xs z) / INR (length xs)) by congruence.
  assert (Ev' : v' = INR (countR xs z') / INR (length xs)) by congruence. rewrite Ev, Ev'. clear E E' Ev Ev'.
  assert (0 < INR (length xs)) by (apply lt_0_INR; simpl; lia).
  apply Rmult_le_compat_r; [apply Rlt_le, Rinv_0_lt_compat; lra|]. apply le_INR. now apply count_mono.
Qed.
Lemma cdf_right_continuous xs z : exists eps, 0 < eps /\ forall z', z <= z' < z + eps -> cdfR xs z' = cdfR xs z.
Proof.
  destruct xs as [|x xs'].
  - exists 1. split; [lra|reflexivity].
  - set (xs := x :: xs'). destruct (count_right_const xs z) as (eps & He & Hc). exists eps. split; [exact He|].
    intros z' Hz. rewrite !cdf_step by discriminate. now rewrite Hc.
Qed.
Lemma cdf_below xs z : xs <> [] -> Forall (fun x => z < x) xs -> cdfR xs z = Ok 0.
Proof.
  intros Hne H. rewrite cdf_step by exact Hne. f_equal.
  assert (E : countR xs z = O).
  { clear Hne. unfold countR, count_le. induction H as [|x l Hx _ IH]; [reflexivity|]. cbn [filter].
    change (oleb OR) with Rleb. now rewrite (Rleb_false x z Hx). }
  rewrite E. simpl. unfold Rdiv. now rewrite Rmult_0_l.
Qed.
Lemma cdf_above xs z : xs <> [] -> Forall (fun x => x <= z) xs -> cdfR xs z = Ok 1.
Proof.
  intros Hne H. rewrite cdf_step by exact Hne. f_equal.
  assert (E : countR xs z = length xs).
  { clear Hne. unfold countR, count_le. induction H as [|x l Hx _ IH]; [reflexivity|]. cbn [filter].
    change (oleb OR) with Rleb in *. rewrite (Rleb_true x z Hx). cbn [length]. now rewrite IH. }
  rewrite E. apply Rinv_r. apply not_0_INR. destruct xs; [congruence|discriminate].
Qed.
Lemma cdf_jump xs x z v vx : In x xs -> z < x -> cdfR xs z = Ok v -> cdfR xs x = Ok vx ->
  v + 1 / INR (length xs) <= vx.
Proof.
  intros Hin Hz E Ex. assert (Hne : xs <> []) by (destruct xs; [contradiction|discriminate]).
  rewrite cdf_step in E, Ex by exact Hne.
  assert (Ev : v = INR (countR xs z) / INR (length xs)) by congruence.
  assert (Ev' : vx = INR (countR xs x) / INR (length xs)) by congruence. rewrite Ev, Ev'. clear E Ex Ev Ev'.
  assert (0 < INR (length xs)) by (apply lt_0_INR; destruct xs; [congruence|simpl; lia]).
  assert (C : (S (countR xs z) <= countR xs x)%nat).
  { unfold countR, count_le. clear Hne H. induction xs as [|y xs IH]; [contradiction|].
    change (oleb OR) with Rleb in *. cbn [filter]. destruct Hin as [->|Hin].
    - rewrite (Rleb_false x z Hz), (Rleb_true x x) by lra. cbn [length].
      pose proof (count_mono xs z x (Rlt_le _ _ Hz)) as M. unfold countR, count_le in M.
      change (oleb OR) with Rleb in M. lia.
    - specialize (IH Hin). destruct (Rleb y z) eqn:Ey.
      + apply Rleb_iff in Ey. rewrite (Rleb_true y x) by lra. cbn [length]. lia.
      + destruct (Rleb y x); cbn [length]; lia. }
  apply le_INR in C. rewrite S_INR in C.
  unfold Rdiv. rewrite <- Rmult_plus_distr_r. apply Rmult_le_compat_r; [apply Rlt_le, Rinv_0_lt_compat; lra|lra].
Qed.
