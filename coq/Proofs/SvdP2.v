(* Lemmas for C03, part 2 (any commutative ring): the squared Frobenius error of the TT-SVD sweep EQUALS the sum of
   the tail energies discarded by its truncated factorisations, for every oracle whose answers on the calls of the
   run meet the SVD contract.  The proof is a structural induction on the sweep: with the left factor G of a step
   having orthonormal columns and the residual E = A - G Z' orthogonal to it (G^T E = 0),
   |A - G D'|^2 = |E + G (Z' - D')|^2 = |E|^2 + |Z' - D'|^2. *)
From Coq Require Import List Arith Lia PeanoNat ZArith Bool Ring.
From TV Require Import Num.Ops Lin.Tab Lin.BigSum Lin.Mat TT.Chain Model.ActOne Model.Transformation
  Model.Svd Proofs.ActOneP Proofs.SvdP.
Import ListNotations.

Section Alg.
Context {T : Type} (K : ops T).
Notation "0" := (o0 K). Notation "1" := (o1 K).
Infix "+" := (oadd K). Infix "*" := (omul K). Infix "-" := (osub K).
Notation sqr x := (omul K x x).
Notation bsum := (bsum K).
Hypothesis Rth : rng K.
Add Ring RrSvdP2 : Rth.

(* ---------------------------------------------------------------- sums *)
Lemma bsum_mul_bsum n m f g : bsum n f * bsum m g = bsum n (fun i => bsum m (fun j => f i * g j)).
Proof. rewrite <- bsum_mul_r by auto. apply bsum_ext; intros i Hi. now rewrite bsum_mul_l by auto. Qed.

Lemma bsum_rev n f : bsum n f = bsum n (fun i => f (n - 1 - i)%nat).
Proof.
  induction n as [|n IH]; [reflexivity|].
  rewrite (bsum_S_l K Rth n (fun i => f (S n - 1 - i)%nat)). cbn [BigSum.bsum]. rewrite IH.
  replace (S n - 1 - 0)%nat with n by lia.
  rewrite (bsum_ext K n (fun i => f (n - 1 - i)%nat) (fun i => f (S n - 1 - S i)%nat)).
  - ring.
  - intros i Hi. f_equal. lia.
Qed.

Lemma msum_bsum_swap ns m (f : nat -> list nat -> T) :
  bsum m (fun r => msum K ns (fun idx => f r idx)) = msum K ns (fun idx => bsum m (fun r => f r idx)).
Proof.
  revert f; induction ns as [|n ns IH]; intros f; cbn [msum]; [reflexivity|].
  rewrite bsum_swap by auto. apply bsum_ext; intros i Hi. apply IH.
Qed.

(* C-order position: offset form, range, and summation over all multi-indices = summation over positions *)
Definition prodn (ns : list nat) : nat := fold_right Nat.mul 1%nat ns.
Lemma cpos_acc ns : forall idx acc, inb ns idx ->
  cpos ns idx acc = (acc * prodn ns + cpos ns idx 0)%nat /\ cpos ns idx 0 < prodn ns.
Proof.
  induction ns as [|n ns IH]; intros idx acc H; inversion H; subst; cbn [cpos prodn fold_right].
  - lia.
  - fold (prodn ns). destruct (IH l (acc * n + x)%nat) as [E1 L1]; auto.
    destruct (IH l (0 * n + x)%nat) as [E2 _]; auto. rewrite E1, E2. split; [lia|]. nia.
Qed.
Lemma msum_cpos ns : forall (f : nat -> T) acc,
  msum K ns (fun idx => f (cpos ns idx acc)) = bsum (prodn ns) (fun p => f (acc * prodn ns + p)%nat).
Proof.
  induction ns as [|n ns IH]; intros f acc; cbn [msum cpos prodn fold_right].
  - cbn. rewrite Nat.mul_1_r, Nat.add_0_r. ring.
  - fold (prodn ns). rewrite bsum_prod by auto. apply bsum_ext; intros i Hi.
    rewrite IH. apply bsum_ext; intros p Hp. f_equal. lia.
Qed.

(* ---------------------------------------------------------------- orthonormal columns: isometry and Pythagoras *)
Definition delta (a b : nat) : T := if Nat.eqb a b then 1 else 0.
Definition ocolsf (g : nat -> nat -> T) (m q : nat) : Prop :=
  forall c c', c < q -> c' < q -> bsum m (fun i => g i c * g i c') = delta c c'.

Lemma iso_bilin g m q x y : ocolsf g m q ->
  bsum m (fun i => bsum q (fun c => g i c * x c) * bsum q (fun c => g i c * y c)) = bsum q (fun c => x c * y c).
Proof.
  intros H.
  transitivity (bsum m (fun i => bsum q (fun c => bsum q (fun c' => (x c * y c') * (g i c * g i c'))))).
  { apply bsum_ext; intros i Hi. rewrite bsum_mul_bsum. apply bsum_ext; intros c Hc.
    apply bsum_ext; intros c' Hc'. ring. }
  rewrite bsum_swap by auto. apply bsum_ext; intros c Hc.
  rewrite bsum_swap by auto.
  rewrite (bsum_single K Rth q c); auto.
  - rewrite bsum_mul_l by auto. rewrite H by auto. unfold delta. rewrite Nat.eqb_refl. ring.
  - intros c' Hc' Hne. rewrite bsum_mul_l by auto. rewrite H by auto. unfold delta.
    destruct (Nat.eqb_spec c c'); [congruence|ring].
Qed.

Lemma pyth_vec g m q (e f : nat -> T) : ocolsf g m q ->
  (forall c, c < q -> bsum m (fun i => g i c * e i) = 0) ->
  bsum m (fun i => sqr (e i + bsum q (fun c => g i c * f c))) =
  bsum m (fun i => sqr (e i)) + bsum q (fun c => sqr (f c)).
Proof.
  intros Ho Hz.
  assert (X : bsum m (fun i => e i * bsum q (fun c => g i c * f c)) = 0).
  { transitivity (bsum m (fun i => bsum q (fun c => f c * (g i c * e i)))).
    { apply bsum_ext; intros i Hi. rewrite <- bsum_mul_l by auto. apply bsum_ext; intros c Hc. ring. }
    rewrite bsum_swap by auto. apply bsum_0'; auto. intros c Hc. rewrite bsum_mul_l by auto. rewrite Hz by auto. ring. }
  transitivity (bsum m (fun i => sqr (e i)) + (1 + 1) * bsum m (fun i => e i * bsum q (fun c => g i c * f c))
                + bsum m (fun i => bsum q (fun c => g i c * f c) * bsum q (fun c => g i c * f c))).
  { rewrite <- bsum_mul_l by auto. rewrite <- !bsum_add by auto. apply bsum_ext; intros i Hi. ring. }
  rewrite X, iso_bilin by auto. ring.
Qed.

(* ---------------------------------------------------------------- one truncated factorisation (give_to = 'r') *)
(* contract of np.linalg.svd(A, full_matrices=False) -> (U, s, V): A = U diag(s) V, U^T U = I, V V^T = I *)
Definition svd_ok (A U : mat T) (s : list T) (V : mat T) : Prop :=
  1 <= length s /\ mr U = mr A /\ mc U = length s /\ mr V = length s /\ mc V = mc A /\
  (forall i j, i < mr A -> j < mc A ->
     mget K A i j = bsum (length s) (fun k => mget K U i k * (nth k s 0 * mget K V k j))) /\
  ocolsf (mget K U) (mr A) (length s) /\
  (forall k l, k < length s -> l < length s -> bsum (mc A) (fun j => mget K V k j * mget K V l j) = delta k l) /\
  length s <= mc A.

(* energy of the discarded singular values *)
Definition tail (s : list T) (q : nat) : T := bsum (length s - q) (fun k => sqr (nth (q + k) s 0)).

Lemma nth_firstn_lt' {A} (l : list A) n i d : i < n -> nth i (firstn n l) d = nth i l d.
Proof.
  revert n i; induction l as [|x l IH]; intros [|n] [|i] H; cbn; auto; try lia. apply IH. lia.
Qed.

Section Skel.
Variables (A U : mat T) (s : list T) (V : mat T) (q : nat).
Hypothesis Hok : svd_ok A U s V.
Hypothesis Hq : 1 <= q <= length s.
Local Notation G := (mtakec K U q).
Local Notation Zr := (mmul K (diagl K (firstn q s)) (mtaker K V q)).

Lemma skel_G_get i c : i < mr A -> c < q -> mget K G i c = mget K U i c.
Proof. destruct Hok as (_ & E & _). intros. unfold mtakec. rewrite mget_mk by lia. reflexivity. Qed.
Lemma skel_dims : mr G = mr A /\ mc G = q /\ mr Zr = q /\ mc Zr = mc A.
Proof.
  destruct Hok as (_ & E1 & _ & _ & E2 & _). cbn [mr mc mtakec mmul mkmat diagl mtaker].
  rewrite firstn_length. repeat split; auto; lia.
Qed.
Lemma skel_Zr_get c j : c < q -> j < mc A -> mget K Zr c j = nth c s 0 * mget K V c j.
Proof.
  destruct Hok as (_ & _ & _ & E3 & E4 & _). intros Hc Hj.
  assert (L : length (firstn q s) = q) by (rewrite firstn_length; lia).
  rewrite mget_mmul by (cbn [mr mc diagl mtaker mkmat]; lia).
  cbn [mc diagl mkmat]. rewrite L.
  rewrite (bsum_single K Rth q c); auto.
  - unfold diagl, mtaker. rewrite L, !mget_mk by lia. rewrite Nat.eqb_refl, nth_firstn_lt' by lia. reflexivity.
  - intros k Hk Hne. unfold diagl. rewrite L, mget_mk by lia. destruct (Nat.eqb_spec c k); [congruence|ring].
Qed.

Definition resid (i j : nat) : T := mget K A i j - bsum q (fun c => mget K G i c * mget K Zr c j).
Local Notation w j k := (nth (q + k) s 0 * mget K V (q + k) j).
Lemma resid_eq i j : i < mr A -> j < mc A ->
  resid i j = bsum (length s - q) (fun k => mget K U i (q + k) * w j k).
Proof.
  intros Hi Hj. unfold resid. destruct Hok as (_ & _ & _ & _ & _ & EA & _).
  rewrite EA by auto. replace (length s) with (q + (length s - q))%nat at 1 by lia.
  rewrite bsum_split by auto.
  rewrite (bsum_ext K q (fun c => mget K G i c * mget K Zr c j) (fun k => mget K U i k * (nth k s 0 * mget K V k j))).
  - ring.
  - intros c Hc. rewrite skel_G_get, skel_Zr_get by auto. reflexivity.
Qed.
Lemma skel_G_orth : ocolsf (mget K G) (mr A) q.
Proof.
  destruct Hok as (_ & _ & _ & _ & _ & _ & OU & _). intros c c' Hc Hc'.
  rewrite <- (OU c c') by lia. apply bsum_ext; intros i Hi. now rewrite !skel_G_get by auto.
Qed.
Lemma skel_G_resid0 c j : c < q -> j < mc A -> bsum (mr A) (fun i => mget K G i c * resid i j) = 0.
Proof.
  intros Hc Hj. destruct Hok as (_ & _ & _ & _ & _ & _ & OU & _).
  transitivity (bsum (mr A) (fun i => bsum (length s - q) (fun k => w j k * (mget K U i c * mget K U i (q + k))))).
  { apply bsum_ext; intros i Hi. rewrite resid_eq, skel_G_get by auto. rewrite <- bsum_mul_l by auto.
    apply bsum_ext; intros k Hk. ring. }
  rewrite bsum_swap by auto. apply bsum_0'; auto. intros k Hk. rewrite bsum_mul_l by auto.
  rewrite OU by lia. unfold delta. destruct (Nat.eqb_spec c (q + k)); [lia|ring].
Qed.
(* |A - G Zr|_F^2 = sum of the discarded s_k^2 *)
Lemma skel_resid_frob : bsum (mc A) (fun j => bsum (mr A) (fun i => sqr (resid i j))) = tail s q.
Proof.
  destruct Hok as (_ & _ & _ & _ & _ & _ & OU & OV & _).
  assert (OU' : ocolsf (fun i k => mget K U i (q + k)) (mr A) (length s - q)).
  { intros k l Hk Hl. rewrite OU by lia. unfold delta.
    destruct (Nat.eqb_spec k l), (Nat.eqb_spec (q + k) (q + l)); try reflexivity; lia. }
  transitivity (bsum (mc A) (fun j => bsum (length s - q) (fun k => sqr (nth (q + k) s 0) * (mget K V (q + k) j * mget K V (q + k) j)))).
  { apply bsum_ext; intros j Hj.
    rewrite (bsum_ext K (mr A) _ (fun i => bsum (length s - q) (fun k => mget K U i (q + k) * w j k) *
                                          bsum (length s - q) (fun k => mget K U i (q + k) * w j k))).
    2:{ intros i Hi. now rewrite resid_eq by auto. }
    rewrite (iso_bilin (fun i k => mget K U i (q + k))) by exact OU'.
    apply bsum_ext; intros k Hk. ring. }
  rewrite bsum_swap by auto. unfold tail. apply bsum_ext; intros k Hk.
  rewrite bsum_mul_l by auto. rewrite OV by lia. unfold delta. rewrite Nat.eqb_refl. ring.
Qed.
End Skel.
End Alg.
