(* C04: orthogonalisation preserves the tensor, yields orthonormal cores, cuts ranks. *)
From Coq Require Import List Arith Lia Ring PeanoNat ZArith Bool.
From TV Require Import Num.Ops Lin.Tab Lin.BigSum Lin.Mat TT.Chain Model.Transformation.
Import ListNotations.

Section TransformationP.
Context {T : Type} (K : ops T).
Notation "0" := (o0 K). Notation "1" := (o1 K).
Infix "+" := (oadd K). Infix "*" := (omul K). Infix "-" := (osub K).
Hypothesis Rth : rng K.
Add Ring RrTrans : Rth.
Local Notation cget := (cget K). Local Notation vstep := (vstep K). Local Notation run := (run K).
Local Notation get := (get K). Local Notation bsum := (bsum K). Local Notation mget := (mget K).

(* ---------- contracts of the LAPACK oracles ---------- *)
(* reduced QR of A (m x n): Q is m x min(m,n) with orthonormal columns, R is min(m,n) x n, Q R = A *)
Definition qr_ok (A Q R : mat T) : Prop :=
  mr Q = mr A /\ mc R = mc A /\ mr R = mc Q /\ mc Q = Nat.min (mr A) (mc A) /\
  (forall i j, i < mr A -> j < mc A -> bsum (mc Q) (fun c => mget Q i c * mget R c j) = mget A i j) /\
  (forall c c', c < mc Q -> c' < mc Q ->
     bsum (mr Q) (fun i => mget Q i c * mget Q i c') = if Nat.eqb c c' then 1 else 0).
(* economic RQ of A (m x n): R is m x min(m,n), Q is min(m,n) x n with orthonormal rows, R Q = A *)
Definition rq_ok (A R Q : mat T) : Prop :=
  mr R = mr A /\ mc Q = mc A /\ mc R = mr Q /\ mr Q = Nat.min (mr A) (mc A) /\
  (forall i j, i < mr A -> j < mc A -> bsum (mr Q) (fun c => mget R i c * mget Q c j) = mget A i j) /\
  (forall c c', c < mr Q -> c' < mr Q ->
     bsum (mc Q) (fun j => mget Q c j * mget Q c' j) = if Nat.eqb c c' then 1 else 0).

(* ---------- index arithmetic of the Fortran-order unfoldings ---------- *)
Lemma F_idx a i r : a < r -> (a + r * i) mod r = a /\ (a + r * i) / r = i.
Proof.
  intros H. split.
  - rewrite (Nat.mul_comm r i), Nat.mod_add by lia. apply Nat.mod_small; lia.
  - rewrite (Nat.mul_comm r i), Nat.div_add by lia. rewrite Nat.div_small by lia. lia.
Qed.
Lemma F_lt a i r n : a < r -> i < n -> a + r * i < r * n.
Proof. intros. nia. Qed.
Lemma mget_unfoldL G a i b : a < cr1 G -> i < cn G -> b < cr2 G ->
  mget (unfoldL K G) (a + cr1 G * i) b = cget G a i b.
Proof.
  intros Ha Hi Hb. unfold unfoldL. rewrite mget_mk by (auto; apply F_lt; auto).
  destruct (F_idx a i (cr1 G) Ha) as [-> ->]. reflexivity.
Qed.
Lemma mget_unfoldR G a i b : a < cr1 G -> i < cn G -> b < cr2 G ->
  mget (unfoldR K G) a (i + cn G * b) = cget G a i b.
Proof.
  intros Ha Hi Hb. unfold unfoldR. rewrite mget_mk by (auto; apply F_lt; auto).
  destruct (F_idx i b (cn G) Hi) as [-> ->]. reflexivity.
Qed.
Lemma cget_foldL r1 n Q a i c : a < r1 -> i < n -> c < mc Q ->
  cget (foldL K r1 n Q) a i c = mget Q (a + r1 * i) c.
Proof. intros. unfold foldL. now rewrite cget_mk. Qed.
Lemma cget_foldR n r2 Q a i b : a < mr Q -> i < n -> b < r2 ->
  cget (foldR K n r2 Q) a i b = mget Q a (i + n * b).
Proof. intros. unfold foldR. now rewrite cget_mk. Qed.

(* ---------- two adjacent cores: the product of their slices is what matters ---------- *)
Definition pair_eq (G1 G2 G1' G2' : core T) : Prop :=
  cr1 G1' = cr1 G1 /\ cn G1' = cn G1 /\ cr2 G1' = cr1 G2' /\ cn G2' = cn G2 /\ cr2 G2' = cr2 G2 /\
  forall a i j b, a < cr1 G1 -> i < cn G1 -> j < cn G2 -> b < cr2 G2 ->
    bsum (cr2 G1') (fun c => cget G1' a i c * cget G2' c j b) =
    bsum (cr2 G1) (fun c => cget G1 a i c * cget G2 c j b).
Lemma vstep2_pair_eq G1 G2 G1' G2' v i j : pair_eq G1 G2 G1' G2' -> cr2 G1 = cr1 G2 ->
  i < cn G1 -> j < cn G2 ->
  vstep (vstep v G1' i) G2' j = vstep (vstep v G1 i) G2 j.
Proof.
  intros (E1 & E2 & E3 & E4 & E5 & H) E0 Hi Hj. apply (list_eq_nth 0).
  - rewrite !vstep_length. exact E5.
  - rewrite vstep_length. intros b Hb. rewrite !nth_vstep by (auto; congruence).
    rewrite <- E3.
    rewrite (bsum_ext K (cr2 G1') _ (fun c => bsum (cr1 G1) (fun a => nth a v 0 * (cget G1' a i c * cget G2' c j b)))).
    2:{ intros c Hc. rewrite nth_vstep by auto. rewrite E1, <- bsum_mul_r by auto. apply bsum_ext; intros a Ha. ring. }
    rewrite bsum_swap by auto. rewrite <- E0.
    rewrite (bsum_ext K (cr2 G1) _ (fun c => bsum (cr1 G1) (fun a => nth a v 0 * (cget G1 a i c * cget G2 c j b)))).
    2:{ intros c Hc. rewrite nth_vstep by auto. rewrite <- bsum_mul_r by auto. apply bsum_ext; intros a Ha. ring. }
    rewrite (bsum_swap K Rth (cr2 G1)). apply bsum_ext; intros a Ha.
    rewrite !bsum_mul_l by auto. f_equal. apply H; auto. congruence.
Qed.
Lemma run_pair_eq Pre : forall v idx G1 G2 G1' G2' Suf r, pair_eq G1 G2 G1' G2' ->
  wf r (Pre ++ G1 :: G2 :: Suf) idx ->
  run v (Pre ++ G1' :: G2' :: Suf) idx = run v (Pre ++ G1 :: G2 :: Suf) idx.
Proof.
  induction Pre as [|G Pre IH]; intros v idx G1 G2 G1' G2' Suf r PE W.
  - destruct idx as [|i [|j idx]]; cbn [app wf] in W; try tauto.
    destruct W as (_ & Hi & E0 & Hj & _). cbn [app Chain.run].
    rewrite (vstep2_pair_eq G1 G2 G1' G2'); auto.
  - destruct idx as [|i idx]; cbn [app wf] in W; [tauto|]. destruct W as (_ & _ & W).
    cbn [app Chain.run]. eapply IH; eauto.
Qed.

(* ---------- left step: Q R = unfoldL G1 ---------- *)
Lemma pair_eq_left G1 G2 Q R : qr_ok (unfoldL K G1) Q R -> cr2 G1 = cr1 G2 ->
  pair_eq G1 G2 (foldL K (cr1 G1) (cn G1) Q) (foldR K (cn G2) (cr2 G2) (mmul K R (unfoldR K G2))).
Proof.
  intros (q1 & q2 & q3 & q4 & q5 & q6) E0. cbn [unfoldL mr mc mkmat] in q1, q2, q4, q5.
  repeat split; auto.
  intros a i j b Ha Hi Hj Hb. cbn [foldL cr2 mkcore].
  rewrite (bsum_ext K (mc Q) _ (fun c => bsum (cr1 G2) (fun x => mget Q (a + cr1 G1 * i) c * mget R c x * cget G2 x j b))).
  2:{ intros c Hc. rewrite cget_foldL by auto. rewrite cget_foldR by (cbn; auto; lia).
      rewrite mget_mmul by (auto; cbn; try lia; apply F_lt; auto).
      rewrite q2, E0. rewrite <- bsum_mul_l by auto. apply bsum_ext; intros x Hx.
      rewrite mget_unfoldR by auto. ring. }
  rewrite bsum_swap by auto. rewrite E0. apply bsum_ext; intros x Hx.
  rewrite bsum_mul_r by auto. f_equal.
  rewrite q5 by (try (apply F_lt; auto); lia). apply mget_unfoldL; auto. lia.
Qed.
(* the new core i has orthonormal columns in its left unfolding *)
Definition lorth (G : core T) : Prop := forall c c', c < cr2 G -> c' < cr2 G ->
  bsum (cn G) (fun i => bsum (cr1 G) (fun a => cget G a i c * cget G a i c')) = if Nat.eqb c c' then 1 else 0.
Definition rorth (G : core T) : Prop := forall a a', a < cr1 G -> a' < cr1 G ->
  bsum (cn G) (fun i => bsum (cr2 G) (fun b => cget G a i b * cget G a' i b)) = if Nat.eqb a a' then 1 else 0.
Lemma lorth_foldL r1 n Q : mr Q = (r1 * n)%nat ->
  (forall c c', c < mc Q -> c' < mc Q ->
     bsum (mr Q) (fun i => mget Q i c * mget Q i c') = if Nat.eqb c c' then 1 else 0) ->
  lorth (foldL K r1 n Q).
Proof.
  intros E H c c' Hc Hc'. cbn [foldL cr2 cr1 cn mkcore] in *.
  rewrite <- (H c c') by auto. rewrite E, bsum_prod_F by auto.
  apply bsum_ext; intros i Hi. apply bsum_ext; intros a Ha. rewrite !cget_foldL by auto. reflexivity.
Qed.
Lemma rorth_foldR n r2 Q : mc Q = (n * r2)%nat ->
  (forall c c', c < mr Q -> c' < mr Q ->
     bsum (mc Q) (fun j => mget Q c j * mget Q c' j) = if Nat.eqb c c' then 1 else 0) ->
  rorth (foldR K n r2 Q).
Proof.
  intros E H a a' Ha Ha'. cbn [foldR cr2 cr1 cn mkcore] in *.
  rewrite <- (H a a') by auto. rewrite E, bsum_prod_F by auto.
  rewrite bsum_swap by auto.
  apply bsum_ext; intros b Hb. apply bsum_ext; intros i Hi. rewrite !cget_foldR by auto. reflexivity.
Qed.

(* ---------- right step: R Q = unfoldR G2 ---------- *)
Lemma pair_eq_right G1 G2 R Q : rq_ok (unfoldR K G2) R Q -> cr2 G1 = cr1 G2 ->
  pair_eq G1 G2 (foldL K (cr1 G1) (cn G1) (mmul K (unfoldL K G1) R)) (foldR K (cn G2) (cr2 G2) Q).
Proof.
  intros (q1 & q2 & q3 & q4 & q5 & q6) E0. cbn [unfoldR mr mc mkmat] in q1, q2, q4, q5.
  repeat split; auto.
  intros a i j b Ha Hi Hj Hb. cbn [foldL cr2 mkcore mmul mc mkmat].
  rewrite (bsum_ext K (mc R) _ (fun c => bsum (cr2 G1) (fun x => cget G1 a i x * (mget R x c * mget Q c (j + cn G2 * b))))).
  2:{ intros c Hc. rewrite cget_foldL by (cbn; auto). rewrite cget_foldR by (auto; lia).
      rewrite mget_mmul by (auto; cbn; apply F_lt; auto). cbn [unfoldL mc mkmat].
      rewrite <- bsum_mul_r by auto. apply bsum_ext; intros x Hx.
      rewrite mget_unfoldL by auto. ring. }
  rewrite bsum_swap by auto. apply bsum_ext; intros x Hx.
  rewrite bsum_mul_l by auto. f_equal. rewrite q3.
  rewrite q5 by (try (apply F_lt; auto); lia). apply mget_unfoldR; auto. lia.
Qed.
End TransformationP.
