(* Lemmas about Model/Tensors.v, part 5 (over the reals): the stable random tensor stays within
   (1 + r*eps)^d - 1 of the all-ones tensor when every noise draw is bounded by eps. *)
From Coq Require Import List Arith Lia PeanoNat Reals Lra Bool.
From TV Require Import Num.Ops Lin.Tab Lin.BigSum TT.Chain Model.Tensors Proofs.TensorsP Proofs.TensorsRandP.
Import ListNotations.
Local Open Scope R_scope.

Definition OR19 : ops R :=
  mkops R 0 1 Rplus Rmult Rminus Ropp Rdiv sqrt Rabs
        (fun a b => if Rle_dec a b then true else false) (fun a b => if Rlt_dec a b then true else false)
        (fun a b => if Req_EM_T a b then true else false) IZR (powerRZ 2).
Lemma OR19_rng : rng OR19. Proof. exact RTheory. Qed.

Lemma bsumR_S n f : bsum OR19 (S n) f = bsum OR19 n f + f n. Proof. reflexivity. Qed.
Lemma bsumR_abs_le n (f : nat -> R) c : (forall i, (i < n)%nat -> Rabs (f i) <= c) -> Rabs (bsum OR19 n f) <= INR n * c.
Proof.
  induction n; intros H.
  - simpl. rewrite Rabs_R0. lra.
  - rewrite bsumR_S, S_INR. eapply Rle_trans; [apply Rabs_triang|].
    specialize (IHn (fun i Hi => H i (Nat.lt_lt_succ_r _ _ Hi))). specialize (H n (Nat.lt_succ_diag_r n)). lra.
Qed.
Definition kd (b : nat) : R := if Nat.eqb b O then 1 else 0.     (* first unit vector *)

(* one core: rectangular identity + perturbation bounded by eps *)
Lemma vstep_near (v : list R) (G : core R) i (D eps : R) (rmax : nat) :
  (1 <= cr1 G)%nat -> (cr1 G <= rmax)%nat -> 0 <= D -> 0 <= eps -> (i < cn G)%nat ->
  (forall a b, (a < cr1 G)%nat -> (b < cr2 G)%nat -> Rabs (cget OR19 G a i b - eye OR19 a b) <= eps) ->
  (forall a, (a < cr1 G)%nat -> Rabs (nth a v 0 - kd a) <= D) ->
  forall b, (b < cr2 G)%nat -> Rabs (nth b (vstep OR19 v G i) 0 - kd b) <= (1 + D) * (1 + INR rmax * eps) - 1.
Proof.
  intros H1 Hmax HD He Hi HG Hv b Hb.
  change (@nth R b (vstep OR19 v G i) 0) with (nth b (vstep OR19 v G i) (o0 OR19)).
  rewrite nth_vstep by auto.
  rewrite (bsum_ext OR19 _ _ (fun a => oadd OR19 (omul OR19 (nth a v 0) (eye OR19 a b))
                                          (omul OR19 (nth a v 0) (cget OR19 G a i b - eye OR19 a b)))).
  2:{ intros a Ha. cbn [oadd omul OR19 o0]. ring. }
  rewrite (bsum_add OR19 OR19_rng). cbn [oadd OR19].
  set (S1 := bsum OR19 (cr1 G) (fun a => omul OR19 (nth a v 0) (eye OR19 a b))).
  set (S2 := bsum OR19 (cr1 G) (fun a => omul OR19 (nth a v 0) (cget OR19 G a i b - eye OR19 a b))).
  assert (B1 : Rabs (S1 - kd b) <= D).
  { unfold S1. destruct (Nat.lt_ge_cases b (cr1 G)) as [Hlt|Hge].
    - rewrite (bsum_single OR19 OR19_rng (cr1 G) b); auto.
      + unfold eye. rewrite Nat.eqb_refl. cbn [omul OR19 o1]. rewrite Rmult_1_r. auto.
      + intros a Ha Hne. unfold eye. destruct (Nat.eqb_spec a b); [contradiction|]. cbn [omul OR19 o0]. ring.
    - rewrite (bsum_0' OR19 OR19_rng).
      + unfold kd. destruct (Nat.eqb_spec b O); [lia|]. cbn [o0 OR19]. rewrite Rminus_0_r, Rabs_R0. exact HD.
      + intros a Ha. unfold eye. destruct (Nat.eqb_spec a b); [lia|]. cbn [omul OR19 o0]. ring. }
  assert (B2 : Rabs S2 <= INR (cr1 G) * ((1 + D) * eps)).
  { unfold S2. apply bsumR_abs_le. intros a Ha. cbn [omul OR19]. rewrite Rabs_mult.
    assert (Rabs (nth a v 0) <= 1 + D).
    { replace (nth a v 0) with ((nth a v 0 - kd a) + kd a) by ring. eapply Rle_trans; [apply Rabs_triang|].
      specialize (Hv a Ha). assert (Rabs (kd a) <= 1) by (unfold kd; destruct (Nat.eqb a O); [rewrite Rabs_R1|rewrite Rabs_R0]; lra).
      lra. }
    apply Rmult_le_compat; auto using Rabs_pos. }
  replace (S1 + S2 - kd b) with ((S1 - kd b) + S2) by ring.
  eapply Rle_trans; [apply Rabs_triang|].
  assert (INR (cr1 G) <= INR rmax) by (apply le_INR; auto).
  assert (0 <= (1 + D) * eps) by (apply Rmult_le_pos; lra).
  assert (INR (cr1 G) * ((1 + D) * eps) <= INR rmax * ((1 + D) * eps)) by (apply Rmult_le_compat_r; auto).
  lra.
Qed.

Lemma run_near (Y : list (core R)) (eps : R) (rmax : nat) : 0 <= eps ->
  forall r idx rl (v : list R) D, wfo r Y idx rl -> (1 <= r)%nat -> 0 <= D ->
  Forall (fun G => (1 <= cr2 G)%nat /\ (cr1 G <= rmax)%nat) Y ->
  (forall k, (k < length Y)%nat -> forall a b, (a < cr1 (nth k Y dm))%nat -> (b < cr2 (nth k Y dm))%nat ->
     Rabs (cget OR19 (nth k Y dm) a (nth k idx O) b - eye OR19 a b) <= eps) ->
  (forall a, (a < r)%nat -> Rabs (nth a v 0 - kd a) <= D) ->
  forall b, (b < rl)%nat -> Rabs (nth b (run OR19 v Y idx) 0 - kd b) <= (1 + D) * (1 + INR rmax * eps) ^ length Y - 1.
Proof.
  intros He. induction Y as [|G Y IH]; intros r [|i idx] rl v D HW Hr HD HF HG Hv b Hb; simpl in HW; try tauto.
  - subst. cbn [run length pow]. rewrite Rmult_1_r. specialize (Hv b Hb). lra.
  - destruct HW as (A & B & C). inversion HF as [|? ? (H2 & Hm) HF']; subst. cbn [run length].
    assert (Hrho : 0 <= INR rmax * eps) by (apply Rmult_le_pos; [apply pos_INR|auto]).
    assert (HD' : 0 <= (1 + D) * (1 + INR rmax * eps) - 1).
    { assert (1 * 1 <= (1 + D) * (1 + INR rmax * eps)) by (apply Rmult_le_compat; lra). lra. }
    eapply Rle_trans.
    + apply (IH (cr2 G) idx rl (vstep OR19 v G i) ((1 + D) * (1 + INR rmax * eps) - 1)); auto.
      * intros k Hk. apply (HG (S k)). simpl. lia.
      * intros a Ha. apply (vstep_near v G i D eps rmax); auto.
        intros a' b' Ha' Hb'. apply (HG O); simpl; auto; lia.
    + cbn [pow]. right. ring.
Qed.

(* the stable random tensor: every entry is within (1 + rmax*eps)^d - 1 of one *)
Lemma rand_stab_near ns r noise normal (eps : R) (rmax : nat) idx :
  let d := length ns in let rs := rank_profile d r in
  0 <= eps ->
  (forall k a p b, Rabs (normal k 0 noise (nth k rs O, nth k ns O, nth (S k) rs O) a p b) <= eps) ->
  nth O rs O = 1%nat -> nth d rs O = 1%nat -> (forall k, (k <= d)%nat -> (1 <= nth k rs O <= rmax)%nat) -> inb ns idx ->
  Rabs (get OR19 (rand_stab OR19 ns r noise normal) idx - 1) <= (1 + INR rmax * eps) ^ d - 1.
Proof.
  intros d rs He Hn H0 Hd Hpos HI.
  destruct (rand_stab_cores OR19 ns r noise normal) as (HL & HC). fold d rs in HL, HC.
  set (Y := rand_stab OR19 ns r noise normal) in *.
  assert (HW : wfo 1%nat Y idx 1%nat).
  { rewrite <- H0 at 1. rewrite <- Hd. rewrite <- HL. apply (wfo_nth Y (fun k => nth k rs O)).
    - rewrite HL. apply (inb_length _ _ HI).
    - intros k Hk. rewrite HL in Hk. destruct (HC k Hk) as (A & B & C & _). repeat split; auto.
      rewrite B. apply inb_nth; auto. }
  pose proof (run_near Y eps rmax He 1%nat idx 1%nat [1] 0 HW (le_n 1) (Rle_refl 0)) as H.
  unfold get. cbn [o0 o1 OR19]. replace ((1 + INR rmax * eps) ^ d - 1) with ((1 + 0) * (1 + INR rmax * eps) ^ length Y - 1)
    by (rewrite HL; ring).
  change 1 with (kd O) at 2. apply H; auto.
  - apply Forall_forall. intros G HG. apply (In_nth _ _ dm) in HG as (k & Hk & <-). rewrite HL in Hk.
    destruct (HC k Hk) as (A & B & C & _). rewrite A, C. split; [apply Hpos; lia|apply Hpos; lia].
  - intros k Hk a b Ha Hb. rewrite HL in Hk. destruct (HC k Hk) as (A & B & C & D).
    rewrite A in Ha. rewrite C in Hb. rewrite D; auto.
    + cbn [oadd OR19 o0]. replace (_ + eye OR19 a b - eye OR19 a b) with (normal k 0 noise (nth k rs O, nth k ns O, nth (S k) rs O) a (nth k idx O) b) by ring.
      apply Hn.
    + apply inb_nth; auto.
  - intros a Ha. replace a with O by lia. cbn [nth]. unfold kd. cbn [Nat.eqb]. rewrite Rminus_diag_eq by reflexivity. rewrite Rabs_R0. lra.
Qed.
