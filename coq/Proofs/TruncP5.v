(* C02, part 5: matrix_svd(A, e, r) meets the contract of a factorisation step, for every eigh / argsort routine
   meeting their contracts.  C = B B^T (B = A if m <= n, A^T otherwise), C U = U diag(lam), U orthogonal;
   y_c = B^T u_c satisfies <y_c, y_c'> = lam_c delta_cc' and B = sum_c u_c y_c^T. *)
From Coq Require Import List Arith Lia Ring PeanoNat ZArith Bool Reals Lra Permutation.
From TV Require Import Num.Ops Lin.Tab Lin.BigSum Lin.Mat TT.Chain Model.Transformation Model.Svd
  Proofs.TransformationP Proofs.OrthP Proofs.StabRP Proofs.TruncP Proofs.FrobP Proofs.TruncP2 Proofs.TruncP4.
Import ListNotations.

(* ---------- function-level algebra, any commutative ring ---------- *)
Section EighAlg.
Context {T : Type} (K : ops T).
Notation "0" := (o0 K). Notation "1" := (o1 K).
Infix "+" := (oadd K). Infix "*" := (omul K). Infix "-" := (osub K).
Hypothesis Rth : rng K.
Add Ring RrEighAlg : Rth.
Local Notation bsum := (bsum K).

Variables (N L : nat) (B U : nat -> nat -> T) (lam : nat -> T).
Hypothesis hCU : forall i c, i < N -> c < N ->
  bsum N (fun j => bsum L (fun t => B i t * B j t) * U j c) = U i c * lam c.
Hypothesis hUtU : forall c c', c < N -> c' < N -> bsum N (fun i => U i c * U i c') = if Nat.eqb c c' then 1 else 0.
Hypothesis hUUt : forall i j, i < N -> j < N -> bsum N (fun c => U i c * U j c) = if Nat.eqb i j then 1 else 0.

Definition yv (c t : nat) : T := bsum N (fun i => B i t * U i c).

(* B y_c = C u_c = lam_c u_c *)
Lemma B_yv i c : i < N -> c < N -> bsum L (fun t => B i t * yv c t) = U i c * lam c.
Proof.
  intros Hi Hc. rewrite <- hCU by auto. unfold yv.
  rewrite (bsum_ext K L _ (fun t => bsum N (fun j => (B i t * B j t) * U j c))).
  2:{ intros t Ht. rewrite <- bsum_mul_l by auto. apply bsum_ext; intros j Hj. ring. }
  rewrite bsum_swap by auto. apply bsum_ext; intros j Hj. now rewrite bsum_mul_r by auto.
Qed.
Lemma yv_yv c c' : c < N -> c' < N -> bsum L (fun t => yv c t * yv c' t) = if Nat.eqb c c' then lam c' else 0.
Proof.
  intros Hc Hc'.
  rewrite (bsum_ext K L _ (fun t => bsum N (fun i => U i c * (B i t * yv c' t)))).
  2:{ intros t Ht. unfold yv at 1. rewrite <- bsum_mul_r by auto. apply bsum_ext; intros i Hi. ring. }
  rewrite bsum_swap by auto.
  rewrite (bsum_ext K N _ (fun i => (U i c * U i c') * lam c')).
  2:{ intros i Hi. rewrite bsum_mul_l by auto. rewrite B_yv by auto. ring. }
  rewrite bsum_mul_r by auto. rewrite hUtU by auto. destruct (Nat.eqb c c'); ring.
Qed.
(* B = sum_c u_c y_c^T *)
Lemma B_expand i t : i < N -> t < L -> B i t = bsum N (fun c => U i c * yv c t).
Proof.
  intros Hi Ht. unfold yv.
  rewrite (bsum_ext K N _ (fun c => bsum N (fun j => B j t * (U i c * U j c)))).
  2:{ intros c Hc. rewrite <- bsum_mul_l by auto. apply bsum_ext; intros j Hj. ring. }
  rewrite bsum_swap by auto.
  rewrite (bsum_ext K N _ (fun j => B j t * (if Nat.eqb i j then 1 else 0))).
  2:{ intros j Hj. rewrite bsum_mul_l by auto. now rewrite hUUt by auto. }
  rewrite (bsum_single K Rth N i); auto.
  - rewrite Nat.eqb_refl. ring.
  - intros j Hj Hne. destruct (Nat.eqb_spec i j); [congruence|ring].
Qed.
(* the discarded part: sum over (i, t) of (sum_{c >= q} U[i,c] y_c[t])^2 = sum_{c >= q} lam_c *)
Lemma tail_norm q r : (q + r)%nat = N ->
  bsum N (fun i => bsum L (fun t => sq K (bsum r (fun c => U i (q + c)%nat * yv (q + c)%nat t)))) =
  bsum r (fun c => lam (q + c)%nat).
Proof.
  intros E.
  transitivity (bsum r (fun c => bsum r (fun c' =>
     bsum N (fun i => U i (q + c)%nat * U i (q + c')%nat) * bsum L (fun t => yv (q + c)%nat t * yv (q + c')%nat t)))).
  { rewrite (bsum_ext K N _ (fun i => bsum r (fun c => bsum r (fun c' =>
        (U i (q + c)%nat * U i (q + c')%nat) * bsum L (fun t => yv (q + c)%nat t * yv (q + c')%nat t))))).
    2:{ intros i Hi. rewrite (bsum_ext K L _ (fun t => bsum r (fun c => bsum r (fun c' =>
           (U i (q + c)%nat * U i (q + c')%nat) * (yv (q + c)%nat t * yv (q + c')%nat t))))).
        2:{ intros t Ht. apply (bsum_sq_sum K Rth). }
        rewrite bsum_swap by auto. apply bsum_ext; intros c Hc. rewrite bsum_swap by auto.
        apply bsum_ext; intros c' Hc'. now rewrite bsum_mul_l by auto. }
    rewrite bsum_swap by auto. apply bsum_ext; intros c Hc. rewrite bsum_swap by auto.
    apply bsum_ext; intros c' Hc'. now rewrite bsum_mul_r by auto. }
  apply bsum_ext; intros c Hc. rewrite (bsum_single K Rth r c); auto.
  - rewrite hUtU, yv_yv by lia. rewrite Nat.eqb_refl. ring.
  - intros c' Hc' Hne. rewrite hUtU by lia. destruct (Nat.eqb_spec (q + c) (q + c')); [lia|ring].
Qed.

(* ---- the two branches of matrix_svd, with the weights abstracted ---- *)
Variable q : nat.
Hypothesis Hq : q <= N.
Lemma split_tail i t : i < N -> t < L ->
  B i t - bsum q (fun c => U i c * yv c t) = bsum (N - q) (fun c => U i (q + c)%nat * yv (q + c)%nat t).
Proof.
  intros Hi Ht. rewrite (B_expand i t Hi Ht). replace N with (q + (N - q))%nat at 1 by lia.
  rewrite bsum_split by auto. ring.
Qed.
(* wide (m <= n): U' = U_q diag(w), V' = diag(w_inv) U_q^T B *)
Variables wv wi : nat -> T.
Hypothesis hw1 : forall c t, c < q -> t < L -> (wv c * wi c) * yv c t = yv c t.
Hypothesis hw2 : forall c t, c < q -> t < L -> (wi c * wi c * lam c) * yv c t = yv c t.
Lemma wide_prod a t : a < N -> t < L ->
  bsum q (fun c => (U a c * wv c) * (wi c * yv c t)) = bsum q (fun c => U a c * yv c t).
Proof. intros Ha Ht. apply bsum_ext; intros c Hc. rewrite <- (hw1 c t Hc Ht) at 2. ring. Qed.
Lemma wide_uv a t : a < N -> t < L ->
  bsum q (fun c => (U a c * wv c) * (wi c * yv c t)) =
  bsum L (fun t' => B a t' * bsum q (fun c => (wi c * yv c t') * (wi c * yv c t))).
Proof.
  intros Ha Ht. rewrite wide_prod by auto.
  rewrite (bsum_ext K L _ (fun t' => bsum q (fun c => (wi c * wi c * yv c t) * (B a t' * yv c t')))).
  2:{ intros t' Ht'. rewrite <- bsum_mul_l by auto. apply bsum_ext; intros c Hc. ring. }
  rewrite bsum_swap by auto. apply bsum_ext; intros c Hc. rewrite bsum_mul_l by auto.
  rewrite B_yv by (auto; lia). rewrite <- (hw2 c t Hc Ht) at 1. ring.
Qed.
Lemma wide_res :
  bsum N (fun a => bsum L (fun t => sq K (B a t - bsum q (fun c => (U a c * wv c) * (wi c * yv c t))))) =
  bsum (N - q) (fun c => lam (q + c)%nat).
Proof.
  rewrite <- (tail_norm q (N - q)) by lia. apply bsum_ext; intros a Ha. apply bsum_ext; intros t Ht.
  f_equal. rewrite wide_prod by auto. now apply split_tail.
Qed.
Lemma wide_VV c c' : c < q -> c' < q ->
  bsum L (fun t => (wi c * yv c t) * (wi c' * yv c' t)) = (wi c * wi c') * (if Nat.eqb c c' then lam c' else 0).
Proof.
  intros Hc Hc'. rewrite <- yv_yv by lia. rewrite <- bsum_mul_l by auto. apply bsum_ext; intros t Ht. ring.
Qed.
(* tall (m > n), B = A^T: U' = A U_q (entries y_c[a]), V' = U_q^T *)
Lemma tall_uv a t : a < L -> t < N ->
  bsum q (fun c => yv c a * U t c) = bsum N (fun t' => B t' a * bsum q (fun c => U t' c * U t c)).
Proof.
  intros Ha Ht.
  rewrite (bsum_ext K N _ (fun t' => bsum q (fun c => (B t' a * U t' c) * U t c))).
  2:{ intros t' Ht'. rewrite <- bsum_mul_l by auto. apply bsum_ext; intros c Hc. ring. }
  rewrite bsum_swap by auto. apply bsum_ext; intros c Hc. rewrite bsum_mul_r by auto. reflexivity.
Qed.
Lemma tall_res :
  bsum L (fun a => bsum N (fun t => sq K (B t a - bsum q (fun c => yv c a * U t c)))) =
  bsum (N - q) (fun c => lam (q + c)%nat).
Proof.
  rewrite <- (tail_norm q (N - q)) by lia. rewrite bsum_swap by auto.
  apply bsum_ext; intros t Ht. apply bsum_ext; intros a Ha. f_equal.
  rewrite <- (split_tail t a Ht Ha). f_equal. apply bsum_ext; intros c Hc. ring.
Qed.
End EighAlg.

(* ---------- at the reals ---------- *)
Local Open Scope R_scope.

Lemma lsum_perm l l' : Permutation l l' -> lsum OR l = lsum OR l'.
Proof. induction 1; cbn [lsum]; try (cbn in *; lra); congruence. Qed.
(* re-indexing a sum along a permutation of 0..N-1 *)
Lemma bsum_perm N idx (f : nat -> R) : Permutation idx (seq 0 N) ->
  bsum OR N (fun c => f (nth c idx O)) = bsum OR N f.
Proof.
  intros P. assert (Len : length idx = N) by (rewrite (Permutation_length P); apply seq_length).
  rewrite !(bsum_lsum OR OR_rng).
  replace (map (fun c => f (nth c idx O)) (seq 0 N)) with (map f idx).
  - apply lsum_perm. now apply Permutation_map.
  - rewrite <- (tab_nth O idx) at 1. rewrite Len. unfold tab. now rewrite map_map.
Qed.
Lemma perm_lt N idx c : Permutation idx (seq 0 N) -> (c < N)%nat -> (nth c idx O < N)%nat.
Proof.
  intros P Hc. assert (Len : length idx = N) by (rewrite (Permutation_length P); apply seq_length).
  assert (I : In (nth c idx O) (seq 0 N)) by (eapply Permutation_in; [exact P|apply nth_In; lia]).
  apply in_seq in I. lia.
Qed.
Lemma perm_inj N idx c c' : Permutation idx (seq 0 N) -> (c < N)%nat -> (c' < N)%nat ->
  nth c idx O = nth c' idx O -> c = c'.
Proof.
  intros P Hc Hc' E. assert (Len : length idx = N) by (rewrite (Permutation_length P); apply seq_length).
  assert (ND : NoDup idx) by (eapply Permutation_NoDup; [apply Permutation_sym; exact P|apply seq_NoDup]).
  apply (proj1 (NoDup_nth idx O) ND); lia || exact E.
Qed.
Lemma bsum_sq0 n (f : nat -> R) : bsum OR n (fun t => f t * f t) = 0 -> forall t, (t < n)%nat -> f t = 0.
Proof.
  induction n as [|n IH]; intros H t Ht; [lia|]. cbn [bsum] in H. change (bsum OR n (fun t => f t * f t) + f n * f n = 0) in H.
  assert (0 <= bsum OR n (fun t => f t * f t)) by (apply bsumR_nonneg'; intros; nra).
  assert (f n * f n = 0) by nra. destruct (Nat.eq_dec t n) as [->|Hne]; [nra|]. apply IH; [nra|lia].
Qed.

(* the weights of matrix_svd: w = sqrt(max(lam, 0)),  w_inv = 1/w where w > 0, else 0 *)
Definition wof (x : R) : R := osqrt OR (if oltb OR x 0 then 0 else x).
Definition winvof (w : R) : R := if oltb OR 0 w then odiv OR 1 w else 0.
Lemma wof_sq x : 0 <= x -> wof x * wof x = x.
Proof.
  intros H. unfold wof. change (oltb OR x 0) with (Rltb x 0). replace (Rltb x 0) with false.
  - apply sqrt_sqrt. exact H.
  - symmetry. apply Rltb_false. exact H.
Qed.
Lemma wof_cases x : 0 <= x ->
  (0 < x /\ wof x * winvof (wof x) = 1 /\ winvof (wof x) * winvof (wof x) * x = 1) \/ (x = 0 /\ winvof (wof x) = 0).
Proof.
  intros H. pose proof (wof_sq x H) as S. destruct (Rle_lt_or_eq_dec 0 x H) as [P|Z].
  - left. assert (W : 0 < wof x).
    { unfold wof. change (oltb OR x 0) with (Rltb x 0). replace (Rltb x 0) with false by (symmetry; apply Rltb_false; lra).
      apply sqrt_lt_R0. exact P. }
    unfold winvof. change (oltb OR 0 (wof x)) with (Rltb 0 (wof x)).
    replace (Rltb 0 (wof x)) with true by (symmetry; apply Rltb_true; exact W).
    change (odiv OR 1 (wof x)) with (1 / wof x). split; [exact P|]. split.
    + field. lra.
    + rewrite <- S at 3. field. lra.
  - right. split; [lra|]. subst x. unfold winvof, wof. change (oltb OR 0 0) with (Rltb 0 0).
    replace (Rltb 0 0) with false by (symmetry; apply Rltb_false; lra). change (osqrt OR 0) with (sqrt 0). rewrite sqrt_0.
    change (oltb OR 0 0) with (Rltb 0 0). replace (Rltb 0 0) with false by (symmetry; apply Rltb_false; lra). reflexivity.
Qed.

(* contracts of the two routines *)
Definition msym (C : mat R) : Prop := mr C = mc C /\ forall i j, (i < mr C)%nat -> (j < mr C)%nat -> mget OR C i j = mget OR C j i.
Definition eigh_ok (C : mat R) (w0 : list R) (U0 : mat R) : Prop :=
  length w0 = mr C /\ mr U0 = mr C /\ mc U0 = mr C /\
  (forall i c, (i < mr C)%nat -> (c < mr C)%nat ->
     bsum OR (mr C) (fun j => mget OR C i j * mget OR U0 j c) = mget OR U0 i c * nth c w0 0) /\
  (forall c c', (c < mr C)%nat -> (c' < mr C)%nat ->
     bsum OR (mr C) (fun i => mget OR U0 i c * mget OR U0 i c') = if Nat.eqb c c' then 1 else 0) /\
  (forall i j, (i < mr C)%nat -> (j < mr C)%nat ->
     bsum OR (mr C) (fun c => mget OR U0 i c * mget OR U0 j c) = if Nat.eqb i j then 1 else 0).
Definition argsort_ok (l : list R) (a : list nat) : Prop := Permutation a (seq 0 (length l)).

Lemma nth_map_in {A B} (f : A -> B) l c d d' : (c < length l)%nat -> nth c (map f l) d = f (nth c l d').
Proof. intros H. rewrite (nth_indep _ d (f d')) by (now rewrite map_length). apply map_nth. Qed.

Section SvdR.
Variable eigh : nat -> mat R -> list R * mat R.
Variable argsort : nat -> list R -> list nat.
Hypothesis eigh_spec : forall k C, msym C -> eigh_ok C (fst (eigh k C)) (snd (eigh k C)).
Hypothesis argsort_spec : forall k l, argsort_ok l (argsort k l).
Variable rcap : Z.

Theorem svd_contract e' : 0 <= e' ->
  fact_contract (fun k M => matrix_svd OR eigh argsort k M e' rcap) (e' * e') rcap.
Proof.
  intros He k M H1 H2. cbv zeta. unfold matrix_svd.
  set (wide := (mr M <=? mc M)%nat).
  set (C := if wide then mmul OR M (mtrans OR M) else mmul OR (mtrans OR M) M).
  set (N := if wide then mr M else mc M). set (L := if wide then mc M else mr M).
  set (Bf := fun i t => if wide then mget OR M i t else mget OR M t i).
  assert (NC : mr C = N) by (unfold C, N; destruct wide; reflexivity).
  assert (CE : forall i j, (i < N)%nat -> (j < N)%nat -> mget OR C i j = bsum OR L (fun t => Bf i t * Bf j t)).
  { intros i j Hi Hj. unfold C, N, L, Bf in *. destruct wide.
    - rewrite (mget_mmul OR) by (cbn; auto). cbn [mc]. apply (bsum_ext OR); intros t Ht.
      now rewrite (mget_mtrans OR) by auto.
    - rewrite (mget_mmul OR) by (cbn; auto). cbn [mtrans mc mkmat]. apply (bsum_ext OR); intros t Ht.
      now rewrite (mget_mtrans OR) by auto. }
  assert (SC : msym C).
  { split; [unfold C; destruct wide; reflexivity|]. rewrite NC. intros i j Hi Hj. rewrite !CE by auto.
    apply (bsum_ext OR); intros t Ht. apply Rmult_comm. }
  pose proof (eigh_spec k C SC) as ES. destruct (eigh k C) as [w0 U0]. cbn [fst snd] in ES.
  destruct ES as (e1 & e2 & e3 & e4 & e5 & e6). rewrite NC in e1, e2, e3, e4, e5, e6.
  cbv zeta.
  set (w1 := map (fun x => osqrt OR (if oltb OR x (o0 OR) then o0 OR else x)) w0).
  pose proof (argsort_spec k w1) as AS. unfold argsort_ok in AS.
  assert (Lw1 : length w1 = N) by (unfold w1; now rewrite map_length).
  rewrite Lw1 in AS.
  set (idx := rev (argsort k w1)).
  assert (PI : Permutation idx (seq 0 N)).
  { unfold idx. eapply Permutation_trans; [apply Permutation_sym, Permutation_rev|exact AS]. }
  assert (Li : length idx = N) by (rewrite (Permutation_length PI); apply seq_length).
  set (lam := fun c => nth (nth c idx O) w0 0).
  set (Uf := fun i c => mget OR U0 i (nth c idx O)).
  (* the permuted eigen-decomposition at function level *)
  assert (hCU : forall i c, (i < N)%nat -> (c < N)%nat ->
            bsum OR N (fun j => bsum OR L (fun t => Bf i t * Bf j t) * Uf j c) = Uf i c * lam c).
  { intros i c Hi Hc. unfold Uf, lam. rewrite <- e4 by (auto; eapply perm_lt; eauto).
    apply (bsum_ext OR); intros j Hj. now rewrite CE by auto. }
  assert (hUtU : forall c c', (c < N)%nat -> (c' < N)%nat ->
            bsum OR N (fun i => Uf i c * Uf i c') = if Nat.eqb c c' then 1 else 0).
  { intros c c' Hc Hc'. unfold Uf. rewrite e5 by (eapply perm_lt; eauto).
    destruct (Nat.eqb_spec c c') as [->|Hne]; [now rewrite Nat.eqb_refl|].
    destruct (Nat.eqb_spec (nth c idx O) (nth c' idx O)) as [E|_]; [|reflexivity].
    exfalso. apply Hne. eapply perm_inj; eauto. }
  assert (hUUt : forall i j, (i < N)%nat -> (j < N)%nat ->
            bsum OR N (fun c => Uf i c * Uf j c) = if Nat.eqb i j then 1 else 0).
  { intros i j Hi Hj. unfold Uf. rewrite (bsum_perm N idx (fun c => mget OR U0 i c * mget OR U0 j c) PI). now apply e6. }
  set (y := yv OR N Bf Uf).
  assert (YY : forall c c', (c < N)%nat -> (c' < N)%nat ->
            bsum OR L (fun t => y c t * y c' t) = if Nat.eqb c c' then lam c' else 0).
  { intros c c' Hc Hc'. exact (yv_yv OR OR_rng N L Bf Uf lam hCU hUtU c c' Hc Hc'). }
  assert (LP : forall c, (c < N)%nat -> 0 <= lam c).
  { intros c Hc. specialize (YY c c Hc Hc). rewrite Nat.eqb_refl in YY. rewrite <- YY. apply bsumR_nonneg'. intros t _. nra. }
  set (wv := fun c => wof (lam c)). set (wi := fun c => winvof (wv c)).
  (* the weights as lists *)
  set (w := map (fun i => nth i w1 (o0 OR)) idx).
  assert (Lw : length w = N) by (unfold w; now rewrite map_length).
  assert (Wn : forall c, (c < N)%nat -> nth c w 0 = wv c).
  { intros c Hc. unfold w. rewrite (nth_map_in _ idx c 0 O) by lia. unfold w1.
    rewrite (nth_map_in _ w0 _ 0 0) by (rewrite e1; eapply perm_lt; eauto). reflexivity. }
  set (s := map (fun x => omul OR x x) w).
  set (q := rank_select OR s (omul OR e' e') rcap).
  assert (Ls : length s = N) by (unfold s; now rewrite map_length).
  destruct (rank_select_bounds s (e' * e') rcap) as (b1 & b2 & b3).
  change (rank_select OR s (e' * e') rcap) with q in b1, b2, b3. rewrite Ls in b3.
  assert (N1 : (1 <= N)%nat) by (unfold N; destruct wide; lia).
  assert (Hq : (q <= N)%nat) by lia.
  assert (TS : tailsum s q = bsum OR (N - q) (fun c => lam (q + c)%nat)).
  { change (tailsum (map (fun x : R => x * x) w) q = bsum OR (N - q) (fun c => lam (q + c)%nat)).
    rewrite (tailsum_bsum w q) by lia. rewrite Lw. apply (bsum_ext OR); intros c Hc.
    rewrite Wn by lia. unfold sq, wv. apply wof_sq. apply LP. lia. }
  assert (BUD : (Z.of_nat q < rcap)%Z -> bsum OR (N - q) (fun c => lam (q + c)%nat) <= e' * e').
  { intros Hcap. rewrite <- TS. apply rank_select_tail'.
    - apply Forall_forall. intros v Hv. apply in_map_iff in Hv as (x & <- & _). change (0 <= x * x). nra.
    - nra.
    - left. exact Hcap. }
  (* facts about the weights *)
  assert (hw : forall c, (c < N)%nat ->
     (wv c * wi c = 1 /\ wi c * wi c * lam c = 1) \/ (wi c = 0 /\ forall t, (t < L)%nat -> y c t = 0)).
  { intros c Hc. destruct (wof_cases (lam c) (LP c Hc)) as [(P & A1 & A2)|(Z0 & A3)].
    - left. split; assumption.
    - right. split; [exact A3|]. apply bsum_sq0. specialize (YY c c Hc Hc). rewrite Nat.eqb_refl in YY. rewrite YY. exact Z0. }
  assert (hw1 : forall c t, (c < q)%nat -> (t < L)%nat -> (wv c * wi c) * y c t = y c t).
  { intros c t Hc Ht. destruct (hw c) as [(A1 & _)|(_ & A2)]; [lia| |]; [rewrite A1; lra|rewrite (A2 t Ht); lra]. }
  assert (hw2 : forall c t, (c < q)%nat -> (t < L)%nat -> (wi c * wi c * lam c) * y c t = y c t).
  { intros c t Hc Ht. destruct (hw c) as [(_ & A1)|(_ & A2)]; [lia| |]; [rewrite A1; lra|rewrite (A2 t Ht); lra]. }
  set (wq := firstn q w). set (U := mcols OR U0 idx). set (Uq := mtakec OR U q).
  assert (Lq : length wq = q) by (unfold wq; apply firstn_length_le; lia).
  assert (Wq : forall c, (c < q)%nat -> nth c wq 0 = wv c).
  { intros c Hc. unfold wq. rewrite nth_firstn_lt by exact Hc. apply Wn. lia. }
  assert (UqE : forall i c, (i < N)%nat -> (c < q)%nat -> mget OR Uq i c = Uf i c).
  { intros i c Hi Hc. unfold Uq, mtakec, U, mcols. rewrite (mget_mk OR) by (cbn; lia). rewrite (mget_mk OR) by lia. reflexivity. }
  assert (UqD : mr Uq = N /\ mc Uq = q) by (unfold Uq, mtakec, U, mcols; cbn; auto).
  destruct UqD as (UqR & UqC).
  unfold wide in *. clear wide. destruct (mr M <=? mc M)%nat eqn:EW.
  - (* wide: m <= n, N = mr M, L = mc M *)
    cbn [fst snd]. cbv beta iota in N, L, Bf, C. subst N L.
    set (winv := map (fun x => if oltb OR (o0 OR) x then odiv OR (o1 OR) x else o0 OR) wq).
    assert (WI : forall c, (c < q)%nat -> nth c winv 0 = wi c).
    { intros c Hc. unfold winv. rewrite (nth_map_in _ wq c 0 0) by lia. rewrite Wq by exact Hc. reflexivity. }
    set (U' := mkmat (mr M) q (fun i j => omul OR (mget OR Uq i j) (nth j wq (o0 OR)))).
    set (V' := mmul OR (mkmat q (mr M) (fun i j => omul OR (nth i winv (o0 OR)) (mget OR (mtrans OR Uq) i j))) M).
    assert (UE : forall a c, (a < (mr M))%nat -> (c < q)%nat -> mget OR U' a c = Uf a c * wv c).
    { intros a c Ha Hc. unfold U'. rewrite (mget_mk OR) by auto. rewrite UqE, Wq by auto. reflexivity. }
    assert (VE : forall c t, (c < q)%nat -> (t < (mc M))%nat -> mget OR V' c t = wi c * y c t).
    { intros c t Hc Ht. unfold V'. rewrite (mget_mmul OR) by (cbn; auto). cbn [mc mkmat].
      unfold y, yv. rewrite <- (bsum_mul_l OR OR_rng). apply (bsum_ext OR); intros i Hi.
      rewrite (mget_mk OR) by auto. rewrite (mget_mtrans OR) by (rewrite ?UqR, ?UqC; auto).
      rewrite UqE by auto. rewrite WI by auto. unfold Bf. change (wi c * Uf i c * mget OR M i t = wi c * (mget OR M i t * Uf i c)). ring. }
    assert (MCU : mc U' = q) by reflexivity. rewrite MCU.
    split; [|split; [exact b1|split; [exact Hq|split; [apply Nat.leb_le in EW; lia|split; [exact b2|]]]]].
    + constructor.
      * reflexivity.
      * reflexivity.
      * reflexivity.
      * intros a t Ha Ht. rewrite MCU.
        rewrite (bsum_ext OR q _ (fun c => (Uf a c * wv c) * (wi c * y c t))).
        2:{ intros c Hc. rewrite UE, VE by auto. reflexivity. }
        rewrite (bsum_ext OR (mc M) (fun t' => omul OR (mget OR M a t') (bsum OR q (fun c => omul OR (mget OR V' c t') (mget OR V' c t))))
                   (fun t' => Bf a t' * bsum OR q (fun c => (wi c * y c t') * (wi c * y c t)))).
        2:{ intros t' Ht'. unfold Bf. apply (f_equal (Rmult _)). apply (bsum_ext OR); intros c Hc. rewrite !VE by auto. reflexivity. }
        exact (wide_uv OR OR_rng (mr M) (mc M) Bf Uf lam hCU q Hq wv wi hw1 hw2 a t Ha Ht).
      * split.
        -- intros c c' Hc Hc' Hne. cbn [V' mmul mr mc mkmat] in Hc, Hc' |- *.
           rewrite (bsum_ext OR (mc M) _ (fun t => (wi c * y c t) * (wi c' * y c' t))).
           2:{ intros t Ht. rewrite !VE by auto. reflexivity. }
           etransitivity; [exact (wide_VV OR OR_rng (mr M) (mc M) Bf Uf lam hCU hUtU q Hq wi c c' Hc Hc')|].
           destruct (Nat.eqb_spec c c'); [contradiction|]. change (wi c * wi c' * 0 = 0). ring.
        -- intros c Hc. cbn [V' mmul mr mc mkmat] in Hc |- *. destruct (hw c) as [(_ & A1)|(A2 & _)]; [lia| |].
           ++ left. rewrite (bsum_ext OR (mc M) _ (fun t => (wi c * y c t) * (wi c * y c t))).
              2:{ intros t Ht. rewrite !VE by auto. reflexivity. }
              etransitivity; [exact (wide_VV OR OR_rng (mr M) (mc M) Bf Uf lam hCU hUtU q Hq wi c c Hc Hc)|]. rewrite Nat.eqb_refl. exact A1.
           ++ right. intros t Ht. rewrite VE by auto. rewrite A2. change (0 * y c t = 0). ring.
    + intros Hcap. eapply Rle_trans; [|apply BUD; exact Hcap]. apply Req_le.
      etransitivity; [|exact (wide_res OR OR_rng (mr M) (mc M) Bf Uf lam hCU hUtU hUUt q Hq wv wi hw1)].
      unfold res2. rewrite MCU. apply (bsum_ext OR); intros a Ha. apply (bsum_ext OR); intros t Ht. f_equal. f_equal.
      apply (bsum_ext OR); intros c Hc. rewrite UE, VE by auto. reflexivity.
  - (* tall: m > n, N = mc M, L = mr M, B = A^T *)
    cbn [fst snd]. cbv beta iota in N, L, Bf, C. subst N L. apply Nat.leb_gt in EW.
    set (U' := mmul OR M Uq). set (V' := mtrans OR Uq).
    assert (UE : forall a c, (a < (mr M))%nat -> (c < q)%nat -> mget OR U' a c = y c a).
    { intros a c Ha Hc. unfold U'. rewrite (mget_mmul OR) by (rewrite ?UqC; auto). unfold y, yv.
      apply (bsum_ext OR); intros j Hj. rewrite UqE by auto. reflexivity. }
    assert (VE : forall c t, (c < q)%nat -> (t < (mc M))%nat -> mget OR V' c t = Uf t c).
    { intros c t Hc Ht. unfold V'. rewrite (mget_mtrans OR) by (rewrite ?UqR, ?UqC; auto). now apply UqE. }
    assert (MCU : mc U' = q) by (unfold U'; cbn [mmul mc mkmat]; exact UqC). rewrite MCU.
    split; [|split; [exact b1|split; [lia|split; [exact Hq|split; [exact b2|]]]]].
    + constructor.
      * reflexivity.
      * unfold V'. cbn [mtrans mc mkmat]. exact UqR.
      * unfold V'. cbn [mtrans mr mkmat]. rewrite MCU. exact UqC.
      * intros a t Ha Ht. rewrite MCU.
        rewrite (bsum_ext OR q _ (fun c => y c a * Uf t c)).
        2:{ intros c Hc. rewrite UE, VE by auto. reflexivity. }
        rewrite (bsum_ext OR (mc M) (fun t' => omul OR (mget OR M a t') (bsum OR q (fun c => omul OR (mget OR V' c t') (mget OR V' c t))))
                   (fun t' => Bf t' a * bsum OR q (fun c => Uf t' c * Uf t c))).
        2:{ intros t' Ht'. unfold Bf. apply (f_equal (Rmult _)). apply (bsum_ext OR); intros c Hc. rewrite !VE by auto. reflexivity. }
        exact (tall_uv OR OR_rng (mc M) (mr M) Bf Uf q a t Ha Ht).
      * apply (rows_orth_porth OR). intros c c' Hc Hc'. unfold V' in Hc, Hc' |- *. cbn [mtrans mr mc mkmat] in Hc, Hc' |- *.
        rewrite UqC in Hc, Hc'. rewrite UqR. etransitivity; [|exact (hUtU c c' ltac:(lia) ltac:(lia))].
        apply (bsum_ext OR); intros t Ht. fold V'. rewrite !VE by auto. reflexivity.
    + intros Hcap. eapply Rle_trans; [|apply BUD; exact Hcap]. apply Req_le.
      etransitivity; [|exact (tall_res OR OR_rng (mc M) (mr M) Bf Uf lam hCU hUtU hUUt q Hq)].
      unfold res2. rewrite MCU. apply (bsum_ext OR); intros a Ha. apply (bsum_ext OR); intros t Ht. f_equal. f_equal.
      apply (bsum_ext OR); intros c Hc. rewrite UE, VE by auto. reflexivity.
Qed.
End SvdR.

(* ---------- both modes of truncate, only the LAPACK contracts assumed ---------- *)
From TV Require Import Model.Wf Model.ActOne Model.ActMany Proofs.TransformationP2 Proofs.TruncP3.
Section TruncFull.
Variable svdo : nat -> mat R -> mat R * list R * mat R.
Variable eigh : nat -> mat R -> list R * mat R.
Variable argsort : nat -> list R -> list nat.
Variable qr rq : nat -> mat R -> mat R * mat R.
Variable ilog2 : nat -> R -> Z.
Variable pow2frac : Z -> nat -> R.
Hypothesis qr_spec : forall k A, qr_ok OR A (fst (qr k A)) (snd (qr k A)).
Hypothesis rq_spec : forall k A, rq_ok OR A (fst (rq k A)) (snd (rq k A)).
Hypothesis svd_spec : forall k A, svd_ok OR A (fst (fst (svdo k A))) (snd (fst (svdo k A))) (snd (svdo k A)).
Hypothesis eigh_spec : forall k C, msym C -> eigh_ok C (fst (eigh k C)) (snd (eigh k C)).
Hypothesis argsort_spec : forall k l, argsort_ok l (argsort k l).

Theorem truncate_error (rcap : Z) (is_eigh : bool) (Y : list (core R)) (e : R) :
  wfI (shape Y) Y -> (2 <= length Y)%nat -> 0 <= e ->
  exists W, truncate OR svdo eigh argsort qr rq ilog2 pow2frac Y e rcap true false is_eigh = Ok W /\
    length W = length Y /\ chain 1 W 1 /\ shape W = shape Y /\
    (forall k, (1 <= k < length Y)%nat ->
       (1 <= cr1 (nth k W dcore))%nat /\ (cr1 (nth k W dcore) <= cr1 (nth k Y dcore))%nat /\
       (Z.of_nat (cr1 (nth k W dcore)) <= Z.max 1 rcap)%Z) /\
    ((forall k, (1 <= k < length Y)%nat -> (Z.of_nat (cr1 (nth k W dcore)) < rcap)%Z) ->
     dist2 OR Y W <= e * e * tnorm2 OR Y).
Proof.
  apply (truncate_error_gen svdo eigh argsort qr rq ilog2 pow2frac qr_spec rq_spec rcap is_eigh).
  intros e' He'. destruct is_eigh.
  - exact (svd_contract eigh argsort eigh_spec argsort_spec rcap e' He').
  - exact (skeleton_contract svdo svd_spec rcap e' He').
Qed.
End TruncFull.

(* ---------- add_many: every rounding step is such a truncate call ---------- *)
Section AddMany.
Variable svdo : nat -> nat -> mat R -> mat R * list R * mat R.
Variable eigh : nat -> nat -> mat R -> list R * mat R.
Variable argsort : nat -> nat -> list R -> list nat.
Variable qr rq : nat -> nat -> mat R -> mat R * mat R.
Variable ilog2 : nat -> nat -> R -> Z.
Variable pow2frac : Z -> nat -> R.
Hypothesis qr_spec : forall c k A, qr_ok OR A (fst (qr c k A)) (snd (qr c k A)).
Hypothesis rq_spec : forall c k A, rq_ok OR A (fst (rq c k A)) (snd (rq c k A)).
Hypothesis eigh_spec : forall c k C, msym C -> eigh_ok C (fst (eigh c k C)) (snd (eigh c k C)).
Hypothesis argsort_spec : forall c k l, argsort_ok l (argsort c k l).

(* the c-th rounding step of add_many obeys the truncate bound *)
Theorem add_many_step (c : nat) (rcap : Z) (Y : list (core R)) (e : R) :
  wfI (shape Y) Y -> (2 <= length Y)%nat -> 0 <= e ->
  exists W, trunc_call OR svdo eigh argsort qr rq ilog2 pow2frac c Y e rcap = Ok W /\
    length W = length Y /\ chain 1 W 1 /\ shape W = shape Y /\
    (forall k, (1 <= k < length Y)%nat ->
       (1 <= cr1 (nth k W dcore))%nat /\ (cr1 (nth k W dcore) <= cr1 (nth k Y dcore))%nat /\
       (Z.of_nat (cr1 (nth k W dcore)) <= Z.max 1 rcap)%Z) /\
    ((forall k, (1 <= k < length Y)%nat -> (Z.of_nat (cr1 (nth k W dcore)) < rcap)%Z) ->
     dist2 OR Y W <= e * e * tnorm2 OR Y).
Proof.
  unfold trunc_call.
  apply (truncate_error_gen (svdo c) (eigh c) (argsort c) (qr c) (rq c) (ilog2 c) pow2frac (qr_spec c) (rq_spec c) rcap true).
  intros e' He'. exact (svd_contract (eigh c) (argsort c) (eigh_spec c) (argsort_spec c) rcap e' He').
Qed.
(* the result of add_many is the final rounding step applied to the running sum the loop returns; inside the loop the
   running sum is only ever changed by [add] and by rounding steps with the default cap *)
Theorem add_many_final Y0 rest e rcap freq W :
  add_many OR svdo eigh argsort qr rq ilog2 pow2frac (Y0 :: rest) e rcap freq = Ok W ->
  exists Y' nc, add_many_loop OR svdo eigh argsort qr rq ilog2 pow2frac e freq O O (copy Y0) rest = Ok (Y', nc) /\
    trunc_call OR svdo eigh argsort qr rq ilog2 pow2frac nc Y' e rcap = Ok W.
Proof.
  unfold add_many. destruct (add_many_loop OR svdo eigh argsort qr rq ilog2 pow2frac e freq 0 0 (copy Y0) rest) as [[Y' nc]|er];
    [|discriminate]. intros H. exists Y', nc. split; [reflexivity|exact H].
Qed.
Lemma add_many_loop_step e freq i nc Y Yc rest' :
  add_many_loop OR svdo eigh argsort qr rq ilog2 pow2frac e freq i nc Y (Yc :: rest') =
  if Nat.eqb freq 0 then Err OtherError else
  if Nat.eqb (Nat.modulo (S i) freq) 0 then
    match trunc_call OR svdo eigh argsort qr rq ilog2 pow2frac nc (add OR Y Yc) e default_cap with
    | Err er => Err er
    | Ok Y2 => add_many_loop OR svdo eigh argsort qr rq ilog2 pow2frac e freq (S i) (S nc) Y2 rest'
    end
  else add_many_loop OR svdo eigh argsort qr rq ilog2 pow2frac e freq (S i) nc (add OR Y Yc) rest'.
Proof. reflexivity. Qed.
End AddMany.

(* ---------- non-vacuity of the eigh / argsort contracts ---------- *)
Definition exC : mat R := mk_mat 2 2 [[9; 0]; [0; 1]].
Example eigh_ok_ex : msym exC /\ eigh_ok exC [9; 1] exI /\ argsort_ok [3; 1] [1; 0]%nat.
Proof.
  split; [|split].
  - split; [reflexivity|]. intros [|[|i]] [|[|j]] Hi Hj; cbn in *; try lia; reflexivity.
  - unfold eigh_ok, exC, exI. cbn [length mr mc]. repeat split.
    + intros [|[|i]] [|[|c]] Hi Hc; try lia; cbn; lra.
    + intros [|[|c]] [|[|c']] Hc Hc'; try lia; cbn; lra.
    + intros [|[|i]] [|[|j]] Hi Hj; try lia; cbn; lra.
  - unfold argsort_ok. cbn. apply perm_swap.
Qed.
