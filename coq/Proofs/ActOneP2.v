(* C01 continued: sums, means, scalar product, dense export, constants, interfaces, gradients. *)
From Coq Require Import List Arith Lia Ring PeanoNat ZArith.
From TV Require Import Num.Ops Lin.Tab Lin.BigSum TT.Chain Model.ActOne Proofs.ActOneP.
Import ListNotations.

Section ActOneP2.
Context {T : Type} (K : ops T).
Notation "0" := (o0 K). Notation "1" := (o1 K).
Infix "+" := (oadd K). Infix "*" := (omul K). Infix "-" := (osub K).
Hypothesis Rth : rng K.
Add Ring RrActOne2 : Rth.

Local Notation cget := (cget K). Local Notation vstep := (vstep K). Local Notation run := (run K).
Local Notation get := (get K). Local Notation bsum := (bsum K). Local Notation msum := (msum K).

Lemma msum_bsum_swap ns n (f : nat -> list nat -> T) :
  msum ns (fun idx => bsum n (fun i => f i idx)) = bsum n (fun i => msum ns (f i)).
Proof.
  revert f; induction ns as [|m ns IH]; intros f; cbn [Chain.msum]; [reflexivity|].
  rewrite (bsum_ext K m _ (fun j => bsum n (fun i => msum ns (fun idx => f i (j :: idx))))).
  2:{ intros j Hj. apply IH. }
  apply bsum_swap; auto.
Qed.

(* product of the weights along a multi-index *)
Fixpoint pw (P : list (list T)) (idx : list nat) : T :=
  match P, idx with p :: P', i :: idx' => nth i p 0 * pw P' idx' | _, _ => 1 end.

Lemma nth_vstepw v G p b : b < cr2 G ->
  nth b (vstepw K v G p) 0 = bsum (cn G) (fun i => nth i p 0 * nth b (vstep v G i) 0).
Proof.
  intros Hb. unfold vstepw. rewrite nth_tab by auto.
  rewrite (bsum_ext K (cr1 G) _ (fun a => bsum (cn G) (fun i => nth a v 0 * cget G a i b * nth i p 0))).
  2:{ intros a Ha. rewrite <- bsum_mul_l by auto. apply bsum_ext; intros i Hi. ring. }
  rewrite bsum_swap by auto. apply bsum_ext; intros i Hi. rewrite nth_vstep by auto.
  rewrite <- bsum_mul_l by auto. apply bsum_ext; intros a Ha. ring.
Qed.
Lemma vstepw_length v G p : length (vstepw K v G p) = cr2 G. Proof. apply tab_length. Qed.

Lemma runw_msum Y : forall P v r rl, chain r Y rl -> length v = r -> length P = length Y ->
  forall b, b < rl ->
  nth b (runw K v Y P) 0 = msum (shape Y) (fun idx => pw P idx * nth b (run v Y idx) 0).
Proof.
  induction Y as [|G Y IH]; intros P v r rl C Lv LP b Hb.
  - destruct P; [|discriminate]. cbn. ring.
  - destruct P as [|p P]; [discriminate|]. cbn [chain] in C. destruct C as [C1 C2].
    cbn [runw shape map Chain.msum].
    rewrite (IH P _ (cr2 G) rl C2 (vstepw_length _ _ _)) by (auto; simpl in LP; lia).
    rewrite <- msum_bsum_swap. apply msum_ext; auto. intros idx Hidx.
    assert (W : wfo (cr2 G) Y idx rl) by (apply wfo_chain_inb; split; auto).
    rewrite (run_decomp K Rth Y _ idx (cr2 G) rl W (vstepw_length _ _ _) b Hb).
    rewrite (bsum_ext K (cr2 G) _ (fun c => bsum (cn G) (fun i => nth i p 0 * (nth c (vstep v G i) 0 * dget K Y idx (cr2 G) c b)))).
    2:{ intros c Hc. rewrite nth_vstepw by auto. rewrite <- bsum_mul_r by auto. apply bsum_ext; intros i Hi. ring. }
    rewrite bsum_swap by auto. rewrite <- bsum_mul_l by auto. apply bsum_ext; intros i Hi.
    cbn [pw Chain.run].
    rewrite (run_decomp K Rth Y _ idx (cr2 G) rl W (vstep_length _ _ _ _) b Hb).
    rewrite <- !bsum_mul_l by auto. apply bsum_ext; intros c Hc. ring.
Qed.

(* weighted mean = sum over all multi-indices of weight * entry *)
Theorem mean_w_spec Y P : chain 1 Y 1 -> length P = length Y ->
  mean_w K Y P = msum (shape Y) (fun idx => pw P idx * get Y idx).
Proof. intros C L. unfold mean_w, Chain.get. apply (runw_msum Y P [1] 1 1); auto. Qed.

Lemma pw_ones Y : forall idx, inb (shape Y) idx -> pw (map (fun G : core T => ones K (cn G)) Y) idx = 1.
Proof.
  induction Y as [|G Y IH]; intros idx H; inversion H; subst; cbn [map pw]; [reflexivity|].
  unfold ones at 1. rewrite nth_tab by auto. rewrite IH by auto. ring.
Qed.
Theorem sum_spec Y : chain 1 Y 1 -> sum K Y = msum (shape Y) (get Y).
Proof.
  intros C. unfold sum. rewrite mean_w_spec by (auto; now rewrite map_length).
  apply msum_ext; auto. intros idx H. rewrite pw_ones by auto. ring.
Qed.

(* ---- scalar product ---- *)
Lemma vstep2_vstepw v G1 G2 : cn G2 = cn G1 ->
  vstep2 K v G1 G2 = vstepw K v (core_kron K G1 G2) (ones K (cn G1)).
Proof.
  intros Hn. unfold vstep2, vstepw. apply tab_ext; intros b Hb. apply bsum_ext; intros a Ha. f_equal.
  apply bsum_ext; intros i Hi. unfold ones. rewrite nth_tab by auto. ring.
Qed.
Lemma run2_runw Y1 : forall Y2 v, same_shape Y1 Y2 ->
  run2 K v Y1 Y2 = runw K v (mul K Y1 Y2) (map (fun G => ones K (cn G)) (mul K Y1 Y2)).
Proof.
  induction Y1 as [|G1 Y1 IH]; intros Y2 v H; inversion H; subst; [reflexivity|].
  cbn [run2 mul map runw]. rewrite vstep2_vstepw by auto. apply IH. assumption.
Qed.
Lemma chain_mul Y1 : forall Y2 r1 r2, same_shape Y1 Y2 -> chain r1 Y1 1 -> chain r2 Y2 1 ->
  chain (r1 * r2) (mul K Y1 Y2) 1.
Proof.
  induction Y1 as [|G1 Y1 IH]; intros Y2 r1 r2 H C1 C2; inversion H; subst; cbn in *.
  - subst. reflexivity.
  - destruct C1 as [<- C1], C2 as [<- C2]. split; [reflexivity|]. apply IH; auto.
Qed.
Lemma shape_mul Y1 : forall Y2, same_shape Y1 Y2 -> shape (mul K Y1 Y2) = shape Y1.
Proof.
  induction Y1 as [|G1 Y1 IH]; intros Y2 H; inversion H; subst; [reflexivity|].
  unfold shape in *. cbn [mul map]. f_equal. apply IH. assumption.
Qed.
Theorem mul_scalar_spec Y1 Y2 : chain 1 Y1 1 -> chain 1 Y2 1 -> same_shape Y1 Y2 ->
  mul_scalar K Y1 Y2 = msum (shape Y1) (fun idx => get Y1 idx * get Y2 idx).
Proof.
  intros C1 C2 H. unfold mul_scalar. rewrite run2_runw by auto.
  change (nth O (runw K [1] (mul K Y1 Y2) (map (fun G => ones K (cn G)) (mul K Y1 Y2))) 0) with (sum K (mul K Y1 Y2)).
  rewrite sum_spec by (apply (chain_mul Y1 Y2 1 1); auto).
  rewrite shape_mul by auto. apply msum_ext; auto. intros idx Hidx.
  apply get_mul; auto.
  - apply wf_wfo, wfo_chain_inb. auto.
  - apply wf_wfo, wfo_chain_inb. split; auto.
    assert (E : shape Y2 = shape Y1).
    { clear - H. induction H; unfold shape in *; simpl; congruence. }
    now rewrite E.
Qed.

(* ---- dense export ---- *)
Lemma nth_flat_map_const {A B} (f : A -> list B) n (l : list A) a i dA dB :
  (forall x, length (f x) = n) -> a < length l -> i < n ->
  nth (a * n + i) (flat_map f l) dB = nth i (f (nth a l dA)) dB.
Proof.
  intros Hf. revert a; induction l as [|x l IH]; intros a Ha Hi; [simpl in Ha; lia|].
  cbn [flat_map]. destruct a as [|a].
  - cbn [Nat.mul Nat.add nth]. rewrite app_nth1 by (rewrite Hf; auto). reflexivity.
  - rewrite app_nth2 by (rewrite Hf; simpl; lia). rewrite Hf.
    replace (S a * n + i - n)%nat with (a * n + i)%nat by (simpl; lia).
    cbn [nth]. apply IH; auto. simpl in Ha; lia.
Qed.
Lemma full_step_length Z G : length (full_step K Z G) = (length Z * cn G)%nat.
Proof.
  unfold full_step. induction Z as [|v Z IH]; [reflexivity|]. cbn [flat_map].
  rewrite app_length, tab_length, IH. simpl. lia.
Qed.
Lemma full_rows_nth Y : forall Z idx acc, acc < length Z -> inb (shape Y) idx ->
  nth (cpos (shape Y) idx acc) (fold_left (full_step K) Y Z) [] = run (nth acc Z []) Y idx /\
  cpos (shape Y) idx acc < length (fold_left (full_step K) Y Z).
Proof.
  induction Y as [|G Y IH]; intros Z idx acc Hacc H; inversion H; subst.
  - cbn. auto.
  - cbn [shape map cpos fold_left Chain.run]. fold (shape Y).
    assert (Hlt : acc * cn G + x < length (full_step K Z G)) by (rewrite full_step_length; nia).
    destruct (IH (full_step K Z G) l (acc * cn G + x)%nat Hlt) as [E L]; auto.
    split; [|exact L]. rewrite E. f_equal. unfold full_step.
    rewrite (nth_flat_map_const _ (cn G) Z acc x [] []) by (auto; intros; apply tab_length).
    now rewrite nth_tab.
Qed.
(* the entry of the exported array at the C-order position of idx is the chained product *)
Theorem full_get Y idx : inb (shape Y) idx -> nth (cpos (shape Y) idx 0) (full K Y) 0 = get Y idx.
Proof.
  intros H. unfold full, full_rows, Chain.get.
  destruct (full_rows_nth Y [[1]] idx O) as [E L]; [simpl; lia|auto|].
  rewrite (nth_indep _ 0 ((fun v : list T => nth O v 0) [])) by (rewrite map_length; exact L).
  rewrite (map_nth (fun v : list T => nth O v 0)). rewrite E. reflexivity.
Qed.
Lemma full_length Y : length (full K Y) = fold_left Nat.mul (shape Y) 1%nat.
Proof.
  unfold full, full_rows. rewrite map_length.
  assert (G : forall Z, length (fold_left (full_step K) Y Z) = fold_left Nat.mul (shape Y) (length Z)).
  { induction Y as [|G Y IH]; intros Z; [reflexivity|]. cbn [fold_left shape map]. rewrite IH, full_step_length. reflexivity. }
  apply G.
Qed.

(* ---- constants ---- *)
Fixpoint pown (x : T) (n : nat) : T := match n with O => 1 | S k => x * pown x k end.
Lemma vstep_const v n c i : i < n -> length v = 1%nat -> vstep v (const_core n c) i = [nth O v 0 * c].
Proof.
  intros Hi Lv. unfold Chain.vstep, const_core. cbn [cr1 cr2 mkcore tab map seq]. f_equal.
  cbn [BigSum.bsum]. rewrite cget_mk by lia. ring.
Qed.
Lemma run_const ns : forall idx v rho s, ns <> [] -> inb ns idx -> length v = 1%nat ->
  run v (const_cores K ns rho s) idx = [nth O v 0 * pown rho (length ns) * s].
Proof.
  induction ns as [|n ns IH]; intros idx v rho s Hne H Lv; [contradiction|].
  inversion H as [|i ? idx' ? Hi H']; subst. destruct ns as [|n' ns].
  - inversion H'; subst. cbn [const_cores Chain.run]. rewrite vstep_const by auto. cbn. f_equal. ring.
  - change (const_cores K (n :: n' :: ns) rho s) with (const_core n rho :: const_cores K (n' :: ns) rho s).
    cbn [Chain.run]. rewrite vstep_const by auto. rewrite IH by (auto; discriminate).
    cbn [nth length pown]. f_equal. ring.
Qed.
Theorem get_const ns idx rho s : ns <> [] -> inb ns idx ->
  get (const_cores K ns rho s) idx = pown rho (length ns) * s.
Proof. intros Hne H. unfold Chain.get. rewrite run_const by auto. cbn [nth]. ring. Qed.
Lemma chain_const ns rho s : chain 1 (const_cores K ns rho s) 1 /\ shape (const_cores K ns rho s) = ns.
Proof.
  induction ns as [|n ns IH]; [split; reflexivity|]. destruct ns as [|n' ns]; [split; repeat split|].
  change (const_cores K (n :: n' :: ns) rho s) with (const_core n rho :: const_cores K (n' :: ns) rho s).
  destruct IH as [C S]. split; [split; [reflexivity|exact C]|]. unfold shape in *. cbn [map]. now rewrite S.
Qed.

(* ---- interfaces: right partial products, and value from either direction ---- *)
Definition dot (v w : list T) (r : nat) : T := bsum r (fun a => nth a v 0 * nth a w 0).
Lemma dot_mstep v G i w : dot v (mstep K G i w) (cr1 G) = dot (vstep v G i) w (cr2 G).
Proof.
  unfold dot.
  rewrite (bsum_ext K (cr1 G) _ (fun a => bsum (cr2 G) (fun b => nth a v 0 * cget G a i b * nth b w 0))).
  2:{ intros a Ha. unfold mstep. rewrite nth_tab by auto. rewrite <- bsum_mul_l by auto.
      apply bsum_ext; intros b Hb. ring. }
  rewrite bsum_swap by auto. apply bsum_ext; intros b Hb. rewrite nth_vstep by auto.
  rewrite <- bsum_mul_r by auto. reflexivity.
Qed.
(* head of phi_r is the right partial product: v . R = (v chained through Y)[0] *)
Lemma dot_phi_r Y : forall idx v r, wf r Y idx ->
  dot v (hd [] (phi_r K Y idx)) r = nth O (run v Y idx) 0.
Proof.
  induction Y as [|G Y IH]; intros [|i idx] v r W; cbn [wf] in W; try contradiction.
  - subst r. cbn. ring.
  - destruct W as (<- & Hi & W). cbn [phi_r hd Chain.run]. rewrite dot_mstep. apply IH. exact W.
Qed.
Theorem interface_value Y idx : wf 1 Y idx -> nth O (hd [] (phi_r K Y idx)) 0 = get Y idx.
Proof.
  intros W. unfold Chain.get. rewrite <- (dot_phi_r Y idx [1] 1 W). unfold dot. cbn. ring.
Qed.
(* element gradient: replacing core k by E, the entry is linear in E with coefficients pl[a]*pr[b] *)
Theorem grad_spec Y1 E Y2 idx1 ik idx2 : wfo 1 Y1 idx1 (cr1 E) -> ik < cn E -> wf (cr2 E) Y2 idx2 ->
  get (Y1 ++ E :: Y2) (idx1 ++ ik :: idx2) =
  bsum (cr1 E) (fun a => bsum (cr2 E) (fun b =>
     cget E a ik b * (nth a (run [1] Y1 idx1) 0 * nth b (hd [] (phi_r K Y2 idx2)) 0))).
Proof.
  intros W1 Hi W2. unfold Chain.get. rewrite run_app by (eapply wfo_length; eauto).
  cbn [Chain.run]. rewrite <- (dot_phi_r Y2 idx2 _ (cr2 E) W2). unfold dot.
  rewrite (bsum_ext K (cr2 E) _ (fun b => bsum (cr1 E) (fun a =>
     cget E a ik b * (nth a (run [1] Y1 idx1) 0 * nth b (hd [] (phi_r K Y2 idx2)) 0)))).
  2:{ intros b Hb. rewrite nth_vstep by auto. rewrite <- bsum_mul_r by auto. apply bsum_ext; intros a Ha. ring. }
  apply bsum_swap; auto.
Qed.
End ActOneP2.
