(* C02, part 3: truncate(Y, e, r, orth=True, use_stab=False, is_eigh) = orthogonalize + sweep:
   |Y - W|_F <= e |Y|_F when no returned rank reaches the cap; ranks, shape. *)
From Coq Require Import List Arith Lia Ring PeanoNat ZArith Bool Reals Lra.
From TV Require Import Num.Ops Lin.Tab Lin.BigSum Lin.Mat TT.Chain Model.Transformation Model.Svd Model.Wf Model.Stab
  Proofs.TransformationP Proofs.TransformationP2 Proofs.OrthP Proofs.OrthP2 Proofs.WfP Proofs.StabP Proofs.StabRP
  Proofs.TruncP Proofs.FrobP Proofs.TruncP2.
Import ListNotations.
Local Open Scope R_scope.

(* ---------- np.linalg.norm(Z[-1])**2 as the model computes it (fold over the stored entries) = sum over the index ranges ---------- *)
Lemma wfdat_tab (G : core R) : wfdat G ->
  dat G = tab (cr1 G) (fun a => tab (cn G) (fun i => tab (cr2 G) (fun b => cget OR G a i b))).
Proof.
  intros (L & F). apply (list_eq_nth []). { now rewrite tab_length. }
  intros a Ha. rewrite L in Ha. rewrite nth_tab by exact Ha.
  assert (Ia : In (nth a (dat G) []) (dat G)) by (apply nth_In; lia).
  destruct (proj1 (Forall_forall _ _) F _ Ia) as (L2 & F2).
  apply (list_eq_nth []). { now rewrite tab_length. }
  intros i Hi. rewrite L2 in Hi. rewrite nth_tab by exact Hi.
  assert (Ii : In (nth i (nth a (dat G) []) []) (nth a (dat G) [])) by (apply nth_In; lia).
  pose proof (proj1 (Forall_forall _ _) F2 _ Ii) as L3.
  apply (list_eq_nth 0). { now rewrite tab_length. }
  intros b Hb. rewrite L3 in Hb. rewrite nth_tab by exact Hb. reflexivity.
Qed.
Lemma fold_sumsq (l : list R) : forall acc, fold_left (fun s x => s + x * x) l acc = acc + lsum OR (map (fun x => x * x) l).
Proof. induction l as [|x l IH]; intros acc; cbn [fold_left map lsum]; [cbn; lra|]. rewrite IH. cbn. lra. Qed.
Lemma lsum_map_concat {A} (h : A -> R) (X : list (list A)) :
  lsum OR (map h (concat X)) = lsum OR (map (fun l => lsum OR (map h l)) X).
Proof. induction X as [|l X IH]; cbn [concat map lsum]; [reflexivity|]. rewrite map_app, lsumR_app, IH. reflexivity. Qed.
Lemma lsum_tab n (f : nat -> R) : lsum OR (tab n f) = bsum OR n f.
Proof. unfold tab. symmetry. apply (bsum_lsum OR OR_rng). Qed.
Lemma cfrob2_bridge (G : core R) : wfdat G -> Svd.cfrob2 OR G = OrthP.cfrob2 OR G.
Proof.
  intros W. unfold Svd.cfrob2, OrthP.cfrob2.
  change (fold_left (fun s x => s + x * x) (concat (concat (dat G))) 0 =
          bsum OR (cr1 G) (fun a => bsum OR (cn G) (fun i => bsum OR (cr2 G) (fun b => cget OR G a i b * cget OR G a i b)))).
  rewrite fold_sumsq, !lsum_map_concat. rewrite (wfdat_tab G W) at 1.
  rewrite map_tab, lsum_tab. rewrite Rplus_0_l. apply (bsum_ext OR); intros a Ha.
  rewrite map_tab, lsum_tab. apply (bsum_ext OR); intros i Hi.
  rewrite map_tab, lsum_tab. reflexivity.
Qed.
Lemma cfrob2_nonneg (G : core R) : 0 <= OrthP.cfrob2 OR G.
Proof.
  unfold OrthP.cfrob2. apply bsumR_nonneg'; intros a _. apply bsumR_nonneg'; intros i _. apply bsumR_nonneg'; intros b _.
  change (0 <= cget OR G a i b * cget OR G a i b). nra.
Qed.

Lemma qr_ok_shape qr : (forall k A, qr_ok OR A (fst (qr k A)) (snd (qr k A))) -> qr_shape qr.
Proof. intros H k A H1 H2. destruct (H k A) as (q1 & q2 & q3 & q4 & _). split; [exact q3|]. rewrite q4. lia. Qed.
Lemma rq_ok_shape rq : (forall k A, rq_ok OR A (fst (rq k A)) (snd (rq k A))) -> rq_shape rq.
Proof. intros H k A H1 H2. destruct (H k A) as (q1 & q2 & q3 & q4 & _). split; [exact q3|]. rewrite q4. lia. Qed.

Section TruncErr.
Variable svdo : nat -> mat R -> mat R * list R * mat R.
Variable eigh : nat -> mat R -> list R * mat R.
Variable argsort : nat -> list R -> list nat.
Variable qr rq : nat -> mat R -> mat R * mat R.
Variable ilog2 : nat -> R -> Z.
Variable pow2frac : Z -> nat -> R.
Hypothesis qr_spec : forall k A, qr_ok OR A (fst (qr k A)) (snd (qr k A)).
Hypothesis rq_spec : forall k A, rq_ok OR A (fst (rq k A)) (snd (rq k A)).
Variable rcap : Z.
Variable is_eigh : bool.
(* the factorisation truncate uses in the chosen mode, with threshold e' *)
Definition factE (e' : R) (k : nat) (M : mat R) : mat R * mat R :=
  if is_eigh then matrix_svd OR eigh argsort k M e' rcap else matrix_skeleton OR svdo k M e' rcap false GiveL.
Hypothesis Hfact : forall e', 0 <= e' -> fact_contract (factE e') (e' * e') rcap.

Theorem truncate_error_gen (Y : list (core R)) (e : R) : wfI (shape Y) Y -> (2 <= length Y)%nat -> 0 <= e ->
  exists W, truncate OR svdo eigh argsort qr rq ilog2 pow2frac Y e rcap true false is_eigh = Ok W /\
    length W = length Y /\ chain 1 W 1 /\ shape W = shape Y /\
    (forall k, (1 <= k < length Y)%nat ->
       (1 <= cr1 (nth k W dcore))%nat /\ (cr1 (nth k W dcore) <= cr1 (nth k Y dcore))%nat /\
       (Z.of_nat (cr1 (nth k W dcore)) <= Z.max 1 rcap)%Z) /\
    ((forall k, (1 <= k < length Y)%nat -> (Z.of_nat (cr1 (nth k W dcore)) < rcap)%Z) ->
     dist2 OR Y W <= e * e * tnorm2 OR Y).
Proof.
  intros WY Hd He. set (d := length Y) in *.
  assert (Lns : length (shape Y) = d) by apply map_length.
  assert (C : chain 1 Y 1). { apply wfI_iff in WY. destruct WY as ((_ & C & _) & _). exact C. }
  destruct OR_laws as (_ & pa & p0 & pd).
  destruct (orthogonalize_full OR OR_rng pa p0 pd qr rq ilog2 qr_spec rq_spec (fun _ => True) (fun _ _ _ _ => I)
              false Y (d - 1)%nat C) as (Zs & p & EO & OK); [lia|].
  destruct (orthogonalize_wfI OR qr rq ilog2 (qr_ok_shape qr qr_spec) (rq_ok_shape rq rq_spec) (shape Y) Y
              (Some (Z.of_nat (d - 1))) false WY) as (Zs' & p' & EO' & WZ); [rewrite Lns; lia|].
  rewrite EO in EO'. injection EO' as <- <-.
  pose proof (orthogonalize_norm OR OR_rng pa p0 pd qr rq ilog2 qr_spec rq_spec (fun _ => True) (fun _ _ _ _ => I)
                false Y (d - 1)%nat Zs p C ltac:(lia) EO) as (_ & _ & NY). specialize (NY eq_refl).
  destruct OK as [c1 c2 c3 c4 c5 c6 c7 c8 c9 c10 c11]. destruct (c2 eq_refl) as (-> & GY).
  pose proof WZ as WZ'. destruct WZ as (wL & wP & wF & wLa & wLk & wDm). rewrite Lns in wL, wP, wLa, wLk, wDm.
  set (Gl := nth (d - 1) Zs dcore) in *.
  assert (BR : Svd.cfrob2 OR Gl = OrthP.cfrob2 OR Gl) by (apply cfrob2_bridge; apply wDm; lia).
  (* unfold the model *)
  unfold truncate. fold d. replace (Z.of_nat d - 1)%Z with (Z.of_nat (d - 1)) by lia. rewrite EO. cbv zeta.
  fold Gl. rewrite BR.
  set (N := OrthP.cfrob2 OR Gl) in *.
  set (e' := odiv OR e (osqrt OR (oofZ OR (Z.of_nat (d - 1)))) * osqrt OR N).
  change (omul OR (odiv OR e (osqrt OR (oofZ OR (Z.of_nat (d - 1))))) (osqrt OR N)) with e'.
  assert (HN : 0 <= N) by apply cfrob2_nonneg.
  assert (HD : 0 < IZR (Z.of_nat (d - 1))) by (apply IZR_lt; lia).
  assert (He' : 0 <= e').
  { unfold e'. change (0 <= e / sqrt (IZR (Z.of_nat (d - 1))) * sqrt N).
    apply Rmult_le_pos; [|apply sqrt_pos]. apply Rmult_le_pos; [exact He|].
    apply Rlt_le, Rinv_0_lt_compat, sqrt_lt_R0, HD. }
  assert (E2 : INR (d - 1) * (e' * e') = e * e * N).
  { unfold e'. change (INR (d - 1) * (e / sqrt (IZR (Z.of_nat (d - 1))) * sqrt N * (e / sqrt (IZR (Z.of_nat (d - 1))) * sqrt N)) = e * e * N).
    rewrite INR_IZR_INZ. set (D := IZR (Z.of_nat (d - 1))) in *.
    assert (S1 : sqrt D * sqrt D = D) by (apply sqrt_sqrt; lra).
    assert (S2 : sqrt N * sqrt N = N) by (apply sqrt_sqrt; lra).
    assert (S3 : sqrt D <> 0) by (apply Rgt_not_eq, sqrt_lt_R0, HD).
    replace (D * (e / sqrt D * sqrt N * (e / sqrt D * sqrt N))) with (e * e * (D / (sqrt D * sqrt D)) * (sqrt N * sqrt N)) by (field; exact S3).
    rewrite S1, S2. field. lra. }
  rewrite trunc_sweep_gsweep. fold (factE e').
  assert (PD : posdims Zs).
  { intros k Hk. rewrite wL in Hk. destruct (wDm k Hk) as (n1 & _ & n2 & n3). repeat split; auto.
    - apply (wfI_cr1_pos (shape Y) Zs k WZ'). rewrite Lns. exact Hk.
    - rewrite n1. exact n2. }
  destruct (gsweep_spec (factE e') (e' * e') rcap (Hfact e' He') (d - 1)%nat Zs 1%nat) as (LW & CW & SW & RW & EW);
    [lia|exact c3|exact PD|intros i Hi; apply c6; exact Hi|].
  eexists. split; [reflexivity|]. split; [lia|]. split; [exact CW|]. split; [congruence|]. split.
  - intros k Hk. destruct (RW k) as (r1 & r2 & _ & r4); [lia|]. repeat split; auto.
    etransitivity; [exact r2|]. apply c8. lia.
  - intros Hcap. rewrite NY. rewrite <- E2.
    assert (DE : dist2 OR Y (gsweep OR (factE e') Zs (d - 1) (d - 1)) = dist2o OR Zs (gsweep OR (factE e') Zs (d - 1) (d - 1)) 1).
    { rewrite <- (dist2_dist2o OR OR_rng). unfold dist2. rewrite c4. apply (msum_ext OR). intros idx Hidx.
      rewrite GY; [reflexivity|]. apply wf_wfo, wfo_chain_inb. split; [exact C|exact Hidx]. }
    rewrite DE. apply EW. intros k Hk. apply Hcap. lia.
Qed.
End TruncErr.
