(* Lemmas about Model/Anova.v (C13). *)
From Coq Require Import List Arith Lia PeanoNat ZArith Bool Ring.
From TV Require Import Num.Ops Lin.Tab Lin.BigSum Lin.Mat TT.Chain Model.ActOne Model.Anova.
Import ListNotations.

Lemma pairs_example : pairs 3 = [(0, 1); (0, 2); (1, 2)].
Proof. reflexivity. Qed.
