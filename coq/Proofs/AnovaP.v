(* Lemmas about Model/Anova.v (C13), part 1: pair_num_to_num, np.unique / sample statistics, order-1 cores. *)
From Coq Require Import List Arith Lia PeanoNat ZArith Bool Ring Sorted.
From TV Require Import Num.Ops Lin.Tab Lin.BigSum Lin.Mat TT.Chain Model.ActOne Model.Anova.
Import ListNotations.

(* ---------- pair_num_to_num ---------- *)
Definition prow (d i : nat) : list (nat * nat) := map (fun j => (i, j)) (seq (S i) (d - S i)).
Definition poff (d i : nat) : nat := length (flat_map (prow d) (seq 0 i)).
Lemma pairs_eq d : pairs d = flat_map (prow d) (seq 0 (d - 1)).
Proof. reflexivity. Qed.
Lemma prow_length d i : length (prow d i) = d - S i.
Proof. unfold prow. now rewrite map_length, seq_length. Qed.
Lemma poff_S d i : poff d (S i) = poff d i + (d - S i).
Proof. unfold poff. rewrite seq_S, flat_map_app, app_length. simpl. rewrite app_nil_r, prow_length. reflexivity. Qed.
Lemma poff_0 d : poff d 0 = 0. Proof. reflexivity. Qed.
Lemma poff_closed d i : i <= d -> 2 * poff d i + i * (i + 1) = 2 * i * d.
Proof.
  induction i; intros H. - rewrite poff_0. lia.
  - rewrite poff_S. specialize (IHi ltac:(lia)). nia.
Qed.
Lemma flat_map_seq_split {A} (f : nat -> list A) m i : i < m ->
  flat_map f (seq 0 m) = flat_map f (seq 0 i) ++ f i ++ flat_map f (seq (S i) (m - S i)).
Proof.
  intros H. replace m with (i + S (m - S i)) at 1 by lia.
  rewrite seq_app, flat_map_app. simpl. reflexivity.
Qed.
Lemma pairs_nth_off d i t : i < d - 1 -> t < d - S i -> 
  poff d i + t < length (pairs d) /\ nth (poff d i + t) (pairs d) (0, 0) = (i, S i + t).
Proof.
  intros Hi Ht. rewrite pairs_eq, (flat_map_seq_split (prow d) (d - 1) i Hi). split.
  - rewrite !app_length, prow_length. unfold poff. lia.
  - unfold poff. rewrite app_nth2 by lia. replace (_ + t - _) with t by lia.
    rewrite app_nth1 by (rewrite prow_length; lia). unfold prow.
    rewrite nth_indep with (d' := (fun j => (i, j)) 0) by (rewrite map_length, seq_length; lia).
    rewrite map_nth, seq_nth by lia. reflexivity.
Qed.
Lemma pairs_length d : length (pairs d) = poff d (d - 1).
Proof. reflexivity. Qed.
Lemma pairs_length_closed d : 2 * length (pairs d) = d * (d - 1).
Proof.
  rewrite pairs_length. destruct d; [reflexivity|]. pose proof (poff_closed (S d) (S d - 1) ltac:(lia)) as H.
  replace (S d - 1) with d in * by lia. nia.
Qed.
Lemma poff_decomp d m n : n < poff d m -> exists i t, i < m /\ t < d - S i /\ n = poff d i + t.
Proof.
  induction m; intros H.
  - rewrite poff_0 in H. lia.
  - rewrite poff_S in H. destruct (Nat.lt_ge_cases n (poff d m)) as [L|L].
    + destruct (IHm L) as (i & t & A & B & E). exists i, t. repeat split; auto.
    + exists m, (n - poff d m). repeat split; lia.
Qed.
Lemma pair_num_lt d i j : i < j < d ->
  pair_num (Z.of_nat d) (Z.of_nat i) (Z.of_nat j) = Ok (Z.of_nat (poff d i + (j - i - 1))).
Proof.
  intros H. unfold pair_num.
  destruct (Z.eqb_spec (Z.of_nat i) (Z.of_nat j)) as [E|_]; [lia|].
  destruct (Z.gtb_spec (Z.of_nat i) (Z.of_nat j)) as [E|_]; [lia|].
  f_equal. pose proof (poff_closed d i ltac:(lia)) as C.
  replace ((-3 + 2 * Z.of_nat d - Z.of_nat i) * Z.of_nat i)%Z with ((Z.of_nat (poff d i) - Z.of_nat i) * 2)%Z by nia.
  rewrite Z.div_mul by lia. lia.
Qed.
Lemma pair_num_sym d x1 x2 : pair_num d x1 x2 = pair_num d x2 x1.
Proof.
  unfold pair_num. rewrite (Z.eqb_sym x2 x1). destruct (Z.eqb_spec x1 x2) as [E|NE]; [reflexivity|].
  destruct (Z.gtb_spec x1 x2), (Z.gtb_spec x2 x1); try lia; reflexivity.
Qed.
Lemma pair_num_diag d x : pair_num d x x = Err AssertionError.
Proof. unfold pair_num. now rewrite Z.eqb_refl. Qed.
Lemma pair_num_nat_lt d i j : i < j < d -> pair_num_nat d i j = poff d i + (j - i - 1).
Proof. intros H. unfold pair_num_nat. rewrite pair_num_lt by auto. apply Nat2Z.id. Qed.

(* pair_num_to_num numbers the pairs i<j<d in the loop order of build_2, bijectively onto 0..d(d-1)/2-1 *)
Theorem pair_num_bijection d :
  2 * length (pairs d) = d * (d - 1) /\
  (forall i j, i < j < d -> pair_num_nat d i j < length (pairs d) /\
                            nth (pair_num_nat d i j) (pairs d) (0, 0) = (i, j)) /\
  (forall n, n < length (pairs d) -> exists i j, i < j < d /\ pair_num_nat d i j = n /\ nth n (pairs d) (0, 0) = (i, j)).
Proof.
  split; [apply pairs_length_closed|]. split.
  - intros i j H. rewrite pair_num_nat_lt by auto.
    destruct (pairs_nth_off d i (j - i - 1)) as [A B]; try lia. split; [exact A|]. rewrite B. f_equal. lia.
  - intros n Hn. rewrite pairs_length in Hn. destruct (poff_decomp d _ n Hn) as (i & t & A & B & E).
    exists i, (S i + t). assert (HH : i < S i + t < d) by lia. split; [exact HH|].
    rewrite pair_num_nat_lt by auto. split; [lia|]. subst n. apply pairs_nth_off; auto.
Qed.
Lemma pairs_In d i j : In (i, j) (pairs d) -> i < j < d.
Proof.
  intros H. apply (In_nth _ _ (0, 0)) in H as (n & Hn & E).
  destruct (pair_num_bijection d) as (_ & _ & S). destruct (S n Hn) as (i' & j' & A & _ & B).
  rewrite E in B. injection B as -> ->. exact A.
Qed.

(* ---------- np.unique: sorted, distinct, same elements ---------- *)
Lemma zinsert_In x l y : In y (zinsert x l) <-> y = x \/ In y l.
Proof.
  induction l as [|z l IH]; cbn [zinsert In]; [intuition|].
  destruct (Z.ltb_spec x z); [cbn [In]; intuition|].
  destruct (Z.eqb_spec x z); [subst; cbn [In]; intuition|]. cbn [In]. rewrite IH. intuition.
Qed.
Lemma unique_In l y : In y (unique l) <-> In y l.
Proof.
  induction l as [|x l IH]; cbn [unique fold_right In]; [tauto|].
  fold (unique l). rewrite zinsert_In, IH. intuition.
Qed.
Lemma zinsert_HdRel a x l : (a < x)%Z -> HdRel Z.lt a l -> HdRel Z.lt a (zinsert x l).
Proof.
  intros Hax H. destruct l as [|z l]; cbn [zinsert]; [constructor; auto|].
  inversion H; subst. destruct (Z.ltb_spec x z); [constructor; auto|].
  destruct (Z.eqb_spec x z); constructor; auto.
Qed.
Lemma zinsert_sorted x l : Sorted Z.lt l -> Sorted Z.lt (zinsert x l).
Proof.
  induction l as [|z l IH]; cbn [zinsert]; intros H; [repeat constructor|].
  inversion H; subst. destruct (Z.ltb_spec x z); [constructor; auto|].
  destruct (Z.eqb_spec x z); [auto|]. constructor; auto. apply zinsert_HdRel; auto. lia.
Qed.
Lemma unique_sorted l : Sorted Z.lt (unique l).
Proof. induction l; cbn [unique fold_right]; [constructor|]. now apply zinsert_sorted. Qed.
Lemma unique_NoDup l : NoDup (unique l).
Proof.
  pose proof (unique_sorted l) as H. apply Sorted_StronglySorted in H; [|intros a b c; lia].
  induction H; constructor; auto. intros Hin. rewrite Forall_forall in H0. specialize (H0 _ Hin). lia.
Qed.

Lemma domain_length I : length (domain I) = dimI I.
Proof. apply tab_length. Qed.
Lemma domain_nth I k : k < dimI I -> nth k (domain I) [] = unique (column k I).
Proof. intros. unfold domain. now rewrite nth_tab. Qed.

Section Stats.
Context {T : Type} (K : ops T).
Notation "0" := (o0 K). Notation "1" := (o1 K).
Infix "+" := (oadd K). Infix "*" := (omul K). Infix "-" := (osub K). Infix "/" := (odiv K).
Hypothesis Rth : rng K.
Add Ring RrAnovaS : Rth.
(* what is used of a field of characteristic 0 *)
Hypothesis Hdiv : forall a b, b <> 0 -> (a / b) * b = a.
Hypothesis Hnat : forall n, natT K (S n) <> 0.

Lemma mean_spec l : l <> [] -> mean K l * natT K (length l) = lsum K l.
Proof. intros H. unfold mean. apply Hdiv. destruct l; [congruence|]. apply Hnat. Qed.

Lemma sel_nonempty p (I : list (list Z)) (y : list T) : length I = length y ->
  (exists row, In row I /\ p row = true) -> sel p I y <> [].
Proof.
  revert y; induction I as [|r I IH]; intros [|v y] L (row & Hin & Hp); try discriminate; [destruct Hin|].
  unfold sel. cbn [combine filter fst]. destruct (p r) eqn:E; [cbn [map]; discriminate|].
  destruct Hin as [->|Hin]; [congruence|]. apply IH; [cbn [length] in L; lia|eauto].
Qed.
Lemma build_1_nth dom I y f0 k pos : k < length dom -> pos < length (nth k dom []) ->
  nth pos (nth k (build_1 K dom I y f0) []) 0
  = mean K (sel (at_ k (nth pos (nth k dom []) 0%Z)) I y) - f0.
Proof.
  intros Hk Hp. unfold build_1. rewrite nth_tab by auto.
  set (F := fun x : Z => mean K (sel (at_ k x) I y) - f0).
  rewrite nth_indep with (d' := F 0%Z) by (now rewrite map_length). now rewrite map_nth.
Qed.
Lemma build_1_length dom I y f0 : length (build_1 K dom I y f0) = length dom.
Proof. apply tab_length. Qed.
Lemma build_1_shape dom I y f0 : map (@length T) (build_1 K dom I y f0) = shapes dom.
Proof.
  unfold build_1, shapes. rewrite map_tab. apply (list_eq_nth O).
  - now rewrite tab_length, map_length.
  - rewrite tab_length. intros k Hk. rewrite nth_tab, map_length by auto.
    rewrite nth_indep with (d' := length (@nil Z)) by (now rewrite map_length). now rewrite map_nth.
Qed.

(* f0 is the sample mean; f1[k][x] + f0 is the mean of the samples whose k-th index is x;
   the domain of mode k is the sorted list of the distinct observed values *)
Theorem anova_stats I y order (M : anova T) : ANOVA K I y order = Ok M -> y <> [] -> length I = length y ->
  a_dom M = domain I /\ a_d M = dimI I /\
  (forall k, k < dimI I -> Sorted Z.lt (nth k (a_dom M) []) /\
                           forall x, In x (nth k (a_dom M) []) <-> In x (column k I)) /\
  a_f0 M * natT K (length y) = lsum K y /\
  map (@length T) (a_f1 M) = shapes (a_dom M) /\
  forall k pos, k < dimI I -> pos < length (nth k (a_dom M) []) ->
    let s := sel (at_ k (nth pos (nth k (a_dom M) []) 0%Z)) I y in
    s <> [] /\ (nth pos (nth k (a_f1 M) []) 0 + a_f0 M) * natT K (length s) = lsum K s.
Proof.
  unfold ANOVA. destruct (negb _); [discriminate|]. intros E Hy L. injection E as <-.
  cbn [a_dom a_f0 a_f1]. unfold a_d. cbn [a_dom]. repeat split.
  - apply domain_length.
  - rewrite domain_nth by auto. apply unique_sorted.
  - rewrite domain_nth by auto. apply unique_In.
  - rewrite domain_nth by auto. apply unique_In.
  - unfold build_0. now apply mean_spec.
  - apply build_1_shape.
  - apply sel_nonempty; auto. rewrite domain_nth in * by auto.
    assert (Hin : In (nth pos (unique (column k I)) 0%Z) (column k I)) by (apply unique_In, nth_In; auto).
    unfold column in Hin. apply in_map_iff in Hin as (row & E & Hin). exists row. split; auto.
    unfold at_. now apply Z.eqb_eq.
  - rewrite build_1_nth by (rewrite ?domain_length; auto).
    match goal with |- (?m - ?f + ?f) * _ = _ => replace (m - f + f) with m by ring end.
    apply mean_spec. apply sel_nonempty; auto. rewrite domain_nth in * by auto.
    assert (Hin : In (nth pos (unique (column k I)) 0%Z) (column k I)) by (apply unique_In, nth_In; auto).
    unfold column in Hin. apply in_map_iff in Hin as (row & E & Hin). exists row. split; auto.
    unfold at_. now apply Z.eqb_eq.
Qed.
End Stats.

Section Cores1.
Context {T : Type} (K : ops T).
Notation "0" := (o0 K). Notation "1" := (o1 K).
Infix "+" := (oadd K). Infix "*" := (omul K). Infix "-" := (osub K).
Hypothesis Rth : rng K.
Add Ring RrAnova1 : Rth.

(* the row vector carried along the order-1 chain: (1, s, 0, ..., 0) *)
Definition sv (r : nat) (s : T) : list T := tab r (fun a => if a =? 0 then 1 else if a =? 1 then s else 0).
Lemma sv_length r s : length (sv r s) = r. Proof. apply tab_length. Qed.

Lemma bsum_two n f : (2 <= n)%nat -> (forall a, (2 <= a < n)%nat -> f a = 0) -> bsum K n f = f O + f 1%nat.
Proof.
  intros Hn H. destruct n as [|[|n]]; try lia.
  rewrite (bsum_S_l K Rth), (bsum_S_l K Rth). rewrite bsum_0'; auto. - ring. - intros i Hi. apply H. lia.
Qed.

Lemma step_first r g f i : (2 <= r)%nat -> (i < length f)%nat ->
  vstep K [1] (core1_first K r 0 g f) i = sv r (nth i f 0).
Proof.
  intros Hr Hi. unfold vstep, core1_first, ncore, sv. rewrite cr2_mk, cr1_mk. apply tab_ext; intros b Hb.
  cbn [bsum nth]. rewrite cget_mk by lia.
  destruct (b =? 0); [ring|]. destruct (b =? 1); ring.
Qed.
Lemma step_mid r g f i s : (2 <= r)%nat -> (i < length f)%nat ->
  vstep K (sv r s) (core1_mid K r 0 g f) i = sv r (s + nth i f 0).
Proof.
  intros Hr Hi. unfold vstep, core1_mid, ncore. rewrite cr2_mk, cr1_mk. unfold sv at 2. apply tab_ext; intros b Hb.
  rewrite bsum_two; auto.
  - unfold sv. rewrite !nth_tab by lia. rewrite !cget_mk by lia. cbn [Nat.eqb andb].
    destruct (Nat.eqb_spec b 0) as [->|Hb0]; cbn [Nat.eqb andb]; [ring|].
    destruct (Nat.eqb_spec b 1) as [->|Hb1]; cbn [Nat.eqb andb]; ring.
  - intros a Ha. unfold sv. rewrite nth_tab by lia.
    destruct a as [|[|a]]; try lia. cbn [Nat.eqb]. ring.
Qed.
Lemma step_last r g f f0 i s : (2 <= r)%nat -> (i < length f)%nat ->
  vstep K (sv r s) (core1_last K r 0 g f f0) i = [f0 + (s + nth i f 0)].
Proof.
  intros Hr Hi. unfold vstep, core1_last, ncore. rewrite cr2_mk, cr1_mk. cbn [tab map seq]. f_equal.
  rewrite bsum_two; auto.
  - unfold sv. rewrite !nth_tab by lia. rewrite !cget_mk by lia. cbn [Nat.eqb]. ring.
  - intros a Ha. unfold sv. rewrite nth_tab by lia.
    destruct a as [|[|a]]; try lia. cbn [Nat.eqb]. ring.
Qed.

(* the middle cores, processed one after the other *)
Lemma run_mids r g (f1 : list (list T)) m : (2 <= r)%nat -> forall idxm s, length idxm = m ->
  (forall t, (t < m)%nat -> (nth t idxm O < length (nth (S t) f1 []))%nat) ->
  run K (sv r s) (tab m (fun t => core1_mid K r 0 (g (S t)) (nth (S t) f1 []))) idxm
  = sv r (s + bsum K m (fun t => nth (nth t idxm O) (nth (S t) f1 []) 0)).
Proof.
  intros Hr. induction m; intros idxm s L H.
  - destruct idxm; [|discriminate]. cbn [tab map seq run bsum]. f_equal. ring.
  - destruct (@exists_last _ idxm) as (idx' & i & ->); [intros ->; discriminate|].
    rewrite app_length in L. cbn [length] in L. assert (L' : length idx' = m) by lia.
    rewrite tab_S. rewrite run_app by (now rewrite tab_length).
    rewrite IHm; auto.
    + cbn [run]. rewrite step_mid; auto.
      * f_equal. cbn [bsum]. rewrite app_nth2 by lia. replace (m - length idx')%nat with O by lia. cbn [nth].
        rewrite (bsum_ext K m (fun t => nth (nth t (idx' ++ [i]) O) (nth (S t) f1 []) 0)
                             (fun t => nth (nth t idx' O) (nth (S t) f1 []) 0)). ring.
        intros t Ht. now rewrite app_nth1 by lia.
      * specialize (H m ltac:(lia)). rewrite app_nth2 in H by lia. replace (m - length idx')%nat with O in H by lia. exact H.
    + intros t Ht. specialize (H t ltac:(lia)). now rewrite app_nth1 in H by lia.
Qed.

Theorem cores_1_get (M : anova T) r g idx : (2 <= r)%nat -> (2 <= a_d M)%nat -> length idx = a_d M ->
  (forall k, (k < a_d M)%nat -> (nth k idx O < length (nth k (a_f1 M) []))%nat) ->
  get K (cores_1 K M r 0 g) idx
  = a_f0 M + bsum K (a_d M) (fun k => nth (nth k idx O) (nth k (a_f1 M) []) 0).
Proof.
  intros Hr Hd L H. unfold get, cores_1. set (f1 := a_f1 M) in *. set (d := a_d M) in *.
  destruct d as [|[|m]] eqn:Ed; try lia. clear Hd.
  destruct idx as [|i0 rest]; [discriminate|]. cbn [length] in L.
  destruct (@exists_last _ rest) as (idxm & il & ->); [intros ->; discriminate|].
  rewrite app_length in L. cbn [length] in L. assert (Lm : length idxm = m) by lia.
  replace (S (S m) - 2)%nat with m by lia. replace (S (S m) - 1)%nat with (S m) by lia.
  cbn [run]. rewrite step_first; auto.
  2:{ apply (H O). lia. }
  rewrite run_app by (now rewrite tab_length). rewrite run_mids; auto.
  2:{ intros t Ht. specialize (H (S t) ltac:(lia)). cbn [nth] in H. now rewrite app_nth1 in H by lia. }
  cbn [run]. rewrite step_last; auto.
  2:{ specialize (H (S m) ltac:(lia)). cbn [nth] in H. rewrite app_nth2 in H by lia.
      replace (m - length idxm)%nat with O in H by lia. exact H. }
  cbn [nth]. f_equal. rewrite (bsum_S_l K Rth). cbn [bsum nth].
  rewrite app_nth2 by lia. replace (m - length idxm)%nat with O by lia. cbn [nth].
  rewrite (bsum_ext K m (fun i => nth (nth i (idxm ++ [il]) O) (nth (S i) f1 []) 0)
                        (fun t => nth (nth t idxm O) (nth (S t) f1 []) 0)). ring.
  intros t Ht. now rewrite app_nth1 by lia.
Qed.

(* shapes and ranks, any noise *)
Lemma cores_1_shape (M : anova T) r noise g : (2 <= a_d M)%nat -> length (a_f1 M) = a_d M ->
  shape (cores_1 K M r noise g) = map (@length T) (a_f1 M).
Proof.
  intros Hd L. unfold cores_1, shape. set (f1 := a_f1 M) in *. set (d := a_d M) in *.
  apply (list_eq_nth O).
  - cbn [map length]. rewrite !map_length, app_length, tab_length. cbn [length]. lia.
  - cbn [map length]. rewrite map_length, app_length, tab_length. cbn [length]. intros k Hk.
    rewrite nth_indep with (d' := length (@nil T)) (l := map _ f1) by (rewrite map_length; lia).
    rewrite map_nth.
    destruct k as [|k]; [reflexivity|]. cbn [nth]. rewrite map_app.
    destruct (Nat.lt_ge_cases k (d - 2)) as [Hlt|Hge].
    + rewrite app_nth1 by (now rewrite map_length, tab_length). rewrite map_tab, nth_tab by auto. reflexivity.
    + rewrite app_nth2 by (rewrite map_length, tab_length; lia). rewrite map_length, tab_length.
      replace (k - (d - 2))%nat with O by lia. cbn [map nth]. unfold core1_last, ncore. rewrite cn_mk.
      f_equal. f_equal. lia.
Qed.
Lemma cores_1_ranks (M : anova T) r noise g : (2 <= a_d M)%nat ->
  ranks (cores_1 K M r noise g) = 1%nat :: repeat r (a_d M - 1) ++ [1%nat].
Proof.
  intros Hd. unfold cores_1, ranks. set (d := a_d M) in *. f_equal. cbn [map]. rewrite map_app, map_tab. cbn [map].
  unfold core1_first, core1_mid, core1_last, ncore. rewrite !cr2_mk.
  replace (d - 1)%nat with (S (d - 2)) by lia. cbn [repeat app]. f_equal. f_equal.
  generalize (d - 2)%nat as m. intros m. apply (list_eq_nth r).
  - now rewrite tab_length, repeat_length.
  - rewrite tab_length. intros k Hk. rewrite nth_tab by auto. rewrite cr2_mk. symmetry. apply nth_repeat.
Qed.
End Cores1.
