(* Geometry invariant of the TT-cross state machine: index sets are well-formed, core / factor shapes fit,
   every exit returns a well-formed tensor of the original shape. *)
From Coq Require Import List Arith Lia PeanoNat Bool.
From TV Require Import Num.Ops Lin.Tab Model.Cross Proofs.CrossIdx.
Import ListNotations.

Ltac simp_nth := repeat (rewrite upd_length || (rewrite nth_upd_eq by (rewrite ?upd_length; lia))
                         || (rewrite nth_upd_neq by lia)).

(* contract of QR + maxvol / maxvol_rect on a tall matrix (property C08) *)
Definition pick_ok {P} (pick : nat -> bool -> nat -> nat -> nat -> P -> nat -> nat -> list nat) : Prop :=
  forall (k : nat) (ltr : bool) (r1 n r2 : nat) (p : P) (drmin drmax : nat),
    let N := if ltr then r1 * n else n * r2 in
    let rq := Nat.min N (if ltr then r2 else r1) in
    rq < N ->
    let l := pick k ltr r1 n r2 p drmin drmax in
    NoDup l /\ Forall (fun t => t < N) l /\
    rq + Nat.min drmin (Nat.min drmax (N - rq)) <= length l <= rq + Nat.min drmax (N - rq).

Section Geo.
Context {T : Type} (K : ops T) {P : Type}.
Variable isinf : T -> bool.
Variable f : nat -> rows -> option (list T).
Variable cb : option (nat -> bool).
Variable pones : P.
Variable pdotL pdotR : P -> P -> P.
Variable pvals : nat -> nat -> nat -> list T -> P.
Variable pick : nat -> bool -> nat -> nat -> nat -> P -> nat -> nat -> list nat.
Variable pcoreG pfacR : bool -> nat -> nat -> nat -> P -> list nat -> P.
Variable erank : nat -> list (@mcore P) -> T.
Variable accuracy : nat -> list (@mcore P) -> list (@mcore P) -> T.
Variable accdata : nat -> list (@mcore P) -> T.
Variable C : @cfg T P.

Notation stepm := (step K isinf f cb pones pdotL pdotR pvals pick pcoreG pfacR erank accuracy accdata C).
Notation dd := (d C).
Notation Y0 := (c_Y0 C).
Notation df := (dflt pones).
Notation sn := (shape_n pones C).
Notation ones_ := (ones pones).
Definition ns : list nat := map cnn Y0.

(* Y0 is a well-formed TT-tensor: d >= 1, positive mode sizes and ranks, boundary ranks 1, ranks match *)
Definition Y0_ok : Prop :=
  1 <= dd /\
  (forall k, k < dd -> 1 <= cnn (nth k Y0 df) /\ 1 <= c1 (nth k Y0 df) /\ 1 <= c2 (nth k Y0 df)) /\
  c1 (nth 0 Y0 df) = 1 /\ (forall k, S k < dd -> c2 (nth k Y0 df) = c1 (nth (S k) Y0 df)) /\
  c2 (nth (dd - 1) Y0 df) = 1.
Hypothesis HY0 : Y0_ok.
Hypothesis Hpick : pick_ok pick.

Lemma ns_length : length ns = dd. Proof. unfold ns, d. apply map_length. Qed.
Lemma ns_nth i : nth i ns 0 = sn i.
Proof. unfold ns, shape_n. change 0 with (cnn df). apply map_nth. Qed.
Lemma sn_pos i : i < dd -> 1 <= sn i.
Proof. intros H. unfold shape_n. destruct HY0 as (_ & Hp & _). apply Hp; auto. Qed.

(* well-formed result: d cores, the original mode sizes, boundary ranks 1, neighbouring ranks equal *)
Definition tt_wf (Y : list (@mcore P)) : Prop :=
  length Y = dd /\ (forall k, k < dd -> cnn (nth k Y df) = sn k) /\
  c1 (nth 0 Y df) = 1 /\ (forall k, S k < dd -> c2 (nth k Y df) = c1 (nth (S k) Y df)) /\
  c2 (nth (dd - 1) Y df) = 1.

Definition rho0 (k : nat) : nat := if k <? dd then c1 (nth k Y0 df) else 1.
Definition rho (main : bool) (Ic : list (option rows)) (k : nat) : nat :=
  if main then rk (nth k Ic None) else rho0 k.

Definition idx_inv (main ltr : bool) (i : nat) (Ir Ic : list (option rows)) : Prop :=
  nth 0 Ir None = None /\ nth dd Ic None = None /\
  (forall k, k <= (if main then dd else if ltr then i else dd) -> orows_ok (firstn k ns) (nth k Ir None)) /\
  (forall k, (if main then 0 else if ltr then dd else S i) <= k -> k <= dd ->
             orows_ok (skipn k ns) (nth k Ic None)).

Definition ltr_geo (main : bool) (i : nat) (Y : list (@mcore P)) (R : @fac P) (Ir Ic : list (option rows)) :=
  (forall k, k < i -> c1 (nth k Y df) = rk (nth k Ir None) /\ c2 (nth k Y df) = rk (nth (S k) Ir None)) /\
  f_r R = rk (nth i Ir None) /\ c1 (nth i Y df) = f_c R /\
  (forall k, i < k -> k < dd -> c1 (nth k Y df) = rho main Ic k) /\
  (forall k, i <= k -> k < dd -> c2 (nth k Y df) = rho main Ic (S k)) /\
  (i = 0 -> R = ones_).

Definition rtl_geo (i : nat) (Y : list (@mcore P)) (R : @fac P) (Ir Ic : list (option rows)) :=
  (forall k, k <= i -> c1 (nth k Y df) = rk (nth k Ir None)) /\
  (forall k, k < i -> c2 (nth k Y df) = rk (nth (S k) Ir None)) /\
  c2 (nth i Y df) = f_r R /\ f_c R = rk (nth (S i) Ic None) /\
  (forall k, i < k -> k < dd -> c1 (nth k Y df) = rk (nth k Ic None) /\ c2 (nth k Y df) = rk (nth (S k) Ic None)).

Definition Geo (s : @st T P) : Prop :=
  length (sY s) = dd /\ length (sIr s) = S dd /\ length (sIc s) = S dd /\
  (forall k, k < dd -> cnn (nth k (sY s) df) = sn k) /\
  match s_pc s with
  | Done => tt_wf (sY s)
  | Run main ltr i =>
      i < dd /\ idx_inv main ltr i (sIr s) (sIc s) /\
      if ltr then ltr_geo main i (sY s) (sR s) (sIr s) (sIc s) else rtl_geo i (sY s) (sR s) (sIr s) (sIc s)
  end.

Lemma rho_ge1 main i Ir Ic k : idx_inv main true i Ir Ic -> k <= dd -> 1 <= rho main Ic k.
Proof.
  intros (_ & _ & _ & Hc) Hk. unfold rho. destruct main.
  - eapply orows_rk_pos. apply Hc; simpl; lia.
  - unfold rho0. destruct (Nat.ltb_spec k dd); [|lia]. destruct HY0 as (_ & Hp & _). apply Hp; auto.
Qed.
Lemma rho_dd main i Ir Ic : idx_inv main true i Ir Ic -> rho main Ic dd = 1.
Proof.
  intros (_ & Hd & _). unfold rho. destruct main; [now rewrite Hd|].
  unfold rho0. destruct (Nat.ltb_spec dd dd); [lia|auto].
Qed.

(* ---------- _maxvol and _iter ---------- *)
Lemma maxvol_w_spec k (ltr : bool) (Z : @mcore P) drmin drmax :
  1 <= c1 Z -> 1 <= cnn Z -> 1 <= c2 Z ->
  let ind := maxvol_w pick k ltr Z drmin drmax in
  ind <> [] /\ NoDup ind /\ Forall (fun t => t < (if ltr then c1 Z * cnn Z else cnn Z * c2 Z)) ind.
Proof.
  intros H1 Hn H2. unfold maxvol_w.
  set (N := if ltr then c1 Z * cnn Z else cnn Z * c2 Z).
  set (rq := Nat.min N (if ltr then c2 Z else c1 Z)).
  assert (HN : 1 <= N) by (unfold N; destruct ltr; nia).
  assert (Hq : 1 <= rq) by (unfold rq; destruct ltr; lia).
  destruct (Nat.leb_spec N rq) as [Hle|Hlt]; cbv zeta.
  - repeat split.
    + destruct N; [lia|]. simpl; congruence.
    + apply seq_NoDup.
    + apply Forall_forall. intros t Ht. apply in_seq in Ht. lia.
  - pose proof (Hpick k ltr (c1 Z) (cnn Z) (c2 Z) (cp Z) drmin drmax) as Hp. cbv zeta in Hp.
    fold N in Hp. fold rq in Hp. specialize (Hp Hlt). destruct Hp as (A & B & D & _).
    repeat split; auto. intros E. rewrite E in D. simpl in D. lia.
Qed.

Lemma iter_m_spec k (ltr : bool) (Z : @mcore P) I bn drmin drmax :
  1 <= c1 Z -> 1 <= cnn Z -> 1 <= c2 Z -> orows_ok bn I -> rk I = (if ltr then c1 Z else c2 Z) ->
  match iter_m pick pcoreG pfacR k ltr Z I drmin drmax with
  | (G', R', I') =>
      let L := length I' in
      1 <= L /\ cnn G' = cnn Z /\ rows_ok (if ltr then bn ++ [cnn Z] else [cnn Z] ++ bn) I' /\
      (if ltr then c1 G' = c1 Z /\ c2 G' = L /\ f_r R' = L /\ f_c R' = c2 Z
       else c1 G' = L /\ c2 G' = c2 Z /\ f_r R' = c1 Z /\ f_c R' = L)
  end.
Proof.
  intros H1 Hn H2 HI Hr. unfold iter_m.
  destruct (maxvol_w_spec k ltr Z drmin drmax H1 Hn H2) as (A & B & D).
  set (ind := maxvol_w pick k ltr Z drmin drmax) in *.
  assert (HL : 1 <= length ind) by (destruct ind; simpl; [congruence|lia]).
  destruct ltr; cbv zeta; simpl; rewrite map_length; repeat split; auto.
  - apply (inew_ltr_ok bn I (c1 Z) (cnn Z) (c2 Z) ind HI Hr A B D).
  - apply (inew_ltr_ok bn I (c1 Z) (cnn Z) (c2 Z) ind HI Hr A B D).
  - apply (inew_ltr_ok bn I (c1 Z) (cnn Z) (c2 Z) ind HI Hr A B D).
  - apply (inew_rtl_ok bn I (c1 Z) (cnn Z) (c2 Z) ind HI Hr Hn A B D).
  - apply (inew_rtl_ok bn I (c1 Z) (cnn Z) (c2 Z) ind HI Hr Hn A B D).
  - apply (inew_rtl_ok bn I (c1 Z) (cnn Z) (c2 Z) ind HI Hr Hn A B D).
Qed.

Lemma func_m_shape c n Ir Ic c' Z :
  func_m K f pvals C c n Ir Ic = (c', Some Z) -> c1 Z = rk Ir /\ cnn Z = n /\ c2 Z = rk Ic.
Proof.
  unfold func_m. destruct (func_eval K f C c (batch n Ir Ic)) as [c'' [y|]]; intros E; inversion E; subst.
  simpl; auto.
Qed.

(* a state at the start of a left-to-right pass is a well-formed tensor *)
Lemma ltr0_wf main Y R Ir Ic :
  length Y = dd -> (forall k, k < dd -> cnn (nth k Y df) = sn k) ->
  idx_inv main true 0 Ir Ic -> ltr_geo main 0 Y R Ir Ic -> tt_wf Y.
Proof.
  intros HL Hn Hi (_ & _ & L3 & L4 & L5 & L7). destruct HY0 as (Hd & _).
  rewrite (L7 eq_refl) in L3. simpl in L3.
  repeat split; auto.
  - intros k Hk. rewrite L5, L4 by lia. reflexivity.
  - rewrite L5 by lia. replace (S (dd - 1)) with dd by lia. eapply rho_dd; eauto.
Qed.

Lemma exit_wf_ltr main i Y R Ir Ic :
  i < dd -> length Y = dd -> (forall k, k < dd -> cnn (nth k Y df) = sn k) ->
  idx_inv main true i Ir Ic -> ltr_geo main i Y R Ir Ic ->
  tt_wf (upd Y i (dotL pdotL R (nth i Y df))).
Proof.
  intros Hi HL Hn Hx (L1 & L2 & L3 & L4 & L5 & L7). pose proof Hx as (X0 & _).
  unfold tt_wf. simp_nth. repeat split; auto.
  - intros k Hk. destruct (Nat.eq_dec k i) as [->|Hne]; simp_nth; simpl; auto.
  - destruct (Nat.eq_dec i 0) as [->|Hne]; simp_nth; simpl.
    + rewrite L2, X0. reflexivity.
    + destruct (L1 0) as [A _]; [lia|]. rewrite A, X0. reflexivity.
  - intros k Hk. destruct (Nat.eq_dec k i) as [->|Hne]; simp_nth; simpl.
    + rewrite L5, L4 by lia. reflexivity.
    + destruct (Nat.eq_dec (S k) i) as [E|Hne']; simp_nth; simpl.
      * subst i. simp_nth. simpl. destruct (L1 k) as [_ B]; [lia|]. rewrite B, L2. reflexivity.
      * destruct (Nat.lt_ge_cases k i).
        -- destruct (L1 k) as [_ B]; [lia|]. destruct (L1 (S k)) as [A _]; [lia|]. congruence.
        -- rewrite L5, L4 by lia. reflexivity.
  - destruct (Nat.eq_dec (dd - 1) i) as [E|Hne]; [rewrite E|]; simp_nth; simpl.
    + rewrite L5 by lia. replace (S i) with dd by lia. eapply rho_dd; eauto.
    + rewrite L5 by lia. replace (S (dd - 1)) with dd by lia. eapply rho_dd; eauto.
Qed.

Lemma exit_wf_rtl main i Y R Ir Ic :
  i < dd -> length Y = dd -> (forall k, k < dd -> cnn (nth k Y df) = sn k) ->
  idx_inv main false i Ir Ic -> rtl_geo i Y R Ir Ic ->
  tt_wf (upd Y i (dotR pdotR (nth i Y df) R)).
Proof.
  intros Hi HL Hn Hx (R1 & R2 & R3 & R4 & R5). pose proof Hx as (X0 & Xd & _).
  unfold tt_wf. simp_nth. repeat split; auto.
  - intros k Hk. destruct (Nat.eq_dec k i) as [->|Hne]; simp_nth; simpl; auto.
  - destruct (Nat.eq_dec i 0) as [->|Hne]; simp_nth; simpl; rewrite R1 by lia; rewrite X0; reflexivity.
  - intros k Hk. destruct (Nat.eq_dec k i) as [->|Hne]; simp_nth; simpl.
    + rewrite R4. destruct (R5 (S i)) as [A _]; [lia|lia|]. congruence.
    + destruct (Nat.eq_dec (S k) i) as [E|Hne']; simp_nth; simpl.
      * subst i. simp_nth. simpl. rewrite R2, R1 by lia. reflexivity.
      * destruct (Nat.lt_ge_cases k i).
        -- rewrite R2, R1 by lia. reflexivity.
        -- destruct (R5 k) as [_ B]; [lia|lia|]. destruct (R5 (S k)) as [A _]; [lia|lia|]. congruence.
  - destruct (Nat.eq_dec (dd - 1) i) as [E|Hne]; [rewrite E|]; simp_nth; simpl.
    + rewrite R4. replace (S i) with dd by lia. rewrite Xd. reflexivity.
    + destruct (R5 (dd - 1)) as [_ B]; [lia|lia|]. rewrite B. replace (S (dd - 1)) with dd by lia.
      rewrite Xd. reflexivity.
Qed.

Notation advl := (adv_ltr pones pdotR pick pcoreG pfacR C).
Notation advr := (adv_rtl K isinf cb pones pdotL pick pcoreG pfacR erank accuracy accdata C).
Notation exitm := (exit_st K isinf erank accuracy accdata C).
Notation iterm := (iter_m pick pcoreG pfacR).

Lemma geo_adv_ltr main s i c' Z dmin dmax :
  Geo s -> s_pc s = Run main true i ->
  c1 Z = rk (nth i (sIr s) None) -> cnn Z = sn i -> c2 Z = rho main (sIc s) (S i) ->
  Geo (advl main s i c' Z dmin dmax).
Proof.
  intros (HLY & HLr & HLc & Hcn & Hpc) Epc Z1 Zn Z2. rewrite Epc in Hpc.
  destruct Hpc as (Hi & Hx & (L1 & L2 & L3 & L4 & L5 & L7)).
  pose proof Hx as (X0 & Xd & Xr & Xc).
  assert (P1 : 1 <= c1 Z). { rewrite Z1. eapply orows_rk_pos. apply Xr. destruct main; lia. }
  assert (Pn : 1 <= cnn Z). { rewrite Zn. apply sn_pos; auto. }
  assert (P2 : 1 <= c2 Z). { rewrite Z2. eapply rho_ge1; eauto. }
  assert (OI : orows_ok (firstn i ns) (nth i (sIr s) None)). { apply Xr. destruct main; lia. }
  pose proof (iter_m_spec (s_nmv s) true Z (nth i (sIr s) None) (firstn i ns) dmin dmax P1 Pn P2 OI
                (eq_sym Z1)) as SP.
  unfold adv_ltr. destruct (iterm (s_nmv s) true Z (nth i (sIr s) None) dmin dmax) as [[G' R'] I'].
  cbv zeta in SP. destruct SP as (PL & Gn & RI & G1 & G2 & Rr & Rc).
  assert (RI' : rows_ok (firstn (S i) ns) I').
  { rewrite (firstn_S_nth ns i 0) by (rewrite ns_length; lia). rewrite ns_nth, <- Zn. exact RI. }
  assert (Hcn' : forall k, k < dd -> cnn (nth k (upd (sY s) i G') df) = sn k).
  { intros k Hk. destruct (Nat.eq_dec k i) as [->|Hne]; simp_nth; auto. congruence. }
  destruct (Nat.ltb_spec (S i) dd) as [Hlt|Hge].
  - (* next position of the same pass *)
    unfold Geo; cbn [sY sIr sIc sR s_pc]. simp_nth.
    split; [auto|]. split; [auto|]. split; [auto|]. split; [exact Hcn'|].
    split; [lia|]. split.
    + (* index sets *)
      unfold idx_inv. simp_nth. split; [auto|]. split; [auto|]. split.
      * intros k Hk. destruct (Nat.eq_dec k (S i)) as [->|Hne]; simp_nth; [exact RI'|].
        apply Xr. destruct main; lia.
      * intros k Hk Hk'. apply Xc; auto.
    + unfold ltr_geo. simp_nth. split; [|split; [|split; [|split; [|split]]]].
      * intros k Hk. destruct (Nat.eq_dec k i) as [->|Hne]; simp_nth.
        -- split; [congruence|]. rewrite G2. reflexivity.
        -- apply L1. lia.
      * rewrite Rr. reflexivity.
      * rewrite L4 by lia. congruence.
      * intros k Hk Hk'. simp_nth. apply L4; lia.
      * intros k Hk Hk'. simp_nth. apply L5; lia.
      * lia.
  - (* end of the pass: fold the factor into the last core, turn round *)
    assert (Ei : S i = dd) by lia.
    assert (Z2' : c2 Z = 1). { rewrite Z2, Ei. eapply rho_dd; eauto. }
    unfold Geo; cbn [sY sIr sIc sR s_pc]. simp_nth.
    split; [auto|]. split; [auto|]. split; [auto|]. split.
    { intros k Hk. destruct (Nat.eq_dec k i) as [->|Hne]; simp_nth; simpl; auto. congruence. }
    split; [lia|]. split.
    + unfold idx_inv. simp_nth. split; [auto|]. split; [auto|]. split.
      * intros k Hk. destruct (Nat.eq_dec k (S i)) as [->|Hne]; simp_nth; [exact RI'|].
        apply Xr. destruct main; lia.
      * intros k Hk Hk'. apply Xc; auto. destruct main; lia.
    + unfold rtl_geo. simp_nth. simpl. split; [|split; [|split; [|split]]].
      * intros k Hk. destruct (Nat.eq_dec k i) as [->|Hne]; simp_nth; simpl; [congruence|].
        apply L1. lia.
      * intros k Hk. simp_nth. apply L1. lia.
      * congruence.
      * rewrite Ei, Xd. reflexivity.
      * intros k Hk Hk'. lia.
Qed.

Lemma geo_adv_rtl main s i c' Z dmin dmax :
  Geo s -> s_pc s = Run main false i ->
  c1 Z = rk (nth i (sIr s) None) -> cnn Z = sn i -> c2 Z = rk (nth (S i) (sIc s) None) ->
  Geo (advr main s i c' Z dmin dmax).
Proof.
  intros (HLY & HLr & HLc & Hcn & Hpc) Epc Z1 Zn Z2. rewrite Epc in Hpc.
  destruct Hpc as (Hi & Hx & (R1 & R2 & R3 & R4 & R5)).
  pose proof Hx as (X0 & Xd & Xr & Xc). destruct HY0 as (Hd & _).
  assert (P1 : 1 <= c1 Z). { rewrite Z1. eapply orows_rk_pos. apply Xr. destruct main; lia. }
  assert (Pn : 1 <= cnn Z). { rewrite Zn. apply sn_pos; auto. }
  assert (OI : orows_ok (skipn (S i) ns) (nth (S i) (sIc s) None)). { apply Xc; destruct main; lia. }
  assert (P2 : 1 <= c2 Z). { rewrite Z2. eapply orows_rk_pos; eauto. }
  pose proof (iter_m_spec (s_nmv s) false Z (nth (S i) (sIc s) None) (skipn (S i) ns) dmin dmax P1 Pn P2 OI
                (eq_sym Z2)) as SP.
  unfold adv_rtl. destruct (iterm (s_nmv s) false Z (nth (S i) (sIc s) None) dmin dmax) as [[G' R'] I'].
  cbv zeta in SP. destruct SP as (PL & Gn & RI & G1 & G2 & Rr & Rc).
  assert (RI' : rows_ok (skipn i ns) I').
  { rewrite (skipn_nth_S ns i 0) by (rewrite ns_length; lia). rewrite ns_nth, <- Zn. exact RI. }
  assert (Hcn' : forall k, k < dd -> cnn (nth k (upd (sY s) i G') df) = sn k).
  { intros k Hk. destruct (Nat.eq_dec k i) as [->|Hne]; simp_nth; auto. congruence. }
  assert (Xc' : forall k, (if main then 0 else i) <= k -> k <= dd ->
                orows_ok (skipn k ns) (nth k (upd (sIc s) i (Some I')) None)).
  { intros k Hk Hk'. destruct (Nat.eq_dec k i) as [->|Hne]; simp_nth; [exact RI'|].
    apply Xc; auto. destruct main; lia. }
  destruct i as [|i'].
  - (* end of the pass *)
    set (Y2 := upd (upd (sY s) 0 G') 0 (dotL pdotL R' G')).
    set (Ic' := upd (sIc s) 0 (Some I')).
    assert (HL2 : length Y2 = dd) by (unfold Y2; simp_nth; auto).
    assert (Hcn2 : forall k, k < dd -> cnn (nth k Y2 df) = sn k).
    { intros k Hk. unfold Y2. destruct (Nat.eq_dec k 0) as [->|Hne]; simp_nth; simpl; auto; congruence. }
    assert (Hx2 : idx_inv true true 0 (sIr s) Ic').
    { unfold idx_inv, Ic'. simp_nth. split; [auto|]. split; [auto|]. split.
      - intros k Hk. apply Xr. destruct main; lia.
      - intros k Hk Hk'. apply Xc'; auto. destruct main; lia. }
    assert (Hg2 : ltr_geo true 0 Y2 ones_ (sIr s) Ic').
    { unfold ltr_geo, Y2, Ic', rho. simp_nth. simpl. split; [|split; [|split; [|split; [|split]]]].
      - intros k Hk. lia.
      - rewrite X0. reflexivity.
      - rewrite Rr, Z1, X0. reflexivity.
      - intros k Hk Hk'. simp_nth. apply R5; lia.
      - intros k Hk Hk'. destruct (Nat.eq_dec k 0) as [->|Hne]; simp_nth; simpl.
        + congruence.
        + apply R5; lia.
      - auto. }
    assert (Hwf : tt_wf Y2) by (eapply ltr0_wf; eauto).
    assert (Hgeo : forall Yo c nswp e ev r nmv ne,
               Geo (mkst Y2 Yo (sIr s) Ic' ones_ c nswp e ev r nmv ne (Run true true 0))).
    { intros. unfold Geo; cbn [sY sIr sIc sR s_pc]. unfold Ic' at 1. simp_nth.
      split; [auto|]. split; [auto|]. split; [auto|]. split; [auto|]. split; [lia|]. split; auto. }
    destruct main.
    + match goal with |- context [match ?x with Some _ => _ | None => _ end] => destruct x end.
      * unfold Geo; cbn [sY sIr sIc sR s_pc]. fold Y2. fold Ic'. unfold Ic' at 1. simp_nth.
        split; [auto|]. split; [auto|]. split; [auto|]. split; auto.
      * apply Hgeo.
    + apply Hgeo.
  - (* next position of the same pass *)
    unfold Geo; cbn [sY sIr sIc sR s_pc]. simp_nth.
    split; [auto|]. split; [auto|]. split; [auto|]. split; [exact Hcn'|].
    split; [lia|]. split.
    + unfold idx_inv. simp_nth. split; [auto|]. split; [auto|]. split.
      * intros k Hk. apply Xr. destruct main; lia.
      * intros k Hk Hk'. apply Xc'; auto; destruct main; lia.
    + unfold rtl_geo. simp_nth. split; [|split; [|split; [|split]]].
      * intros k Hk. simp_nth. apply R1. lia.
      * intros k Hk. simp_nth. apply R2. lia.
      * rewrite R2 by lia. congruence.
      * rewrite Rc. reflexivity.
      * intros k Hk Hk'. destruct (Nat.eq_dec k (S i')) as [->|Hne]; simp_nth.
        -- split; [rewrite G1; reflexivity|congruence].
        -- apply R5; lia.
Qed.

Lemma geo_exit s main ltr i c' :
  Geo s -> s_pc s = Run main ltr i ->
  Geo (exitm s (upd (sY s) i (if ltr then dotL pdotL (sR s) (nth i (sY s) df)
                              else dotR pdotR (nth i (sY s) df) (sR s))) c').
Proof.
  intros (HLY & HLr & HLc & Hcn & Hpc) Epc. rewrite Epc in Hpc. destruct Hpc as (Hi & Hx & Hg).
  assert (W : tt_wf (upd (sY s) i (if ltr then dotL pdotL (sR s) (nth i (sY s) df)
                                   else dotR pdotR (nth i (sY s) df) (sR s)))).
  { destruct ltr; [eapply exit_wf_ltr|eapply exit_wf_rtl]; eauto. }
  unfold exit_st, Geo; cbn [sY sIr sIc sR s_pc]. simp_nth.
  split; [auto|]. split; [auto|]. split; [auto|]. split; [|exact W].
  destruct W as (_ & W & _). exact W.
Qed.

Lemma geo_init : Geo (init K pones erank C).
Proof.
  destruct HY0 as (Hd & Hp & H0 & Hc & Hl).
  unfold init, Geo; cbn [sY sIr sIc sR s_pc]. rewrite !repeat_length.
  split; [reflexivity|]. split; [reflexivity|]. split; [reflexivity|]. split; [reflexivity|].
  split; [lia|]. split.
  - unfold idx_inv. split; [reflexivity|]. split; [apply nth_repeat|]. split.
    + intros k Hk. assert (k = 0) as -> by lia. reflexivity.
    + intros k Hk Hk'. assert (k = dd) as -> by lia. rewrite nth_repeat. simpl.
      apply skipn_all2. rewrite ns_length. lia.
  - unfold ltr_geo, rho. split; [|split; [|split; [|split; [|split]]]].
    + intros k Hk. lia.
    + reflexivity.
    + simpl. exact H0.
    + intros k Hk Hk'. unfold rho0. destruct (Nat.ltb_spec k dd); [reflexivity|lia].
    + intros k Hk Hk'. unfold rho0. destruct (Nat.ltb_spec (S k) dd).
      * apply Hc; auto.
      * assert (k = dd - 1) as -> by lia. exact Hl.
    + reflexivity.
Qed.

Lemma geo_step s : Geo s -> Geo (stepm s).
Proof.
  intros HG. unfold step. destruct (s_pc s) as [main ltr i|] eqn:Epc; [|exact HG].
  pose proof HG as (HLY & HLr & HLc & Hcn & Hpc). rewrite Epc in Hpc. destruct Hpc as (Hi & Hx & Hg).
  destruct main.
  - destruct (func_m K f pvals C (sK s) (sn i) (nth i (sIr s) None) (nth (S i) (sIc s) None)) as [c' oz] eqn:Ef.
    destruct (k_stop c'); [eapply geo_exit; eauto|].
    destruct oz as [Z|]; [|eapply geo_exit; eauto].
    apply func_m_shape in Ef as (Z1 & Zn & Z2).
    destruct ltr; [apply geo_adv_ltr|apply geo_adv_rtl]; auto.
  - destruct ltr.
    + destruct Hg as (L1 & L2 & L3 & L4 & L5 & L7).
      apply geo_adv_ltr; auto; simpl; auto; apply L5; lia.
    + destruct Hg as (R1 & R2 & R3 & R4 & R5).
      apply geo_adv_rtl; auto; simpl; auto; apply R1; lia.
Qed.

Lemma iterate_inv {A} (g : A -> A) (Q : A -> Prop) : (forall x, Q x -> Q (g x)) ->
  forall k x, Q x -> Q (iterate g k x).
Proof. intros H. induction k; simpl; auto. Qed.

End Geo.
