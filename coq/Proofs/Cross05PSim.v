(* C05: a run of TT-cross with a cache and a run without, on an objective that is a function of the multi-index,
   stay in lock step until the budget stop (uncached run) or the cache-specific "conv" stop (cached run) fires. *)
From Coq Require Import List Arith Lia PeanoNat Bool.
From TV Require Import Num.Ops Lin.Tab Model.Cross Proofs.CrossIdx Proofs.CrossGeo Proofs.CrossP Proofs.Cross05P.
Import ListNotations.

Definition set_cache {T P} (C : @cfg T P) (ch : option (@cachet T)) : @cfg T P :=
  mkcfg (c_Y0 C) (c_m C) (c_e C) (c_nswp C) (c_evld C) (c_hasI C) (c_hasy C) (c_drmin C) (c_drmax C)
        (c_scale C) ch.

Section Sim.
Context {T : Type} (K : ops T) {P : Type}.
Variable isinf : T -> bool.
Variable cb : option (nat -> bool).
Variable pones : P.
Variable pdotL pdotR : P -> P -> P.
Variable pvals : nat -> nat -> nat -> list T -> P.
Variable pick : nat -> bool -> nat -> nat -> nat -> P -> nat -> nat -> list nat.
Variable pcoreG pfacR : bool -> nat -> nat -> nat -> P -> list nat -> P.
Variable erank : nat -> list (@mcore P) -> T.
Variable accuracy : nat -> list (@mcore P) -> list (@mcore P) -> T.
Variable accdata : nat -> list (@mcore P) -> T.
(* the objective is a function g of the multi-index (whatever the call number) *)
Variable g : row -> T.
Variable f : nat -> rows -> option (list T).
Hypothesis Hf : forall k I, f k I = Some (map g I).
Variable C : @cfg T P.

Notation stepm C := (step K isinf f cb pones pdotL pdotR pvals pick pcoreG pfacR erank accuracy accdata C).
Notation runm C := (run K isinf f cb pones pdotL pdotR pvals pick pcoreG pfacR erank accuracy accdata C).
Notation crossm C := (cross_m K isinf f cb pones pdotL pdotR pvals pick pcoreG pfacR erank accuracy accdata C).

(* the cache argument is read by the initial state only *)
Lemma step_set_cache oc s : stepm (set_cache C oc) s = stepm C s.
Proof. reflexivity. Qed.
Lemma args_ok_set_cache oc : args_ok (set_cache C oc) = args_ok C.
Proof. reflexivity. Qed.
Lemma d_set_cache oc : d (set_cache C oc) = d C.
Proof. reflexivity. Qed.

Lemma over_le x y : y <= x -> over C x = false -> over C y = false.
Proof.
  unfold over. destruct (m_max C); auto. intros H H0. apply Nat.ltb_ge. apply Nat.ltb_ge in H0. lia.
Qed.

(* counters of the uncached (left) and of the cached (right) run *)
Definition Rc (cu cc : @cnt T) : Prop :=
  k_cache cu = None /\ (exists ch, k_cache cc = Some ch /\ cache_ok K g ch) /\
  k_stop cu = k_stop cc /\ k_m cc <= k_m cu /\ k_mc cu = 0.

(* _func_eval: either the uncached call is refused for the budget, or both calls return the g-values of the
   requested indices, the cache stays consistent and the cached counter stays below the uncached one *)
Lemma func_eval_sim cu cc I : Rc cu cc ->
  (k_stop (fst (func_eval K f C cu I)) = Some Sm /\ snd (func_eval K f C cu I) = None) \/
  (Rc (fst (func_eval K f C cu I)) (fst (func_eval K f C cc I)) /\
   snd (func_eval K f C cu I) = Some (map g I) /\ snd (func_eval K f C cc I) = Some (map g I) /\
   k_stop (fst (func_eval K f C cu I)) = k_stop cu).
Proof.
  intros (Hu & (ch & Hc & Hok) & Hst & Hm & Hmc).
  unfold func_eval. rewrite Hu, Hc.
  destruct (over C (k_m cu + length I)) eqn:Eo.
  - left. split; reflexivity.
  - right. rewrite Hf. cbn [fst snd].
    pose proof (all_cached K g I ch Hok) as HA. cbv zeta in HA.
    pose proof (filter_length_le' (fun i => negb (cmem i ch)) I) as HL.
    destruct (filter (fun i => negb (cmem i ch)) I) as [|a Inew] eqn:EI.
    + cbn [fst snd]. destruct HA as (HA1 & HA2).
      split; [|split; [reflexivity|split; [f_equal; exact HA2|reflexivity]]].
      unfold Rc; cbn [k_cache k_stop k_m k_mc]. split; [reflexivity|]. split; [exists ch; split; [reflexivity|exact Hok]|].
      split; [exact Hst|]. split; [lia|exact Hmc].
    + assert (Eo' : over C (k_m cc + length (a :: Inew)) = false) by (eapply over_le; [|exact Eo]; lia).
      rewrite Eo', Hf. cbn [fst snd]. destruct HA as (HA1 & HA2).
      split; [|split; [reflexivity|split; [f_equal; exact HA2|reflexivity]]].
      unfold Rc; cbn [k_cache k_stop k_m k_mc]. split; [reflexivity|].
      split; [eexists; split; [reflexivity|exact HA1]|].
      split; [exact Hst|]. split; [lia|exact Hmc].
Qed.

(* the two states agree on everything but the counters *)
Definition Sim (su sc : @st T P) : Prop :=
  sc = mkst (sY su) (sYold su) (sIr su) (sIc su) (sR su) (sK sc) (s_nswp su) (s_e su) (s_evld su) (s_r su)
            (s_nmv su) (s_ne su) (s_pc su)
  /\ Rc (sK su) (sK sc).

Definition Out (su sc : @st T P) : Prop :=
  Sim su sc \/ (s_pc su = Done /\ k_stop (sK su) = Some Sm) \/ (s_pc sc = Done /\ k_stop (sK sc) = Some Sconv).

Lemma Rc_set_stop cu cc x : Rc cu cc -> Rc (set_stop cu x) (set_stop cc x).
Proof. intros (A & B & D & E & F). unfold Rc, set_stop; cbn [k_cache k_stop k_m k_mc]. auto. Qed.

Ltac sim_ok HR := left; split; [reflexivity|cbn [sK]; first [exact HR | apply Rc_set_stop; exact HR]].

Lemma sim_step su sc : Sim su sc -> Out (stepm C su) (stepm C sc).
Proof.
  destruct su as [Y Yo Ir Ic R ku nswp e ev r nmv ne pc], sc as [Y' Yo' Ir' Ic' R' kc nswp' e' ev' r' nmv' ne' pc'].
  unfold Sim; cbn [sY sYold sIr sIc sR sK s_nswp s_e s_evld s_r s_nmv s_ne s_pc]. intros (E & HR).
  injection E; intros; subst.
  unfold step; cbn [s_pc sK sY sIr sIc sR].
  destruct pc as [main ltr i|]; [|left; split; [reflexivity|exact HR]].
  cbv zeta.
  (* what happens once the value array (if any) is there *)
  assert (ADV : forall cu' cc' Z dmin dmax, Rc cu' cc' ->
    Out (if ltr then adv_ltr pones pdotR pick pcoreG pfacR C main
                        (mkst Y Yo Ir Ic R ku nswp e ev r nmv ne (Run main ltr i)) i cu' Z dmin dmax
         else adv_rtl K isinf cb pones pdotL pick pcoreG pfacR erank accuracy accdata C main
                        (mkst Y Yo Ir Ic R ku nswp e ev r nmv ne (Run main ltr i)) i cu' Z dmin dmax)
        (if ltr then adv_ltr pones pdotR pick pcoreG pfacR C main
                        (mkst Y Yo Ir Ic R kc nswp e ev r nmv ne (Run main ltr i)) i cc' Z dmin dmax
         else adv_rtl K isinf cb pones pdotL pick pcoreG pfacR erank accuracy accdata C main
                        (mkst Y Yo Ir Ic R kc nswp e ev r nmv ne (Run main ltr i)) i cc' Z dmin dmax)).
  { intros cu' cc' Z dmin dmax HR'. destruct ltr.
    - unfold adv_ltr; cbn [sY sYold sIr sIc sR sK s_nswp s_e s_evld s_r s_nmv s_ne s_pc].
      destruct (iter_m _ _ _ _ _ _ _ _ _) as [[G1 R1] I1]. destruct (S i <? d C); sim_ok HR'.
    - unfold adv_rtl; cbn [sY sYold sIr sIc sR sK s_nswp s_e s_evld s_r s_nmv s_ne s_pc].
      destruct (iter_m _ _ _ _ _ _ _ _ _) as [[G1 R1] I1]. destruct i as [|i']; [|sim_ok HR'].
      destruct main; [|pose proof HR' as (_ & _ & Es & _); rewrite Es; sim_ok HR'].
      cbv zeta. pose proof HR' as (_ & _ & Es & _ & Emc). rewrite Emc.
      replace (c_scale C * k_m cu' <? 0) with false by (symmetry; apply Nat.ltb_ge; lia).
      destruct (c_scale C * k_m cc' <? k_mc cc') eqn:Econv.
      + (* the cached run stops with "conv" *)
        right; right.
        destruct cb as [g0|]; [destruct (g0 (S nswp))|]; cbn [info_appr]; cbn [s_pc sK set_stop k_stop]; auto.
      + rewrite <- Es.
        match goal with |- context [info_appr K isinf C ?s2 ?a ?b ?c] => destruct (info_appr K isinf C s2 a b c) end;
          sim_ok HR'. }
  assert (EXIT : forall cu' cc' Y1, Rc cu' cc' ->
    Out (exit_st K isinf erank accuracy accdata C (mkst Y Yo Ir Ic R ku nswp e ev r nmv ne (Run main ltr i)) Y1 cu')
        (exit_st K isinf erank accuracy accdata C (mkst Y Yo Ir Ic R kc nswp e ev r nmv ne (Run main ltr i)) Y1 cc')).
  { intros cu' cc' Y1 HR'. unfold exit_st; cbn [sY sYold sIr sIc sR sK s_nswp s_e s_evld s_r s_nmv s_ne s_pc].
    pose proof HR' as (_ & _ & Es & _). rewrite Es. sim_ok HR'. }
  destruct main.
  - unfold func_m.
    set (I := batch (shape_n pones C i) (nth i Ir None) (nth (S i) Ic None)).
    destruct (func_eval_sim ku kc I HR) as [(A & B)|(HR' & B1 & B2 & B3)].
    + destruct (func_eval K f C ku I) as [cu' ou]; cbn [fst snd] in *. subst ou. rewrite A.
      right; left. unfold exit_st; cbn [s_pc sK set_stop k_stop]. rewrite A. split; reflexivity.
    + destruct (func_eval K f C ku I) as [cu' ou], (func_eval K f C kc I) as [cc' oc]; cbn [fst snd] in *.
      subst ou oc. pose proof HR' as (_ & _ & Es & _). rewrite <- Es.
      destruct (k_stop cu'); [apply EXIT; exact HR'|]. apply ADV; exact HR'.
  - apply ADV; exact HR.
Qed.

Lemma out_step su sc : Out su sc -> Out (stepm C su) (stepm C sc).
Proof.
  intros [H|[(A & B)|(A & B)]].
  - apply sim_step; exact H.
  - right; left. unfold step. rewrite A. auto.
  - right; right. unfold step. rewrite A. auto.
Qed.

Lemma out_iterate k su sc : Out su sc -> Out (iterate (stepm C) k su) (iterate (stepm C) k sc).
Proof. revert su sc; induction k; intros su sc H; simpl; auto. apply IHk, out_step, H. Qed.

Variable ch0 : @cachet T.
Hypothesis Hch0 : cache_ok K g ch0.
Notation Cu := (set_cache C None).
Notation Cc := (set_cache C (Some ch0)).

Lemma sim_init : Sim (init K pones erank Cu) (init K pones erank Cc).
Proof.
  unfold Sim, init; cbn [sY sYold sIr sIc sR sK s_nswp s_e s_evld s_r s_nmv s_ne s_pc]. split; [reflexivity|].
  unfold Rc; cbn [k_cache k_stop k_m k_mc]. split; [reflexivity|]. split; [exists ch0; split; [reflexivity|exact Hch0]|].
  auto.
Qed.

(* whatever the number of sweeps allowed *)
Lemma run_out fuel : Out (runm Cu fuel) (runm Cc fuel).
Proof.
  rewrite !run_as_steps. rewrite !d_set_cache.
  change (iterate (stepm Cu)) with (iterate (stepm C)). change (iterate (stepm Cc)) with (iterate (stepm C)).
  apply out_iterate. left. exact sim_init.
Qed.

(* cache transparency of the whole run: if the uncached run ends without hitting the budget and the cached run does
   not end by its own "conv" rule, both return the same cores, index sets, sweep count, info values and stop reason;
   the cached run has evaluated at most as many indices; its dictionary is consistent with the objective *)
Lemma cache_transparent fuel su :
  crossm Cu fuel = Ok su -> k_stop (sK su) <> Some Sm -> k_stop (sK (runm Cc fuel)) <> Some Sconv ->
  exists sc, crossm Cc fuel = Ok sc /\
    sY sc = sY su /\ sYold sc = sYold su /\ sIr sc = sIr su /\ sIc sc = sIc su /\
    s_nswp sc = s_nswp su /\ k_stop (sK sc) = k_stop (sK su) /\
    s_r sc = s_r su /\ s_e sc = s_e su /\ s_evld sc = s_evld su /\
    k_m (sK sc) <= k_m (sK su) /\ k_mc (sK su) = 0 /\
    (exists ch, k_cache (sK sc) = Some ch /\ cache_ok K g ch).
Proof.
  unfold cross_m. rewrite !args_ok_set_cache. destruct (args_ok C); [|discriminate].
  destruct (s_pc (runm Cu fuel)) eqn:E; [discriminate|]. intros H; injection H as <-. intros NM NC.
  destruct (run_out fuel) as [(S1 & S2)|[(A & B)|(A & B)]]; [|contradiction|contradiction].
  exists (runm Cc fuel). rewrite S1 at 1. cbn [s_pc]. rewrite E. split; [reflexivity|].
  rewrite S1; cbn [sY sYold sIr sIc sR sK s_nswp s_e s_evld s_r s_nmv s_ne s_pc].
  destruct S2 as (A & B & D & F & G). repeat split; auto.
Qed.
End Sim.
