(* C04: the oracle contracts qr_ok / rq_ok are satisfiable by total functions on real matrices.
   A reduced QR is built by Gram-Schmidt with completion (when a column is already in the span of the previous
   ones, a unit vector orthogonal to them is taken instead; it exists because fewer than m orthonormal vectors
   cannot span R^m - trace argument).  R is not required to be triangular by the contract.  RQ by transposition. *)
From Coq Require Import List Arith Lia PeanoNat ZArith Ring Bool Reals Lra.
From TV Require Import Num.Ops Lin.Tab Lin.BigSum Lin.Mat TT.Chain Model.Transformation
  Proofs.TransformationP Proofs.OrthP Proofs.OrthP2 Proofs.OrthPR.
Import ListNotations.
Local Open Scope R_scope.

(* ---------- sums of reals ---------- *)
Notation sm := (bsum ORc).
Lemma sm_ext n f g : (forall i, (i < n)%nat -> f i = g i) -> sm n f = sm n g.
Proof. exact (bsum_ext ORc n f g). Qed.
Lemma sm_S n f : sm (S n) f = sm n f + f n. Proof. reflexivity. Qed.
Lemma sm_add n f g : sm n (fun i => f i + g i) = sm n f + sm n g.
Proof. exact (bsum_add ORc ORc_rng n f g). Qed.
Lemma sm_sub n f g : sm n (fun i => f i - g i) = sm n f - sm n g.
Proof. exact (bsum_sub ORc ORc_rng n f g). Qed.
Lemma sm_mul_l n c f : sm n (fun i => c * f i) = c * sm n f.
Proof. exact (bsum_mul_l ORc ORc_rng n c f). Qed.
Lemma sm_mul_r n c f : sm n (fun i => f i * c) = sm n f * c.
Proof. exact (bsum_mul_r ORc ORc_rng n c f). Qed.
Lemma sm_swap m n (f : nat -> nat -> R) : sm m (fun i => sm n (fun j => f i j)) = sm n (fun j => sm m (fun i => f i j)).
Proof. exact (bsum_swap ORc ORc_rng m n f). Qed.
Lemma sm_single n k f : (k < n)%nat -> (forall i, (i < n)%nat -> i <> k -> f i = 0) -> sm n f = f k.
Proof. exact (bsum_single ORc ORc_rng n k f). Qed.
Lemma sm_0 n f : (forall i, (i < n)%nat -> f i = 0) -> sm n f = 0.
Proof. exact (bsum_0' ORc ORc_rng n f). Qed.
Lemma sm_const1 n : sm n (fun _ => 1) = INR n.
Proof. induction n as [|n IH]; [reflexivity|]. rewrite sm_S, IH, S_INR. reflexivity. Qed.

Section GramSchmidt.
Variable m : nat.                       (* length of the vectors; vectors are functions nat -> R used below m *)
Definition dot (u v : nat -> R) : R := sm m (fun i => u i * v i).
(* projection of v on q_0 .. q_{j-1} and the residual *)
Definition proj (q : nat -> nat -> R) (j : nat) (v : nat -> R) : nat -> R :=
  fun i => sm j (fun c => dot (q c) v * q c i).
Definition resid (q : nat -> nat -> R) (j : nat) (v : nat -> R) : nat -> R := fun i => v i - proj q j v i.
Definition ortho (q : nat -> nat -> R) (j : nat) : Prop :=
  forall a b, (a < j)%nat -> (b < j)%nat -> dot (q a) (q b) = if Nat.eqb a b then 1 else 0.

Lemma dot_sym u v : dot u v = dot v u.
Proof. unfold dot. apply sm_ext; intros; ring. Qed.
Lemma dot_ext u u' v v' : (forall i, (i < m)%nat -> u i = u' i) -> (forall i, (i < m)%nat -> v i = v' i) -> dot u v = dot u' v'.
Proof. intros H1 H2. unfold dot. apply sm_ext; intros i Hi. now rewrite H1, H2. Qed.
Lemma dot_nonneg w : 0 <= dot w w.
Proof. unfold dot. apply bsumR_nonneg. intros; nra. Qed.
Lemma dot0_zero w : dot w w = 0 -> forall i, (i < m)%nat -> w i = 0.
Proof.
  intros H i Hi. pose proof (bsumR_ge_term m (fun i => w i * w i) i (fun j _ => Rle_0_sqr (w j)) Hi) as G.
  unfold dot in H. cbv beta in G. unfold Rsqr in *. nra.
Qed.
(* <x, proj q j t> = sum_c <q_c, t> <x, q_c> *)
Lemma dot_proj x q j t : dot x (proj q j t) = sm j (fun c => dot (q c) t * dot x (q c)).
Proof.
  unfold dot at 1, proj.
  rewrite (sm_ext m _ (fun i => sm j (fun c => x i * (dot (q c) t * q c i)))) by (intros; now rewrite sm_mul_l).
  rewrite sm_swap. apply sm_ext; intros c Hc. change (dot x (q c)) with (sm m (fun i => x i * q c i)).
  rewrite <- sm_mul_l. apply sm_ext; intros; ring.
Qed.
Lemma dot_sub_r x u v : dot x (fun i => u i - v i) = dot x u - dot x v.
Proof. unfold dot. rewrite <- sm_sub. apply sm_ext; intros; ring. Qed.
Lemma dot_resid_q q j v b : ortho q j -> (b < j)%nat -> dot (q b) (resid q j v) = 0.
Proof.
  intros O Hb. unfold resid. rewrite dot_sub_r, dot_proj.
  rewrite (sm_single j b); auto.
  - rewrite (O b b Hb Hb), Nat.eqb_refl. ring.
  - intros c Hc Hne. rewrite (O b c Hb Hc). destruct (Nat.eqb_spec b c); [congruence|ring].
Qed.
(* x orthogonal to q_0..q_{j-1}, t in their span: <x, t> = 0 *)
Lemma dot_span_zero x q j t : (forall b, (b < j)%nat -> dot x (q b) = 0) ->
  (forall i, (i < m)%nat -> t i = proj q j t i) -> dot x t = 0.
Proof.
  intros Hx Ht. rewrite (dot_ext x x t (proj q j t)) by auto. rewrite dot_proj.
  apply sm_0; intros c Hc. rewrite Hx by auto. ring.
Qed.
Lemma dot_resid_self q j v : ortho q j -> dot (resid q j v) (resid q j v) = dot (resid q j v) v.
Proof.
  intros O. unfold resid at 2. rewrite dot_sub_r, dot_proj.
  rewrite (sm_0 j); [ring|]. intros c Hc. rewrite (dot_sym (resid q j v)), dot_resid_q by auto. ring.
Qed.

(* normalisation *)
Definition normalise (w : nat -> R) : nat -> R := fun i => w i / sqrt (dot w w).
Lemma norm_pos w : dot w w <> 0 -> 0 < sqrt (dot w w).
Proof. intros H. apply sqrt_lt_R0. pose proof (dot_nonneg w). lra. Qed.
Lemma dot_normalise_l w u : dot (normalise w) u = dot w u / sqrt (dot w w).
Proof.
  unfold normalise. set (s := sqrt (dot w w)). unfold dot, Rdiv. rewrite <- sm_mul_r. apply sm_ext; intros; ring.
Qed.
Lemma normalise_unit w : dot w w <> 0 -> dot (normalise w) (normalise w) = 1.
Proof.
  intros H. pose proof (norm_pos w H) as Hs. rewrite dot_normalise_l, dot_sym, dot_normalise_l.
  pose proof (sqrt_sqrt (dot w w) (dot_nonneg w)) as E. field_simplify; [|lra]. rewrite <- E at 1. field. lra.
Qed.

(* first index below n on which a boolean test holds *)
Fixpoint find (P : nat -> bool) (n : nat) : option nat :=
  match n with
  | O => None
  | S n' => match find P n' with Some i => Some i | None => if P n' then Some n' else None end
  end.
Lemma find_some P n i : find P n = Some i -> (i < n)%nat /\ P i = true.
Proof.
  induction n as [|n IH]; cbn; [discriminate|]. destruct (find P n) as [i'|].
  - intros E; injection E as <-. destruct (IH eq_refl). split; [lia|auto].
  - destruct (P n) eqn:E; [|discriminate]. intros H; injection H as <-. split; [lia|auto].
Qed.
Lemma find_none P n : find P n = None -> forall i, (i < n)%nat -> P i = false.
Proof.
  induction n as [|n IH]; cbn; intros H i Hi; [lia|]. destruct (find P n); [discriminate|].
  destruct (P n) eqn:E; [discriminate|]. destruct (Nat.eq_dec i n) as [->|Hne]; [exact E|]. apply IH; auto. lia.
Qed.

(* a unit vector orthogonal to q_0 .. q_{j-1}, j < m: the normalised residual of the first basis vector that has one *)
Definition evecR (k : nat) : nat -> R := fun i => if Nat.eqb i k then 1 else 0.
Definition has_resid (q : nat -> nat -> R) (j k : nat) : bool :=
  if Req_EM_T (dot (resid q j (evecR k)) (resid q j (evecR k))) 0 then false else true.
Definition completion (q : nat -> nat -> R) (j : nat) : nat -> R :=
  match find (has_resid q j) m with
  | Some k => normalise (resid q j (evecR k))
  | None => fun _ => 0
  end.
Lemma dot_evec u k : (k < m)%nat -> dot u (evecR k) = u k.
Proof.
  intros Hk. unfold dot. rewrite (sm_single m k); auto.
  - unfold evecR. rewrite Nat.eqb_refl. ring.
  - intros i Hi Hne. unfold evecR. destruct (Nat.eqb_spec i k); [contradiction|ring].
Qed.
Lemma completion_ok q j : ortho q j -> (j < m)%nat ->
  dot (completion q j) (completion q j) = 1 /\ forall b, (b < j)%nat -> dot (completion q j) (q b) = 0.
Proof.
  intros O Hj. unfold completion. destruct (find (has_resid q j) m) as [k|] eqn:F.
  - destruct (find_some _ _ _ F) as (Hk & Pk). unfold has_resid in Pk.
    destruct (Req_EM_T (dot (resid q j (evecR k)) (resid q j (evecR k))) 0) as [|Hne]; [discriminate|].
    split; [apply normalise_unit; exact Hne|]. intros b Hb.
    rewrite dot_normalise_l, dot_sym, dot_resid_q by auto. unfold Rdiv. ring.
  - exfalso. pose proof (find_none _ _ F) as N.
    (* every basis vector is in the span: 1 = sum_c q_c[k]^2 for every k < m; summing over k gives m = j *)
    assert (D : forall k, (k < m)%nat -> sm j (fun c => q c k * q c k) = 1).
    { intros k Hk. specialize (N k Hk). unfold has_resid in N.
      destruct (Req_EM_T (dot (resid q j (evecR k)) (resid q j (evecR k))) 0) as [E0|]; [|discriminate].
      pose proof (dot0_zero _ E0 k Hk) as Z. unfold resid, proj in Z. unfold evecR at 1 in Z. rewrite Nat.eqb_refl in Z.
      rewrite (sm_ext j _ (fun c => q c k * q c k)) in Z by (intros c Hc; now rewrite dot_evec). lra. }
    assert (T1 : sm m (fun k => sm j (fun c => q c k * q c k)) = INR m).
    { rewrite (sm_ext m _ (fun _ => 1)) by exact D. apply sm_const1. }
    rewrite sm_swap in T1.
    rewrite (sm_ext j _ (fun _ => 1)) in T1.
    2:{ intros c Hc. pose proof (O c c Hc Hc) as E. rewrite Nat.eqb_refl in E. exact E. }
    rewrite sm_const1 in T1. apply INR_eq in T1. lia.
Qed.

(* one Gram-Schmidt step and the extension of the family *)
Definition step (q : nat -> nat -> R) (j : nat) (v : nat -> R) : nat -> R :=
  let w := resid q j v in if Req_EM_T (dot w w) 0 then completion q j else normalise w.
Definition extend (q : nat -> nat -> R) (j : nat) (x : nat -> R) : nat -> nat -> R :=
  fun c => if Nat.eqb c j then x else q c.
Lemma extend_lt q j x c : (c < j)%nat -> extend q j x c = q c.
Proof. intros H. unfold extend. destruct (Nat.eqb_spec c j); [lia|reflexivity]. Qed.
Lemma extend_eq q j x : extend q j x j = x.
Proof. unfold extend. now rewrite Nat.eqb_refl. Qed.
Lemma proj_extend q j x t i : proj (extend q j x) (S j) t i = proj q j t i + dot x t * x i.
Proof.
  unfold proj. rewrite sm_S, extend_eq. f_equal. apply sm_ext; intros c Hc. now rewrite extend_lt.
Qed.
Lemma step_unit_orth q j v : ortho q j -> (j < m)%nat ->
  dot (step q j v) (step q j v) = 1 /\ forall b, (b < j)%nat -> dot (step q j v) (q b) = 0.
Proof.
  intros O Hj. unfold step. cbv zeta. destruct (Req_EM_T (dot (resid q j v) (resid q j v)) 0) as [E0|Hne].
  - apply completion_ok; auto.
  - split; [apply normalise_unit; exact Hne|]. intros b Hb.
    rewrite dot_normalise_l, dot_sym, dot_resid_q by auto. unfold Rdiv. ring.
Qed.
Lemma ortho_extend q j x : ortho q j -> dot x x = 1 -> (forall b, (b < j)%nat -> dot x (q b) = 0) ->
  ortho (extend q j x) (S j).
Proof.
  intros O U X a b Ha Hb. destruct (Nat.eq_dec a j) as [->|Na]; destruct (Nat.eq_dec b j) as [->|Nb].
  - rewrite extend_eq, Nat.eqb_refl. exact U.
  - rewrite extend_eq, extend_lt by lia. destruct (Nat.eqb_spec j b); [congruence|]. apply X. lia.
  - rewrite extend_eq, extend_lt by lia. destruct (Nat.eqb_spec a j); [congruence|]. rewrite dot_sym. apply X. lia.
  - rewrite !extend_lt by lia. apply O; lia.
Qed.
(* the processed vector lies in the new span *)
Lemma step_spans q j v : ortho q j -> (j < m)%nat ->
  forall i, (i < m)%nat -> v i = proj (extend q j (step q j v)) (S j) v i.
Proof.
  intros O Hj i Hi. rewrite proj_extend. destruct (step_unit_orth q j v O Hj) as (U & X).
  unfold step in *. cbv zeta in *. destruct (Req_EM_T (dot (resid q j v) (resid q j v)) 0) as [E0|Hne].
  - (* v already in the span; the new vector is orthogonal to it *)
    assert (Hv : forall i, (i < m)%nat -> v i = proj q j v i).
    { intros i' Hi'. pose proof (dot0_zero _ E0 i' Hi') as Z. unfold resid in Z. lra. }
    rewrite (dot_span_zero _ q j v X Hv). rewrite <- Hv by auto. ring.
  - pose proof (norm_pos _ Hne) as Hs. rewrite dot_normalise_l, <- dot_resid_self by auto.
    unfold normalise. pose proof (sqrt_sqrt _ (dot_nonneg (resid q j v))) as E.
    set (s := sqrt (dot (resid q j v) (resid q j v))) in *.
    replace (dot (resid q j v) (resid q j v) / s * (resid q j v i / s)) with (resid q j v i).
    + unfold resid. ring.
    + rewrite <- E. field. lra.
Qed.
(* vectors of the old span stay in the new span *)
Lemma span_extend q j x t : (forall b, (b < j)%nat -> dot x (q b) = 0) ->
  (forall i, (i < m)%nat -> t i = proj q j t i) -> forall i, (i < m)%nat -> t i = proj (extend q j x) (S j) t i.
Proof.
  intros X Ht i Hi. rewrite proj_extend, (dot_span_zero x q j t X Ht). rewrite <- Ht by auto. ring.
Qed.

(* the whole process on the columns col 0 .. col (n-1), n <= m *)
Fixpoint gs (col : nat -> nat -> R) (n : nat) : nat -> nat -> R :=
  match n with
  | O => fun _ _ => 0
  | S j => let q := gs col j in extend q j (step q j (col j))
  end.
Lemma gs_spec col n : (n <= m)%nat ->
  ortho (gs col n) n /\ forall t, (t < n)%nat -> forall i, (i < m)%nat -> col t i = proj (gs col n) n (col t) i.
Proof.
  induction n as [|j IH]; intros Hn.
  - split; [intros a b Ha; lia|intros t Ht; lia].
  - destruct IH as (O & Sp); [lia|]. cbn [gs]. set (q := gs col j) in *.
    destruct (step_unit_orth q j (col j) O) as (U & X); [lia|]. split.
    + apply ortho_extend; auto.
    + intros t Ht i Hi. destruct (Nat.eq_dec t j) as [->|Ne].
      * apply step_spans; auto; lia.
      * apply span_extend; auto. intros i' Hi'. apply Sp; auto; lia.
Qed.
End GramSchmidt.

(* ---------- a total reduced QR and economic RQ on real matrices ---------- *)
Definition qrR (A : mat R) : mat R * mat R :=
  let m := mr A in let n := mc A in
  if (m <=? n)%nat then (mid ORc m, mkmat m n (fun i j => mget ORc A i j))
  else let col := fun t i => mget ORc A i t in
       let q := gs m col n in
       (mkmat m n (fun i c => q c i), mkmat n n (fun c t => dot m (q c) (col t))).
Theorem qrR_ok A : qr_ok ORc A (fst (qrR A)) (snd (qrR A)).
Proof.
  unfold qrR. cbv zeta. destruct (Nat.leb_spec (mr A) (mc A)) as [H|H]; cbn [fst snd].
  - unfold qr_ok. cbn [mr mc mid mkmat].
    split; [reflexivity|]. split; [reflexivity|]. split; [reflexivity|].
    split; [symmetry; apply Nat.min_l; exact H|]. split.
    + intros i j Hi Hj. rewrite (bsum_single ORc ORc_rng (mr A) i); auto.
      * rewrite mget_mid, Nat.eqb_refl by auto. rewrite mget_mk by auto. cbn [omul o1 ORc]. ring.
      * intros c Hc Hne. rewrite mget_mid by auto. destruct (Nat.eqb_spec i c); [congruence|]. cbn [omul o0 ORc]. ring.
    + intros c c' Hc Hc'. rewrite (bsum_single ORc ORc_rng (mr A) c); auto.
      * rewrite !mget_mid by auto. rewrite Nat.eqb_refl. destruct (Nat.eqb c c'); cbn [omul o0 o1 ORc]; ring.
      * intros i Hi Hne. rewrite (mget_mid ORc (mr A) i c) by auto. destruct (Nat.eqb_spec i c); [congruence|].
        cbn [omul o0 ORc]. ring.
  - destruct (gs_spec (mr A) (fun t i => mget ORc A i t) (mc A)) as (O & Sp); [lia|].
    unfold qr_ok. cbn [mr mc mkmat].
    split; [reflexivity|]. split; [reflexivity|]. split; [reflexivity|].
    split; [symmetry; apply Nat.min_r; lia|]. split.
    + intros i j Hi Hj. rewrite (Sp j Hj i Hi) at 1. unfold proj. apply bsum_ext; intros c Hc.
      rewrite !mget_mk by auto. cbn [omul ORc]. ring.
    + intros c c' Hc Hc'. cbn [o0 o1 ORc]. rewrite <- (O c c' Hc Hc'). unfold dot. apply bsum_ext; intros i Hi.
      rewrite !mget_mk by auto. reflexivity.
Qed.
Definition rqR (A : mat R) : mat R * mat R :=
  let QR := qrR (mtrans ORc A) in (mtrans ORc (snd QR), mtrans ORc (fst QR)).
Theorem rqR_ok A : rq_ok ORc A (fst (rqR A)) (snd (rqR A)).
Proof.
  unfold rqR. cbv zeta. cbn [fst snd]. pose proof (qrR_ok (mtrans ORc A)) as (q1 & q2 & q3 & q4 & q5 & q6).
  set (Q := fst (qrR (mtrans ORc A))) in *. set (Rm := snd (qrR (mtrans ORc A))) in *.
  cbn [mtrans mr mc mkmat] in q1, q2, q4, q5.
  unfold rq_ok, mtrans. rewrite ?mr_mk, ?mc_mk.
  split; [exact q2|]. split; [exact q1|]. split; [exact q3|]. split; [rewrite q4; apply Nat.min_comm|]. split.
  - intros i j Hi Hj. rewrite <- (mget_mtrans ORc A j i) by auto. rewrite <- (q5 j i Hj Hi).
    apply bsum_ext; intros c Hc. rewrite !mget_mk by (auto; lia). cbn [omul ORc]. ring.
  - intros c c' Hc Hc'. rewrite <- (q6 c c' Hc Hc'). apply bsum_ext; intros j Hj.
    rewrite !mget_mk by (auto; lia). reflexivity.
Qed.
(* the hypotheses of the C04 theorems are met by actual functions *)
Theorem contracts_satisfiable :
  (forall (j : nat) A, qr_ok ORc A (fst (qrR A)) (snd (qrR A))) /\
  (forall (j : nat) A, rq_ok ORc A (fst (rqR A)) (snd (rqR A))).
Proof. split; intros j A; [apply qrR_ok|apply rqR_ok]. Qed.
(* hence an instance of the magnitude theorem without any hypothesis on oracles *)
Theorem real_instance (Y : list (core R)) k : chain 1 Y 1 -> (k < length Y)%nat -> (2 <= length Y)%nat ->
  exists Zs p, orthogonalize ORc (fun _ => qrR) (fun _ => rqR) (fun _ => ilog2Rc) Y (Some (Z.of_nat k)) true = Ok (Zs, p) /\
    (forall idx, wf 1 Y idx -> powerRZ 2 p * get ORc Zs idx = get ORc Y idx) /\
    (forall m a i b, (m < length Y)%nat -> m <> k -> (a < cr1 (nth m Zs dcore))%nat -> (i < cn (nth m Zs dcore))%nat ->
       (b < cr2 (nth m Zs dcore))%nat -> Rabs (cget ORc (nth m Zs dcore) a i b) <= 1) /\
    stabbed 1 (nth k Zs dcore) /\
    (forall m a i b, (m < length Y)%nat -> (a < cr1 (nth m Zs dcore))%nat -> (i < cn (nth m Zs dcore))%nat ->
       (b < cr2 (nth m Zs dcore))%nat -> Rabs (cget ORc (nth m Zs dcore) a i b) < 2).
Proof.
  exact (orthogonalize_stab_magnitude 1 (fun _ => qrR) (fun _ => rqR) (fun _ => ilog2Rc) Y k
           (fun _ => qrR_ok) (fun _ => rqR_ok) ilog2Rc_ok).
Qed.
