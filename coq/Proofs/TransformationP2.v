(* C04 continued: the model functions orth_left / orth_right / orthogonalize (use_stab = false). *)
From Coq Require Import List Arith Lia Ring PeanoNat ZArith Bool.
From TV Require Import Num.Ops Lin.Tab Lin.BigSum Lin.Mat TT.Chain Model.Transformation Proofs.TransformationP.
Import ListNotations.

Section TransformationP2.
Context {T : Type} (K : ops T).
Hypothesis Rth : rng K.
Local Notation get := (get K).

Variable qr : nat -> mat T -> mat T * mat T.
Variable rq : nat -> mat T -> mat T * mat T.
Variable ilog2 : nat -> T -> Z.
Hypothesis qr_spec : forall k A, qr_ok K A (fst (qr k A)) (snd (qr k A)).
Hypothesis rq_spec : forall k A, rq_ok K A (fst (rq k A)) (snd (rq k A)).

Lemma split_at {A} (l : list A) i : i + 1 < length l ->
  exists Pre x y Suf, l = Pre ++ x :: y :: Suf /\ length Pre = i.
Proof.
  revert l; induction i as [|i IH]; intros l H.
  - destruct l as [|x [|y l]]; simpl in H; try lia. exists [], x, y, l. auto.
  - destruct l as [|z l]; simpl in H; [lia|]. destruct (IH l) as (Pre & x & y & Suf & -> & L); [lia|].
    exists (z :: Pre), x, y, Suf. simpl. auto.
Qed.
Lemma nth_mid {A} (Pre : list A) x Suf d : nth (length Pre) (Pre ++ x :: Suf) d = x.
Proof. rewrite app_nth2 by lia. now rewrite Nat.sub_diag. Qed.
Lemma nth_mid2 {A} (Pre : list A) x y Suf d : nth (S (length Pre)) (Pre ++ x :: y :: Suf) d = y.
Proof. rewrite app_nth2 by lia. replace (S (length Pre) - length Pre) with 1 by lia. reflexivity. Qed.
Lemma upd_mid {A} (Pre : list A) x Suf z : upd (Pre ++ x :: Suf) (length Pre) z = Pre ++ z :: Suf.
Proof. induction Pre; simpl; auto. now rewrite IHPre. Qed.
Lemma upd_mid2 {A} (Pre : list A) x y Suf z : upd (Pre ++ x :: y :: Suf) (S (length Pre)) z = Pre ++ x :: z :: Suf.
Proof. induction Pre; simpl; auto. now rewrite IHPre. Qed.

(* shape-level facts of a replaced pair *)
Lemma chain_pair (Pre : list (core T)) G1 G2 G1' G2' Suf r rl : pair_eq K G1 G2 G1' G2' ->
  chain r (Pre ++ G1 :: G2 :: Suf) rl -> chain r (Pre ++ G1' :: G2' :: Suf) rl.
Proof.
  intros (E1 & E2 & E3 & E4 & E5 & _). revert r; induction Pre as [|G Pre IH]; intros r; cbn [app chain].
  - intros (A & B & C). repeat split; congruence.
  - intros (A & B). split; auto.
Qed.
Lemma shape_pair (Pre : list (core T)) G1 G2 G1' G2' Suf : pair_eq K G1 G2 G1' G2' ->
  shape (Pre ++ G1' :: G2' :: Suf) = shape (Pre ++ G1 :: G2 :: Suf).
Proof. intros (E1 & E2 & E3 & E4 & E5 & _). unfold shape. rewrite !map_app. cbn [map]. congruence. Qed.
Lemma chain_mid_eq (Pre : list (core T)) G1 G2 Suf r rl : chain r (Pre ++ G1 :: G2 :: Suf) rl -> cr2 G1 = cr1 G2.
Proof. revert r; induction Pre as [|G Pre IH]; intros r; cbn [app chain]; [intros (_ & A & _); auto|intros (_ & B); eauto]. Qed.

(* what one left step does *)
Record step_ok (Zs Zs' : list (core T)) (i j : nat) : Prop := {
  so_get : forall idx, wf 1 Zs idx -> get Zs' idx = get Zs idx;
  so_chain : chain 1 Zs 1 -> chain 1 Zs' 1;
  so_shape : shape Zs' = shape Zs;
  so_len : length Zs' = length Zs;
  so_frame : forall m, m <> i -> m <> j -> nth m Zs' (dcore) = nth m Zs (dcore)
}.
Lemma nth_app_other {A} (Pre : list A) x y x' y' Suf m d : m <> length Pre -> m <> S (length Pre) ->
  nth m (Pre ++ x' :: y' :: Suf) d = nth m (Pre ++ x :: y :: Suf) d.
Proof.
  intros H1 H2. destruct (Nat.lt_ge_cases m (length Pre)).
  - now rewrite !app_nth1 by auto.
  - rewrite !app_nth2 by auto. destruct (m - length Pre) as [|[|k]] eqn:E; try lia. reflexivity.
Qed.

Theorem orth_left_spec Zs i : chain 1 Zs 1 -> i + 1 < length Zs ->
  exists Zs', orth_left K qr Zs i = Ok Zs' /\ step_ok Zs Zs' i (S i) /\
    lorth K (nth i Zs' dcore) /\
    cr2 (nth i Zs' dcore) = Nat.min (cr1 (nth i Zs dcore) * cn (nth i Zs dcore)) (cr2 (nth i Zs dcore)) /\
    cr1 (nth i Zs' dcore) = cr1 (nth i Zs dcore).
Proof.
  intros C Hi. destruct (split_at Zs i Hi) as (Pre & G1 & G2 & Suf & -> & L). subst i.
  unfold orth_left. destruct (Nat.leb_spec (length (Pre ++ G1 :: G2 :: Suf) - 1) (length Pre)) as [H|_].
  { rewrite app_length in H. simpl in H. lia. }
  rewrite nth_mid, nth_mid2.
  pose proof (qr_spec (length Pre) (unfoldL K G1)) as QS.
  destruct (qr (length Pre) (unfoldL K G1)) as [Q R]. cbn [fst snd] in QS.
  rewrite upd_mid, upd_mid2. eexists; split; [reflexivity|].
  assert (E0 : cr2 G1 = cr1 G2) by (eapply chain_mid_eq; eauto).
  pose proof (pair_eq_left K Rth G1 G2 Q R QS E0) as PE.
  rewrite !nth_mid. split; [|split; [|split]].
  - constructor.
    + intros idx W. unfold Chain.get. f_equal. eapply run_pair_eq; eauto.
    + intros _. eapply chain_pair; eauto.
    + eapply shape_pair; eauto.
    + rewrite !app_length. reflexivity.
    + intros m H1 H2. apply nth_app_other; auto.
  - destruct QS as (q1 & q2 & q3 & q4 & q5 & q6). apply lorth_foldL; auto.
  - destruct QS as (q1 & q2 & q3 & q4 & q5 & q6). cbn [foldL cr2 mkcore]. rewrite q4. reflexivity.
  - reflexivity.
Qed.

Theorem orth_right_spec Zs i : chain 1 Zs 1 -> 1 <= i -> i < length Zs ->
  exists Zs', orth_right K rq Zs i = Ok Zs' /\ step_ok Zs Zs' (i - 1) i /\
    rorth K (nth i Zs' dcore) /\
    cr1 (nth i Zs' dcore) = Nat.min (cr1 (nth i Zs dcore)) (cn (nth i Zs dcore) * cr2 (nth i Zs dcore)) /\
    cr2 (nth i Zs' dcore) = cr2 (nth i Zs dcore).
Proof.
  intros C H1 Hi. destruct (split_at Zs (i - 1)) as (Pre & G1 & G2 & Suf & -> & L); [lia|].
  assert (Ei : i = S (length Pre)) by lia. subst i.
  unfold orth_right. replace (S (length Pre) =? 0) with false by reflexivity. cbn [orb].
  destruct (Nat.ltb_spec (length (Pre ++ G1 :: G2 :: Suf) - 1) (S (length Pre))) as [H|_].
  { rewrite app_length in H. simpl in H. lia. }
  replace (S (length Pre) - 1) with (length Pre) by lia.
  rewrite nth_mid, nth_mid2.
  pose proof (rq_spec (S (length Pre)) (unfoldR K G2)) as QS.
  destruct (rq (S (length Pre)) (unfoldR K G2)) as [R Q]. cbn [fst snd] in QS.
  rewrite upd_mid2, upd_mid. eexists; split; [reflexivity|].
  assert (E0 : cr2 G1 = cr1 G2) by (eapply chain_mid_eq; eauto).
  pose proof (pair_eq_right K Rth G1 G2 R Q QS E0) as PE.
  rewrite !nth_mid2. split; [|split; [|split]].
  - constructor.
    + intros idx W. unfold Chain.get. f_equal. eapply run_pair_eq; eauto.
    + intros _. eapply chain_pair; eauto.
    + eapply shape_pair; eauto.
    + rewrite !app_length. reflexivity.
    + intros m Hm1 Hm2. apply nth_app_other; auto.
  - destruct QS as (q1 & q2 & q3 & q4 & q5 & q6). apply rorth_foldR; auto.
  - destruct QS as (q1 & q2 & q3 & q4 & q5 & q6). cbn [foldR cr1 mkcore]. rewrite q4. reflexivity.
  - reflexivity.
Qed.

(* bad mode numbers are rejected before any oracle call *)
Lemma orth_left_bad Zs i : length Zs - 1 <= i -> orth_left K qr Zs i = Err ValueError.
Proof. intros H. unfold orth_left. destruct (Nat.leb_spec (length Zs - 1) i); [reflexivity|lia]. Qed.
Lemma orth_right_bad Zs i : i = O \/ length Zs - 1 < i -> orth_right K rq Zs i = Err ValueError.
Proof.
  intros H. unfold orth_right. destruct H as [->|H]; [reflexivity|].
  destruct (Nat.ltb_spec (length Zs - 1) i); [now rewrite orb_true_r|lia].
Qed.
Lemma orthogonalize_bad Y k s : (k < 0)%Z \/ (Z.of_nat (length Y) - 1 < k)%Z ->
  orthogonalize K qr rq ilog2 Y (Some k) s = Err ValueError.
Proof.
  intros H. unfold orthogonalize. destruct H as [H|H].
  - destruct (Z.ltb_spec k 0); [reflexivity|lia].
  - destruct (Z.ltb_spec (Z.of_nat (length Y) - 1) k); [now rewrite orb_true_r|lia].
Qed.

(* ---------- the sweeps, use_stab = false ---------- *)
Definition same_tensor (Y Zs : list (core T)) : Prop :=
  (forall idx, wf 1 Y idx -> get Zs idx = get Y idx) /\ chain 1 Zs 1 /\ shape Zs = shape Y /\ length Zs = length Y.
Lemma wf_shape (Y Zs : list (core T)) idx : chain 1 Zs 1 -> shape Zs = shape Y -> wf 1 Y idx -> wf 1 Zs idx.
Proof.
  intros C S W. apply wf_wfo, wfo_chain_inb in W. destruct W as [_ I].
  apply wf_wfo, wfo_chain_inb. split; auto. now rewrite S.
Qed.

Lemma left_sweep_spec n : forall Zs i p, chain 1 Zs 1 -> i + n + 1 <= length Zs ->
  (forall m, m < i -> lorth K (nth m Zs dcore)) ->
  exists Zs', orth_left_sweep K qr ilog2 Zs p false i n = Ok (Zs', p) /\ same_tensor Zs Zs' /\
    (forall m, m < i + n -> lorth K (nth m Zs' dcore)) /\
    (forall m, i + n < m -> nth m Zs' dcore = nth m Zs dcore) /\
    (forall m, m < length Zs -> cr2 (nth m Zs' dcore) <= cr2 (nth m Zs dcore)).
Proof.
  induction n as [|n IH]; intros Zs i p C Hn HL.
  - exists Zs. cbn. repeat split; auto. intros m Hm. apply HL. lia.
  - cbn [orth_left_sweep]. destruct (orth_left_spec Zs i C) as (Z1 & E & SO & LO & R2 & R1); [lia|].
    rewrite E. destruct SO as [g c s l f].
    destruct (IH Z1 (S i) p (c C)) as (Z2 & E2 & (g2 & c2 & s2 & l2) & LO2 & F2 & RK2); [lia| |].
    { intros m Hm. destruct (Nat.eq_dec m i) as [->|Hne]; [exact LO|]. rewrite f by lia. apply HL. lia. }
    exists Z2. rewrite E2. split; [reflexivity|]. split; [|split; [|split]].
    + repeat split; try congruence. intros idx W. rewrite g2 by (eapply wf_shape; eauto). apply g; auto.
    + intros m Hm. apply LO2. lia.
    + intros m Hm. rewrite F2 by lia. apply f; lia.
    + intros m Hm. etransitivity; [apply RK2; lia|].
      destruct (Nat.eq_dec m i) as [->|Hne].
      * rewrite R2. apply Nat.le_min_r.
      * destruct (Nat.eq_dec m (S i)) as [->|Hne2]; [|rewrite f by auto; lia].
        (* core i+1 keeps its right rank *)
        clear - E C Hn qr_spec Rth. destruct (split_at Zs i) as (Pre & G1 & G2 & Suf & -> & L); [lia|]. subst i.
        unfold orth_left in E. destruct (Nat.leb_spec (length (Pre ++ G1 :: G2 :: Suf) - 1) (length Pre)); [discriminate|].
        rewrite nth_mid, nth_mid2 in E. destruct (qr (length Pre) (unfoldL K G1)) as [Q R].
        rewrite upd_mid, upd_mid2 in E. injection E as <-. rewrite !nth_mid2. cbn. lia.
Qed.

Lemma right_sweep_spec n : forall Zs i p, chain 1 Zs 1 -> n <= i -> i + 1 = length Zs \/ i + 1 < length Zs ->
  (forall m, i < m -> m < length Zs -> rorth K (nth m Zs dcore)) ->
  exists Zs', orth_right_sweep K rq ilog2 Zs p false i n = Ok (Zs', p) /\ same_tensor Zs Zs' /\
    (forall m, i - n < m -> m < length Zs -> rorth K (nth m Zs' dcore)) /\
    (forall m, m + 1 < i - n + 1 -> nth m Zs' dcore = nth m Zs dcore) /\
    (forall m, cr1 (nth m Zs' dcore) <= cr1 (nth m Zs dcore)).
Proof.
  induction n as [|n IH]; intros Zs i p C Hn Hi HR.
  - exists Zs. cbn. repeat split; auto. intros m Hm Hl. apply HR; lia.
  - cbn [orth_right_sweep]. destruct (orth_right_spec Zs i C) as (Z1 & E & SO & RO & R1 & R2); [lia|lia|].
    rewrite E. destruct SO as [g c s l f].
    destruct (IH Z1 (i - 1) p (c C)) as (Z2 & E2 & (g2 & c2 & s2 & l2) & RO2 & F2 & RK2); [lia|lia| |].
    { intros m Hm Hl. destruct (Nat.eq_dec m i) as [->|Hne]; [exact RO|]. rewrite f by lia. apply HR; lia. }
    exists Z2. rewrite E2. split; [reflexivity|]. split; [|split; [|split]].
    + repeat split; try congruence. intros idx W. rewrite g2 by (eapply wf_shape; eauto). apply g; auto.
    + intros m Hm Hl. apply RO2; lia.
    + intros m Hm. rewrite F2 by lia. apply f; lia.
    + intros m. etransitivity; [apply RK2|].
      destruct (Nat.eq_dec m i) as [->|Hne].
      * rewrite R1. apply Nat.le_min_l.
      * destruct (Nat.eq_dec m (i - 1)) as [->|Hne2]; [|rewrite f by auto; lia].
        clear - E C Hn Hi rq_spec Rth. destruct (split_at Zs (i - 1)) as (Pre & G1 & G2 & Suf & -> & L); [lia|].
        assert (Ei : i = S (length Pre)) by lia. subst i.
        unfold orth_right in E. replace (S (length Pre) =? 0) with false in E by reflexivity. cbn [orb] in E.
        destruct (Nat.ltb_spec (length (Pre ++ G1 :: G2 :: Suf) - 1) (S (length Pre))); [discriminate|].
        replace (S (length Pre) - 1) with (length Pre) in * by lia.
        rewrite nth_mid, nth_mid2 in E. destruct (rq (S (length Pre)) (unfoldR K G2)) as [R Q].
        rewrite upd_mid2, upd_mid in E. injection E as <-. rewrite !nth_mid. cbn. lia.
Qed.

(* orthogonalize(Y, k) without stabilisation, every pivot 0 <= k <= d-1, every d >= 1 *)
Theorem orthogonalize_spec Y k : chain 1 Y 1 -> k < length Y ->
  exists Zs, orthogonalize K qr rq ilog2 Y (Some (Z.of_nat k)) false = Ok (Zs, 0%Z) /\
    same_tensor Y Zs /\
    (forall m, m < k -> lorth K (nth m Zs dcore)) /\
    (forall m, k < m -> m < length Y -> rorth K (nth m Zs dcore)) /\
    (forall m, m < length Y -> cr2 (nth m Zs dcore) <= cr2 (nth m Y dcore) /\ cr1 (nth m Zs dcore) <= cr1 (nth m Y dcore)).
Proof.
  intros C Hk. unfold orthogonalize.
  destruct (Z.ltb_spec (Z.of_nat k) 0); [lia|]. destruct (Z.ltb_spec (Z.of_nat (length Y) - 1) (Z.of_nat k)); [lia|].
  cbn [orb]. rewrite Nat2Z.id.
  destruct (left_sweep_spec k Y O 0%Z C) as (Z1 & E1 & (g1 & c1 & s1 & l1) & LO1 & F1 & RK1); [lia|intros; lia|].
  rewrite E1.
  destruct (right_sweep_spec (length Y - 1 - k) Z1 (length Y - 1) 0%Z c1) as (Z2 & E2 & (g2 & c2 & s2 & l2) & RO2 & F2 & RK2);
    [lia|left; lia|intros; lia|].
  exists Z2. split; [exact E2|]. split; [|split; [|split]].
  - repeat split; try congruence. intros idx W. rewrite g2 by (eapply wf_shape; eauto). apply g1; auto.
  - intros m Hm. rewrite F2 by lia. apply LO1. lia.
  - intros m Hm Hl. apply RO2; lia.
  - intros m Hm. split.
    + destruct (Nat.lt_ge_cases m k) as [Hlt|Hge].
      * rewrite F2 by lia. apply RK1; auto.
      * (* right of the pivot the right rank of core m is the left rank of core m+1 *)
        assert (A : forall (Ws : list (core T)) j r, chain r Ws 1 -> j + 1 < length Ws -> cr2 (nth j Ws dcore) = cr1 (nth (S j) Ws dcore)).
        { clear. intros Ws. induction Ws as [|G Ws IH]; intros j r Cw Hj; [simpl in Hj; lia|].
          destruct j as [|j]; cbn [chain] in Cw; destruct Cw as [_ Cw].
          - destruct Ws; [simpl in Hj; lia|]. cbn in *. destruct Cw; auto.
          - cbn [nth]. eapply IH; eauto. simpl in Hj; lia. }
        assert (B : forall (Ws : list (core T)) r, chain r Ws 1 -> Ws <> [] -> cr2 (nth (length Ws - 1) Ws dcore) = 1%nat).
        { clear. intros Ws. induction Ws as [|G Ws IH]; intros r Cw Hne; [contradiction|].
          cbn [chain] in Cw. destruct Cw as [_ Cw]. destruct Ws as [|G' Ws]; [cbn in *; auto|].
          replace (length (G :: G' :: Ws) - 1) with (S (length (G' :: Ws) - 1)) by (simpl; lia).
          cbn [nth]. eapply IH; eauto. discriminate. }
        destruct (Nat.eq_dec (m + 1) (length Y)) as [El|Nl].
        -- replace m with (length Z2 - 1) at 1 by lia. rewrite (B Z2 1%nat c2) by (destruct Z2; simpl in *; [lia|discriminate]).
           replace m with (length Y - 1) by lia. rewrite (B Y 1%nat C) by (destruct Y; simpl in *; [lia|discriminate]). lia.
        -- rewrite (A Z2 m 1%nat c2) by lia. rewrite (A Y m 1%nat C) by lia.
           etransitivity; [apply RK2|]. rewrite F1 by lia. lia.
    + etransitivity; [apply RK2|]. destruct m as [|m].
      * (* first core: left rank stays 1 *)
        destruct Z1 as [|G1 ?]; destruct Y as [|G0 ?]; simpl in *; try lia; destruct c1, C; lia.
      * assert (A : forall (Ws : list (core T)) j r, chain r Ws 1 -> j + 1 < length Ws -> cr2 (nth j Ws dcore) = cr1 (nth (S j) Ws dcore)).
        { clear. intros Ws. induction Ws as [|G Ws IH]; intros j r Cw Hj; [simpl in Hj; lia|].
          destruct j as [|j]; cbn [chain] in Cw; destruct Cw as [_ Cw].
          - destruct Ws; [simpl in Hj; lia|]. cbn in *. destruct Cw; auto.
          - cbn [nth]. eapply IH; eauto. simpl in Hj; lia. }
        rewrite <- (A Z1 m 1%nat c1) by lia. rewrite <- (A Y m 1%nat C) by lia. apply RK1. lia.
Qed.
End TransformationP2.
