(* C15, functional variant, analysis part (reals): the Horner polynomial is differentiable with derivative the polynomial
   of np.polyder; the maximum of |p| over [-1, 1] is attained at an end point or at a real root of the derivative; hence,
   when polyroots returns every real root in [-1, 1], at one of the candidate points of _find_poly_max. *)
From Coq Require Import List Arith Lia PeanoNat ZArith Bool Reals Lra Psatz Ranalysis Classical_Prop.
From TV Require Import Num.Ops Lin.Tab Lin.BigSum Model.OptimaFunc Proofs.OptimaRP Proofs.OptimaFuncP.
Import ListNotations.
Local Open Scope R_scope.

Notation pv := (polyval OR).

Lemma pv_cons c p x : pv (c :: p) x = c + x * pv p x. Proof. reflexivity. Qed.
Lemma pv_nil x : pv [] x = 0. Proof. reflexivity. Qed.
Lemma pv_bsum p x : pv p x = bsum OR (length p) (fun j => nth j p 0 * x ^ j).
Proof.
  induction p as [|c p IH]; [reflexivity|]. rewrite pv_cons, IH. cbn [length]. rewrite (bsum_S_l OR OR_rng).
  cbn [nth pow]. rewrite <- (bsum_mul_l OR OR_rng). cbn [oadd omul OR]. f_equal; [ring|].
  apply (bsum_ext OR). intros j _. cbn [omul OR]. ring.
Qed.

Lemma derivable_pt_lim_ext' (f g : R -> R) x l : (forall y, f y = g y) -> derivable_pt_lim f x l -> derivable_pt_lim g x l.
Proof.
  intros E H eps He. destruct (H eps He) as [d Hd]. exists d. intros h Hh Hh2. rewrite <- !E. apply Hd; auto.
Qed.
Lemma bsum_deriv n (a : nat -> R) x :
  derivable_pt_lim (fun y => bsum OR n (fun j => a j * y ^ j)) x (bsum OR n (fun j => a j * (INR j * x ^ pred j))).
Proof.
  induction n as [|n IH]; cbn [bsum].
  - apply (derivable_pt_lim_const 0).
  - pose proof (derivable_pt_lim_scal _ (a n) x _ (derivable_pt_lim_pow x n)) as H1.
    pose proof (derivable_pt_lim_plus _ _ x _ _ IH H1) as H. unfold plus_fct, mult_real_fct in H. exact H.
Qed.
(* d/dx of the Horner polynomial = Horner polynomial of np.polyder *)
Lemma pv_deriv p x : derivable_pt_lim (pv p) x (pv (polyder OR p) x).
Proof.
  apply (derivable_pt_lim_ext' (fun y => bsum OR (length p) (fun j => nth j p 0 * y ^ j))).
  - intros y. symmetry. apply pv_bsum.
  - replace (pv (polyder OR p) x) with (bsum OR (length p) (fun j => nth j p 0 * (INR j * x ^ pred j))); [apply bsum_deriv|].
    rewrite pv_bsum. unfold polyder. rewrite tab_length. destruct (length p) as [|m] eqn:L; [reflexivity|].
    replace (S m - 1)%nat with m by lia. rewrite (bsum_S_l OR OR_rng). cbn [oadd OR].
    change (INR 0) with 0. rewrite Rmult_0_l, Rmult_0_r, Rplus_0_l.
    apply (bsum_ext OR). intros j Hj. rewrite nth_tab by exact Hj.
    cbn [omul oofZ o0 OR Init.Nat.pred]. rewrite <- INR_IZR_INZ. ring.
Qed.
Definition pv_derivable p x : derivable_pt (pv p) x := exist _ (pv (polyder OR p) x) (pv_deriv p x).
Lemma pv_continuous p x : continuity_pt (pv p) x.
Proof. apply derivable_continuous_pt. apply pv_derivable. Qed.

(* the maximum of |p| over [-1, 1] is attained on any list that holds both end points and every interior critical point *)
Lemma poly_absmax p (C : list R) : In (-1) C -> In 1 C ->
  (forall x, -1 < x < 1 -> pv (polyder OR p) x = 0 -> In x C) ->
  forall z, in11 z -> exists c, In c C /\ Rabs (pv p z) <= Rabs (pv p c).
Proof.
  intros Hm Hp HC z Hz. assert (L : -1 <= 1) by lra.
  destruct (continuity_ab_maj (pv p) (-1) 1 L (fun c _ => pv_continuous p c)) as (Mx & HM & HMx).
  destruct (continuity_ab_min (pv p) (-1) 1 L (fun c _ => pv_continuous p c)) as (mx & Hmn & Hmx).
  assert (IM : In Mx C).
  { destruct (Req_dec Mx (-1)) as [->|N1]; [exact Hm|]. destruct (Req_dec Mx 1) as [->|N2]; [exact Hp|].
    apply HC; [lra|].
    assert (D : derive_pt (pv p) Mx (pv_derivable p Mx) = 0).
    { apply (deriv_maximum (pv p) (-1) 1 Mx (pv_derivable p Mx)); try lra. intros y Hy1 Hy2. apply HM. lra. }
    exact D. }
  assert (Im : In mx C).
  { destruct (Req_dec mx (-1)) as [->|N1]; [exact Hm|]. destruct (Req_dec mx 1) as [->|N2]; [exact Hp|].
    apply HC; [lra|].
    assert (D : derive_pt (pv p) mx (pv_derivable p mx) = 0).
    { apply (deriv_minimum (pv p) (-1) 1 mx (pv_derivable p mx)); try lra. intros y Hy1 Hy2. apply Hmn. lra. }
    exact D. }
  unfold in11 in Hz. pose proof (HM z Hz) as A. pose proof (Hmn z Hz) as B.
  destruct (Rle_dec 0 (pv p z)) as [P|N].
  - exists Mx. split; [exact IM|]. rewrite (Rabs_pos_eq _ P). pose proof (Rle_abs (pv p Mx)). lra.
  - exists mx. split; [exact Im|]. rewrite (Rabs_left (pv p z)) by lra. pose proof (Rle_abs (- pv p mx)) as Q.
    rewrite Rabs_Ropp in Q. lra.
Qed.
(* zero derivative everywhere: the polynomial is constant on [-1, 1] *)
Lemma poly_const p : (forall y, pv (polyder OR p) y = 0) -> forall z, in11 z -> pv p z = pv p (-1).
Proof.
  intros H0 z Hz.
  pose proof (null_derivative_loc (pv p) (-1) 1 (fun x _ => pv_derivable p x) (fun x _ => pv_continuous p x)) as N.
  assert (E : forall (x : R) (P : -1 < x < 1), derive_pt (pv p) x (pv_derivable p x) = 0) by (intros x _; apply H0).
  specialize (N E). apply N. exact Hz.
Qed.

(* contract of polyroots (+ the 1e-4 imaginary-part filter) on the polynomials of the domain Dom: for a polynomial that is not
   identically zero, every real root in [-1, 1] is returned (extra points are harmless: "Ok if we add unnecessary points") *)
Definition roots_ok_on (Dom : list R -> Prop) (roots : nat -> nat -> list R -> list R) : Prop :=
  forall s i dp x, Dom dp -> (exists y, pv dp y <> 0) -> in11 x -> pv dp x = 0 -> In x (roots s i dp).

Section Cands.
Variable Dom : list R -> Prop.
Variable roots : nat -> nat -> list R -> list R.
Hypothesis RO : roots_ok_on Dom roots.

Lemma cand_endpoints s i p : In (-1) (cand_points OR roots s i p) /\ In 1 (cand_points OR roots s i p).
Proof.
  unfold cand_points.
  set (x0 := filter (in_clip OR) (if Nat.eqb (length (polyder OR p)) 0 then [] else roots s i (polyder OR p))).
  set (x1 := if existsb (oeqb OR (m1 OR)) x0 then x0 else x0 ++ [m1 OR]).
  assert (A : In (-1) x1).
  { unfold x1. destruct (existsb (oeqb OR (m1 OR)) x0) eqn:E.
    - apply existsb_exists in E as (y & Hy & Ey). unfold m1 in Ey. cbn [oeqb oopp o1 OR] in Ey. unfold Reqb in Ey.
      destruct (Req_EM_T (- (1)) y) as [<-|]; [|discriminate]. replace (-1) with (- (1)) by lra. exact Hy.
    - apply in_or_app. right. left. unfold m1. cbn. lra. }
  destruct (existsb (oeqb OR (o1 OR)) x1) eqn:E.
  - split; [exact A|]. apply existsb_exists in E as (y & Hy & Ey). cbn [oeqb o1 OR] in Ey. unfold Reqb in Ey.
    destruct (Req_EM_T 1 y) as [<-|]; [exact Hy|discriminate].
  - split; apply in_or_app; [left; exact A|right; left; reflexivity].
Qed.
Lemma cand_critical s i p x : Dom (polyder OR p) -> (exists y, pv (polyder OR p) y <> 0) -> in11 x -> pv (polyder OR p) x = 0 ->
  In x (cand_points OR roots s i p).
Proof.
  intros HD NZ Hx H0. unfold cand_points.
  set (x0 := filter (in_clip OR) (if Nat.eqb (length (polyder OR p)) 0 then [] else roots s i (polyder OR p))).
  assert (A : In x x0).
  { unfold x0. apply filter_In. split.
    - destruct (Nat.eqb_spec (length (polyder OR p)) 0) as [E|_].
      + destruct NZ as [y Hy]. apply length_zero_iff_nil in E. rewrite E in Hy. cbn in Hy. lra.
      + apply RO; auto.
    - unfold in_clip, m1. cbn [oleb oopp o1 OR]. unfold in11 in Hx. apply andb_true_iff. split; apply Rleb_true; lra. }
  set (x1 := if existsb (oeqb OR (m1 OR)) x0 then x0 else x0 ++ [m1 OR]).
  assert (B : In x x1) by (unfold x1; destruct (existsb _ x0); [exact A|apply in_or_app; left; exact A]).
  destruct (existsb _ x1); [exact B|apply in_or_app; left; exact B].
Qed.
(* the candidate list of _find_poly_max carries a maximiser of |p| over [-1, 1] *)
Theorem cand_absmax s i p z : Dom (polyder OR p) -> in11 z -> exists c, In c (cand_points OR roots s i p) /\ Rabs (pv p z) <= Rabs (pv p c).
Proof.
  intros HD Hz. destruct (cand_endpoints s i p) as [Em Ep].
  destruct (classic (exists y, pv (polyder OR p) y <> 0)) as [NZ|Z].
  - apply poly_absmax; auto. intros x Hx H0. apply cand_critical; auto. unfold in11. lra.
  - exists (-1). split; [exact Em|]. rewrite (poly_const p); [lra| |exact Hz].
    intros y. destruct (Req_dec (pv (polyder OR p) y) 0) as [E|E]; [exact E|]. exfalso. apply Z. exists y. exact E.
Qed.
End Cands.
