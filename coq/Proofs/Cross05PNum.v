(* C05: the instantiated model Model/CrossNum.v realises the interpolation scheme of Proofs/Cross05PInterp.v, hence a
   left-to-right half sweep of the MODEL RUN reproduces a target that satisfies the spanning hypotheses. *)
From Coq Require Import List Arith Lia PeanoNat Bool Ring.
From TV Require Import Num.Ops Lin.Tab Lin.BigSum Lin.Mat TT.Chain Model.Cross Model.CrossNum
  Proofs.CrossIdx Proofs.CrossGeo Proofs.CrossP Proofs.Cross05P Proofs.Cross05PInterp.
Import ListNotations.

(* rows of an optional index set (None = one empty row) *)
Definition orl (o : option rows) : list row := match o with None => [[]] | Some l => l end.
Lemma rk_orl o : rk o = length (orl o).
Proof. destruct o; reflexivity. Qed.
Lemma orow_orl o a : orow o a = nth a (orl o) [].
Proof. destruct o; simpl; auto. destruct a as [|[|a]]; reflexivity. Qed.

Lemma upd_upd {A} (l : list A) i x y : upd (upd l i x) i y = upd l i y.
Proof. revert i; induction l; intros [|i]; simpl; auto. f_equal; auto. Qed.
Lemma firstn_upd_S {A} (l : list A) i x : i < length l -> firstn (S i) (upd l i x) = firstn i l ++ [x].
Proof.
  revert i; induction l as [|y l IH]; intros [|i] H; simpl in *; try lia; auto.
  f_equal. apply IH. lia.
Qed.
Lemma iterate_S_out {A} (g : A -> A) k x : iterate g (S k) x = g (iterate g k x).
Proof. revert x; induction k; intros x; simpl in *; auto. Qed.

Lemma Forall2_lt_snoc q' (l : list nat) i :
  i < length l -> Forall2 lt q' (firstn (S i) l) ->
  exists q j, q' = q ++ [j] /\ Forall2 lt q (firstn i l) /\ j < nth i l 0.
Proof.
  intros Hi H. rewrite (firstn_S_nth l i 0 Hi) in H.
  apply Forall2_app_inv_r in H as (q & t & H1 & H2 & ->).
  inversion H2 as [|j y t' l' Hj Ht']; subst. inversion Ht'; subst.
  exists q, j. auto.
Qed.

Section Num.
Context {T : Type} (K : ops T).
Notation "0" := (o0 K). Notation "1" := (o1 K).
Infix "+" := (oadd K). Infix "*" := (omul K).
Hypothesis Rth : rng K.
Add Ring RrC05n : Rth.

Variable qr : mat T -> mat T * mat T.
Variable mvI : mat T -> nat -> nat -> list nat.
Variable mvB : mat T -> list nat -> mat T.
Variable A : row -> T.

(* contracts of the external routines *)
Definition qr_ok_at (Z : mat T) : Prop :=
  mr (fst (qr Z)) = mr Z /\ mc (snd (qr Z)) = mc Z /\
  forall t c, (t < mr Z)%nat -> (c < mc Z)%nat ->
    mget K Z t c = bsum K (mc (fst (qr Z))) (fun k => mget K (fst (qr Z)) t k * mget K (snd (qr Z)) k c).
Definition mv_ok_at (Q : mat T) (dmin dmax : nat) : Prop :=
  let ind := mvI Q dmin dmax in
  Forall (fun t => (t < mr Q)%nat) ind /\
  forall t k, (t < mr Q)%nat -> (k < mc Q)%nat ->
    bsum K (length ind) (fun s => mget K (mvB Q ind) t s * mget K Q (nth s ind O) k) = mget K Q t k.
Definition qr_ok : Prop := forall Z, qr_ok_at Z.
Definition mv_ok : Prop := forall Q dmin dmax, mv_ok_at Q dmin dmax.

(* ---------- the evaluated batch, reshaped ---------- *)
Lemma Zval Ir Ic n a j c : (a < rk Ir)%nat -> (j < n)%nat -> (c < rk Ic)%nat ->
  cget K (pvalsN K (rk Ir) n (rk Ic) (map A (batch n Ir Ic))) a j c = A (orow Ir a ++ [j] ++ orow Ic c).
Proof.
  intros Ha Hj Hc. unfold pvalsN. rewrite cget_mk by auto.
  set (t := (a + rk Ir * (j + n * c))%nat).
  assert (Ht : (t < rk Ir * n * rk Ic)%nat).
  { unfold t. assert (H1 : (j + n * c < n * rk Ic)%nat) by nia. rewrite <- Nat.mul_assoc.
    generalize dependent (j + n * c)%nat. generalize (n * rk Ic)%nat. intros; nia. }
  rewrite (nth_indep _ 0 (A [])) by (rewrite map_length; unfold batch; rewrite tab_length; exact Ht).
  rewrite map_nth. unfold batch. rewrite nth_tab by exact Ht. f_equal.
  assert (E1 : (t mod rk Ir = a)%nat).
  { unfold t. rewrite Nat.mul_comm, Nat.mod_add by lia. apply Nat.mod_small; auto. }
  assert (E2 : (t / rk Ir = j + n * c)%nat).
  { unfold t. rewrite Nat.mul_comm, Nat.div_add by lia. rewrite Nat.div_small by auto. reflexivity. }
  assert (E3 : (t / (rk Ir * n) = c)%nat).
  { rewrite <- Nat.div_div by lia. rewrite E2. rewrite (Nat.mul_comm n c), Nat.div_add by lia.
    rewrite Nat.div_small by auto. reflexivity. }
  rewrite E1, E2, E3. f_equal. f_equal. f_equal.
  rewrite (Nat.mul_comm n c), Nat.mod_add by lia. apply Nat.mod_small; auto.
Qed.

Section Iter.
Variables (Ir Ic : option rows) (n : nat).
Notation r1 := (rk Ir). Notation r2 := (rk Ic).
Notation L := (orl Ir). Notation cols := (orl Ic).
Notation p := (pvalsN K r1 n r2 (map A (batch n Ir Ic))).
Notation Zm := (unfoldZ K true r1 n r2 p).

Lemma ZmA t c : (t < r1 * n)%nat -> (c < r2)%nat -> mget K Zm t c = A (cand L t ++ nth c cols []).
Proof.
  intros Ht Hc. unfold unfoldZ. rewrite mget_mk by auto.
  assert (r1 <> 0)%nat by nia.
  rewrite Zval; auto.
  - unfold cand. rewrite <- rk_orl, !orow_orl. rewrite <- app_assoc. reflexivity.
  - apply Nat.mod_upper_bound; auto.
  - apply Nat.div_lt_upper_bound; auto.
Qed.

Variables (k : nat) (dmin dmax : nat).
Notation Zc := (mkc r1 n r2 p).
Notation ind := (maxvol_w (pickN K qr mvI) k true Zc dmin dmax).
Notation Bm := (Bof K qr mvB true r1 n r2 p ind).

(* what _iter computes at a left-to-right position is one position of the interpolation scheme *)
Lemma iter_ltr_realises :
  qr_ok_at Zm -> mv_ok_at (fst (qr Zm)) dmin dmax ->
  Forall (fun t => (t < length L * n)%nat) ind /\
  samp_ok K A L n ind (fun t s => mget K Bm t s) cols /\
  (forall b c, (b < length ind)%nat -> (c < r2)%nat ->
     mget K (mmul K (mrows K (fst (qr Zm)) ind) (snd (qr Zm))) b c = A (cand L (nth b ind O) ++ nth c cols [])).
Proof.
  intros Hqr Hmv. rewrite <- !rk_orl.
  destruct Hqr as (Q1 & Q2 & Q3).
  change (mr Zm) with (r1 * n)%nat in Q1, Q3. change (mc Zm) with r2 in Q2, Q3.
  assert (Hind : Forall (fun t => (t < r1 * n)%nat) ind).
  { unfold maxvol_w; cbn [c1 cnn c2 cp]. destruct (Nat.leb_spec (r1 * n) (Nat.min (r1 * n) r2)).
    - apply Forall_forall. intros t Ht. apply in_seq in Ht. lia.
    - unfold pickN. destruct Hmv as (M1 & _). rewrite Q1 in M1. exact M1. }
  split; [exact Hind|]. split.
  - (* B Z[ind] = Z on the sampled columns *)
    intros t c Ht Hc. rewrite <- !rk_orl in *.
    rewrite <- !ZmA by (auto; rewrite Forall_forall in Hind; apply Hind, nth_In; auto).
    rewrite (bsum_ext K _ _ (fun s => mget K Bm t s * mget K Zm (nth s ind O) c)).
    2:{ intros s Hs. rewrite ZmA; auto. rewrite Forall_forall in Hind. apply Hind, nth_In; auto. }
    unfold Bof, maxvol_w; cbn [c1 cnn c2 cp]. destruct (Nat.leb_spec (r1 * n) (Nat.min (r1 * n) r2)) as [Hle|Hlt].
    + rewrite seq_length. rewrite (bsum_single K Rth (r1 * n) t); auto.
      * rewrite mget_mid, Nat.eqb_refl, seq_nth by auto. cbn [Nat.add]. ring.
      * intros s Hs Hne. rewrite mget_mid by auto. destruct (Nat.eqb_spec t s); [congruence|ring].
    + unfold pickN. destruct Hmv as (M1 & M2). rewrite Q1 in M1, M2.
      apply (core_interp K Rth (r1 * n) (mc (fst (qr Zm))) r2 _
               (fun t k => mget K (fst (qr Zm)) t k) (fun k c => mget K (snd (qr Zm)) k c)); auto.
  - intros b c Hb Hc. rewrite mget_mmul by (cbn [mr mc mrows mkmat]; auto; rewrite Q2; auto).
    cbn [mc mrows mkmat].
    rewrite (bsum_ext K _ _ (fun kk => mget K (fst (qr Zm)) (nth b ind O) kk * mget K (snd (qr Zm)) kk c)).
    2:{ intros kk Hk. unfold mrows. rewrite mget_mk by auto. reflexivity. }
    assert (Hnb : (nth b ind O < r1 * n)%nat) by (rewrite Forall_forall in Hind; apply Hind, nth_In; auto).
    rewrite <- Q3 by auto. apply ZmA; auto.
Qed.
End Iter.

(* ---------- interpolation step with explicit hypotheses (cf. Cross05PInterp.interp_step) ---------- *)
Lemma interp_ext ns0 L v v' qpre :
  (forall a, (a < length L)%nat -> v a = v' a) -> interp K A ns0 L v qpre -> interp K A ns0 L v' qpre.
Proof.
  intros E H u Hu. rewrite <- (H u Hu). apply bsum_ext; intros a Ha. rewrite E by auto. reflexivity.
Qed.

Lemma interp_step' L n ind B cols ns' v qpre j :
  Forall (fun t => (t < length L * n)%nat) ind -> samp_ok K A L n ind B cols -> span_ok K A L n cols (okS ns') ->
  interp K A (n :: ns') L v qpre -> (j < n)%nat ->
  interp K A ns' (nextL L ind) (nextv K v (length L) B j) (qpre ++ [j]).
Proof.
  intros Hind Hs Hsp HI Hj u Hu.
  unfold nextL. rewrite map_length.
  rewrite (bsum_ext K (length ind) _
     (fun c => bsum K (length L) (fun a => v a * (B (a + length L * j)%nat c * A (cand L (nth c ind O) ++ u))))).
  2:{ intros c Hc. unfold nextv. rewrite <- (bsum_mul_r K Rth). apply bsum_ext; intros a Ha.
      rewrite (nth_indep _ [] (cand L O)) by (rewrite map_length; exact Hc). rewrite map_nth. ring. }
  rewrite (bsum_swap K Rth).
  rewrite <- app_assoc. cbn [app]. rewrite <- (HI (j :: u)).
  2:{ constructor; auto. }
  apply bsum_ext; intros a Ha. rewrite (bsum_mul_l K Rth). f_equal.
  rewrite (step_interp K Rth A L n ind B cols (okS ns') Hind Hs Hsp); auto.
  - rewrite cand_split by exact Ha. rewrite <- app_assoc. reflexivity.
  - nia.
Qed.

Lemma lvec_snoc (Y1 : list (@mcore (core T))) G q j v :
  length Y1 = length q ->
  lvec K (Y1 ++ [G]) (q ++ [j]) v = fun c => bsum K (c1 G) (fun a => lvec K Y1 q v a * cget K (cp G) a j c).
Proof.
  revert q v; induction Y1 as [|G1 Y1 IH]; intros [|j1 q] v H; simpl in H; try lia.
  - reflexivity.
  - cbn [app lvec]. apply IH. lia.
Qed.

(* ---------- the model run ---------- *)
Variable isinf : T -> bool.
Variable f : nat -> rows -> option (list T).
Variable cb : option (nat -> bool).
Variable erank : nat -> list (@mcore (core T)) -> T.
Variable accuracy : nat -> list (@mcore (core T)) -> list (@mcore (core T)) -> T.
Variable accdata : nat -> list (@mcore (core T)) -> T.
Variable C : @cfg T (core T).
(* the objective returns the target values; no evaluation budget *)
Hypothesis Hf : forall k I, f k I = Some (map A I).
Hypothesis Hm : m_max C = None.

Notation stepN := (step K isinf f cb (ponesN K) (pdotLN K) (pdotRN K) (pvalsN K) (pickN K qr mvI)
                        (pcoreGN K qr mvB) (pfacRN K qr) erank accuracy accdata C).
Definition nsN : list nat := map cnn (c_Y0 C).
Lemma nsN_length : length nsN = d C. Proof. unfold nsN, d. apply map_length. Qed.
Lemma nsN_nth i : nth i nsN O = shape_n (ponesN K) C i.
Proof. unfold nsN, shape_n. change O with (cnn (dflt (ponesN K))). apply map_nth. Qed.

Lemma func_m_plain c n Ir Ic : k_cache c = None ->
  func_m K f (pvalsN K) C c n Ir Ic =
  (mkcnt (k_m c + length (batch n Ir Ic)) (k_mc c) (k_stop c) None (S (k_nf c))
         (mkev (batch n Ir Ic) (batch n Ir Ic) (Called (Some (map A (batch n Ir Ic)))) :: k_log c),
   Some (mkc (rk Ir) n (rk Ic) (pvalsN K (rk Ir) n (rk Ic) (map A (batch n Ir Ic))))).
Proof.
  intros H. unfold func_m, func_eval. rewrite H. unfold over. rewrite Hm, Hf. reflexivity.
Qed.

(* state at position i of a left-to-right half sweep of the main loop that started in s0 *)
Definition LInv (s0 : @st T (core T)) (i : nat) (s : @st T (core T)) : Prop :=
  s_pc s = Run true true i /\ sIc s = sIc s0 /\ k_stop (sK s) = None /\ k_cache (sK s) = None /\
  length (sY s) = d C /\ length (sIr s) = S (d C) /\
  forall q, Forall2 lt q (firstn i nsN) ->
    interp K A (skipn i nsN) (orl (nth i (sIr s) None)) (lvec K (firstn i (sY s)) q (e0 K)) q.

(* the value matrix Z of position i (left index set of s, right index set of s0), unfolded *)
Definition Zm_of (s0 : @st T (core T)) (i : nat) (s : @st T (core T)) : mat T :=
  let Ir := nth i (sIr s) None in let Ic := nth (S i) (sIc s0) None in let n := nth i nsN O in
  unfoldZ K true (rk Ir) n (rk Ic) (pvalsN K (rk Ir) n (rk Ic) (map A (batch n Ir Ic))).
(* hypotheses at position i: the sampled columns span the unfolding (genericity), QR and maxvol meet their
   contracts on the matrices they are given there *)
Definition pos_ok (s0 : @st T (core T)) (i : nat) (s : @st T (core T)) : Prop :=
  span_ok K A (orl (nth i (sIr s) None)) (nth i nsN O) (orl (nth (S i) (sIc s0) None)) (okS (skipn (S i) nsN)) /\
  qr_ok_at (Zm_of s0 i s) /\ mv_ok_at (fst (qr (Zm_of s0 i s))) (c_drmin C) (c_drmax C).

Lemma ltr_step s0 i s : (i < d C)%nat -> LInv s0 i s -> pos_ok s0 i s ->
  ((S i < d C)%nat -> LInv s0 (S i) (stepN s)) /\
  (S i = d C -> nth (d C) (sIc s0) None = None ->
   forall q, Forall2 lt q nsN -> ttval K (sY (stepN s)) q = A q).
Proof.
  intros Hi (Hpc & HIc & Hst & Hca & HLY & HLr & HI) (Hsp & Hqr & Hmv). unfold Zm_of in Hqr, Hmv. cbv zeta in Hqr, Hmv.
  set (Ir := nth i (sIr s) None) in *. set (Ic := nth (S i) (sIc s0) None) in *.
  set (n := nth i nsN O) in *.
  unfold step. rewrite Hpc. cbv zeta. rewrite HIc. rewrite <- nsN_nth. fold n. fold Ir. fold Ic.
  rewrite (func_m_plain (sK s) n Ir Ic Hca). cbn [k_stop]. rewrite Hst.
  unfold adv_ltr. fold Ir. unfold iter_m. cbv zeta. cbn [c1 cnn c2 cp].
  set (p := pvalsN K (rk Ir) n (rk Ic) (map A (batch n Ir Ic))).
  set (ind := maxvol_w (pickN K qr mvI) (s_nmv s) true (mkc (rk Ir) n (rk Ic) p) (c_drmin C) (c_drmax C)).
  destruct (iter_ltr_realises Ir Ic n (s_nmv s) (c_drmin C) (c_drmax C) Hqr Hmv) as (Hind & Hsamp & Hfac).
  fold p in Hind, Hsamp, Hfac. fold ind in Hind, Hsamp, Hfac.
  set (Bm := Bof K qr mvB true (rk Ir) n (rk Ic) p ind) in *.
  assert (HnL : length nsN = d C) by apply nsN_length.
  assert (EI' : map (fun t => inew true (rk Ir) n (rk Ic) Ir t) ind = nextL (orl Ir) ind).
  { unfold nextL. apply map_ext. intros t. unfold inew, cand. rewrite orow_orl, <- rk_orl. reflexivity. }
  (* the interface after this position, for a prefix q ++ [j] *)
  assert (STEP : forall q j, Forall2 lt q (firstn i nsN) -> (j < n)%nat ->
     interp K A (skipn (S i) nsN) (nextL (orl Ir) ind)
       (fun c => bsum K (rk Ir) (fun a => lvec K (firstn i (sY s)) q (e0 K) a *
                                         cget K (pcoreGN K qr mvB true (rk Ir) n (rk Ic) p ind) a j c))
       (q ++ [j])).
  { intros q j Hq Hj.
    pose proof (HI q Hq) as HIq. rewrite (skipn_nth_S nsN i O) in HIq by lia. fold n in HIq.
    pose proof (interp_step' (orl Ir) n ind (fun t s0 => mget K Bm t s0) (orl Ic) (skipn (S i) nsN) _ q j
                  Hind Hsamp Hsp HIq Hj) as HN.
    eapply interp_ext; [|exact HN].
    intros c Hc. unfold nextL in Hc. rewrite map_length in Hc. unfold nextv. rewrite <- rk_orl.
    apply bsum_ext; intros a Ha. unfold pcoreGN. rewrite cget_mk by auto. reflexivity. }
  split.
  - (* next position of the same pass *)
    intros Hlt. destruct (Nat.ltb_spec (S i) (d C)) as [_|]; [|lia].
    unfold LInv; cbn [s_pc sIc sK sY sIr k_stop k_cache]. rewrite !upd_length.
    split; [reflexivity|]. split; [exact HIc|]. split; [reflexivity|]. split; [reflexivity|].
    split; [exact HLY|]. split; [exact HLr|].
    intros q' Hq'. apply (Forall2_lt_snoc q' nsN i) in Hq' as (q & j & -> & Hq & Hj); [|lia].
    rewrite nth_upd_eq by lia. cbn [orl]. rewrite EI'.
    rewrite firstn_upd_S by lia. rewrite lvec_snoc.
    2:{ rewrite firstn_length_le by lia. apply Forall2_lt_length in Hq. rewrite Hq, firstn_length_le; lia. }
    cbn [c1 cp]. apply STEP; auto.
  - (* last position: the pending factor is folded into the last core *)
    intros Hd HIcd q' Hq'. destruct (Nat.ltb_spec (S i) (d C)) as [|_]; [lia|].
    cbn [sY]. rewrite upd_upd.
    assert (Hq'' : Forall2 lt q' (firstn (S i) nsN)) by (rewrite Hd, <- HnL, firstn_all; exact Hq').
    apply (Forall2_lt_snoc q' nsN i) in Hq'' as (q & j & -> & Hq & Hj); [|lia].
    unfold ttval.
    assert (Hall : upd (sY s) i (dotR (pdotRN K)
                (mkc (rk Ir) n (length ind) (pcoreGN K qr mvB true (rk Ir) n (rk Ic) p ind))
                (mkfac (length ind) (rk Ic) (pfacRN K qr true (rk Ir) n (rk Ic) p ind)))
             = firstn (S i) (upd (sY s) i (dotR (pdotRN K)
                (mkc (rk Ir) n (length ind) (pcoreGN K qr mvB true (rk Ir) n (rk Ic) p ind))
                (mkfac (length ind) (rk Ic) (pfacRN K qr true (rk Ir) n (rk Ic) p ind))))).
    { symmetry. apply firstn_all2. rewrite upd_length. lia. }
    rewrite Hall. rewrite firstn_upd_S by lia.
    change (fun a : nat => if Nat.eqb 0 a then 1 else 0) with (e0 K).
    rewrite lvec_snoc.
    2:{ rewrite firstn_length_le by lia. apply Forall2_lt_length in Hq. rewrite Hq, firstn_length_le; lia. }
    cbn [c1 cp dotR f_p].
    assert (Ercd : rk Ic = 1%nat).
    { unfold Ic. rewrite Hd, HIcd. reflexivity. }
    pose proof (STEP q j Hq Hj) as HS. fold n in Hj.
    assert (Hnil : okS (skipn (S i) nsN) []).
    { rewrite Hd, <- HnL, skipn_all. constructor. }
    specialize (HS [] Hnil). rewrite app_nil_r in HS. rewrite <- HS.
    unfold nextL. rewrite map_length.
    (* expand the folded core *)
    rewrite (bsum_ext K (rk Ir) _ (fun a => bsum K (length ind) (fun b =>
        lvec K (firstn i (sY s)) q (e0 K) a *
        cget K (pcoreGN K qr mvB true (rk Ir) n (rk Ic) p ind) a j b *
        A (cand (orl Ir) (nth b ind O) ++ [])))).
    2:{ intros a Ha. unfold pdotRN at 1. rewrite cget_mk.
        - rewrite <- (bsum_mul_l K Rth). unfold pcoreGN at 1. cbn [cr2 mkcore]. apply bsum_ext; intros b Hb.
          unfold pfacRN at 1. rewrite cget_mk by (auto; lia).
          rewrite (Hfac b O Hb) by lia.
          replace (nth 0 (orl Ic) []) with (@nil nat).
          2:{ unfold Ic. rewrite Hd, HIcd. reflexivity. }
          ring.
        - unfold pcoreGN. cbn [cr1 mkcore]. exact Ha.
        - unfold pcoreGN. cbn [cn mkcore]. exact Hj.
        - unfold pfacRN. cbn [cr2 mkcore]. lia. }
    rewrite (bsum_swap K Rth). apply bsum_ext; intros b Hb.
    rewrite <- (bsum_mul_r K Rth). apply bsum_ext; intros a Ha.
    rewrite (nth_indep _ [] (cand (orl Ir) O)) by (rewrite map_length; exact Hb). rewrite map_nth. reflexivity.
Qed.

Lemma LInv_iter s0 :
  s_pc s0 = Run true true 0 -> k_stop (sK s0) = None -> k_cache (sK s0) = None ->
  length (sY s0) = d C -> length (sIr s0) = S (d C) -> nth 0 (sIr s0) None = None ->
  (forall i, (i < d C)%nat -> pos_ok s0 i (iterate stepN i s0)) ->
  forall i, (i < d C)%nat -> LInv s0 i (iterate stepN i s0).
Proof.
  intros Hpc Hst Hca HLY HLr HI0 Hsp. induction i as [|i IH]; intros Hi.
  - cbn [iterate]. unfold LInv. repeat (split; [auto|]).
    intros q Hq. cbn [firstn] in Hq. inversion Hq; subst. cbn [firstn skipn lvec]. rewrite HI0. cbn [orl].
    apply interp_init. exact Rth.
  - rewrite iterate_S_out. apply (ltr_step s0 i); [lia|apply IH; lia|apply Hsp; lia|exact Hi].
Qed.

(* one left-to-right half sweep of the main loop, started in any state s0 at the head of a sweep: if at every
   position the sampled columns (right index set of s0) span the unfolding of the target restricted to the
   candidate rows of the current left index set, the tensor held after the d steps is the target, entry by entry *)
Theorem cross_exact_ltr s0 :
  (1 <= d C)%nat -> s_pc s0 = Run true true 0 -> k_stop (sK s0) = None -> k_cache (sK s0) = None ->
  length (sY s0) = d C -> length (sIr s0) = S (d C) ->
  nth 0 (sIr s0) None = None -> nth (d C) (sIc s0) None = None ->
  (forall i, (i < d C)%nat -> pos_ok s0 i (iterate stepN i s0)) ->
  forall q, Forall2 lt q nsN -> ttval K (sY (iterate stepN (d C) s0)) q = A q.
Proof.
  intros Hd Hpc Hst Hca HLY HLr HI0 HIcd Hsp q Hq.
  destruct (d C) as [|i] eqn:Ed; [lia|].
  rewrite iterate_S_out.
  assert (HL : LInv s0 i (iterate stepN i s0)).
  { rewrite <- Ed in *. apply LInv_iter; auto. lia. }
  rewrite <- Ed in *.
  destruct (ltr_step s0 i (iterate stepN i s0)) as (_ & Hfin); [lia|exact HL|apply Hsp; lia|].
  apply Hfin; auto.
Qed.

Notation runN := (run K isinf f cb (ponesN K) (pdotLN K) (pdotRN K) (pvalsN K) (pickN K qr mvI)
                      (pcoreGN K qr mvB) (pfacRN K qr) erank accuracy accdata C).

(* the same for the model run itself: s0 = the state the driver is in after the pre-iteration and [fuel] complete
   sweeps (run without cache and without budget on an objective returning the target values) *)
Theorem cross_exact_run fuel :
  Y0_ok (ponesN K) C -> pick_ok (pickN K qr mvI) -> c_cache C = None ->
  s_pc (runN fuel) = Run true true 0 -> k_stop (sK (runN fuel)) = None ->
  qr_ok -> mv_ok ->
  (forall i, (i < d C)%nat ->
     span_ok K A (orl (nth i (sIr (iterate stepN i (runN fuel))) None)) (nth i nsN O)
             (orl (nth (S i) (sIc (runN fuel)) None)) (okS (skipn (S i) nsN))) ->
  forall q, Forall2 lt q nsN -> ttval K (sY (iterate stepN (d C) (runN fuel))) q = A q.
Proof.
  intros HY Hp Hc Hpc Hst Hqr Hmv Hsp q Hq.
  assert (G : Geo (ponesN K) C (runN fuel)).
  { rewrite run_as_steps. apply iterate_inv.
    - apply (geo_step K isinf f cb (ponesN K) (pdotLN K) (pdotRN K) (pvalsN K) (pickN K qr mvI)
               (pcoreGN K qr mvB) (pfacRN K qr) erank accuracy accdata C HY Hp).
    - apply (geo_init K (ponesN K) erank C HY). }
  destruct G as (HLY & HLr & _ & _ & G). rewrite Hpc in G. destruct G as (_ & (X0 & Xd & _) & _).
  pose proof (CInv_run K isinf cb (ponesN K) (pdotLN K) (pdotRN K) (pvalsN K) (pickN K qr mvI)
                (pcoreGN K qr mvB) (pfacRN K qr) erank accuracy accdata f C fuel) as HC.
  unfold CInv in HC. rewrite Hc in HC.
  destruct HY as (Hd & _).
  apply cross_exact_ltr; auto.
  intros i Hi. split; [apply Hsp; exact Hi|]. split; [apply Hqr|apply Hmv].
Qed.
End Num.
