(* C12, d variables: func_sum / func_sum_full return the ITERATED integral over the box of the interpolated polynomial.
   is_int f a b v   : v is the (Newton) integral of f over [a, b]: F(b) - F(a) for an antiderivative F of f on R;
   is_iint a b f v  : v is the iterated integral  int_{a1}^{b1} ( int_{a2}^{b2} ( ... f(x1, x2, ...) ... ) dx2 ) dx1,
                      defined by recursion over the variables (innermost variables first).  Both are single-valued. *)
From Coq Require Import List Arith Lia PeanoNat ZArith Bool Reals Lra Psatz.
From TV Require Import Num.Ops Lin.Tab Lin.BigSum Lin.Mat TT.Chain Model.Func Model.FuncFull
  Proofs.FuncP Proofs.FuncFullP Proofs.FuncTrigP Proofs.FuncExactP Proofs.FuncWeightsP Proofs.FuncInt1P.
Import ListNotations.
Local Open Scope R_scope.

Definition is_int (f : R -> R) (a b v : R) : Prop :=
  exists F : R -> R, (forall x, derivable_pt_lim F x (f x)) /\ F b - F a = v.
Fixpoint is_iint (a b : list R) (f : list R -> R) (v : R) : Prop :=
  match a, b with
  | [], [] => v = f []
  | ak :: a', bk :: b' =>
      exists g : R -> R, (forall x, is_iint a' b' (fun xs => f (x :: xs)) (g x)) /\ is_int g ak bk v
  | _, _ => False
  end.

Lemma is_int_ext f g a b v : (forall x, f x = g x) -> is_int f a b v -> is_int g a b v.
Proof. intros E (F & H1 & H2). exists F. split; auto. intros x. rewrite <- E. apply H1. Qed.
Lemma is_int_lin f g a b s v w : is_int f a b v -> is_int g a b w -> is_int (fun x => s * f x + g x) a b (s * v + w).
Proof.
  intros (F & F1 & F2) (G & G1 & G2). exists (mult_real_fct s F + G)%F. split.
  - intros x. apply derivable_pt_lim_plus; [apply derivable_pt_lim_scal; apply F1 | apply G1].
  - unfold plus_fct, mult_real_fct. rewrite <- F2, <- G2. ring.
Qed.
Lemma is_int_zero a b : is_int (fun _ => 0) a b 0.
Proof. exists (fct_cte 0). split; [intros; apply derivable_pt_lim_const | unfold fct_cte; ring]. Qed.
Lemma is_int_unique f a b v w : a <= b -> is_int f a b v -> is_int f a b w -> v = w.
Proof.
  intros Hab (F & F1 & F2) (G & G1 & G2).
  assert (AF : antiderivative f F a b).
  { split; auto. intros x _. exists (exist _ (f x) (F1 x)). reflexivity. }
  assert (AG : antiderivative f G a b).
  { split; auto. intros x _. exists (exist _ (f x) (G1 x)). reflexivity. }
  destruct (antiderivative_Ucte f F G a b AF AG) as (c & Hc).
  rewrite <- F2, <- G2, (Hc a), (Hc b) by lra. ring.
Qed.

Lemma is_iint_ext : forall a b f f' v, (forall xs, f xs = f' xs) -> is_iint a b f v -> is_iint a b f' v.
Proof.
  induction a as [|ak a IH]; intros [|bk b] f f' v E H; cbn [is_iint] in *; try contradiction.
  - now rewrite <- E.
  - destruct H as (g & H1 & H2). exists g. split; auto. intros x. apply (IH b (fun xs => f (x :: xs))); auto.
Qed.
Lemma is_iint_val a b f v w : v = w -> is_iint a b f v -> is_iint a b f w.
Proof. intros ->. auto. Qed.
Lemma is_iint_lin : forall a b f g s v w, is_iint a b f v -> is_iint a b g w ->
  is_iint a b (fun xs => s * f xs + g xs) (s * v + w).
Proof.
  induction a as [|ak a IH]; intros [|bk b] f g s v w Hf Hg; cbn [is_iint] in *; try contradiction.
  - now rewrite Hf, Hg.
  - destruct Hf as (g1 & A1 & A2). destruct Hg as (g2 & B1 & B2). exists (fun x => s * g1 x + g2 x). split.
    + intros x. apply (IH b (fun xs => f (x :: xs)) (fun xs => g (x :: xs))); auto.
    + now apply is_int_lin.
Qed.
Lemma is_iint_zero : forall a b, length a = length b -> is_iint a b (fun _ => 0) 0.
Proof.
  induction a as [|ak a IH]; intros [|bk b] L; cbn [length] in L; try discriminate; cbn [is_iint]; auto.
  exists (fun _ => 0). split; [intros; apply IH; lia | apply is_int_zero].
Qed.
Lemma is_iint_rsum a b n (s v : nat -> R) (f : nat -> list R -> R) : length a = length b ->
  (forall j, (j < n)%nat -> is_iint a b (f j) (v j)) ->
  is_iint a b (fun xs => rsum n (fun j => s j * f j xs)) (rsum n (fun j => s j * v j)).
Proof.
  intros L. induction n as [|n IH]; intros H.
  - cbn [bsum]. now apply is_iint_zero.
  - apply (is_iint_ext a b (fun xs => s n * f n xs + rsum n (fun j => s j * f j xs))).
    { intros xs. rewrite rsum_S. ring. }
    apply (is_iint_val a b _ (s n * v n + rsum n (fun j => s j * v j))); [rewrite rsum_S; ring|].
    apply is_iint_lin; [apply H; lia | apply IH; intros; apply H; lia].
Qed.
Lemma is_iint_unique : forall a b f v w, Forall2 Rle a b -> is_iint a b f v -> is_iint a b f w -> v = w.
Proof.
  induction a as [|ak a IH]; intros [|bk b] f v w HF Hv Hw; cbn [is_iint] in *; try contradiction.
  - congruence.
  - inversion HF; subst. destruct Hv as (g1 & A1 & A2). destruct Hw as (g2 & B1 & B2).
    assert (E : forall x, g1 x = g2 x) by (intros x; eapply IH; eauto).
    apply (is_int_unique g2 ak bk); auto. now apply (is_int_ext g1).
Qed.

(* ---------------------------------------------------------------- the iterated integral of the tensor-product polynomial *)
Lemma cpoly_cons n ns c ak a bk b x xs :
  cpoly (n :: ns) c (ak :: a) (bk :: b) (x :: xs) =
  rsum n (fun j => chebT OR (aff x ak bk) j * cpoly ns (fun m => c (j :: m)) a b xs).
Proof.
  unfold cpoly, polyv. cbn [affs msum]. apply rsum_ext; intros j Hj.
  change (chebT OR (aff x ak bk) j * msum OR ns (fun m => omul OR (c (j :: m)) (tprod OR (affs xs a b) m)))
    with (omul OR (chebT OR (aff x ak bk) j) (msum OR ns (fun m => omul OR (c (j :: m)) (tprod OR (affs xs a b) m)))).
  rewrite <- (msum_mul_l OR OR_rng). apply (msum_ext OR); intros m Hm. cbn [tprod]. ror. ring.
Qed.
Theorem iint_cpoly : forall ns a b c, Forall2 Rlt a b -> length a = length ns ->
  is_iint a b (cpoly ns c a b) (vol OR a b * msum OR ns (fun m => wsprod OR Cheb m * c m)).
Proof.
  induction ns as [|n ns IH]; intros [|ak a] [|bk b] c HF L; cbn [length] in L; try discriminate; try (inversion HF; fail).
  - cbn [is_iint vol msum wsprod]. unfold cpoly, polyv. cbn [affs msum tprod]. ror. ring.
  - inversion HF as [|? ? ? ? Hab HF']; subst. cbn [is_iint].
    assert (Lab : length a = length b) by (clear - HF'; induction HF'; cbn [length]; auto).
    set (V := fun j => vol OR a b * msum OR ns (fun m => wsprod OR Cheb m * c (j :: m))).
    exists (fun x => rsum n (fun k => V k * chebT OR (aff x ak bk) k)). split.
    + intros x.
      apply (is_iint_ext a b (fun xs => rsum n (fun j => chebT OR (aff x ak bk) j * cpoly ns (fun m => c (j :: m)) a b xs))).
      { intros xs. symmetry. apply cpoly_cons. }
      apply (is_iint_val a b _ (rsum n (fun j => chebT OR (aff x ak bk) j * V j))); [apply rsum_ext; intros; ring|].
      apply is_iint_rsum; auto. intros j Hj. apply IH; auto; lia.
    + destruct (cheb_series_integral ak bk V Hab n) as (F & F1 & F2). exists F. split; [exact F1|]. rewrite F2.
      cbn [vol msum]. ror. unfold ftwo. ror. replace (1 + 1) with 2 by ring.
      transitivity ((bk - ak) / 2 * vol OR a b * rsum n (fun k => msum OR ns (fun m => wsum OR Cheb k * wsprod OR Cheb m * c (k :: m)))); [|reflexivity].
      rewrite Rmult_assoc. f_equal. rewrite <- rsum_scal. apply rsum_ext; intros k Hk. unfold V.
      transitivity (vol OR a b * (wsum OR Cheb k * msum OR ns (fun m => wsprod OR Cheb m * c (k :: m)))); [ring|]. f_equal.
      change (wsum OR Cheb k * msum OR ns (fun m => wsprod OR Cheb m * c (k :: m)))
        with (omul OR (wsum OR Cheb k) (msum OR ns (fun m => omul OR (wsprod OR Cheb m) (c (k :: m))))).
      rewrite <- (msum_mul_l OR OR_rng). apply (msum_ext OR); intros m Hm. ror. ring.
Qed.

(* TT format, any d, any box a_k < b_k: func_sum is the iterated integral of the polynomial with coefficient tensor A *)
Theorem sum_exact A a b : chain 1 A 1 -> length a = length A -> length b = length A -> Forall2 Rlt a b ->
  is_iint a b (cpoly (shape A) (get OR A) a b) (func_sum OR A a b Cheb).
Proof.
  intros HC La Lb Hab. rewrite (func_sum_msum OR OR_rng) by auto. apply iint_cpoly; auto.
  unfold shape. rewrite map_length. exact La.
Qed.
(* dense format, any d, symmetric box [-b_k, b_k], b_k > 0 *)
Theorem sum_full_exact tol16 ns A b : 0 <= tol16 -> length b = length ns -> Forall (fun bk => 0 < bk) b ->
  exists v, func_sum_full OR tol16 ns A (map Ropp b) b = Ok v /\
            is_iint (map Ropp b) b (cpoly ns (tget OR A) (map Ropp b) b) v.
Proof.
  intros Ht Lb Hb. eexists. split; [apply sum_full_accepts_symmetric; auto|]. apply iint_cpoly.
  - clear Lb. induction Hb; cbn [map]; constructor; auto. lra.
  - now rewrite map_length.
Qed.
