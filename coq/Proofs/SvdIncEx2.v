(* C20: non-vacuity, second instance ("generic").  Shape 3 x 2 x 3, expected rank m = 3, cap 2, target of TT-rank 2 with
   generic integer cores; generator: choice = the LAST indices, shuffle = reversal; the skeleton reduction is used at
   mode 0 AND at the inner mode 1 (3 sampled suffixes > cap 2), on blocks of rank 2 with a vanishing third singular value;
   lstsq solves the 3 x 2 (overdetermined, consistent) systems of the run through the normal equations.
   Every hypothesis of [incomplete_exact_run] holds, and the conclusion is confirmed by computation on all 18 entries. *)
From Coq Require Import List Arith Lia PeanoNat ZArith QArith Qcanon Bool.
From TV Require Import Num.Ops Lin.Tab Lin.BigSum Lin.Mat TT.Chain Model.Transformation Model.Svd Model.Sample
  Model.SvdInc Proofs.SvdIncP Proofs.SvdIncP2 Proofs.SvdIncP3 Proofs.SvdIncP4 Proofs.SvdIncEx.
Import ListNotations.
Open Scope nat_scope.

Ltac three_cases i := destruct i as [|[|[|i]]]; [| | |exfalso; simpl in *; lia].

Definition chnr_g (c k s : nat) : list nat := firstn s (rev (seq 0 k)).
Definition shuf_g (c : nat) (l : list nat) : list nat := rev l.
Lemma chnr_g_ok : forall c k s, Forall (fun x => x < k) (chnr_g c k s).
Proof.
  intros c k s. unfold chnr_g. apply Forall_firstn'. apply Forall_rev. apply Forall_forall. intros x Hx.
  apply in_seq in Hx. lia.
Qed.
Lemma shuf_g_ok : forall c l (Q : nat -> Prop), Forall Q l -> Forall Q (shuf_g c l).
Proof. intros c l Q H. now apply Forall_rev. Qed.

Definition ns_g : list nat := [3; 2; 3].
Definition II_g := fst (fst (sample_tt chnr_g shuf_g ns_g 3)).
Definition idx_g := snd (fst (sample_tt chnr_g shuf_g ns_g 3)).
Definition idm_g := snd (sample_tt chnr_g shuf_g ns_g 3).
Definition PS_g := tt_PS chnr_g shuf_g 0 [] ns_g 3.
Lemma layout_g : layout ns_g II_g idx_g idm_g PS_g.
Proof.
  apply (sample_tt_layout chnr_g shuf_g chnr_g_ok shuf_g_ok ns_g 3); [simpl; lia | repeat constructor | lia].
Qed.
Lemma samples_g : length II_g = 36 /\ idx_g = [0; 9; 27; 36] /\ idm_g = [3; 3; 1] /\
  PS_g = [([[]], [[1; 2]; [1; 1]; [0; 0]]); ([[2]; [1]; [0]], [[2]; [1]; [0]]); ([[2; 1]; [1; 1]; [0; 0]], [[]])].
Proof. vm_compute. auto. Qed.

Definition Tg_g : list (core Qc) :=
  [ mk_core 1 3 2 [[[q (1) 1; q (2) 1]; [q (3) 1; q (1) 1]; [q (2) 1; q (-1) 1]]]; mk_core 2 2 2 [[[q (2) 1; q (1) 1]; [q (1) 1; q (3) 1]]; [[q (1) 1; q (-1) 1]; [q (4) 1; q (2) 1]]]; mk_core 2 3 1 [[[q (1) 1]; [q (2) 1]; [q (-1) 1]]; [[q (3) 1]; [q (1) 1]; [q (2) 1]]] ].
Definition F_g := get OQc Tg_g.

(* "svd" of the two blocks (recognised by their number of rows), singular values 1, 1, 0: B = [b0 b1 0] diag(1,1,0) V *)
Definition U0_g : list (list Qc) := [[q (5) 1; q (25) 1; q (0) 1]; [q (15) 1; q (25) 1; q (0) 1]; [q (10) 1; q (0) 1; q (0) 1]].
Definition V0_g : list (list Qc) := [[q (1) 1; q (0) 1; q (6) 5]; [q (0) 1; q (1) 1; q (-1) 5]; [q (0) 1; q (0) 1; q (0) 1]].
Definition U1_g : list (list Qc) := [[q (3) 1; q (9) 1; q (0) 1]; [q (-3) 1; q (16) 1; q (0) 1]; [q (-6) 1; q (7) 1; q (0) 1]; [q (10) 1; q (0) 1; q (0) 1]; [q (15) 1; q (25) 1; q (0) 1]; [q (5) 1; q (25) 1; q (0) 1]].
Definition V1_g : list (list Qc) := [[q (1) 1; q (0) 1; q (1) 1]; [q (0) 1; q (1) 1; q (1) 1]; [q (0) 1; q (0) 1; q (0) 1]].
Definition svd_g (c : nat) (A : mat Qc) : mat Qc * list Qc * mat Qc :=
  let '(Ut, Vt) := if mr A =? 3 then (U0_g, V0_g) else (U1_g, V1_g) in
  (mkmat (mr A) 3 (tab2 Ut), [q 1 1; q 1 1; q 0 1], mkmat 3 (mc A) (tab2 Vt)).
Lemma svd_g_rows : forall c A, mr (fst (fst (svd_g c A))) = mr A.
Proof. intros c A. unfold svd_g. destruct (mr A =? 3); reflexivity. Qed.
(* lstsq through the normal equations (A^T A) X = A^T b for a matrix with two columns *)
Definition lsq_g (c : nat) (A b : mat Qc) : mat Qc :=
  let N := fun a a' => bsum OQc (mr A) (fun i => (mget OQc A i a * mget OQc A i a')%Qc) in
  let Rh := fun a j => bsum OQc (mr A) (fun i => (mget OQc A i a * mget OQc b i j)%Qc) in
  let n00 := N 0 0 in let n01 := N 0 1 in let n10 := N 1 0 in let n11 := N 1 1 in
  let det := (n00 * n11 - n01 * n10)%Qc in
  mkmat 2 (mc b) (fun a j => let r0 := Rh 0 j in let r1 := Rh 1 j in
                             if Nat.eqb a 0 then ((n11 * r0 - n01 * r1) / det)%Qc
                             else ((n00 * r1 - n10 * r0) / det)%Qc).

Definition run_g := svd_incomplete_st OQc svd_g lsq_g II_g (map F_g II_g) idx_g idm_g (q 0 1) 2%Z.
Definition sfin_g : @st Qc := match run_g with Ok s => s | Err _ => mk_st [] 0 0 [] end.
Lemma run_g_ok : run_g = Ok sfin_g.
Proof. vm_compute. reflexivity. Qed.
Lemma reach_g : reach OQc svd_g lsq_g ns_g II_g idx_g idm_g (map F_g II_g) (q 0 1) 2%Z (length ns_g - 1) sfin_g.
Proof. unfold reach. vm_compute. reflexivity. Qed.

Lemma lsq_g_ok : forall A b, In (CLsq A b) (trace sfin_g) -> forall c, lstsq_solves_at OQc lsq_g c A b.
Proof.
  intros A b Hin c. vm_compute in Hin.
  repeat (destruct Hin as [Hin|Hin]; [try discriminate Hin; injection Hin as <- <-; intros _ _ i j Hi Hj;
                                      cbn [mr mc] in Hi, Hj; three_cases i; two_cases j; qc_eq|]).
  contradiction.
Qed.

Lemma skel_g : forall c k, k < length ns_g -> skel_used ns_g PS_g 2%Z k = true ->
  skel_exact_at OQc svd_g ns_g II_g idx_g PS_g F_g (q 0 1) 2%Z c k.
Proof.
  intros c k Hk Hu. destruct k as [|[|[|k]]]; [| | vm_compute in Hu; discriminate | simpl in Hk; lia].
  - unfold skel_exact_at. cbv zeta.
    exists (tab2 V0_g), (fun j b => if Nat.eqb j b then q 1 1 else q 0 1). split.
    + intros i j Hi Hj. change (i < 3) in Hi. change (j < 3) in Hj. three_cases i; three_cases j; qc_eq.
    + intros i b Hi Hb. change (i < 3) in Hi.
      assert (Hb' : b < 2) by (revert Hb; vm_compute; auto). three_cases i; two_cases b; qc_eq.
  - unfold skel_exact_at. cbv zeta.
    exists (tab2 V1_g), (fun j b => if Nat.eqb j b then q 1 1 else q 0 1). split.
    + intros i j Hi Hj. change (i < 6) in Hi. change (j < 3) in Hj.
      destruct i as [|[|[|[|[|[|i]]]]]]; [| | | | | |exfalso; lia]; three_cases j; qc_eq.
    + intros i b Hi Hb. change (i < 6) in Hi.
      assert (Hb' : b < 2) by (revert Hb; vm_compute; auto).
      destruct i as [|[|[|[|[|[|i]]]]]]; [| | | | | |exfalso; lia]; two_cases b; qc_eq.
Qed.

Lemma tt_hyp_g : forall k, 1 <= k -> k < length ns_g -> tt_rank_hyp OQc PS_g Tg_g k.
Proof.
  intros k H1 Hk. destruct k as [|[|[|k]]]; [lia| | |simpl in Hk; lia].
  - exists 2, (tab2 [[q (1) 5; q (1) 5; q (0) 1]; [q (-4) 15; q (1) 15; q (1) 3]]), (tab2 [[q (13) 155; q (-1) 31]; [q (3) 155; q (11) 124]; [q (3) 31; q (-7) 124]]).
    split; [vm_compute; auto|]. split; [vm_compute; auto|]. split.
    + intros a a' Ha Ha'. two_cases a; two_cases a'; qc_eq.
    + intros a a' Ha Ha'. two_cases a; two_cases a'; qc_eq.
  - exists 2, (tab2 [[q (-536) 5297; q (251) 5297; q (617) 5297]; [q (406) 5297; q (304) 5297; q (-329) 5297]]), (tab2 [[q (-4) 15; q (1) 5]; [q (1) 3; q (0) 1]; [q (1) 15; q (1) 5]]).
    split; [vm_compute; auto|]. split; [vm_compute; auto|]. split.
    + intros a a' Ha Ha'. two_cases a; two_cases a'; qc_eq.
    + intros a a' Ha Ha'. two_cases a; two_cases a'; qc_eq.
Qed.

Lemma recover_g : forall i, inb ns_g i -> get OQc (cores sfin_g) i = F_g i.
Proof.
  assert (Hd : 2 <= length ns_g) by (simpl; lia).
  assert (Hpos : Forall (fun n => 0 < n) ns_g) by (repeat constructor).
  assert (Hsh : shape Tg_g = ns_g) by reflexivity.
  apply (incomplete_exact_run OQc OQc_rng svd_g lsq_g svd_g_rows ns_g II_g idx_g idm_g PS_g layout_g Hd Hpos
           F_g (q 0 1) 2%Z sfin_g reach_g lsq_g_ok skel_g).
  - intros k H1 Hk. apply (rank_hyp_HA OQc OQc_rng ns_g II_g idx_g idm_g PS_g layout_g); auto.
    apply (tt_rank_hyp_rank OQc OQc_rng ns_g PS_g Tg_g Hsh); [lia|]. now apply tt_hyp_g.
  - intros k H1 Hk. apply (rank_hyp_HC OQc OQc_rng ns_g II_g idx_g idm_g PS_g layout_g Hd); auto.
    apply (tt_rank_hyp_rank OQc OQc_rng ns_g PS_g Tg_g Hsh); [lia|]. now apply tt_hyp_g.
Qed.
(* by computation: ranks, number of oracle calls (2 svd + 2 + 3 lstsq), all 18 entries *)
Definition all_idx_g : list (list nat) :=
  flat_map (fun i => flat_map (fun j => map (fun k => [i; j; k]) (seq 0 3)) (seq 0 2)) (seq 0 3).
Lemma recover_g_computed :
  ranks (cores sfin_g) = [1; 2; 2; 1] /\ length (trace sfin_g) = 7 /\
  forallb (fun i => Qc_eqb (get OQc (cores sfin_g) i) (F_g i)) all_idx_g = true /\
  F_g [2; 1; 0] = q 10 1.
Proof. split; [vm_compute; reflexivity|]. split; [vm_compute; reflexivity|]. split; [vm_compute; reflexivity|]. qc_eq. Qed.
