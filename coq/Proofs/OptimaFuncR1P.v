(* C15, functional variant, rank-1 path: the returned point maximises the modulus of the interpolant over the cube, given a
   complete root oracle and sorting argsorts. *)
From Coq Require Import List Arith Lia PeanoNat ZArith Bool Permutation Reals Lra Psatz.
From TV Require Import Num.Ops Lin.Tab Lin.BigSum Model.Optima Model.OptimaFunc Proofs.OptimaP2 Proofs.OptimaRP
  Proofs.OptimaFuncP Proofs.OptimaFuncAP Proofs.OptimaExP.
Import ListNotations.

(* ---------- polynomial algebra of the model ---------- *)
Section Poly.
Local Open Scope R_scope.
Lemma pv_padd p : forall q x, pv (padd OR p q) x = pv p x + pv q x.
Proof.
  induction p as [|a p IH]; intros [|b q] x; cbn [padd]; rewrite ?pv_cons, ?pv_nil; try lra.
  rewrite IH. cbn [oadd OR]. lra.
Qed.
Lemma pv_scale a q x : pv (map (fun c => omul OR a c) q) x = a * pv q x.
Proof. induction q as [|b q IH]; cbn [map]; rewrite ?pv_cons, ?pv_nil; [lra|]. rewrite IH. cbn [omul OR]. lra. Qed.
Lemma pv_pmul p : forall q x, pv (pmul OR p q) x = pv p x * pv q x.
Proof.
  induction p as [|a p IH]; intros q x; [cbn [pmul]; rewrite !pv_nil; lra|].
  destruct p as [|a' p'].
  - cbn [pmul]. rewrite pv_scale, pv_cons, pv_nil. lra.
  - change (pmul OR (a :: a' :: p') q) with (padd OR (map (fun c => omul OR a c) q) (o0 OR :: pmul OR (a' :: p') q)).
    rewrite pv_padd, pv_scale, pv_cons, IH. rewrite (pv_cons a). cbn [o0 OR]. lra.
Qed.
Lemma pv_sq g f x : pv (sq_poly_r1 OR g f) x = (g * pv f x) * (g * pv f x).
Proof.
  unfold sq_poly_r1. change (fun c => omul OR (omul OR g g) c) with (fun c => omul OR (g * g) c).
  rewrite pv_scale, pv_pmul. lra.
Qed.
Lemma prodf_snoc done : forall row f x, length row = length done ->
  prodf OR (done ++ [f]) (row ++ [x]) = prodf OR done row * pv f x.
Proof.
  induction done as [|f0 done IH]; intros [|x0 row] f x L; cbn [length] in L; try discriminate.
  - cbn [app prodf omul o1 OR]. lra.
  - cbn [app prodf]. rewrite IH by lia. cbn [omul OR]. lra.
Qed.
End Poly.

(* ---------- positions in a concatenation: np.searchsorted(np.cumsum(lens), idx, side='right') ---------- *)
Lemma cumsum_ge l : forall a, Forall (fun c => a <= c) (cumsum_from a l).
Proof.
  induction l as [|x l IH]; intros a; cbn [cumsum_from]; constructor; [lia|].
  eapply Forall_impl; [|apply IH]. cbn. intros c Hc. lia.
Qed.
Lemma searchsorted_none l a v : v < a -> searchsorted_r (cumsum_from a l) v = 0.
Proof.
  intros H. unfold searchsorted_r. pose proof (cumsum_ge l a) as F.
  induction (cumsum_from a l) as [|c cs IH]; [reflexivity|]. inversion F; subst. cbn [filter].
  destruct (Nat.leb_spec c v); [lia|]. apply IH. assumption.
Qed.
Lemma decode {A} (ls : list (list A)) : forall a idx, idx < list_sum (map (@length A) ls) ->
  let ip := searchsorted_r (cumsum_from a (map (@length A) ls)) (a + idx) in
  ip < length ls /\ exists j, j < length (nth ip ls []) /\ idx = list_sum (map (@length A) (firstn ip ls)) + j.
Proof.
  induction ls as [|l ls IH]; intros a idx H; cbn [map list_sum] in H; [cbn in H; lia|].
  change (list_sum (length l :: map (@length A) ls)) with (length l + list_sum (map (@length A) ls)) in H.
  cbn [map cumsum_from]. unfold searchsorted_r. cbn [filter].
  destruct (Nat.leb_spec (a + length l) (a + idx)) as [L|L].
  - specialize (IH (a + length l) (idx - length l) ltac:(lia)). cbv zeta in IH.
    replace (a + length l + (idx - length l)) with (a + idx) in IH by lia. unfold searchsorted_r in IH.
    destruct IH as (I1 & j & J1 & J2). cbn [length nth firstn map].
    split; [lia|]. exists j. split; [exact J1|].
    change (list_sum (length l :: map (@length A) (firstn (length (filter (fun c => c <=? a + idx) (cumsum_from (a + length l) (map (@length A) ls)))) ls)))
      with (length l + list_sum (map (@length A) (firstn (length (filter (fun c => c <=? a + idx) (cumsum_from (a + length l) (map (@length A) ls)))) ls))).
    lia.
  - pose proof (searchsorted_none (map (@length A) ls) (a + length l) (a + idx) L) as Z. unfold searchsorted_r in Z.
    rewrite Z. cbn [length nth firstn map list_sum]. split; [lia|]. exists idx. split; [lia|reflexivity].
Qed.
Lemma nth_concat_off {A} (d : A) (ls : list (list A)) : forall ip j, ip < length ls -> j < length (nth ip ls []) ->
  nth (list_sum (map (@length A) (firstn ip ls)) + j) (concat ls) d = nth j (nth ip ls []) d.
Proof.
  induction ls as [|l ls IH]; intros [|ip] j Hi Hj; cbn [length] in Hi; try lia; cbn [firstn map nth concat] in *.
  - cbn [list_sum]. apply app_nth1. exact Hj.
  - change (list_sum (length l :: map (@length A) (firstn ip ls))) with (length l + list_sum (map (@length A) (firstn ip ls))).
    rewrite <- Nat.add_assoc, app_nth2_plus. apply IH; [lia|exact Hj].
Qed.
Lemma nth_map' {A B} (g : A -> B) l j dA dB : j < length l -> nth j (map g l) dB = g (nth j l dA).
Proof. intros H. rewrite (nth_indep _ dB (g dA)) by (now rewrite map_length). apply map_nth. Qed.
Lemma in_firstn_rev {A} k (l : list A) x : In x (firstn k (rev l)) -> In x l.
Proof. intros H. apply in_rev. rewrite <- (firstn_skipn k (rev l)). apply in_or_app. left. exact H. Qed.

Section R1.
Local Open Scope R_scope.
Variable roots : nat -> nat -> list R -> list R.
Variable argsort1 : nat -> nat -> list R -> list nat.
Variable argsort2 : nat -> list R -> list nat.
Variable fs_all : list (list R).
(* the polynomials whose roots are asked for: derivatives of (g * f)^2, f a factor of the tensor, g any scalar *)
Definition dom_r1 (dp : list R) : Prop := exists g f, In f fs_all /\ dp = polyder OR (sq_poly_r1 OR g f).
Hypothesis RO : roots_ok_on dom_r1 roots.
Hypothesis A1 : forall s, argsort_ok (argsort1 s).
Hypothesis A2 : argsort_ok argsort2.

(* ---- _find_poly_max ---- *)
Section FPM.
Variables (s i : nat) (p : list R) (kl : nat).
Let C := cand_points OR roots s i p.
Let vals := map (fun x => oabs OR (polyval OR p x)) C.
Let idx := firstn kl (rev (argsort1 s i vals)).
Let r := find_poly_max OR roots argsort1 s i p kl.

Lemma fpm_fst : fst r = map (fun t => nth t C 0) idx. Proof. reflexivity. Qed.
Lemma fpm_snd : snd r = map (fun t => nth t vals 0) idx. Proof. reflexivity. Qed.
Lemma fpm_len : length (fst r) = length (snd r). Proof. rewrite fpm_fst, fpm_snd. now rewrite !map_length. Qed.
Lemma idx_bound t : In t idx -> (t < length C)%nat.
Proof.
  intros H. apply in_firstn_rev in H.
  pose proof (argsort_perm_bound _ (argsort_ok_perm _ (A1 s)) i vals) as B. rewrite Forall_forall in B.
  specialize (B t H). unfold vals in B. now rewrite map_length in B.
Qed.
(* every returned pair: x is a candidate in [-1, 1] and y = |p(x)| *)
Lemma fpm_pair j : (j < length (fst r))%nat ->
  in11 (nth j (fst r) 0) /\ nth j (snd r) 0 = Rabs (polyval OR p (nth j (fst r) 0)).
Proof.
  intros Hj. rewrite fpm_fst, map_length in Hj. rewrite fpm_fst, fpm_snd.
  rewrite (nth_map' _ idx j O 0 Hj), (nth_map' _ idx j O 0 Hj).
  assert (Ht : (nth j idx O < length C)%nat) by (apply idx_bound, nth_In, Hj). split.
  - pose proof (cand_in roots s i p) as F. rewrite Forall_forall in F. apply F. apply nth_In. exact Ht.
  - unfold vals. rewrite (nth_map' _ C _ 0 0 Ht). reflexivity.
Qed.
(* k_loc >= 1: the first returned value dominates |p| on [-1, 1] *)
Lemma fpm_top : dom_r1 (polyder OR p) -> (1 <= kl)%nat -> (1 <= length (fst r))%nat /\ forall z, in11 z -> Rabs (polyval OR p z) <= nth O (snd r) 0.
Proof.
  intros HD Hk. assert (LC : (1 <= length C)%nat).
  { destruct (cand_endpoints roots s i p) as [E _]. fold C in E. destruct C; [contradiction|cbn; lia]. }
  assert (LV : length vals = length C) by (unfold vals; apply map_length).
  destruct (top_is_max (argsort1 s) i vals kl (A1 s) Hk ltac:(lia)) as [Hm Hmax].
  change (last_k_rev kl (argsort1 s i vals)) with idx in Hm, Hmax.
  assert (LI : (1 <= length idx)%nat).
  { unfold idx. rewrite firstn_length, rev_length, (argsort_perm_length _ (argsort_ok_perm _ (A1 s))), LV. lia. }
  split; [rewrite fpm_fst, map_length; exact LI|].
  intros z Hz. destruct (cand_absmax dom_r1 roots RO s i p z HD Hz) as (c & Hc & Hle). fold C in Hc.
  destruct (In_nth _ _ 0 Hc) as (t & Ht & <-).
  rewrite fpm_snd, (nth_map' _ idx O O 0 LI). rewrite <- hd_nth0.
  eapply Rle_trans; [exact Hle|]. specialize (Hmax t ltac:(lia)). unfold vals in Hmax at 1.
  rewrite (nth_map' _ C t 0 0 Ht) in Hmax. exact Hmax.
Qed.
End FPM.

(* ---- one mode ---- *)
Definition kept_ok (done : list (list R)) (e : list R * R) : Prop :=
  length (fst e) = length done /\ Forall in11 (fst e) /\ snd e = prodf OR done (fst e).
Definition Inv (done : list (list R)) (kept : list (list R * R)) : Prop :=
  kept <> [] /\ Forall (kept_ok done) kept /\
  forall z, length z = length done -> Forall in11 z -> Rabs (prodf OR done z) <= Rabs (snd (nth O kept ([], 0))).

Lemma sq_abs a : Rabs (a * a) = a * a. Proof. apply Rabs_pos_eq. nra. Qed.
Lemma sq_le_abs a b : a * a <= b * b -> Rabs a <= Rabs b.
Proof. intros H. apply Rsqr_le_abs_0. unfold Rsqr. exact H. Qed.

Lemma step_inv s f done kept k kl : In f fs_all -> Inv done kept -> (1 <= k)%nat -> (1 <= kl)%nat ->
  Inv (done ++ [f]) (func_step_r1 OR roots argsort1 argsort2 s f kept k kl).
Proof.
  intros Hf (Hne & HK & HM) Hk Hkl. unfold func_step_r1.
  set (P := fun i => sq_poly_r1 OR (snd (nth i kept ([], 0))) f).
  set (per := tab (length kept) (fun i => find_poly_max OR roots argsort1 s i (P i) kl)).
  set (all_x := concat (map fst per)). set (all_y := concat (map snd per)).
  set (cs := cumsum_from 0 (map (fun r => length (fst r)) per)).
  set (idx_maxx := firstn k (rev (argsort2 s all_y))).
  assert (Ln : (1 <= length kept)%nat) by (destruct kept; [contradiction|cbn; lia]).
  assert (Lper : length per = length kept) by apply tab_length.
  assert (Nper : forall ip, (ip < length kept)%nat -> nth ip per ([], []) = find_poly_max OR roots argsort1 s ip (P ip) kl)
    by (intros ip Hip; unfold per; now rewrite nth_tab).
  assert (LL : map (@length R) (map fst per) = map (@length R) (map snd per)).
  { rewrite !map_map. apply map_ext_in. intros r Hr. unfold per in Hr. apply in_tab in Hr as (ip & _ & ->). apply fpm_len. }
  assert (CS : cs = cumsum_from 0 (map (@length R) (map fst per))) by (unfold cs; now rewrite map_map).
  assert (LX : length all_x = list_sum (map (@length R) (map fst per))) by apply length_concat'.
  assert (LY : length all_y = list_sum (map (@length R) (map snd per))) by apply length_concat'.
  (* decoding a position of the concatenations *)
  assert (DEC : forall idx, (idx < length all_y)%nat ->
     let ip := searchsorted_r cs idx in
     (ip < length kept)%nat /\ in11 (nth idx all_x 0) /\
     nth idx all_y 0 = Rabs (polyval OR (P ip) (nth idx all_x 0))).
  { intros idx Hidx ip. rewrite LY, <- LL in Hidx.
    destruct (decode (map fst per) O idx Hidx) as (I1 & j & J1 & J2). cbv zeta in I1, J1, J2.
    rewrite Nat.add_0_l, <- CS in I1, J1, J2. fold ip in I1, J1, J2. rewrite map_length, Lper in I1.
    assert (E1 : nth ip (map fst per) [] = fst (find_poly_max OR roots argsort1 s ip (P ip) kl)).
    { rewrite (nth_map' fst per ip ([], []) []) by lia. now rewrite Nper. }
    assert (E2 : nth ip (map snd per) [] = snd (find_poly_max OR roots argsort1 s ip (P ip) kl)).
    { rewrite (nth_map' snd per ip ([], []) []) by lia. now rewrite Nper. }
    rewrite E1 in J1.
    assert (X : nth idx all_x 0 = nth j (fst (find_poly_max OR roots argsort1 s ip (P ip) kl)) 0).
    { unfold all_x. rewrite J2 at 1. rewrite nth_concat_off; [now rewrite E1|rewrite map_length; lia|now rewrite E1]. }
    assert (Yq : nth idx all_y 0 = nth j (snd (find_poly_max OR roots argsort1 s ip (P ip) kl)) 0).
    { unfold all_y. rewrite J2 at 1. rewrite <- firstn_map, LL, firstn_map. rewrite nth_concat_off; [now rewrite E2|rewrite map_length; lia|].
      rewrite E2, <- fpm_len. exact J1. }
    destruct (fpm_pair s ip (P ip) kl j J1) as [B1 B2].
    split; [exact I1|]. rewrite X, Yq. split; [exact B1|exact B2]. }
  (* the first list of candidates is not empty and its first value dominates *)
  destruct (fpm_top s O (P O) kl ltac:(exists (snd (nth O kept ([], 0))), f; split; [exact Hf|reflexivity]) Hkl) as [T1 T2].
  assert (Y0 : nth O all_y 0 = nth O (snd (find_poly_max OR roots argsort1 s O (P O) kl)) 0 /\ (1 <= length all_y)%nat).
  { unfold all_y, per. destruct (length kept) as [|n'] eqn:En; [lia|]. rewrite tab_cons. cbn [map concat].
    rewrite app_length. rewrite <- fpm_len. split; [|lia]. apply app_nth1. rewrite <- fpm_len. lia. }
  destruct Y0 as [Y0 LY1].
  destruct (top_is_max argsort2 s all_y k A2 Hk LY1) as [Hm0 Hmax].
  change (last_k_rev k (argsort2 s all_y)) with idx_maxx in Hm0, Hmax.
  assert (LI : (1 <= length idx_maxx)%nat).
  { unfold idx_maxx. rewrite firstn_length, rev_length, (argsort_perm_length _ (argsort_ok_perm _ A2)). lia. }
  assert (IB : forall idx, In idx idx_maxx -> (idx < length all_y)%nat).
  { intros idx H. apply in_firstn_rev in H.
    pose proof (argsort_perm_bound _ (argsort_ok_perm _ A2) s all_y) as B. rewrite Forall_forall in B. auto. }
  set (mk := fun idx : nat => (fst (nth (searchsorted_r cs idx) kept ([], 0)) ++ [nth idx all_x 0],
                                omul OR (snd (nth (searchsorted_r cs idx) kept ([], 0))) (polyval OR f (nth idx all_x 0)))).
  change (Inv (done ++ [f]) (map mk idx_maxx)).
  rewrite Forall_forall in HK.
  split; [|split].
  - destruct idx_maxx; [cbn in LI; lia|discriminate].
  - apply Forall_forall. intros e He. apply in_map_iff in He as (idx & <- & Hin).
    destruct (DEC idx (IB idx Hin)) as (I1 & I2 & _). cbv zeta in I1.
    destruct (HK _ (nth_In _ ([], 0) I1)) as (K1 & K2 & K3).
    unfold kept_ok, mk. cbn [fst snd]. split; [|split].
    + rewrite !app_length. cbn [length]. lia.
    + apply Forall_app. split; [exact K2|]. constructor; [exact I2|constructor].
    + rewrite prodf_snoc by exact K1. rewrite <- K3. reflexivity.
  - intros z' Lz Fz. rewrite app_length in Lz. cbn [length] in Lz.
    destruct (exists_last (l := z')) as (z & zs & ->); [destruct z'; [cbn in Lz; lia|discriminate]|].
    rewrite app_length in Lz. cbn [length] in Lz. apply Forall_app in Fz as [Fz Fzs]. inversion Fzs as [|? ? Hzs _]; subst.
    rewrite prodf_snoc by lia.
    rewrite (nth_map' mk idx_maxx O O ([], 0)) by lia. rewrite <- hd_nth0. set (m0 := hd O idx_maxx) in *.
    destruct (DEC m0 Hm0) as (I1 & _ & I3). cbv zeta in I1, I3. unfold mk. cbn [snd omul OR].
    set (g1 := snd (nth (searchsorted_r cs m0) kept ([], 0))) in *. set (x1 := nth m0 all_x 0) in *.
    set (g0 := snd (nth O kept ([], 0))) in *.
    pose proof (HM z ltac:(lia) Fz) as B0. fold g0 in B0.
    pose proof (T2 zs Hzs) as B1. rewrite <- Y0 in B1. unfold P in B1 at 1. fold g0 in B1. rewrite pv_sq, sq_abs in B1.
    pose proof (Hmax O ltac:(lia)) as B2.
    unfold P in I3. fold g1 in I3. rewrite pv_sq, sq_abs in I3. rewrite I3 in B2.
    assert (B3 : Rabs (g0 * pv f zs) <= Rabs (g1 * pv f x1)) by (apply sq_le_abs; lra).
    rewrite !Rabs_mult in *. pose proof (Rabs_pos (pv f zs)). nra.
Qed.

Lemma loop_inv fs : forall s done kept k kl, incl fs fs_all -> Inv done kept -> (1 <= k)%nat -> (1 <= kl)%nat ->
  Inv (done ++ fs) (func_loop_r1 OR roots argsort1 argsort2 s fs kept k kl).
Proof.
  induction fs as [|f fs IH]; intros s done kept k kl Hin HI Hk Hkl; cbn [func_loop_r1].
  - now rewrite app_nil_r.
  - replace (done ++ f :: fs) with ((done ++ [f]) ++ fs) by (now rewrite <- app_assoc).
    apply IH; auto; [intros h Hh; apply Hin; now right|]. apply step_inv; auto. apply Hin. now left.
Qed.

(* func_rank1_exact: the returned point lies in the cube, has one coordinate per mode, and the interpolant
   prod_s f_s(z_s) attains its maximum modulus over [-1, 1]^d there; every k >= 1, k_loc >= 1, every d *)
Theorem func_rank1_exact_gen fs k kl : incl fs fs_all -> (1 <= k)%nat -> (1 <= kl)%nat ->
  let x := optima_func_r1 OR roots argsort1 argsort2 fs k kl in
  length x = length fs /\ Forall in11 x /\
  forall z, length z = length fs -> Forall in11 z -> Rabs (prodf OR fs z) <= Rabs (prodf OR fs x).
Proof.
  intros Hin Hk Hkl x.
  assert (I0 : Inv [] [([], o1 OR)]).
  { split; [discriminate|]. split.
    - constructor; [|constructor]. split; [reflexivity|]. split; [constructor|reflexivity].
    - intros z Lz _. destruct z; [|discriminate]. cbn. lra. }
  pose proof (loop_inv fs O [] _ k kl Hin I0 Hk Hkl) as (Hne & HK & HM). cbn [app] in *.
  unfold x, optima_func_r1, optima_func_r1_all.
  set (kept := func_loop_r1 OR roots argsort1 argsort2 0 fs [([], o1 OR)] k kl) in *.
  destruct kept as [|e kept']; [contradiction|]. cbn [map hd nth] in *.
  inversion HK as [|? ? (K1 & K2 & K3) _]; subst. split; [exact K1|]. split; [exact K2|].
  intros z Lz Fz. rewrite <- K3. apply HM; auto.
Qed.
End R1.

(* the statement for the tensor itself: the root oracle is complete on the derivatives of the squared (scaled) factors *)
Theorem func_rank1_exact roots argsort1 argsort2 fs k kl :
  roots_ok_on (dom_r1 fs) roots -> (forall s, argsort_ok (argsort1 s)) -> argsort_ok argsort2 -> 1 <= k -> 1 <= kl ->
  let x := optima_func_r1 OR roots argsort1 argsort2 fs k kl in
  length x = length fs /\ Forall in11 x /\
  forall z, length z = length fs -> Forall in11 z -> (Rabs (prodf OR fs z) <= Rabs (prodf OR fs x))%R.
Proof. intros RO A1 A2 Hk Hkl. apply (func_rank1_exact_gen roots argsort1 argsort2 fs RO A1 A2); auto. apply incl_refl. Qed.

(* ---------- non-vacuity: the factor f(x) = x^2 - 1/4 in both modes, an explicit complete root oracle ----------
   ((g f)^2)' = g^2 * 4 x (x - 1/2) (x + 1/2): the real roots are 0, 1/2, -1/2 whenever the polynomial is not identically zero *)
Section Example.
Local Open Scope R_scope.
Definition f_quad : list R := [- (1 / 4); 0; 1].
Definition roots_quad : nat -> nat -> list R -> list R := fun _ _ _ => [0; 1 / 2; - (1 / 2)].
Lemma pv_der_quad g x : pv (polyder OR (sq_poly_r1 OR g f_quad)) x = g * g * (x * (2 * x - 1) * (2 * x + 1)).
Proof.
  unfold f_quad, sq_poly_r1. cbn [pmul padd map]. unfold polyder. cbn [length Nat.sub tab seq map nth].
  cbn [polyval fold_right]. cbn [oadd omul o0 oofZ OR Z.of_nat Pos.of_succ_nat Pos.succ]. field.
Qed.
Lemma roots_quad_ok : roots_ok_on (dom_r1 [f_quad; f_quad]) roots_quad.
Proof.
  intros s i dp x (g & f & Hf & ->) (y & Hy) Hx H0.
  assert (Ef : f = f_quad) by (destruct Hf as [<-|[<-|[]]]; reflexivity). subst f.
  rewrite pv_der_quad in H0, Hy.
  assert (Hg : g * g <> 0) by (intros E; apply Hy; rewrite E; ring).
  apply Rmult_integral in H0 as [H0|H0]; [contradiction|].
  unfold roots_quad. apply Rmult_integral in H0 as [H0|H0]; [apply Rmult_integral in H0 as [H0|H0]|].
  - left. lra.
  - right. left. lra.
  - right. right. left. lra.
Qed.
Lemma func_rank1_example :
  roots_ok_on (dom_r1 [f_quad; f_quad]) roots_quad /\
  (forall s : nat, argsort_ok ((fun _ _ l => argsort_ins OR l) s)) /\ argsort_ok (fun _ l => argsort_ins OR l) /\
  let x := optima_func_r1 OR roots_quad (fun _ _ l => argsort_ins OR l) (fun _ l => argsort_ins OR l) [f_quad; f_quad] 1 1 in
  forall z, length z = 2%nat -> Forall in11 z -> Rabs (prodf OR [f_quad; f_quad] z) <= Rabs (prodf OR [f_quad; f_quad] x).
Proof.
  split; [exact roots_quad_ok|]. split; [intros s; exact argsort_ins_ok|]. split; [exact argsort_ins_ok|].
  intros x z Lz Fz.
  apply (func_rank1_exact roots_quad (fun _ _ l => argsort_ins OR l) (fun _ l => argsort_ins OR l) [f_quad; f_quad] 1 1
           roots_quad_ok (fun s => argsort_ins_ok) argsort_ins_ok (le_n 1) (le_n 1)); auto.
Qed.
End Example.
