(* C07, part 3: the driver loop (sweep count, stop reason, callback), als as a whole: shapes, missing slices,
   restart, sample order. *)
From Coq Require Import List Arith Lia Ring PeanoNat Bool Permutation.
From TV Require Import Num.Ops Lin.Tab Lin.BigSum Lin.Solve TT.Chain Model.Als Proofs.AlsLin Proofs.AlsSim.
Import ListNotations.

Lemma iter_shift {A} (f : A -> A) n x : Nat.iter n f (f x) = Nat.iter (S n) f x.
Proof. induction n as [|n IH]; [reflexivity|]. change (f (Nat.iter n f (f x)) = f (Nat.iter (S n) f x)). now rewrite IH. Qed.

Lemma forallb_eq {A} (f g : A -> bool) l : (forall x, In x l -> f x = g x) -> forallb f l = forallb g l.
Proof. induction l as [|x l IH]; cbn [forallb]; intros H; auto. rewrite H, IH; auto; [intros; apply H|]; now (right + left). Qed.

Lemma keep_some {A} (r : A) b : keep (Some r) b = Some r. Proof. reflexivity. Qed.

(* ------------------------------------------------------------------ the driver loop, any state type *)
Section Loop.
Context {T : Type} (K : ops T).
Variable acc : nat -> list (core T) -> list (core T) -> T.
Variable accv : nat -> list (core T) -> T.
Variable cb : option (nat -> list (core T) -> bool).

Lemma info_appr_some r t ec ev nswp e evld : info_appr K (Some r) t ec ev nswp e evld = Some r.
Proof. reflexivity. Qed.

(* what a stop reason means *)
Definition stop_justified (nswp : option nat) (e evld : option T) (pre_evld : T) (Y : list (core T)) (inf : @info T) : Prop :=
  match i_stop inf with
  | SNswp => exists n, nswp = Some n /\ n <= i_nswp inf
  | SE => exists e0, e = Some e0 /\ oleb K (o0 K) (i_e inf) = true /\ oleb K (i_e inf) e0 = true
  | SEvld => exists ev, evld = Some ev /\
             ((oleb K (o0 K) (i_evld inf) = true /\ oleb K (i_evld inf) ev = true) \/
              (oleb K (o0 K) pre_evld = true /\ oleb K pre_evld ev = true))
  | SCb => exists c, cb = Some c /\ c (i_nswp inf) Y = true
  end.
Definition stop0_justified (nswp : option nat) (evld : option T) (pre_evld : T) (stop : option stopr) : Prop :=
  match stop with
  | None => True
  | Some SNswp => exists n, nswp = Some n /\ n = O
  | Some SEvld => exists ev, evld = Some ev /\ oleb K (o0 K) pre_evld = true /\ oleb K pre_evld ev = true
  | Some _ => False
  end.

Lemma info_appr_justified stop t ec ev nswp e evld r :
  info_appr K stop t ec ev nswp e evld = Some r ->
  stop = Some r \/
  (stop = None /\ match r with
    | SNswp => exists n, nswp = Some n /\ n <= t
    | SE => exists e0, e = Some e0 /\ oleb K (o0 K) ec = true /\ oleb K ec e0 = true
    | SEvld => exists v, evld = Some v /\ oleb K (o0 K) ev = true /\ oleb K ev v = true
    | SCb => False end).
Proof.
  unfold info_appr. destruct stop as [r0|]; cbn [keep].
  - intros H; inversion H; auto.
  - intros H. right. split; auto.
    destruct evld as [v|]; cbn [keep] in H.
    + destruct (oleb K (o0 K) ev && oleb K ev v) eqn:E1; cbn [keep] in H.
      * inversion H; subst. apply andb_true_iff in E1. eauto.
      * destruct e as [e0|]; cbn [keep] in H.
        -- destruct (oleb K (o0 K) ec && oleb K ec e0) eqn:E2; cbn [keep] in H.
           ++ inversion H; subst. apply andb_true_iff in E2. eauto.
           ++ destruct nswp as [n|]; [|discriminate]. destruct (n <=? t) eqn:E3; [|discriminate].
              inversion H; subst. apply Nat.leb_le in E3. eauto.
        -- destruct nswp as [n|]; [|discriminate]. destruct (n <=? t) eqn:E3; [|discriminate].
           inversion H; subst. apply Nat.leb_le in E3. eauto.
    + destruct e as [e0|]; cbn [keep] in H.
      * destruct (oleb K (o0 K) ec && oleb K ec e0) eqn:E2; cbn [keep] in H.
        -- inversion H; subst. apply andb_true_iff in E2. eauto.
        -- destruct nswp as [n|]; [|discriminate]. destruct (n <=? t) eqn:E3; [|discriminate].
           inversion H; subst. apply Nat.leb_le in E3. eauto.
      * destruct nswp as [n|]; [|discriminate]. destruct (n <=? t) eqn:E3; [|discriminate].
        inversion H; subst. apply Nat.leb_le in E3. eauto.
Qed.

Section OneLoop.
Variable St : Type.
Variable sweepf : St -> St.
Variable cores : St -> list (core T).
Notation loop := (gen_loop K acc accv cb St sweepf cores).

(* executed sweep count: the returned cores are those after exactly info['nswp'] - t sweeps, at least one *)
Lemma gen_loop_spec fuel nswp e evld : forall s t stop Y inf,
  loop fuel nswp e evld s t stop = Ok (Y, inf) ->
  exists j, 1 <= j /\ j <= fuel /\ i_nswp inf = t + j /\ Y = cores (Nat.iter j sweepf s).
Proof.
  induction fuel as [|f IH]; intros s t stop Y inf; cbn [gen_loop]; [discriminate|].
  destruct (info_appr K _ (S t) _ _ nswp e evld) as [r|] eqn:E.
  - intros H; inversion H; subst. exists 1. cbn. repeat split; lia.
  - intros H. destruct (IH _ _ _ _ _ H) as (j & J1 & J2 & J3 & J4).
    exists (S j). repeat split; try lia. rewrite J4. now rewrite iter_shift.
Qed.

(* the stop reason in info is justified by the options *)
Lemma gen_loop_stop fuel nswp e evld pre : forall s t stop Y inf,
  loop fuel nswp e evld s t stop = Ok (Y, inf) -> stop0_justified nswp evld pre stop ->
  stop_justified nswp e evld pre Y inf.
Proof.
  induction fuel as [|f IH]; intros s t stop Y inf; cbn [gen_loop]; [discriminate|].
  destruct (info_appr K _ (S t) _ _ nswp e evld) as [r|] eqn:E.
  - intros H J0; inversion H; subst. unfold stop_justified; cbn [i_stop i_nswp i_e i_evld].
    apply info_appr_justified in E. destruct E as [E|[E1 E2]].
    + (* the reason was there before _info_appr: set by cb now, or in front of the loop *)
      destruct cb as [c|] eqn:Ec.
      * destruct (c (S t) (cores (sweepf s))) eqn:Ecb.
        -- destruct stop as [r0|]; cbn [keep] in E.
           ++ inversion E; subst. unfold stop0_justified in J0.
              destruct r; try contradiction.
              ** destruct J0 as (n & -> & ->). exists O. split; auto. lia.
              ** destruct J0 as (ev & -> & J0). exists ev. split; auto.
           ++ inversion E; subst. exists c. auto.
        -- subst stop. unfold stop0_justified in J0. destruct r; try contradiction.
           ++ destruct J0 as (n & -> & ->). exists O. split; auto. lia.
           ++ destruct J0 as (ev & -> & J0). exists ev. split; auto.
      * subst stop. unfold stop0_justified in J0. destruct r; try contradiction.
        -- destruct J0 as (n & -> & ->). exists O. split; auto. lia.
        -- destruct J0 as (ev & -> & J0). exists ev. split; auto.
    + destruct r; try contradiction.
      * exact E2.
      * exact E2.
      * destruct E2 as (v & -> & E2). exists v. split; auto.
  - intros H _. apply (IH _ _ _ _ _ H). exact I.
Qed.

(* a callback returning a true value after sweep t+j stops the loop right after that sweep at the latest *)
Lemma gen_loop_cb c fuel nswp e evld : cb = Some c -> forall s t stop j,
  1 <= j -> j <= fuel -> c (t + j) (cores (Nat.iter j sweepf s)) = true ->
  exists Y inf, loop fuel nswp e evld s t stop = Ok (Y, inf) /\ i_nswp inf <= t + j.
Proof.
  intros Ec. induction fuel as [|f IH]; intros s t stop j J1 J2 Hc; [lia|].
  cbn [gen_loop]. rewrite Ec.
  destruct (info_appr K _ (S t) _ _ nswp e evld) as [r|] eqn:E.
  - eexists; eexists; split; [reflexivity|]. cbn. lia.
  - destruct (Nat.eq_dec j 1) as [->|Hj].
    + change (Nat.iter 1 sweepf s) with (sweepf s) in Hc. replace (t + 1) with (S t) in Hc by lia. rewrite Hc in E.
      destruct stop; cbn [keep] in E; rewrite info_appr_some in E; discriminate.
    + destruct (IH (sweepf s) (S t) None (j - 1)) as (Y & inf & H1 & H2); try lia.
      * rewrite iter_shift. replace (S (j - 1)) with j by lia. replace (S t + (j - 1)) with (t + j) by lia. exact Hc.
      * exists Y, inf. split; [rewrite <- Ec; exact H1 | lia].
Qed.

(* only nswp given (e = e_vld = None, no callback): exactly n - t more sweeps, stop reason 'nswp' *)
Lemma gen_loop_nswp n : cb = None -> forall fuel s t, t < n -> n - t <= fuel ->
  exists ec ev, loop fuel (Some n) None None s t None
                = Ok (cores (Nat.iter (n - t) sweepf s), mk_info n SNswp ec ev).
Proof.
  intros Ec. induction fuel as [|f IH]; intros s t Ht Hf; [lia|].
  cbn [gen_loop]. rewrite Ec. unfold info_appr; cbn [keep].
  destruct (n <=? S t) eqn:E.
  - apply Nat.leb_le in E. assert (n = S t) by lia. subst n. replace (S t - t) with 1 by lia.
    eexists; eexists; reflexivity.
  - apply Nat.leb_gt in E. destruct (IH (sweepf s) (S t)) as (ec & ev & H); try lia.
    exists ec, ev. rewrite Ec in H. rewrite H. rewrite iter_shift. replace (S (n - S t)) with (n - t) by lia. reflexivity.
Qed.
(* a reason set in front of the loop: one sweep, that reason *)
Lemma gen_loop_pre r : cb = None -> forall fuel nswp e evld s t, 1 <= fuel ->
  exists ec ev, loop fuel nswp e evld s t (Some r) = Ok (cores (sweepf s), mk_info (S t) r ec ev).
Proof.
  intros Ec fuel nswp e evld s t Hf. destruct fuel as [|f]; [lia|]. cbn [gen_loop]. rewrite Ec.
  rewrite info_appr_some. eexists; eexists; reflexivity.
Qed.
End OneLoop.

(* two loops whose states stay related and show the same cores return the same thing *)
Lemma gen_loop_sim (St1 St2 : Type) sw1 sw2 (c1 : St1 -> list (core T)) (c2 : St2 -> list (core T))
  (Rel : St1 -> St2 -> Prop) :
  (forall s1 s2, Rel s1 s2 -> c1 s1 = c2 s2) -> (forall s1 s2, Rel s1 s2 -> Rel (sw1 s1) (sw2 s2)) ->
  forall fuel nswp e evld s1 s2 t stop, Rel s1 s2 ->
  gen_loop K acc accv cb St1 sw1 c1 fuel nswp e evld s1 t stop
  = gen_loop K acc accv cb St2 sw2 c2 fuel nswp e evld s2 t stop.
Proof.
  intros HC HS. induction fuel as [|f IH]; intros nswp e evld s1 s2 t stop HR; cbn [gen_loop]; auto.
  rewrite (HC _ _ HR), (HC _ _ (HS _ _ HR)).
  destruct (info_appr K _ (S t) _ _ nswp e evld); auto.
Qed.
End Loop.

(* ------------------------------------------------------------------ als as a whole *)
Section Top.
Context {T : Type} (K : ops T).
Variable solve : list (list T) -> list T -> list T.
Variable acc : nat -> list (core T) -> list (core T) -> T.
Variable accv : nat -> list (core T) -> T.
Variable cb : option (nat -> list (core T) -> bool).
Notation als' := (als K solve acc accv cb).

Lemma als_unfold Sm Y0 nswp e evld lamb skip fuel :
  (negb skip && negb (check_slices Sm Y0) = false) -> idx_ok Sm Y0 = true ->
  als' Sm Y0 nswp e evld lamb skip fuel
  = gen_loop K acc accv cb st (sweep K solve lamb Sm) sY fuel nswp e evld (init_st K Sm Y0) O
             (info_appr K None O (oopp K (o1 K)) (accv O Y0) nswp e evld).
Proof. intros H1 H2. unfold als, als_loop. rewrite H1, H2. reflexivity. Qed.

Lemma als_ok_checks Sm Y0 nswp e evld lamb skip fuel r :
  als' Sm Y0 nswp e evld lamb skip fuel = Ok r ->
  (negb skip && negb (check_slices Sm Y0) = false) /\ idx_ok Sm Y0 = true.
Proof.
  unfold als. destruct (negb skip && negb (check_slices Sm Y0)); [discriminate|].
  destruct (idx_ok Sm Y0); [auto|discriminate].
Qed.

(* the pre-loop value of info['e'] is -1, which is not >= 0 (true for Qc, binary64, R) *)
Hypothesis Hneg : oleb K (o0 K) (oopp K (o1 K)) = false.

Lemma stop0_ok Y0 nswp e evld :
  stop0_justified K nswp evld (accv O Y0) (info_appr K None O (oopp K (o1 K)) (accv O Y0) nswp e evld).
Proof.
  destruct (info_appr K None O _ _ nswp e evld) as [r|] eqn:E; [|exact I].
  apply info_appr_justified in E. destruct E as [E|[_ E]]; [discriminate|].
  destruct r; cbn.
  - destruct E as (n & -> & E). exists n. split; auto. lia.
  - destruct E as (e0 & _ & E1 & _). rewrite Hneg in E1. discriminate.
  - exact E.
  - exact E.
Qed.

(* als_info: executed sweep count *)
Lemma als_spec Sm Y0 nswp e evld lamb skip fuel Y inf :
  als' Sm Y0 nswp e evld lamb skip fuel = Ok (Y, inf) ->
  1 <= i_nswp inf /\ i_nswp inf <= fuel /\ Y = sY (Nat.iter (i_nswp inf) (sweep K solve lamb Sm) (init_st K Sm Y0)).
Proof.
  intros H. destruct (als_ok_checks _ _ _ _ _ _ _ _ _ H) as [C1 C2]. rewrite als_unfold in H by auto.
  apply gen_loop_spec in H. destruct H as (j & J1 & J2 & J3 & J4). cbn in J3. subst j. auto.
Qed.
(* als_info: documented stop reason, justified by the options *)
Lemma als_stop Sm Y0 nswp e evld lamb skip fuel Y inf :
  als' Sm Y0 nswp e evld lamb skip fuel = Ok (Y, inf) -> stop_justified K cb nswp e evld (accv O Y0) Y inf.
Proof.
  intros H. destruct (als_ok_checks _ _ _ _ _ _ _ _ _ H) as [C1 C2]. rewrite als_unfold in H by auto.
  eapply gen_loop_stop; [exact H | apply stop0_ok].
Qed.
(* als_info: a callback returning a true value after sweep t stops right after that sweep (at the latest) *)
Lemma als_cb_stops c Sm Y0 nswp e evld lamb skip fuel t :
  cb = Some c -> (negb skip && negb (check_slices Sm Y0) = false) -> idx_ok Sm Y0 = true ->
  1 <= t -> t <= fuel -> c t (sY (Nat.iter t (sweep K solve lamb Sm) (init_st K Sm Y0))) = true ->
  exists Y inf, als' Sm Y0 nswp e evld lamb skip fuel = Ok (Y, inf) /\ i_nswp inf <= t.
Proof.
  intros Ec C1 C2 T1 T2 Hc. rewrite als_unfold by auto.
  destruct (gen_loop_cb K acc accv cb st (sweep K solve lamb Sm) sY c fuel nswp e evld Ec (init_st K Sm Y0) O
              (info_appr K None O (oopp K (o1 K)) (accv O Y0) nswp e evld) t T1 T2 Hc) as (Y & inf & H1 & H2).
  exists Y, inf. split; auto.
Qed.
(* ... and it is reported as 'cb' with exactly that sweep count when it is the first reason to stop *)
Lemma als_cb_first c Sm Y0 n lamb skip fuel t :
  cb = Some c -> (negb skip && negb (check_slices Sm Y0) = false) -> idx_ok Sm Y0 = true ->
  1 <= t -> t <= fuel -> t <= n ->
  c t (sY (Nat.iter t (sweep K solve lamb Sm) (init_st K Sm Y0))) = true ->
  (forall t', 1 <= t' -> t' < t -> c t' (sY (Nat.iter t' (sweep K solve lamb Sm) (init_st K Sm Y0))) = false) ->
  exists ec ev, als' Sm Y0 (Some n) None None lamb skip fuel
                = Ok (sY (Nat.iter t (sweep K solve lamb Sm) (init_st K Sm Y0)), mk_info t SCb ec ev).
Proof.
  intros Ec C1 C2 T1 T2 T3 Hc Hn. rewrite als_unfold by auto.
  assert (E0 : info_appr K None O (oopp K (o1 K)) (accv O Y0) (Some n) None None = None).
  { unfold info_appr; cbn [keep]. destruct (Nat.leb_spec n 0); [lia|reflexivity]. }
  rewrite E0.
  set (sw := sweep K solve lamb Sm) in *. set (s0 := init_st K Sm Y0) in *.
  assert (G : forall f t0, t0 < t -> t - t0 <= f ->
     exists ec ev, gen_loop K acc accv cb st sw sY f (Some n) None None (Nat.iter t0 sw s0) t0 None
                   = Ok (sY (Nat.iter t sw s0), mk_info t SCb ec ev)).
  { induction f as [|f IH]; intros t0 L1 L2; [lia|]. cbn [gen_loop]. rewrite Ec.
    change (sw (Nat.iter t0 sw s0)) with (Nat.iter (S t0) sw s0).
    destruct (Nat.eq_dec (S t0) t) as [E|E].
    - subst t. rewrite Hc. cbn [keep]. rewrite info_appr_some. eexists; eexists; reflexivity.
    - rewrite Hn by lia. unfold info_appr; cbn [keep]. destruct (Nat.leb_spec n (S t0)); [lia|].
      rewrite <- Ec. apply IH; lia. }
  apply (G fuel O); lia.
Qed.

(* als_info: only nswp given: max(1, nswp) sweeps are executed and reported, stop reason 'nswp' *)
Lemma als_nswp Sm Y0 n lamb skip fuel :
  cb = None -> (negb skip && negb (check_slices Sm Y0) = false) -> idx_ok Sm Y0 = true -> Nat.max 1 n <= fuel ->
  exists ec ev, als' Sm Y0 (Some n) None None lamb skip fuel
                = Ok (sY (Nat.iter (Nat.max 1 n) (sweep K solve lamb Sm) (init_st K Sm Y0)),
                      mk_info (Nat.max 1 n) SNswp ec ev).
Proof.
  intros Ec C1 C2 Hf. rewrite als_unfold by auto. destruct n as [|n].
  - change (info_appr K None O (oopp K (o1 K)) (accv O Y0) (Some O) None None) with (Some SNswp).
    apply gen_loop_pre; auto.
  - assert (E0 : info_appr K None O (oopp K (o1 K)) (accv O Y0) (Some (S n)) None None = None) by reflexivity.
    rewrite E0. replace (Nat.max 1 (S n)) with (S n - 0) in * by lia.
    replace (mk_info (S n - 0) SNswp) with (@mk_info T (S n) SNswp) by (f_equal; lia).
    apply gen_loop_nswp; auto; lia.
Qed.

(* als_wf: shape and ranks of the initial approximation *)
Lemma als_wf Sm Y0 nswp e evld lamb skip fuel Y inf :
  als' Sm Y0 nswp e evld lamb skip fuel = Ok (Y, inf) -> map dims Y = map dims Y0.
Proof. intros H. apply als_spec in H. destruct H as (_ & _ & ->). apply iter_sweep_dims. Qed.

(* als_missing_slice *)
Lemma als_missing_rejected Sm Y0 nswp e evld lamb fuel :
  check_slices Sm Y0 = false -> als' Sm Y0 nswp e evld lamb false fuel = Err ValueError.
Proof. intros H. unfold als. rewrite H. reflexivity. Qed.
Lemma check_slices_uncovered Sm (Y0 : list (core T)) k i :
  k < length Y0 -> i < cn (nth k Y0 dcore) ->
  (forall sm, In sm Sm -> nth k (sidx sm) O < cn (nth k Y0 dcore) /\ nth k (sidx sm) O <> i) ->
  check_slices Sm Y0 = false.
Proof.
  intros Hk Hi Hs. unfold check_slices. apply not_true_is_false. intros H.
  rewrite forallb_forall in H. specialize (H k). rewrite in_seq in H. specialize (H ltac:(lia)).
  apply Nat.eqb_eq in H. set (n := cn (nth k Y0 dcore)) in *.
  assert (ND : NoDup (i :: nodup Nat.eq_dec (column Sm k))).
  { constructor; [|apply NoDup_nodup]. rewrite nodup_In. unfold column. rewrite in_map_iff.
    intros (sm & E & Hin). destruct (Hs sm Hin) as [_ Hne]. congruence. }
  assert (INC : incl (i :: nodup Nat.eq_dec (column Sm k)) (seq 0 n)).
  { intros x [<-|Hx]; rewrite in_seq; [lia|]. rewrite nodup_In in Hx. unfold column in Hx.
    rewrite in_map_iff in Hx. destruct Hx as (sm & <- & Hin). destruct (Hs sm Hin). lia. }
  pose proof (NoDup_incl_length ND INC) as L. cbn [length] in L. rewrite seq_length in L. lia.
Qed.
(* and the validation accepts every training set that covers every slice *)
Lemma check_slices_covered Sm (Y0 : list (core T)) :
  (forall k, k < length Y0 -> forall sm, In sm Sm -> nth k (sidx sm) O < cn (nth k Y0 dcore)) ->
  (forall k i, k < length Y0 -> i < cn (nth k Y0 dcore) -> exists sm, In sm Sm /\ nth k (sidx sm) O = i) ->
  check_slices Sm Y0 = true.
Proof.
  intros Hr Hc. unfold check_slices. apply forallb_forall. intros k Hk. rewrite in_seq in Hk.
  apply Nat.eqb_eq. rewrite <- (seq_length (cn (nth k Y0 dcore)) 0). apply Permutation_length.
  apply NoDup_Permutation; [apply NoDup_nodup | apply seq_NoDup |].
  intros x. rewrite nodup_In, in_seq. unfold column. rewrite in_map_iff. split.
  - intros (sm & <- & Hin). specialize (Hr k ltac:(lia) sm Hin). lia.
  - intros Hx. destruct (Hc k x ltac:(lia) ltac:(lia)) as (sm & Hin & E). exists sm. auto.
Qed.

(* the two validations depend on the shape of the cores only *)
Lemma cn_nth_dims (Y Y' : list (core T)) k : map dims Y = map dims Y' -> cn (nth k Y dcore) = cn (nth k Y' dcore).
Proof.
  intros E. assert (D : dims (nth k Y dcore) = dims (nth k Y' dcore)).
  { rewrite <- !(map_nth dims). now rewrite E. }
  apply dims_eq in D. tauto.
Qed.
Lemma check_slices_dims Sm (Y Y' : list (core T)) : map dims Y = map dims Y' -> check_slices Sm Y = check_slices Sm Y'.
Proof.
  intros E. unfold check_slices. rewrite (dims_length _ _ E). apply forallb_eq. intros k _.
  now rewrite (cn_nth_dims Y Y' k E).
Qed.
Lemma idx_ok_dims Sm (Y Y' : list (core T)) : map dims Y = map dims Y' -> idx_ok Sm Y = idx_ok Sm Y'.
Proof.
  intros E. unfold idx_ok. rewrite (dims_length _ _ E). apply forallb_eq. intros sm _. f_equal.
  apply forallb_eq. intros k _. now rewrite (cn_nth_dims Y Y' k E).
Qed.
Lemma idx_ok_wfS Sm (Y : list (core T)) : idx_ok Sm Y = true -> wfS (length Y) Sm.
Proof.
  unfold idx_ok, wfS. rewrite forallb_forall, Forall_forall. intros H sm Hin. specialize (H sm Hin).
  apply andb_true_iff in H. destruct H as [H _]. now apply Nat.eqb_eq in H.
Qed.

(* als_restart: nswp = a + b equals nswp = a, then a fresh call on the result with nswp = b *)
Lemma als_restart Sm Y0 a b lamb skip fuel Ya ia :
  cb = None -> chain 1 Y0 1 -> 1 <= a -> 1 <= b -> a + b <= fuel ->
  als' Sm Y0 (Some a) None None lamb skip fuel = Ok (Ya, ia) ->
  exists Yab i1 i2, als' Sm Y0 (Some (a + b)) None None lamb skip fuel = Ok (Yab, i1) /\
                    als' Sm Ya (Some b) None None lamb skip fuel = Ok (Yab, i2) /\
                    i_nswp ia = a /\ i_nswp i1 = a + b /\ i_nswp i2 = b.
Proof.
  intros Ec C A1 B1 Hf H. destruct (als_ok_checks _ _ _ _ _ _ _ _ _ H) as [C1 C2].
  destruct (als_nswp Sm Y0 a lamb skip fuel Ec C1 C2 ltac:(lia)) as (ec & ev & Ha). rewrite Ha in H.
  replace (Nat.max 1 a) with a in H by lia. inversion H; subst Ya ia. clear H.
  set (Ya := sY (Nat.iter a (sweep K solve lamb Sm) (init_st K Sm Y0))).
  assert (D : map dims Ya = map dims Y0) by apply iter_sweep_dims.
  assert (C1a : negb skip && negb (check_slices Sm Ya) = false) by now rewrite (check_slices_dims Sm _ _ D).
  assert (C2a : idx_ok Sm Ya = true) by now rewrite (idx_ok_dims Sm _ _ D).
  destruct (als_nswp Sm Y0 (a + b) lamb skip fuel Ec C1 C2 ltac:(lia)) as (ec1 & ev1 & Hab).
  destruct (als_nswp Sm Ya b lamb skip fuel Ec C1a C2a ltac:(lia)) as (ec2 & ev2 & Hb).
  replace (Nat.max 1 (a + b)) with (a + b) in Hab by lia. replace (Nat.max 1 b) with b in Hb by lia.
  eexists; eexists; eexists. split; [exact Hab|]. split.
  - rewrite Hb. f_equal. f_equal. symmetry. apply sweeps_restart; auto. now apply idx_ok_wfS.
  - cbn. auto.
Qed.

(* als_perm: the whole result (cores and info) does not depend on the order of the training samples *)
Hypothesis Rth : rng K.
Lemma check_slices_perm Sm Sm' (Y0 : list (core T)) : Permutation Sm Sm' -> check_slices Sm Y0 = check_slices Sm' Y0.
Proof.
  intros P. unfold check_slices. induction (seq 0 (length Y0)) as [|k l IH]; cbn [forallb]; auto. rewrite IH. f_equal.
  f_equal. apply nodup_perm_length. unfold column. now apply Permutation_map.
Qed.
Lemma wfS_perm d Sm Sm' : Permutation Sm Sm' -> wfS (T:=T) d Sm -> wfS d Sm'.
Proof. unfold wfS. intros P. now apply Permutation_Forall. Qed.
Lemma als_perm Sm Sm' Y0 nswp e evld lamb skip fuel :
  chain 1 Y0 1 -> Permutation Sm Sm' ->
  als' Sm Y0 nswp e evld lamb skip fuel = als' Sm' Y0 nswp e evld lamb skip fuel.
Proof.
  intros C P. unfold als, als_loop. rewrite <- (check_slices_perm Sm Sm' Y0 P).
  unfold idx_ok at 2. rewrite <- (forallb_perm _ _ _ P). fold (idx_ok Sm Y0).
  destruct (negb skip && negb (check_slices Sm Y0)); auto.
  destruct (idx_ok Sm Y0) eqn:C2; cbn [negb]; auto.
  pose proof (idx_ok_wfS _ _ C2) as W. pose proof (wfS_perm _ _ _ P W) as W'.
  apply (gen_loop_sim K acc accv cb st st _ _ sY sY
           (fun s1 s2 => Inv K Sm (length Y0) s1 O /\ Inv K Sm' (length Y0) s2 O /\ sY s1 = sY s2)).
  - intros s1 s2 (_ & _ & E). exact E.
  - intros s1 s2 (I1 & I2 & E).
    destruct (sweep_sim K solve lamb Sm _ s1 W I1) as [E1 J1].
    destruct (sweep_sim K solve lamb Sm' _ s2 W' I2) as [E2 J2].
    split; [exact J1 | split; [exact J2 |]]. rewrite E1, E2, E. now apply ref_sweep_perm.
  - split; [now apply init_inv | split; [now apply init_inv | reflexivity]].
Qed.
End Top.
