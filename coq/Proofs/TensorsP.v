From Coq Require Import List Arith Lia PeanoNat ZArith Bool.
From TV Require Import Num.Ops Lin.Tab Lin.BigSum TT.Chain Model.Tensors.
Import ListNotations.
Lemma stub_example : vector_index_prepare 3 (-3) = Ok 5%Z.
Proof. reflexivity. Qed.
