(* Lemmas about Model/Tensors.v, part 1: rank-one chains, const (incl. the zeroing loop), delta. *)
From Coq Require Import List Arith Lia PeanoNat ZArith Bool Ring.
From TV Require Import Num.Ops Lin.Tab Lin.BigSum TT.Chain Model.Tensors.
Import ListNotations.

(* ---------- carrier independent list / index lemmas ---------- *)
Lemma lget_nth {A} (l : list A) k d : k < length l -> lget l k = Ok (nth k l d).
Proof. intros H. unfold lget. rewrite (nth_error_nth' l d H). reflexivity. Qed.
Lemma lget_err {A} (l : list A) k : length l <= k -> lget l k = Err IndexError.
Proof. intros H. unfold lget. apply nth_error_None in H. now rewrite H. Qed.
Lemma upd_length {A} (l : list A) k x : length (upd l k x) = length l.
Proof. revert k; induction l; intros [|k]; simpl; auto. Qed.
Lemma nth_upd {A} (l : list A) k x d j : k < length l ->
  nth j (upd l k x) d = if j =? k then x else nth j l d.
Proof.
  revert k j; induction l as [|y l IH]; intros [|k] [|j]; simpl; intros H; try lia; auto.
  apply IH. lia.
Qed.
Lemma map_last_length {A} (f : A -> A) l : length (map_last f l) = length l.
Proof. induction l as [|x [|y l] IH]; simpl in *; auto. Qed.
Lemma nth_map_last {A} (f : A -> A) l d k : k < length l ->
  nth k (map_last f l) d = if k =? length l - 1 then f (nth k l d) else nth k l d.
Proof.
  revert k; induction l as [|x [|y l] IH]; intros k H; [simpl in H; lia| |].
  - simpl in *. destruct k; [reflexivity|lia].
  - change (map_last f (x :: y :: l)) with (x :: map_last f (y :: l)).
    destruct k as [|k]; [reflexivity|].
    cbn [nth]. rewrite IH by (simpl in *; lia). cbn [length].
    replace (S (S (length l)) - 1) with (S (S (length l) - 1)) by lia. reflexivity.
Qed.

Lemma nth_map' {A B} (f : A -> B) l d d' k : k < length l -> nth k (map f l) d' = f (nth k l d).
Proof. intros. rewrite (nth_indep _ d' (f d)) by (now rewrite map_length). apply map_nth. Qed.

Lemma nth_repeat_lt {A} (a d : A) m k : k < m -> nth k (repeat a m) d = a.
Proof. revert k; induction m; intros [|k] H; simpl; auto; try lia. apply IHm. lia. Qed.

Lemma np_index_ok n z : (- Z.of_nat n <= z < Z.of_nat n)%Z -> np_index n z = Ok (Z.to_nat (z mod Z.of_nat n)).
Proof.
  intros H. unfold np_index. destruct (Z.leb_spec 0 z) as [H0|H0].
  - destruct (Z.ltb_spec z (Z.of_nat n)); [|lia]. cbn [andb]. now rewrite Z.mod_small by lia.
  - cbn [andb]. destruct (Z.leb_spec (- Z.of_nat n) z); [|lia]. destruct (Z.ltb_spec z 0); [|lia]. cbn [andb].
    do 2 f_equal. apply (Z.mod_unique z (Z.of_nat n) (-1)); lia.
Qed.
Lemma np_index_nonneg n z : (0 <= z < Z.of_nat n)%Z -> np_index n z = Ok (Z.to_nat z).
Proof. intros H. rewrite np_index_ok by lia. now rewrite Z.mod_small by lia. Qed.
Lemma np_index_err n z : (z < - Z.of_nat n \/ Z.of_nat n <= z)%Z -> np_index n z = Err IndexError.
Proof.
  intros H. unfold np_index.
  destruct (Z.leb_spec 0 z), (Z.ltb_spec z (Z.of_nat n)), (Z.leb_spec (- Z.of_nat n) z), (Z.ltb_spec z 0);
    cbn [andb]; try reflexivity; lia.
Qed.

(* a decidable property holds below d everywhere, or fails somewhere *)
Lemma all_or_ex (P Q : nat -> Prop) d : (forall k, k < d -> P k \/ Q k) ->
  (forall k, k < d -> P k) \/ (exists k, k < d /\ Q k).
Proof.
  induction d; intros H; [left; intros; lia|].
  destruct IHd as [A|(k & Hk & A)]; [intros; apply H; lia| |right; exists k; split; [lia|auto]].
  destruct (H d) as [B|B]; [lia| |right; exists d; split; [lia|auto]].
  left. intros k Hk. destruct (Nat.eq_dec k d); [subst; auto|apply A; lia].
Qed.

Section TensorsP.
Context {T : Type} (K : ops T).
Notation "0" := (o0 K). Notation "1" := (o1 K).
Infix "+" := (oadd K). Infix "*" := (omul K). Infix "-" := (osub K).
Notation tt := (list (core T)).

(* accessors of the core builders *)
Lemma cget_cset G a0 i0 b0 x a i b : a < cr1 G -> i < cn G -> b < cr2 G ->
  cget K (cset K G a0 i0 b0 x) a i b = if (a =? a0) && (i =? i0) && (b =? b0) then x else cget K G a i b.
Proof. intros. unfold cset. now rewrite cget_mk. Qed.
Lemma cget_cmap f G a i b : a < cr1 G -> i < cn G -> b < cr2 G -> cget K (cmap K f G) a i b = f (cget K G a i b).
Proof. intros. unfold cmap. now rewrite cget_mk. Qed.
Lemma cget_cfull r1 n r2 x a i b : a < r1 -> i < n -> b < r2 -> cget K (cfull r1 n r2 x) a i b = x.
Proof. intros. unfold cfull. now rewrite cget_mk. Qed.

(* products *)
Fixpoint bprod (n : nat) (f : nat -> T) : T := match n with O => 1 | S k => bprod k f * f k end.

Hypothesis Rth : rng K.
Add Ring RrTensorsP : Rth.

Lemma bprod_ext n f g : (forall k, k < n -> f k = g k) -> bprod n f = bprod n g.
Proof. induction n; simpl; intros H; auto. rewrite IHn, H; auto. Qed.
Lemma bprod_S_l n f : bprod (S n) f = f O * bprod n (fun k => f (S k)).
Proof. induction n; [simpl; ring|]. change (bprod (S (S n)) f) with (bprod (S n) f * f (S n)). rewrite IHn. simpl. ring. Qed.
Lemma bprod_zero n f k : k < n -> f k = 0 -> bprod n f = 0.
Proof.
  induction n; intros Hk H; [lia|]. simpl. destruct (Nat.eq_dec k n) as [->|Hne].
  - rewrite H. ring.
  - rewrite IHn by (auto; lia). ring.
Qed.
Lemma bprod_const n c : bprod n (fun _ => c) = tpow K c n.
Proof. induction n; simpl; [reflexivity|]. rewrite IHn. ring. Qed.
Lemma bprod_one n f : (forall k, k < n -> f k = 1) -> bprod n f = 1.
Proof. induction n; simpl; intros H; [reflexivity|]. rewrite IHn, H by auto. ring. Qed.
Lemma tpow_1 n : tpow K 1 n = 1.
Proof. induction n; simpl; [reflexivity|]. rewrite IHn. ring. Qed.
(* the last factor scaled *)
Lemma bprod_scale_last n f s : (1 <= n)%nat ->
  bprod n (fun k => if k =? (n - 1)%nat then f k * s else f k) = bprod n f * s.
Proof.
  destruct n; [lia|]. intros _. simpl. replace (n - 0)%nat with n by lia. rewrite Nat.eqb_refl.
  rewrite (bprod_ext n _ f). - ring.
  - intros k Hk. destruct (Nat.eqb_spec k n); [lia|reflexivity].
Qed.

(* ---------- chains of (1, n, 1) cores ---------- *)
Definition dm : core T := mk_core O O O [].
Definition r1core (G : core T) : Prop := cr1 G = 1%nat /\ cr2 G = 1%nat.
(* the k-th core's entry at mode index j *)
Definition ent (Y : tt) (k j : nat) : T := cget K (nth k Y dm) O j O.

Lemma vstep_r1 x G i : r1core G -> vstep K [x] G i = [x * cget K G O i O].
Proof. intros [A B]. unfold vstep. rewrite A, B. cbn [tab map seq bsum nth]. f_equal. ring. Qed.
Lemma run_r1 Y : forall x idx, Forall r1core Y -> length idx = length Y ->
  run K [x] Y idx = [x * bprod (length Y) (fun k => ent Y k (nth k idx O))].
Proof.
  induction Y as [|G Y IH]; intros x [|i idx] HF HL; simpl in HL; try discriminate.
  - simpl. f_equal. ring.
  - inversion HF as [|? ? HG HY]; subst. cbn [run]. rewrite vstep_r1 by auto. rewrite IH by (auto; lia).
    f_equal. cbn [length]. rewrite bprod_S_l. unfold ent. cbn [nth]. ring.
Qed.
Lemma get_r1 Y idx : Forall r1core Y -> length idx = length Y ->
  get K Y idx = bprod (length Y) (fun k => ent Y k (nth k idx O)).
Proof. intros HF HL. unfold get. rewrite run_r1 by auto. cbn [nth]. ring. Qed.

(* shape invariant: the k-th core is (1, n_k, 1) *)
Definition shp (ns : list nat) (Y : tt) : Prop :=
  length Y = length ns /\ forall k, k < length ns -> cr1 (nth k Y dm) = 1%nat /\ cn (nth k Y dm) = nth k ns O /\ cr2 (nth k Y dm) = 1%nat.
Lemma shp_r1 ns Y : shp ns Y -> Forall r1core Y.
Proof.
  intros [HL H]. apply Forall_forall. intros G HG. apply (In_nth _ _ dm) in HG as (k & Hk & <-).
  destruct (H k) as (A & _ & B); [lia|]. split; auto.
Qed.
Lemma shp_shape ns Y : shp ns Y -> shape Y = ns.
Proof.
  intros [HL H]. unfold shape. apply (list_eq_nth O). - now rewrite map_length.
  - rewrite map_length. intros k Hk. rewrite (nth_map' _ _ dm) by auto. apply H. lia.
Qed.
Lemma shp_wf ns Y idx : shp ns Y -> inb ns idx -> wf 1 Y idx.
Proof.
  intros HS HI. apply wf_wfo, wfo_chain_inb. rewrite (shp_shape _ _ HS). split; [|exact HI].
  destruct HS as [HL H]. clear HI. revert ns HL H. induction Y as [|G Y IH]; intros [|n ns] HL H; simpl in HL; try discriminate.
  - reflexivity.
  - cbn [chain]. destruct (H O) as (A & _ & B); [simpl; lia|]. cbn [nth] in A, B. split; [exact A|]. rewrite B.
    apply (IH ns); [lia|]. intros k Hk. apply (H (S k)). simpl. lia.
Qed.
Lemma inb_length ns idx : inb ns idx -> length idx = length ns.
Proof. intros H. unfold inb in H. induction H; simpl; auto. Qed.
Lemma inb_nth ns idx k : inb ns idx -> k < length ns -> nth k idx O < nth k ns O.
Proof.
  intros H. unfold inb in H. revert k. induction H; intros k Hk; simpl in Hk; [lia|].
  destruct k; simpl; auto. apply IHForall2. lia.
Qed.
Lemma get_shp ns Y idx : shp ns Y -> inb ns idx ->
  get K Y idx = bprod (length ns) (fun k => ent Y k (nth k idx O)).
Proof.
  intros HS HI. rewrite get_r1; [now rewrite (proj1 HS)|eapply shp_r1; eauto|].
  rewrite (inb_length _ _ HI). symmetry. apply HS.
Qed.

(* [np.ones([1,k,1]) * rho for k in n] *)
Lemma shp_cfull ns x : shp ns (map (fun k => cfull 1%nat k 1%nat x) ns).
Proof.
  split; [apply map_length|]. intros k Hk.
  rewrite (nth_map' _ _ O) by auto. repeat split.
Qed.
Lemma ent_cfull ns x k j : k < length ns -> j < nth k ns O -> ent (map (fun k => cfull 1%nat k 1%nat x) ns) k j = x.
Proof.
  intros Hk Hj. unfold ent. rewrite (nth_map' _ _ O) by auto. apply cget_cfull; auto.
Qed.
(* Y[-1] *= s *)
Lemma shp_map_last_cmap ns Y f : shp ns Y -> shp ns (map_last (cmap K f) Y).
Proof.
  intros [HL H]. split; [now rewrite map_last_length|]. intros k Hk.
  rewrite nth_map_last by lia. destruct (k =? (length Y - 1)%nat); [|auto]. apply (H k Hk).
Qed.
Lemma ent_map_last_cmap ns Y f k j : shp ns Y -> k < length ns -> j < nth k ns O ->
  ent (map_last (cmap K f) Y) k j = if k =? (length ns - 1)%nat then f (ent Y k j) else ent Y k j.
Proof.
  intros [HL H] Hk Hj. unfold ent. rewrite nth_map_last by lia. rewrite HL.
  destruct (k =? (length ns - 1)%nat); [|reflexivity].
  destruct (H k Hk) as (A & B & C). apply cget_cmap; lia.
Qed.
(* Y[k][0, j0, 0] = x *)
Lemma shp_upd_cset ns Y k j0 x : shp ns Y -> shp ns (upd Y k (cset K (nth k Y dm) O j0 O x)).
Proof.
  intros [HL H]. split; [now rewrite upd_length|]. intros k' Hk'.
  destruct (Nat.lt_ge_cases k (length Y)) as [Hk|Hk].
  - rewrite nth_upd by auto. destruct (k' =? k) eqn:E; [|auto]. apply Nat.eqb_eq in E; subst. apply (H k Hk').
  - replace (upd Y k (cset K (nth k Y dm) O j0 O x)) with Y; [auto|].
    clear - Hk. revert k Hk. induction Y; intros [|k] Hk; simpl in *; try lia; auto. f_equal. apply IHY. lia.
Qed.
Lemma ent_upd_cset ns Y k j0 x k' j : shp ns Y -> k < length ns -> k' < length ns -> j < nth k' ns O ->
  ent (upd Y k (cset K (nth k Y dm) O j0 O x)) k' j = if (k' =? k) && (j =? j0) then x else ent Y k' j.
Proof.
  intros [HL H] Hk Hk' Hj. unfold ent. rewrite nth_upd by lia.
  destruct (Nat.eqb_spec k' k) as [->|Hne]; [|reflexivity].
  destruct (H k Hk) as (A & B & C). rewrite cget_cset by lia. cbn [Nat.eqb andb]. now rewrite andb_true_r.
Qed.

(* one-hot chains: the k-th core is w_k at mode index p_k and zero elsewhere *)
Lemma bprod_last_only n v : (1 <= n)%nat -> bprod n (fun k => if k =? (n - 1)%nat then v else 1) = v.
Proof.
  destruct n; [lia|]. intros _. simpl. replace (n - 0)%nat with n by lia. rewrite Nat.eqb_refl.
  rewrite bprod_one; [ring|]. intros k Hk. destruct (Nat.eqb_spec k n); [lia|reflexivity].
Qed.
Lemma onehot_hit ns Y (p : nat -> nat) (w : nat -> T) idx : shp ns Y -> inb ns idx ->
  (forall k j, k < length ns -> j < nth k ns O -> ent Y k j = if j =? p k then w k else 0) ->
  (forall k, k < length ns -> nth k idx O = p k) -> get K Y idx = bprod (length ns) w.
Proof.
  intros HS HI HE Hp. rewrite (get_shp ns) by auto. apply bprod_ext. intros k Hk.
  rewrite HE by (auto; apply inb_nth; auto). now rewrite Hp, Nat.eqb_refl.
Qed.
Lemma onehot_miss ns Y (p : nat -> nat) (w : nat -> T) idx k : shp ns Y -> inb ns idx ->
  (forall k j, k < length ns -> j < nth k ns O -> ent Y k j = if j =? p k then w k else 0) ->
  k < length ns -> nth k idx O <> p k -> get K Y idx = 0.
Proof.
  intros HS HI HE Hk Hp. rewrite (get_shp ns) by auto. apply (bprod_zero _ _ k Hk).
  rewrite HE by (auto; apply inb_nth; auto). destruct (Nat.eqb_spec (nth k idx O) (p k)); [contradiction|reflexivity].
Qed.

(* ---------- const without zero list ---------- *)
Lemma shp_const_plain tiny root ns v : shp ns (const_plain K tiny root ns v).
Proof. unfold const_plain. apply shp_map_last_cmap, shp_cfull. Qed.
Lemma const_plain_get tiny root ns v idx : ns <> [] -> inb ns idx ->
  get K (const_plain K tiny root ns v) idx = tpow K (root_of K tiny root v) (length ns) * sign_of K tiny v.
Proof.
  intros Hne HI. rewrite (get_shp ns) by (auto using shp_const_plain).
  unfold const_plain.
  rewrite (bprod_ext _ _ (fun k => if k =? (length ns - 1)%nat then root_of K tiny root v * sign_of K tiny v
                                    else root_of K tiny root v)).
  - rewrite (bprod_scale_last (length ns) (fun _ => root_of K tiny root v)).
    + now rewrite bprod_const.
    + destruct ns; [congruence|simpl; lia].
  - intros k Hk. pose proof (inb_nth _ _ k HI Hk) as Hj.
    rewrite (ent_map_last_cmap ns) by (auto using shp_cfull). rewrite ent_cfull by auto. reflexivity.
Qed.
(* the two laws the carrier / the root oracle have to satisfy on the branch |v| > 1e-16 *)
Definition root_law (tiny : T) (root : T -> T) (d : nat) (v : T) : Prop :=
  big K tiny v = true -> tpow K (root (oabs K v)) d = oabs K v.
Definition sign_law (tiny v : T) : Prop :=
  big K tiny v = true -> oabs K v * odiv K (oabs K v) v = v.
Lemma const_value tiny root d v : root_law tiny root d v -> sign_law tiny v ->
  tpow K (root_of K tiny root v) d * sign_of K tiny v = v.
Proof.
  unfold root_law, sign_law, root_of, sign_of. intros HR HS. destruct (big K tiny v).
  - rewrite HR by auto. now apply HS.
  - rewrite tpow_1. ring.
Qed.
Lemma const_denote tiny root ns v idx : ns <> [] -> inb ns idx ->
  root_law tiny root (length ns) v -> sign_law tiny v ->
  get K (const_plain K tiny root ns v) idx = v.
Proof. intros. rewrite const_plain_get by auto. now apply const_value. Qed.

Lemma const_none tiny root ns v inz : ns <> [] ->
  root_law tiny root (length ns) v -> sign_law tiny v ->
  exists Y, const K tiny root ns v None inz = Ok Y /\ shp ns Y /\ forall idx, inb ns idx -> get K Y idx = v.
Proof.
  intros Hne HR HS. exists (const_plain K tiny root ns v). split; [|split].
  - unfold const. destruct ns; [congruence|reflexivity].
  - apply shp_const_plain.
  - intros idx HI. now apply const_denote.
Qed.

(* ---------- the zeroing loop ---------- *)
(* indices as the code receives them (Python ints), in range and non-negative *)
Definition zin (ns : list nat) (iz : list Z) : Prop := Forall2 (fun z n => (0 <= z < Z.of_nat n)%Z) iz ns.
Lemma zin_length ns iz : zin ns iz -> length iz = length ns.
Proof. intros H. induction H; simpl; auto. Qed.
Lemma zin_nth ns iz k : zin ns iz -> k < length ns -> (0 <= nth k iz 0%Z < Z.of_nat (nth k ns O))%Z.
Proof.
  intros H. revert k. induction H; intros k Hk; simpl in Hk; [lia|]. destruct k; simpl; auto. apply IHForall2. lia.
Qed.
Lemma zin_inb ns iz : zin ns iz -> inb ns (map Z.to_nat iz).
Proof. intros H. unfold inb. induction H; simpl; constructor; auto. lia. Qed.
Lemma nth_map_to_nat iz k : nth k (map Z.to_nat iz) O = Z.to_nat (nth k iz 0%Z).
Proof. change O with (Z.to_nat 0%Z). apply map_nth. Qed.

Lemma set_zero_ok ns Y k z : shp ns Y -> k < length ns -> (0 <= z < Z.of_nat (nth k ns O))%Z ->
  set_zero K Y k z = Ok (upd Y k (cset K (nth k Y dm) O (Z.to_nat z) O 0)).
Proof.
  intros [HL H] Hk Hz. unfold set_zero. rewrite (lget_nth Y k dm) by lia. cbn [rbind].
  destruct (H k Hk) as (_ & B & _). rewrite B, np_index_nonneg by auto. reflexivity.
Qed.

Section Loop.
Variable ns : list nat.
Variable inz : option (list Z).
Hypothesis Hinz : forall nz, inz = Some nz -> zin ns nz.
Local Notation d := (length ns).
(* i_zero[m] == i_non_zero[m] *)
Definition matched (iz : list Z) (m : nat) : Prop :=
  match inz with None => False | Some nz => nth m iz 0%Z = nth m nz 0%Z end.
Lemma matched_dec iz m : ~ matched iz m \/ matched iz m.
Proof. unfold matched. destruct inz; [|tauto]. destruct (Z.eq_dec (nth m iz 0%Z) (nth m l 0%Z)); tauto. Qed.

(* one step of the while loop evaluates the condition *)
Lemma cond_eval iz k : zin ns iz -> k < d ->
  exists c, (match inz with
             | None => Ok true
             | Some nz => rbind (lget iz k) (fun a => rbind (lget nz k) (fun b => Ok (negb (a =? b)%Z)))
             end) = Ok c /\ (c = true <-> ~ matched iz k).
Proof.
  intros Hz Hk. unfold matched. destruct inz as [nz|] eqn:E.
  - pose proof (zin_length _ _ Hz). pose proof (zin_length _ _ (Hinz nz eq_refl)).
    rewrite (lget_nth iz k 0%Z), (lget_nth nz k 0%Z) by lia. cbn [rbind].
    eexists; split; [reflexivity|]. destruct (Z.eqb_spec (nth k iz 0%Z) (nth k nz 0%Z)); simpl; split; intros; try tauto; discriminate.
  - exists true. split; [reflexivity|tauto].
Qed.

(* the loop finds the first unmatched mode at cyclic distance j from the cursor *)
Lemma zero_one_found iz : zin ns iz -> forall j fuel k skiped Y, shp ns Y -> k < d ->
  ~ matched iz ((k + j) mod d)%nat -> (skiped + j <= d)%nat -> j < fuel ->
  exists k', k' < d /\ ~ matched iz k' /\
    zero_one K fuel d inz iz Y k skiped =
      Ok (upd Y k' (cset K (nth k' Y dm) O (Z.to_nat (nth k' iz 0%Z)) O 0), S k').
Proof.
  intros Hz. induction j as [|j IH]; intros fuel k skiped Y HS Hk Hm Hsk Hf;
    (destruct fuel as [|fuel]; [lia|]); cbn [zero_one];
    destruct (cond_eval iz k Hz Hk) as (c & -> & Hc); cbn [rbind].
  - rewrite Nat.add_0_r, Nat.mod_small in Hm by auto. destruct c; [|exfalso; apply Hm; destruct (matched_dec iz k) as [N|M]; [apply Hc in N; discriminate|exact M]].
    exists k. repeat split; auto. pose proof (zin_length _ _ Hz).
    rewrite (lget_nth iz k 0%Z) by lia. cbn [rbind].
    rewrite (set_zero_ok ns) by (auto; apply zin_nth; auto). reflexivity.
  - destruct c.
    + exists k. repeat split; [auto|apply Hc; auto|]. pose proof (zin_length _ _ Hz).
      rewrite (lget_nth iz k 0%Z) by lia. cbn [rbind].
      rewrite (set_zero_ok ns) by (auto; apply zin_nth; auto). reflexivity.
    + destruct (Nat.ltb_spec d (S skiped)); [lia|].
      apply IH; auto; try lia.
      * destruct (Nat.leb_spec d (S k)); lia.
      * destruct (Nat.leb_spec d (S k)).
        -- assert (S k = d) by lia. replace ((k + S j) mod d)%nat with ((j + 1 * d) mod d)%nat in Hm by (f_equal; lia).
           rewrite Nat.mod_add in Hm by lia. exact Hm.
        -- replace (S k + j)%nat with (k + S j)%nat by lia. exact Hm.
Qed.
(* ... and raises ValueError when every mode is matched *)
Lemma zero_one_conflict iz : zin ns iz -> (forall m, m < d -> matched iz m) ->
  forall fuel k skiped Y, k < d -> skiped <= d -> (d - skiped < fuel)%nat ->
  zero_one K fuel d inz iz Y k skiped = Err ValueError.
Proof.
  intros Hz Hall. induction fuel as [|fuel IH]; intros k skiped Y Hk Hsk Hf; [lia|].
  cbn [zero_one]. destruct (cond_eval iz k Hz Hk) as (c & -> & Hc). cbn [rbind].
  destruct c; [exfalso; apply Hc; auto|].
  destruct (Nat.ltb_spec d (S skiped)); [reflexivity|].
  apply IH; try lia. destruct (Nat.leb_spec d (S k)); lia.
Qed.

(* what one pass of the outer loop does *)
Lemma zero_one_spec iz Y k : zin ns iz -> shp ns Y -> k < d ->
  (exists k', k' < d /\ ~ matched iz k' /\
     zero_one K (S (S d)) d inz iz Y k O =
       Ok (upd Y k' (cset K (nth k' Y dm) O (Z.to_nat (nth k' iz 0%Z)) O 0), S k'))
  \/ (zero_one K (S (S d)) d inz iz Y k O = Err ValueError /\ inz = Some iz).
Proof.
  intros Hz HS Hk.
  destruct (all_or_ex (matched iz) (fun m => ~ matched iz m) d) as [Hall|(m & Hm & Hnm)].
  - intros m _. destruct (matched_dec iz m); tauto.
  - right. split; [apply zero_one_conflict; auto; lia|].
    unfold matched in Hall. destruct inz as [nz|] eqn:E; [|exfalso; apply (Hall O); lia].
    f_equal. symmetry. pose proof (zin_length _ _ Hz). pose proof (zin_length _ _ (Hinz nz eq_refl)).
    apply (list_eq_nth 0%Z); [congruence|]. intros t Ht. apply Hall. lia.
  - left. apply (zero_one_found iz Hz ((m + d - k) mod d)%nat); auto; try lia.
    + rewrite Nat.add_mod_idemp_r by lia. replace (k + (m + d - k))%nat with (m + 1 * d)%nat by lia.
      rewrite Nat.mod_add, Nat.mod_small by lia. exact Hnm.
    + pose proof (Nat.mod_upper_bound (m + d - k)%nat d). lia.
    + pose proof (Nat.mod_upper_bound (m + d - k)%nat d). lia.
Qed.

(* loop invariant, relative to the initial tensor Y0 *)
Variable Y0 : tt.
Definition inv (Y : tt) : Prop :=
  shp ns Y /\
  (forall k j, k < d -> j < nth k ns O -> ent Y k j = ent Y0 k j \/ ent Y k j = 0) /\
  (forall nz, inz = Some nz -> forall k, k < d -> ent Y k (Z.to_nat (nth k nz 0%Z)) = ent Y0 k (Z.to_nat (nth k nz 0%Z))).
Definition mono (Y Y' : tt) : Prop := forall k j, k < d -> j < nth k ns O -> ent Y k j = 0 -> ent Y' k j = 0.
Definition zero_at (Y : tt) (iz : list Z) : Prop := exists k, k < d /\ ent Y k (Z.to_nat (nth k iz 0%Z)) = 0.

Lemma inv_step Y iz k' : inv Y -> zin ns iz -> k' < d -> ~ matched iz k' ->
  let Y' := upd Y k' (cset K (nth k' Y dm) O (Z.to_nat (nth k' iz 0%Z)) O 0) in
  inv Y' /\ mono Y Y' /\ zero_at Y' iz.
Proof.
  intros (HS & HV & HP) Hz Hk' Hnm Y'.
  assert (E : forall k j, k < d -> j < nth k ns O ->
            ent Y' k j = if (k =? k') && (j =? Z.to_nat (nth k' iz 0%Z)) then 0 else ent Y k j).
  { intros k j Hk Hj. unfold Y'. apply (ent_upd_cset ns); auto. }
  split; [split; [apply shp_upd_cset; auto|split]|split].
  - intros k j Hk Hj. rewrite E by auto. destruct (_ && _); [now right|auto].
  - intros nz Hnz k Hk. pose proof (zin_nth _ _ k (Hinz nz Hnz) Hk) as Hr. rewrite E by (auto; lia).
    destruct (Nat.eqb_spec k k') as [->|Hne]; [|apply HP; auto]. cbn [andb].
    destruct (Nat.eqb_spec (Z.to_nat (nth k' nz 0%Z)) (Z.to_nat (nth k' iz 0%Z))) as [Heq|Hneq]; [|apply HP; auto].
    exfalso. apply Hnm. unfold matched. rewrite Hnz. pose proof (zin_nth _ _ k' Hz Hk'). lia.
  - intros k j Hk Hj H0. rewrite E by auto. destruct (_ && _); auto.
  - exists k'. split; [auto|]. pose proof (zin_nth _ _ k' Hz Hk'). rewrite E by (auto; lia).
    now rewrite !Nat.eqb_refl.
Qed.

Lemma zero_all_spec Iz : Forall (zin ns) Iz -> forall Y k, inv Y -> k < d ->
  match zero_all K d inz Iz Y k with
  | Ok (Y', _) => inv Y' /\ mono Y Y' /\ Forall (zero_at Y') Iz /\ Forall (fun iz => inz <> Some iz) Iz
  | Err e => e = ValueError /\ Exists (fun iz => inz = Some iz) Iz
  end.
Proof.
  induction 1 as [|iz Iz Hz HIz IH]; intros Y k HI Hk; cbn [zero_all].
  - split; [exact HI|split; [intros ? ? ? ? ?; auto|split; constructor]].
  - destruct (zero_one_spec iz Y k Hz (proj1 HI) Hk) as [(k' & Hk' & Hnm & ->)|(-> & Hc)]; cbn [rbind fst snd].
    + destruct (inv_step Y iz k' HI Hz Hk' Hnm) as (HI' & HM & HZ).
      set (Y1 := upd Y k' _) in *.
      specialize (IH Y1 (if d <=? S k' then O else S k') HI').
      destruct (zero_all K d inz Iz Y1 _) as [[Y' kk]|e].
      * destruct IH as (A & B & C & D). { destruct (Nat.leb_spec d (S k')); lia. }
        repeat split; try apply A; auto.
        -- intros a b Ha Hb H0. apply B; auto.
        -- constructor; auto. destruct HZ as (m & Hm & H0). exists m. split; [auto|].
           apply B; auto. pose proof (zin_nth _ _ m Hz Hm). lia.
        -- constructor; auto. intros Heq. apply Hnm. unfold matched. now rewrite Heq.
      * destruct IH as (A & B). { destruct (Nat.leb_spec d (S k')); lia. } split; auto.
    + split; [reflexivity|]. now constructor.
Qed.
End Loop.

(* ---------- const with a zero list ---------- *)
Lemma const_zeros tiny root ns v Iz inz : ns <> [] ->
  Forall (zin ns) Iz -> (forall nz, inz = Some nz -> zin ns nz) ->
  root_law tiny root (length ns) v -> sign_law tiny v ->
  match const K tiny root ns v (Some Iz) inz with
  | Ok Y =>
      shp ns Y /\
      Forall (fun iz => inz <> Some iz) Iz /\
      (forall idx, inb ns idx -> get K Y idx = v \/ get K Y idx = 0) /\
      (forall iz, In iz Iz -> get K Y (map Z.to_nat iz) = 0) /\
      (forall nz, inz = Some nz -> get K Y (map Z.to_nat nz) = v)
  | Err e => e = ValueError /\ Exists (fun iz => inz = Some iz) Iz
  end.
Proof.
  intros Hne HIz Hinz HR HS. unfold const. destruct ns as [|n0 ns']; [congruence|]. set (ns := n0 :: ns') in *.
  set (Y0 := const_plain K tiny root ns v).
  assert (HI0 : inv ns inz Y0 Y0).
  { split; [apply shp_const_plain|split; [intros; now left|intros; reflexivity]]. }
  pose proof (zero_all_spec ns inz Hinz Y0 Iz HIz Y0 O HI0) as H.
  destruct (zero_all K (length ns) inz Iz Y0 O) as [[Y kk]|e]; cbn [rmap fst].
  2:{ apply H. simpl; lia. }
  destruct H as ((HSh & HV & HP) & _ & HZ & HC). { simpl; lia. }
  assert (G0 : forall idx, inb ns idx -> bprod (length ns) (fun k => ent Y0 k (nth k idx O)) = v).
  { intros idx Hi. rewrite <- (get_shp ns) by (auto; apply shp_const_plain). apply const_denote; auto. }
  split; [exact HSh|split; [exact HC|split; [|split]]].
  - intros idx Hi. rewrite (get_shp ns) by auto.
    destruct (all_or_ex (fun k => ent Y k (nth k idx O) = ent Y0 k (nth k idx O))
                        (fun k => ent Y k (nth k idx O) = 0) (length ns)) as [A|(k & Hk & A)].
    + intros k Hk. apply HV; auto. apply inb_nth; auto.
    + left. rewrite (bprod_ext _ _ _ A). auto.
    + right. eapply bprod_zero; eauto.
  - intros iz Hiz. rewrite Forall_forall in HZ, HIz. destruct (HZ iz Hiz) as (k & Hk & H0).
    rewrite (get_shp ns) by (auto; apply zin_inb; auto).
    apply (bprod_zero _ _ k Hk). now rewrite nth_map_to_nat.
  - intros nz Hnz. rewrite (get_shp ns) by (auto; apply zin_inb; auto).
    rewrite <- (G0 (map Z.to_nat nz)) by (apply zin_inb; auto).
    apply bprod_ext. intros k Hk. rewrite nth_map_to_nat. apply HP; auto.
Qed.
(* without a protected index nothing can conflict *)
Lemma const_zeros_noprot_ok tiny root ns v Iz : ns <> [] -> Forall (zin ns) Iz ->
  exists Y, const K tiny root ns v (Some Iz) None = Ok Y.
Proof.
  intros Hne HIz. unfold const. destruct ns as [|n0 ns']; [congruence|]. set (ns := n0 :: ns') in *.
  set (Y0 := const_plain K tiny root ns v).
  assert (HI0 : inv ns None Y0 Y0).
  { split; [apply shp_const_plain|split; [intros; now left|intros; reflexivity]]. }
  assert (Hn : forall nz, @None (list Z) = Some nz -> zin ns nz) by (intros; discriminate).
  pose proof (zero_all_spec ns None Hn Y0 Iz HIz Y0 O HI0) as H.
  destruct (zero_all K (length ns) None Iz Y0 O) as [[Y kk]|e]; cbn [rmap fst]; [eauto|].
  destruct H as (_ & H). { simpl; lia. } apply Exists_exists in H as (? & _ & ?). discriminate.
Qed.

(* ---------- delta ---------- *)
(* positions as the code receives them: numpy normalises -n <= z < 0 to n + z *)
Definition zpos (ns : list nat) (i : list Z) : Prop := Forall2 (fun z n => (- Z.of_nat n <= z < Z.of_nat n)%Z) i ns.
Definition npos (ns : list nat) (i : list Z) : list nat :=
  map (fun zn => Z.to_nat (fst zn mod Z.of_nat (snd zn))) (combine i ns).
Lemma npos_inb ns i : zpos ns i -> inb ns (npos ns i).
Proof.
  intros H. unfold inb, npos. induction H; simpl; constructor; auto.
  pose proof (Z.mod_pos_bound x (Z.of_nat y)). lia.
Qed.
Lemma delta_fill_spec rho ns : forall i, zpos ns i ->
  exists Y, delta_fill K rho (map (fun k => cfull 1%nat k 1%nat 0) ns) i = Ok Y /\ shp ns Y /\
    forall k j, k < length ns -> j < nth k ns O -> ent Y k j = if j =? nth k (npos ns i) O then rho else 0.
Proof.
  induction ns as [|n ns IH]; intros i Hi; inversion Hi as [|z ? i' ? Hz Hi']; subst.
  - exists []. split; [reflexivity|]. split; [split; [reflexivity|]|]; simpl; intros; lia.
  - destruct (IH i' Hi') as (Y & E & HS & HE). cbn [map delta_fill].
    change (cn (cfull 1%nat n 1%nat 0)) with n. rewrite np_index_ok by auto. cbn [rbind]. rewrite E. cbn [rbind].
    eexists; split; [reflexivity|]. split.
    + destruct HS as [HL H]. split; [simpl; now rewrite HL|]. intros [|k] Hk; [repeat split|]. apply (H k). simpl in Hk; lia.
    + intros [|k] j Hk Hj.
      * unfold ent. cbn [nth npos combine map fst snd] in *. rewrite cget_cset by (simpl; lia).
        cbn [Nat.eqb andb]. rewrite andb_true_r. destruct (j =? _); [reflexivity|]. apply cget_cfull; lia.
      * cbn [nth npos combine map] in *. apply (HE k j); [simpl in Hk; lia|exact Hj].
Qed.
Lemma delta_denote tiny root ns i v : ns <> [] -> zpos ns i ->
  root_law tiny root (length ns) v -> sign_law tiny v ->
  exists Y, delta K tiny root ns i v = Ok Y /\ shp ns Y /\
    get K Y (npos ns i) = v /\
    forall idx, inb ns idx -> idx <> npos ns i -> get K Y idx = 0.
Proof.
  intros Hne Hi HR HS. unfold delta. destruct ns as [|n0 ns']; [congruence|]. set (ns := n0 :: ns') in *.
  destruct (delta_fill_spec (root_of K tiny root v) ns i Hi) as (Y & -> & HSh & HE). cbn [rbind].
  eexists; split; [reflexivity|]. split; [now apply shp_map_last_cmap|].
  set (s := sign_of K tiny v). set (rho := root_of K tiny root v) in *.
  assert (G : forall idx, inb ns idx -> get K (map_last (cmap K (fun x => x * s)) Y) idx =
            bprod (length ns) (fun k => if nth k idx O =? nth k (npos ns i) O then rho else 0) * s).
  { intros idx HI. rewrite (get_shp ns) by (auto; now apply shp_map_last_cmap).
    rewrite <- (bprod_scale_last (length ns)) by (simpl; lia). apply bprod_ext. intros k Hk.
    pose proof (inb_nth _ _ k HI Hk). rewrite (ent_map_last_cmap ns) by auto. rewrite HE by auto. reflexivity. }
  split.
  - rewrite G by (apply npos_inb; auto).
    rewrite (bprod_ext _ _ (fun _ => rho)) by (intros; now rewrite Nat.eqb_refl).
    rewrite bprod_const. now apply const_value.
  - intros idx HI Hne'. rewrite G by auto.
    assert (exists k, k < length ns /\ nth k idx O <> nth k (npos ns i) O) as (k & Hk & Hd).
    { destruct (all_or_ex (fun k => nth k idx O = nth k (npos ns i) O) (fun k => nth k idx O <> nth k (npos ns i) O)
                          (length ns)) as [A|A]; [intros; lia| |exact A].
      exfalso. apply Hne'. apply (list_eq_nth O).
      - rewrite (inb_length _ _ HI). symmetry. apply inb_length, npos_inb; auto.
      - rewrite (inb_length _ _ HI). exact A. }
    rewrite (bprod_zero _ _ k Hk); [ring|]. destruct (Nat.eqb_spec (nth k idx O) (nth k (npos ns i) O)); [contradiction|reflexivity].
Qed.
(* an out-of-range position raises IndexError *)
Lemma delta_out_of_range tiny root ns i v k : ns <> [] -> length i = length ns -> k < length ns ->
  (nth k i 0%Z < - Z.of_nat (nth k ns O) \/ Z.of_nat (nth k ns O) <= nth k i 0%Z)%Z ->
  (forall t, t < k -> (- Z.of_nat (nth t ns O) <= nth t i 0%Z < Z.of_nat (nth t ns O))%Z) ->
  delta K tiny root ns i v = Err IndexError.
Proof.
  intros Hne HL Hk Hbad Hpre. unfold delta. destruct ns as [|n0 ns']; [congruence|]. set (ns := n0 :: ns') in *.
  assert (E : delta_fill K (root_of K tiny root v) (map (fun k => cfull 1%nat k 1%nat 0) ns) i = Err IndexError).
  { clearbody ns. clear Hne. revert i k HL Hk Hbad Hpre. induction ns as [|n ns IH]; intros [|z i] k HL Hk Hbad Hpre; simpl in HL, Hk; try lia.
    cbn [map delta_fill]. change (cn (cfull 1%nat n 1%nat 0)) with n. destruct k as [|k].
    - cbn [nth] in Hbad. now rewrite np_index_err.
    - rewrite np_index_ok by (apply (Hpre O); lia). cbn [rbind].
      rewrite (IH i k); auto; try lia. intros t Ht. apply (Hpre (S t)). lia. }
  now rewrite E.
Qed.
End TensorsP.

(* ---------- the sign law |v| * (|v| / v) = v holds over the rationals ---------- *)
From Coq Require Import QArith Qcanon Field.
Lemma Qc_ltb_lt a b : Qc_ltb a b = true <-> (a < b)%Qc.
Proof. unfold Qc_ltb. rewrite Qclt_alt. destruct (a ?= b)%Qc; split; congruence. Qed.
Lemma Qc_sign_law tiny v : (0 <= tiny)%Qc -> sign_law OQc tiny v.
Proof.
  intros Ht Hb. unfold big in Hb. cbn [oltb oabs OQc] in Hb. apply Qc_ltb_lt in Hb.
  cbn [oabs odiv omul OQc].
  assert (Hv : v <> 0%Qc).
  { intros ->. assert (E : Qc_abs 0%Qc = 0%Qc) by reflexivity. change (Q2Qc 0) with 0%Qc in *. rewrite E in Hb.
    apply (Qclt_not_le _ _ Hb Ht). }
  unfold Qc_abs. destruct (Qc_ltb v (Q2Qc 0)); field; exact Hv.
Qed.

