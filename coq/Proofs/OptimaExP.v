(* C15: the oracle contracts are satisfiable (non-vacuity), concrete instances of the hypotheses, and the exact
   counterexample to "rank 1 => true minimum and maximum for every k". *)
From Coq Require Import List Arith Lia PeanoNat ZArith QArith Qcanon Bool Permutation Sorted Reals Lra Psatz.
From TV Require Import Num.Ops Lin.Tab Lin.BigSum Lin.Mat TT.Chain Model.ActOne Model.GridInd Model.Optima
  Proofs.ActOneP Proofs.ActOneP2 Proofs.ActOneP3 Proofs.GridIndP Proofs.OptimaP Proofs.OptimaP2 Proofs.OptimaRP Proofs.OptimaQP.
Import ListNotations.
Local Open Scope nat_scope.

(* ---------- argsort: the stable insertion sort of Model/Optima.v meets the contract at the reals ---------- *)
Section Sort.
Local Open Scope R_scope.
Variable l : list R.
Let v (t : nat) : R := nth t l 0.
Let le_idx (a b : nat) : Prop := v a <= v b.

Lemma ins_perm t acc : Permutation (ins_idx OR l t acc) (t :: acc).
Proof.
  induction acc as [|u acc IH]; cbn [ins_idx]; [reflexivity|].
  destruct (oltb OR _ _); [reflexivity|]. rewrite IH. apply perm_swap.
Qed.
Lemma ins_sorted t acc : StronglySorted le_idx acc -> StronglySorted le_idx (ins_idx OR l t acc).
Proof.
  induction acc as [|u acc IH]; intros H; cbn [ins_idx].
  - constructor; constructor.
  - change (oltb OR (nth t l (o0 OR)) (nth u l (o0 OR))) with (Rltb (v t) (v u)).
    inversion H as [|? ? SS F]; subst.
    destruct (Rltb (v t) (v u)) eqn:E; [apply Rltb_true in E|apply Rltb_false in E].
    + constructor; [exact H|]. constructor; [unfold le_idx; lra|].
      eapply Forall_impl; [|exact F]. unfold le_idx. intros a Ha. lra.
    + constructor; [apply IH; exact SS|].
      apply (Permutation_Forall (Permutation_sym (ins_perm t acc))). constructor; [exact E|exact F].
Qed.
Lemma fold_ins ts : forall acc, StronglySorted le_idx acc ->
  StronglySorted le_idx (fold_left (fun acc t => ins_idx OR l t acc) ts acc) /\
  Permutation (fold_left (fun acc t => ins_idx OR l t acc) ts acc) (ts ++ acc).
Proof.
  induction ts as [|t ts IH]; intros acc H; cbn [fold_left app]; [split; [exact H|reflexivity]|].
  destruct (IH _ (ins_sorted t acc H)) as [S P]. split; [exact S|].
  rewrite P. rewrite (ins_perm t acc). symmetry. apply Permutation_middle.
Qed.
Lemma ss_nth p : StronglySorted le_idx p -> forall i j, (i <= j)%nat -> (j < length p)%nat ->
  le_idx (nth i p O) (nth j p O).
Proof.
  induction 1 as [|a p SS IH F]; intros i j Hij Hj; cbn [length] in Hj; [lia|].
  destruct i, j; cbn [nth]; try lia.
  - unfold le_idx; lra.
  - rewrite Forall_forall in F. apply F, nth_In. lia.
  - apply IH; lia.
Qed.
Lemma argsort_ins_ok1 : Permutation (argsort_ins OR l) (seq 0 (length l)) /\ asc l (argsort_ins OR l).
Proof.
  unfold argsort_ins. destruct (fold_ins (seq 0 (length l)) [] (SSorted_nil _)) as [S P]. split.
  - rewrite P. now rewrite app_nil_r.
  - intros i j Hij Hj. apply (ss_nth _ S i j Hij Hj).
Qed.
End Sort.
Lemma argsort_ins_ok : argsort_ok (fun _ l => argsort_ins OR l).
Proof. intros c l. apply argsort_ins_ok1. Qed.

(* ---------- orthogonalize: the identity gauge (Z = Y, p = 0) meets the contract ---------- *)
Definition orth_id : nat -> list (core R) -> nat -> list (core R) * Z := fun _ Y _ => (Y, 0%Z).
Lemma orth_id_ok : orth_ok orth_id.
Proof.
  intros c Y piv HC. cbn [orth_id fst]. split; [exact HC|]. split; [reflexivity|]. split; [|auto].
  exists 1%R. intros idx _. ring.
Qed.

(* ---------- x**(1/d): Rpower meets the contract ---------- *)
Definition droot_R (x : R) (d : nat) : R := Rpower x (/ INR d).
Lemma pown_pow x n : pown OR x n = (x ^ n)%R.
Proof. induction n; cbn [pown pow]; [reflexivity|]. rewrite IHn. reflexivity. Qed.
Lemma droot_R_ok : droot_ok droot_R.
Proof.
  intros x d Hx Hd. rewrite pown_pow. unfold droot_R.
  rewrite <- Rpower_pow by (unfold Rpower; apply exp_pos).
  rewrite Rpower_mult. rewrite Rinv_l by (apply not_0_INR; lia). apply Rpower_1. exact Hx.
Qed.

Lemma contracts_satisfiable : exists argsort orth droot (pow2frac : Z -> nat -> R),
  argsort_ok argsort /\ orth_ok orth /\ droot_ok droot /\ (forall p d, pow2frac p d <> 0%R).
Proof.
  exists (fun _ l => argsort_ins OR l), orth_id, droot_R, (fun _ _ => 1%R).
  split; [exact argsort_ins_ok|]. split; [exact orth_id_ok|]. split; [exact droot_R_ok|]. intros _ _. lra.
Qed.

(* ---------- concrete tensors meeting the hypotheses ---------- *)
Definition rvec (l : list R) : core R := mk_core 1 (length l) 1 [map (fun x => [x]) l].
(* rank 1, shape [3; 2; 3] (the tensor of the known finding K1) *)
Definition Y_r1 : list (core R) := [rvec [1; -2; 1]; rvec [-3; 1]; rvec [2; -3; -2]]%R.
(* rank 2, shape [2; 2] *)
Definition Y_r2 : list (core R) :=
  [mk_core 1 2 2 [[[1; 0]; [0; 1]]]; mk_core 2 2 1 [[[3]; [-1]]; [[2]; [5]]]]%R.
Lemma example_good : good Y_r1 /\ rank1 Y_r1 /\ exact_cond Y_r1 1 /\ good Y_r2 /\ ~ rank1 Y_r2 /\ exact_cond Y_r2 4.
Proof.
  assert (G1 : good Y_r1) by (split; [cbn; auto|]; split; [cbn; lia|]; cbn; repeat constructor).
  assert (R1 : rank1 Y_r1) by (repeat constructor).
  assert (G2 : good Y_r2) by (split; [cbn; auto|]; split; [cbn; lia|]; cbn; repeat constructor).
  split; [exact G1|]. split; [exact R1|]. split; [right; split; [exact R1|lia]|]. split; [exact G2|]. split.
  - intros H. inversion H as [|? ? [_ A] _]. cbn in A. discriminate.
  - left. cbn. lia.
Qed.

(* optima_qtt: shape [2; 2] = [2^1]*2, the quantisation with q = 1 is the identity *)
Lemma example_qtt : good Y_r2 /\ shape Y_r2 = repeat (2 ^ 1) 2 /\ qtt_ok_at (fun Y => Y) Y_r2 1 2.
Proof.
  split; [apply example_good|]. split; [reflexivity|]. split; [cbn; auto|]. split; [reflexivity|].
  intros b idx Hb E. change (shape Y_r2) with [2; 2]%nat in Hb.
  inversion Hb as [|i ? b1 ? Hi Hb1]; subst. inversion Hb1 as [|j ? b2 ? Hj Hb2]; subst. inversion Hb2; subst.
  destruct i as [|[|i]]; [| |lia]; (destruct j as [|[|j]]; [| |lia]); cbn in E; inversion E; reflexivity.
Qed.

(* ---------- the refutation: rank 1, k = 1, exact arithmetic (Qc), oracles meeting the contracts ---------- *)
Definition qz (z : Z) : Qc := Q2Qc (inject_Z z).
Definition qvec (l : list Z) : core Qc := mk_core 1 (length l) 1 [map (fun z => [qz z]) l].
(* [-2,-1] x [-4,0] x [1,1]: entries {8, 4, 0}; maximum modulus 8 = 2^3 *)
Definition Y_ref : list (core Qc) := [qvec [-2; -1]; qvec [-4; 0]; qvec [1; 1]]%Z.
Definition ref_result : list nat * Qc * list nat * Qc :=
  optima_tt OQc (fun _ l => argsort_ins OQc l) (fun _ Y _ => (Y, 0%Z)) (fun _ _ => qz 1) (fun _ _ => qz 2) 0 0 Y_ref 1.
(* the identity gauge, the sorting permutation, 2^(p/d) = 1 and 8^(1/3) = 2 meet the contracts; the model reports the
   minimum 4 at [1;0;1] although the entry at [0;1;0] is 0 *)
Lemma rank1_minmax_refuted :
  Forall (fun G => cr1 G = 1%nat /\ cr2 G = 1%nat) Y_ref /\
  fst (fst (fst ref_result)) = [1; 0; 1]%nat /\
  Qc_eqb (snd (fst (fst ref_result))) (qz 4) = true /\ Qc_eqb (get OQc Y_ref [1; 0; 1]%nat) (qz 4) = true /\
  Qc_eqb (get OQc Y_ref [0; 1; 0]%nat) (qz 0) = true /\
  Qc_ltb (get OQc Y_ref [0; 1; 0]%nat) (snd (fst (fst ref_result))) = true /\
  Qc_eqb (omul OQc (qz 2) (omul OQc (qz 2) (qz 2))) (qz 8) = true.
Proof. split; [repeat constructor|]. vm_compute. repeat split. Qed.
