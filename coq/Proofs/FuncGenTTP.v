(* C12, func_int_general + func_get with a user basis, whole TT-tensor: data sampled from ANY function in the span of
   the basis (coefficient TT-tensor Cs, basis matrices Hs = values of the basis functions at the sample points) is
   fitted exactly, and evaluation with the user's basis functions returns that function. *)
From Coq Require Import List Arith Lia Ring PeanoNat ZArith Bool.
From TV Require Import Num.Ops Lin.Tab Lin.BigSum Lin.Mat TT.Chain Model.Func Proofs.FuncP.
Import ListNotations.

Lemma Forall2_len {A B} (P : A -> B -> Prop) l l' : Forall2 P l l' -> length l = length l'.
Proof. induction 1; cbn [length]; auto. Qed.

Section GenTT.
Context {T : Type} (K : ops T).
Notation "0" := (o0 K). Notation "1" := (o1 K).
Infix "+" := (oadd K). Infix "*" := (omul K).
Hypothesis Rth : rng K.
Add Ring RrFuncGenTTP : Rth.

Lemma chain_ceq : forall Y Y', Forall2 (ceq K) Y Y' -> forall r rl, chain r Y' rl -> chain r Y rl.
Proof.
  induction 1 as [|G G' Y Y' (E1 & E2 & E3 & E) HF IH]; intros r rl H; cbn [chain] in *; auto.
  destruct H as [A B]. split; [congruence|]. rewrite E3. auto.
Qed.
Lemma ceq_sym G G' : ceq K G G' -> ceq K G' G.
Proof.
  intros (E1 & E2 & E3 & E). repeat split; auto. intros a i b Ha Hi Hb. symmetry. apply E; congruence.
Qed.
(* the basis matrices as mode-wise maps: Hms Hs = [(number of sample points, H_k)] *)
Definition Hms (Hs : list (mat T)) : list (nat * (nat -> nat -> T)) := map (fun H => (mr H, mget K H)) Hs.
(* in_span core by core = the data tensor is the coefficient tensor pushed through the basis matrices *)
Lemma in_span_tmode : forall Y Hs Cs, Forall2 (fun HG C => in_span K (fst HG) (snd HG) C) (combine Hs Y) Cs ->
  length Hs = length Y -> Forall2 (ceq K) Y (tmode K (Hms Hs) Cs).
Proof.
  induction Y as [|G Y IH]; intros [|H Hs] Cs HF L; cbn [length] in L; try discriminate; cbn [combine] in HF.
  - inversion HF; subst. constructor.
  - inversion HF as [|? C ? Cs' (E0 & E1 & E2 & E3 & E) HF']; subst. cbn [fst snd] in *. cbn [Hms map tmode fst snd].
    constructor; [|apply IH; auto].
    unfold ceq, cmode. rewrite cr1_mk, cn_mk, cr2_mk. repeat split; auto.
    intros a i b Ha Hi Hb. rewrite cget_mk by (auto; lia). rewrite E2. now apply E.
Qed.

Variable lstsq : nat -> mat T -> mat T -> mat T.
Hypothesis Hls : forall k H M, lstsq_ok K lstsq k H M.

Theorem int_general_tt_exact Y Hs Cs : chain 1 Cs 1 ->
  Forall2 (fun HG C => in_span K (fst HG) (snd HG) C /\ full_col_rank K (fst HG)) (combine Hs Y) Cs ->
  length Hs = length Y ->
  let A := func_int_general K lstsq Y Hs in
  (* the data are the samples of the function with coefficient tensor Cs *)
  (forall idx, inb (shape Y) idx ->
     get K Y idx = msum K (shape Cs) (fun m => mprod K (map snd (Hms Hs)) idx m * get K Cs m)) /\
  (* the fit returns the coefficients *)
  chain 1 A 1 /\ shape A = shape Cs /\ (forall m, inb (shape Cs) m -> get K A m = get K Cs m) /\
  (* and func_get with the user's basis (ts = values of the basis functions at the point) returns the function *)
  (forall tol x a b z ts, length ts = length Cs ->
     func_get1_rows K tol x A a b z false ts = msum K (shape Cs) (fun m => bprod K ts m * get K Cs m)).
Proof.
  intros HC HF L A.
  assert (HA : Forall2 (ceq K) A Cs) by (apply (general_from_exact K lstsq Hls); auto).
  assert (SA : shape A = shape Cs) by (now apply (ceq_shape K)).
  assert (CA : chain 1 A 1) by (apply (chain_ceq A Cs); auto).
  assert (LC : length Cs = length Y).
  { apply Forall2_len in HF. rewrite combine_length in HF. lia. }
  split; [|split; [exact CA|split; [exact SA|split]]].
  - intros idx Hi.
    assert (HS : Forall2 (fun HG C => in_span K (fst HG) (snd HG) C) (combine Hs Y) Cs).
    { clear - HF. induction HF as [|? ? ? ? [P1 P2] ? IH]; constructor; auto. }
    pose proof (in_span_tmode Y Hs Cs HS L) as HT.
    rewrite (get_ceq K Y _ idx HT Hi). apply (modewise_linear K Rth); auto.
    + unfold Hms. rewrite map_length. lia.
    + rewrite <- (shape_tmode K (Hms Hs) Cs) by (unfold Hms; rewrite map_length; lia).
      rewrite <- (ceq_shape K _ _ HT). exact Hi.
  - intros m Hm. apply (get_ceq K); auto. now rewrite SA.
  - intros tol x a b z ts Lt. unfold func_get1_rows. cbn [andb].
    assert (LA : length A = length Cs) by (apply Forall2_len in HA; exact HA).
    rewrite (contract_basis_msum K Rth) by (auto; lia). rewrite SA.
    apply (msum_ext K); intros m Hm. f_equal. apply (get_ceq K); auto. now rewrite SA.
Qed.
End GenTT.
