(* C16: exponent bookkeeping of orthogonalize(use_stab=True) and the redistribution of truncate(use_stab=True).
   orthogonalize_left / orthogonalize_right are oracles with the contract "the product of the two cores they
   touch is preserved" ([pair_ok]; proved from the QR / RQ contract under C04).  Ring-generic, every log2 oracle. *)
From Coq Require Import List Arith Lia PeanoNat ZArith Ring Bool.
From TV Require Import Num.Ops Lin.Tab Lin.BigSum TT.Chain Model.ActOne Model.Stab Proofs.StabP.
Import ListNotations.

Section StabOrth.
Context {T : Type} (K : ops T).
Notation "0" := (o0 K). Notation "1" := (o1 K).
Infix "+" := (oadd K). Infix "*" := (omul K). Infix "-" := (osub K). Infix "/" := (odiv K).
Notation pow2 := (opow2 K).

Variable ilog2 : T -> Z.
Variable thr : T.
Variable orth_l orth_r : nat -> core T -> core T -> core T * core T.

Hypothesis Rth : rng K.
Add Ring RrStabO : Rth.
Hypothesis Hpow_add : forall a b : Z, pow2 (a + b) = pow2 a * pow2 b.
Hypothesis Hpow_0 : pow2 0%Z = 1.
Hypothesis Hdiv : forall x p, (x / pow2 p) * pow2 p = x.

(* contract of one orthogonalisation step on the pair (G1, G2) -> (H1, H2) *)
Definition pair_ok (G1 G2 H1 H2 : core T) : Prop :=
  cr1 H1 = cr1 G1 /\ cn H1 = cn G1 /\ cr2 H1 = cr1 H2 /\ cn H2 = cn G2 /\ cr2 H2 = cr2 G2 /\
  forall a i j b, (a < cr1 G1)%nat -> (i < cn G1)%nat -> (j < cn G2)%nat -> (b < cr2 G2)%nat ->
    bsum K (cr2 H1) (fun c => cget K H1 a i c * cget K H2 c j b)
    = bsum K (cr2 G1) (fun c => cget K G1 a i c * cget K G2 c j b).

(* ---------- wfo over concatenations ---------- *)
Lemma wfo_app_inv (A : list (core T)) : forall B idx r rl, wfo r (A ++ B) idx rl ->
  exists i1 i2 rm, idx = i1 ++ i2 /\ length i1 = length A /\ wfo r A i1 rm /\ wfo rm B i2 rl.
Proof.
  induction A as [|G A IH]; intros B idx r rl W.
  - exists [], idx, r. cbn. auto.
  - destruct idx as [|i idx]; cbn [app wfo] in W; [tauto|]. destruct W as (E & Hi & W).
    destruct (IH _ _ _ _ W) as (i1 & i2 & rm & -> & L & W1 & W2).
    exists (i :: i1), i2, rm. cbn [app length wfo]. repeat split; auto.
Qed.
Lemma wfo_app (A : list (core T)) : forall B i1 i2 r rm rl, wfo r A i1 rm -> wfo rm B i2 rl -> wfo r (A ++ B) (i1 ++ i2) rl.
Proof.
  induction A as [|G A IH]; intros B [|i i1] i2 r rm rl; cbn [app wfo]; try tauto.
  - intros -> W; exact W.
  - intros (E & Hi & W1) W2. repeat split; auto. eapply IH; eauto.
Qed.

(* ---------- S1: replacing an adjacent pair by a pair with the same product ---------- *)
Lemma vstep_pair u (G1 G2 : core T) i j b : cr2 G1 = cr1 G2 -> (b < cr2 G2)%nat ->
  nth b (vstep K (vstep K u G1 i) G2 j) 0
  = bsum K (cr1 G1) (fun a => nth a u 0 * bsum K (cr2 G1) (fun c => cget K G1 a i c * cget K G2 c j b)).
Proof.
  intros E Hb. rewrite nth_vstep by auto. rewrite <- E.
  rewrite (bsum_ext K (cr2 G1) _ (fun c => bsum K (cr1 G1) (fun a => nth a u 0 * (cget K G1 a i c * cget K G2 c j b)))).
  2:{ intros c Hc. rewrite nth_vstep by auto. rewrite <- bsum_mul_r by auto. apply bsum_ext; intros a Ha. ring. }
  rewrite bsum_swap by auto. apply bsum_ext; intros a Ha. now rewrite bsum_mul_l by auto.
Qed.
Lemma vstep_pair_eq u G1 G2 H1 H2 i j : cr2 G1 = cr1 G2 -> (i < cn G1)%nat -> (j < cn G2)%nat ->
  pair_ok G1 G2 H1 H2 ->
  vstep K (vstep K u H1 i) H2 j = vstep K (vstep K u G1 i) G2 j.
Proof.
  intros E Hi Hj (A1 & A2 & A3 & A4 & A5 & P). apply (list_eq_nth 0).
  - rewrite !vstep_length. exact A5.
  - rewrite vstep_length. intros b Hb. rewrite !vstep_pair by (auto; lia). rewrite A1.
    apply bsum_ext; intros a Ha. f_equal. apply P; auto; lia.
Qed.
Lemma run_pair A G1 G2 H1 H2 B v idx r rl : wfo r (A ++ G1 :: G2 :: B) idx rl -> pair_ok G1 G2 H1 H2 ->
  wfo r (A ++ H1 :: H2 :: B) idx rl /\
  run K v (A ++ H1 :: H2 :: B) idx = run K v (A ++ G1 :: G2 :: B) idx.
Proof.
  intros W P. destruct (wfo_app_inv _ _ _ _ _ W) as (i1 & i2 & rm & -> & L & W1 & W2).
  destruct i2 as [|i [|j i2]]; cbn [wfo] in W2; try tauto.
  destruct W2 as (E1 & Hi & E2 & Hj & W3). split.
  - eapply wfo_app; [exact W1|]. cbn [wfo]. destruct P as (A1 & A2 & A3 & A4 & A5 & _).
    rewrite A1, A2, A3, A4, A5. repeat split; auto.
  - rewrite !run_app by auto. cbn [run]. rewrite (vstep_pair_eq _ G1 G2 H1 H2) by auto. reflexivity.
Qed.

(* ---------- S2: replacing one core by its stabilised version ---------- *)
Lemma vstep_core_stab u G p i : wfdat G -> (i < cn G)%nat ->
  vscale K (pow2 (snd (core_stab K ilog2 thr G p))) (vstep K u (fst (core_stab K ilog2 thr G p)) i)
  = vscale K (pow2 p) (vstep K u G i).
Proof.
  intros W Hi. destruct (core_stab_dims K ilog2 thr G p) as (D1 & D2 & D3).
  apply (list_eq_nth 0).
  - unfold vscale. rewrite !map_length, !vstep_length. exact D3.
  - unfold vscale at 1. rewrite map_length, vstep_length, D3. intros b Hb.
    rewrite !(nth_vscale K Rth). rewrite !nth_vstep by lia. rewrite D1.
    rewrite <- !bsum_mul_l by auto. apply bsum_ext; intros a Ha.
    transitivity (nth a u 0 * (cget K (fst (core_stab K ilog2 thr G p)) a i b * pow2 (snd (core_stab K ilog2 thr G p)))); [ring|].
    rewrite (core_stab_exact K ilog2 thr Rth Hpow_add Hdiv) by auto. ring.
Qed.
Lemma run_core_stab A G B p v idx r rl : wfo r (A ++ G :: B) idx rl -> wfdat G ->
  wfo r (A ++ fst (core_stab K ilog2 thr G p) :: B) idx rl /\
  vscale K (pow2 (snd (core_stab K ilog2 thr G p))) (run K v (A ++ fst (core_stab K ilog2 thr G p) :: B) idx)
  = vscale K (pow2 p) (run K v (A ++ G :: B) idx).
Proof.
  intros W Wd. destruct (wfo_app_inv _ _ _ _ _ W) as (i1 & i2 & rm & -> & L & W1 & W2).
  destruct i2 as [|i i2]; cbn [wfo] in W2; try tauto. destruct W2 as (E1 & Hi & W3).
  destruct (core_stab_dims K ilog2 thr G p) as (D1 & D2 & D3). split.
  - eapply wfo_app; [exact W1|]. cbn [wfo]. rewrite D1, D2, D3. auto.
  - rewrite !run_app by auto. cbn [run]. rewrite <- !(run_scale K Rth). now rewrite vstep_core_stab.
Qed.

Hypothesis orth_l_ok : forall c G1 G2, cr2 G1 = cr1 G2 ->
  pair_ok G1 G2 (fst (orth_l c G1 G2)) (snd (orth_l c G1 G2)) /\ wfdat (snd (orth_l c G1 G2)).
Hypothesis orth_r_ok : forall c G1 G2, cr2 G1 = cr1 G2 ->
  pair_ok G1 G2 (fst (orth_r c G1 G2)) (snd (orth_r c G1 G2)) /\ wfdat (fst (orth_r c G1 G2)).

(* ---------- the two sweeps keep  2^p * (chain)  invariant ---------- *)
Lemma sweep_l_inv k : forall c Zs p A v idx r rl, wfo r (A ++ Zs) idx rl ->
  let res := sweep_l K ilog2 thr orth_l c k Zs p in
  wfo r (A ++ fst res) idx rl /\
  vscale K (pow2 (snd res)) (run K v (A ++ fst res) idx) = vscale K (pow2 p) (run K v (A ++ Zs) idx).
Proof.
  induction k as [|k IH]; intros c Zs p A v idx r rl W; cbv zeta.
  - cbn [sweep_l fst snd]. auto.
  - destruct Zs as [|G1 [|G2 Z']]; cbn [sweep_l fst snd]; auto.
    destruct (wfo_app_inv _ _ _ _ _ W) as (i1 & i2 & rm & Ei & L & W1 & W2).
    assert (E12 : cr2 G1 = cr1 G2).
    { destruct i2 as [|i [|j i2]]; cbn [wfo] in W2; try tauto. destruct W2 as (_ & _ & E & _). auto. }
    destruct (orth_l_ok c G1 G2 E12) as (P & Wd).
    set (qg := orth_l c G1 G2) in *.
    destruct (run_pair A G1 G2 (fst qg) (snd qg) Z' v idx r rl W P) as (Wa & Ea).
    replace (A ++ fst qg :: snd qg :: Z') with ((A ++ [fst qg]) ++ snd qg :: Z') in Wa, Ea
      by (rewrite <- app_assoc; reflexivity).
    destruct (run_core_stab (A ++ [fst qg]) (snd qg) Z' p v idx r rl Wa Wd) as (Wb & Eb).
    set (gp := core_stab K ilog2 thr (snd qg) p) in *.
    destruct (IH (S c) (fst gp :: Z') (snd gp) (A ++ [fst qg]) v idx r rl Wb) as (Wc & Ec).
    set (rp := sweep_l K ilog2 thr orth_l (S c) k (fst gp :: Z') (snd gp)) in *.
    replace (A ++ fst qg :: fst rp) with ((A ++ [fst qg]) ++ fst rp) by (rewrite <- app_assoc; reflexivity).
    split; [exact Wc|]. rewrite Ec, Eb, Ea. reflexivity.
Qed.
(* the right sweep walks the reversed list; B is the (already finished) right end in natural order *)
Lemma sweep_r_inv m : forall c Zr p B v idx r rl, wfo r (rev Zr ++ B) idx rl ->
  let res := sweep_r K ilog2 thr orth_r c m Zr p in
  wfo r (rev (fst res) ++ B) idx rl /\
  vscale K (pow2 (snd res)) (run K v (rev (fst res) ++ B) idx) = vscale K (pow2 p) (run K v (rev Zr ++ B) idx).
Proof.
  induction m as [|m IH]; intros c Zr p B v idx r rl W; cbv zeta.
  - cbn [sweep_r fst snd]. auto.
  - destruct Zr as [|G2 [|G1 Z']]; cbn [sweep_r fst snd]; auto.
    assert (EN : rev (G2 :: G1 :: Z') ++ B = rev Z' ++ G1 :: G2 :: B).
    { cbn [rev]. rewrite <- !app_assoc. reflexivity. }
    rewrite EN in W |- *.
    destruct (wfo_app_inv _ _ _ _ _ W) as (i1 & i2 & rm & Ei & L & W1 & W2).
    assert (E12 : cr2 G1 = cr1 G2).
    { destruct i2 as [|i [|j i2]]; cbn [wfo] in W2; try tauto. destruct W2 as (_ & _ & E & _). auto. }
    destruct (orth_r_ok c G1 G2 E12) as (P & Wd).
    set (gq := orth_r c G1 G2) in *.
    destruct (run_pair (rev Z') G1 G2 (fst gq) (snd gq) B v idx r rl W P) as (Wa & Ea).
    destruct (run_core_stab (rev Z') (fst gq) (snd gq :: B) p v idx r rl Wa Wd) as (Wb & Eb).
    set (gp := core_stab K ilog2 thr (fst gq) p) in *.
    assert (EN2 : rev Z' ++ fst gp :: snd gq :: B = rev (fst gp :: Z') ++ snd gq :: B).
    { cbn [rev]. rewrite <- app_assoc. reflexivity. }
    rewrite EN2 in Wb, Eb.
    destruct (IH (S c) (fst gp :: Z') (snd gp) (snd gq :: B) v idx r rl Wb) as (Wc & Ec).
    set (rp := sweep_r K ilog2 thr orth_r (S c) m (fst gp :: Z') (snd gp)) in *.
    assert (EN3 : rev (snd gq :: fst rp) ++ B = rev (fst rp) ++ snd gq :: B).
    { cbn [rev]. rewrite <- app_assoc. reflexivity. }
    rewrite EN3. split; [exact Wc|]. rewrite Ec, Eb, Ea. reflexivity.
Qed.

(* orthogonalize(Y, k, use_stab=True) = (Z, p):  Z is well formed on the same index set and 2^p Z = Y entrywise *)
Theorem orthogonalize_stab_exact Y k Zs p idx :
  orthogonalize_stab K ilog2 thr orth_l orth_r Y k = Ok (Zs, p) -> wf 1 Y idx ->
  wf 1 Zs idx /\ pow2 p * get K Zs idx = get K Y idx.
Proof.
  unfold orthogonalize_stab. destruct (length Y - 1 <? k)%nat; [discriminate|].
  intros E W. injection E as <- <-. apply wf_wfo in W.
  set (lp := sweep_l K ilog2 thr orth_l 0 k Y 0%Z).
  destruct (sweep_l_inv k 0%nat Y 0%Z [] [1] idx 1%nat 1%nat W) as (Wl & El). fold lp in Wl, El.
  cbn [app] in Wl, El.
  set (rp := sweep_r K ilog2 thr orth_r k (length Y - 1 - k) (rev (fst lp)) (snd lp)).
  assert (Wl' : wfo 1 (rev (rev (fst lp)) ++ []) idx 1) by (rewrite rev_involutive, app_nil_r; exact Wl).
  destruct (sweep_r_inv (length Y - 1 - k) k (rev (fst lp)) (snd lp) [] [1] idx 1%nat 1%nat Wl') as (Wr & Er).
  fold rp in Wr, Er. rewrite rev_involutive, !app_nil_r in Er. rewrite app_nil_r in Wr.
  split; [apply wf_wfo; exact Wr|].
  unfold get. rewrite <- (nth_vscale K Rth). rewrite Er, El. rewrite Hpow_0, (vscale_one K Rth). reflexivity.
Qed.
Lemma orthogonalize_stab_rejects Y k : (length Y - 1 < k)%nat ->
  orthogonalize_stab K ilog2 thr orth_l orth_r Y k = Err ValueError.
Proof. intros H. unfold orthogonalize_stab. apply Nat.ltb_lt in H. now rewrite H. Qed.
Lemma orthogonalize_stab_ok Y k : (k <= length Y - 1)%nat ->
  exists Zs p, orthogonalize_stab K ilog2 thr orth_l orth_r Y k = Ok (Zs, p).
Proof.
  intros H. unfold orthogonalize_stab. destruct (Nat.ltb_spec (length Y - 1) k); [lia|]. eauto.
Qed.

(* ---------- truncate(use_stab=True): the final factor 2^(p/d) on each of the d cores restores 2^p ---------- *)
Variable root : Z -> nat -> T.
(* [body] is the rounding sweep (C02); whatever it returns (same index set), the result of truncate denotes
   2^p * body(Z), so the entrywise error against Y = 2^p Z is 2^p times the error of the rounding sweep on Z *)
Theorem truncate_stab_exact body Y W idx :
  (forall p, opow K (root p (length Y)) (length Y) = pow2 p) ->
  (forall Zs, length (body Zs) = length Zs) -> (forall Zs, wf 1 Zs idx -> wf 1 (body Zs) idx) ->
  truncate_stab K ilog2 thr orth_l orth_r root body Y = Ok W -> wf 1 Y idx ->
  exists Zs p, orthogonalize_stab K ilog2 thr orth_l orth_r Y (length Y - 1) = Ok (Zs, p) /\
    pow2 p * get K Zs idx = get K Y idx /\
    get K W idx = pow2 p * get K (body Zs) idx /\
    get K Y idx - get K W idx = pow2 p * (get K Zs idx - get K (body Zs) idx).
Proof.
  intros Hroot Hlen Hwf. unfold truncate_stab.
  destruct (orthogonalize_stab K ilog2 thr orth_l orth_r Y (length Y - 1)) as [[Zs p]|e] eqn:E; [|discriminate].
  intros EW Wy. injection EW as <-. destruct (orthogonalize_stab_exact _ _ _ _ _ E Wy) as (Wz & Ez).
  exists Zs, p. split; [reflexivity|]. split; [exact Ez|].
  assert (LZ : length Zs = length Y).
  { apply wf_wfo in Wz, Wy. apply wfo_length in Wz, Wy. congruence. }
  assert (G : get K (rescale_all K (root p (length Y)) (body Zs)) idx = pow2 p * get K (body Zs) idx).
  { rewrite (get_rescale_all K Rth) by auto. rewrite Hlen, LZ, Hroot. reflexivity. }
  split; [exact G|]. rewrite G, <- Ez. ring.
Qed.
End StabOrth.

(* ---------- packaged statements ---------- *)
Section PackagedOrth.
Context {T : Type} (K : ops T) (ilog2 : T -> Z) (thr : T).
Variable orth_l orth_r : nat -> core T -> core T -> core T * core T.
Hypothesis L : stab_laws K.
Let R := proj1 L. Let A := proj1 (proj2 L). Let Z0 := proj1 (proj2 (proj2 L)). Let D := proj2 (proj2 (proj2 L)).
(* contracts of the two orthogonalisation oracles *)
Definition orth_contract : Prop :=
  (forall c G1 G2, cr2 G1 = cr1 G2 ->
     pair_ok K G1 G2 (fst (orth_l c G1 G2)) (snd (orth_l c G1 G2)) /\ wfdat (snd (orth_l c G1 G2))) /\
  (forall c G1 G2, cr2 G1 = cr1 G2 ->
     pair_ok K G1 G2 (fst (orth_r c G1 G2)) (snd (orth_r c G1 G2)) /\ wfdat (fst (orth_r c G1 G2))).
Hypothesis OC : orth_contract.

Lemma P_orthogonalize_stab_exact Y k Zs p idx :
  orthogonalize_stab K ilog2 thr orth_l orth_r Y k = Ok (Zs, p) -> wf 1 Y idx ->
  wf 1 Zs idx /\ omul K (opow2 K p) (get K Zs idx) = get K Y idx.
Proof. destruct OC as (O1 & O2). intros E W. eapply orthogonalize_stab_exact; eauto. Qed.
Variable root : Z -> nat -> T.
Lemma P_truncate_stab_exact body Y W idx :
  (forall p, opow K (root p (length Y)) (length Y) = opow2 K p) ->
  (forall Zs, length (body Zs) = length Zs) -> (forall Zs, wf 1 Zs idx -> wf 1 (body Zs) idx) ->
  truncate_stab K ilog2 thr orth_l orth_r root body Y = Ok W -> wf 1 Y idx ->
  exists Zs p, orthogonalize_stab K ilog2 thr orth_l orth_r Y (length Y - 1) = Ok (Zs, p) /\
    omul K (opow2 K p) (get K Zs idx) = get K Y idx /\
    get K W idx = omul K (opow2 K p) (get K (body Zs) idx) /\
    osub K (get K Y idx) (get K W idx) = omul K (opow2 K p) (osub K (get K Zs idx) (get K (body Zs) idx)).
Proof. destruct OC as (O1 & O2). intros H1 H2 H3 E W'. eapply truncate_stab_exact; eauto. Qed.
End PackagedOrth.

(* a trivial pair of oracles meeting the contract (non-vacuity): the identity step, re-stored *)
Definition restore {T} (K : ops T) (G : core T) : core T := mkcore (cr1 G) (cn G) (cr2 G) (cget K G).
Lemma restore_contract {T} (K : ops T) :
  orth_contract K (fun _ G1 G2 => (G1, restore K G2)) (fun _ G1 G2 => (restore K G1, G2)).
Proof.
  split; intros c G1 G2 E; cbn [fst snd]; (split; [|apply wfdat_mk]); unfold pair_ok, restore;
    rewrite ?cr1_mk, ?cn_mk, ?cr2_mk; repeat split; auto; intros a i j b Ha Hi Hj Hb.
  - apply bsum_ext. intros x Hx. rewrite cget_mk by (auto; lia). reflexivity.
  - apply bsum_ext. intros x Hx. rewrite cget_mk by (auto; lia). reflexivity.
Qed.
