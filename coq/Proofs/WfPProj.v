(* C11, part 5: the guarded carrier computes the values of the plain carrier.  For matrix_svd and accuracy_of the
   instance at [OG K], fed with the embedded inputs and the lifted oracles, returns EXACTLY the embedding of the plain
   result: same values, every flag down.  (This contains C11_matrix_svd_no_zero_div and says in addition that the
   instrumented run is the run of the frozen model.) *)
From Coq Require Import List Arith Lia PeanoNat ZArith Bool.
From TV Require Import Num.Ops Lin.Tab Lin.BigSum Lin.Mat TT.Chain Model.ActOne Model.Transformation Model.Svd Model.Stab Model.Wf.
Import ListNotations.

Section Proj.
Context {T : Type} (K : ops T).
Local Notation G := (OG K).
Local Notation E := (@embed T).

Lemma E_add a b : oadd G (E a) (E b) = E (oadd K a b). Proof. reflexivity. Qed.
Lemma E_mul a b : omul G (E a) (E b) = E (omul K a b). Proof. reflexivity. Qed.
Lemma E_0 : o0 G = E (o0 K). Proof. reflexivity. Qed.
Lemma E_bsum n f g : (forall i, i < n -> f i = E (g i)) -> bsum G n f = E (bsum K n g).
Proof.
  induction n as [|n IH]; intros H; cbn [bsum]; [reflexivity|].
  rewrite IH by (intros; apply H; lia). rewrite H by lia. reflexivity.
Qed.
Lemma E_nth (l : list T) i : nth i (map E l) (o0 G) = E (nth i l (o0 K)).
Proof. rewrite E_0. apply map_nth. Qed.
Lemma E_mget (A : mat T) i j : mget G (mat_map E A) i j = E (mget K A i j).
Proof.
  unfold mget, mat_map. cbn [md]. change (@nil (gd (T:=T))) with (map E (@nil T)). rewrite map_nth. apply E_nth.
Qed.
Lemma E_mkmat m n f g : (forall i j, f i j = E (g i j)) -> mkmat m n f = mat_map E (mkmat m n g).
Proof.
  intros H. unfold mkmat, mat_map. cbn [mr mc md]. f_equal. rewrite map_tab. apply tab_ext; intros i Hi.
  rewrite map_tab. apply tab_ext; intros j Hj. apply H.
Qed.
Lemma mr_E (A : mat T) : mr (mat_map E A) = mr A. Proof. reflexivity. Qed.
Lemma mc_E (A : mat T) : mc (mat_map E A) = mc A. Proof. reflexivity. Qed.
Lemma E_mmul A B : mmul G (mat_map E A) (mat_map E B) = mat_map E (mmul K A B).
Proof.
  unfold mmul. rewrite !mr_E, !mc_E. apply E_mkmat. intros i j. apply E_bsum. intros k _. now rewrite !E_mget.
Qed.
Lemma E_mtrans A : mtrans G (mat_map E A) = mat_map E (mtrans K A).
Proof. unfold mtrans. rewrite mr_E, mc_E. apply E_mkmat. intros. apply E_mget. Qed.
Lemma E_mtakec A q : mtakec G (mat_map E A) q = mat_map E (mtakec K A q).
Proof. unfold mtakec. rewrite mr_E. apply E_mkmat. intros. apply E_mget. Qed.
Lemma E_mcols A J : mcols G (mat_map E A) J = mat_map E (mcols K A J).
Proof. unfold mcols. rewrite mr_E. apply E_mkmat. intros. apply E_mget. Qed.
Lemma fst_E_mat (A : mat T) : mat_map fst (mat_map E A) = A.
Proof.
  destruct A as [m n d]. unfold mat_map. cbn [mr mc md]. f_equal. rewrite map_map.
  rewrite <- (map_id d) at 2. apply map_ext. intros row. rewrite map_map. rewrite <- (map_id row) at 2. now apply map_ext.
Qed.
Lemma fst_E_list (l : list T) : map fst (map E l) = l.
Proof. rewrite map_map. rewrite <- (map_id l) at 2. now apply map_ext. Qed.

(* the rank rule sees the same comparisons *)
Lemma E_cumsum_from l : forall acc, cumsum_from G (E acc) (map E l) = map E (cumsum_from K acc l).
Proof. induction l as [|x l IH]; intros acc; cbn [cumsum_from map]; [reflexivity|]. rewrite E_add, IH. reflexivity. Qed.
Lemma E_last_le cs e2 : forall pos best, last_le G (map E cs) (E e2) pos best = last_le K cs e2 pos best.
Proof. induction cs as [|x cs IH]; intros pos best; cbn [last_le map]; [reflexivity|]. rewrite IH. reflexivity. Qed.
Lemma E_rank_select x e2 rcap : rank_select G (map E x) (E e2) rcap = rank_select K x e2 rcap.
Proof.
  unfold rank_select, dlen, cumsum. rewrite map_length, <- map_rev. rewrite E_0, E_cumsum_from, E_last_le. reflexivity.
Qed.

Section MatrixSvd.
Hypothesis L_pos_ne : forall x, oltb K (o0 K) x = true -> oeqb K x (o0 K) = false.
Hypothesis L_lt00 : oltb K (o0 K) (o0 K) = false.
Variable eigh : nat -> mat T -> list T * mat T.
Variable argsort : nat -> list T -> list nat.

Lemma E_sqrt_guard x :
  osqrt G (if oltb G (E x) (o0 G) then o0 G else E x) = E (osqrt K (if oltb K x (o0 K) then o0 K else x)).
Proof.
  cbn [oltb osqrt OG o0]. unfold gcmp, gsqrt, embed. cbn [fst snd orb].
  destruct (oltb K x (o0 K)) eqn:H; cbn [fst snd orb]; rewrite ?L_lt00, ?H; reflexivity.
Qed.
Lemma E_recip_guard x :
  (if oltb G (o0 G) (E x) then odiv G (o1 G) (E x) else o0 G) = E (if oltb K (o0 K) x then odiv K (o1 K) x else o0 K).
Proof.
  cbn [oltb odiv OG o0 o1]. unfold gcmp, gdiv, embed. cbn [fst snd orb].
  destruct (oltb K (o0 K) x) eqn:H; [|reflexivity]. now rewrite (L_pos_ne x H).
Qed.

Theorem matrix_svd_embed k A e rcap :
  matrix_svd G (lift_eigh eigh) (lift_argsort argsort) k (mat_map E A) (E e) rcap =
  (mat_map E (fst (matrix_svd K eigh argsort k A e rcap)), mat_map E (snd (matrix_svd K eigh argsort k A e rcap))).
Proof.
  unfold matrix_svd. rewrite mr_E, mc_E.
  assert (HC : (if mr A <=? mc A then mmul G (mat_map E A) (mtrans G (mat_map E A)) else mmul G (mtrans G (mat_map E A)) (mat_map E A))
               = mat_map E (if mr A <=? mc A then mmul K A (mtrans K A) else mmul K (mtrans K A) A)).
  { destruct (mr A <=? mc A); now rewrite E_mtrans, E_mmul. }
  rewrite HC. unfold lift_eigh. rewrite fst_E_mat.
  destruct (eigh k (if mr A <=? mc A then mmul K A (mtrans K A) else mmul K (mtrans K A) A)) as [w0 U0]. cbn [fst snd].
  set (w1 := map (fun x => osqrt K (if oltb K x (o0 K) then o0 K else x)) w0).
  assert (Hw1 : map (fun x => osqrt G (if oltb G x (o0 G) then o0 G else x)) (map E w0) = map E w1).
  { subst w1. rewrite !map_map. apply map_ext. intros x. apply E_sqrt_guard. }
  rewrite Hw1. unfold lift_argsort. rewrite fst_E_list.
  set (idx := rev (argsort k w1)).
  set (w := map (fun i => nth i w1 (o0 K)) idx).
  assert (Hw : map (fun i => nth i (map E w1) (o0 G)) idx = map E w).
  { subst w. rewrite map_map. apply map_ext. intros i. apply E_nth. }
  rewrite Hw.
  assert (Hs : map (fun x => omul G x x) (map E w) = map E (map (fun x => omul K x x) w)).
  { rewrite !map_map. apply map_ext. intros x. apply E_mul. }
  rewrite Hs, E_mul, E_rank_select.
  set (q := rank_select K (map (fun x => omul K x x) w) (omul K e e) rcap).
  rewrite E_mcols, E_mtakec, firstn_map.
  destruct (mr A <=? mc A); cbn [fst snd].
  - f_equal.
    + apply E_mkmat. intros i j. now rewrite E_mget, E_nth, E_mul.
    + rewrite E_mtrans.
      rewrite (E_mkmat q (mr A) _ (fun i j => omul K (nth i (map (fun x => if oltb K (o0 K) x then odiv K (o1 K) x else o0 K) (firstn q w)) (o0 K))
                                                       (mget K (mtrans K (mtakec K (mcols K U0 idx) q)) i j))).
      * apply E_mmul.
      * intros i j. rewrite E_mget, <- E_mul. f_equal. rewrite <- E_nth. f_equal.
        rewrite !map_map. apply map_ext. intros x. apply E_recip_guard.
  - f_equal; [apply E_mmul|apply E_mtrans].
Qed.
End MatrixSvd.

(* ---------------- accuracy_of ---------------- *)
Section Accuracy.
Variable isinf : T -> bool.
(* sqrt 2 is an admissible square root; a zero reference norm is below the threshold (0 < tiny) *)
Hypothesis L_two : oltb K (oadd K (o1 K) (o1 K)) (o0 K) = false.
Lemma pow2h_embed h : pow2h G h = E (pow2h K h).
Proof.
  unfold pow2h. destruct (Z.even h); [reflexivity|]. cbn [omul opow2 osqrt oadd o1 OG]. unfold g2, gsqrt. cbn [fst snd orb].
  now rewrite L_two.
Qed.
Theorem accuracy_of_embed big tiny z1 h1 z2 h2 :
  (oeqb K z2 (o0 K) = true -> oltb K (oabs K z2) tiny = true) ->
  accuracy_of G (fun x => isinf (fst x)) (E big) (E tiny) (E z1) h1 (E z2) h2 =
  E (accuracy_of K isinf big tiny z1 h1 z2 h2).
Proof.
  intros Hz. unfold accuracy_of, accuracy_tail. rewrite pow2h_embed.
  cbn [oeqb oleb oltb oabs oopp odiv omul o0 o1 OG]. unfold gcmp, g1, g2, gdiv, embed. cbn [fst snd orb].
  destruct (oeqb K z1 (o0 K) && oleb K tiny (oabs K z2)); [reflexivity|].
  destruct (h1 - h2 >? 1000)%Z; [reflexivity|]. destruct (h1 - h2 <? -1000)%Z; [reflexivity|].
  destruct (isinf (pow2h K (h1 - h2)) || isinf z1 || isinf z2) eqn:I; cbn [orb]; [reflexivity|].
  destruct (oltb K (oabs K z2) tiny) eqn:Ht; [reflexivity|].
  destruct (oeqb K z2 (o0 K)) eqn:Ez; [specialize (Hz eq_refl); congruence|reflexivity].
Qed.
End Accuracy.
End Proj.
