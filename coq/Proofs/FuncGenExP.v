(* C12, func_int_general: the hypotheses of general_core_exact (oracle contract at the call, data in the span of the
   basis matrix, full column rank) are satisfiable: identity basis matrix, any core, over any commutative ring; and a
   concrete instance over Qc. *)
From Coq Require Import List Arith Lia Ring PeanoNat ZArith Bool QArith Qcanon.
From TV Require Import Num.Ops Lin.Tab Lin.BigSum Lin.Mat TT.Chain Model.Func Proofs.FuncP.
Import ListNotations.
Local Open Scope nat_scope.

Section GenEx.
Context {T : Type} (K : ops T).
Hypothesis Rth : rng K.
Add Ring RrFuncGenExP : Rth.
(* an "lstsq" that is only asked to solve I Q = M *)
Definition ls_id (k : nat) (H M : mat T) : mat T := M.
Lemma ls_id_ok k M : lstsq_ok K ls_id k (mid K (mr M)) M.
Proof.
  intros _ _. unfold ls_id. split; [reflexivity|]. split; [reflexivity|]. apply mmul_id_l; auto.
Qed.
Lemma in_span_id G : in_span K (mid K (cn G)) G G.
Proof.
  unfold in_span. change (mc (mid K (cn G))) with (cn G). repeat split; try reflexivity. intros a i b Ha Hi Hb.
  rewrite (bsum_single K Rth (cn G) i); auto.
  - rewrite mget_mid by auto. rewrite Nat.eqb_refl. ring.
  - intros j Hj Hne. rewrite mget_mid by auto. destruct (Nat.eqb_spec i j); [congruence|ring].
Qed.
Lemma full_col_rank_id n : full_col_rank K (mid K n).
Proof.
  intros Q Q' HQ HQ' Hc HM. change (mc (mid K n)) with n in HQ, HQ'.
  pose proof (mmul_id_l K Rth Q) as I1. pose proof (mmul_id_l K Rth Q') as I2. rewrite HQ in I1. rewrite HQ' in I2.
  eapply meq_trans; [apply meq_sym; exact I1|]. eapply meq_trans; [exact HM|exact I2].
Qed.
End GenEx.

Definition exG : core Qc := mkcore 1 2 2 (fun _ i b => oofZ OQc (Z.of_nat (3 * i + b + 1))).
Lemma general_example :
  lstsq_ok OQc ls_id 0 (mid OQc 2) (gmat OQc exG) /\ in_span OQc (mid OQc 2) exG exG /\ full_col_rank OQc (mid OQc 2) /\
  ceq OQc (general_core OQc ls_id 0 (mid OQc 2) exG) exG.
Proof.
  assert (A : lstsq_ok OQc ls_id 0 (mid OQc 2) (gmat OQc exG)) by exact (ls_id_ok OQc OQc_rng 0 (gmat OQc exG)).
  assert (B : in_span OQc (mid OQc 2) exG exG) by exact (in_span_id OQc OQc_rng exG).
  assert (C : full_col_rank OQc (mid OQc 2)) by exact (full_col_rank_id OQc OQc_rng 2).
  split; [exact A|]. split; [exact B|]. split; [exact C|]. now apply general_core_exact.
Qed.
