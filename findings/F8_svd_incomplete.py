# C20: svd_incomplete recovers a rank-2 tensor from its structured samples
import sys; sys.path.insert(0, sys.argv[1] if len(sys.argv) > 1 else '/repo')
import numpy as np, teneva
Y0 = teneva.rand([6, 7, 6], 2, seed=2)
I, idx, idx_many = teneva.sample_tt([6, 7, 6], r=3, seed=4)
y = teneva.get_many(Y0, I)
Y = teneva.svd_incomplete(I, y, idx, idx_many, e=1e-10, r=3)
err = np.abs(teneva.full(Y) - teneva.full(Y0)).max()
print('error', err); sys.exit(0 if err < 1e-8 else 1)
