# C16: stabilised scalar product / norm of a tensor with small per-core scale must be mantissa * 2^p = true value
import sys; sys.path.insert(0, sys.argv[1] if len(sys.argv) > 1 else '/repo')
import numpy as np, teneva
Y = [np.array([[[2.0**-170]]])] * 4
v, p = teneva.mul_scalar(Y, Y, use_stab=True)
print(v, p)   # true value 2^-1360
ok = (v > 0) and abs(np.log2(v) + p + 1360) < 1e-9 and 1 <= v < 2
sys.exit(0 if ok else 1)
