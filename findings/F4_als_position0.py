# C07: ALS result must not depend on the order of the samples
import sys; sys.path.insert(0, sys.argv[1] if len(sys.argv) > 1 else '/repo')
import numpy as np, teneva
I = np.array([[2, 0, 1], [0, 1, 0], [1, 2, 1], [0, 0, 0], [1, 1, 1], [0, 2, 0], [1, 0, 0]])
y = np.array([1., 2., -1., 0.5, 3., -2., 1.5])
Y0 = teneva.rand([3, 3, 2], 2, seed=5)
A = teneva.als(I, y, Y0, nswp=3, lamb=1e-3)
perm = [3, 1, 2, 0, 4, 5, 6]   # sample [2,0,1] (the only one with i_0 = 2) moves from position 0 to 3
B = teneva.als(I[perm], y[perm], Y0, nswp=3, lamb=1e-3)
diff = max(np.abs(a - b).max() for a, b in zip(A, B))
print('max core difference', diff); sys.exit(0 if diff < 1e-8 else 1)
