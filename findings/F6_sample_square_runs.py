# C14: sample_square must return an integer array of the requested shape
import sys; sys.path.insert(0, sys.argv[1] if len(sys.argv) > 1 else '/repo')
import numpy as np, teneva
Y = teneva.rand([4, 4, 4], 2, seed=1)
I = teneva.sample_square(Y, 5, seed=7)
print(I.shape, I.dtype); sys.exit(0 if I.shape == (5, 3) else 1)
