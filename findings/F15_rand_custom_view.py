"""C09: rand_custom returned views of the sampler's buffer (fixed by 45c0f32)."""
import numpy as np, teneva
buf = np.arange(1000, dtype=float)
Y = teneva.rand_custom([3, 4, 3], [1, 2, 2, 1], lambda sz: buf[:sz])
assert not any(np.shares_memory(G, buf) for G in Y), 'cores alias the sampler buffer'
print('ok')
