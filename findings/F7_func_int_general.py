# C12: custom bases fitted by least squares reproduce functions in their span
import sys; sys.path.insert(0, sys.argv[1] if len(sys.argv) > 1 else '/repo')
import numpy as np, teneva
n = [5, 5]
X = [np.linspace(-1, 1, 5), np.linspace(-1, 1, 5)]
def basis(x): return np.array([np.ones_like(x), x, x**2])   # 3 basis functions
A0 = [np.random.default_rng(0).normal(size=(1, 3, 2)), np.random.default_rng(1).normal(size=(2, 3, 1))]
# tensor of values of the function with coefficient tensor A0 on the grid
B = [basis(x) for x in X]
Y = [np.einsum('rkq,km->rmq', G, b) for G, b in zip(A0, B)]
A = teneva.func_int_general(Y, X, basis)
err = np.abs(teneva.full(A) - teneva.full(A0)).max()
print('coefficient error', err); sys.exit(0 if err < 1e-8 else 1)
