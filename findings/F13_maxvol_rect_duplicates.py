"""C08: maxvol_rect returned duplicate row numbers when every remaining residual is zero (fixed by cac7db0)."""
import numpy as np, teneva
I, B = teneva.maxvol_rect(np.array([[1.], [0.]]), 1.1, 1, 1)
print(I); assert len(set(I.tolist())) == len(I), 'duplicate rows'
