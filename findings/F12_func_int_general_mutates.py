# C09: func_int_general must not modify Y nor alias its result to it
import sys; sys.path.insert(0, sys.argv[1] if len(sys.argv) > 1 else '/repo')
import numpy as np, teneva
Y = teneva.rand([4, 4, 4], 2, seed=1); Y0 = teneva.copy(Y)
X = np.cos(np.pi * np.arange(4) / 3)
A = teneva.func_int_general(Y, X, lambda X: teneva.func_basis(X, 4))
changed = any((a != b).any() for a, b in zip(Y, Y0)); shared = any(np.shares_memory(a, y) for a in A for y in Y)
print('argument changed:', changed, 'result aliases argument:', shared); sys.exit(1 if (changed or shared) else 0)
