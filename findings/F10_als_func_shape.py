# C07: als_func (n_max=None) returns a tensor with the shape of the initial approximation
import sys; sys.path.insert(0, sys.argv[1] if len(sys.argv) > 1 else '/repo')
import numpy as np, teneva
X = np.random.default_rng(0).uniform(-1, 1, size=(40, 2)); y = np.ones(40)
A0 = [np.array([[[1.], [0.], [0.]]]), np.array([[[1.], [0.], [0.]]])]
A = teneva.als_func(X, y, A0, nswp=1, lamb=1e-9, e=None)
print([G.shape for G in A]); sys.exit(0 if [G.shape for G in A] == [(1, 3, 1), (1, 3, 1)] else 1)
