# C03: svd error <= e*sqrt(d-1) whatever the scale
import sys; sys.path.insert(0, sys.argv[1] if len(sys.argv) > 1 else '/repo')
import numpy as np, teneva
rng = np.random.default_rng(1)
A = rng.normal(size=(4, 5, 4, 3)) * 1e3
e = 100.
Y = teneva.svd(A, e)
err = np.linalg.norm(teneva.full(Y) - A)
print('err', err, 'bound', e * np.sqrt(3)); sys.exit(0 if err <= e * np.sqrt(3) * (1 + 1e-9) else 1)
