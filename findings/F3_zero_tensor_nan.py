# C11: truncate of the exactly-zero tensor must be finite
import sys; sys.path.insert(0, sys.argv[1] if len(sys.argv) > 1 else '/repo')
import numpy as np, teneva, warnings; warnings.simplefilter('ignore')
Y = teneva.const([3, 4, 2], 0.)
Z = teneva.truncate(Y, 1e-10)
ok = all(np.isfinite(G).all() for G in Z)
print('finite', ok); sys.exit(0 if ok else 1)
