# C15: for a rank-1 coefficient tensor the functional variant returns a point of the cube (it raised ValueError)
import sys; sys.path.insert(0, sys.argv[1] if len(sys.argv) > 1 else '/repo')
import numpy as np, teneva
ok = True
for A in ([np.ones((1, 3, 1)), np.ones((1, 1, 1))],
          [np.array([0.12573022, -0.13210486]).reshape(1, 2, 1), np.array([0.64042265, 0.10490012]).reshape(1, 2, 1)]):
    try:
        x = teneva.optima_func_tt_beam(A, k=3)
        x = np.asarray(x[0] if isinstance(x, tuple) else x, dtype=float)
        print('point', x)
        ok = ok and np.all(np.abs(x) <= 1 + 1e-12)
    except Exception as e:
        print('raised', repr(e)); ok = False
sys.exit(0 if ok else 1)
