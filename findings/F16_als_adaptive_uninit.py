"""C10: als(r=...) used uninitialised memory for index pairs without a training sample (fixed by c1e64d5)."""
import numpy as np, teneva
I = np.array([[0,0,0],[1,1,1],[2,2,2],[3,3,3],[0,1,2],[1,2,3]]); y = np.arange(6.) + 1
res = []
for val in [2**62 + 12345, -7, -3.25, 1e300]:
    junk = [np.full(k, val) for k in range(1, 513)] + [np.full(k, float(val)) for k in range(1, 513)]
    del junk
    Y0 = teneva.rand([4, 4, 4], 2, seed=1)
    res.append(teneva.full(teneva.als(I, y, Y0, nswp=2, r=3, e=1e-8)))
assert all(np.array_equal(res[0], r) for r in res), 'history dependent'
print('ok')
