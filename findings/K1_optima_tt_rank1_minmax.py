"""C15 known finding: optima_tt on a rank-1 tensor with k=1 misses the optimum of the sign opposite to the max-modulus element."""
import numpy as np, teneva
Y = [np.array(v, dtype=float).reshape(1, -1, 1) for v in ([1, -2, 1], [-3, 1], [2, -3, -2])]
i_min, y_min, i_max, y_max = teneva.optima_tt(Y, 1)
F = teneva.full(Y)
print('reported', y_min, y_max, 'true', F.min(), F.max())
