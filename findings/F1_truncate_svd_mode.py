# C02: truncate(is_eigh=False) must keep the error <= e*||Y||
import sys; sys.path.insert(0, sys.argv[1] if len(sys.argv) > 1 else '/repo')
import numpy as np, teneva
worst = 0
for seed in range(20):
    Y = teneva.rand([4, 5, 4, 3], [1, 4, 6, 3, 1], seed=seed)
    for e in [0.1, 0.3, 0.5]:
        Z = teneva.truncate(Y, e, is_eigh=False)
        err = np.linalg.norm(teneva.full(Y) - teneva.full(Z)) / np.linalg.norm(teneva.full(Y))
        worst = max(worst, err / e)
print('worst err/e', worst); sys.exit(0 if worst <= 1 + 1e-9 else 1)
