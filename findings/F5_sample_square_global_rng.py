# C10: sample_square(seed=int) must not depend on the global generator
import sys; sys.path.insert(0, sys.argv[1] if len(sys.argv) > 1 else '/repo')
import numpy as np, teneva
Y = teneva.rand([4, 4, 4], 2, seed=1)
np.random.seed(0); A = teneva.sample_square(Y, 5, seed=7)
np.random.seed(1); B = teneva.sample_square(Y, 5, seed=7)
print(A.tolist(), B.tolist()); sys.exit(0 if (A == B).all() else 1)
