"""C18: poi_to_ind accepted a list n longer than the dimension (fixed by bc9fc68)."""
import teneva
try:
    print(teneva.poi_to_ind([0.1], 0., 1., [4, 5, 6])); raise SystemExit('not rejected')
except ValueError as e:
    print('rejected:', e)
