"""Generic argument-form / history / layout / scale engine for every public function of teneva.

One TABLE (harness/forms_table.py) describes, per exported callable, a small valid baseline call and the kind of every
parameter.  Ten metamorphic relations are derived from it mechanically (`f(x') == f(x)` where x' denotes the same
mathematical input):

  R1 int-forms        int parameters as np.int64 / np.int32 / np.int16, number parameters as np.float64 / int, documented
                      negative positions as position - size
  R2 flag-forms       False -> 0, np.False_, np.bool_(False); True -> 1, np.True_, np.bool_(True): identical result and the
                      same effect on / aliasing with the arguments
  R3 container-forms  shapes / multi-indices as list, tuple, int64 array, int32 array (float arrays only where documented)
  R4 history          same argument objects twice, arguments untouched, no aliasing, result mutated then third call,
                      info / cache dictionaries equal after equal calls, default dictionaries carry nothing over
  R5 layouts          tensors / arrays C-contiguous, F-contiguous, non-contiguous views
  R6 scale            exact power-of-two rescaling against the documented degree of homogeneity
  R7 integer-dtypes   index / shape / position parameters in every integer dtype that holds the values (mode sizes up to the
                      dtype's limit, entries with a `big` generator) against int64
  R8 defaults         every defaulted parameter passed explicitly with its documented default (harness/signature_pins.json),
                      on the ordinary baseline and on a default-sensitive baseline (`dflt` generator)
  R9 shared-objects   the same ndarray object in every position of equal shape of a TT argument ([A] + [G]*(d-2) + [B], [G]*d),
                      two TT arguments being the same list / sharing their cores, a list of tensors repeating one tensor:
                      result as on independent copies, arguments untouched
  R10 positional      the baseline call with every argument passed by position in the DOCUMENTED order (signature pins)
R4 is also run once per container / dtype form of every vector parameter (ndarray of exactly the target dtype, plain list).

API (see harness/briefs/FORMS.md):
    search(tn, rng, pid, deep=False, budget_s=8.0) -> (n_eval, fails, coverage)
    replay(tn, payload) -> 1 / 0
    selftest()
Deterministic: every random choice derives from the `rng` passed in (case seeds are drawn from it; every generator is
re-run from its case seed, so a failing case is fully described by (function, seed, size, relation, variant)).
"""
import contextlib
import inspect
import io
import os
import struct
import sys
import time
import warnings

os.environ.setdefault('OMP_NUM_THREADS', '1')          # tiny matrices: threaded BLAS is 50x slower (same as ./check)
os.environ.setdefault('OPENBLAS_NUM_THREADS', '1')
import numpy as np  # noqa: E402

if __name__ == '__main__' or __package__ in (None, ''):
    sys.path.insert(0, os.path.dirname(os.path.dirname(os.path.abspath(__file__))))
from harness import common as C  # noqa: E402

RELATIONS = ['R1', 'R2', 'R3', 'R4', 'R5', 'R6', 'R7', 'R8', 'R9', 'R10']
REL_NAME = dict(R1='int-forms', R2='flag-forms', R3='container-forms', R4='history', R5='layouts', R6='scale',
                R7='integer-dtypes', R8='defaults', R9='shared-objects', R10='positional')
INT_DTYPES = ['int8', 'uint8', 'int16', 'uint16', 'int32', 'uint32', 'uint64']      # against int64
TIME_KEYS = {'t'}            # wall-clock entries of info dictionaries
TOLERATED_FORMS = {'array0', 'i8', 'u8', 'S64'}      # forms outside the documented types: may raise, must not silently differ
TOL = 1e-10
TOL_SCALE = 1e-9


# ----------------------------------------------------------------------------------------------------------------
# table entry
# ----------------------------------------------------------------------------------------------------------------
class Entry:
    """One public callable.
    gen(g) -> dict of keyword arguments (g: forms_table.G, the only source of randomness, seeded by the case seed)
    kinds: param -> kind string `kind[:opt[:opt...]]`; kinds int / flag / float / shape / index / tt / array / seed / func /
           dict / other.  Options: `f` (float arrays with integral values accepted), `-tuple`, `-i32`, `-list`, `-i16`,
           `-npint` (R1 not applicable), `-npfloat`, `-int`, `-F`, `-S` (layouts), `neg` (negative position notation).
    homog: None or dict(scale={param: degree}, out=spec | callable(args) -> spec)
    inplace: callable(args) -> set of params the call may modify (documented), or a set
    alias: callable(args) -> set of params the result may share memory with (documented), or a set
    post: callable(tn, result, args) -> value to compare instead of the raw result (callables / objects)
    skip: set of relations switched off for this entry (with a comment in the table)
    call: callable(tn, args) -> result for entries that are not a plain `getattr(tn, name)(**args)` (classes)
    """
    def __init__(self, name, file, props, gen, kinds, homog=None, inplace=None, alias=None, post=None, skip=(),
                 call=None, neg=None, novar=(), tol=None, note='', rejects=False, invariant=None, big=None, dflt=None, syn=None):
        self.name, self.file, self.props, self.gen, self.kinds = name, file, list(props), gen, dict(kinds)
        self.homog, self.inplace, self.alias, self.post = homog, inplace, alias, post
        self.skip, self.call, self.neg, self.novar, self.tol, self.note = set(skip), call, neg or {}, set(novar), tol, note
        self.syn = syn or {}        # {param: {spelling: equivalent documented spelling}}
        self.big = big      # generator of cheap calls with indices / mode sizes up to the limits of the integer dtypes (R7)
        self.dflt = dflt    # generator of a call that leaves parameters at their defaults in a regime where they matter (R8)
        self.invariant = invariant  # callable(tn, result, args) -> None | message: a history statement inside one call
        self.rejects = rejects      # the generator deliberately includes calls that the documentation rejects with ValueError

    def kind(self, p):
        return self.kinds.get(p, 'other').split(':')[0]

    def opts(self, p):
        return set(self.kinds.get(p, 'other').split(':')[1:])

    def fn(self, tn):
        return getattr(tn, self.name.split('.')[0])

    def setof(self, what, args):
        v = getattr(self, what)
        if v is None:
            return set()
        return set(v(args)) if callable(v) else set(v)


def table():
    from harness import forms_table
    return forms_table.TABLE


# ----------------------------------------------------------------------------------------------------------------
# canonical form of results, snapshots of arguments
# ----------------------------------------------------------------------------------------------------------------
def canon(x, depth=0):
    """hashable, bit-exact image of a result: nested containers -> tuples, arrays -> (class, shape, bytes).  Python and
    NumPy scalars of the same kind and value coincide; integer widths are ignored, float widths are not."""
    if x is None:
        return ('none',)
    if isinstance(x, (bool, np.bool_)):
        return ('b', bool(x))
    if isinstance(x, (int, np.integer)):
        return ('i', int(x))
    if isinstance(x, (float, np.floating)):
        if isinstance(x, np.floating) and x.dtype.itemsize != 8:
            return ('f%d' % x.dtype.itemsize, x.tobytes())
        return ('f', struct.pack('<d', float(x)))
    if isinstance(x, (complex, np.complexfloating)):
        return ('c', struct.pack('<dd', complex(x).real, complex(x).imag))
    if isinstance(x, str):
        return ('s', x)
    if isinstance(x, np.ndarray):
        if x.ndim == 0 and x.dtype != object:
            return canon(x[()], depth + 1)
        if x.dtype == object:
            return ('seq', x.shape, tuple(canon(y, depth + 1) for y in x.ravel()))
        k = x.dtype.kind
        if k in 'iu':
            return ('ai', x.shape, np.ascontiguousarray(x.astype(np.int64)).tobytes())
        if k == 'b':
            return ('ab', x.shape, np.ascontiguousarray(x).tobytes())
        return ('a' + k + str(x.dtype.itemsize), x.shape, np.ascontiguousarray(x).tobytes())
    if isinstance(x, (list, tuple)):
        return ('seq', tuple(canon(y, depth + 1) for y in x))
    if isinstance(x, dict):
        items = [(repr(k), canon(v, depth + 1)) for k, v in x.items() if k not in TIME_KEYS]
        return ('dict', tuple(sorted(items)))
    if isinstance(x, np.random.Generator):
        return ('gen', repr(x.bit_generator.state))
    return ('obj', type(x).__name__)


def snap(x):
    """byte-level snapshot of an argument: contents, shape, dtype, strides, container structure and element identity"""
    if isinstance(x, np.ndarray):
        if x.dtype == object:
            return ('objarr', x.shape, tuple(snap(y) for y in x.ravel()))
        return ('arr', x.shape, str(x.dtype), x.strides, np.array(x, copy=True, order='K').tobytes(order='A'))
    if isinstance(x, (list, tuple)):
        return (type(x).__name__, len(x), tuple((id(y), snap(y)) for y in x))
    if isinstance(x, dict):
        return ('dict', tuple((repr(k), snap(v)) for k, v in x.items() if k not in TIME_KEYS))
    if isinstance(x, (int, float, complex, str, bool, type(None), np.generic)):
        return ('val', type(x).__name__, repr(x))
    if isinstance(x, np.random.Generator):
        return ('gen',)
    return ('obj', id(x))


def arrays_in(x, out=None, seen=None):
    out = [] if out is None else out
    seen = set() if seen is None else seen
    if id(x) in seen:
        return out
    seen.add(id(x))
    if isinstance(x, np.ndarray):
        if x.dtype == object:
            for y in x.ravel():
                arrays_in(y, out, seen)
        else:
            out.append(x)
    elif isinstance(x, (list, tuple)):
        for y in x:
            arrays_in(y, out, seen)
    elif isinstance(x, dict):
        for y in x.values():
            arrays_in(y, out, seen)
    return out


def containers_in(x, out=None, seen=None):
    out = [] if out is None else out
    seen = set() if seen is None else seen
    if id(x) in seen:
        return out
    seen.add(id(x))
    if isinstance(x, (list, dict)):
        out.append(x)
    if isinstance(x, (list, tuple)):
        for y in x:
            containers_in(y, out, seen)
    elif isinstance(x, dict):
        for y in x.values():
            containers_in(y, out, seen)
    return out


def alias_signature(res, args, skip=('info', 'cache')):
    """which parameters the result IS / contains / shares memory with"""
    sig = set()
    ra, rc = arrays_in(res), containers_in(res)
    for p, v in args.items():
        if p in skip:
            continue
        if isinstance(v, (list, dict, np.ndarray)) and res is v:
            sig.add((p, 'is'))
        for c in containers_in(v):
            if any(c is r for r in rc):
                sig.add((p, 'container'))
        for a in arrays_in(v):
            for r in ra:
                if a.size and r.size and np.may_share_memory(a, r) and np.shares_memory(a, r):
                    sig.add((p, 'memory'))
    return sig


def is_tt(x):
    if not isinstance(x, list) or not x:
        return False
    if not all(isinstance(G, np.ndarray) and G.ndim == 3 and G.dtype.kind in 'fiu' for G in x):
        return False
    if x[0].shape[0] != 1 or x[-1].shape[2] != 1:
        return False
    return all(x[k].shape[2] == x[k + 1].shape[0] for k in range(len(x) - 1))


def tt_mant_exp(Y, p0=0):
    """dense tensor of Y as (mantissa array with max |.| in [1, 2) or all zero, binary exponent): exact rescaling of every
    core by a power of two, so tensors far outside the double range compare as well"""
    e = int(p0)
    v = None
    for G in Y:
        G = np.asarray(G, dtype=float)
        m = float(np.max(np.abs(G))) if G.size else 0.
        if m > 0 and np.isfinite(m):
            k = int(np.floor(np.log2(m)))
            G = np.ldexp(G, -k)
            e += k
        r1, n, r2 = G.shape
        v = G.reshape(r1 * n, r2) if v is None else (v @ G.reshape(r1, n * r2)).reshape(-1, r2)
        m = float(np.max(np.abs(v))) if v.size else 0.
        if m > 0 and np.isfinite(m):
            k = int(np.floor(np.log2(m)))
            v = np.ldexp(v, -k)
            e += k
    shape = (Y[0].shape[0],) + tuple(G.shape[1] for G in Y) + (Y[-1].shape[2],)
    return v.reshape(shape), e


class Mismatch(Exception):
    pass


def _close_arr(a, b, tol, scale, path):
    a, b = np.asarray(a), np.asarray(b)
    if a.shape != b.shape:
        raise Mismatch(f'{path}: shape {a.shape} vs {b.shape}')
    ka, kb = a.dtype.kind, b.dtype.kind
    cls = lambda k: 'i' if k in 'iub' else k  # noqa: E731
    if cls(ka) != cls(kb):
        raise Mismatch(f'{path}: dtype {a.dtype} vs {b.dtype}')
    if ka in 'iub':
        if not np.array_equal(a, b):
            raise Mismatch(f'{path}: integer values differ')
        return
    if ka == 'f' and a.dtype.itemsize != b.dtype.itemsize:
        raise Mismatch(f'{path}: dtype {a.dtype} vs {b.dtype}')
    if ka not in 'fc':
        if not np.array_equal(a, b):
            raise Mismatch(f'{path}: values differ')
        return
    fa, fb = np.isfinite(a), np.isfinite(b)
    if not np.array_equal(fa, fb) or not np.array_equal(a[~fa].astype(str), b[~fb].astype(str)):
        raise Mismatch(f'{path}: non-finite pattern differs')
    if a.size:
        err = float(np.max(np.abs(a[fa] - b[fb]))) if fa.any() else 0.
        if err > tol * scale:
            raise Mismatch(f'{path}: max difference {err:.3e} > {tol:.0e} * {scale:.3e}')


def _maxabs(x):
    m = 0.
    for a in arrays_in(x):
        if a.dtype.kind in 'fc' and a.size:
            f = np.abs(a[np.isfinite(a)])
            if f.size:
                m = max(m, float(np.max(f)))
    return m


def _scalarise(x):
    """Python / NumPy scalars -> 0-d arrays so that one comparison routine serves all"""
    if isinstance(x, (bool, int, float, complex, np.generic)):
        return np.asarray(x)
    return x


def close(a, b, tol, shift=0, spec=None, path='result', scale=None):
    """a (variant) against b (baseline); `shift`: a is expected to be 2**shift times b where `spec` says so.
    spec: None / number k (degree: node scales like factor**k; 0 = invariant) / 'I' identical / ('stab', k) pair (x, p)
    denoting x * 2**p / tuple or list of specs for a sequence result / 'skip'."""
    if spec == 'skip':
        return
    if isinstance(spec, tuple) and spec and spec[0] == 'stab':
        # (x, p) denotes x * 2**p, x a number or a TT-tensor
        if not (isinstance(a, (tuple, list)) and len(a) == 2 and isinstance(b, (tuple, list)) and len(b) == 2):
            raise Mismatch(f'{path}: expected a pair (value, exponent)')
        k = spec[1]
        _close_denoted(a[0], float(a[1]), b[0], float(b[1]), tol, k * shift, path)
        return
    if isinstance(spec, tuple) and spec and spec[0] == 'chain':
        # list of 3-D cores with matching neighbour ranks and arbitrary boundary ranks, compared through its dense tensor
        ok = lambda x: isinstance(x, list) and x and all(isinstance(G, np.ndarray) and G.ndim == 3 for G in x)  # noqa: E731
        if not (ok(a) and ok(b)) or [G.shape for G in a] != [G.shape for G in b]:
            raise Mismatch(f'{path}: core shapes differ')
        _close_denoted(a, 0., b, 0., tol, spec[1] * shift, path, chain=True)
        return
    if isinstance(spec, (tuple, list)):
        if not isinstance(a, (tuple, list)) or not isinstance(b, (tuple, list)) or len(a) != len(b) or len(a) != len(spec):
            raise Mismatch(f'{path}: sequence structure differs')
        for i, (u, v, s) in enumerate(zip(a, b, spec)):
            close(u, v, tol, shift, s, f'{path}[{i}]')
        return
    k = 0 if spec in (None, 'I') else spec
    if is_tt(b) or is_tt(a):
        if not (is_tt(a) and is_tt(b)):
            raise Mismatch(f'{path}: one side is not a well-formed TT-tensor')
        if [G.shape for G in a] != [G.shape for G in b] and spec == 'I':
            raise Mismatch(f'{path}: core shapes differ')
        if [G.shape[1] for G in a] != [G.shape[1] for G in b]:
            raise Mismatch(f'{path}: mode sizes differ')
        if [G.shape for G in a] != [G.shape for G in b]:
            raise Mismatch(f'{path}: TT-ranks differ: {[G.shape[2] for G in a]} vs {[G.shape[2] for G in b]}')
        _close_denoted(a, 0., b, 0., tol, k * shift, path)
        return
    if isinstance(b, dict) or isinstance(a, dict):
        if not (isinstance(a, dict) and isinstance(b, dict)) or set(a) != set(b):
            raise Mismatch(f'{path}: dictionary keys differ')
        for key in b:
            if key not in TIME_KEYS:
                close(a[key], b[key], tol, shift, spec, f'{path}[{key!r}]')
        return
    if isinstance(b, (list, tuple)) or isinstance(a, (list, tuple)):
        if not (isinstance(a, (list, tuple)) and isinstance(b, (list, tuple))) or len(a) != len(b):
            raise Mismatch(f'{path}: sequence structure differs')
        sc = max(1., _maxabs(b)) if scale is None and not (k * shift) else scale
        for i, (u, v) in enumerate(zip(a, b)):
            close(u, v, tol, shift, spec, f'{path}[{i}]', scale=sc)
        return
    a, b = _scalarise(a), _scalarise(b)
    if isinstance(b, np.ndarray) or isinstance(a, np.ndarray):
        if not (isinstance(a, np.ndarray) and isinstance(b, np.ndarray)):
            raise Mismatch(f'{path}: {type(a).__name__} vs {type(b).__name__}')
        if k * shift and a.dtype.kind in 'fc':
            with np.errstate(all='ignore'):
                m = float(np.max(np.abs(b[np.isfinite(b)]))) if b.size and np.isfinite(b).any() else 0.
                a = np.ldexp(a, -int(round(k * shift))) if a.dtype.kind == 'f' else a * 2. ** (-k * shift)
            _close_arr(a, b, tol, m if m > 0 else 1., path)     # purely relative: the data has no natural scale 1 here
        else:
            _close_arr(a, b, tol, scale if scale is not None else max(1., _maxabs(b)), path)
        return
    if a is None and b is None:
        return
    if canon(a) != canon(b):
        raise Mismatch(f'{path}: {a!r} vs {b!r}')


def _close_denoted(xa, pa, xb, pb, tol, shift, path, chain=False):
    """xa * 2**pa against 2**shift * xb * 2**pb; x a number / array or a TT-tensor"""
    if chain or (is_tt(xa) and is_tt(xb)):
        if [G.shape for G in xa] != [G.shape for G in xb]:
            raise Mismatch(f'{path}: core shapes differ')
        ma, ea = tt_mant_exp(xa)
        mb, eb = tt_mant_exp(xb)
    else:
        ma, ea = _mant_exp(np.asarray(xa, dtype=float))
        mb, eb = _mant_exp(np.asarray(xb, dtype=float))
    if ma.shape != mb.shape:
        raise Mismatch(f'{path}: shape {ma.shape} vs {mb.shape}')
    za, zb = not np.any(ma), not np.any(mb)
    if za or zb:
        if za != zb:
            raise Mismatch(f'{path}: one side is exactly zero')
        return
    de = (ea + pa) - (eb + pb) - shift
    if abs(de) > 3:
        raise Mismatch(f'{path}: binary exponent off by {de} (expected shift {shift})')
    _close_arr(np.ldexp(ma, int(round(de))) if float(de).is_integer() else ma * 2. ** de, mb, tol, 2., path)


def _mant_exp(v):
    m = float(np.max(np.abs(v))) if v.size else 0.
    if m > 0 and np.isfinite(m):
        k = int(np.floor(np.log2(m)))
        return np.ldexp(v, -k), k
    return v, 0


# ----------------------------------------------------------------------------------------------------------------
# running one call
# ----------------------------------------------------------------------------------------------------------------
CALL_TIMEOUT = float(os.environ.get('VERIF_FORMS_CALL_TIMEOUT', '10'))


class CallTimeout(Exception):
    pass


def _alarm(signum, frame):
    raise CallTimeout(f'call did not return within {CALL_TIMEOUT} s')


def _run_once(tn, E, args, pos=None, kw=None, timeout=None):
    """('ok', result) or ('exc', exception type name, message).  Every call runs under a wall-clock limit (a changed
    stopping rule must not hang the check): a call that does not return counts as raising CallTimeout."""
    import signal
    import threading
    buf = io.StringIO()
    timed = threading.current_thread() is threading.main_thread()
    if timed:
        # the driver (./check) uses the same timer for its overall limit: remember what is left of it and put it back
        t_in = time.time()
        old = signal.signal(signal.SIGALRM, _alarm)
        left, _ = signal.setitimer(signal.ITIMER_REAL, timeout or CALL_TIMEOUT)
    try:
        with contextlib.redirect_stdout(buf), warnings.catch_warnings(), np.errstate(all='ignore'):
            warnings.simplefilter('ignore')
            res = E.call(tn, args) if E.call else (E.fn(tn)(*pos, **(kw or {})) if pos is not None else E.fn(tn)(**args))
            if E.post:
                res = (res, E.post(tn, res, args))
        return ('ok', res)
    except Exception as e:  # noqa
        return ('exc', type(e).__name__, str(e)[:200])
    finally:
        if timed:
            signal.setitimer(signal.ITIMER_REAL, 0)
            signal.signal(signal.SIGALRM, old)
            if left > 0:
                signal.setitimer(signal.ITIMER_REAL, max(left - (time.time() - t_in), 0.01))


def run(tn, E, args, pos=None, kw=None):
    """one call under the wall-clock limit; a call that hits the limit is repeated once with six times the limit, so that a
    loaded machine cannot turn a slow call into a difference (only a call that does not return at all counts as CallTimeout)"""
    o = _run_once(tn, E, args, pos, kw)
    if o[0] == 'exc' and o[1] == 'CallTimeout':
        o = _run_once(tn, E, args, pos, kw, timeout=6 * CALL_TIMEOUT)
    return o


def outcome_canon(o):
    return ('ok', canon(o[1])) if o[0] == 'ok' else ('exc', o[1])


def short(o):
    if o[0] == 'exc':
        return f'raised {o[1]}: {o[2]}'
    s = repr(C.tolist(o[1]))
    return s if len(s) < 300 else s[:300] + '...'


def make_args(tn, E, seed, size, which='gen'):
    from harness import forms_table
    if which == 'shared':
        return E.gen(forms_table.G(tn, seed, size, uniform=True))
    g = forms_table.G(tn, seed, size)
    return {'gen': E.gen, 'big': E.big, 'dflt': E.dflt}[which](g)


_PINS = {}


def documented_defaults(E):
    """{param: value} from harness/signature_pins.json (the documented signature at the pinned head); mutable containers
    and callables are left out"""
    if 'pins' not in _PINS:
        import json
        f = os.path.join(C.VERIF, 'harness', 'signature_pins.json')
        _PINS['pins'] = json.load(open(f)) if os.path.exists(f) else {}
    rec = _PINS['pins'].get(E.name.split('.')[0])
    out = {}
    if not rec or E.call:
        return out
    for p, src in rec.get('defaults', {}).items():
        try:
            v = eval(src, {'np': np, 'None': None, 'True': True, 'False': False, '__builtins__': {}})
        except Exception:
            continue
        if isinstance(v, (dict, list, set, np.ndarray)) or callable(v):
            continue
        out[p] = v
    return out


def _fits(v, dt):
    a = np.asarray(v)
    if a.size == 0 or a.dtype.kind not in 'iu':
        return False
    ii = np.iinfo(dt)
    return int(a.min()) >= ii.min and int(a.max()) <= ii.max


def signature_defaults(tn, E):
    try:
        sig = inspect.signature(E.fn(tn))
    except (TypeError, ValueError):
        return {}
    return {k: p.default for k, p in sig.parameters.items() if p.default is not inspect.Parameter.empty}


# ----------------------------------------------------------------------------------------------------------------
# variants of each relation
# ----------------------------------------------------------------------------------------------------------------
def _relayout(a, how):
    a = np.asarray(a)
    if how == 'C':
        return np.ascontiguousarray(a).copy()
    if how == 'F':
        return np.asfortranarray(a).copy(order='F') if a.ndim > 1 else a.copy()
    if how == 'S':                      # non-contiguous view: every second element of a larger array along every axis
        if a.ndim == 0:
            return a.copy()
        big = np.full(tuple(2 * s for s in a.shape), -7, dtype=a.dtype)
        sl = tuple(slice(None, None, 2) for _ in a.shape)
        big[sl] = a
        return big[sl]
    if how == 'T':                      # reversed-stride view (negative strides)
        if a.ndim == 0:
            return a.copy()
        sl = tuple(slice(None, None, -1) for _ in a.shape)
        return np.ascontiguousarray(a[sl])[sl]
    raise ValueError(how)


def _container(v, form):
    a = np.asarray(v)
    if form == 'list':
        return a.tolist() if isinstance(v, np.ndarray) or not isinstance(v, list) else [x for x in v]
    if form == 'tuple':
        def tup(x):
            return tuple(tup(y) for y in x) if isinstance(x, list) else x
        return tup(a.tolist())
    if form == 'i64':
        return a.astype(np.int64)
    if form == 'i32':
        return a.astype(np.int32)
    if form == 'f64':
        return a.astype(np.float64)
    if form == 'S64':
        return _relayout(a.astype(np.int64), 'S')
    if form == 'i8':
        return a.astype(np.int8)
    if form == 'u8':
        return a.astype(np.uint8)
    raise ValueError(form)


def _is_intlike(v):
    return isinstance(v, (int, np.integer)) and not isinstance(v, (bool, np.bool_))


def _positional(tn, E, args):
    """(positional list, keyword dict) of the call `args` in the DOCUMENTED parameter order (harness/signature_pins.json): every
    parameter up to the last one the call supplies is passed by position (documented defaults fill the gaps), keyword-only
    parameters stay keywords; None when the documented order is not available or a gap has no evaluable default"""
    documented_defaults(E)                          # loads the pins
    rec = _PINS['pins'].get(E.name.split('.')[0])
    if not rec or not rec.get('params'):
        return None
    params = list(rec['params'])
    if any(p not in params for p in args):
        return None
    try:
        sig = inspect.signature(E.fn(tn))
        kwonly = {k for k, q in sig.parameters.items() if q.kind is inspect.Parameter.KEYWORD_ONLY}
    except (TypeError, ValueError):
        kwonly = set()
    kwonly |= set(rec.get('kwonly') or [])
    order = [p for p in params if p not in kwonly]
    supplied = [k for k, p in enumerate(order) if p in args]
    if not supplied:
        return None
    pos = []
    for p in order[:supplied[-1] + 1]:
        if p in args:
            pos.append(args[p])
            continue
        src = rec.get('defaults', {}).get(p)
        if src is None:
            return None
        try:
            pos.append(eval(src, {'np': np, 'None': None, 'True': True, 'False': False, 'float': float, 'int': int,
                                  '__builtins__': {}}))
        except Exception:
            return None
    return pos, {p: v for p, v in args.items() if p in kwonly}


def _is_core_list(v):
    return isinstance(v, list) and len(v) > 0 and all(isinstance(G, np.ndarray) and G.ndim >= 2 for G in v)


def _shape_groups(Y):
    groups = {}
    for k, G in enumerate(Y):
        groups.setdefault((G.shape, str(G.dtype)), []).append(k)
    return list(groups.values())


def _share(E, args, var, shared):
    """the arguments of one shared-objects variant: `shared` True = the same ndarray / list object in several positions,
    False = the same values in independent copies"""
    kind = var[0]
    new = dict(args)
    if kind == 'cores':
        p, lay = var[1], var[2]
        Y = [(_relayout(G, lay)) for G in args[p]]
        for grp in _shape_groups(Y):
            for k in grp[1:]:
                Y[k] = Y[grp[0]] if shared else Y[grp[0]].copy(order='K')
        new[p] = Y
    elif kind in ('same-list', 'same-cores'):
        p, q = var[1], var[2]
        if not shared:
            new[q] = [G.copy() for G in args[p]]
        else:
            new[q] = args[p] if kind == 'same-list' else list(args[p])
    elif kind == 'same-tensor':
        p = var[1]
        first = [Y for Y in args[p] if _is_core_list(Y)][0]
        shp = [G.shape for G in first]
        new[p] = [((first if shared else [G.copy() for G in first]) if _is_core_list(Y) and [G.shape for G in Y] == shp else Y)
                  for Y in args[p]]
    return new


def _shared(tn, E, seed, size, var):
    a0 = _share(E, make_args(tn, E, seed, size, 'shared'), var, False)
    base = run(tn, E, a0)
    if base[0] == 'exc':
        raise Skip(f'baseline raised {base[1]}: {base[2]}')
    a1 = _share(E, make_args(tn, E, seed, size, 'shared'), var, True)
    inpl = E.setof('inplace', a1)
    s1 = {p: snap(v) for p, v in a1.items()}
    got = run(tn, E, a1)
    what = {'cores': 'the same ndarray object in every position of equal shape', 'same-list': 'the very same list object',
            'same-cores': 'the same core objects in two lists', 'same-tensor': 'the same tensor object repeated'}[var[0]]
    if got[0] != 'ok':
        return f'{"/".join(map(str, var[1:]))} with {what}: {short(got)} instead of {short(base)} (independent copies)'
    try:
        close(got[1], base[1], E.tol or TOL)
    except Mismatch as m:
        return f'{"/".join(map(str, var[1:]))} with {what}: differs from the result on independent copies: {m}'
    bad = _args_effect(E, s1, a1, inpl)
    if bad:
        return f'{"/".join(map(str, var[1:]))} with {what}: argument {bad[0]} modified by the call'
    return None


def _vector_params(E, args):
    """(param, target form) of every shape / index / option-vector parameter: the ndarray of exactly the dtype the function
    converts to (np.asanyarray then hands back the caller's own object) and the plain list"""
    out = []
    for p, v in args.items():
        k, o = E.kind(p), E.opts(p)
        if (k in ('shape', 'index', 'opt') or 'vec' in o) and isinstance(v, (list, tuple, np.ndarray)):
            a = np.asarray(v)
            if a.dtype.kind not in 'iuf' or a.size == 0:
                continue
            integral = bool(np.all(a == np.round(a)))
            if k == 'opt' and 'f' in o:
                forms = ['f64']
            elif k == 'opt':
                forms = ['i64'] if integral else ['f64']
            else:
                forms = ['i64'] + (['f64'] if 'f' in o else [])
            if isinstance(v, np.ndarray):
                forms.append('list')
            out += [(p, f) for f in forms if '-' + f not in o]
    return out


def variants(tn, E, rel, args, deep=False, seed=None, size=None):
    """list of variant descriptors (JSON-able lists) of relation `rel` applicable to the baseline arguments"""
    out = []
    dflt = signature_defaults(tn, E)
    if rel == 'R10':
        return [['all']] if not E.call and _positional(tn, E, args) is not None else []
    if rel == 'R9':
        if seed is None:
            return []
        sh = make_args(tn, E, seed, size, 'shared')
        tts = [p for p, v in sh.items() if E.kind(p) == 'tt' and _is_core_list(v) and (p, 'R9') not in E.novar]
        for p in tts:
            if any(len(g_) > 1 for g_ in _shape_groups(sh[p])):
                out += [['cores', p, 'C'], ['cores', p, 'F']]
        for i_, p in enumerate(tts):
            for q in tts[i_ + 1:]:
                if [G.shape for G in sh[p]] == [G.shape for G in sh[q]]:
                    out += [['same-list', p, q], ['same-cores', p, q]]
        for p, v in sh.items():
            if E.kind(p) == 'tt' and isinstance(v, list) and sum(1 for Y in v if _is_core_list(Y)) >= 2 and (p, 'R9') not in E.novar:
                out.append(['same-tensor', p])
        return out
    if rel == 'R7':
        if not E.big or seed is None:
            return []
        big = make_args(tn, E, seed, size, 'big')
        for p, v in big.items():
            k, o = E.kind(p), E.opts(p)
            if k in ('shape', 'index') or 'r7' in o:
                if isinstance(v, (list, tuple, np.ndarray)) or _is_intlike(v):
                    out += [[p, dt] for dt in INT_DTYPES if _fits(v, dt) and '-' + dt not in o]
        return out
    if rel == 'R8':
        doc = documented_defaults(E)
        if not doc or seed is None:
            return []
        for which in ('gen', 'dflt'):
            if which == 'dflt' and not E.dflt:
                continue
            a = args if which == 'gen' else make_args(tn, E, seed, size, 'dflt')
            if any(E.kind(p) == 'seed' and p not in a for p in doc):
                continue        # an omitted seed means OS entropy: nothing to compare
            miss = [p for p in doc if p not in a and E.kind(p) != 'dict']
            if miss:
                out.append([which, 'all'])
                out += [[which, p] for p in miss]
        return out
    if rel == 'R1':
        for p, v in args.items():
            k, o = E.kind(p), E.opts(p)
            if (p, 'R1') in E.novar:
                continue
            if k == 'int' and _is_intlike(v) and '-npint' not in o:
                out += [[p, 'int64'], [p, 'int32']]
                if -2 ** 15 <= v < 2 ** 15 and '-i16' not in o:
                    out.append([p, 'int16'])
                if 'f' in o:
                    out.append([p, 'float'])
            if k == 'int' and 'neg' in o and _is_intlike(v) and p in E.neg:
                out.append([p, 'negative'])
            if p in E.syn and isinstance(v, str) and v in E.syn[p]:
                out.append([p, 'synonym'])       # documented alternative spelling of a string option
            if k == 'seed' and _is_intlike(v) and 'gen' in o:
                out.append([p, 'generator'])
            if k == 'float' and isinstance(v, (int, float)) and not isinstance(v, bool):
                if '-npfloat' not in o:
                    out.append([p, 'float64'])
                    out.append([p, 'array0'])      # tolerated form: may raise, must not silently differ or be modified
                if float(v).is_integer() and abs(v) < 2 ** 50 and '-int' not in o:
                    out.append([p, 'pyint' if isinstance(v, float) else 'pyfloat'])
    elif rel == 'R2':
        cand = dict(args)
        for p, v in dflt.items():
            if p not in cand and isinstance(v, bool) and E.kinds.get(p, 'flag').split(':')[0] == 'flag':
                cand[p] = v
        for p, v in cand.items():
            if (p, 'R2') in E.novar:
                continue
            if isinstance(v, bool) and (E.kind(p) == 'flag' or (p not in E.kinds and p in dflt)):
                out += [[p, 'int'], [p, 'np_const'], [p, 'np_bool']]
    elif rel == 'R3':
        for p, v in args.items():
            k, o = E.kind(p), E.opts(p)
            if (k in ('shape', 'index', 'opt') or 'vec' in o) and isinstance(v, (list, tuple, np.ndarray)) and \
                    (p, 'R3') not in E.novar:
                forms = ('list', 'tuple', 'i64', 'i32') + (('f64',) if 'f' in o else ()) + ('S64',)
                if k == 'index' and np.asarray(v).size and 0 <= np.min(v) and np.max(v) < 128:
                    forms += ('i8', 'u8')
                only = [x[5:].split('+') for x in o if x.startswith('only=')]
                if k == 'opt':
                    integral = bool(np.all(np.asarray(v, dtype=float) == np.round(np.asarray(v, dtype=float))))
                    forms = ('list', 'f64') + (('i64',) if integral and 'f' not in o else ())
                for form in forms:
                    if '-' + form not in o and (not only or form in only[0]):
                        out.append([p, form])
    elif rel == 'R4':
        out = [['same-objects']]
        if any(E.kind(p) == 'dict' and isinstance(dflt.get(p), dict) for p in args):
            out.append(['default-dicts'])
        # the history statement on every container / dtype form of the vector parameters
        out += [['form', p, f] for p, f in _vector_params(E, args) if (p, 'R4') not in E.novar]
    elif rel == 'R5':
        ps = [p for p, v in args.items() if E.kind(p) in ('tt', 'array') and (p, 'R5') not in E.novar and
              (isinstance(v, np.ndarray) or (isinstance(v, list) and v))]
        if ps:
            forms = ['C', 'F', 'S'] + (['T'] if deep else [])
            for how in forms:
                if all('-' + how not in E.opts(p) for p in ps):
                    out.append([how])
    elif rel == 'R6':
        if E.homog:
            sc = E.homog['scale'](args) if callable(E.homog['scale']) else E.homog['scale']
            if sc:
                for mode, s in (('each', -40), ('each', 40), ('one', -200), ('one', 200)):
                    out.append([mode, s])
                far = E.homog.get('far')
                if far and (far(args) if callable(far) else True):
                    # stabilised routines: tensors far outside the double range (every core inside +-2^511, DESIGN 12)
                    out += [['each', -300], ['each', 300]]
    return out


def _apply_form(E, args, rel, var, dflt):
    """the variant's arguments (a NEW dict; values of untouched parameters are the very same objects)"""
    new = dict(args)
    if rel == 'R1':
        p, form = var
        v = args[p]
        if form in ('int64', 'int32', 'int16'):
            new[p] = getattr(np, form)(v)
        elif form == 'float':
            new[p] = float(v)
        elif form == 'negative':
            new[p] = v - E.neg[p](args)
        elif form == 'synonym':
            new[p] = E.syn[p][v]
        elif form == 'float64':
            new[p] = np.float64(v)
        elif form == 'array0':
            new[p] = np.array(float(v))
        elif form == 'generator':
            new[p] = np.random.default_rng(v)
        elif form == 'pyint':
            new[p] = int(v)
        elif form == 'pyfloat':
            new[p] = float(v)
    elif rel == 'R2':
        p, form = var
        v = args[p] if p in args else dflt[p]
        new[p] = {'int': int(v), 'np_const': (np.True_ if v else np.False_), 'np_bool': np.bool_(v)}[form]
    elif rel == 'R3':
        p, form = var
        new[p] = _container(args[p], form)
    return new


# ----------------------------------------------------------------------------------------------------------------
# the relations
# ----------------------------------------------------------------------------------------------------------------
def _args_effect(E, args_before_snap, args, ignore):
    """names of arguments whose snapshot changed"""
    bad = []
    for p, s in args_before_snap.items():
        if p in ignore or E.kind(p) in ('dict', 'func', 'seed'):
            continue
        if snap(args[p]) != s:
            bad.append(p)
    return bad


def _value_image(E, args):
    """value-level image of the arguments after a call (for comparing the effect of two equivalent calls)"""
    return {p: canon(v) for p, v in args.items() if E.kind(p) not in ('func', 'seed', 'other')}


def eval_variant(tn, E, seed, size, rel, var):
    """None if the relation holds for this variant, else a string describing the failure.  Raises Skip when the baseline
    call itself raises (nothing to compare with)."""
    dflt = signature_defaults(tn, E)
    args0 = make_args(tn, E, seed, size)
    if rel in ('R1', 'R2', 'R3'):
        base = run(tn, E, args0)
        if base[0] == 'exc' and not (base[1] == 'ValueError' and E.rejects):
            # a documented rejection (ValueError) is an outcome like any other: every equivalent form must be rejected too;
            # anything else raised by the baseline is a table problem and is reported as skipped
            raise Skip(f'baseline raised {base[1]}: {base[2]}')
        eff0 = _value_image(E, args0)
        sig0 = alias_signature(base[1], args0) if base[0] == 'ok' else set()
        args1 = _apply_form(E, make_args(tn, E, seed, size), rel, var, dflt)
        pre1 = _value_image(E, args1)
        got = run(tn, E, args1)
        tolerated = var[1] in TOLERATED_FORMS
        if tolerated and got[0] == 'exc' and got[1] != 'CallTimeout':
            got = base            # an undocumented form may be rejected loudly; it must never silently differ
            if _value_image(E, args1).get(var[0]) != pre1.get(var[0]):
                return f'{var[0]} as {var[1]}: the argument {var[0]} was modified by the (failing) call'
            return None
        if outcome_canon(got) != outcome_canon(base):
            return f'{var[0]} as {var[1]}: {short(got)} instead of {short(base)}'
        p = var[0]
        eff1 = _value_image(E, args1)
        for q in eff0:
            if q == p:
                # the re-formed parameter itself: unchanged by the call unless documented
                if q not in E.setof('inplace', args0) and eff1[q] != pre1[q]:
                    return f'{var[0]} as {var[1]}: the argument {q} was modified by the call'
                continue
            if eff1.get(q) != eff0[q]:
                return f'{var[0]} as {var[1]}: different effect on argument {q}'
        if got[0] == 'ok':
            sig1 = alias_signature(got[1], args1)
            if {s for s in sig1 if s[0] != p} != {s for s in sig0 if s[0] != p}:
                return f'{var[0]} as {var[1]}: result aliases {sorted(sig1)} instead of {sorted(sig0)}'
        return None
    if rel == 'R4':
        return _history(tn, E, seed, size, var, dflt)
    if rel == 'R10':
        base = run(tn, E, args0)
        if base[0] == 'exc' and not (base[1] == 'ValueError' and E.rejects):
            raise Skip(f'baseline raised {base[1]}: {base[2]}')
        a1 = make_args(tn, E, seed, size)
        pk = _positional(tn, E, a1)
        if pk is None:
            raise Skip('no documented parameter order')
        got = run(tn, E, a1, pos=pk[0], kw=pk[1])
        if outcome_canon(got) != outcome_canon(base):
            return (f'all arguments by position in the documented order ({len(pk[0])} positional): {short(got)} instead of '
                    f'{short(base)} (keyword call)')
        return None
    if rel == 'R9':
        return _shared(tn, E, seed, size, var)
    if rel == 'R7':
        p, dt = var
        a0 = make_args(tn, E, seed, size, 'big')
        a0[p] = np.int64(a0[p]) if _is_intlike(a0[p]) else np.asarray(a0[p]).astype(np.int64)
        base = run(tn, E, a0)
        if base[0] == 'exc' and not (base[1] == 'ValueError' and E.rejects):
            raise Skip(f'baseline raised {base[1]}: {base[2]}')
        a1 = make_args(tn, E, seed, size, 'big')
        a1[p] = getattr(np, dt)(a1[p]) if _is_intlike(a1[p]) else np.asarray(a1[p]).astype(dt)
        pre = canon(a1[p])
        got = run(tn, E, a1)
        if outcome_canon(got) != outcome_canon(base):
            return f'{p} as {dt}: {short(got)} instead of {short(base)} (int64)'
        if canon(a1[p]) != pre:
            return f'{p} as {dt}: the argument was modified by the call'
        return None
    if rel == 'R8':
        which, what = var
        doc = documented_defaults(E)
        a0 = make_args(tn, E, seed, size, which)
        base = run(tn, E, a0)
        if base[0] == 'exc' and not (base[1] == 'ValueError' and E.rejects):
            raise Skip(f'baseline raised {base[1]}: {base[2]}')
        a1 = make_args(tn, E, seed, size, which)
        add = {q: v for q, v in doc.items() if q not in a1 and E.kind(q) != 'dict' and (what == 'all' or q == what)}
        a1.update(add)
        got = run(tn, E, a1)
        if outcome_canon(got) != outcome_canon(base):
            return (f'documented default(s) passed explicitly ({", ".join(f"{q}={v!r}" for q, v in add.items())}): '
                    f'{short(got)} instead of {short(base)} (parameters omitted)')
        return None
    if rel == 'R5':
        return _layouts(tn, E, seed, size, var)
    if rel == 'R6':
        return _scale(tn, E, seed, size, var)
    raise ValueError(rel)


class Skip(Exception):
    pass


def _history(tn, E, seed, size, var, dflt):
    if var[0] == 'form':
        # the same statement with one vector parameter re-formed (ndarray of the target dtype / plain list)
        _mk = globals()['make_args']

        def make_args(tn_, E_, seed_, size_):       # noqa: F811 (shadows the module-level generator inside this call)
            a = _mk(tn_, E_, seed_, size_)
            a[var[1]] = _container(a[var[1]], var[2])
            return a
    else:
        make_args = globals()['make_args']
    args = make_args(tn, E, seed, size)
    inpl = E.setof('inplace', args)
    okal = E.setof('alias', args)
    if var[0] == 'default-dicts':
        # explicit fresh dictionaries against the shared defaults, with another call (other inputs) in between
        base = run(tn, E, args)
        if base[0] == 'exc':
            raise Skip(f'baseline raised {base[1]}: {base[2]}')
        for rnd in range(2):
            a1 = {p: v for p, v in make_args(tn, E, seed, size).items() if not (E.kind(p) == 'dict' and isinstance(dflt.get(p), dict))}
            got = run(tn, E, a1)
            if outcome_canon(got) != outcome_canon(base):
                return f'call {rnd + 1} with the default dictionaries: {short(got)} instead of {short(base)} (fresh dictionaries)'
            for j in (1, 2, 3):
                other = {p: v for p, v in make_args(tn, E, seed + j, size).items()
                         if not (E.kind(p) == 'dict' and isinstance(dflt.get(p), dict))}
                run(tn, E, other)
        return None
    s0 = {p: snap(v) for p, v in args.items()}
    d0 = {p: canon(v) for p, v in args.items() if E.kind(p) == 'dict'}
    r1 = run(tn, E, args)
    if r1[0] == 'exc':
        raise Skip(f'baseline raised {r1[1]}: {r1[2]}')
    bad = _args_effect(E, s0, args, inpl)
    if bad:
        return f'argument {bad[0]} modified by the call'
    if E.invariant:
        msg = E.invariant(tn, r1[1], args)
        if msg:
            return msg
    c1 = outcome_canon(r1)
    d1 = {p: canon(v) for p, v in args.items() if E.kind(p) == 'dict'}
    sig = alias_signature(r1[1], args)
    hit = sorted({p for p, _ in sig} - okal - inpl)
    if hit:
        return f'result shares memory / containers with argument {hit[0]} ({sorted(sig)})'
    # an equal call started from equal (fresh) dictionaries: equal results and equal dictionaries
    argsB = make_args(tn, E, seed, size)
    rB = run(tn, E, argsB)
    if outcome_canon(rB) != c1:
        return f'an equal call on equal fresh arguments returned {short(rB)} instead of {short(r1)}'
    dB = {p: canon(v) for p, v in argsB.items() if E.kind(p) == 'dict'}
    if dB != d1:
        p = [q for q in d1 if dB[q] != d1[q]][0]
        return f'dictionary {p} differs after two equal calls started from equal dictionaries'
    if inpl:
        return None         # the documented in-place mode changes its argument: the same objects are a different input
    # second call on the very same objects (dictionaries are reused as they are: the function has to reset them)
    for p in d0:
        if p == 'cache':
            args[p].clear()
            args[p].update(make_args(tn, E, seed, size)[p])
    s1 = {p: snap(v) for p, v in args.items()}
    r2 = run(tn, E, args)
    if outcome_canon(r2) != c1:
        return f'second call on the same argument objects returned {short(r2)} instead of {short(r1)}'
    bad = _args_effect(E, s1, args, inpl)
    if bad:
        return f'argument {bad[0]} modified by the second call'
    for p in d1:
        if p != 'cache' and canon(args[p]) != d1[p]:
            return f'dictionary {p} after the second call differs from the one after the first'
    # scribble over both results, call a third time
    s2 = {p: snap(v) for p, v in args.items()}
    for r in (r1, r2):
        for a in arrays_in(r[1]):
            if a.flags.writeable and a.size and a.dtype != object:
                try:
                    a[...] = 777
                except Exception:
                    pass
        for cnt in containers_in(r[1]):
            if isinstance(cnt, list):
                cnt.append('scribble')
            elif isinstance(cnt, dict) and not any(cnt is args.get(p) for p in d0):
                cnt['scribble'] = 777
    bad = _args_effect(E, s2, args, inpl | okal)
    if bad:
        return f'writing into the result changed argument {bad[0]}'
    for p in d0:
        if p == 'cache':
            args[p].clear()
            args[p].update(make_args(tn, E, seed, size)[p])
    r3 = run(tn, E, args)
    if outcome_canon(r3) != c1:
        return f'third call (after the caller overwrote the earlier results) returned {short(r3)} instead of {short(r1)}'
    return None


def _layouts(tn, E, seed, size, var):
    how = var[0]
    args0 = make_args(tn, E, seed, size)
    base = run(tn, E, args0)
    if base[0] == 'exc':
        raise Skip(f'baseline raised {base[1]}: {base[2]}')
    args1 = make_args(tn, E, seed, size)
    for p in list(args1):
        if E.kind(p) == 'tt' and isinstance(args1[p], list) and (p, 'R5') not in E.novar:
            args1[p] = [(_relayout(G, how) if isinstance(G, np.ndarray) else G) for G in args1[p]]
            if args1[p] and isinstance(args1[p][0], list):       # list of tensors
                args1[p] = [[_relayout(G, how) for G in Y] if isinstance(Y, list) else Y for Y in args1[p]]
        elif E.kind(p) in ('array', 'tt') and isinstance(args1[p], np.ndarray) and (p, 'R5') not in E.novar:
            args1[p] = _relayout(args1[p], how)
    inpl = E.setof('inplace', args1)
    s1 = {p: snap(v) for p, v in args1.items()}
    got = run(tn, E, args1)
    if got[0] != base[0] or (got[0] == 'exc' and got[1] != base[1]):
        return f'layout {how}: {short(got)} instead of {short(base)}'
    if got[0] == 'ok':
        try:
            close(got[1], base[1], E.tol or TOL)
        except Mismatch as m:
            return f'layout {how}: {m}'
    bad = _args_effect(E, s1, args1, inpl)
    if bad:
        return f'layout {how}: argument {bad[0]} modified by the call'
    return None


def _scale(tn, E, seed, size, var):
    mode, s = var
    args0 = make_args(tn, E, seed, size)
    base = run(tn, E, args0)
    if base[0] == 'exc':
        raise Skip(f'baseline raised {base[1]}: {base[2]}')
    args1 = make_args(tn, E, seed, size)
    H = E.homog
    sc = H['scale'](args1) if callable(H['scale']) else H['scale']
    # the total shift S is fixed by the first TT-valued scaled parameter (every tensor of the call has the same number of
    # cores in mode 'each'); arrays and numbers are multiplied by 2**(deg * S)
    S = None
    for p, deg in sc.items():
        v = args1.get(p)
        if isinstance(v, list) and v and isinstance(v[0], np.ndarray):
            S = s * len(v) if mode == 'each' else s
            break
    if S is None:
        S = s * 3 if mode == 'each' else s
    for p, deg in sc.items():
        if p not in args1 or args1[p] is None:
            continue
        v = args1[p]
        if isinstance(v, list) and v and isinstance(v[0], np.ndarray):
            d = len(v)
            if mode == 'each' and S % d == 0:
                per = S // d
                args1[p] = [np.ldexp(np.asarray(G, dtype=float), per * deg) for G in v]
            else:
                k = seed % d
                args1[p] = [np.ldexp(np.asarray(G, dtype=float), S * deg) if i == k else G for i, G in enumerate(v)]
        elif isinstance(v, list) and v and isinstance(v[0], list):          # list of tensors
            new = []
            for Y in v:
                if isinstance(Y, list):
                    k = seed % len(Y)
                    new.append([np.ldexp(np.asarray(G, dtype=float), S * deg) if i == k else G for i, G in enumerate(Y)])
                else:
                    new.append(float(np.ldexp(float(Y), S * deg)))
            args1[p] = new
        elif isinstance(v, np.ndarray):
            args1[p] = np.ldexp(v.astype(float), S * deg)
        elif isinstance(v, (int, float)) and not isinstance(v, bool):
            args1[p] = float(np.ldexp(float(v), S * deg))
        elif callable(v):
            args1[p] = _scaled_callable(v, S * deg)
        else:
            raise Skip(f'cannot scale parameter {p}')
    got = run(tn, E, args1)
    if got[0] != base[0] or (got[0] == 'exc' and got[1] != base[1]):
        return f'inputs times 2^{S}: {short(got)} instead of {short(base)}'
    if got[0] == 'ok':
        spec = H['out'](args0) if callable(H['out']) else H['out']
        try:
            close(got[1], base[1], E.tol or TOL_SCALE, shift=S, spec=spec)
        except Mismatch as m:
            return f'inputs times 2^{S} ({mode} core(s) times 2^{s}): {m}'
    return None


def _scaled_callable(f, sh):
    def g(*a, **k):
        r = f(*a, **k)
        return None if r is None else np.ldexp(np.asarray(r, dtype=float), sh)
    return g


# ----------------------------------------------------------------------------------------------------------------
# API
# ----------------------------------------------------------------------------------------------------------------
QUANTIFIED_OVER_ALL = {'C09': ('R4', 'R2', 'R5', 'R9'), 'C10': ('R4',)}


def plan(pid):
    """[(entry, relations)] for a property: every relation on the entries that list it; C09 / C10 quantify over every
    exported routine (history relation; C09 also the argument-effect side of the flag and layout relations)"""
    T = table()
    out = []
    for name in sorted(T):
        E = T[name]
        rels = []
        if pid in E.props:
            rels = list(RELATIONS)
        for r in QUANTIFIED_OVER_ALL.get(pid, ()):
            if r not in rels:
                rels.append(r)
        rels = [r for r in rels if r not in E.skip]
        if rels:
            out.append((E, rels))
    return out


def search(tn, rng, pid, deep=False, budget_s=8.0, only=None, relations=None):
    """run every relation on every TABLE entry whose props contain pid (C09 / C10: the history relation on all entries).
    Returns (n_eval, fails, coverage)."""
    t0 = time.time()
    pl = plan(pid)
    if only:
        pl = [(E, r) for E, r in pl if E.name in only]
    nrounds = 6 if deep else 3
    sizes = [0, 1, 2, 1, 2, 3] if deep else [0, 1, 1]
    budget = budget_s * (20 if deep else 1)
    n_eval, fails, skipped = 0, [], []
    cov = {}
    seeds = {E.name: [rng.randrange(1, 2 ** 31 - 1) for _ in range(nrounds)] for E, _ in pl}
    # round-robin: (round, relation, entry) so that a short budget still touches every entry: the first relation of the
    # property (the history relation for C09 / C10) is run on every entry whatever the budget, everything else until the
    # budget is used up; the entry order is drawn from rng, so different seeds cover different tails
    rel_order = list(QUANTIFIED_OVER_ALL.get(pid, ())) + [r for r in RELATIONS if r not in QUANTIFIED_OVER_ALL.get(pid, ())]
    stop = False
    rnd = 0
    for rnd in range(nrounds):
        order = list(pl)
        rng.shuffle(order)
        for ri, rel in enumerate(rel_order):
            if relations and rel not in relations:
                continue
            for E, rels in order:
                if rel not in rels:
                    continue
                if (rnd > 0 or ri > 0) and time.time() - t0 > budget:
                    stop = True
                    break
                seed, size = seeds[E.name][rnd], sizes[rnd]
                try:
                    args = make_args(tn, E, seed, size)
                    vs = variants(tn, E, rel, args, deep, seed, size)
                except Exception as e:  # noqa: generator failure = table problem, reported, never a verdict
                    skipped.append(dict(function=E.name, relation=rel, seed=seed, size=size, why=f'generator: {e!r}'))
                    continue
                c = cov.setdefault(E.name, {})
                for var in vs:
                    try:
                        msg = eval_variant(tn, E, seed, size, rel, var)
                    except Skip as e:
                        skipped.append(dict(function=E.name, relation=rel, seed=seed, size=size, why=str(e)))
                        break
                    n_eval += 1
                    c[rel] = c.get(rel, 0) + 1
                    if msg:
                        case = dict(function=E.name, seed=seed, size=size, relation=rel, variant=var)
                        fails.append(dict(what=f'{E.name}: {REL_NAME[rel]} ({rel}): {msg}', function=E.name, relation=rel,
                                          input={'forms_case': case}))
            if stop:
                break
        if stop:
            break
    coverage = dict(entries=len(pl), evaluations=n_eval, per_entry=cov, skipped=skipped[:40], n_skipped=len(skipped),
                    rounds_completed=rnd + (0 if stop else 1), wall_s=round(time.time() - t0, 2))
    return n_eval, fails, coverage


def find_case(x, depth=0):
    """the `forms_case` description anywhere inside a failure dict / a replay file written by ./check"""
    if isinstance(x, dict) and depth < 6:
        if isinstance(x.get('forms_case'), dict):
            return x['forms_case']
        for v in x.values():
            c = find_case(v, depth + 1)
            if c is not None:
                return c
    return None


def is_forms_payload(data):
    return find_case(data) is not None


def replay(tn, payload):
    """re-run exactly one recorded case: 1 if it still fails, 0 otherwise"""
    case = find_case(payload)
    if case is None:
        return 0
    E = table().get(case['function'])
    if E is None:
        return 0
    try:
        msg = eval_variant(tn, E, case['seed'], case['size'], case['relation'], list(case['variant']))
    except Skip:
        return 0
    return 1 if msg else 0


def all_pids():
    T = table()
    return sorted({p for E in T.values() for p in E.props} | set(QUANTIFIED_OVER_ALL))


def selftest(seed=None, deep=False, verbose=True):
    """all property ids; one line per relation: entries / evaluations / failures"""
    tn = C.import_teneva()
    seed = int(os.environ.get('VERIF_SEED', '1')) if seed is None else seed
    T = table()
    exported = exported_names(tn)
    missing = [n for n in exported if n not in T and not any(k.split('.')[0] == n for k in T)]
    tot = {r: [set(), 0, 0] for r in RELATIONS}
    allf, skipped = [], []
    t0 = time.time()
    worst = (0, None)
    for pid in all_pids():
        rng = C.Rng(f'{seed}/{pid}/forms')
        t1 = time.time()
        n, fails, cov = search(tn, rng, pid, deep=deep, budget_s=8.0)
        dt = time.time() - t1
        worst = max(worst, (dt, pid))
        for name, c in cov['per_entry'].items():
            for r, k in c.items():
                tot[r][0].add(name)
                tot[r][1] += k
        for f in fails:
            tot[f['relation']][2] += 1
            allf.append((pid, f))
        skipped += [(pid, s) for s in cov['skipped']]
        if verbose:
            print(f'  {pid}: entries={cov["entries"]} evaluations={n} failures={len(fails)} skipped={cov["n_skipped"]} '
                  f'rounds={cov["rounds_completed"]} wall={dt:.1f}s', flush=True)
    print(f'forms selftest seed={seed} table entries={len(T)} exported={len(exported)} missing={missing}')
    for r in RELATIONS:
        print(f'  {r} {REL_NAME[r]:16s} entries={len(tot[r][0]):3d} evaluations={tot[r][1]:5d} failures={tot[r][2]}')
    print(f'  wall={time.time() - t0:.1f}s slowest property={worst[1]} ({worst[0]:.1f}s) skipped baseline calls={len(skipped)}')
    seen = set()
    for pid, f in allf:
        key = (f['function'], f['relation'], str(f['input']['forms_case']['variant']))
        if key in seen:
            continue
        seen.add(key)
        print(f'  FAIL [{pid}] {f["what"][:400]}   case={f["input"]["forms_case"]}')
    seen = set()
    for pid, s in skipped:
        key = (s['function'], s['why'][:60])
        if key in seen:
            continue
        seen.add(key)
        print(f'  SKIP [{pid}] {s}')
    return len(allf), len(skipped)


def exported_names(tn):
    out = []
    root = os.path.realpath(os.path.dirname(tn.__file__))
    for n in sorted(dir(tn)):
        o = getattr(tn, n)
        if n.startswith('_') or not callable(o):
            continue
        try:
            f = inspect.getsourcefile(o)
        except Exception:
            continue
        if f and os.path.realpath(f).startswith(root):
            out.append(n)
    return out


def sweep(names, seed=1, deep=False, jobs=12):
    """validation helper: for every archived change seeded/<name>/patch.diff make a scratch copy of /repo under /dev/shm,
    apply the patch, run search() for the change's own property and for C09 / C10 on the copy (TENEVA_REPO), replay the
    first failure, print which relation catches it; the copy is removed afterwards"""
    import glob
    import json
    import shutil
    import subprocess
    from concurrent.futures import ThreadPoolExecutor
    if not names:
        names = sorted(os.path.basename(os.path.dirname(f)) for f in glob.glob(os.path.join(C.VERIF, 'seeded', '*', 'patch.diff')))

    def one(name):
        d = f'/dev/shm/forms_{name}_{os.getpid()}'
        shutil.rmtree(d, ignore_errors=True)
        try:
            shutil.copytree('/repo', d, ignore=shutil.ignore_patterns('.git'))
            r = subprocess.run(['patch', '-p1', '-s', '-i', os.path.join(C.VERIF, 'seeded', name, 'patch.diff')], cwd=d,
                               capture_output=True, text=True)
            if r.returncode != 0:
                return name, 'patch failed', []
            env = dict(os.environ, TENEVA_REPO=d, PYTHONHASHSEED='0', PYTHONPATH=C.VERIF)
            pid = name.split('-')[0]
            hits = []
            for q in dict.fromkeys([pid, 'C09', 'C10']):
                r = subprocess.run([sys.executable, '-W', 'ignore', os.path.abspath(__file__), '--pid', q, '--seed', str(seed),
                                    '--json'] + (['--deep'] if deep else []), env=env, capture_output=True, text=True)
                try:
                    out = json.loads(r.stdout.strip().splitlines()[-1])
                except Exception:
                    return name, 'run failed: ' + (r.stderr or r.stdout)[-300:], []
                for f in out['fails']:
                    hits.append((q, f['function'], f['relation'], f['what'], f['replayed']))
            return name, 'ok', hits
        finally:
            shutil.rmtree(d, ignore_errors=True)
    with ThreadPoolExecutor(jobs) as ex:
        res = list(ex.map(one, names))
    for name, st, hits in res:
        if st != 'ok':
            print(f'{name}: {st}')
            continue
        if not hits:
            print(f'{name}: not caught')
            continue
        own = name.split('-')[0]
        summ = sorted({(q, fn, rel) for q, fn, rel, _, _ in hits})
        rep = all(h[4] for h in hits)
        print(f'{name}: CAUGHT by ' + '; '.join(f'{q}:{fn}:{rel}' for q, fn, rel in summ[:8]) +
              (' ...' if len(summ) > 8 else '') + f' | own property: {any(q == own for q, _, _ in summ)} | replay ok: {rep}')
        print(f'      e.g. {hits[0][3][:260]}')


if __name__ == '__main__':
    import argparse
    ap = argparse.ArgumentParser()
    ap.add_argument('--seed', type=int, default=None)
    ap.add_argument('--deep', action='store_true')
    ap.add_argument('--pid', default=None)
    ap.add_argument('--only', default=None)
    ap.add_argument('--rel', default=None)
    ap.add_argument('--budget', type=float, default=8.0)
    ap.add_argument('--json', action='store_true')
    ap.add_argument('--sweep', nargs='*', default=None, help='archived seed names (default: all)')
    a = ap.parse_args()
    if a.sweep is not None:
        sweep(a.sweep, seed=a.seed or 1, deep=a.deep)
        sys.exit(0)
    if a.pid and a.json:
        import json
        tn_ = C.import_teneva()
        sd = int(os.environ.get('VERIF_SEED', '1')) if a.seed is None else a.seed
        n_, fails_, cov_ = search(tn_, C.Rng(f'{sd}/{a.pid}/forms'), a.pid, deep=a.deep, budget_s=a.budget)
        seen_, out_ = set(), []
        for f_ in fails_:
            k_ = (f_['function'], f_['relation'])
            if k_ not in seen_:
                seen_.add(k_)
                out_.append(dict(function=f_['function'], relation=f_['relation'], what=f_['what'][:400],
                                 replayed=replay(tn_, f_['input'])))
        print(json.dumps(dict(pid=a.pid, evaluations=n_, fails=out_, skipped=cov_['n_skipped'])))
        sys.exit(0)
    if a.pid:
        tn_ = C.import_teneva()
        sd = int(os.environ.get('VERIF_SEED', '1')) if a.seed is None else a.seed
        n_, fails_, cov_ = search(tn_, C.Rng(f'{sd}/{a.pid}/forms'), a.pid, deep=a.deep, budget_s=a.budget,
                                  only=a.only.split(',') if a.only else None, relations=a.rel.split(',') if a.rel else None)
        print(f'{a.pid}: evaluations={n_} failures={len(fails_)} skipped={cov_["n_skipped"]} wall={cov_["wall_s"]}s')
        for f_ in fails_[:30]:
            print('  FAIL', f_['what'][:500], f_['input'])
        for s_ in cov_['skipped'][:30]:
            print('  SKIP', s_)
        sys.exit(1 if fails_ else 0)
    nf, ns = selftest(a.seed, a.deep)
    sys.exit(1 if nf else 0)
