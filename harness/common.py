"""Shared machinery of the teneva verification harness.

Everything a check needs besides its own generator / comparison logic:
  * building the Coq development (full .vo build, under a file lock),
  * capturing `Print Assumptions` of every property theorem and comparing it with
    the allow-list of DESIGN.md section 8,
  * evaluating the Gallina model on generated cases (`cases_*.v` + vm_compute),
  * evidence / replay files, known findings, the verdict line.
"""
import ast
import warnings
warnings.filterwarnings('ignore', category=SyntaxWarning)
import fcntl
import hashlib
import json
import math
import os
import random
import re
import shutil
import subprocess
import sys
import time

VERIF = os.path.dirname(os.path.dirname(os.path.abspath(__file__)))
COQ = os.path.join(VERIF, 'coq')
GEN = os.path.join(COQ, 'Gen')
# mutant runs (harness/muttest.sh) redirect these so that committed evidence only ever comes from /repo itself
EVID = os.environ.get('VERIF_EVID_DIR') or os.path.join(VERIF, 'evidence')
REPLAY = os.environ.get('VERIF_REPLAY_DIR') or os.path.join(VERIF, 'replay')
REPO = os.environ.get('TENEVA_REPO', '/repo')
NCPU = int(os.environ.get('VERIF_JOBS', '16'))
FILE_TIMEOUT = int(os.environ.get('VERIF_FILE_TIMEOUT', '900'))

# axioms of the standard library that may appear under a property theorem (DESIGN.md section 8)
ALLOWED_AXIOMS = {
    'ClassicalDedekindReals.sig_forall_dec',
    'ClassicalDedekindReals.sig_not_dec',
    'FunctionalExtensionality.functional_extensionality_dep',
    'Classical_Prop.classic',
}

FORBIDDEN = re.compile(
    r'\b(Admitted|admit|Axiom|Axioms|Parameter|Parameters|Conjecture|Conjectures|Admit Obligations|'
    r'Unset Guard Checking|Unset Positivity Checking|Unset Universe Checking|bypass_check|'
    r'type-in-type|impredicative-set)\b')


def log(*a):
    print(*a, file=sys.stderr, flush=True)


# ----------------------------------------------------------------------------
# Coq build
# ----------------------------------------------------------------------------

def coq_sources():
    out = []
    for root, dirs, files in os.walk(COQ):
        rel = os.path.relpath(root, COQ)
        if rel.startswith('Gen/run_') or rel.startswith('Gen/tmp'):
            continue
        for f in sorted(files):
            if f.endswith('.v'):
                p = os.path.normpath(os.path.join(rel, f))
                if p.startswith('Gen/') and not p.startswith('Gen/Skel'):
                    continue
                out.append(p)
    return sorted(out)


def forbidden_scan():
    """grep of the whole development for anything that would declare an axiom or weaken the kernel."""
    hits = []
    for p in coq_sources():
        txt = open(os.path.join(COQ, p)).read()
        # comments are scanned too on purpose (cheap, and nothing legitimate needs these words);
        txt_nc = re.sub(r'\(\*.*?\*\)', '', txt, flags=re.S)
        for m in FORBIDDEN.finditer(txt_nc):
            hits.append(f'{p}: {m.group(0)}')
        for m in re.finditer(r'^\s*(Variable|Variables|Hypothesis|Hypotheses)\b', txt_nc, flags=re.M):
            # allowed only inside a Section: check nesting depth at this offset
            pre = txt_nc[:m.start()]
            depth = len(re.findall(r'^\s*Section\s+\w+', pre, flags=re.M)) - \
                len(re.findall(r'^\s*End\s+\w+\s*\.', pre, flags=re.M)) + \
                len(re.findall(r'^\s*Module\s+(?:Type\s+)?\w+[^:=]*\.\s*$', pre, flags=re.M))
            if depth <= 0:
                hits.append(f'{p}: top-level {m.group(1)}')
    return hits


def build_coq(timeout=3000, target=None):
    """Full .vo build (coq_makefile + make), serialised by a lock so concurrent checks share it.
    With `target` (e.g. Properties/C17.vo) only that file and everything it depends on is (re)built,
    so a check is decided by its own cone of the development.  Returns (ok, log_text)."""
    os.makedirs(GEN, exist_ok=True)
    lock = open(os.path.join(COQ, '.build.lock'), 'w')
    fcntl.flock(lock, fcntl.LOCK_EX)
    try:
        srcs = coq_sources()
        proj = ['-Q . TV',
                '-arg -w -arg -notation-overridden,-deprecated-hint-rewrite-without-locality,'
                '-deprecated-instance-without-locality,-deprecated-hint-without-locality,-ambiguous-paths'] + srcs
        projtxt = '\n'.join(proj) + '\n'
        pj = os.path.join(COQ, '_CoqProject')
        old = open(pj).read() if os.path.exists(pj) else ''
        if old != projtxt or not os.path.exists(os.path.join(COQ, 'Makefile')):
            open(pj, 'w').write(projtxt)
            r = subprocess.run(['coq_makefile', '-f', '_CoqProject', '-o', 'Makefile'], cwd=COQ,
                               capture_output=True, text=True)
            if r.returncode != 0:
                return False, r.stdout + r.stderr
        t = time.time()
        try:
            # every coqc runs under its own time limit, so one looping tactic cannot stall the whole build
            cmd = ['timeout', str(timeout), 'make', f'-j{NCPU}', f'COQC=timeout {FILE_TIMEOUT} coqc'] + \
                  (target.split() if target else ['-k'])
            r = subprocess.run(cmd, cwd=COQ, capture_output=True, text=True)
        except Exception as e:  # pragma: no cover
            return False, repr(e)
        txt = r.stdout[-6000:] + r.stderr[-6000:]
        return r.returncode == 0, f'[make {time.time() - t:.1f}s rc={r.returncode}]\n' + txt
    finally:
        fcntl.flock(lock, fcntl.LOCK_UN)
        lock.close()



def case_modules(pid):
    """.vo targets of every TV module that the check's generated case files import (`From TV Require Import ...` inside
    the string constants of harness/props/<pid>.py and harness/lib_*.py).  They need not be in the cone of
    Properties/<pid>.v (e.g. Num/InstF.v is used for evaluation only), so the check builds them explicitly."""
    import glob
    main = os.path.join(VERIF, 'harness', 'props', f'{pid}.py')
    src = open(main).read() if os.path.exists(main) else ''
    files = [main] + [f for f in sorted(glob.glob(os.path.join(VERIF, 'harness', '*.py')))
                      if os.path.basename(f)[:-3] in src and os.path.basename(f) not in ('common.py', '__init__.py')]
    mods = set()
    for f in files:
        if not os.path.exists(f):
            continue
        txt = open(f).read()
        for m in re.finditer(r'From TV Require (?:Import|Export)\s+([A-Za-z0-9_.\s\\n\'"+()]+?)\.(?:\\n|\s|\'|"|$)', txt):
            for w in re.findall(r'[A-Z][A-Za-z0-9_]*(?:\.[A-Z][A-Za-z0-9_]*)+', m.group(1)):
                mods.add(w)
    out = []
    for w in sorted(mods):
        rel = w.replace('.', '/') + '.v'
        if os.path.exists(os.path.join(COQ, rel)):
            out.append(rel[:-2] + '.vo')
    return out


def theorem_names(relpath):
    txt = open(os.path.join(COQ, relpath)).read()
    txt = re.sub(r'\(\*.*?\*\)', '', txt, flags=re.S)
    return re.findall(r'^\s*(?:Theorem|Lemma|Example|Corollary)\s+([A-Za-z_][A-Za-z0-9_\']*)', txt, flags=re.M)


def print_assumptions(pid, relpath, tag=None):
    """Run `Print Assumptions` for each theorem of Properties/<pid>.v; returns
    (list of dicts {name, axioms, ok}, raw_text)."""
    names = theorem_names(relpath)
    mod = 'TV.' + relpath[:-2].replace('/', '.')
    d = os.path.join(GEN, f'tmp_{tag or pid}_{os.getpid()}')
    os.makedirs(d, exist_ok=True)
    try:
        src = f'Require Import {mod}.\n'
        for n in names:
            src += f'Goal True. idtac "@@BEGIN {n}". exact I. Qed.\nPrint Assumptions {n}.\n'
        src += 'Goal True. idtac "@@END". exact I. Qed.\n'
        f = os.path.join(d, 'Assum.v')
        open(f, 'w').write(src)
        r = subprocess.run(['timeout', '600', 'coqc', '-Q', COQ, 'TV', f], capture_output=True, text=True, cwd=d)
        out = r.stdout
        res = []
        if r.returncode != 0:
            return [dict(name=n, axioms=['<coqc failed>'], ok=False) for n in names] or \
                   [dict(name='<none>', axioms=['<coqc failed>'], ok=False)], out + r.stderr
        parts = re.split(r'@@BEGIN (\S+)', out)
        # parts: [pre, name1, body1, name2, body2, ...]
        for k in range(1, len(parts), 2):
            name, body = parts[k], parts[k + 1].split('@@END')[0]
            if 'Closed under the global context' in body:
                res.append(dict(name=name, axioms=[], ok=True))
            else:
                ax = re.findall(r'^([A-Za-z_][\w\.\']*)\s*:', body, flags=re.M)
                ax = [a for a in ax if a != 'Axioms']
                bad = [a for a in ax if a not in ALLOWED_AXIOMS]
                res.append(dict(name=name, axioms=ax, ok=(len(ax) > 0 and not bad)))
        seen = {x['name'] for x in res}
        for n in names:
            if n not in seen:
                res.append(dict(name=n, axioms=['<no output>'], ok=False))
        return res, out
    finally:
        shutil.rmtree(d, ignore_errors=True)



def coqchk(relpath, timeout=1800):
    """Independent re-check of the compiled property file and everything it depends on (`coqchk -o`).
    Returns dict(ok, axioms, summary).  Used by the thorough tier."""
    mod = 'TV.' + relpath[:-2].replace('/', '.')
    r = subprocess.run(['timeout', str(timeout), 'coqchk', '-silent', '-o', '-Q', COQ, 'TV', mod],
                       capture_output=True, text=True, cwd=COQ)
    out = r.stdout + r.stderr
    m = re.search(r'CONTEXT SUMMARY(.*)', out, flags=re.S)
    summ = m.group(1) if m else out[-2000:]
    ax = []
    m2 = re.search(r'\* Axioms:(.*?)\n\s*\n\* Constants', summ, flags=re.S)
    if m2 and '<none>' not in m2.group(1):
        ax = [l.strip() for l in m2.group(1).splitlines() if l.strip()]
    bad_ax = [a for a in ax if not any(a.endswith(x) or a.endswith(x.split('.')[-1]) for x in ALLOWED_AXIOMS)]
    unsafe = [k for k in ('type-in-type', 'unsafe (co)fixpoints', 'positivity is assumed')
              if re.search(re.escape(k) + r':\s*(?!<none>)\S', summ)]
    ok = (r.returncode == 0) and not bad_ax and not unsafe and m is not None
    return dict(ok=ok, rc=r.returncode, axioms=ax, not_allowed=bad_ax, unsafe=unsafe, summary=summ.strip()[:3000])

# ----------------------------------------------------------------------------
# Evaluating the model: cases_*.v + vm_compute
# ----------------------------------------------------------------------------

def zlit(x):
    x = int(x)
    return f'({x})' if x < 0 else str(x)


def zlist(xs):
    return '[' + '; '.join(zlit(x) for x in xs) + ']'


def natlist(xs):
    return '[' + '; '.join(str(int(x)) for x in xs) + ']%nat'


def nested(xs, leaf=zlit):
    if isinstance(xs, (list, tuple)):
        return '[' + '; '.join(nested(x, leaf) for x in xs) + ']'
    try:
        import numpy as np
        if isinstance(xs, np.ndarray):
            return nested(xs.tolist(), leaf)
    except ImportError:
        pass
    return leaf(xs)


def flit(x):
    """exact PrimFloat literal of a Python float"""
    x = float(x)
    if math.isnan(x):
        return 'nan'
    if math.isinf(x):
        return 'infinity' if x > 0 else 'neg_infinity'
    h = x.hex()
    return f'({h})' if h.startswith('-') else h


def qlit(x):
    """Qc literal from a Fraction / int"""
    from fractions import Fraction
    x = Fraction(x)
    return f'(Q2Qc ({zlit(x.numerator)} # {x.denominator}))'


_strip = re.compile(r'%(Z|nat|positive|float|N|Qc|Q)\b')


def parse_coq_value(txt):
    """Parse the printed value of `Eval vm_compute in <term>` whose type is built from lists, pairs and
    numbers (Z / nat) into Python lists / tuples / ints."""
    t = _strip.sub('', txt)
    t = t.replace(';', ',')
    t = re.sub(r'\btrue\b', 'True', t)
    t = re.sub(r'\bfalse\b', 'False', t)
    return ast.literal_eval(t.strip())


def run_cases(tag, header, cases, chunk=250, timeout=900, width=True):
    """cases: list of Gallina terms (strings) all of the same type (printable by parse_coq_value).
    Returns the list of parsed values, in order.  Raises RuntimeError with the coqc output on failure."""
    if not cases:
        return []
    d = os.path.join(GEN, f'run_{tag}_{os.getpid()}')
    shutil.rmtree(d, ignore_errors=True)
    os.makedirs(d)
    try:
        files = []
        for s in range(0, len(cases), chunk):
            part = cases[s:s + chunk]
            f = os.path.join(d, f'cases_{s // chunk:04d}.v')
            src = header + '\nSet Printing Width 2000000000. Set Printing Depth 2000000000.\n'
            src += 'Definition res := [\n' + ';\n'.join(part) + '\n].\n'
            src += 'Goal True. idtac "@@RES". exact I. Qed.\nEval vm_compute in res.\n'
            open(f, 'w').write(src)
            files.append(f)
        procs = []
        results = [None] * len(files)
        pending = list(enumerate(files))
        running = []
        while pending or running:
            while pending and len(running) < NCPU:
                k, f = pending.pop(0)
                p = subprocess.Popen(['timeout', str(timeout), 'coqc', '-Q', COQ, 'TV', f],
                                     stdout=subprocess.PIPE, stderr=subprocess.PIPE, text=True, cwd=d)
                running.append((k, f, p))
            k, f, p = running.pop(0)
            out, err = p.communicate()
            if p.returncode != 0:
                for _, _, q in running:
                    q.kill()
                raise RuntimeError(f'coqc failed on {f} (rc={p.returncode}):\n{out[-3000:]}\n{err[-3000:]}')
            results[k] = out
        vals = []
        for out in results:
            body = out.split('@@RES', 1)[1]
            m = re.search(r'=\s*(.*)\n\s*:\s*list', body, flags=re.S)
            if not m:
                raise RuntimeError('cannot parse coqc output: ' + body[:2000])
            vals.extend(parse_coq_value(m.group(1)))
        if len(vals) != len(cases):
            raise RuntimeError(f'{len(vals)} results for {len(cases)} cases')
        return vals
    finally:
        if not os.environ.get('VERIF_KEEP'):
            shutil.rmtree(d, ignore_errors=True)


def float_of_show(p):
    m, e = p
    if e == 99999:
        return float('nan') if m == 0 else (float('inf') if m > 0 else float('-inf'))
    return math.ldexp(m, e)


# ----------------------------------------------------------------------------
# implementation side
# ----------------------------------------------------------------------------

def import_teneva():
    """Always the current working tree of /repo."""
    os.environ.setdefault('PYTHONHASHSEED', '0')
    for k in list(sys.modules):
        if k == 'teneva' or k.startswith('teneva.'):
            del sys.modules[k]
    if REPO not in sys.path:
        sys.path.insert(0, REPO)
    import teneva
    assert os.path.realpath(os.path.dirname(teneva.__file__)) == os.path.realpath(os.path.join(REPO, 'teneva')), \
        f'teneva imported from {teneva.__file__}, expected {REPO}'
    return teneva


def errclass(e):
    """exception -> model error code (Num/Ops.v err_code)"""
    import numpy as np
    if isinstance(e, ValueError) and not isinstance(e, np.linalg.LinAlgError):
        return 1
    if isinstance(e, AssertionError):
        return 2
    if isinstance(e, np.linalg.LinAlgError):
        return 3
    if isinstance(e, TypeError):
        return 4
    if isinstance(e, IndexError):
        return 5
    return 7



# ----------------------------------------------------------------------------
# source pins: where did /repo change since the models were last validated?
# ----------------------------------------------------------------------------

HELPER_FILES = {'utils.py', 'core.py', 'svd.py', 'transformation.py', 'tensors.py', 'act_one.py', 'act_two.py', 'act_many.py',
                'maxvol.py', 'grid.py', 'props.py', 'data.py'}


def source_hashes():
    """sha1 of ast.dump of every teneva/*.py of the working tree, docstrings removed"""
    import glob
    out = {}
    for f in sorted(glob.glob(os.path.join(REPO, 'teneva', '*.py'))):
        try:
            tree = ast.parse(open(f).read())
            for node in ast.walk(tree):
                if isinstance(node, (ast.FunctionDef, ast.ClassDef, ast.Module, ast.AsyncFunctionDef)):
                    b = node.body
                    if b and isinstance(b[0], ast.Expr) and isinstance(getattr(b[0], 'value', None), ast.Constant) \
                            and isinstance(b[0].value.value, str):
                        node.body = b[1:] or [ast.Pass()]
            out[os.path.basename(f)] = hashlib.sha1(ast.dump(tree).encode()).hexdigest()
        except Exception as e:  # unparsable source: counts as changed
            out[os.path.basename(f)] = 'unparsable: ' + repr(e)[:80]
    return out


def source_changed():
    """files whose AST differs from harness/source_pins.json (missing pins file: everything counts as unchanged)"""
    p = os.path.join(VERIF, 'harness', 'source_pins.json')
    if not os.path.exists(p):
        return []
    pins = json.load(open(p))
    cur = source_hashes()
    return sorted(f for f in set(pins) | set(cur) if pins.get(f) != cur.get(f))


def escalate_for(pid, changed):
    """does a change of these files concern property pid (its anchor files or the widely used helper modules)?"""
    try:
        props = [json.loads(l) for l in open(os.path.join(VERIF, 'properties.jsonl'))]
        anchors = {os.path.basename(f) for p in props if p['id'] == pid for f in p['anchors'].get('files', [])}
    except Exception:
        anchors = set()
    return bool(set(changed) & (anchors | HELPER_FILES))

def signature_table():
    """{function name: {parameter: source text of its default}} for every top-level def (and class method, as Class.method)
    of teneva/*.py in the working tree"""
    import glob
    out = {}
    for f in sorted(glob.glob(os.path.join(REPO, 'teneva', '*.py'))):
        try:
            tree = ast.parse(open(f).read())
        except Exception:
            continue
        defs = [(n.name, n) for n in tree.body if isinstance(n, ast.FunctionDef)]
        for c in tree.body:
            if isinstance(c, ast.ClassDef):
                defs += [(c.name + '.' + n.name, n) for n in c.body if isinstance(n, ast.FunctionDef)]
        for name, n in defs:
            a = n.args
            pos = a.posonlyargs + a.args
            d = {}
            for arg, dv in zip(pos[len(pos) - len(a.defaults):], a.defaults):
                d[arg.arg] = ast.unparse(dv)
            for arg, dv in zip(a.kwonlyargs, a.kw_defaults):
                if dv is not None:
                    d[arg.arg] = ast.unparse(dv)
            out[name] = dict(params=[x.arg for x in pos] + [x.arg for x in a.kwonlyargs], defaults=d)
    return out


def signature_changed(pid):
    """documented defaults / parameter lists of the exported functions property pid covers (harness/forms_table.py: props)
    that differ from harness/signature_pins.json.  The models are instantiated with the documented defaults, so a changed
    default breaks the tie between model and code (reported like any broken correspondence: the search for a failing input
    decides what is printed).  Parameters that only control printing are ignored; C09 / C10 (aliasing, determinism) do not
    depend on default values."""
    p = os.path.join(VERIF, 'harness', 'signature_pins.json')
    if not os.path.exists(p) or pid in ('C09', 'C10'):
        return []
    pins, cur = json.load(open(p)), signature_table()
    try:
        from harness import forms_table
        funcs = {n.split('.')[0] for n, e in forms_table.TABLE.items() if pid in (getattr(e, 'props', None) or [])}
    except Exception:
        return []
    diffs = []
    for fn in sorted(funcs):
        names = [k for k in pins if k == fn or k.startswith(fn + '.')]
        for k in names:
            a, b = pins.get(k), cur.get(k)
            if b is None:
                diffs.append(f'{k}: function no longer defined')
                continue
            if a['params'] != b['params']:
                diffs.append(f"{k}: parameters {a['params']} -> {b['params']}")
            for q in sorted(set(a['defaults']) | set(b['defaults'])):
                if q in ('log',):
                    continue
                if a['defaults'].get(q) != b['defaults'].get(q):
                    diffs.append(f"{k}: default of {q} {a['defaults'].get(q)} -> {b['defaults'].get(q)}")
    return diffs


# ----------------------------------------------------------------------------
# known findings, evidence, verdict
# ----------------------------------------------------------------------------

def known_findings(pid):
    p = os.path.join(VERIF, 'known_findings.json')
    if not os.path.exists(p):
        return []
    data = json.load(open(p))
    return [k for k in data.get('known', []) if k.get('property') == pid]


class Report:
    """Collects what one check run did and produces evidence + verdict."""

    def __init__(self, pid, tier, seed):
        self.pid, self.tier, self.seed = pid, tier, seed
        self.t0 = time.time()
        self.obligations = []       # dicts name / axioms / ok
        self.build_ok = None
        self.build_log = ''
        self.forbidden = []
        self.corr = []              # dicts: name, cases, mismatches(list), distribution
        self.search = []            # dicts: name, evaluations, failures(list)
        self.samples = []
        self.violations = []        # dicts: what, replay payload
        self.known = []
        self.notes = []
        self.trusted = []
        self.distinct = set()

    def add_distinct(self, key):
        self.distinct.add(hashlib.sha1(repr(key).encode()).hexdigest())

    def violation(self, what, payload, found_input=True):
        self.violations.append(dict(what=what, payload=payload, found_input=found_input))

    def finish(self, level='proof', checker_cmd='', extra=None, assumptions=None):
        os.makedirs(EVID, exist_ok=True)
        os.makedirs(REPLAY, exist_ok=True)
        kf = known_findings(self.pid)
        out_lines = []
        real = []
        for v in self.violations:
            key = v['payload'].get('finding_key') if isinstance(v['payload'], dict) else None
            hit = [k for k in kf if key is not None and k.get('key') == key]
            if hit:
                self.known.append(hit[0])
            else:
                real.append(v)
        for k in {json.dumps(k, sort_keys=True) for k in self.known}:
            k = json.loads(k)
            out_lines.append(f"KNOWN-FINDING: property={self.pid} {k.get('what', k.get('key'))}")
        n_obl = len(self.obligations)
        n_dis = sum(1 for o in self.obligations if o['ok'])
        evals = sum(c.get('cases', 0) for c in self.corr) + sum(s.get('evaluations', 0) for s in self.search)
        cov = dict(
            obligations=max(n_obl, 1) if n_obl else 0,
            discharged=n_dis,
            checker_cmd=checker_cmd,
            trusted_base=self.trusted,
            evaluations=evals,
            distinct_nontrivial=len(self.distinct),
            rule='distinct = different generated input (hash of the exact input); non-trivial = passes the '
                 'per-stream validity filter described under correspondence[].distribution',
            samples=self.samples[:6] if self.samples else ['<none>'],
            theorems=self.obligations,
            build_ok=self.build_ok,
            forbidden_scan=self.forbidden,
            correspondence=[{k: v for k, v in c.items() if k != 'mismatch_payloads'} for c in self.corr],
            search=self.search,
            notes=self.notes,
        )
        if extra:
            cov.update(extra)
        ev = dict(property_id=self.pid, tier=self.tier, seed=self.seed, level=level, coverage=cov,
                  assumptions=assumptions or [], wall_s=round(time.time() - self.t0, 2), violations=len(real))
        json.dump(ev, open(os.path.join(EVID, f'{self.pid}.json'), 'w'), indent=1, default=str)
        rc = 0
        if real:
            rc = 1
            found = [v for v in real if v['found_input']]
            v = (found or real)[0]
            rp = os.path.join(REPLAY, f'{self.pid}_{self.tier}_{self.seed}.json')
            json.dump(dict(property=self.pid, tier=self.tier, seed=self.seed, what=v['what'],
                           found_input=v['found_input'], payload=v['payload'],
                           all=[dict(what=x['what'], found_input=x['found_input']) for x in real][:50],
                           replay_cmd=f'./check {self.pid} --replay {rp}'),
                      open(rp, 'w'), indent=1, default=str)
            tail = '' if found else ' no-failing-input-found'
            out_lines.append(f'VIOLATION property={self.pid} replay={rp}{tail}')
        for l in out_lines:
            print(l, flush=True)
        if rc == 0:
            print(f'OK property={self.pid} tier={self.tier} obligations={n_dis}/{n_obl} '
                  f'cases={evals} wall={ev["wall_s"]}s', flush=True)
        return rc


class Rng(random.Random):
    """single PRNG all random choices derive from"""

    def ints(self, lo, hi, k):
        return [self.randint(lo, hi) for _ in range(k)]


def exact_corr(R, name, header, items, chunk=250, norm=None, distribution=None):
    """items: dicts with keys coq (Gallina term), impl (normalised implementation result), input (json-able).
    Model results are compared with `==` after `norm` (default identity).  Returns the mismatching items."""
    vals = run_cases(f'{R.pid}_{name}', header, [it['coq'] for it in items], chunk=chunk)
    bad = []
    for it, v in zip(items, vals):
        v = norm(v) if norm else v
        it['model'] = v
        R.add_distinct((name, it['input']))
        if v != it['impl']:
            bad.append(dict(stream=name, input=it['input'], model=v, impl=it['impl']))
    R.corr.append(dict(name=name, cases=len(items), mismatches=len(bad), comparison='exact equality',
                       distribution=distribution or {}, first_mismatches=bad[:3]))
    if items:
        R.samples.append(dict(stream=name, input=items[0]['input'], model=items[0]['model'], impl=items[0]['impl']))
    return bad


def tolist(x):
    import numpy as np
    if isinstance(x, np.ndarray):
        return x.tolist()
    if isinstance(x, (list, tuple)):
        return [tolist(y) for y in x]
    if isinstance(x, (np.integer,)):
        return int(x)
    if isinstance(x, (np.floating,)):
        return float(x)
    return x


def call_impl(f, *a, **k):
    """result of an implementation call as [0, value] or [errcode]"""
    try:
        return [0, tolist(f(*a, **k))]
    except Exception as e:  # noqa
        return [errclass(e)]
