#!/venv/bin/python
"""Regenerates /verif/MANIFEST.json from harness/registry.py (keeps it valid at all times)."""
import json, os, sys
HERE = os.path.dirname(os.path.dirname(os.path.abspath(__file__)))
sys.path.insert(0, HERE)
from harness.registry import CHECKS, NOT_APPLICABLE

props = [json.loads(l) for l in open(os.path.join(HERE, 'properties.jsonl'))]
ids = [p['id'] for p in props]
checks = []
for pid in ids:
    if pid not in CHECKS:
        continue
    c = CHECKS[pid]
    checks.append(dict(
        property_id=pid,
        quick_cmd=f'./check {pid} --tier quick',
        thorough_cmd=f'./check {pid} --tier thorough',
        evidence_file=f'/verif/evidence/{pid}.json',
        replay_cmd_template='./check ' + pid + ' --replay {path}',
        engine='coq-model+correspondence',
        level_claimed=dict(category='proof', text=c['text'], design_ref=c.get('design_ref', 'DESIGN.md section 6 ' + pid)),
        level_note=c['note'],
        technique=c['technique'],
    ))
na = [dict(property_id=pid, reason=NOT_APPLICABLE.get(pid, 'check not built yet (work in progress; see DESIGN.md section 9)'))
      for pid in ids if pid not in CHECKS]
man = dict(
    version=1,
    setup_cmd='./check --setup',
    hooks=dict(guard='TENEVA_VERIF', enable='no source hooks: recorders are installed by the harness on module attributes at run time',
               baseline_off_cmd='cd /repo && /venv/bin/python -m pytest -ra -q -p no:cacheprovider --timeout=900 --continue-on-collection-errors',
               source_commits=[], add_only=True),
    engines=[dict(name='coq-model+correspondence', path='/verif/check',
                  serves_properties=[c['property_id'] for c in checks],
                  kind_free_text='Rocq/Coq 8.16.1 theorems about a Gallina model (coq/), tied to /repo on every run by a '
                                 'correspondence check (model evaluated with vm_compute on the inputs the implementation ran) '
                                 'or by a translator that regenerates the model from the source (C09, C10); '
                                 'property-level failing-input search on the implementation')],
    checks=checks,
    notes='See DESIGN.md. A check reports a violation if a proof obligation or the correspondence breaks; the search then '
          'looks for a concrete failing input (else the VIOLATION line ends in no-failing-input-found).',
    not_applicable=na,
)
json.dump(man, open(os.path.join(HERE, 'MANIFEST.json'), 'w'), indent=1)
print('checks:', [c['property_id'] for c in checks], 'not claimed:', [n['property_id'] for n in na])
