"""TABLE of every public callable of teneva for harness/forms.py: a small valid baseline call, the kind of every parameter,
the documented degree of homogeneity and the documented in-place / pass-through exceptions.

Exclusions (a relation switched off for one function or one parameter form) carry a comment that says why: either the
form is outside the documented argument types (the unchanged code raises or differs and no property statement implies it),
or the relation is not implied by the documentation.  Every enabled pair holds on the unchanged /repo for VERIF_SEED 1..10.
"""
import itertools

import numpy as np

from harness import common as C
from harness.forms import Entry

TABLE = {}


# ----------------------------------------------------------------------------------------------------------------
# generator helper: the ONLY source of randomness of a case (seeded by the case seed)
# ----------------------------------------------------------------------------------------------------------------
class G:
    def __init__(self, tn, seed, size, uniform=False):
        # uniform: equal mode sizes and one constant TT-rank, so that cores have equal shapes (R9 shared-objects)
        self.tn, self.seed, self.size, self.uniform = tn, seed, size, uniform
        self.r = C.Rng(seed)
        self.rs = np.random.RandomState(self.r.randrange(2 ** 32))
        if size == 0:
            self.d, self.nlo, self.nhi, self.rmax = 3, 2, 4, 2
        elif size == 1:
            self.d, self.nlo, self.nhi, self.rmax = self.r.randint(2, 4), 2, 5, 3
        elif size == 2:
            self.d, self.nlo, self.nhi, self.rmax = self.r.randint(3, 5), 2, 5, 3
        else:
            self.d, self.nlo, self.nhi, self.rmax = self.r.randint(2, 5), 2, 6, 4
        self.n = [self.r.randint(self.nlo, self.nhi) for _ in range(self.d)]
        if uniform:
            self.d = max(self.d, 3)
            self.n = [self.n[0]] * self.d
            self.ur = self.r.randint(1, 2)

    # -- scalars
    def flag(self):
        return bool(self.r.randint(0, 1))

    def pick(self, *xs):
        return xs[self.r.randrange(len(xs))]

    def int(self, lo, hi):
        return self.r.randint(lo, hi)

    def num(self, lo=-2., hi=2.):
        """a float with a short binary expansion (exact under power-of-two scaling and in sums with small integers)"""
        return self.r.randint(int(lo * 8), int(hi * 8)) / 8.

    def nz(self, lo=-2., hi=2.):
        v = self.num(lo, hi)
        return v if v != 0 else 0.625

    # -- shapes / ranks
    def shape(self, d=None, lo=None, hi=None):
        d = self.d if d is None else d
        if self.uniform:
            return [self.r.randint(self.nlo if lo is None else lo, self.nhi if hi is None else hi)] * d
        return [self.r.randint(self.nlo if lo is None else lo, self.nhi if hi is None else hi) for _ in range(d)]

    def ranks(self, n, rmax=None, exact=None):
        """[1, r_1, ..., r_{d-1}, 1], every rank at most what the cores on either side can carry"""
        d = len(n)
        rmax = self.rmax if rmax is None else rmax
        rk = [1]
        for k in range(1, d):
            cap = min(int(np.prod(n[:k])), int(np.prod(n[k:])), rmax)
            rk.append(exact if exact is not None and exact <= cap else self.r.randint(1, cap) if exact is None else cap)
        return rk + [1]

    def tt(self, n=None, r=None, pos=False, rmax=None):
        n = self.n if n is None else n
        if self.uniform and r is None:
            r = min(self.ur, min(n))
        rk = self.ranks(n, rmax) if r is None else ([1] + [r] * (len(n) - 1) + [1] if isinstance(r, int) else r)
        Y = []
        for k in range(len(n)):
            A = self.rs.uniform(-1., 1., size=(rk[k], n[k], rk[k + 1]))
            if pos:
                A = np.abs(A) + 0.1
            Y.append(A)
        return Y

    def arr(self, *shape, pos=False):
        A = self.rs.uniform(-1., 1., size=shape)
        return np.abs(A) + 0.1 if pos else A

    def mi(self, n=None):
        n = self.n if n is None else n
        return [self.r.randint(0, k - 1) for k in n]

    def batch(self, n=None, m=None):
        n = self.n if n is None else n
        m = self.r.randint(2, 5) if m is None else m
        return [[self.r.randint(0, k - 1) for k in n] for _ in range(m)]

    def grid_all(self, n=None):
        n = self.n if n is None else n
        return [list(i) for i in itertools.product(*[range(k) for k in n])]

    def points(self, m, d, a=-1., b=1.):
        return self.rs.uniform(a, b, size=(m, d))

    def weights(self, n=None):
        n = self.n if n is None else n
        return [self.rs.uniform(0.1, 1., size=k) for k in n]


_BIG_N = (128, 256, 2 ** 15, 2 ** 16, 2 ** 31, 2 ** 32)


def _big_rows(g, nn, m):
    """multi-indices that reach the last index of every mode (and the middle one)"""
    rows = [[k - 1 for k in nn], [k // 2 for k in nn], [0 for _ in nn]]
    rows += [[g.r.randrange(k) for k in nn] for _ in range(m)]
    g.r.shuffle(rows)
    return rows


def E(name, file, props, gen, kinds, **kw):
    TABLE[name] = Entry(name, 'teneva/' + file, props, gen, kinds, **kw)


def H(scale, out=1, far=None):
    return dict(scale=scale, out=out, far=far)


_STAB = lambda a: bool(a.get('use_stab'))  # noqa: E731


def stab_out(flag_name, k=1):
    return lambda a: ('stab', k) if a.get(flag_name) else k


# ================================================================================================================
# act_one
# ================================================================================================================
E('copy', 'act_one.py', ['C01', 'C09'],
  lambda g: dict(Y=g.pick(g.tt(), g.tt(), g.num(), g.arr(3, 2))),
  dict(Y='tt'), homog=None,
  novar={('Y', 'R1')})
E('get', 'act_one.py', ['C01', 'C20'],
  lambda g: dict(Y=g.tt(), i=g.mi(), _to_item=g.pick(True, True, False)),
  dict(Y='tt', i='index', _to_item='flag'), homog=H({'Y': 1}),
  big=lambda g: (lambda n0: dict(Y=g.tt([n0, 3], 2), i=[n0 - g.pick(1, 2), g.int(0, 2)]))(g.pick(128, 256)))
E('get_and_grad', 'act_one.py', ['C01'],
  lambda g: dict(Y=g.tt(), i=g.mi()),
  # check_phi (service flag, "should be False") references an undefined name when truthy: left at its default
  dict(Y='tt', i='index', check_phi='other'), homog=H({'Y': 1}, (1, 'skip')))
E('get_many', 'act_one.py', ['C01'],
  lambda g: dict(Y=g.tt(), I=g.batch(), _to_item=g.pick(True, True, False)),
  dict(Y='tt', I='index', _to_item='flag'), homog=H({'Y': 1}),
  big=lambda g: (lambda n0: dict(Y=g.tt([n0, 3], 2), I=_big_rows(g, [n0, 3], 2)))(g.pick(128, 256)))
E('getter', 'act_one.py', ['C01'],
  lambda g: dict(Y=g.tt()), dict(Y='tt', compile='flag'),
  post=lambda tn, f, a: [f(np.array(i)) for i in itertools.product(*[range(G_.shape[1]) for G_ in a['Y']])][:20],
  note='needs numba: the baseline raises ValueError without it and the entry is skipped')


def _gen_interface(g):
    a = dict(Y=g.tt(), norm=g.pick('linalg', 'natural', None, 'l', 'n'), ltr=g.flag())
    if g.flag():
        a['i'] = g.mi()
    if g.flag():
        a['P'] = g.weights()
    return a


E('interface', 'act_one.py', ['C01'], _gen_interface,
  # i as a tuple is outside the documented types (list, np.ndarray): `i[::-1]` works but P / i handling indexes lists
  dict(Y='tt', P='tt', i='index', norm='other', ltr='flag'),
  homog=H(lambda a: {'Y': 1} if a['norm'] in ('linalg', 'l') else {}, 0),
  novar={('P', 'R5')}, syn={'norm': {'linalg': 'l', 'l': 'linalg', 'natural': 'n', 'n': 'natural'}})
E('mean', 'act_one.py', ['C01', 'C11'],
  lambda g: dict(Y=g.tt(), **({'P': g.weights()} if g.flag() else {}), norm=g.flag()),
  dict(Y='tt', P='tt', norm='flag'), homog=H({'Y': 1}), novar={('P', 'R5')})
E('norm', 'act_one.py', ['C01', 'C11', 'C16'],
  lambda g: dict(Y=g.tt(), use_stab=g.flag()),
  dict(Y='tt', use_stab='flag'), homog=H({'Y': 1}, stab_out('use_stab'), far=_STAB))
E('qtt_to_tt', 'act_one.py', ['C17'],
  lambda g: (lambda q, d: dict(Y=g.tt([2] * (q * d), rmax=3), q=q))(g.int(1, 3), g.int(1, 3)),
  dict(Y='tt', q='int'), homog=H({'Y': 1}))
E('sum', 'act_one.py', ['C01', 'C11'], lambda g: dict(Y=g.tt()), dict(Y='tt'), homog=H({'Y': 1}))
E('tt_to_qtt', 'act_one.py', ['C17'],
  lambda g: dict(Y=g.tt([g.pick(2, 4, 8) for _ in range(g.int(2, 3))]), e=g.pick(1e-12, 0.), r=g.pick(100, 4)),
  # e is an absolute threshold applied core by core: the scale relation is stated for e = 0 only
  dict(Y='tt', e='float', r='int:f'), homog=H(lambda a: {'Y': 1} if a['e'] == 0 else {}),
  # default cap r = 100 binds: a generic (1, 2^14, 1) core has natural QTT ranks up to 128
  dflt=lambda g: dict(Y=[g.arr(1, 2 ** 14, 1)]))

# ================================================================================================================
# act_two / act_many
# ================================================================================================================
E('accuracy', 'act_two.py', ['C01', 'C11', 'C16'],
  lambda g: dict(Y1=g.tt(), Y2=g.tt()),
  dict(Y1='tt', Y2='tt'), homog=H({'Y1': 1, 'Y2': 1}, 0, far=True))
E('accuracy.arrays', 'act_two.py', ['C01'],
  lambda g: dict(Y1=g.arr(*g.n), Y2=g.arr(*g.n)),
  dict(Y1='array', Y2='array'), homog=H({'Y1': 1, 'Y2': 1}, 0))


def _gen_two(g, allow_num=True):
    k = g.int(0, 5) if allow_num else 0
    if k == 4:
        return dict(Y1=g.nz(), Y2=g.tt())
    if k == 5:
        return dict(Y1=g.tt(), Y2=g.nz())
    return dict(Y1=g.tt(), Y2=g.tt())


def _two_kinds(a=None):
    return dict(Y1='tt', Y2='tt')


def _num_or_tt_variants(name, file, props, deg):
    # tensor (+) tensor and tensor (+) number: two table rows so that the kinds are static
    E(name, file, props, lambda g: dict(Y1=g.tt(), Y2=g.tt()), dict(Y1='tt', Y2='tt'), homog=H({'Y1': 1, 'Y2': 1}, deg))
    E(name + '.num_l', file, props, lambda g: dict(Y1=g.nz(), Y2=g.tt()), dict(Y1='float', Y2='tt'),
      homog=H({'Y1': 1, 'Y2': 1}, deg))
    E(name + '.num_r', file, props, lambda g: dict(Y1=g.tt(), Y2=g.nz()), dict(Y1='tt', Y2='float'),
      homog=H({'Y1': 1, 'Y2': 1}, deg))
    E(name + '.nums', file, props, lambda g: dict(Y1=g.nz(), Y2=g.nz()), dict(Y1='float', Y2='float'),
      homog=H({'Y1': 1, 'Y2': 1}, deg))


_num_or_tt_variants('add', 'act_two.py', ['C01', 'C09'], 1)
_num_or_tt_variants('sub', 'act_two.py', ['C01', 'C09'], 1)
_num_or_tt_variants('mul', 'act_two.py', ['C01', 'C09'], 2)
E('mul_scalar', 'act_two.py', ['C01', 'C11', 'C16'],
  lambda g: dict(Y1=g.tt(), Y2=g.tt(), use_stab=g.flag()),
  dict(Y1='tt', Y2='tt', use_stab='flag'), homog=H({'Y1': 1, 'Y2': 1}, stab_out('use_stab', 2), far=_STAB))
E('outer', 'act_two.py', ['C01', 'C09'],
  lambda g: dict(Y1=g.tt(), Y2=g.tt(g.shape(g.int(1, 2)))),
  dict(Y1='tt', Y2='tt'), homog=None)   # no scale relation: the two factors have different numbers of cores
E('add_many', 'act_many.py', ['C02', 'C01', 'C13'],
  lambda g: dict(Y_many=[g.tt(rmax=2) for _ in range(g.int(1, 4))] + ([g.nz()] if g.flag() else []),
                 e=g.pick(1e-10, 1e-8), r=g.pick(1e12, 3, 100), trunc_freq=g.pick(15, 1, 2)),
  dict(Y_many='tt', e='float', r='int:f', trunc_freq='int'), homog=H({'Y_many': 1}, 1))
E('outer_many', 'act_many.py', ['C01'],
  lambda g: dict(Y_many=[g.tt(g.shape(g.int(1, 2))) for _ in range(g.int(1, 3))]),
  dict(Y_many='tt'), homog=None)

# ================================================================================================================
# transformation
# ================================================================================================================
E('full', 'transformation.py', ['C01', 'C09'], lambda g: dict(Y=g.tt()), dict(Y='tt'), homog=H({'Y': 1}))
E('full_matrix', 'transformation.py', ['C03'],
  lambda g: dict(Y=g.tt([4] * g.int(1, 3)), order=g.pick('F', 'F', 'C')),
  dict(Y='tt', order='other'), homog=H({'Y': 1}))
E('orthogonalize', 'transformation.py', ['C04', 'C09', 'C10', 'C11', 'C16'],
  lambda g: dict(Y=g.tt(), k=g.pick(None, 0, g.int(0, g.d - 1), g.d - 1), use_stab=g.flag()),
  dict(Y='tt', k='int', use_stab='flag'), homog=H({'Y': 1}, stab_out('use_stab'), far=_STAB))
_INPL = lambda a: {'Y'} if a.get('inplace') else set()  # noqa: E731
E('orthogonalize_left', 'transformation.py', ['C04', 'C09', 'C11'],
  lambda g: dict(Y=g.tt(), i=g.int(0, g.d - 2), inplace=g.flag()),
  dict(Y='tt', i='int', inplace='flag'), homog=H({'Y': 1}), inplace=_INPL, alias=_INPL)
E('orthogonalize_right', 'transformation.py', ['C04', 'C09', 'C11'],
  lambda g: dict(Y=g.tt(), i=g.int(1, g.d - 1), inplace=g.flag()),
  dict(Y='tt', i='int', inplace='flag'), homog=H({'Y': 1}), inplace=_INPL, alias=_INPL)
E('truncate', 'transformation.py', ['C02', 'C09', 'C11', 'C16'],
  lambda g: dict(Y=g.tt(), e=g.pick(1e-10, 1e-3, 1e-12), r=g.pick(1e12, 2, 100, 1), orth=g.pick(True, True, False),
                 use_stab=g.flag(), is_eigh=g.flag()),
  dict(Y='tt', e='float', r='int:f', orth='flag', use_stab='flag', is_eigh='flag'),
  # e is relative to the norm only when orth is set (otherwise it is an absolute threshold per core: no scale relation)
  homog=H(lambda a: {'Y': 1} if a['orth'] else {}, far=_STAB),
  # default e = 1e-10 (relative): a rank-one part at relative size 1e-9 is kept, a looser default would drop it
  dflt=lambda g: (lambda n: dict(Y=g.tn.add(g.tt(n, 1), g.tn.mul(1e-9, g.tt(n, 1)))))(g.shape(3, 3, 4)))

# ================================================================================================================
# svd
# ================================================================================================================
def _gen_skeleton(g):
    """every flag decisive: rel=True with an active relative threshold on data of scale 8 (non-symmetric), hermitian=True on
    a symmetric matrix with an active absolute threshold, or neither"""
    k = g.int(0, 2)
    if k == 2:
        B = g.arr(g.int(3, 5), 3)
        return dict(A=B @ B.T * 4., e=g.pick(0.3, 1e-3), r=g.pick(1e12, 2, 100), hermitian=True, rel=False,
                    give_to=g.pick('m', 'l', 'r'))
    rel = k == 1
    return dict(A=g.arr(g.int(3, 6), g.int(3, 6)) * (8. if rel else g.pick(1., 4.)),
                e=g.pick(0.3, 0.5, 1e-3) if rel else g.pick(1e-10, 1e-3, 0.3), r=g.pick(1e12, 2, 3, 100), rel=rel,
                give_to=g.pick('m', 'l', 'r'))


E('matrix_skeleton', 'svd.py', ['C03', 'C02', 'C11', 'C20'],
  # e up to 0.7 on data of scale 1 .. 4: the truncation is active and depends on whether e is relative
  lambda g: _gen_skeleton(g),
  dict(A='array', e='float', r='int:f', hermitian='flag', rel='flag', give_to='other'),
  # e is absolute unless rel: scaled alike; the factors share the scale according to give_to
  homog=H(lambda a: {'A': 1} if a['rel'] else {'A': 1, 'e': 1},
          lambda a: {'m': (0.5, 0.5), 'l': (1, 0), 'r': (0, 1)}[a['give_to']]),
  dflt=lambda g: dict(A=g.arr(g.int(3, 6), g.int(3, 6)) * 1e-9))
E('matrix_svd', 'svd.py', ['C03', 'C02', 'C11'],
  lambda g: dict(A=g.arr(g.int(2, 6), g.int(2, 6)), e=g.pick(1e-10, 1e-3), r=g.pick(1e12, 2, 3, 100)),
  dict(A='array', e='float', r='int:f'), homog=H({'A': 1, 'e': 1}, lambda a: (1, 0)),
  dflt=lambda g: dict(A=g.arr(g.int(3, 6), g.int(3, 6)) * 1e-9))      # default e = 1e-10 is absolute: data at 1e-9
E('svd', 'svd.py', ['C03', 'C11'],
  lambda g: dict(Y_full=g.arr(*g.pick(g.n, g.n, [g.int(2, 5)])), e=g.pick(1e-10, 1e-2), r=g.pick(1e12, 2, 3, 100)),
  dict(Y_full='array', e='float', r='int:f'), homog=H({'Y_full': 1, 'e': 1}),
  dflt=lambda g: dict(Y_full=g.arr(*g.n) * 1e-9))
E('svd_matrix', 'svd.py', ['C03'],
  lambda g: (lambda q: dict(Y_full=g.arr(2 ** q, 2 ** q), e=g.pick(1e-10, 1e-2), r=g.pick(1e12, 3, 100)))(g.int(1, 3)),
  dict(Y_full='array', e='float', r='int:f'), homog=H({'Y_full': 1, 'e': 1}))


def _gen_svd_incomplete(g, dflt=False):
    n = g.shape(g.int(3, 4), 3, 5)
    rho = g.int(1, 2)
    Y = g.tt(n, rho)
    I, idx, idx_many = g.tn.sample_tt(n, r=rho + 1, seed=g.int(1, 1000))
    y = g.tn.get_many(Y, I)
    if dflt:       # default e = 1e-10 is absolute: values at 2e-9, e and r omitted
        return dict(I=I, Y=y * 2e-9, idx=idx, idx_many=idx_many)
    return dict(I=I, Y=y, idx=idx, idx_many=idx_many, e=1e-10, r=g.pick(1e12, rho + 1, 100))


E('svd_incomplete', 'svd.py', ['C20', 'C11'], _gen_svd_incomplete,
  dict(I='array', Y='array', idx='array', idx_many='array', e='float', r='int:f'),   # documented as np.ndarray only
  homog=H({'Y': 1, 'e': 1}), dflt=lambda g: _gen_svd_incomplete(g, True))

# ================================================================================================================
# core
# ================================================================================================================
E('core_dot', 'core.py', [],
  lambda g: (lambda ltr, G_: dict(G=G_, R=g.arr(G_.shape[2], 3) if ltr else g.arr(3, G_.shape[0]), ltr=ltr))(g.flag(), g.arr(2, 3, 2)),
  dict(G='array', R='array', ltr='flag'), homog=H({'G': 1}))
E('core_dot_inv', 'core.py', [],
  lambda g: (lambda ltr, G_: dict(G=G_, R=g.arr(2, 2) + 2 * np.eye(2), ltr=ltr))(g.flag(), g.arr(2, 3, 2)),
  dict(G='array', R='array', ltr='flag'), homog=H({'G': 1}))
E('core_dot_maxvol', 'core.py', [],
  lambda g: (lambda ltr, G_: dict(G=G_, R=g.arr(2, 2) + 2 * np.eye(2), ltr=ltr))(g.flag(), g.arr(2, 4, 2)),
  dict(G='array', R='array', ind='index', ltr='flag'), homog=None)
E('core_qr_rand', 'core.py', ['C10'],
  lambda g: dict(G=g.arr(2, 3, 2), m=g.int(1, 3), ltr=g.flag(), seed=g.int(0, 100)),
  dict(G='array', m='int', ltr='flag', seed='seed:gen'), homog=None)
E('core_qtt_to_tt', 'core.py', ['C17', 'C09'],
  lambda g: dict(Q_list=g.tt([2] * g.int(1, 3), rmax=3)[:]),
  dict(Q_list='tt'), homog=H({'Q_list': 1}))
E('core_stab', 'core.py', ['C16', 'C04', 'C09'],
  # max|G| = 1.5 * 2^k exactly; k = 0 in a third of the cases (the exponent 0 must not become a pass-through)
  lambda g: (lambda A: dict(G=A / np.max(np.abs(A)) * 1.5 * 2. ** g.pick(0, g.int(-30, 30), g.int(-3, 3)), p0=g.int(-5, 5),
                            thr=0.))(g.arr(g.int(1, 3), g.int(2, 4), g.int(1, 3))),
  dict(G='array', p0='int', thr='float'),
  homog=H({'G': 1}, ('stab', 1), far=True),
  # documented pass-through: max|G| <= thr hands the argument back unchanged (C09 statement)
  alias=lambda a: {'G'} if float(np.max(np.abs(a['G']))) <= a.get('thr', 0.) else set(),
  dflt=lambda g: dict(G=g.arr(2, 3, 2) * 2. ** g.int(-80, -40)))      # default thr = 0: tiny cores are rescaled too
E('core_tt_to_qtt', 'core.py', ['C17', 'C11'],
  lambda g: dict(G=g.arr(g.int(1, 3), g.pick(2, 4, 8), g.int(1, 3)), e=g.pick(0., 1e-12), r=g.pick(1e12, 2, 100)),
  dict(G='array', e='float', r='int:f'), homog=H({'G': 1, 'e': 1}, ('chain', 1)))

# ================================================================================================================
# props / vis
# ================================================================================================================
E('erank', 'props.py', ['C01', 'C11'], lambda g: dict(Y=g.tt(g.shape(g.int(2, 4)))), dict(Y='tt'), homog=H({'Y': 1}, 0))
E('ranks', 'props.py', ['C01'], lambda g: dict(Y=g.tt()), dict(Y='tt'), homog=H({'Y': 1}, 'I'))
E('shape', 'props.py', ['C01'], lambda g: dict(Y=g.tt()), dict(Y='tt'), homog=H({'Y': 1}, 'I'))
E('size', 'props.py', ['C01'], lambda g: dict(Y=g.tt()), dict(Y='tt'), homog=H({'Y': 1}, 'I'))
E('show', 'vis.py', ['C11'], lambda g: dict(Y=g.tt()), dict(Y='tt'), homog=None)

# ================================================================================================================
# grid
# ================================================================================================================
E('grid_flat', 'grid.py', ['C18'],
  lambda g: dict(n=g.shape(g.int(1, 3), 1, 3)), dict(n='shape:f'), big=lambda g: dict(n=[g.pick(127, 255), 2]))
E('grid_prep_opt', 'grid.py', ['C18', 'C09'],
  lambda g: (lambda d: dict(opt=g.pick([g.num() for _ in range(d)], g.num(), float(g.int(1, 5))), d=d,
                            kind=g.pick(float, int), reps=g.pick(None, 2)))(g.int(1, 4)),
  # documented pass-through helper (C09 statement: grid option normalisation may hand back its argument)
  dict(opt='other', d='int', kind='other', reps='int'), alias={'opt'})
E('grid_prep_opts', 'grid.py', ['C18', 'C09'],
  lambda g: (lambda d: dict(a=g.pick(-1., [-1. - k for k in range(d)]), b=g.pick(2., [2. + k for k in range(d)]),
                            n=g.pick(5, [3 + k for k in range(d)]), d=d, reps=g.pick(None, 3)))(g.int(1, 4)),
  dict(a='other', b='other', n='other', d='int', reps='int'), alias={'a', 'b', 'n'})
E('ind_qtt_to_tt', 'grid.py', ['C17', 'C15'],
  lambda g: (lambda q, d: dict(I_qtt=g.pick(g.mi([2] * (q * d)), g.batch([2] * (q * d))), q=q))(g.int(1, 3), g.int(1, 3)),
  dict(I_qtt='index', q='int'),
  big=lambda g: (lambda q, d: dict(I_qtt=g.pick([1] * (q * d), [[1] * (q * d), g.mi([2] * (q * d))]), q=q))(g.pick(7, 8, 9, 16, 17, 33), g.int(1, 2)))
E('ind_tt_to_qtt', 'grid.py', ['C17'],
  lambda g: (lambda n, d: dict(I=g.pick(g.mi([n] * d), g.batch([n] * d)), n=n))(g.pick(2, 4, 8, 16), g.int(1, 3)),
  dict(I='index', n='int'),
  big=lambda g: (lambda k, d: dict(I=(lambda rows: g.pick(rows[0], rows))(_big_rows(g, [2 ** k] * d, 2)), n=2 ** k))(g.pick(7, 8, 15, 16, 31, 32), g.int(1, 2)))


def _gen_grid(g, what, single=False):
    d = g.int(1, 3)
    n = [g.int(2, 6) for _ in range(d)]
    a = [-1. - g.int(0, 2) / 2. for _ in range(d)]
    b = [1. + g.int(0, 2) / 2. for _ in range(d)]
    kind = g.pick('uni', 'cheb')
    if g.int(0, 2) == 0:              # scalar options
        n, a, b = n[0], a[0], b[0]
        nn = [n] * d
    else:
        nn = n
    if what == 'ind':
        I = g.mi(nn) if single else g.batch(nn)
        return dict(I=I, a=a, b=b, n=n, kind=kind)
    lo, hi = (np.array(a) * np.ones(d)), (np.array(b) * np.ones(d))
    X = lo + (hi - lo) * g.rs.uniform(0.02, 0.98, size=(d,) if single else (g.int(2, 4), d))
    if g.flag():                      # a coordinate outside of the box (clipped / mapped to the boundary index)
        k = g.int(0, d - 1)
        X[..., k] = (hi[k] + 0.75) if g.flag() else (lo[k] - 0.75)
    return dict(X=X, a=a, b=b, n=n, kind=kind)


def _big_grid(g, what, single=False):
    d = g.int(1, 3)
    nmax = g.pick(*_BIG_N)
    kind = g.pick('uni', 'cheb')
    a, b = -1. - g.int(0, 2) / 2., 1. + g.int(0, 2) / 2.
    if what == 'ind':
        n = nmax if g.flag() else [nmax] * d
        rows = _big_rows(g, [nmax] * d, 2)
        return dict(I=rows[0] if single else rows, a=a, b=b, n=n, kind=kind)
    n = [nmax - 1] * d                 # the mode sizes themselves as an integer vector of every dtype that holds them
    X = a + (b - a) * g.rs.uniform(0.02, 0.98, size=(d,) if single else (3, d))
    return dict(X=X, a=a, b=b, n=n, kind=kind)


# a / b / n: kind `opt` (documented "float, list, np.ndarray"): lists and ndarrays of the natural dtype are interchangeable and
# must come back untouched; tuples or NumPy scalars are outside the documented option types (DESIGN 12: tuple-valued options bypass the
# length validation, NumPy-integer scalar options raise in poi_to_ind): no tuple / scalar forms
# batch and single-point rows are separate so that every run exercises both (the single-point path works on the caller's own
# option arrays where the batch path works on repeated copies)
for _sg, _tag in ((False, ''), (True, '.single')):
    E('ind_to_poi' + _tag, 'grid.py', ['C18', 'C09'], lambda g, _sg=_sg: _gen_grid(g, 'ind', _sg),
      dict(I='index', a='opt:f', b='opt:f', n='opt', kind='other'), big=lambda g, _sg=_sg: _big_grid(g, 'ind', _sg))
    E('poi_to_ind' + _tag, 'grid.py', ['C18', 'C09'], lambda g, _sg=_sg: _gen_grid(g, 'poi', _sg),
      dict(X='array', a='opt:f', b='opt:f', n='opt:r7', kind='other'), big=lambda g, _sg=_sg: _big_grid(g, 'poi', _sg))
    E('poi_scale' + _tag, 'grid.py', ['C18', 'C09'],
      lambda g, _sg=_sg: {k: v for k, v in _gen_grid(g, 'poi', _sg).items() if k != 'n'},
      dict(X='array', a='opt:f', b='opt:f', kind='other'))

# ================================================================================================================
# tensors / vectors / matrices
# ================================================================================================================
E('const', 'tensors.py', ['C19'],
  lambda g: dict(n=g.n, v=g.nz()), dict(n='shape', v='float'), homog=H({'v': 1}),
  big=lambda g: dict(n=[g.pick(127, 255), 3], v=g.nz()))


def _gen_const_zero(g):
    n = g.n
    inz = g.mi(n)
    Iz = [i for i in g.batch(n, g.int(1, 3)) if i != inz]
    if not Iz:
        Iz = [[(inz[0] + 1) % n[0]] + inz[1:]]
    return dict(n=n, v=g.nz(), I_zero=Iz, i_non_zero=inz)


E('const.zeros', 'tensors.py', ['C19'], _gen_const_zero,
  dict(n='shape', v='float', I_zero='index', i_non_zero='index'), homog=H({'v': 1}),
  big=lambda g: (lambda n0: dict(n=[n0, 3], v=g.nz(), I_zero=[[n0 - 1, 1], [n0 // 2, 2]], i_non_zero=[n0 - 1, 0]))(g.pick(127, 255)))
E('delta', 'tensors.py', ['C19'],
  lambda g: dict(n=g.n, i=g.mi(), v=g.nz()), dict(n='shape', i='index', v='float'), homog=H({'v': 1}),
  big=lambda g: (lambda n0: dict(n=[n0, 3], i=[n0 - g.pick(1, 2), g.int(0, 2)], v=g.nz()))(g.pick(127, 255)))
E('poly', 'tensors.py', ['C19'],
  lambda g: dict(n=g.n, shift=g.pick(g.num(), [g.num() for _ in g.n]), power=g.int(1, 4), scale=g.nz()),
  dict(n='shape', shift='other', power='int', scale='float'), homog=H({'scale': 1}),
  big=lambda g: dict(n=[g.pick(127, 255), 3], shift=g.num(), power=g.int(1, 3), scale=g.nz()))
# r: documented as "int, list, np.ndarray"; a NumPy integer scalar fails the `isinstance(r, (int, float))` test and raises
# IndexError (loud, outside the documented types, no clause of C19 implies it): R1 NumPy forms off for r
_RK = 'int:-npint:vec'
E('rand', 'tensors.py', ['C19', 'C10'],
  lambda g: dict(n=g.n, r=g.pick(g.int(1, 3), g.ranks(g.n)), a=-1. - g.int(0, 2), b=1. + g.int(0, 2), seed=g.int(0, 99)),
  dict(n='shape', r=_RK, a='float', b='float', seed='seed:gen'))
E('rand_custom', 'tensors.py', ['C19'],
  lambda g: dict(n=g.n, r=g.pick(g.int(1, 3), g.ranks(g.n)), f=lambda sz: np.arange(sz, dtype=float) / 4. - 1.),
  dict(n='shape', r=_RK, f='func'))
E('rand_norm', 'tensors.py', ['C19', 'C10'],
  lambda g: dict(n=g.n, r=g.pick(g.int(1, 3), g.ranks(g.n)), m=g.num(), s=1. + g.int(0, 2), seed=g.int(0, 99)),
  dict(n='shape', r=_RK, m='float', s='float', seed='seed:gen'))
E('rand_stab', 'tensors.py', ['C19', 'C10'],
  lambda g: dict(n=g.n, r=g.pick(g.int(1, 3), g.ranks(g.n)), noise=g.pick(1e-15, 1e-3), seed=g.int(0, 99)),
  dict(n='shape', r=_RK, noise='float', seed='seed:gen'))
E('vector_delta', 'vectors.py', ['C19'],
  lambda g: (lambda q: dict(q=q, i=g.int(0, 2 ** q - 1), v=g.nz()))(g.int(1, 5)),
  dict(q='int', i='int:neg:r7', v='float'), homog=H({'v': 1}), neg={'i': lambda a: 2 ** a['q']},
  big=lambda g: (lambda q: dict(q=q, i=2 ** q - g.pick(1, 2, 2 ** (q - 1)), v=g.nz()))(g.pick(7, 8, 15, 16, 31, 32)))
E('matrix_delta', 'matrices.py', ['C19'],
  lambda g: (lambda q: dict(q=q, i=g.int(0, 2 ** q - 1), j=g.int(0, 2 ** q - 1), v=g.nz()))(g.int(1, 5)),
  dict(q='int', i='int:neg:r7', j='int:neg:r7', v='float'), homog=H({'v': 1}, ('skip', 1)),
  big=lambda g: (lambda q: dict(q=q, i=2 ** q - g.pick(1, 2), j=2 ** q - g.pick(1, 2 ** (q - 1)), v=g.nz()))(g.pick(7, 8, 15, 16)),
  post=lambda tn, Y, a: _qtt_matrix_dense(Y) if len(Y) <= 6 else None,
  neg={'i': lambda a: 2 ** a['q'], 'j': lambda a: 2 ** a['q']})

def _qtt_matrix_dense(Y):
    Z = Y[0][0]
    for G_ in Y[1:]:
        Z = np.einsum('...a,aijb->...ijb', Z, G_)
    return Z[..., 0]


# ================================================================================================================
# sample / sample_func
# ================================================================================================================
E('sample', 'sample.py', ['C14', 'C10'],
  lambda g: dict(Y=g.tt(pos=True), m=g.int(1, 6), seed=g.int(0, 99), unsert=1e-10),
  # unsert is added to the unnormalised probabilities of the first mode: an absolute parameter, scaled alike
  dict(Y='tt', m='int:f', seed='seed:gen', unsert='float'), homog=H({'Y': 1, 'unsert': 1}, 'I'))
E('sample_square', 'sample.py', ['C14', 'C10'],
  lambda g: (lambda n: dict(Y=g.tt(n), m=g.pick(g.int(1, 4), 2 if g.uniform else int(np.prod(n)) // 2), unique=g.flag(), seed=g.int(0, 99)))(g.shape(g.int(2, 3), 2, 3)),
  # an int seed is handed on to the restart call / the inner sample_lhs calls (re-seeding), a Generator is consumed: the two
  # forms legitimately differ (no `gen` option)
  dict(Y='tt', m='int:f', unique='flag', seed='seed', m_fact='int', max_rep='int'), homog=H({'Y': 1}, 'I'))
E('sample_lhs', 'sample.py', ['C14', 'C10', 'C20'],
  lambda g: dict(n=g.shape(None, 1, 4), m=g.int(1, 9), seed=g.int(0, 99)), dict(n='shape', m='int:f', seed='seed:gen'))
E('sample_rand', 'sample.py', ['C14', 'C10'],
  lambda g: dict(n=g.n, m=g.int(1, 9), seed=g.int(0, 99)), dict(n='shape:f', m='int:f', seed='seed:gen'))
E('sample_rand_poi', 'sample.py', ['C14', 'C10'],
  lambda g: dict(a=[-1. - k for k in range(g.d)], b=[1. + k for k in range(g.d)], m=g.int(1, 9), seed=g.int(0, 99)),
  dict(a='other', b='other', m='int:f', seed='seed:gen'))
E('sample_tt', 'sample.py', ['C14', 'C20', 'C10'],
  lambda g: dict(n=g.n, r=g.int(1, 4), seed=g.int(0, 99)), dict(n='shape', r='int', seed='seed'))
E('sample_func', 'sample_func.py', ['C10', 'C09'],
  lambda g: dict(A=g.tt(g.shape(None, 3, 4), pos=True), seed=g.int(0, 99)),
  dict(A='tt', seed='seed:gen', cores_are_prepared='other'))

# ================================================================================================================
# func / func_full
# ================================================================================================================
E('func_basis', 'func.py', ['C12'],
  lambda g: dict(X=g.points(g.int(1, 4), g.int(1, 3)), m=g.int(1, 6), kind='cheb'),
  dict(X='array', m='int', kind='other', ones_func='func'))
E('func_diff_matrix', 'func.py', ['C12', 'C10'],
  lambda g: dict(a=-1. - g.int(0, 2), b=1. + g.int(0, 2), n=g.int(3, 7), m=g.int(1, 3), kind=g.pick('cheb', 'sin')),
  dict(a='float', b='float', n='int', m='int', kind='other'))
E('func_diff_matrix_apply', 'func.py', ['C12'],
  lambda g: (lambda n: dict(A=g.tt([n] * g.int(2, 3)), D=g.tn.func_diff_matrix(0., 1., n, 1, 'sin'), kind='sin'))(g.int(3, 5)),   # 'cheb' is not implemented
  dict(A='tt', D='array', kind='other'), homog=None)   # draft routine ("TODO" docstring): no scale statement


def _gen_func_get(g, full=False):
    d = g.int(2, 3)
    n = [g.int(2, 4) for _ in range(d)]
    a = [-1. - g.int(0, 2) / 2. for _ in range(d)]
    b = [1. + g.int(0, 2) / 2. for _ in range(d)]
    if g.flag():
        a, b = a[0], b[0]
    lo, hi = np.array(a) * np.ones(d), np.array(b) * np.ones(d)
    X = lo + (hi - lo) * g.rs.uniform(0.05, 0.95, size=(g.int(1, 4), d))
    if g.flag():
        X[0, 0] = hi[0] + 0.5          # one point outside of the box: receives the fill value z
    A = g.arr(*n) if full else g.tt(n)
    return dict(X=X, A=A, a=a, b=b, z=g.num())


E('func_get', 'func.py', ['C12'], _gen_func_get,
  dict(X='array', A='tt', a='other', b='other', z='float', funcs='func', kind='other', skip_out='flag'),
  homog=H({'A': 1, 'z': 1}))
E('func_get_full', 'func_full.py', ['C12'], lambda g: _gen_func_get(g, True),
  dict(X='array', A='array', a='other', b='other', z='float', skip_out='flag'), homog=H({'A': 1, 'z': 1}))
E('func_gets', 'func.py', ['C12'],
  lambda g: (lambda n: dict(A=g.tt(n), **({'m': g.pick(g.int(2, 5), [g.int(2, 5) for _ in n])} if g.flag() else {}),
                            kind='cheb'))(g.shape(g.int(2, 3), 2, 4)),
  dict(A='tt', m='other', kind='other'), homog=H({'A': 1}))
E('func_gets_full', 'func_full.py', ['C12'],
  lambda g: (lambda n: dict(A=g.arr(*n), a=-1. - g.int(0, 2), b=1. + g.int(0, 2),
                            **({'m': g.pick(g.int(2, 5), [g.int(2, 5) for _ in n])} if g.flag() else {})))(g.shape(g.int(2, 3), 2, 4)),
  dict(A='array', a='other', b='other', m='other'), homog=H({'A': 1}))
E('func_int', 'func.py', ['C12', 'C09'],
  lambda g: dict(Y=g.tt(g.shape(g.int(2, 3), 2, 5)), kind='cheb'), dict(Y='tt', kind='other'), homog=H({'Y': 1}))
E('func_int_full', 'func_full.py', ['C12'],
  lambda g: dict(Y=g.arr(*g.shape(g.int(2, 3), 2, 5))), dict(Y='array'), homog=H({'Y': 1}))


def _gen_int_general(g):
    n = g.int(3, 5)
    d = g.int(2, 3)
    X = np.cos(np.pi * np.arange(n) / (n - 1))
    return dict(Y=g.tt([n] * d), X=X, basis_func=lambda X_: g.tn.func_basis(X_, n), rcond=1e-6)


E('func_int_general', 'func.py', ['C12', 'C09', 'C10'], _gen_int_general,
  dict(Y='tt', X='array', basis_func='func', rcond='float'), homog=H({'Y': 1}))
E('func_sum', 'func.py', ['C12'],
  lambda g: (lambda n: dict(A=g.tt(n), a=[-1. - k for k in range(len(n))], b=[1. + k / 2. for k in range(len(n))],
                            kind='cheb'))(g.shape(g.int(2, 3), 2, 5)),
  dict(A='tt', a='other', b='other', kind='other'), homog=H({'A': 1}))
E('func_sum_full', 'func_full.py', ['C12'],
  lambda g: (lambda n: dict(A=g.arr(*n), a=[-1. - k for k in range(len(n))], b=[1. + k for k in range(len(n))]))(g.shape(g.int(2, 3), 2, 5)),
  dict(A='array', a='other', b='other'), homog=H({'A': 1}))

# ================================================================================================================
# maxvol / stat / data
# ================================================================================================================
E('maxvol', 'maxvol.py', ['C08'],
  lambda g: (lambda r: dict(A=g.arr(r + g.int(2, 6), r), e=g.pick(1.05, 1.01, 1.5), k=g.pick(100, 20)))(g.int(1, 3)),
  dict(A='array', e='float', k='int'), homog=H({'A': 1}, ('I', 0)))
E('maxvol_rect', 'maxvol.py', ['C08'],
  lambda g: (lambda r: dict(A=g.arr(r + g.int(3, 6), r), e=g.pick(1.1, 1.01, 1.5), dr_min=g.int(0, 1), dr_max=g.pick(None, 2, 3)))(g.int(1, 3)),
  dict(A='array', e='float', dr_min='int', dr_max='int', e0='float', k0='int'), homog=H({'A': 1}, ('I', 0)))
E('cdf_confidence', 'stat.py', [],
  lambda g: dict(x=g.arr(g.int(3, 8)), alpha=g.pick(0.05, 0.1)), dict(x='array', alpha='float'))
E('cdf_getter', 'stat.py', ['C18'],
  lambda g: dict(x=g.arr(g.int(3, 8))), dict(x='array'),
  post=lambda tn, f, a: [f(np.linspace(-1.5, 1.5, 13)), f(float(a['x'][0])), f(0.25)])
E('accuracy_on_data', 'data.py', ['C01', 'C05', 'C11'],
  lambda g: (lambda Y, I: dict(Y=Y, I_data=I, y_data=g.tn.get_many(Y, I) + g.arr(len(I)) * 0.25))(g.tt(), g.batch()),
  dict(Y='tt', I_data='index', y_data='array', e_trunc='float'), homog=H({'Y': 1, 'y_data': 1}, 0))
E('cache_to_data', 'data.py', ['C10', 'C05'],
  lambda g: dict(cache={tuple(i): g.num() for i in g.batch()}), dict(cache='other'))

# ================================================================================================================
# optima / optima_func
# ================================================================================================================
# values scale with the tensor, multi-indices stay: (i_min, y_min, i_max, y_max)
E('optima_tt', 'optima.py', ['C15'],
  lambda g: dict(Y=g.tt(g.shape(g.int(2, 4), 2, 4)), k=g.pick(100, 10, 3)),
  dict(Y='tt', k='int'), homog=H({'Y': 1}, ('I', 1, 'I', 1)))
E('optima_tt_beam', 'optima.py', ['C15'],
  lambda g: dict(Y=g.tt(g.shape(g.int(2, 4), 2, 4)), k=g.pick(100, 10, 3), l2r=g.flag(), ret_all=g.flag()),
  dict(Y='tt', k='int', l2r='flag', ret_all='flag', to_orth='flag', p='other'), homog=H({'Y': 1}, 'I'))
E('optima_tt_max', 'optima.py', ['C15'],
  lambda g: dict(Y=g.tt(g.shape(g.int(2, 4), 2, 4)), k=g.pick(100, 10, 3)),
  dict(Y='tt', k='int'), homog=H({'Y': 1}, ('I', 1)))
E('optima_tt_maxvol', 'optima.py', [],
  lambda g: dict(Y=g.tt(g.shape(3, 3, 4), 2), k=g.int(2, 3), how=g.pick('l2r', 'r2l', 'both', 'smart')),
  dict(Y='tt', k='int', how='other', use='other'), homog=None)
E('optima_qtt', 'optima.py', ['C15'],
  lambda g: dict(Y=g.tt([g.pick(2, 4, 8)] * g.int(2, 3)), k=g.pick(100, 10), e=1e-14, r=100),
  dict(Y='tt', k='int', e='float', r='int:f'), homog=None)     # e is an absolute accuracy (DESIGN 12 observation)
E('optima_func_tt_beam', 'optima_func.py', ['C15', 'C09', 'C10'],
  lambda g: dict(A=g.tt(g.shape(g.int(2, 3), 3, 4), rmax=2), k=g.int(2, 4), ret_all=g.flag()),
  dict(A='tt', k='int', k_loc='int', ret_all='flag'), homog=None)

# ================================================================================================================
# als / als_func / anova / anova_func / cross / cross_act (tiny budgets)
# ================================================================================================================


def _gen_als(g, missing=False, plain=False):
    n = g.shape(g.int(2, 3), 2, 3)
    I = np.array(g.grid_all(n), dtype=int)
    g.rs.shuffle(I)
    y = np.sin(I @ (np.arange(len(n)) + 1.)) + 0.1 * g.rs.uniform(-1, 1, size=len(I))
    a = dict(I_trn=I, y_trn=y, Y0=g.tt(n, 2), nswp=g.int(1, 2), e=1e-16, info={})
    k = g.int(0, 4)
    if plain:
        return a
    if missing:     # a slice has no sample: documented ValueError unless skipping is allowed
        j = g.int(0, len(n) - 1)
        keep = I[:, j] != g.int(0, n[j] - 1)
        a.update(allow_skip_cores=g.flag(), I_trn=I[keep], y_trn=y[keep])
        return a
    if k == 1:
        a.update(I_vld=I[::2].copy(), y_vld=y[::2].copy())
    if k == 2:
        a.update(w=g.rs.uniform(0.5, 1.5, size=len(y)))
    if k == 3:
        a.update(lamb=g.pick(None, 1e-2))
    if k == 0 and g.flag():
        # allow_swap needs validation data on the unchanged tree (TypeError otherwise: observation, reported)
        a.update(r=3, allow_swap=g.flag(), e_adap=1e-3, I_vld=I[::2].copy(), y_vld=y[::2].copy())
    if k == 4:
        a.update(allow_skip_cores=True, I_trn=I[I[:, 0] != 0], y_trn=y[I[:, 0] != 0])
    return a


E('als', 'als.py', ['C07', 'C09', 'C10', 'C11'], _gen_als,
  dict(I_trn='array', y_trn='array', Y0='tt', nswp='int', e='float', info='dict', I_vld='array', y_vld='array',
       e_vld='float', r='int', w='array', lamb='float', allow_swap='flag', allow_skip_cores='flag', use_stab='other',
       log='other', update_sol='other', cb='func'),
  # use_stab=True raises AttributeError on the unchanged tree (DESIGN 12 observation): the flag is left alone
  homog=None, tol=1e-8,
  dflt=lambda g: {k: v for k, v in _gen_als(g, plain=True).items() if k in ('I_trn', 'y_trn', 'Y0', 'nswp')})      # lamb etc. at defaults
E('als.missing_slice', 'als.py', ['C07', 'C11'], lambda g: _gen_als(g, True),
  dict(I_trn='array', y_trn='array', Y0='tt', nswp='int', e='float', info='dict', allow_skip_cores='flag', use_stab='other',
       log='other', allow_swap='flag'),
  homog=None, tol=1e-8, rejects=True, skip={'R4', 'R5'})


def _gen_als_func(g):
    d = g.int(2, 3)
    n = g.int(2, 3)
    a_, b_ = -1. - g.int(0, 1), 1. + g.int(0, 1)
    X = g.rs.uniform(a_, b_, size=(30, d))
    y = np.cos(X.sum(axis=1))
    a = dict(X_trn=X, y_trn=y, A0=g.tt([n] * d, 2), a=a_, b=b_, nswp=g.int(1, 2), e=1e-16, info={})
    if g.flag():
        a.update(X_vld=X[:5].copy(), y_vld=y[:5].copy())
    k = g.int(0, 3)
    if k == 1:
        a.update(lamb=None)
    if k == 2:
        a.update(update_sol=True)
    return a


E('als_func', 'als_func.py', ['C07', 'C09', 'C10'], _gen_als_func,
  dict(X_trn='array', y_trn='array', A0='tt', a='float', b='float', nswp='int', e='float', info='dict', X_vld='array',
       y_vld='array', lamb='float', n_max='int', log='other', update_sol='other', fh='func'),
  homog=None, tol=1e-8)


def _gen_anova(g):
    n = g.shape(g.int(2, 4), 2, 4)
    I = np.array(g.grid_all(n), dtype=int)
    if g.flag():
        I = I[g.rs.permutation(len(I))[:max(len(I) * 2 // 3, 6)]]
        for k in range(len(n)):            # every index of every mode stays observed
            for j in range(n[k]):
                if not np.any(I[:, k] == j):
                    row = np.array(g.mi(n))
                    row[k] = j
                    I = np.vstack([I, row])
    y = np.sin(I @ (np.arange(len(n)) + 1.)) + 0.25 * g.rs.uniform(-1, 1, size=len(I))
    return dict(I_trn=I, y_trn=y, r=g.int(2, 3), order=g.pick(1, 1, 2), noise=1e-10, seed=g.int(0, 99))


E('anova', 'anova.py', ['C13', 'C10', 'C11'], _gen_anova,
  dict(I_trn='array', y_trn='array', r='int', order='int', noise='float', seed='seed:gen', fpath='other'),
  homog=None)


def canon_eq(x, y):
    from harness.forms import canon
    return canon(x) == canon(y)


def _call_ANOVA(tn, a):
    ano = tn.ANOVA(a['I_trn'], a['y_trn'], a['order'], a['seed'])
    from harness.forms import canon
    state = lambda: canon([ano.f0, ano.f1, ano.f2])  # noqa: E731
    s0 = state()
    vals = [ano(a['I_trn'][:5]), ano(a['I_trn'][0])]
    cores = [ano.cores(a['r'], a['noise']) for _ in range(2)]      # a second cores() call on the same object
    return dict(values=vals, cores=cores, again=ano(a['I_trn'][:5]), f0=ano.f0, state_kept=(state() == s0))


E('ANOVA', 'anova.py', ['C13', 'C10'], _gen_anova,
  dict(I_trn='array', y_trn='array', r='int', order='int', noise='float', seed='seed:gen'), call=_call_ANOVA, homog=None,
  invariant=lambda tn, res, a: None if res['state_kept'] and canon_eq(res['values'][0], res['again']) else
  'the fitted model (f0, f1, f2) or its values changed after cores() was called on the object')


def _gen_anova_func(g):
    d = g.int(2, 3)
    a_, b_ = -1. - g.int(0, 1), 1. + g.int(0, 1)
    X = g.rs.uniform(a_, b_, size=(25, d))
    y = np.cos(X.sum(axis=1)) + X[:, 0]
    return dict(X_trn=X, y_trn=y, n=g.int(2, 4), a=a_, b=b_, lamb=1e-7, e=g.pick(1e-8, None))


E('anova_func', 'anova_func.py', ['C13'], _gen_anova_func,
  dict(X_trn='array', y_trn='array', n='int', a='float', b='float', lamb='float', e='float'), homog=None)
E('ANOVA_func', 'anova_func.py', ['C13'], _gen_anova_func,
  dict(X_trn='array', y_trn='array', n='int', a='float', b='float', lamb='float', e='float'), homog=None,
  call=lambda tn, a: (lambda o: dict(c1=o.cores(a['e']), cf=[np.asarray(c) for c in o.coeffs], c2=o.cores(a['e'])))(
      tn.ANOVA_func(a['X_trn'], a['y_trn'], a['n'], a['a'], a['b'], a['lamb'])))


def _gen_cross(g):
    n = g.shape(g.int(2, 3), 3, 4)
    w = np.arange(len(n)) + 1.

    def f(I):
        return np.sin(np.asarray(I) @ w) + 2.
    a = dict(f=f, Y0=g.tt(n, g.int(1, 2)), info={})
    k = g.int(0, 3)
    if k == 0:
        a.update(m=g.int(100, 300))
    elif k == 1:
        a.update(nswp=g.int(1, 2))
    elif k == 2:
        a.update(nswp=2, e=1e-6, dr_min=g.int(0, 1), dr_max=g.int(1, 2))
    else:
        a.update(m=400, cache={})
    return a


E('cross', 'cross.py', ['C05', 'C06', 'C09', 'C10', 'C11'], _gen_cross,
  dict(f='func', Y0='tt', m='int', e='float', nswp='int', tau='float', dr_min='int', dr_max='int', tau0='float',
       k0='int', info='dict', cache='dict', I_vld='array', y_vld='array', cb='func', func='func', log='other'),
  homog=None, tol=1e-8,
  # e / nswp / dr_min / dr_max / tau / k0 left at their defaults, only the budget given
  dflt=lambda g: (lambda a: {k: v for k, v in a.items() if k in ('f', 'Y0')} | {'m': g.int(150, 300)})(_gen_cross(g)))
E('cross_act', 'cross_act.py', ['C10', 'C09'],
  lambda g: (lambda n: dict(f=lambda X: X[:, 0] * X[:, 1] + 1., X_list=[g.tt(n, 2), g.tt(n, 2)], Y0=g.tt(n, 2),
                            e=1e-6, nswp=g.int(1, 2), r=9999, dr=g.int(0, 2), dr2=g.int(0, 1), seed=g.int(0, 99)))(g.shape(3, 3, 4)),
  # dr / dr2 as NumPy integers raise IndexError inside the enrichment step (np.random shape handling): undocumented form, loud
  dict(f='func', X_list='tt', Y0='tt', e='float', nswp='int', r='int', dr='int:-npint', dr2='int:-npint', seed='seed:gen', log='other'),
  homog=None, tol=1e-6)
