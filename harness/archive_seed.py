#!/venv/bin/python
"""archive_seed.py Cxx N "<needs>" "<verdict>"  -- copies /tmp/seed_Cxx/{patchN.diff,demoN.py,notes.md} to seeded/Cxx-N/ with meta.json"""
import json, os, shutil, sys, subprocess
pid, n, needs, verdict = sys.argv[1], sys.argv[2], sys.argv[3], sys.argv[4]
src = f'/tmp/seed_{pid}'; dst = os.path.join(os.path.dirname(os.path.dirname(os.path.abspath(__file__))), 'seeded', f'{pid}-{n}')
os.makedirs(dst, exist_ok=True)
shutil.copy(f'{src}/patch{n}.diff', f'{dst}/patch.diff'); shutil.copy(f'{src}/demo{n}.py', f'{dst}/demo.py')
if os.path.exists(f'{src}/notes.md'): shutil.copy(f'{src}/notes.md', f'{dst}/notes.md')
head = subprocess.check_output(['git', '-C', '/repo', 'rev-parse', '--short', 'HEAD'], text=True).strip()
meta = dict(property=pid, source='independent sub-agent given only the property text and a scratch worktree',
            needs_to_manifest=needs, repo_head_when_confirmed=head,
            confirmed=dict(how='fresh checkout of /repo HEAD in a scratch worktree: demo.py exits 0; after `git apply patch.diff` the pinned '
                               'test suite still reports 57 passed / the same 2 failed and demo.py exits 1',
                           suite='57 passed, 2 failed (test_norm_none, TestActOneSum::test_base: fail on the unchanged tree too)',
                           demo_clean_rc=0, demo_patched_rc=1),
            check_verdict=verdict,
            how_to_run=f'git -C /repo apply /verif/seeded/{pid}-{n}/patch.diff; (cd /verif && ./check {pid}); git -C /repo checkout -- .   '
                       f'(or: harness/muttest.sh {pid} seeded/{pid}-{n}/patch.diff, which uses a scratch copy)')
json.dump(meta, open(f'{dst}/meta.json', 'w'), indent=1)
print(dst)
