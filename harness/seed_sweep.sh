#!/bin/bash
# usage: harness/seed_sweep.sh "4 5 6" [P]  -- runs every claimed check (quick tier) for the given seeds, prints non-OK verdict lines
seeds=${1:-"4 5 6"}; par=${2:-3}
./check --setup > /dev/null 2>&1
ids=$(/venv/bin/python -c "import json; print(' '.join(c['property_id'] for c in json.load(open('MANIFEST.json'))['checks']))")
for s in $seeds; do for p in $ids; do echo "$s $p"; done; done | \
  xargs -P $par -L 1 bash -c 'r=$(VERIF_SEED=$0 VERIF_JOBS=3 VERIF_EVID_DIR=/dev/shm/sweep_evid_$0 VERIF_REPLAY_DIR=/dev/shm/sweep_replay_$0 timeout 3000 ./check $1 --tier quick 2>/dev/null | grep -E "^(OK|VIOLATION)" | cut -c1-200); echo "seed=$0 $1: $r"'
