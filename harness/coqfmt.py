"""Formatting numpy objects as Gallina terms, recorders for LAPACK oracles (shared by C02, C03, C04, C11, C20)."""
import numpy as np
from harness import common as C


def coq_mat(A, leaf=C.flit):
    A = np.asarray(A, dtype=float)
    if A.ndim == 1:
        A = A.reshape(1, -1)
    m, n = A.shape
    return f'(mk_mat {m} {n} {C.nested(A.tolist(), leaf)})'


def coq_core(G, leaf=C.flit):
    r1, n, r2 = G.shape
    return f'(mk_core {r1} {n} {r2} {C.nested(np.asarray(G, dtype=float).tolist(), leaf)})'


def coq_tt(Y, leaf=C.flit):
    return '[' + '; '.join(coq_core(G, leaf) for G in Y) + ']'


def coq_list(v, leaf=C.flit):
    return '[' + '; '.join(leaf(x) for x in np.asarray(v, dtype=float).reshape(-1)) + ']'


class Recorder:
    """Wraps module attributes (looked up at call time by teneva) and records every call (args, result)."""

    def __init__(self):
        self.calls = {}
        self._undo = []

    def wrap(self, mod, name, key=None):
        orig = getattr(mod, name)
        key = key or name
        self.calls.setdefault(key, [])
        rec = self

        def f(*a, **k):
            r = orig(*a, **k)
            rec.calls[key].append((tuple(np.array(x, copy=True) if isinstance(x, np.ndarray) else x for x in a), dict(k),
                                   tuple(np.array(x, copy=True) for x in r) if isinstance(r, tuple) else np.array(r, copy=True)))
            return r
        setattr(mod, name, f)
        self._undo.append((mod, name, orig))
        return self

    def __enter__(self):
        return self

    def __exit__(self, *a):
        for mod, name, orig in reversed(self._undo):
            setattr(mod, name, orig)
        self._undo = []


def lapack_recorder():
    import scipy.linalg
    r = Recorder()
    r.wrap(np.linalg, 'qr').wrap(scipy.linalg, 'rq').wrap(np.linalg, 'eigh').wrap(np.linalg, 'svd')
    r.wrap(np, 'argsort')
    return r


def table(entries, size, fmt, dflt):
    """Gallina list indexed by key: entries is dict key -> value; missing keys get dflt"""
    return '[' + '; '.join(fmt(entries[k]) if k in entries else dflt for k in range(size)) + ']'
