#!/bin/bash
# usage: harness/muttest.sh Cxx patch.diff [tier]   -- applies the patch to a scratch copy of /repo, runs the check on it
# (TENEVA_REPO), prints the verdict, removes the copy.  Exit code = exit code of the check (1 = mutant detected).
set -u
pid=$1; patch=$(realpath "$2"); tier=${3:-quick}
d=/dev/shm/mut_${pid}_$$
rm -rf "$d"; mkdir -p "$d"; cp -r /repo/. "$d"/; rm -rf "$d/.git"
( cd "$d" && patch -p1 -s < "$patch" ) || { echo "patch failed"; rm -rf "$d"; exit 3; }
cd "$(dirname "$0")/.."
VERIF_EVID_DIR="$d/.evid" VERIF_REPLAY_DIR="$d/.replay" TENEVA_REPO="$d" timeout 3000 ./check "$pid" --tier "$tier" 2>/dev/null > "$d/.out"; rc=$?
grep -E "^(OK|VIOLATION|KNOWN)" "$d/.out"
[ -n "${MUT_SHOW:-}" ] && cat "$d"/.replay/*.json 2>/dev/null | head -c 3000
rm -rf "$d"
exit $rc
