"""Shared machinery of the C05 / C06 checks (TT-cross): configuration generator, instrumented run of the
implementation (recorders on module attributes, no edit of /repo), Gallina term of the replay."""
import math
import sys
import warnings

import numpy as np

from harness import common as C

STOPS = {None: 0, 'm': 1, 'func': 2, 'e': 3, 'e_vld': 4, 'nswp': 5, 'cb': 6, 'conv': 7}

HEADER = r'''
From Coq Require Import List ZArith Floats Bool Arith.
From TV Require Import Num.Ops Num.InstF Model.Cross.
Import ListNotations.
Open Scope Z_scope.
Definition zn (n : nat) : Z := Z.of_nat n.
Definition zrow (r : list nat) : list Z := map zn r.
Fixpoint zdot (a : list Z) (r : list nat) : Z :=
  match a, r with x :: a', y :: r' => x * zn y + zdot a' r' | _, _ => 0 end.
(* the objective of the replay: an integer-valued function of the multi-index, exact in binary64 *)
Definition gfun0 (a b : list Z) (p : Z) (r : list nat) : float :=
  F_ofZ (1 + ((zdot a r + (zdot b r) * (zdot b r)) mod p)).
(* degenerate objectives: the function vanishes exactly outside the box lo <= r < hi (delta tensor, block-sparse
   tensor, identically zero, zero unless i_0 = 0) *)
Fixpoint inbox (lo hi r : list nat) : bool :=
  match lo, hi, r with
  | l :: lo', h :: hi', x :: r' => Nat.leb l x && Nat.ltb x h && inbox lo' hi' r'
  | _, _, _ => true
  end.
Definition gfun1 (box : option (list nat * list nat)) (a b : list Z) (p : Z) (r : list nat) : float :=
  match box with
  | Some (lo, hi) => if inbox lo hi r then gfun0 a b p r else F_ofZ 0
  | None => gfun0 a b p r
  end.
(* sc is a power of two (exact rescaling of the objective) *)
Definition gfun (sc : float) (box : option (list nat * list nat)) (a b : list Z) (p : Z) (r : list nat) : float :=
  PrimFloat.mul (gfun1 box a b p r) sc.
Definition fl (x : float) : list Z := let (m, e) := F_show x in [m; e].
Definition oflt (o : option float) : option float := o.
Definition run_case (sh : list (nat * nat * nat)) (m : option nat) (e : option float) (nswp : option nat)
    (evld : option float) (hasI hasy : bool) (drmin drmax scale : nat) (cache : option (list (list nat * float)))
    (kNone : option nat) (kcb : option (option nat)) (picks : list (list nat)) (er ac ad : list float)
    (a b : list Z) (p : Z) (box : option (list nat * list nat)) (sc : float) (fuel : nat) : list (list (list Z)) :=
  let Y0 := map (fun s => match s with (r1, n, r2) => mkc r1 n r2 tt end) sh in
  let cf := mkcfg Y0 m e nswp evld hasI hasy drmin drmax scale cache in
  let f := fun (k : nat) (I : rows) =>
     match kNone with
     | Some k0 => if Nat.eqb k k0 then None else Some (map (gfun sc box a b p) I)
     | None => Some (map (gfun sc box a b p) I) end in
  let cb := match kcb with None => None
            | Some None => Some (fun _ : nat => false)
            | Some (Some s0) => Some (fun s : nat => Nat.eqb s s0) end in
  match cross_m OF (P := unit) is_infinity f cb tt (fun _ _ => tt) (fun _ _ => tt) (fun _ _ _ _ => tt)
          (fun k _ _ _ _ _ _ _ => nth k picks []) (fun _ _ _ _ _ _ => tt) (fun _ _ _ _ _ _ => tt)
          (fun k _ => nth k er nan) (fun k _ _ => nth k ac nan) (fun k _ => nth k ad nan) cf fuel with
  | Err er => [[[err_code er]]]
  | Ok s =>
    let c := sK s in
    [[ [0; zn (k_m c); zn (k_mc c); zn (s_nswp s); zn (stop_code (k_stop c));
        match m_max cf with Some x => zn x | None => -1 end; zn (k_nf c); zn (s_nmv s)] ];
     map (fun G => [zn (c1 G); zn (cnn G); zn (c2 G)]) (sY s);
     [fl (s_r s); fl (s_e s); fl (s_evld s)];
     match k_cache c with None => [[-1]] | Some ch => map (fun p => zrow (fst p) ++ fl (snd p)) ch end;
     map (fun G => [zn (c1 G); zn (cnn G); zn (c2 G)]) (sYold s)]
    ++ map (fun q => [zn (match snd q with Some _ => 1 | None => 0 end)%nat] :: map zrow (fst q)) (fcalls c)
    ++ [[[-7]]]
    ++ map (fun e => map zrow (ev_I e)) (rev (k_log c))
  end.
'''


def fshow(x):
    """float -> what C.float_of_show gives back (nan as a string so that == works)"""
    x = float(x)
    if math.isnan(x):
        return 'nan'
    return x


def norm_model(v):
    """convert the (mantissa, exponent) pairs of the model output to floats"""
    if len(v) == 1:
        return v
    v = [list(map(list, b)) for b in v]
    v[2] = [fshow(C.float_of_show(p)) for p in v[2]]
    if v[3] != [[-1]]:
        v[3] = [r[:-2] + [fshow(C.float_of_show(r[-2:]))] for r in v[3]]
    return v


def gfun(a, b, p, I):
    I = np.asarray(I, dtype=np.int64)
    return (1 + ((I @ np.array(a, dtype=np.int64) + (I @ np.array(b, dtype=np.int64)) ** 2) % p)).astype(float)


def objective(cfg, I):
    """the objective of a configuration: gfun, multiplied by the indicator of the box lo <= i < hi if cfg['box'] is set"""
    I = np.asarray(I, dtype=np.int64).reshape(-1, len(cfg['ns']))
    y = gfun(cfg['a'], cfg['b'], cfg['p'], I)
    box = cfg.get('box')
    if box is not None:
        lo, hi = np.array(box[0], dtype=np.int64), np.array(box[1], dtype=np.int64)
        y = np.where(((I >= lo) & (I < hi)).all(axis=1), y, 0.0)
    if cfg.get('sc2'):
        y = y * 2.0 ** int(cfg['sc2'])
    return y


class TooLong(Exception):
    """raised out of cross by the run cap; .partial holds what was observed up to then (same dict as run_impl returns)"""
    partial = None


def make_Y0(cfg):
    """initial tensor; cfg['forms']['Y0'] selects the representation of the SAME values:
    list (canonical) | tuple | F (Fortran-ordered cores) | noncontig (strided views) | int (int64 cores; the values
    are then small integers for every representation of that configuration, cfg['forms']['Y0int'] = True)"""
    rng = np.random.default_rng(cfg['seedY'])
    ns, r0 = cfg['ns'], cfg['r0']
    fm = cfg.get('forms') or {}
    Y = [rng.normal(size=(r0[k], ns[k], r0[k + 1])) for k in range(len(ns))]
    if fm.get('Y0int') or fm.get('Y0') == 'int':
        Y = [np.rint(3 * G) + (np.abs(np.rint(3 * G)).sum() == 0) for G in Y]       # integer valued, not all zero
    if cfg.get('sc2Y'):
        Y = [G * 2.0 ** int(cfg['sc2Y']) for G in Y]
    form = fm.get('Y0', 'list')
    if form == 'F':
        Y = [np.asfortranarray(G) for G in Y]
    elif form == 'noncontig':
        Z = []
        for G in Y:
            B = np.zeros((G.shape[0], 2 * G.shape[1], G.shape[2]))
            B[:, ::2, :] = G
            Z.append(B[:, ::2, :])
        Y = Z
    elif form == 'int':
        Y = [G.astype(np.int64) for G in Y]
    elif form == 'tuple':
        Y = tuple(Y)
    return Y


M_FORMS = {'int': int, 'float': float, 'np.int64': np.int64, 'np.int32': np.int32, 'np.float64': np.float64}
RET_FORMS = {'array': lambda y: y, 'list': lambda y: [float(v) for v in y], 'tuple': lambda y: tuple(float(v) for v in y),
             'float32': lambda y: y.astype(np.float32), 'int': lambda y: y.astype(np.int64),
             'col': lambda y: y.reshape(-1, 1)}
# what the callback returns for "stop" / "go on": the driver must go by truthiness ("If the callback returns a true value")
CB_FORMS = {'True': lambda b: bool(b), '1': lambda b: 1 if b else 0, 'np.bool_': lambda b: np.bool_(b),
            'obj': lambda b: [0] if b else None, 'str': lambda b: 'stop' if b else '',
            'np.float64': lambda b: np.float64(2.5) if b else np.float64(0.0)}


def run_impl(tn, cfg, objective=None, Y0=None, max_calls=4000, max_requests=6000, max_seconds=60.0, shared=None):
    """Run teneva.cross on the configuration with recorders installed.  Returns a dict with everything observed.
    cfg keys: ns r0 seedY m e nswp e_vld hasI hasy dr_min dr_max scale cache(None|list of (idx, val)) kNone kcb
    (None = no callback, -1 = callback never true, s = true at sweep s) a b p box.
    Hard cap on every run: more than max_calls calls of the objective, more than max_requests invocations of
    _func_eval (a run can spin on fully cached batches without ever calling the objective) or more than max_seconds
    of wall time raise TooLong out of cross.  Every generated configuration has a criterion that must fire (nswp, a
    finite budget m - with a cache through the conv rule -, ...), so callers treat TooLong as "run did not stop"."""
    import time as _time
    import inspect
    t_start = _time.time()
    fm = cfg.get('forms') or {}
    shared = shared or {}
    cr = sys.modules['teneva.cross']
    rec = dict(picks=[], er=[], ac=[], ad=[], batches=[], requests=[], mv_args=[])
    saved = dict(_maxvol=tn._maxvol, erank=tn.erank, accuracy=tn.accuracy, accuracy_on_data=tn.accuracy_on_data,
                 _func_eval=cr._func_eval)

    def from_cross():
        return sys._getframe(2).f_code.co_filename.endswith('cross.py')

    def w_maxvol(A, *a, **k):
        I, B = saved['_maxvol'](A, *a, **k)
        if from_cross():
            rec['picks'].append([int(x) for x in I])
            rec['mv_args'].append((A.shape, a, B.shape))
        return I, B

    def w_erank(Y):
        v = saved['erank'](Y)
        if from_cross():
            rec['er'].append(float(v))
        return v

    def w_acc(Y1, Y2):
        v = saved['accuracy'](Y1, Y2)
        if from_cross():
            rec['ac'].append(float(v))
        return v

    def w_ad(Y, I, y, *a, **k):
        v = saved['accuracy_on_data'](Y, I, y, *a, **k)
        if from_cross():
            rec['ad'].append(float(v))
        return v

    def w_fe(f, I, info, cache=None):
        if len(rec['requests']) >= max_requests or _time.time() - t_start > max_seconds:
            raise TooLong()
        rec['requests'].append(np.asarray(I).tolist())
        return saved['_func_eval'](f, I, info, cache)

    cfg_ = cfg
    g = objective or (lambda I: globals()['objective'](cfg_, I))
    ncall = [0]

    def f(I):
        k = ncall[0]
        ncall[0] += 1
        if k > max_calls:
            raise TooLong()
        none = cfg.get('kNone') is not None and k == cfg['kNone']
        rec['batches'].append(dict(I=np.array(I, copy=True), ok=not none, type=type(I).__name__))
        if none:
            return None
        y = RET_FORMS[fm.get('ret', 'array')](np.asarray(g(np.array(I, copy=True)), dtype=float))
        if fm.get('mutate') and isinstance(I, np.ndarray) and I.flags.writeable:
            I[...] = 0 if fm['mutate'] == 'zero' else I + 1      # the objective scribbles on the batch it was handed
        return y

    kcb = cfg.get('kcb')
    cbrec, cbans = [], []

    def cb(Y, info, opts):
        cbrec.append(info['nswp'])
        ans = CB_FORMS[fm.get('cb', 'True')](info['nswp'] == kcb)
        cbans.append(bool(ans))          # the model's callback is the truthiness of the answer
        return ans

    info_omitted = fm.get('info') == 'omitted'
    if info_omitted:
        info = inspect.signature(tn.cross).parameters['info'].default      # the module-level default dict
    else:
        info = shared['info'] if 'info' in shared else {}
    if 'cache' in shared:
        cache = shared['cache']
    else:
        cache = None if cfg['cache'] is None else {tuple(i): float(v) for i, v in cfg['cache']}
    cache0 = None if cache is None else dict(cache)
    d = len(cfg['ns'])
    if Y0 is None:
        Y0 = make_Y0(cfg)
    rngv = np.random.default_rng(cfg['seedY'] + 1)
    I_vld = np.array([[int(rngv.integers(0, n)) for n in cfg['ns']] for _ in range(7)]) if cfg['hasI'] else None
    y_vld = g(np.array([[int(rngv.integers(0, n)) for n in cfg['ns']] for _ in range(7)]) if I_vld is None else I_vld) \
        if cfg['hasy'] else None
    vf = fm.get('vld', 'array')
    if vf == 'list':
        I_vld = None if I_vld is None else I_vld.tolist()
        y_vld = None if y_vld is None else [float(v) for v in y_vld]
    elif vf == 'int32':
        I_vld = None if I_vld is None else I_vld.astype(np.int32)
    conv_m = M_FORMS[fm.get('m', 'int')]
    nps = bool(fm.get('np_scalars'))
    a_m = None if cfg['m'] is None else conv_m(cfg['m'])
    a_nswp = cfg['nswp'] if (cfg['nswp'] is None or not nps) else np.int64(cfg['nswp'])
    a_e = cfg['e'] if (cfg['e'] is None or not nps) else np.float64(cfg['e'])
    a_evld = cfg['e_vld'] if (cfg['e_vld'] is None or not nps) else np.float64(cfg['e_vld'])
    a_drmin, a_drmax = (np.int64(cfg['dr_min']), np.int64(cfg['dr_max'])) if nps else (cfg['dr_min'], cfg['dr_max'])
    kw = dict(m=a_m, e=a_e, nswp=a_nswp, dr_min=a_drmin, dr_max=a_drmax, I_vld=I_vld, y_vld=y_vld, e_vld=a_evld,
              cb=(cb if kcb is not None else None), m_cache_scale=(np.int64(cfg['scale']) if nps else cfg['scale']))
    if nps:
        kw['k0'] = np.int64(100)
    if not info_omitted:
        kw['info'] = info
    if cache is not None or fm.get('cache') != 'omitted':
        kw['cache'] = cache
    out = dict(rec=rec, info=info, cache=cache, cache0=cache0, Y0=Y0, cbrec=cbrec, cbans=cbans, I_vld=I_vld, y_vld=y_vld)
    tn._maxvol, tn.erank, tn.accuracy, tn.accuracy_on_data = w_maxvol, w_erank, w_acc, w_ad
    cr._func_eval = w_fe
    try:
        with warnings.catch_warnings():
            warnings.simplefilter('ignore')
            with np.errstate(all='ignore'):
                Y = tn.cross(f, Y0, **kw)
        out['Y'] = Y
        out['exc'] = None
    except TooLong as e:
        out['Y'], out['exc'], out['ncall'] = None, e, ncall[0]
        e.partial = out
        raise
    except Exception as e:  # noqa
        out['Y'] = None
        out['exc'] = e
    finally:
        tn._maxvol, tn.erank, tn.accuracy, tn.accuracy_on_data = (saved['_maxvol'], saved['erank'],
                                                                   saved['accuracy'], saved['accuracy_on_data'])
        cr._func_eval = saved['_func_eval']
    out['ncall'] = ncall[0]
    if info_omitted:
        out['info'] = dict(info)        # snapshot: the shared default dict is overwritten by the next call
    return out


def impl_blocks(cfg, o):
    """normalised observation of the implementation, in the block layout of run_case"""
    if o['exc'] is not None:
        return [[[C.errclass(o['exc'])]]]
    info, rec, Y = o['info'], o['rec'], o['Y']
    shp = lambda Z: [[int(x) for x in np.shape(G)] if np.ndim(G) == 3 else [-1] + [int(x) for x in np.shape(G)] for G in Z]
    b0 = [0, int(info['m']), int(info['m_cache']), int(info['nswp']), STOPS.get(info['stop'], 99),
          -1 if info['m_max'] is None else int(info['m_max']), o['ncall'], len(rec['picks'])]
    cache = [[-1]] if o['cache'] is None else [[int(x) for x in k] + [fshow(v)] for k, v in o['cache'].items()]
    blocks = [[b0], shp(Y), [fshow(info['r']), fshow(info['e']), fshow(info['e_vld'])], cache, None]
    return blocks


def flit(x):
    return f'({C.flit(x)})%float'


def opt(x, leaf):
    return 'None' if x is None else f'(Some {leaf(x)})'


def coq_term(cfg, o, fuel=None):
    rec = o['rec']
    sh = '[' + '; '.join(f'({int(G.shape[0])}, {int(G.shape[1])}, {int(G.shape[2])})%nat' for G in o['Y0']) + ']'
    nat = lambda x: f'{int(x)}%nat'
    natl = lambda xs: '[' + '; '.join(str(int(x)) for x in xs) + ']%nat'
    cache = 'None' if cfg['cache'] is None else \
        '(Some [' + '; '.join(f'({natl(i)}, {flit(v)})' for i, v in cfg['cache']) + '])'
    kcb = cfg.get('kcb')
    kcbs = 'None' if kcb is None else ('(Some None)' if kcb < 0 else f'(Some (Some {nat(kcb)}))')
    picks = '[' + '; '.join(natl(p) for p in rec['picks']) + ']'
    fl = lambda xs: '[' + '; '.join(flit(x) for x in xs) + ']'
    if fuel is None:
        fuel = int(o['info'].get('nswp', 0)) + 2
    return (f"run_case {sh} {opt(cfg['m'], nat)} {opt(cfg['e'], flit)} {opt(cfg['nswp'], nat)} "
            f"{opt(cfg['e_vld'], flit)} {'true' if cfg['hasI'] else 'false'} {'true' if cfg['hasy'] else 'false'} "
            f"{nat(cfg['dr_min'])} {nat(cfg['dr_max'])} {nat(cfg['scale'])} {cache} {opt(cfg.get('kNone'), nat)} {kcbs} "
            f"{picks} {fl(rec['er'])} {fl([float('nan')] + rec['ac'])} {fl(rec['ad'])} "
            f"{C.zlist(cfg['a'])} {C.zlist(cfg['b'])} {int(cfg['p'])} "
            f"{opt(cfg.get('box'), lambda bx: '(' + natl(bx[0]) + ', ' + natl(bx[1]) + ')')} "
            f"{flit(2.0 ** int(cfg.get('sc2') or 0))} {nat(fuel)}")


def impl_result(cfg, o):
    """full normalised observation (blocks) of an implementation run"""
    blocks = impl_blocks(cfg, o)
    if len(blocks) == 1:
        return blocks
    rec = o['rec']
    # Yold is not observable from outside except through the callback; its shapes equal those of Y at sweep start.
    blocks[4] = None
    out = blocks[:4]
    calls = [[[1 if b['ok'] else 0]] + np.asarray(b['I']).reshape(len(b['I']), -1).tolist() for b in rec['batches']]
    return out + calls + [[[-7]]] + [r for r in rec['requests']]


def norm_model_full(v):
    v = norm_model(v)
    if len(v) == 1:
        return v
    return v[:4] + v[5:]


def gen_cfg(rng, small=False, **force):
    d = rng.choice([2, 2, 3, 3, 4]) if not small else rng.choice([2, 3])
    nmax = 3 if small else 4
    ns = [rng.randint(1, nmax) for _ in range(d)]
    if rng.random() < 0.15:
        ns = [rng.choice([1, 2]) for _ in range(d)]
    rmax = 2 if small else 3
    r0 = [1] + [rng.randint(1, rmax) for _ in range(d - 1)] + [1]
    drs = rng.choice([(0, 0), (0, 0), (1, 1), (0, 1), (0, 2), (1, 2), (2, 2), (2, 1)])
    cfg = dict(ns=ns, r0=r0, seedY=rng.randrange(10 ** 6), m=None, e=None, nswp=None, e_vld=None,
               hasI=False, hasy=False, dr_min=drs[0], dr_max=drs[1], scale=rng.choice([5, 5, 1, 0, 2]),
               cache=None, kNone=None, kcb=None,
               a=[rng.randint(0, 5) for _ in range(d)], b=[rng.randint(0, 3) for _ in range(d)],
               p=rng.choice([5, 7, 11, 13, 101]))
    if cfg['dr_min'] > cfg['dr_max']:
        # dr_min > dr_max is outside the documented domain ("dr_min should be no bigger than dr_max"); _maxvol
        # clips dr_min to dr_max, keep a few such configurations
        if rng.random() < 0.7:
            cfg['dr_min'] = cfg['dr_max']
    if rng.random() < 0.5:
        cfg['cache'] = []
        if rng.random() < 0.2:
            keys = {tuple(rng.randrange(n) for n in ns) for _ in range(rng.randint(1, 4))}
            cfg['cache'] = [(list(k), float(gfun(cfg['a'], cfg['b'], cfg['p'], [list(k)])[0])) for k in sorted(keys)]
    if rng.random() < 0.4:
        cfg['hasI'] = cfg['hasy'] = True
    kind = force.get('kind') or rng.choice(['nswp', 'nswp', 'm', 'm', 'e', 'e_vld', 'cb', 'func', 'mix', 'mix'])
    cfg['kind'] = kind
    if kind == 'nswp':
        cfg['nswp'] = rng.choice([0, 1, 1, 2, 3])
    elif kind == 'm':
        cfg['m'] = rng.choice([1, 2, 3, 5, 8, 13, 21, 34, 55, 89, 144, 400])
        if rng.random() < 0.3:
            cfg['nswp'] = rng.choice([1, 2, 4])
    elif kind == 'e':
        cfg['e'] = rng.choice([1e-10, 1e-3, 0.5, 10.0])
        cfg['nswp'] = rng.choice([None, 3, 5])
        if cfg['nswp'] is None:
            cfg['m'] = 3000
    elif kind == 'e_vld':
        cfg['hasI'] = cfg['hasy'] = True
        cfg['e_vld'] = rng.choice([1e-10, 1e-3, 0.5, 1e6])
        cfg['nswp'] = rng.choice([3, 5])
        if rng.random() < 0.3:
            cfg['nswp'] = None
            cfg['m'] = 3000
    elif kind == 'cb':
        cfg['nswp'] = rng.choice([2, 3, 4])
        cfg['kcb'] = rng.choice([-1, 1, 1, 2, 3])
    elif kind == 'func':
        cfg['nswp'] = rng.choice([1, 2, 3])
        cfg['kNone'] = rng.randint(0, 4 * d)
    else:
        cfg['nswp'] = rng.choice([None, 0, 1, 2, 3])
        cfg['m'] = rng.choice([None, 0, 7, 30, 100, 1000])
        cfg['e'] = rng.choice([None, 1e-12, 1e-2])
        if rng.random() < 0.4:
            cfg['hasI'] = cfg['hasy'] = True
            cfg['e_vld'] = rng.choice([None, 1e-12, 1e-2])
        cfg['kcb'] = rng.choice([None, None, -1, 1, 2])
        cfg['kNone'] = rng.choice([None, None, None, 0, 3, 9])
        if cfg['nswp'] is None and cfg['m'] in (None, 0):
            cfg['nswp'] = 3
    cfg.update({k: v for k, v in force.items() if k != 'kind'})
    return cfg


def gen_degen(rng, fam=None, d=None, cache=None, dr_min=None, budget=None):
    """degenerate but valid objectives whose sampled fibres are exactly zero: delta tensor (one non-zero entry),
    block-sparse tensor, identically zero, zero unless i_0 = 0; with and without cache, dr_min in {0, 1, 2},
    d in 2..4, sweep-bounded or with a small budget.  Here maxvol / maxvol_rect work on unfoldings with zero rows;
    they must still return pairwise distinct rows (no index requested twice in a batch)."""
    fam = fam or rng.choice(['delta', 'block', 'zero', 'i0'])
    d = d or rng.choice([2, 3, 3, 4])
    ns = [rng.randint(2, 4 if d < 4 else 3) for _ in range(d)]
    if fam == 'delta':
        lo = [rng.randrange(n) for n in ns]
        hi = [x + 1 for x in lo]
    elif fam == 'block':
        lo = [rng.randrange(n) for n in ns]
        hi = [rng.randint(x + 1, n) for x, n in zip(lo, ns)]
    elif fam == 'zero':
        lo, hi = [0] * d, [0] * d
    else:
        lo, hi = [0] * d, [1] + ns[1:]
    dr_min = rng.choice([0, 1, 1, 2]) if dr_min is None else dr_min
    dr_max = max(dr_min, rng.choice([1, 1, 2]))
    cfg = dict(ns=ns, r0=[1] + [rng.randint(1, 2) for _ in range(d - 1)] + [1], seedY=rng.randrange(10 ** 6),
               m=None, e=None, nswp=rng.choice([1, 2, 3]), e_vld=None, hasI=False, hasy=False, dr_min=dr_min,
               dr_max=dr_max, scale=rng.choice([5, 5, 1]), cache=([] if rng.random() < 0.6 else None) if cache is None
               else ([] if cache else None), kNone=None, kcb=None,
               a=[rng.randint(0, 5) for _ in range(d)], b=[rng.randint(0, 3) for _ in range(d)],
               p=rng.choice([5, 7, 11]), box=[lo, hi], kind='degen:' + fam)
    if budget is None:
        budget = rng.random() < 0.35
    if budget:
        cfg['m'] = rng.choice([3, 8, 20, 50, 120])
        cfg['nswp'] = rng.choice([None, 3])
    if rng.random() < 0.15:
        cfg['hasI'] = cfg['hasy'] = True
    return cfg


def gen_prio(rng):
    """configurations in which several criteria of _info_appr are met by the same sweep: full initial ranks (the cross
    interpolation is exact after one sweep, so e_vld drops to ~1e-16, far below its threshold, while the random
    initial tensor is far above it), a huge e threshold, optionally nswp = 1 -> exercises the priority e_vld > e > nswp"""
    d = rng.choice([2, 2, 3])
    ns = [rng.randint(2, 3) for _ in range(d)]
    prod = lambda xs: int(np.prod(xs)) if xs else 1
    r0 = [1] + [min(prod(ns[:k]), prod(ns[k:])) for k in range(1, d)] + [1]
    which = rng.choice(['e+e_vld', 'e+e_vld+nswp', 'e+nswp', 'e_vld+nswp'])
    cfg = dict(ns=ns, r0=r0, seedY=rng.randrange(10 ** 6), m=None, e=None, nswp=4, e_vld=None,
               hasI=True, hasy=True, dr_min=0, dr_max=0, scale=5, cache=rng.choice([None, []]), kNone=None,
               kcb=rng.choice([None, -1]), a=[rng.randint(0, 5) for _ in range(d)], b=[rng.randint(0, 3) for _ in range(d)],
               p=rng.choice([5, 7]), kind='prio:' + which)
    if 'e+' in which or which.startswith('e+'):
        cfg['e'] = 1.0e3
    if 'e_vld' in which:
        cfg['e_vld'] = 0.5
    if 'nswp' in which:
        cfg['nswp'] = 1
    return cfg


def describe(cfg):
    return {k: cfg[k] for k in ('ns', 'r0', 'seedY', 'm', 'e', 'nswp', 'e_vld', 'hasI', 'hasy', 'dr_min', 'dr_max',
                                'scale', 'cache', 'kNone', 'kcb', 'a', 'b', 'p')} | {'box': cfg.get('box'), 'sc2': cfg.get('sc2'), 'sc2Y': cfg.get('sc2Y'), 'forms': cfg.get('forms')}
