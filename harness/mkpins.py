#!/venv/bin/python
"""Pins the AST of every teneva source file (docstrings and comments ignored) in harness/source_pins.json.
The check compares /repo's working tree with these pins: a difference never raises an alarm by itself, it only makes
the check spend more effort (deep failing-input search) on the properties anchored in / depending on the changed files."""
import json, os, sys
HERE = os.path.dirname(os.path.dirname(os.path.abspath(__file__)))
sys.path.insert(0, HERE)
from harness import common as C
pins = C.source_hashes()
json.dump(pins, open(os.path.join(HERE, 'harness', 'source_pins.json'), 'w'), indent=1, sort_keys=True)
print(len(pins), 'files pinned at', C.REPO)
sig = C.signature_table()
json.dump(sig, open(os.path.join(HERE, 'harness', 'signature_pins.json'), 'w'), indent=1, sort_keys=True)
print(len(sig), 'signatures pinned')
